/-
  MpProofs/Hash.lean — helper lemmas for C05 (hash half): correctness of the modular power,
  2^61 ≡ 1 (mod P), closed form of `mpf_hash_raw`, well-definedness of the hash on rational values,
  integer facts about the reductions modulo 2^64.
-/
import MpModel.Core
import MpModel.Hash
import MpProofs.Spec
import Mathlib.Data.Nat.ModEq

namespace Mp

/-! ### `powMod` is modular exponentiation -/

theorem powModAux_eq (fuel : Nat) : ∀ (acc b e m : Nat), e < 2 ^ fuel → acc % m = acc →
    powModAux fuel acc b e m = acc * b ^ e % m := by
  induction fuel with
  | zero =>
    intro acc b e m he hacc
    have : e = 0 := by simpa using he
    subst this
    simp [powModAux, hacc]
  | succ f ih =>
    intro acc b e m he hacc
    unfold powModAux
    by_cases h0 : e = 0
    · subst h0; simp [hacc]
    · simp only [h0, if_false]
      have he2 : e / 2 < 2 ^ f := by
        rw [Nat.pow_succ] at he; omega
      have hdecomp : e = 2 * (e / 2) + e % 2 := by omega
      have hpow : b ^ e = (b * b) ^ (e / 2) * b ^ (e % 2) := by
        conv_lhs => rw [hdecomp]
        rw [Nat.pow_add, Nat.pow_mul, Nat.pow_two]
      by_cases hodd : e % 2 = 1
      · simp only [hodd, if_true]
        rw [ih _ _ _ _ he2 (Nat.mod_mod _ _), hpow, hodd, Nat.pow_one]
        have h1 : (b * b % m) ^ (e / 2) ≡ (b * b) ^ (e / 2) [MOD m] := (Nat.mod_modEq _ _).pow _
        have h2 : acc * b % m ≡ acc * b [MOD m] := Nat.mod_modEq _ _
        have := h2.mul h1
        unfold Nat.ModEq at this
        rw [this]; congr 1; ring
      · have hev : e % 2 = 0 := by omega
        simp only [hodd, if_false]
        rw [ih _ _ _ _ he2 hacc, hpow, hev, Nat.pow_zero, Nat.mul_one]
        have h1 : (b * b % m) ^ (e / 2) ≡ (b * b) ^ (e / 2) [MOD m] := (Nat.mod_modEq _ _).pow _
        have := (Nat.ModEq.refl acc).mul h1
        exact this

/-- `pow(b, e, m) = b^e mod m` -/
theorem powMod_eq (b e m : Nat) : powMod b e m = b ^ e % m := by
  unfold powMod
  rw [powModAux_eq _ _ _ _ _ Nat.lt_log2_self (Nat.mod_mod _ _)]
  have : 1 % m * b ^ e ≡ 1 * b ^ e [MOD m] := (Nat.mod_modEq _ _).mul_right _
  rw [this, Nat.one_mul]

/-! ### powers of two modulo P = 2^61 - 1 -/

theorem pyP_eq : pyP = 2305843009213693951 := by decide
theorem HASH_MODULUS_eq : HASH_MODULUS = 2305843009213693951 := by decide

theorem two_pow_61_mod : 2 ^ 61 % pyP = 1 := by decide

/-- exponents of 2 can be reduced modulo 61 -/
theorem two_pow_mod (k : Nat) : 2 ^ k % pyP = 2 ^ (k % 61) % pyP := by
  conv_lhs => rw [← Nat.div_add_mod k 61, Nat.pow_add, Nat.pow_mul]
  have h : (2 ^ 61) ^ (k / 61) ≡ 1 ^ (k / 61) [MOD pyP] := by
    apply Nat.ModEq.pow
    exact two_pow_61_mod
  have := h.mul_right (2 ^ (k % 61))
  rw [Nat.one_pow, Nat.one_mul] at this
  exact this

theorem two_pow_mod_congr {j k : Nat} (h : j % 61 = k % 61) : 2 ^ j % pyP = 2 ^ k % pyP := by
  rw [two_pow_mod j, two_pow_mod k, h]

/-- a power of two is never divisible by P -/
theorem two_pow_mod_ne_zero (k : Nat) : 2 ^ k % pyP ≠ 0 := by
  rw [two_pow_mod]
  have hk : k % 61 < 61 := Nat.mod_lt _ (by decide)
  have hlt : 2 ^ (k % 61) < pyP := by
    have : 2 ^ (k % 61) ≤ 2 ^ 60 := Nat.pow_le_pow_right (by decide) (by omega)
    have : (2:Nat) ^ 60 < pyP := by decide
    omega
  rw [Nat.mod_eq_of_lt hlt]
  exact Nat.ne_of_gt (Nat.two_pow_pos _)

/-! ### closed form of `mpf_hash_raw` and of the documented hash of a dyadic rational -/

/-- the exponent reduced modulo 61 = `sys.hash_info` bits (floor modulo, as Python's `%`) -/
def hexp (e : Int) : Nat := (e % 61).toNat

/-- magnitude of the hash of `man · 2^exp` -/
def hmag (man : Nat) (exp : Int) : Nat := man * 2 ^ hexp exp % pyP

/-- signed hash of `(-1)^sign · man · 2^exp`, before -1 ↦ -2 -/
def hashTriple (sign man : Nat) (exp : Int) : Int :=
  if sign ≠ 0 then -(hmag man exp : Int) else (hmag man exp : Int)

theorem hmag_lt (man : Nat) (exp : Int) : hmag man exp < pyP :=
  Nat.mod_lt _ (by decide)

theorem hmag_zero (exp : Int) : hmag 0 exp = 0 := by simp [hmag]

theorem hashTriple_range (s m : Nat) (e : Int) :
    -(pyP : Int) < hashTriple s m e ∧ hashTriple s m e < (pyP : Int) := by
  have := hmag_lt m e
  unfold hashTriple; split <;> omega

/-- `x` is none of the three special tuples recognised by `mpf_hash_raw` -/
def NotSpecialTuple (x : Mpf) : Prop := ¬ (x.man = 0 ∧ (x = fnan ∨ x = finf ∨ x = fninf))

theorem notSpecialTuple_of_finite {x : Mpf} (h : Finite x) : NotSpecialTuple x := by
  unfold Finite at h
  unfold NotSpecialTuple
  rintro ⟨hm, hs⟩
  apply h
  refine ⟨hm, ?_⟩
  rcases hs with rfl | rfl | rfl <;> decide

/-- `mpf_hash_raw` of anything but the three special tuples is `± (man · 2^(exp mod 61) mod P)`. -/
theorem mpf_hash_raw_closed (x : Mpf) (h : NotSpecialTuple x) :
    mpf_hash_raw x = hashTriple x.sign x.man x.exp := by
  unfold NotSpecialTuple at h
  have h1 : ¬ (x.man = 0 ∧ x = fnan) := fun ⟨a, b⟩ => h ⟨a, Or.inl b⟩
  have h2 : ¬ (x.man = 0 ∧ x = finf) := fun ⟨a, b⟩ => h ⟨a, Or.inr (Or.inl b)⟩
  have h3 : ¬ (x.man = 0 ∧ x = fninf) := fun ⟨a, b⟩ => h ⟨a, Or.inr (Or.inr b)⟩
  unfold mpf_hash_raw
  simp only [h1, h2, h3, if_false]
  have he : (if x.exp ≥ 0 then (x.exp % (HASH_BITS : Int)).toNat
      else HASH_BITS - 1 - ((-1 - x.exp) % (HASH_BITS : Int)).toNat) = hexp x.exp := by
    unfold hexp
    simp only [HASH_BITS]
    split <;> omega
  have hm : (x.man % HASH_MODULUS) <<< hexp x.exp % HASH_MODULUS = hmag x.man x.exp := by
    unfold hmag
    rw [Nat.shiftLeft_eq]
    have : HASH_MODULUS = pyP := by decide
    rw [this]
    exact (Nat.mod_modEq _ _).mul_right _
  unfold hashTriple
  simp only [he, hm]

theorem powMod_one (e : Nat) : powMod 1 e pyP = 1 := by
  rw [powMod_eq, Nat.one_pow]; decide

/-- the documented hash of the rational `± man · 2^exp` in closed form -/
theorem pyHashDyadic_closed (s m : Nat) (e : Int) :
    pyHashDyadic s m e = fixM1 (hashTriple s m e) := by
  unfold pyHashDyadic
  by_cases he : e ≥ 0
  · simp only [he, if_true]
    obtain ⟨k, rfl⟩ := Int.eq_ofNat_of_zero_le he
    simp only [Int.toNat_natCast]
    unfold pyHashFraction
    have h1 : ¬ (1 % pyP = 0) := by decide
    simp only [h1, if_false, powMod_one, Nat.mul_one, Nat.mod_mod]
    have hk : hmag m (k : Int) = m * 2 ^ k % pyP := by
      unfold hmag hexp
      have : ((k : Int) % 61).toNat = k % 61 := by omega
      rw [this]
      exact (Nat.ModEq.refl m).mul (two_pow_mod k).symm
    unfold hashTriple
    by_cases hs : s ≠ 0
    · simp only [if_pos hs]
      have hna : (-(m : Int) * ((2 ^ k : Nat) : Int)).natAbs = m * 2 ^ k := by
        rw [Int.natAbs_mul, Int.natAbs_neg, Int.natAbs_natCast, Int.natAbs_natCast]
      rw [hna, ← hk]
      by_cases hm0 : m = 0
      · subst hm0; simp [hmag_zero]
      · have hneg : -(m : Int) * ((2 ^ k : Nat) : Int) < 0 := by
          have : (0 : Int) < ((2 ^ k : Nat) : Int) := by exact_mod_cast Nat.two_pow_pos k
          have : (0 : Int) < (m : Int) := by omega
          nlinarith
        simp only [hneg, if_true]
    · have hs0 : s = 0 := by omega
      subst hs0
      simp only [ne_eq, not_true_eq_false, if_false]
      have hna : ((m : Int) * ((2 ^ k : Nat) : Int)).natAbs = m * 2 ^ k := by
        rw [Int.natAbs_mul, Int.natAbs_natCast, Int.natAbs_natCast]
      have hnn : ¬ ((m : Int) * ((2 ^ k : Nat) : Int) < 0) := by
        have : (0 : Int) ≤ (m : Int) * ((2 ^ k : Nat) : Int) := by positivity
        omega
      rw [hna, ← hk]
      simp only [hnn, if_false]
  · simp only [he, if_false]
    have hneg : e < 0 := by omega
    obtain ⟨k, hk⟩ : ∃ k : Nat, e = -(k : Int) := ⟨(-e).toNat, by omega⟩
    subst hk
    have hk0 : 0 < k := by omega
    simp only [Int.neg_neg, Int.toNat_natCast]
    unfold pyHashFraction
    simp only [two_pow_mod_ne_zero k, if_false, powMod_eq]
    have hmagk : hmag m (-(k : Int)) = m % pyP * ((2 ^ k) ^ (pyP - 2) % pyP) % pyP := by
      unfold hmag hexp
      rw [← Nat.pow_mul]
      have hred : 2 ^ (k * (pyP - 2)) % pyP = 2 ^ ((-(k : Int)) % 61).toNat % pyP := by
        apply two_pow_mod_congr
        rw [pyP_eq]
        omega
      have a1 : m % pyP ≡ m [MOD pyP] := Nat.mod_modEq _ _
      have a2 : 2 ^ (k * (pyP - 2)) % pyP ≡ 2 ^ ((-(k : Int)) % 61).toNat [MOD pyP] := by
        unfold Nat.ModEq; rw [Nat.mod_mod, hred]
      exact (a1.mul a2).symm
    unfold hashTriple
    by_cases hs : s ≠ 0
    · simp only [if_pos hs, Int.natAbs_neg, Int.natAbs_natCast]
      rw [← hmagk]
      by_cases hm0 : m = 0
      · subst hm0; simp [hmag_zero]
      · have : -(m : Int) < 0 := by omega
        simp only [this, if_true]
    · have hs0 : s = 0 := by omega
      subst hs0
      simp only [ne_eq, not_true_eq_false, if_false, Int.natAbs_natCast]
      rw [← hmagk]
      have : ¬ ((m : Int) < 0) := by omega
      simp only [this, if_false]

/-! ### the hash depends only on the rational value -/

theorem hmag_shift (m j : Nat) (e : Int) : hmag (m * 2 ^ j) e = hmag m (e + j) := by
  unfold hmag
  rw [Nat.mul_assoc, ← Nat.pow_add]
  have : 2 ^ (j + hexp e) % pyP = 2 ^ hexp (e + j) % pyP := by
    apply two_pow_mod_congr
    unfold hexp
    omega
  exact (Nat.ModEq.refl m).mul this

theorem hmag_congr_le {m1 m2 : Nat} {e1 e2 : Int} (hle : e1 ≤ e2)
    (h : (m1 : ℚ) * (2 : ℚ) ^ e1 = (m2 : ℚ) * (2 : ℚ) ^ e2) : hmag m1 e1 = hmag m2 e2 := by
  obtain ⟨j, hj⟩ : ∃ j : Nat, e2 = e1 + (j : Int) := ⟨(e2 - e1).toNat, by omega⟩
  subst hj
  have h2 : (2 : ℚ) ^ e1 ≠ 0 := zpow_ne_zero _ (by norm_num)
  rw [zpow_add₀ (by norm_num : (2 : ℚ) ≠ 0), zpow_natCast] at h
  have h3 : (m1 : ℚ) = (m2 : ℚ) * (2 : ℚ) ^ j := by
    have : (m1 : ℚ) * (2 : ℚ) ^ e1 = ((m2 : ℚ) * (2 : ℚ) ^ j) * (2 : ℚ) ^ e1 := by rw [h]; ring
    exact mul_right_cancel₀ h2 this
  have h4 : m1 = m2 * 2 ^ j := by exact_mod_cast h3
  rw [h4, hmag_shift]

theorem hmag_congr {m1 m2 : Nat} {e1 e2 : Int}
    (h : (m1 : ℚ) * (2 : ℚ) ^ e1 = (m2 : ℚ) * (2 : ℚ) ^ e2) : hmag m1 e1 = hmag m2 e2 := by
  rcases le_total e1 e2 with hle | hle
  · exact hmag_congr_le hle h
  · exact (hmag_congr_le hle h.symm).symm

/-- two sign/mantissa/exponent triples (signs 0 or 1) denoting the same rational number
have the same hash -/
theorem hashTriple_congr {s1 m1 s2 m2 : Nat} {e1 e2 : Int} (hs1 : s1 ≤ 1) (hs2 : s2 ≤ 1)
    (h : (-1 : ℚ) ^ s1 * (m1 : ℚ) * (2 : ℚ) ^ e1 = (-1 : ℚ) ^ s2 * (m2 : ℚ) * (2 : ℚ) ^ e2) :
    hashTriple s1 m1 e1 = hashTriple s2 m2 e2 := by
  have p1 : (0 : ℚ) < (2 : ℚ) ^ e1 := zpow_pos (by norm_num) _
  have p2 : (0 : ℚ) < (2 : ℚ) ^ e2 := zpow_pos (by norm_num) _
  have n1 : (0 : ℚ) ≤ (m1 : ℚ) := Nat.cast_nonneg _
  have n2 : (0 : ℚ) ≤ (m2 : ℚ) := Nat.cast_nonneg _
  by_cases hm1 : m1 = 0
  · subst hm1
    have hm2 : m2 = 0 := by
      have h0 : (-1 : ℚ) ^ s2 * (m2 : ℚ) * (2 : ℚ) ^ e2 = 0 := by rw [← h]; simp
      have hne : (-1 : ℚ) ^ s2 ≠ 0 := pow_ne_zero _ (by norm_num)
      have : (m2 : ℚ) = 0 := by
        rcases mul_eq_zero.mp h0 with h' | h'
        · rcases mul_eq_zero.mp h' with h'' | h''
          · exact absurd h'' hne
          · exact h''
        · exact absurd h' (ne_of_gt p2)
      exact_mod_cast this
    subst hm2
    unfold hashTriple
    simp [hmag_zero]
  · have hm1pos : (0 : ℚ) < (m1 : ℚ) := by
      have : 0 < m1 := Nat.pos_of_ne_zero hm1
      exact_mod_cast this
    have q1 : (0 : ℚ) < (m1 : ℚ) * (2 : ℚ) ^ e1 := mul_pos hm1pos p1
    have q2 : (0 : ℚ) ≤ (m2 : ℚ) * (2 : ℚ) ^ e2 := mul_nonneg n2 (le_of_lt p2)
    have hs1' : s1 = 0 ∨ s1 = 1 := by omega
    have hs2' : s2 = 0 ∨ s2 = 1 := by omega
    rcases hs1' with rfl | rfl <;> rcases hs2' with rfl | rfl
    · have h' : (m1 : ℚ) * (2 : ℚ) ^ e1 = (m2 : ℚ) * (2 : ℚ) ^ e2 := by
        simpa using h
      unfold hashTriple
      simp [hmag_congr h']
    · exfalso
      have h' : (m1 : ℚ) * (2 : ℚ) ^ e1 = -((m2 : ℚ) * (2 : ℚ) ^ e2) := by
        have := h; simp only [pow_zero, pow_one, one_mul] at this; linarith
      linarith
    · exfalso
      have h' : -((m1 : ℚ) * (2 : ℚ) ^ e1) = (m2 : ℚ) * (2 : ℚ) ^ e2 := by
        have := h; simp only [pow_zero, pow_one, one_mul] at this; linarith
      linarith
    · have h' : (m1 : ℚ) * (2 : ℚ) ^ e1 = (m2 : ℚ) * (2 : ℚ) ^ e2 := by
        have := h; simp only [pow_one] at this; linarith
      unfold hashTriple
      simp [hmag_congr h']

/-! ### integer facts: CPython's post-processing and the reductions modulo 2^64 -/

theorem pyHashInt_nonneg (h : Int) (h0 : 0 ≤ h) : pyHashInt h = h % 2305843009213693951 := by
  unfold pyHashInt pyHashNat fixM1
  rw [pyP_eq]
  have : ¬ (h < 0) := by omega
  simp only [this, if_false]
  split <;> omega

theorem finalHash_of_range (h : Int) (h1 : -9223372036854775808 ≤ h) (h2 : h < 9223372036854775808) :
    finalHash h = fixM1 h := by
  unfold finalHash
  simp only [pyHashWidth]
  have : -(2 ^ (64 - 1) : Int) ≤ h ∧ h < (2 ^ (64 - 1) : Int) := by
    constructor <;> norm_num <;> omega
  simp only [this]
  simp

theorem finalHash_of_big (h : Int) (h2 : 9223372036854775808 ≤ h) :
    finalHash h = h % 2305843009213693951 := by
  unfold finalHash
  simp only [pyHashWidth]
  have : ¬ (-(2 ^ (64 - 1) : Int) ≤ h ∧ h < (2 ^ (64 - 1) : Int)) := by
    norm_num; omega
  simp only [this, if_false]
  rw [pyHashInt_nonneg h (by omega)]
  unfold fixM1
  split <;> omega

theorem pyHashComplex_eq (a b : Int) :
    pyHashComplex a b = fixM1 ((a + 1000003 * b + 9223372036854775808) % 18446744073709551616 - 9223372036854775808) := by
  unfold pyHashComplex
  simp only [pyHashWidth, pyHashImag]
  norm_num
  congr 1
  split <;> omega

theorem fixM1_cases (h : Int) : (h = -1 ∧ fixM1 h = -2) ∨ (h ≠ -1 ∧ fixM1 h = h) := by
  unfold fixM1; split <;> simp_all

theorem mpc_core_iff (a b : Int)
    (ha : -2305843009213693951 < a ∧ a < 2305843009213693951)
    (hb : -2305843009213693951 < b ∧ b < 2305843009213693951) :
    finalHash ((a + 1000003 * b) % 18446744073709551616) = pyHashComplex (fixM1 a) (fixM1 b) ↔
      (a ≠ -1 ∧ b ≠ -1 ∧ (a + 1000003 * b) % 18446744073709551616 < 9223372036854775808) := by
  rw [pyHashComplex_eq]
  have hfa := fixM1_cases a
  have hfb := fixM1_cases b
  generalize fixM1 a = a' at *
  generalize fixM1 b = b' at *
  have hfw := fixM1_cases ((a' + 1000003 * b' + 9223372036854775808) % 18446744073709551616 - 9223372036854775808)
  generalize fixM1 ((a' + 1000003 * b' + 9223372036854775808) % 18446744073709551616 - 9223372036854775808) = r at *
  by_cases hu : (a + 1000003 * b) % 18446744073709551616 < 9223372036854775808
  · rw [finalHash_of_range _ (by omega) hu]
    have hfu := fixM1_cases ((a + 1000003 * b) % 18446744073709551616)
    generalize fixM1 ((a + 1000003 * b) % 18446744073709551616) = fu at *
    omega
  · rw [finalHash_of_big _ (by omega)]
    have hr : r < 0 ∨ 2305843009213693951 ≤ r := by
      rcases hfa with ⟨ha1, ha2⟩ | ⟨ha1, ha2⟩ <;> rcases hfb with ⟨hb1, hb2⟩ | ⟨hb1, hb2⟩ <;>
        subst ha2 hb2
      · subst ha1 hb1; omega
      · subst ha1; generalize 1000003 * b' = X at *; omega
      · subst hb1; omega
      · generalize 1000003 * b' = X at *; omega
    have hm : 0 ≤ (a + 1000003 * b) % 18446744073709551616 % 2305843009213693951 ∧
        (a + 1000003 * b) % 18446744073709551616 % 2305843009213693951 < 2305843009213693951 := by omega
    omega

/-! ### range of `mpf_hash_raw`, `finalHash` after `mpf_hash_raw` -/

theorem mpf_hash_raw_range (x : Mpf) :
    -2305843009213693951 < mpf_hash_raw x ∧ mpf_hash_raw x < 2305843009213693951 := by
  by_cases h : NotSpecialTuple x
  · rw [mpf_hash_raw_closed x h]
    have := hashTriple_range x.sign x.man x.exp
    rw [pyP_eq] at this
    exact_mod_cast this
  · unfold NotSpecialTuple at h
    have h' : x.man = 0 ∧ (x = fnan ∨ x = finf ∨ x = fninf) := by
      by_contra hc; exact h hc
    rcases h'.2 with rfl | rfl | rfl <;> decide

theorem finalHash_mpf_hash_raw (x : Mpf) : finalHash (mpf_hash_raw x) = fixM1 (mpf_hash_raw x) := by
  have := mpf_hash_raw_range x
  exact finalHash_of_range _ (by omega) (by omega)

theorem mpf_hash_eq (x : Mpf) : mpf_hash x = fixM1 (mpf_hash_raw x) := rfl

theorem fixM1_idem (h : Int) : fixM1 (fixM1 h) = fixM1 h := by
  unfold fixM1; split_ifs <;> omega

/-- the repaired `mpc_hash_old` is literally the documented complex hash of the repaired component hashes -/
theorem mpc_hash_eq (re im : Mpf) :
    mpc_hash re im = pyHashComplex (mpf_hash re) (mpf_hash im) := by
  unfold mpc_hash pyHashComplex fixM1
  simp only [HASH_IMAG, HASH_WIDTH, pyHashImag, pyHashWidth]
  norm_num

theorem pyHashComplex_range (a b : Int) :
    -9223372036854775808 ≤ pyHashComplex a b ∧ pyHashComplex a b < 9223372036854775808 := by
  rw [pyHashComplex_eq]
  have := fixM1_cases ((a + 1000003 * b + 9223372036854775808) % 18446744073709551616 - 9223372036854775808)
  omega

theorem finalHash_pyHashComplex (a b : Int) : finalHash (pyHashComplex a b) = pyHashComplex a b := by
  have h := pyHashComplex_range a b
  rw [finalHash_of_range _ h.1 h.2]
  rw [pyHashComplex_eq, fixM1_idem]

/-- a complex hash with zero imaginary hash is the (post-processed) real hash -/
theorem pyHashComplex_zero (a : Int) (h1 : -2305843009213693951 < a) (h2 : a < 2305843009213693951) :
    pyHashComplex a 0 = fixM1 a := by
  rw [pyHashComplex_eq]
  congr 1
  omega

/-! ### ints and `mpq` -/

theorem hmag_exp_zero (m : Nat) : hmag m 0 = m % pyP := by
  unfold hmag hexp; simp

theorem pyHashInt_eq_hashTriple (n : Int) :
    pyHashInt n = fixM1 (hashTriple (if n < 0 then 1 else 0) n.natAbs 0) := by
  unfold pyHashInt pyHashNat hashTriple
  rw [hmag_exp_zero]
  by_cases h : n < 0 <;> simp [h]

theorem val_of_int (n : Int) :
    (-1 : ℚ) ^ (if n < 0 then 1 else 0 : Nat) * ((n.natAbs : Nat) : ℚ) * (2 : ℚ) ^ (0 : Int) = (n : ℚ) := by
  by_cases h : n < 0
  · simp only [h, if_true, pow_one, zpow_zero, mul_one]
    obtain ⟨k, rfl⟩ : ∃ k : Nat, n = -(k : Int) := ⟨n.natAbs, by omega⟩
    simp
  · simp only [h, if_false, pow_zero, zpow_zero, mul_one, one_mul]
    obtain ⟨k, rfl⟩ : ∃ k : Nat, n = (k : Int) := ⟨n.natAbs, by omega⟩
    simp

theorem mpq_hash_two_pow (a : Int) (k : Nat) : mpq_hash a (2 ^ k) = pyHashFraction a (2 ^ k) := by
  unfold mpq_hash pyHashFraction fixM1
  have hP : HASH_MODULUS = pyP := by decide
  simp only [hP, powMod_eq, two_pow_mod_ne_zero k, if_false]
  have hinv : (2 ^ k) ^ (pyP - 2) % pyP ≠ 0 := by
    rw [← Nat.pow_mul]; exact two_pow_mod_ne_zero _
  simp only [hinv, if_false]
  have : a.natAbs * ((2 ^ k) ^ (pyP - 2) % pyP) % pyP =
      a.natAbs % pyP * ((2 ^ k) ^ (pyP - 2) % pyP) % pyP :=
    ((Nat.mod_modEq _ _).mul_right _).symm
  rw [this]

end Mp
