/-
  MpProofs/EnclExp.lean — soundness of `expI` (Taylor sum + `Real.exp_bound` + repeated squaring).
-/
import MpProofs.EnclArith
import Mathlib.Analysis.Complex.Exponential

namespace Mp.Encl
open Finset

theorem expTerms_sound (wp : ℕ) (X : DI) (x : ℝ) (hx : X.Mem x) (n : ℕ) :
    (expTerms wp X n).1.Mem (x ^ n / n.factorial) ∧
    (expTerms wp X n).2.Mem (∑ m ∈ range n, x ^ m / m.factorial) := by
  induction n with
  | zero => simpa [expTerms] using And.intro DI.mem_one DI.mem_zero
  | succ n ih =>
    obtain ⟨h1, h2⟩ := ih
    constructor
    · have h := DI.mem_divNat wp (DI.mem_mul h1 hx) (Nat.succ_pos n)
      have e : x ^ (n + 1) / ((n + 1).factorial : ℝ) = x ^ n / (n.factorial : ℝ) * x / ((n + 1 : ℕ) : ℝ) := by
        rw [Nat.factorial_succ]; push_cast; field_simp; ring
      rw [e]; exact h
    · have h := DI.mem_round (DI.mem_add h2 h1) wp
      rw [Finset.sum_range_succ]; exact h

theorem expSmall_sound (wp n : ℕ) (X : DI) (x : ℝ) (hx : X.Mem x) (h1 : |x| ≤ 1) (hn : 0 < n) :
    (expSmall wp n X).Mem (Real.exp x) := by
  obtain ⟨ht, hs⟩ := expTerms_sound wp X x hx n
  unfold expSmall
  apply DI.mem_round
  apply DI.mem_widen hs
  have hb := Real.exp_bound h1 hn
  refine le_trans hb ?_
  rw [Dy.val_shift]
  have hm := DI.abs_le_mag ht
  have hfac : (0 : ℝ) < (n.factorial : ℝ) := by exact_mod_cast Nat.factorial_pos n
  have hn' : (1 : ℝ) ≤ (n : ℝ) := by exact_mod_cast hn
  have e : |x| ^ n * ((n.succ : ℝ) / ((n.factorial : ℝ) * (n : ℝ))) =
      |x ^ n / (n.factorial : ℝ)| * (((n : ℝ) + 1) / (n : ℝ)) := by
    rw [abs_div, abs_pow, abs_of_pos hfac]; push_cast; field_simp
  rw [e]
  have h2 : ((n : ℝ) + 1) / (n : ℝ) ≤ (2 : ℝ) ^ (1 : ℤ) := by
    rw [div_le_iff₀ (by linarith)]; norm_num; linarith
  exact mul_le_mul hm h2 (by positivity) (DI.mag_nonneg ht)

theorem sqrN_sound (wp : ℕ) (k : ℕ) : ∀ (E : DI) (y : ℝ), E.Mem (Real.exp y) →
    (sqrN wp k E).Mem (Real.exp (y * (2 : ℝ) ^ k)) := by
  induction k with
  | zero => intro E y h; simpa [sqrN] using h
  | succ k ih =>
    intro E y h
    have h2 : ((E.mul E).round wp).Mem (Real.exp (y + y)) := by
      rw [Real.exp_add]; exact DI.mem_round (DI.mem_mul h h) wp
    have := ih _ _ h2
    have e : (y + y) * (2 : ℝ) ^ k = y * (2 : ℝ) ^ (k + 1) := by ring
    rw [e] at this
    exact this

theorem natAbs_lt_two_pow_blen (m : ℤ) : m.natAbs < 2 ^ blen m := by
  unfold blen
  split
  · rename_i h; subst h; simp
  · exact Nat.lt_log2_self

theorem abs_val_lt (x : Dy) : |x.val| < (2 : ℝ) ^ ((blen x.m : ℤ) + x.e) := by
  unfold Dy.val
  rw [abs_mul, abs_of_pos (two_zpow_pos x.e), zpow_add₀ (by norm_num : (2 : ℝ) ≠ 0)]
  apply mul_lt_mul_of_pos_right _ (two_zpow_pos x.e)
  have h := natAbs_lt_two_pow_blen x.m
  have h2 : ((x.m.natAbs : ℕ) : ℝ) < ((2 ^ blen x.m : ℕ) : ℝ) := by exact_mod_cast h
  rw [Nat.cast_natAbs] at h2
  push_cast at h2
  rw [zpow_natCast]
  exact h2

/-- soundness of exp at a dyadic point -/
theorem expPoint_sound (wp : ℕ) (x : Dy) : (expPoint wp x).Mem (Real.exp x.val) := by
  unfold expPoint
  simp only
  generalize hk : ((blen x.m : ℤ) + x.e + ((Nat.sqrt wp + 1 : ℕ) : ℤ)).toNat = k
  apply DI.mem_round
  set x' : Dy := ⟨x.m, x.e - (k : ℤ)⟩ with hx'
  have hval : x.val = x'.val * (2 : ℝ) ^ k := by
    simp only [hx', Dy.val]
    rw [mul_assoc, ← zpow_natCast, ← zpow_add₀ (by norm_num : (2 : ℝ) ≠ 0)]
    congr 2; ring
  have hsmall : |x'.val| ≤ 1 := by
    have h := abs_val_lt x'
    refine le_trans h.le ?_
    apply zpow_le_one_of_nonpos₀ (by norm_num)
    have : (blen x.m : ℤ) + x.e + ((Nat.sqrt wp + 1 : ℕ) : ℤ) ≤ (k : ℤ) := by
      rw [← hk]; exact Int.self_le_toNat _
    simp only [hx']
    push_cast at this
    omega
  rw [hval]
  apply sqrN_sound
  exact expSmall_sound _ _ _ _ (DI.mem_point x') hsmall (by unfold nTerms; omega)

/-- **soundness of `expI`** -/
theorem expI_sound (wp : ℕ) (I : DI) (x : ℝ) (hlo : I.lo.val ≤ x) (hhi : x ≤ I.hi.val) :
    (expI wp I).lo.val ≤ Real.exp x ∧ Real.exp x ≤ (expI wp I).hi.val := by
  unfold expI
  constructor
  · exact le_trans (expPoint_sound wp I.lo).1 (Real.exp_le_exp.2 hlo)
  · exact le_trans (Real.exp_le_exp.2 hhi) (expPoint_sound wp I.hi).2

theorem expI_mem (wp : ℕ) {I : DI} {x : ℝ} (hx : I.Mem x) : (expI wp I).Mem (Real.exp x) :=
  expI_sound wp I x hx.1 hx.2

end Mp.Encl
