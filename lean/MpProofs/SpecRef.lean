/-
  MpProofs/SpecRef.lean — soundness of the special-function reference evaluator `Mp.SpecRef.eval` and of the
  accuracy deciders `specCheck` / `specCheckC` (used by C18, C19, C22).

    SExpr.sem                the real number denoted by a reference expression
    eval_sound               eval wp e = some F  →  F ∋ ⟦e⟧  and all side conditions hold (no division by 0, logs of positives)
    specCheck_sound_ok       specCheck e y p k = ok        →  |y − ⟦e⟧| ≤ 2^(k−p)·|⟦e⟧|
    specCheck_sound_violates specCheck e y p k = violates  →  2^(k−p)·|⟦e⟧| < |y − ⟦e⟧|
    specCheckC_sound_ok / _violates   the same for a complex output, ‖(yre + i·yim) − ⟦e⟧‖
-/
import MpModel.SpecRef
import MpProofs.EnclSound
import Mathlib.Analysis.Complex.Norm

namespace Mp.SpecRef
open Mp.Encl

/-- the real number denoted by a reference expression -/
noncomputable def SExpr.sem : SExpr → ℝ
  | .rat n d => (n : ℝ) / (d : ℝ)
  | .pi => Real.pi
  | .sqrtPi => Real.sqrt Real.pi
  | .neg a => -a.sem
  | .add a b => a.sem + b.sem
  | .mul a b => a.sem * b.sem
  | .inv a => (a.sem)⁻¹
  | .pow a k => a.sem ^ k
  | .log a => Real.log a.sem

/-- the side conditions under which `sem` is the intended mathematical value -/
def SExpr.Dom : SExpr → Prop
  | .rat _ d => d ≠ 0
  | .pi => True
  | .sqrtPi => True
  | .neg a => a.Dom
  | .add a b => a.Dom ∧ b.Dom
  | .mul a b => a.Dom ∧ b.Dom
  | .inv a => a.Dom ∧ a.sem ≠ 0
  | .pow a _ => a.Dom
  | .log a => a.Dom ∧ 0 < a.sem

theorem mem_powI (wp : ℕ) {X : DI} {x : ℝ} (hx : X.Mem x) (k : ℕ) : (powI wp X k).Mem (x ^ k) := by
  induction k with
  | zero => simpa [powI] using DI.mem_one
  | succ k ih =>
    rw [powI, pow_succ]
    exact DI.mem_round (DI.mem_mul ih hx) wp

theorem eval_sound (wp : ℕ) (e : SExpr) : ∀ F, eval wp e = some F → F.Mem e.sem ∧ e.Dom := by
  induction e with
  | rat n d =>
    intro F h
    simp only [eval] at h
    split at h
    · simp at h
    · rename_i hd
      simp only [Option.some.injEq] at h; subst h
      exact ⟨DI.mem_divNat wp (DI.mem_ofInt n) (Nat.pos_of_ne_zero hd), hd⟩
  | pi =>
    intro F h
    simp only [eval, Option.some.injEq] at h; subst h
    exact ⟨piI_mem wp, trivial⟩
  | sqrtPi =>
    intro F h
    simp only [eval, Option.some.injEq] at h; subst h
    exact ⟨DI.mem_round (sqrtI_sound _ _ _ (piI_mem _)) wp, trivial⟩
  | neg a iha =>
    intro F h
    simp only [eval, Option.map_eq_some_iff] at h
    obtain ⟨A, hA, rfl⟩ := h
    exact ⟨DI.mem_neg (iha A hA).1, (iha A hA).2⟩
  | add a b iha ihb =>
    intro F h
    simp only [eval] at h
    split at h
    · rename_i A B hA hB
      simp only [Option.some.injEq] at h; subst h
      exact ⟨DI.mem_round (DI.mem_add (iha A hA).1 (ihb B hB).1) wp, (iha A hA).2, (ihb B hB).2⟩
    · simp at h
  | mul a b iha ihb =>
    intro F h
    simp only [eval] at h
    split at h
    · rename_i A B hA hB
      simp only [Option.some.injEq] at h; subst h
      exact ⟨DI.mem_round (DI.mem_mul (iha A hA).1 (ihb B hB).1) wp, (iha A hA).2, (ihb B hB).2⟩
    · simp at h
  | inv a iha =>
    intro F h
    simp only [eval, Option.bind_eq_some_iff] at h
    obtain ⟨A, hA, hF⟩ := h
    have := DI.mem_divI wp DI.mem_one (iha A hA).1 hF
    simp only [SExpr.sem, SExpr.Dom]
    rw [one_div] at this
    exact ⟨this.1, (iha A hA).2, this.2⟩
  | pow a k iha =>
    intro F h
    simp only [eval, Option.map_eq_some_iff] at h
    obtain ⟨A, hA, rfl⟩ := h
    exact ⟨mem_powI wp (iha A hA).1 k, (iha A hA).2⟩
  | log a iha =>
    intro F h
    simp only [eval, Option.bind_eq_some_iff] at h
    obtain ⟨A, hA, hF⟩ := h
    have := logI_mem hF (iha A hA).1
    exact ⟨this.1, (iha A hA).2, this.2⟩

/-! ### real output -/

theorem specLoop_sound (r : SExpr) (y t : Dy) (ht : 0 ≤ t.val) (ws : List ℕ) :
    (specLoop r y t ws = .ok → |y.val - r.sem| ≤ t.val * |r.sem|) ∧
    (specLoop r y t ws = .violates → t.val * |r.sem| < |y.val - r.sem|) ∧
    (specLoop r y t ws ≠ .undecided → r.Dom) := by
  induction ws with
  | nil => simp [specLoop]
  | cons wp ws ih =>
    unfold specLoop
    cases hF : eval wp r with
    | none => simp
    | some F =>
      have hv := eval_sound wp r F hF
      simp only
      cases hd : decide1 F y t with
      | ok => exact ⟨fun _ => decide1_ok F y t _ ht hv.1 hd, by simp, fun _ => hv.2⟩
      | violates => exact ⟨by simp, fun _ => decide1_violates F y t _ ht hv.1 hd, fun _ => hv.2⟩
      | undecided => exact ih

theorem two_zpow_nonneg (k p : ℕ) : 0 ≤ (Dy.mk 1 ((k : ℤ) - (p : ℤ))).val := by
  rw [val_two_zpow]; positivity

/-- **`ok` direction**: the accuracy inequality holds for the exact real value of the reference -/
theorem specCheck_sound_ok (r : SExpr) (y : Dy) (p k : ℕ) (h : specCheck r y p k = .ok) :
    |y.val - r.sem| ≤ (2 : ℝ) ^ ((k : ℤ) - (p : ℤ)) * |r.sem| := by
  unfold specCheck at h
  have := (specLoop_sound r y ⟨1, (k : ℤ) - (p : ℤ)⟩ (two_zpow_nonneg k p) _).1 h
  rwa [val_two_zpow] at this

/-- **`violates` direction** -/
theorem specCheck_sound_violates (r : SExpr) (y : Dy) (p k : ℕ) (h : specCheck r y p k = .violates) :
    (2 : ℝ) ^ ((k : ℤ) - (p : ℤ)) * |r.sem| < |y.val - r.sem| := by
  unfold specCheck at h
  have := (specLoop_sound r y ⟨1, (k : ℤ) - (p : ℤ)⟩ (two_zpow_nonneg k p) _).2.1 h
  rwa [val_two_zpow] at this

/-- a verdict is only produced when every side condition of the expression holds -/
theorem specCheck_dom (r : SExpr) (y : Dy) (p k : ℕ) (h : specCheck r y p k ≠ .undecided) : r.Dom := by
  unfold specCheck at h
  exact (specLoop_sound r y ⟨1, (k : ℤ) - (p : ℤ)⟩ (two_zpow_nonneg k p) _).2.2 h

/-- with `ok` at slack `k` the relative error is strictly below `2^(k+1−p)` wherever the reference is non-zero -/
theorem specCheck_ok_strict (r : SExpr) (y : Dy) (p k : ℕ) (h : specCheck r y p k = .ok)
    (h0 : r.sem ≠ 0) :
    |y.val - r.sem| < (2 : ℝ) ^ (((k + 1 : ℕ) : ℤ) - (p : ℤ)) * |r.sem| := by
  have h1 := specCheck_sound_ok r y p k h
  have hpos : 0 < |r.sem| := abs_pos.2 h0
  refine lt_of_le_of_lt h1 ?_
  apply mul_lt_mul_of_pos_right _ hpos
  apply zpow_lt_zpow_right₀ (by norm_num)
  push_cast; omega

/-- with `ok` and reference value 0 the output is exactly 0 -/
theorem specCheck_ok_zero (r : SExpr) (y : Dy) (p k : ℕ) (h : specCheck r y p k = .ok)
    (h0 : r.sem = 0) : y.val = 0 := by
  have h1 := specCheck_sound_ok r y p k h
  rw [h0, abs_zero, mul_zero, sub_zero] at h1
  exact abs_eq_zero.1 (le_antisymm h1 (abs_nonneg _))

/-! ### complex output -/

theorem norm_sub_ofReal_sq (a b v : ℝ) :
    ‖(⟨a, b⟩ : ℂ) - (v : ℂ)‖ ^ 2 = (a - v) ^ 2 + b ^ 2 := by
  rw [Complex.sq_norm, Complex.normSq_apply]
  simp [sq]

theorem decideC_ok (F : DI) (yre yim t : Dy) (v : ℝ) (ht : 0 ≤ t.val) (hv : F.Mem v)
    (h : decideC F yre yim t = .ok) : ‖(⟨yre.val, yim.val⟩ : ℂ) - (v : ℂ)‖ ≤ t.val * |v| := by
  unfold decideC at h
  simp only at h
  split at h
  · rename_i hc
    rw [Dy.le_iff] at hc
    simp only [Dy.val_add, Dy.val_mul] at hc
    have hE : (DI.mk (yre.sub F.hi) (yre.sub F.lo)).Mem (yre.val - v) := by
      constructor <;> simp only [Dy.val_sub] <;> linarith [hv.1, hv.2]
    have h1 := DI.abs_le_mag hE
    have h2 := DI.mig_le_abs hv
    have hmig : 0 ≤ F.mig.val := by
      unfold DI.mig; split
      · rename_i h; exact ((Dy.val_pos_iff _).2 h).le
      · split
        · rename_i h; simp only [Dy.val_neg]; linarith [(Dy.val_neg_iff _).2 h]
        · simp [Dy.zero, Dy.val]
    apply abs_le_of_sq_le_sq' _ (mul_nonneg ht (abs_nonneg v)) |>.2
    rw [norm_sub_ofReal_sq]
    have e1 : (yre.val - v) ^ 2 ≤ (DI.mk (yre.sub F.hi) (yre.sub F.lo)).mag.val ^ 2 := by
      rw [← sq_abs (yre.val - v)]; exact pow_le_pow_left₀ (abs_nonneg _) h1 2
    have e2 : F.mig.val ^ 2 ≤ |v| ^ 2 := pow_le_pow_left₀ hmig h2 2
    have ht2 : 0 ≤ t.val * t.val := mul_nonneg ht ht
    calc (yre.val - v) ^ 2 + yim.val ^ 2 ≤ _ := by nlinarith [e1]
      _ ≤ t.val * t.val * (F.mig.val * F.mig.val) := hc
      _ ≤ (t.val * |v|) ^ 2 := by nlinarith [e2, ht2]
  · split at h <;> simp at h

theorem decideC_violates (F : DI) (yre yim t : Dy) (v : ℝ) (ht : 0 ≤ t.val) (hv : F.Mem v)
    (h : decideC F yre yim t = .violates) : t.val * |v| < ‖(⟨yre.val, yim.val⟩ : ℂ) - (v : ℂ)‖ := by
  unfold decideC at h
  simp only at h
  split at h
  · simp at h
  · split at h
    · rename_i hc
      rw [Dy.lt_iff] at hc
      simp only [Dy.val_add, Dy.val_mul] at hc
      have hE : (DI.mk (yre.sub F.hi) (yre.sub F.lo)).Mem (yre.val - v) := by
        constructor <;> simp only [Dy.val_sub] <;> linarith [hv.1, hv.2]
      have h1 := DI.mig_le_abs hE
      have h2 := DI.abs_le_mag hv
      have hmig : 0 ≤ (DI.mk (yre.sub F.hi) (yre.sub F.lo)).mig.val := by
        unfold DI.mig; split
        · rename_i h; exact ((Dy.val_pos_iff _).2 h).le
        · split
          · rename_i h; simp only [Dy.val_neg]; linarith [(Dy.val_neg_iff _).2 h]
          · simp [Dy.zero, Dy.val]
      apply lt_of_pow_lt_pow_left₀ 2 (norm_nonneg _)
      rw [norm_sub_ofReal_sq]
      have e1 : (DI.mk (yre.sub F.hi) (yre.sub F.lo)).mig.val ^ 2 ≤ (yre.val - v) ^ 2 := by
        rw [← sq_abs (yre.val - v)]; exact pow_le_pow_left₀ hmig h1 2
      have e2 : |v| ^ 2 ≤ F.mag.val ^ 2 := pow_le_pow_left₀ (abs_nonneg _) h2 2
      have ht2 : 0 ≤ t.val * t.val := mul_nonneg ht ht
      calc (t.val * |v|) ^ 2 ≤ t.val * t.val * (F.mag.val * F.mag.val) := by nlinarith [e2, ht2]
        _ < _ := hc
        _ ≤ (yre.val - v) ^ 2 + yim.val ^ 2 := by nlinarith [e1]
    · simp at h

theorem specLoopC_sound (r : SExpr) (yre yim t : Dy) (ht : 0 ≤ t.val) (ws : List ℕ) :
    (specLoopC r yre yim t ws = .ok → ‖(⟨yre.val, yim.val⟩ : ℂ) - (r.sem : ℂ)‖ ≤ t.val * |r.sem|) ∧
    (specLoopC r yre yim t ws = .violates → t.val * |r.sem| < ‖(⟨yre.val, yim.val⟩ : ℂ) - (r.sem : ℂ)‖) ∧
    (specLoopC r yre yim t ws ≠ .undecided → r.Dom) := by
  induction ws with
  | nil => simp [specLoopC]
  | cons wp ws ih =>
    unfold specLoopC
    cases hF : eval wp r with
    | none => simp
    | some F =>
      have hv := eval_sound wp r F hF
      simp only
      cases hd : decideC F yre yim t with
      | ok => exact ⟨fun _ => decideC_ok F yre yim t _ ht hv.1 hd, by simp, fun _ => hv.2⟩
      | violates => exact ⟨by simp, fun _ => decideC_violates F yre yim t _ ht hv.1 hd, fun _ => hv.2⟩
      | undecided => exact ih

theorem specCheckC_sound_ok (r : SExpr) (yre yim : Dy) (p k : ℕ) (h : specCheckC r yre yim p k = .ok) :
    ‖(⟨yre.val, yim.val⟩ : ℂ) - (r.sem : ℂ)‖ ≤ (2 : ℝ) ^ ((k : ℤ) - (p : ℤ)) * |r.sem| := by
  unfold specCheckC at h
  have := (specLoopC_sound r yre yim ⟨1, (k : ℤ) - (p : ℤ)⟩ (two_zpow_nonneg k p) _).1 h
  rwa [val_two_zpow] at this

theorem specCheckC_sound_violates (r : SExpr) (yre yim : Dy) (p k : ℕ)
    (h : specCheckC r yre yim p k = .violates) :
    (2 : ℝ) ^ ((k : ℤ) - (p : ℤ)) * |r.sem| < ‖(⟨yre.val, yim.val⟩ : ℂ) - (r.sem : ℂ)‖ := by
  unfold specCheckC at h
  have := (specLoopC_sound r yre yim ⟨1, (k : ℤ) - (p : ℤ)⟩ (two_zpow_nonneg k p) _).2.1 h
  rwa [val_two_zpow] at this

theorem specCheckC_dom (r : SExpr) (yre yim : Dy) (p k : ℕ) (h : specCheckC r yre yim p k ≠ .undecided) :
    r.Dom := by
  unfold specCheckC at h
  exact (specLoopC_sound r yre yim ⟨1, (k : ℤ) - (p : ℤ)⟩ (two_zpow_nonneg k p) _).2.2 h

end Mp.SpecRef
