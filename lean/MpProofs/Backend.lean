/-
  MpProofs/Backend.lean — the table/float driven pure-Python helpers equal `bitcount` / `trailing`.
-/
import MpModel.Backend
import MpProofs.Bits

namespace Mp.Backend
open Mp

theorem bisectPowers_eq (n : Nat) : ∀ K, bisectPowers n K = min (bitcount n) K
  | 0 => by simp [bisectPowers]
  | K + 1 => by
    unfold bisectPowers
    split
    · rename_i h
      have := lt_bitcount_of_le h
      omega
    · rename_i h
      have h' : n < 2 ^ K := by omega
      have := bitcount_le_of_lt h'
      rw [bisectPowers_eq n K]
      omega

theorem bctable_eq {i : Nat} (h : i < 1024) : bctable i = some (bitcount i) := by
  unfold bctable
  rw [if_pos h, bisectPowers_eq]
  have : bitcount i ≤ 10 := bitcount_le_of_lt (by simpa using h)
  congr 1
  omega

/-- below 2^299 the float is never consulted -/
theorem pythonBitcount_small (n : Nat) (est : Int) (h : bitcount n < 300) :
    pythonBitcount n est = .ok (bitcount n) := by
  unfold pythonBitcount
  simp only [bisectPowers_eq]
  have : min (bitcount n) 300 = bitcount n := by omega
  rw [this, if_pos (by omega)]

theorem pythonBitcount_large (n : Nat) (est : Int) (h4 : 4 ≤ est)
    (hlo : est - 4 ≤ bitcount n) (hhi : (bitcount n : Int) ≤ est - 4 + 10) :
    pythonBitcount n est = .ok (bitcount n) := by
  by_cases hs : bitcount n < 300
  · exact pythonBitcount_small n est hs
  unfold pythonBitcount
  simp only [bisectPowers_eq]
  have : min (bitcount n) 300 = 300 := by omega
  rw [this]
  simp only [ne_eq, not_true_eq_false, if_false]
  rw [if_neg (by omega)]
  obtain ⟨k, hk⟩ : ∃ k : Nat, est - 4 = k := ⟨(est - 4).toNat, by omega⟩
  rw [hk, Int.toNat_natCast]
  have hkL : k ≤ bitcount n := by omega
  have hbc : bitcount (n >>> k) = bitcount n - k := by
    rw [Nat.shiftRight_eq_div_pow]
    rcases Nat.lt_or_ge k (bitcount n) with h | h
    · exact bitcount_div h
    · have hk' : k = bitcount n := by omega
      rw [hk', Nat.div_eq_of_lt (bitcount_lt n)]
      simp
  have hlt : n >>> k < 1024 := by
    have h1 := bitcount_lt (n >>> k)
    have h2 : 2 ^ bitcount (n >>> k) ≤ 2 ^ 10 := Nat.pow_le_pow_right (by norm_num) (by omega)
    omega
  rw [bctable_eq hlt, hbc]
  simp only
  congr 1
  omega

/-- the table `small_trailing` holds the number of trailing zero bits of every non-zero byte (and 0 at 0) -/
theorem smallTrailing_eq : ∀ b < 256, smallTrailing b = trailing b := by decide +kernel

/-- characterisation of `trailing` -/
theorem trailing_unique {n k : Nat} (hd : 2 ^ k ∣ n) (ho : (n / 2 ^ k) % 2 = 1) : trailing n = k := by
  have hn : n ≠ 0 := by
    rintro rfl
    simp at ho
  have hd' := trailing_dvd n
  have ho' := trailing_odd hn
  -- if 2^(a+1) ∣ n then n / 2^a is even
  have even_of {a : Nat} (h : 2 ^ (a + 1) ∣ n) : (n / 2 ^ a) % 2 = 0 := by
    obtain ⟨c, hc⟩ := h
    have : n / 2 ^ a = 2 * c := by
      rw [hc, pow_succ, Nat.mul_assoc, Nat.mul_div_cancel_left _ (by positivity)]
    omega
  rcases Nat.lt_trichotomy (trailing n) k with h | h | h
  · have := even_of (Nat.dvd_trans (Nat.pow_dvd_pow 2 (by omega : trailing n + 1 ≤ k)) hd)
    omega
  · exact h
  · have := even_of (Nat.dvd_trans (Nat.pow_dvd_pow 2 (by omega : k + 1 ≤ trailing n)) hd')
    omega

theorem trailing_byte_zero {m : Nat} (h0 : m ≠ 0) (h : m % 256 = 0) :
    trailing m = trailing (m / 256) + 8 := by
  have hq : m / 256 ≠ 0 := by omega
  apply trailing_unique
  · have h1 := trailing_dvd (m / 256)
    have h2 : m = m / 256 * 2 ^ 8 := by norm_num; omega
    rw [pow_add]
    conv_rhs => rw [h2]
    exact Nat.mul_dvd_mul_right h1 _
  · have h1 := trailing_odd hq
    rw [pow_add, Nat.mul_comm, ← Nat.div_div_eq_div_mul]
    norm_num
    exact h1

theorem trailing_byte_nonzero {m : Nat} (h : m % 256 ≠ 0) : trailing m = trailing (m % 256) := by
  have hr256 : m % 256 < 256 := Nat.mod_lt _ (by norm_num)
  have ht : trailing (m % 256) < 8 := by
    have h1 := trailing_lt_bitcount h
    have h2 : bitcount (m % 256) ≤ 8 := bitcount_le_of_lt (by simpa using hr256)
    omega
  obtain ⟨a, ha⟩ := trailing_dvd (m % 256)
  have hodd0 := trailing_odd h
  generalize trailing (m % 256) = t at *
  have hodd : a % 2 = 1 := by
    have e : m % 256 / 2 ^ t = a := by
      rw [ha]; exact Nat.mul_div_cancel_left _ (by positivity)
    rw [e] at hodd0; exact hodd0
  -- m = 256 * q + r = 2^t * (2^(8-t) * q + a)
  have e2 : (256 : Nat) = 2 ^ t * 2 ^ (8 - t) := by
    rw [← pow_add]
    have : t + (8 - t) = 8 := by omega
    rw [this]
    norm_num
  have hm : m = 2 ^ t * (2 ^ (8 - t) * (m / 256) + a) := by
    have e1 : m = 256 * (m / 256) + m % 256 := by omega
    calc m = 256 * (m / 256) + m % 256 := e1
      _ = 2 ^ t * 2 ^ (8 - t) * (m / 256) + 2 ^ t * a := by rw [← e2, ← ha]
      _ = _ := by ring
  apply trailing_unique
  · exact ⟨_, hm⟩
  · conv_lhs => rw [hm, Nat.mul_div_cancel_left _ (by positivity)]
    have e3 : 2 ^ (8 - t) = 2 * 2 ^ (7 - t) := by
      rw [← pow_succ']; congr 1; omega
    rw [e3, Nat.mul_assoc]
    omega

theorem trailingLoop_eq : ∀ (fuel m t : Nat), m ≠ 0 → bitcount m ≤ fuel →
    trailingLoop fuel m t = t + trailing m
  | 0, m, t, h0, hb => by
    have := bitcount_pos h0
    omega
  | fuel + 1, m, t, h0, hb => by
    unfold trailingLoop
    split
    · rename_i hz
      have hq : m / 256 ≠ 0 := by omega
      have hsh : m >>> 8 = m / 256 := by rw [Nat.shiftRight_eq_div_pow]
      have hbq : bitcount (m / 256) ≤ fuel := by
        have h8 : 8 < bitcount m := by
          have : 2 ^ 8 ≤ m := by norm_num; omega
          exact lt_bitcount_of_le this
        have := bitcount_div (n := m) (k := 8) h8
        norm_num at this
        omega
      rw [hsh, trailingLoop_eq fuel (m / 256) (t + 8) hq hbq, trailing_byte_zero h0 hz]
      omega
    · rename_i hz
      rw [smallTrailing_eq _ (Nat.mod_lt _ (by norm_num)), trailing_byte_nonzero hz]

theorem pythonTrailing_eq_trailing (n : Nat) : pythonTrailing n = trailing n := by
  unfold pythonTrailing
  split
  · rename_i h; simp [h, trailing]
  rename_i h0
  simp only
  split
  · rename_i hz
    rw [smallTrailing_eq _ (Nat.mod_lt _ (by norm_num)), trailing_byte_nonzero hz]
  · rename_i hz
    have hz : n % 256 = 0 := by omega
    have hq : n / 256 ≠ 0 := by omega
    have hsh : n >>> 8 = n / 256 := by rw [Nat.shiftRight_eq_div_pow]
    have hb : bitcount (n / 256) ≤ bitcount n := bitcount_mono (Nat.div_le_self _ _)
    rw [hsh, trailingLoop_eq _ _ 8 hq hb, trailing_byte_zero h0 hz]
    omega

end Mp.Backend
