/-
  MpProofs/CDiv.lean — accuracy of complex division, reciprocal and real/complex division.

  `mpc_div z w` forms `T = ac + bd`, `U = bc − ad`, `M = c² + d²` with EXACT products and ONE truncation of each sum to
  `prec + 10` bits, then divides `T/M`, `U/M` with the requested rounding.  Every component therefore carries three
  relative perturbations `(1+e₁)(1+e₃)/(1+e₂)`, `|e₁|,|e₂| ≤ 2^(−9−prec)`, `|e₃| ≤ 2^(1−prec)`: the relative error of
  EACH COMPONENT is below `2^(2−prec)` (two units in the last place), which is stronger than the modulus statement of
  the property.
-/
import MpProofs.Pow
import MpProofs.IntervalSound
import MpModel.Complex

namespace Mp

theorem IsRound.faithful {p : ℕ} (hp : 0 < p) {rnd : Rnd} {x y : ℚ} (h : IsRound p rnd x y) : Faithful p x y := by
  cases rnd with
  | f => exact Or.inl h
  | c => exact Or.inr h
  | d =>
    simp only [IsRound] at h
    split at h
    · exact Or.inl h
    · exact Or.inr h
  | u =>
    simp only [IsRound] at h
    split at h
    · exact Or.inr h
    · exact Or.inl h
  | n => exact faithful_of_near hp h (by simp only [sub_self, abs_zero]; positivity)

/-- a correctly rounded result has relative error at most `2^(1-prec)` (one unit in the last place) -/
theorem RoundOK.relerr {prec : ℤ} (hp : 0 < prec) {rnd : Rnd} {x : ℚ} {r : Mpf} (h : RoundOK prec rnd x r) :
    |val r - x| ≤ |x| * 2 ^ (1 - prec) := by
  obtain ⟨_, _, h3⟩ := h
  obtain ⟨hr, _⟩ := h3 hp
  have hp' : 0 < prec.toNat := by omega
  have := (hr.faithful hp').relerr hp'
  have e : ((prec.toNat : ℕ) : ℤ) = prec := Int.toNat_of_nonneg hp.le
  rwa [e] at this

theorem RoundOK.pos {prec : ℤ} (hp : 0 < prec) {rnd : Rnd} {x : ℚ} {r : Mpf} (h : RoundOK prec rnd x r) (hx : 0 < x) :
    0 < val r := by
  obtain ⟨_, _, h3⟩ := h
  obtain ⟨hr, _⟩ := h3 hp
  exact isRound_pos (by omega) hx hr

/-- the arithmetic core: three relative perturbations of the sizes that occur in `mpc_div` stay within `2δ` -/
theorem three_perturbations {T M t m q δ ε : ℚ} (hM : 0 < M) (hm : 0 < m) (hδ0 : 0 ≤ δ) (hδ1 : δ ≤ 1)
    (hε0 : 0 ≤ ε) (hε : 1024 * ε ≤ δ)
    (ht : |t - T| ≤ |T| * ε) (hmM : |m - M| ≤ |M| * ε) (hq : |q - t / m| ≤ |t / m| * δ) :
    |q - T / M| ≤ |T / M| * (2 * δ) := by
  -- reduce to T ≥ 0 by symmetry
  wlog hT : 0 ≤ T generalizing T t q
  · have hT' : 0 ≤ -T := by linarith
    have := this (T := -T) (t := -t) (q := -q)
      (by rw [show -t - -T = -(t - T) by ring, abs_neg, abs_neg]; exact ht)
      (by rw [show -q - -t / m = -(q - t / m) by ring, abs_neg, neg_div, abs_neg]; exact hq) hT'
    rwa [show -q - -T / M = -(q - T / M) by ring, abs_neg, neg_div, abs_neg] at this
  rw [abs_of_nonneg hT] at ht
  rw [abs_of_pos hM] at hmM
  have hε1 : ε ≤ 1 / 1024 := by linarith
  obtain ⟨ht1, ht2⟩ := abs_le.1 ht
  obtain ⟨hm1, hm2⟩ := abs_le.1 hmM
  have ht0 : 0 ≤ t := by nlinarith
  have htm0 : 0 ≤ t / m := div_nonneg ht0 hm.le
  rw [abs_of_nonneg htm0] at hq
  obtain ⟨hq1, hq2⟩ := abs_le.1 hq
  have hTM0 : 0 ≤ T / M := div_nonneg hT hM.le
  rw [abs_of_nonneg hTM0]
  -- bounds on t/m in terms of T/M
  have hup : t / m ≤ T / M * ((1 + ε) / (1 - ε)) := by
    rw [div_mul_div_comm, div_le_div_iff₀ hm (by nlinarith)]
    have h1 : t ≤ T * (1 + ε) := by linarith
    have h2 : M * (1 - ε) ≤ m := by linarith
    calc t * (M * (1 - ε)) ≤ (T * (1 + ε)) * (M * (1 - ε)) :=
          mul_le_mul_of_nonneg_right h1 (by nlinarith)
      _ ≤ (T * (1 + ε)) * m := mul_le_mul_of_nonneg_left h2 (by nlinarith)
  have hlo : T / M * ((1 - ε) / (1 + ε)) ≤ t / m := by
    rw [div_mul_div_comm, div_le_div_iff₀ (by nlinarith) hm]
    have h1 : T * (1 - ε) ≤ t := by linarith
    have h2 : m ≤ M * (1 + ε) := by linarith
    calc T * (1 - ε) * m ≤ T * (1 - ε) * (M * (1 + ε)) :=
          mul_le_mul_of_nonneg_left h2 (by nlinarith)
      _ ≤ t * (M * (1 + ε)) := mul_le_mul_of_nonneg_right h1 (by nlinarith)
  have h1e : 0 < 1 - ε := by linarith
  have h1e' : 0 < 1 + ε := by linarith
  -- (1+ε)(1+δ)/(1-ε) ≤ 1 + 2δ  and  (1-ε)(1-δ)/(1+ε) ≥ 1 - 2δ
  have kup : (1 + ε) / (1 - ε) * (1 + δ) ≤ 1 + 2 * δ := by
    rw [div_mul_eq_mul_div, div_le_iff₀ h1e]; nlinarith
  have klo : 1 - 2 * δ ≤ (1 - ε) / (1 + ε) * (1 - δ) := by
    rw [div_mul_eq_mul_div, le_div_iff₀ h1e']; nlinarith
  rw [abs_le]
  constructor
  · -- q ≥ t/m (1-δ) ≥ T/M (1-ε)/(1+ε)(1-δ) ≥ T/M (1 - 2δ)
    have a1 : t / m * (1 - δ) ≤ q := by linarith
    have a2 : T / M * ((1 - ε) / (1 + ε)) * (1 - δ) ≤ t / m * (1 - δ) :=
      mul_le_mul_of_nonneg_right hlo (by linarith)
    have a3 : T / M * (1 - 2 * δ) ≤ T / M * ((1 - ε) / (1 + ε) * (1 - δ)) :=
      mul_le_mul_of_nonneg_left klo hTM0
    nlinarith
  · have a1 : q ≤ t / m * (1 + δ) := by linarith
    have a2 : t / m * (1 + δ) ≤ T / M * ((1 + ε) / (1 - ε)) * (1 + δ) :=
      mul_le_mul_of_nonneg_right hup (by linarith)
    have a3 : T / M * ((1 + ε) / (1 - ε) * (1 + δ)) ≤ T / M * (1 + 2 * δ) :=
      mul_le_mul_of_nonneg_left kup hTM0
    nlinarith

theorem eps_delta (prec : ℤ) (hp : 0 < prec) :
    (0 : ℚ) ≤ 2 ^ (1 - prec) ∧ (2 : ℚ) ^ (1 - prec) ≤ 1 ∧ (0 : ℚ) ≤ 2 ^ (1 - (prec + 10)) ∧
      1024 * (2 : ℚ) ^ (1 - (prec + 10)) ≤ 2 ^ (1 - prec) := by
  refine ⟨by positivity, ?_, by positivity, ?_⟩
  · exact zpow_le_one_of_nonpos₀ (by norm_num) (by omega)
  · have : (1024 : ℚ) = 2 ^ (10 : ℤ) := by norm_num
    rw [this, ← zpow_add₀ (by norm_num)]
    apply le_of_eq; congr 1; ring

/-- one quotient of `mpc_div`: a canonical numerator `t` within relative `2^(-9-prec)` of `T` (exact, or one truncation to
`prec+10` bits), denominator `M > 0` truncated to `prec+10` bits as `m` -/
theorem quotient_spec' {t m : Mpf} {T M : ℚ} {prec : ℤ} (hp : 0 < prec) (rnd : Rnd)
    (htc : CanonFin t) (hterr : |val t - T| ≤ |T| * 2 ^ (1 - (prec + 10)))
    (hm : RoundOK (prec + 10) .d M m) (hM : 0 < M) :
    ∃ r, mpf_div t m prec rnd = .ok r ∧ CanonFin r ∧ r.bc ≤ prec ∧
      |val r - T / M| ≤ |T / M| * 2 ^ (2 - prec) := by
  have hp10 : 0 < prec + 10 := by omega
  have hmpos : 0 < val m := hm.pos hp10 hM
  have hm0 : m ≠ fzero := ne_fzero_of_val_ne_zero hmpos.ne'
  obtain ⟨r, hr, hok⟩ := mpf_div_spec htc hm.1 hm0 hp rnd
  refine ⟨r, hr, hok.1, (hok.2.2 hp).2, ?_⟩
  obtain ⟨d0, d1, e0, e1⟩ := eps_delta prec hp
  have := three_perturbations hM hmpos d0 d1 e0 e1 hterr (hm.relerr hp10) (hok.relerr hp)
  have e : (2 : ℚ) ^ (2 - prec) = 2 * 2 ^ (1 - prec) := by
    rw [show (2 : ℤ) - prec = 1 + (1 - prec) by ring, zpow_add₀ (by norm_num), zpow_one]
  rw [e]; exact this

theorem quotient_spec {t m : Mpf} {T M : ℚ} {prec : ℤ} (hp : 0 < prec) (rnd : Rnd)
    (ht : RoundOK (prec + 10) .d T t) (hm : RoundOK (prec + 10) .d M m) (hM : 0 < M) :
    ∃ r, mpf_div t m prec rnd = .ok r ∧ CanonFin r ∧ r.bc ≤ prec ∧
      |val r - T / M| ≤ |T / M| * 2 ^ (2 - prec) :=
  quotient_spec' hp rnd ht.1 (ht.relerr (by omega)) hm hM

/-- an exact numerator -/
theorem quotient_spec_exact {t m : Mpf} {M : ℚ} {prec : ℤ} (hp : 0 < prec) (rnd : Rnd)
    (htc : CanonFin t) (hm : RoundOK (prec + 10) .d M m) (hM : 0 < M) :
    ∃ r, mpf_div t m prec rnd = .ok r ∧ CanonFin r ∧ r.bc ≤ prec ∧
      |val r - val t / M| ≤ |val t / M| * 2 ^ (2 - prec) :=
  quotient_spec' hp rnd htc (by rw [sub_self, abs_zero]; positivity) hm hM

/-- `c² + d² > 0` for a nonzero complex number -/
theorem normsq_pos {c d : Mpf} (hc : CanonFin c) (hd : CanonFin d) (h : ¬ (c = fzero ∧ d = fzero)) :
    0 < val c * val c + val d * val d := by
  by_cases h1 : c = fzero
  · have h2 : d ≠ fzero := fun h2 => h ⟨h1, h2⟩
    have h3 := mul_self_pos.2 (val_ne_zero_of_ne_fzero hd h2)
    have h4 := mul_self_nonneg (val c)
    linarith
  · have h3 := mul_self_pos.2 (val_ne_zero_of_ne_fzero hc h1)
    have h4 := mul_self_nonneg (val d)
    linarith

/-- **complex division**: each component within two units in the last place of the exact component -/
theorem mpc_div_spec {z w : Mpc} (hz1 : CanonFin z.1) (hz2 : CanonFin z.2) (hw1 : CanonFin w.1) (hw2 : CanonFin w.2)
    (hw : ¬ (w.1 = fzero ∧ w.2 = fzero)) {prec : ℤ} (hp : 0 < prec) (rnd : Rnd) :
    ∃ re im, mpc_div z w prec rnd = .ok (re, im) ∧ CanonFin re ∧ CanonFin im ∧ re.bc ≤ prec ∧ im.bc ≤ prec ∧
      |val re - (val z.1 * val w.1 + val z.2 * val w.2) / (val w.1 * val w.1 + val w.2 * val w.2)| ≤
        |(val z.1 * val w.1 + val z.2 * val w.2) / (val w.1 * val w.1 + val w.2 * val w.2)| * 2 ^ (2 - prec) ∧
      |val im - (val z.2 * val w.1 - val z.1 * val w.2) / (val w.1 * val w.1 + val w.2 * val w.2)| ≤
        |(val z.2 * val w.1 - val z.1 * val w.2) / (val w.1 * val w.1 + val w.2 * val w.2)| * 2 ^ (2 - prec) := by
  have hp10 : (0 : ℤ) ≤ prec + 10 := by omega
  obtain ⟨kcc, vcc, _⟩ := mul_exact hw1 hw1
  obtain ⟨kdd, vdd, _⟩ := mul_exact hw2 hw2
  obtain ⟨kac, vac, _⟩ := mul_exact hz1 hw1
  obtain ⟨kbd, vbd, _⟩ := mul_exact hz2 hw2
  obtain ⟨kbc, vbc, _⟩ := mul_exact hz2 hw1
  obtain ⟨kad, vad, _⟩ := mul_exact hz1 hw2
  have hmag := mpf_add_spec kcc kdd hp10 .d false
  have ht := mpf_add_spec kac kbd hp10 .d false
  have hu := mpf_sub_spec kbc kad hp10 .d
  simp only [Bool.false_eq_true, if_false] at hmag ht
  rw [vcc, vdd] at hmag
  rw [vac, vbd] at ht
  rw [vbc, vad] at hu
  have hM := normsq_pos hw1 hw2 hw
  obtain ⟨re, hre, c1, b1, e1⟩ := quotient_spec hp rnd ht hmag hM
  obtain ⟨im, him, c2, b2, e2⟩ := quotient_spec hp rnd hu hmag hM
  refine ⟨re, im, ?_, c1, c2, b1, b2, e1, e2⟩
  unfold mpc_div
  simp only [hre, him]
  rfl

theorem val_mpf_neg0 {r : Mpf} (hr : CanonFin r) : CanonFin (mpf_neg r) ∧ val (mpf_neg r) = -val r ∧ (mpf_neg r).bc = r.bc := by
  have h := mpf_neg_spec hr (le_refl 0) .d
  refine ⟨h.1, h.2.1 rfl, ?_⟩
  unfold mpf_neg
  rcases hr.cases with rfl | ⟨hm, _, _, _⟩
  · decide
  · simp [hm]

/-- **complex reciprocal** `1/z = (a − b i)/(a² + b²)`: each component within two units in the last place -/
theorem mpc_reciprocal_spec {z : Mpc} (hz1 : CanonFin z.1) (hz2 : CanonFin z.2)
    (hz : ¬ (z.1 = fzero ∧ z.2 = fzero)) {prec : ℤ} (hp : 0 < prec) (rnd : Rnd) :
    ∃ re im, mpc_reciprocal z prec rnd = .ok (re, im) ∧ CanonFin re ∧ CanonFin im ∧ re.bc ≤ prec ∧ im.bc ≤ prec ∧
      |val re - val z.1 / (val z.1 * val z.1 + val z.2 * val z.2)| ≤
        |val z.1 / (val z.1 * val z.1 + val z.2 * val z.2)| * 2 ^ (2 - prec) ∧
      |val im - (-(val z.2 / (val z.1 * val z.1 + val z.2 * val z.2)))| ≤
        |val z.2 / (val z.1 * val z.1 + val z.2 * val z.2)| * 2 ^ (2 - prec) := by
  have hp10 : (0 : ℤ) ≤ prec + 10 := by omega
  obtain ⟨kaa, vaa, _⟩ := mul_exact hz1 hz1
  obtain ⟨kbb, vbb, _⟩ := mul_exact hz2 hz2
  have hmag := mpf_add_spec kaa kbb hp10 .d false
  simp only [Bool.false_eq_true, if_false] at hmag
  rw [vaa, vbb] at hmag
  have hM := normsq_pos hz1 hz2 hz
  obtain ⟨re, hre, c1, b1, e1⟩ := quotient_spec_exact hp rnd hz1 hmag hM
  obtain ⟨im, him, c2, b2, e2⟩ := quotient_spec_exact hp rnd hz2 hmag hM
  obtain ⟨n1, n2, n3⟩ := val_mpf_neg0 c2
  refine ⟨re, mpf_neg im, ?_, c1, n1, b1, by rw [n3]; exact b2, e1, ?_⟩
  · unfold mpc_reciprocal
    simp only [hre, him]
    rfl
  · rw [n2, show -val im - -(val z.2 / (val z.1 * val z.1 + val z.2 * val z.2)) =
      -(val im - val z.2 / (val z.1 * val z.1 + val z.2 * val z.2)) by ring, abs_neg]
    exact e2

/-- **real divided by complex** `p/z = p(a − b i)/(a² + b²)` -/
theorem mpc_mpf_div_spec {p : Mpf} (hpc : CanonFin p) {z : Mpc} (hz1 : CanonFin z.1) (hz2 : CanonFin z.2)
    (hz : ¬ (z.1 = fzero ∧ z.2 = fzero)) {prec : ℤ} (hp : 0 < prec) (rnd : Rnd) :
    ∃ re im, mpc_mpf_div p z prec rnd = .ok (re, im) ∧ CanonFin re ∧ CanonFin im ∧ re.bc ≤ prec ∧ im.bc ≤ prec ∧
      |val re - val z.1 * val p / (val z.1 * val z.1 + val z.2 * val z.2)| ≤
        |val z.1 * val p / (val z.1 * val z.1 + val z.2 * val z.2)| * 2 ^ (2 - prec) ∧
      |val im - (-(val z.2 * val p)) / (val z.1 * val z.1 + val z.2 * val z.2)| ≤
        |(-(val z.2 * val p)) / (val z.1 * val z.1 + val z.2 * val z.2)| * 2 ^ (2 - prec) := by
  have hp10 : (0 : ℤ) ≤ prec + 10 := by omega
  obtain ⟨kaa, vaa, _⟩ := mul_exact hz1 hz1
  obtain ⟨kbb, vbb, _⟩ := mul_exact hz2 hz2
  obtain ⟨kap, vap, _⟩ := mul_exact hz1 hpc
  obtain ⟨kbp, vbp, _⟩ := mul_exact hz2 hpc
  obtain ⟨n1, n2, _⟩ := val_mpf_neg0 kbp
  have hmag := mpf_add_spec kaa kbb hp10 .d false
  simp only [Bool.false_eq_true, if_false] at hmag
  rw [vaa, vbb] at hmag
  have hM := normsq_pos hz1 hz2 hz
  obtain ⟨re, hre, c1, b1, e1⟩ := quotient_spec_exact hp rnd kap hmag hM
  obtain ⟨im, him, c2, b2, e2⟩ := quotient_spec_exact hp rnd n1 hmag hM
  rw [vap] at e1
  rw [n2, vbp] at e2
  refine ⟨re, im, ?_, c1, c2, b1, b2, e1, e2⟩
  unfold mpc_mpf_div
  simp only [hre, him]
  rfl

end Mp
