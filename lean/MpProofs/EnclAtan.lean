/-
  MpProofs/EnclAtan.lean — soundness of `atanI` and `piI`
  (alternating arctan series, angle halving `arctan x = 2 arctan (x/(1+√(1+x²)))`, Machin's formula).
-/
import MpProofs.EnclArith
import Mathlib.Analysis.SpecialFunctions.Trigonometric.Arctan
import Mathlib.Analysis.SpecialFunctions.Complex.Arctan
import Mathlib.Analysis.SpecificLimits.Normed
import Mathlib.Analysis.Real.Pi.Bounds

namespace Mp.Encl
open Finset

/-- the `i`-th term (without sign) of the arctan series -/
noncomputable def atanF (x : ℝ) (i : ℕ) : ℝ := x ^ (2 * i + 1) / ((2 * i + 1 : ℕ) : ℝ)

theorem atanTerms_sound (wp : ℕ) (X X2 : DI) (x : ℝ) (hx : X.Mem x) (hx2 : X2.Mem (x ^ 2)) (n : ℕ) :
    (atanTerms wp X X2 n).1.Mem (x ^ (2 * n + 1)) ∧
    (atanTerms wp X X2 n).2.Mem (∑ i ∈ range n, (-1) ^ i * atanF x i) := by
  induction n with
  | zero => simpa [atanTerms] using And.intro hx DI.mem_zero
  | succ n ih =>
    obtain ⟨h1, h2⟩ := ih
    constructor
    · have h := DI.mem_round (DI.mem_mul h1 hx2) wp
      have e : x ^ (2 * (n + 1) + 1) = x ^ (2 * n + 1) * x ^ 2 := by ring
      rw [e]; exact h
    · have ht := DI.mem_divNat wp h1 (show 0 < 2 * n + 1 by omega)
      rw [Finset.sum_range_succ]
      simp only [atanTerms]
      apply DI.mem_round
      split
      · rename_i hn
        have : (-1 : ℝ) ^ n = 1 := Even.neg_one_pow (Nat.even_iff.2 hn)
        rw [this, one_mul]
        exact DI.mem_add h2 ht
      · rename_i hn
        have : (-1 : ℝ) ^ n = -1 := Odd.neg_one_pow (Nat.odd_iff.2 (by omega))
        rw [this, neg_one_mul, ← sub_eq_add_neg]
        exact DI.mem_sub h2 ht

theorem atanF_antitone {x : ℝ} (h0 : 0 ≤ x) (h1 : x ≤ 1) : Antitone (atanF x) := by
  apply antitone_nat_of_succ_le
  intro n
  unfold atanF
  apply div_le_div₀ (by positivity)
  · exact pow_le_pow_of_le_one h0 h1 (by omega)
  · positivity
  · push_cast; linarith

theorem atan_tendsto {x : ℝ} (h0 : 0 ≤ x) (h1 : x < 1) :
    Filter.Tendsto (fun n => ∑ i ∈ range n, (-1 : ℝ) ^ i * atanF x i) Filter.atTop
      (nhds (Real.arctan x)) := by
  have hs := Real.hasSum_arctan (x := x) (by rw [Real.norm_eq_abs, abs_of_nonneg h0]; exact h1)
  have := hs.tendsto_sum_nat
  have e : (fun n : ℕ => (-1 : ℝ) ^ n * x ^ (2 * n + 1) / ((2 * n + 1 : ℕ) : ℝ)) =
      fun i => (-1 : ℝ) ^ i * atanF x i := by
    funext i; unfold atanF; rw [mul_div_assoc]
  rw [e] at this
  exact this

theorem atanSmall_sound (wp k : ℕ) (X : DI) (x : ℝ) (hx : X.Mem x) (h0 : 0 ≤ x) (h1 : x ≤ 1 / 2) :
    (atanSmall wp k X).Mem (Real.arctan x) := by
  have hx2 : ((X.mul X).round wp).Mem (x ^ 2) := by
    rw [sq]; exact DI.mem_round (DI.mem_mul hx hx) wp
  obtain ⟨hp, hs⟩ := atanTerms_sound wp X _ x hx hx2 (2 * k)
  have hlim := atan_tendsto h0 (by linarith : x < 1)
  have hanti := atanF_antitone h0 (by linarith : x ≤ 1)
  have lower := hanti.alternating_series_le_tendsto hlim k
  have upper := hanti.tendsto_le_alternating_series hlim k
  rw [Finset.sum_range_succ] at upper
  have hpow : (-1 : ℝ) ^ (2 * k) = 1 := by rw [pow_mul]; norm_num
  rw [hpow, one_mul] at upper
  have ht := DI.mem_divNat wp hp (show 0 < 2 * (2 * k) + 1 by omega)
  unfold atanSmall
  constructor
  · exact le_trans hs.1 lower
  · simp only [Dy.val_add]
    refine le_trans upper ?_
    unfold atanF
    exact add_le_add hs.2 ht.2

/-- **soundness of `piI`** -/
theorem piI_sound (wp : ℕ) : (piI wp).lo.val ≤ Real.pi ∧ Real.pi ≤ (piI wp).hi.val := by
  unfold piI
  simp only
  split
  · have ha : (DI.one.divNat (wp + 16) 5).Mem ((5 : ℝ)⁻¹) := by
      have := DI.mem_divNat (wp + 16) DI.mem_one (show 0 < 5 by norm_num)
      simpa using this
    have hb : (DI.one.divNat (wp + 16) 239).Mem ((239 : ℝ)⁻¹) := by
      have := DI.mem_divNat (wp + 16) DI.mem_one (show 0 < 239 by norm_num)
      simpa using this
    have hA := fun k => atanSmall_sound (wp + 16) k _ _ ha (by norm_num) (by norm_num)
    have hB := fun k => atanSmall_sound (wp + 16) k _ _ hb (by norm_num) (by norm_num)
    have e : (Real.arctan 5⁻¹ * (2 : ℝ) ^ (2 : ℤ) - Real.arctan 239⁻¹) * (2 : ℝ) ^ (2 : ℤ) = Real.pi := by
      have := Real.four_mul_arctan_inv_5_sub_arctan_inv_239
      norm_num
      linarith
    show DI.Mem _ Real.pi
    rw [← e]
    exact DI.mem_round (DI.mem_shift (DI.mem_sub (DI.mem_shift (hA _) 2) (hB _)) 2) wp
  · simp only [Dy.val_ofInt]
    constructor
    · have := Real.pi_gt_three; push_cast; linarith
    · have := Real.pi_le_four; push_cast; linarith

theorem piI_mem (wp : ℕ) : (piI wp).Mem Real.pi := piI_sound wp

/-- the angle-halving map -/
noncomputable def atanH (x : ℝ) : ℝ := x / (1 + Real.sqrt (1 + x ^ 2))

theorem arctan_half (x : ℝ) : Real.arctan x = 2 * Real.arctan (atanH x) := by
  unfold atanH
  set w := Real.sqrt (1 + x ^ 2) with hw
  have hw2 : w ^ 2 = 1 + x ^ 2 := Real.sq_sqrt (by positivity)
  have hw0 : 0 ≤ w := Real.sqrt_nonneg _
  have hw1 : 1 ≤ w := by
    rw [hw]; apply Real.le_sqrt_of_sq_le; nlinarith [sq_nonneg x]
  have hxw : |x| < w := by
    apply abs_lt_of_sq_lt_sq _ hw0
    rw [hw2]; linarith
  have hd : 0 < 1 + w := by linarith
  have hy : |x / (1 + w)| < 1 := by
    rw [abs_div, abs_of_pos hd, div_lt_one hd]; linarith
  rw [abs_lt] at hy
  rw [Real.two_mul_arctan hy.1 hy.2]
  congr 1
  have h1 : 1 - (x / (1 + w)) ^ 2 = 2 / (1 + w) := by
    field_simp
    nlinarith [hw2]
  rw [h1]
  field_simp

theorem atanRed_sound (wp : ℕ) (X Y : DI) (x : ℝ) (hx : X.Mem x) (h : atanRed wp X = some Y) :
    Y.Mem (atanH x) := by
  unfold atanRed at h
  simp only at h
  split at h
  · rename_i hD
    simp only [Option.some.injEq] at h
    subst h
    unfold atanH
    apply DI.mem_divPos wp hx _ hD
    apply DI.mem_round
    apply DI.mem_add DI.mem_one
    apply sqrtI_sound
    apply DI.mem_round
    apply DI.mem_add DI.mem_one
    rw [sq]; exact DI.mem_mul hx hx
  · simp at h

theorem atanRedN_sound (wp j : ℕ) : ∀ (X Y : DI) (x : ℝ), X.Mem x → atanRedN wp j X = some Y →
    Y.Mem (atanH^[j] x) := by
  induction j with
  | zero =>
    intro X Y x hx h
    have h' : some X = some Y := h
    rw [Option.some.injEq] at h'
    subst h'
    exact hx
  | succ j ih =>
    intro X Y x hx h
    rw [Function.iterate_succ_apply]
    rw [atanRedN, Option.bind_eq_some_iff] at h
    obtain ⟨Z, hZ, h⟩ := h
    exact ih _ _ _ (atanRed_sound wp X Z x hx hZ) h

theorem arctan_iter (j : ℕ) : ∀ x : ℝ, Real.arctan (atanH^[j] x) * (2 : ℝ) ^ (j : ℤ) = Real.arctan x := by
  induction j with
  | zero => intro x; simp
  | succ j ih =>
    intro x
    rw [Function.iterate_succ_apply]
    have h := ih (atanH x)
    rw [arctan_half x]
    push_cast
    rw [zpow_add_one₀ (by norm_num : (2 : ℝ) ≠ 0)]
    linarith

theorem arctan_lt_two (x : ℝ) : Real.arctan x < 2 := by
  have := Real.arctan_lt_pi_div_two x
  have := Real.pi_le_four
  linarith

theorem atanPos_sound (wp : ℕ) (x : Dy) (hx : 0 ≤ x.m) : (atanPos wp x).Mem (Real.arctan x.val) := by
  have hfall : (DI.mk Dy.zero (Dy.ofInt 2)).Mem (Real.arctan x.val) := by
    constructor
    · simp only [Dy.val_zero]
      exact Real.arctan_nonneg.2 ((Dy.val_nonneg_iff x).2 hx)
    · simp only [Dy.val_ofInt]; push_cast; exact (arctan_lt_two _).le
  unfold atanPos
  simp only
  generalize (if Nat.sqrt wp / 2 + 1 ≤ x.lowBits then 0 else Nat.sqrt wp / 2 + 1 + 2) = j
  split
  · rename_i Y hY
    split
    · rename_i hc
      obtain ⟨hc0, hc1⟩ := hc
      have hy := atanRedN_sound _ j _ _ _ (DI.mem_point x) hY
      have h0 : 0 ≤ atanH^[j] x.val := le_trans ((Dy.val_nonneg_iff _).2 hc0) hy.1
      have h1 : atanH^[j] x.val ≤ 1 / 2 := by
        rw [Dy.le_iff] at hc1
        refine le_trans hy.2 (le_trans hc1 ?_)
        simp [Dy.val]
      apply DI.mem_round
      rw [← arctan_iter j x.val]
      apply DI.mem_shift
      exact atanSmall_sound _ _ _ _ hy h0 h1
    · exact hfall
  · exact hfall

theorem atanPoint_sound (wp : ℕ) (x : Dy) : (atanPoint wp x).Mem (Real.arctan x.val) := by
  unfold atanPoint
  split
  · rename_i h
    have := DI.mem_neg (atanPos_sound wp x.neg (by simp [Dy.neg]; omega))
    rw [Dy.val_neg, Real.arctan_neg, neg_neg] at this
    exact this
  · rename_i h
    exact atanPos_sound wp x (by omega)

/-- **soundness of `atanI`** -/
theorem atanI_sound (wp : ℕ) (I : DI) (x : ℝ) (hlo : I.lo.val ≤ x) (hhi : x ≤ I.hi.val) :
    (atanI wp I).lo.val ≤ Real.arctan x ∧ Real.arctan x ≤ (atanI wp I).hi.val := by
  unfold atanI
  have hm := Real.arctan_strictMono.monotone
  exact ⟨le_trans (atanPoint_sound wp I.lo).1 (hm hlo), le_trans (hm hhi) (atanPoint_sound wp I.hi).2⟩

theorem atanI_mem (wp : ℕ) {I : DI} {x : ℝ} (hx : I.Mem x) : (atanI wp I).Mem (Real.arctan x) :=
  atanI_sound wp I x hx.1 hx.2

end Mp.Encl
