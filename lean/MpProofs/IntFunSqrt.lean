/-
  MpProofs/IntFunSqrt.lean — the integer loops of `isqrt_small_python` / `sqrtrem_python`.
-/
import MpModel.IntFun
import Mathlib.Data.Nat.Sqrt
import Mathlib.Tactic.Ring
import Mathlib.Tactic.Linarith
import Mathlib.Tactic.Zify

namespace Mp

/-- one Newton step from any `r ≥ 1` never goes below the root -/
theorem newton_step_ge (x r : Nat) (hr : 0 < r) : Nat.sqrt x ≤ (r + x / r) / 2 := by
  obtain ⟨s, hs⟩ : ∃ s, s = Nat.sqrt x := ⟨_, rfl⟩
  rw [← hs]
  have hsx : s * s ≤ x := by rw [hs]; exact Nat.sqrt_le x
  rw [Nat.le_div_iff_mul_le (by norm_num)]
  by_cases h : s * 2 ≤ r
  · exact le_trans h (Nat.le_add_right _ _)
  · have h1 : s * 2 - r ≤ x / r := by
      rw [Nat.le_div_iff_mul_le hr]
      have : (s * 2 - r) * r ≤ s * s := by
        zify [show r ≤ s * 2 by omega]
        nlinarith [sq_nonneg ((s : Int) - r)]
      omega
    omega

/-- a Newton step from `r` above the root strictly decreases -/
theorem newton_step_lt (x r : Nat) (hr : Nat.sqrt x < r) : (r + x / r) / 2 < r := by
  have h1 : x < r * r := Nat.sqrt_lt.mp hr
  have h2 : x / r < r := (Nat.div_lt_iff_lt_mul (by omega)).mpr h1
  omega

/-- the Newton loop returns the exact floor square root from ANY starting value `r ≥ isqrt(x)`, `r ≥ 1` -/
theorem isqrtNewton_spec (fuel x r : Nat) (hx : 0 < x) (hr0 : 0 < r) (hr : Nat.sqrt x ≤ r) (hf : r - Nat.sqrt x < fuel) :
    isqrtNewton fuel x r = Nat.sqrt x := by
  induction fuel generalizing r with
  | zero => omega
  | succ fuel ih =>
    unfold isqrtNewton
    simp only [Nat.shiftRight_one]
    by_cases hy : (r + x / r) / 2 ≥ r
    · rw [if_pos hy]
      by_contra hne
      have : Nat.sqrt x < r := by omega
      have := newton_step_lt x r this
      omega
    · rw [if_neg hy]
      have hge := newton_step_ge x r hr0
      have hs0 : 0 < Nat.sqrt x := Nat.sqrt_pos.mpr hx
      exact ih _ (by omega) hge (by omega)

theorem isqrt_small_spec (x r0 : Nat) (hx : 0 < x) (hr : Nat.sqrt x ≤ r0) : isqrt_small x r0 = Nat.sqrt x := by
  have hs0 : 0 < Nat.sqrt x := Nat.sqrt_pos.mpr hx
  exact isqrtNewton_spec r0 x r0 hx (by omega) hr (by omega)

/-! ## the correction loops of `sqrtrem_python` -/

theorem sqrtremDown_spec (x : Nat) (fuel : Nat) (y : Int) (hy : (Nat.sqrt x : Int) ≤ y)
    (hf : y - Nat.sqrt x < fuel) :
    sqrtremDown fuel y ((x : Int) - y * y) = ((Nat.sqrt x : Int), (x : Int) - (Nat.sqrt x : Int) * Nat.sqrt x) := by
  have h1 : ((Nat.sqrt x : Int)) * Nat.sqrt x ≤ x := by exact_mod_cast Nat.sqrt_le x
  have h2 : (x : Int) < ((Nat.sqrt x : Int) + 1) * (Nat.sqrt x + 1) := by exact_mod_cast Nat.lt_succ_sqrt x
  induction fuel generalizing y with
  | zero => omega
  | succ fuel ih =>
    unfold sqrtremDown
    by_cases hlt : (x : Int) - y * y < 0
    · rw [if_pos hlt]
      have hgt : (Nat.sqrt x : Int) < y := by
        by_contra hle
        have : y = Nat.sqrt x := by omega
        rw [this] at hlt; omega
      have := ih (y - 1) (by omega) (by omega)
      simp only
      rw [show (x : Int) - y * y + (1 + 2 * (y - 1)) = (x : Int) - (y - 1) * (y - 1) by ring]
      exact this
    · rw [if_neg hlt]
      have : y = Nat.sqrt x := by
        by_contra hne
        have hgt : (Nat.sqrt x : Int) + 1 ≤ y := by omega
        have : ((Nat.sqrt x : Int) + 1) * (Nat.sqrt x + 1) ≤ y * y := by nlinarith
        omega
      rw [this]

/-- `sqrtrem_python` (large-`x` branch) is exact whenever the estimate `y0 = isqrt_fast(x)` is not more
than 1 below the true root (any overestimate is repaired by the first loop). -/
theorem sqrtremLarge_spec (x : Nat) (y0 : Int) (h : (Nat.sqrt x : Int) ≤ y0 + 1) :
    sqrtremLarge x y0 = ((Nat.sqrt x : Int), (x : Int) - (Nat.sqrt x : Int) * Nat.sqrt x) := by
  have h1 : ((Nat.sqrt x : Int)) * Nat.sqrt x ≤ x := by exact_mod_cast Nat.sqrt_le x
  have h2 : (x : Int) < ((Nat.sqrt x : Int) + 1) * (Nat.sqrt x + 1) := by exact_mod_cast Nat.lt_succ_sqrt x
  unfold sqrtremLarge
  simp only
  rw [sqrtremDown_spec x _ (y0 + 1) h (by omega)]
  simp only
  split
  · unfold sqrtremUp
    rw [if_neg (by nlinarith)]
  · rfl

/-- The second correction loop tests `rem > 2*(1+y)` where exactness needs `rem > 2*y`: if the estimate were
2 (or more) below the root the function would return a wrong root.  Witness at the loop level (`x = 16`,
estimate 2): result `(3, 7)` instead of `(4, 0)`.  (No input with `isqrt_fast(x) ≤ isqrt(x) - 2` is known:
2.6·10^6 adversarial trials near perfect squares gave errors in {-1, 0, +1} only.) -/
theorem sqrtremLarge_underestimate_witness : sqrtremLarge 16 2 = (3, 7) := by decide

end Mp
