/-
  MpProofs/IntFunSieve.lean — correctness of the sieve `list_primes` / `primepi`, and the cores of
  `stirling2` / `stirling1` of MpModel/IntFun.lean.
-/
import MpModel.IntFun
import Mathlib.Data.Nat.Prime.Basic
import Mathlib.Data.Nat.Sqrt
import Mathlib.Tactic.Ring
import Mathlib.Tactic.Linarith
import Mathlib.Tactic.LinearCombination
import Mathlib.Data.Nat.Choose.Sum
import Mathlib.Combinatorics.Enumerative.Stirling

namespace Mp

/-! ## list_primes -/

/-- entry `x` of the sieve, `0` outside -/
def sv (s : Array Nat) (x : Nat) : Nat := s.getD x 0

theorem sv_set (s : Array Nat) (j x : Nat) :
    sv (s.setIfInBounds j 0) x = if x = j then 0 else sv s x := by
  unfold sv
  simp only [Array.getD_eq_getD_getElem?, Array.getElem?_setIfInBounds]
  by_cases h : j = x
  · subst h
    by_cases h2 : j < s.size <;> simp [h2]
  · have : ¬ x = j := fun e => h e.symm
    simp [h, this]

theorem foldl_set_size (l : List Nat) (s : Array Nat) :
    (l.foldl (fun s j => s.setIfInBounds j 0) s).size = s.size := by
  induction l generalizing s with
  | nil => rfl
  | cons a l ih => simp [List.foldl_cons, ih]

theorem foldl_set_sv (l : List Nat) (s : Array Nat) (x : Nat) :
    sv (l.foldl (fun s j => s.setIfInBounds j 0) s) x = if x ∈ l then 0 else sv s x := by
  induction l generalizing s with
  | nil => simp
  | cons a l ih =>
    rw [List.foldl_cons, ih, sv_set]
    by_cases h1 : x ∈ l
    · simp [h1]
    · by_cases h2 : x = a <;> simp [h1, h2]

theorem sieveCross_size (N i : Nat) (s : Array Nat) : (sieveCross N i s).size = s.size :=
  foldl_set_size _ _

theorem ceil_lt (A i t : Nat) (hi : 1 ≤ i) : t < (A + i - 1) / i ↔ i * t < A := by
  rw [show t < (A + i - 1) / i ↔ t + 1 ≤ (A + i - 1) / i from Iff.rfl,
    Nat.le_div_iff_mul_le (by omega)]
  have : (t + 1) * i = i * t + i := by ring
  omega

theorem mem_cross (N i x : Nat) (hi : 1 ≤ i) :
    x ∈ List.range' (i ^ 2) ((N - i ^ 2 + i - 1) / i) i ↔ i ^ 2 ≤ x ∧ i ∣ x ∧ x < N := by
  rw [List.mem_range']
  constructor
  · rintro ⟨t, ht, rfl⟩
    rw [ceil_lt _ _ _ hi] at ht
    refine ⟨by omega, ?_, by omega⟩
    exact Nat.dvd_add (Dvd.intro_left (i ^ 1) (by ring)) (Dvd.intro _ rfl)
  · rintro ⟨h1, ⟨c, rfl⟩, h3⟩
    have hci : i ≤ c := by
      by_contra hlt
      have : i * c < i * i := Nat.mul_lt_mul_of_pos_left (by omega) (by omega)
      nlinarith
    refine ⟨c - i, ?_, ?_⟩
    · rw [ceil_lt _ _ _ hi]
      have : i * (c - i) = i * c - i ^ 2 := by
        rw [Nat.mul_sub, pow_two]
      omega
    · have : i * (c - i) = i * c - i ^ 2 := by
        rw [Nat.mul_sub, pow_two]
      omega

theorem sieveCross_sv (N i : Nat) (s : Array Nat) (x : Nat) (hi : 1 ≤ i) :
    sv (sieveCross N i s) x = if i ^ 2 ≤ x ∧ i ∣ x ∧ x < N then 0 else sv s x := by
  unfold sieveCross
  rw [foldl_set_sv]
  simp only [mem_cross N i x hi]

open Classical in
/-- sieve state after all `i < I` have been processed -/
def SInv (N I : Nat) (s : Array Nat) : Prop :=
  ∀ x, sv s x = if 2 ≤ x ∧ x < N ∧ ¬ ∃ q, Nat.Prime q ∧ q < I ∧ q ∣ x ∧ q ^ 2 ≤ x then x else 0

theorem prime_of_no_small (i : Nat) (h2 : 2 ≤ i)
    (h : ¬ ∃ q, Nat.Prime q ∧ q < i ∧ q ∣ i ∧ q ^ 2 ≤ i) : Nat.Prime i := by
  by_contra hnp
  exact h ⟨i.minFac, Nat.minFac_prime (by omega), (Nat.not_prime_iff_minFac_lt h2).1 hnp,
    Nat.minFac_dvd i, Nat.minFac_sq_le_self (by omega) hnp⟩

theorem no_small_of_prime (i : Nat) (hp : Nat.Prime i) :
    ¬ ∃ q, Nat.Prime q ∧ q < i ∧ q ∣ i ∧ q ^ 2 ≤ i := by
  rintro ⟨q, hq, hlt, hd, _⟩
  rcases (Nat.dvd_prime hp).1 hd with h | h
  · exact hq.ne_one h
  · omega

theorem ex_succ (I x : Nat) :
    (∃ q, Nat.Prime q ∧ q < I + 1 ∧ q ∣ x ∧ q ^ 2 ≤ x) ↔
      (∃ q, Nat.Prime q ∧ q < I ∧ q ∣ x ∧ q ^ 2 ≤ x) ∨ (Nat.Prime I ∧ I ∣ x ∧ I ^ 2 ≤ x) := by
  constructor
  · rintro ⟨q, hq, hlt, hd, hs⟩
    by_cases h : q = I
    · subst h; exact Or.inr ⟨hq, hd, hs⟩
    · exact Or.inl ⟨q, hq, by omega, hd, hs⟩
  · rintro (⟨q, hq, hlt, hd, hs⟩ | ⟨hq, hd, hs⟩)
    · exact ⟨q, hq, by omega, hd, hs⟩
    · exact ⟨I, hq, by omega, hd, hs⟩

theorem sq_ge_self (I : Nat) : I ≤ I ^ 2 := by nlinarith [Nat.zero_le I]

theorem SInv_step (N I : Nat) (s : Array Nat) (hI : 2 ≤ I) (h : SInv N I s) :
    SInv N (I + 1) (if s.getD I 0 ≠ 0 then sieveCross N I s else s) := by
  intro x
  have hIv := h I
  change s.getD I 0 = _ at hIv
  by_cases hne : s.getD I 0 ≠ 0
  · rw [if_pos hne]
    rw [hIv] at hne
    have hc : 2 ≤ I ∧ I < N ∧ ¬ ∃ q, Nat.Prime q ∧ q < I ∧ q ∣ I ∧ q ^ 2 ≤ I := by
      by_contra hc; rw [if_neg hc] at hne; exact hne rfl
    have hp : Nat.Prime I := prime_of_no_small I hI hc.2.2
    rw [sieveCross_sv N I s x (by omega), h x, ex_succ]
    by_cases hx : I ^ 2 ≤ x ∧ I ∣ x ∧ x < N
    · rw [if_pos hx, if_neg]
      rintro ⟨_, _, h3⟩
      exact h3 (Or.inr ⟨hp, hx.2.1, hx.1⟩)
    · rw [if_neg hx]
      by_cases hE : ∃ q, Nat.Prime q ∧ q < I ∧ q ∣ x ∧ q ^ 2 ≤ x
      · rw [if_neg (fun h => h.2.2 hE), if_neg (fun h => h.2.2 (Or.inl hE))]
      · by_cases hb : 2 ≤ x ∧ x < N
        · rw [if_pos ⟨hb.1, hb.2, hE⟩, if_pos]
          refine ⟨hb.1, hb.2, ?_⟩
          rintro (h1 | ⟨_, h2, h3⟩)
          · exact hE h1
          · exact hx ⟨h3, h2, hb.2⟩
        · rw [if_neg (by tauto), if_neg (by tauto)]
  · rw [if_neg hne]
    have h0 : s.getD I 0 = 0 := by
      by_contra h0; exact hne h0
    rw [h x, ex_succ]
    by_cases hP : Nat.Prime I ∧ I ∣ x ∧ I ^ 2 ≤ x
    · by_cases hb : 2 ≤ x ∧ x < N
      · exfalso
        rw [h0] at hIv
        have hlt : I < N := by have := sq_ge_self I; omega
        rw [if_pos ⟨hI, hlt, no_small_of_prime I hP.1⟩] at hIv
        omega
      · rw [if_neg (by tauto), if_neg (by tauto)]
    · have : ((∃ q, Nat.Prime q ∧ q < I ∧ q ∣ x ∧ q ^ 2 ≤ x) ∨ (Nat.Prime I ∧ I ∣ x ∧ I ^ 2 ≤ x)) ↔
          (∃ q, Nat.Prime q ∧ q < I ∧ q ∣ x ∧ q ^ 2 ≤ x) := or_iff_left hP
      rw [this]

theorem SInv_size_step (N I : Nat) (s : Array Nat) :
    (if s.getD I 0 ≠ 0 then sieveCross N I s else s).size = s.size := by
  split
  · exact sieveCross_size _ _ _
  · rfl

theorem SInv_fold (N cnt : Nat) (s : Array Nat) (h : SInv N 2 s) :
    SInv N (2 + cnt) ((List.range' 2 cnt).foldl
      (fun s i => if s.getD i 0 ≠ 0 then sieveCross N i s else s) s) ∧
    ((List.range' 2 cnt).foldl
      (fun s i => if s.getD i 0 ≠ 0 then sieveCross N i s else s) s).size = s.size := by
  induction cnt with
  | zero => exact ⟨h, rfl⟩
  | succ c ih =>
    rw [List.range'_1_concat, List.foldl_append, List.foldl_cons, List.foldl_nil]
    refine ⟨SInv_step N (2 + c) _ (by omega) ih.1, ?_⟩
    rw [SInv_size_step, ih.2]

/-- the sieve at the end of the loop: exactly the primes below `N` survive -/
theorem SInv_final (N I : Nat) (s : Array Nat) (hI : Nat.sqrt N < I) (h : SInv N I s) (x : Nat) :
    sv s x = if x < N ∧ Nat.Prime x then x else 0 := by
  rw [h x]
  by_cases hp : Nat.Prime x
  · by_cases hN : x < N
    · rw [if_pos (show x < N ∧ Nat.Prime x from ⟨hN, hp⟩), if_pos]
      refine ⟨hp.two_le, hN, ?_⟩
      rintro ⟨q, hq, _, hd, hs⟩
      rcases (Nat.dvd_prime hp).1 hd with e | e
      · exact hq.ne_one e
      · subst e
        have := hq.two_le
        nlinarith
    · rw [if_neg (by tauto), if_neg (by tauto)]
  · rw [if_neg (show ¬ (x < N ∧ Nat.Prime x) from fun h => hp h.2)]
    by_cases hb : 2 ≤ x ∧ x < N
    · rw [if_neg]
      rintro ⟨_, _, h3⟩
      apply h3
      refine ⟨x.minFac, Nat.minFac_prime (by omega), ?_, Nat.minFac_dvd x,
        Nat.minFac_sq_le_self (by omega) hp⟩
      have h1 := Nat.minFac_sq_le_self (n := x) (by omega) hp
      have : x.minFac ≤ Nat.sqrt N := Nat.le_sqrt'.2 (by omega)
      omega
    · rw [if_neg (fun h => hb ⟨h.1, h.2.1⟩)]

theorem sv_init (N x : Nat) :
    sv ([0, 0] ++ (List.range N).drop 2).toArray x = if 2 ≤ x ∧ x < N then x else 0 := by
  unfold sv
  rw [Array.getD_eq_getD_getElem?, List.getElem?_toArray]
  by_cases h2 : x < 2
  · rw [List.getElem?_append_left (by simpa using h2), if_neg (by omega)]
    obtain rfl | rfl : x = 0 ∨ x = 1 := by omega
    · rfl
    · rfl
  · rw [List.getElem?_append_right (by simp only [List.length_cons, List.length_nil]; omega),
      List.getElem?_drop]
    simp only [List.length_cons, List.length_nil]
    rw [show 2 + (x - (0 + 1 + 1)) = x by omega]
    by_cases hN : x < N
    · rw [List.getElem?_range hN, if_pos ⟨by omega, hN⟩]; rfl
    · rw [List.getElem?_eq_none (by simpa using hN), if_neg (by omega)]; rfl

theorem SInv_init (N : Nat) : SInv N 2 ([0, 0] ++ (List.range N).drop 2).toArray := by
  intro x
  rw [sv_init]
  have : ¬ ∃ q, Nat.Prime q ∧ q < 2 ∧ q ∣ x ∧ q ^ 2 ≤ x := by
    rintro ⟨q, hq, h2, _⟩
    have := hq.two_le
    omega
  simp only [this, not_false_eq_true, and_true]

theorem toList_eq_map_sv (s : Array Nat) : s.toList = (List.range s.size).map (sv s) := by
  apply List.ext_getElem
  · simp
  · intro i h1 h2
    have h3 : i < s.size := by simpa using h1
    simp [sv, h3]

theorem filter_final (N M : Nat) (hM : N ≤ M) (f : Nat → Nat)
    (hf : ∀ x, f x = if x < N ∧ Nat.Prime x then x else 0) :
    ((List.range M).map f).filter (· ≠ 0) = (List.range N).filter (fun p => decide (Nat.Prime p)) := by
  obtain ⟨d, rfl⟩ := Nat.exists_eq_add_of_le hM
  rw [List.filter_map, List.range_add, List.filter_append, List.map_append]
  have h2 : (List.map (fun x => N + x) (List.range d)).filter ((fun x => decide (x ≠ 0)) ∘ f) = [] := by
    rw [List.filter_eq_nil_iff]
    intro a ha
    rw [List.mem_map] at ha
    obtain ⟨b, _, rfl⟩ := ha
    simp [hf]
  rw [h2, List.map_nil, List.append_nil]
  have h1 : (List.range N).filter ((fun x => decide (x ≠ 0)) ∘ f)
      = (List.range N).filter (fun p => decide (Nat.Prime p)) := by
    apply List.filter_congr
    intro x hx
    rw [List.mem_range] at hx
    simp only [Function.comp, hf, hx, true_and]
    by_cases hp : Nat.Prime x
    · simp [hp, hp.ne_zero]
    · simp [hp]
  rw [h1]
  conv_rhs => rw [← List.map_id (List.filter _ _)]
  apply List.map_congr_left
  intro x hx
  rw [List.mem_filter, List.mem_range] at hx
  rw [hf, if_pos ⟨hx.1, by simpa using hx.2⟩]; rfl

theorem list_primes_spec (n : Int) (h : -1 ≤ n) :
    list_primes n = .ok ((List.range (n + 1).toNat).filter (fun p => decide (Nat.Prime p))) := by
  unfold list_primes
  simp only
  rw [if_neg (by omega)]
  congr 1
  obtain ⟨hinv, hsz⟩ := SInv_fold (n + 1).toNat (Nat.sqrt (n + 1).toNat + 1 - 2) _
    (SInv_init (n + 1).toNat)
  rw [toList_eq_map_sv]
  apply filter_final
  · rw [hsz]; simp; omega
  · exact SInv_final _ _ _ (by omega) hinv

theorem list_primes_err (n : Int) (h : n < -1) : list_primes n = .error .typeError := by
  unfold list_primes
  simp only
  rw [if_pos (by omega)]

theorem primepi_spec (x : Int) :
    primepi x = .ok (((List.range (x + 1).toNat).filter (fun p => decide (Nat.Prime p))).length : Int) := by
  unfold primepi
  by_cases hx : x < 2
  · rw [if_pos hx]
    have : (List.range (x + 1).toNat).filter (fun p => decide (Nat.Prime p)) = [] := by
      rw [List.filter_eq_nil_iff]
      intro a ha
      rw [List.mem_range] at ha
      have : ¬ Nat.Prime a := fun hp => by have := hp.two_le; omega
      simp [this]
    rw [this]; rfl
  · rw [if_neg hx, list_primes_spec x (by omega)]

example : list_primes 30 = .ok [2, 3, 5, 7, 11, 13, 17, 19, 23, 29] := by decide +kernel

/-! ## stirling2 -/

open Finset in
/-- `A n k = ∑_{j ≤ k} (-1)^(k+j) C(k,j) j^n` -/
def stA (n k : Nat) : Int :=
  ∑ j ∈ Finset.range (k + 1), (-1) ^ (k + j) * (k.choose j : Int) * (j : Int) ^ n

/-- `B n k = ∑_{j ≤ k} (-1)^(k+j) C(k,j) (j+1)^n` -/
def stB (n k : Nat) : Int :=
  ∑ j ∈ Finset.range (k + 1), (-1) ^ (k + j) * (k.choose j : Int) * ((j : Int) + 1) ^ n

theorem stA_succ_succ (n k : Nat) : stA (n + 1) (k + 1) = ((k : Int) + 1) * stB n k := by
  unfold stA stB
  rw [Finset.sum_range_succ', Finset.mul_sum]
  simp only [Nat.cast_zero, ne_eq, Nat.add_eq_zero_iff, one_ne_zero, and_false, not_false_eq_true,
    zero_pow, mul_zero, add_zero]
  apply Finset.sum_congr rfl
  intro j _
  have hC : ((k + 1).choose (j + 1) : Int) * ((j : Int) + 1) = ((k : Int) + 1) * (k.choose j : Int) := by
    have := Nat.add_one_mul_choose_eq k j
    have h2 : (((k + 1) * k.choose j : Nat) : Int) = (((k + 1).choose (j + 1) * (j + 1) : Nat) : Int) := by
      exact_mod_cast this
    push_cast at h2
    linarith
  have hs : ((-1 : Int)) ^ (k + 1 + (j + 1)) = (-1) ^ (k + j) := by
    rw [show k + 1 + (j + 1) = k + j + 2 by ring, pow_add]; norm_num
  rw [hs]
  push_cast
  linear_combination ((-1) ^ (k + j) * ((j : Int) + 1) ^ n) * hC

theorem stB_eq (n k : Nat) : stB n k = stA n (k + 1) + stA n k := by
  have h1 : stA n k = ∑ j ∈ Finset.range (k + 1),
      (-1) ^ (k + (j + 1)) * (k.choose (j + 1) : Int) * ((j : Int) + 1) ^ n
      + (-1) ^ k * (0 : Int) ^ n := by
    have e1 := Finset.sum_range_succ
      (fun j => (-1 : Int) ^ (k + j) * (k.choose j : Int) * (j : Int) ^ n) (k + 1)
    have e2 := Finset.sum_range_succ'
      (fun j => (-1 : Int) ^ (k + j) * (k.choose j : Int) * (j : Int) ^ n) (k + 1)
    simp only [Nat.choose_succ_self, Nat.cast_zero, mul_zero, zero_mul, add_zero] at e1
    unfold stA
    rw [← e1, e2]
    simp
  have h2 : stA n (k + 1) = ∑ j ∈ Finset.range (k + 1),
      (-1) ^ (k + 1 + (j + 1)) * ((k + 1).choose (j + 1) : Int) * ((j : Int) + 1) ^ n
      + (-1) ^ (k + 1) * (0 : Int) ^ n := by
    unfold stA
    rw [Finset.sum_range_succ']
    simp
  rw [h1, h2]
  unfold stB
  have h3 : (-1 : Int) ^ (k + 1) * (0 : Int) ^ n + (-1) ^ k * (0 : Int) ^ n = 0 := by
    rw [pow_succ]; ring
  have h4 : ∀ j, (-1 : Int) ^ (k + j) * (k.choose j : Int) * ((j : Int) + 1) ^ n
      = (-1) ^ (k + 1 + (j + 1)) * ((k + 1).choose (j + 1) : Int) * ((j : Int) + 1) ^ n
        + (-1) ^ (k + (j + 1)) * (k.choose (j + 1) : Int) * ((j : Int) + 1) ^ n := by
    intro j
    rw [Nat.choose_succ_succ, show k + 1 + (j + 1) = k + j + 2 by ring,
      show k + (j + 1) = k + j + 1 by ring, pow_add _ _ 2, pow_succ _ (k + j)]
    push_cast
    ring
  rw [Finset.sum_congr rfl (fun j _ => h4 j), Finset.sum_add_distrib]
  linarith

/-- explicit formula for the Stirling numbers of the second kind -/
theorem stA_eq (n k : Nat) : stA n k = (k.factorial : Int) * (Nat.stirlingSecond n k : Int) := by
  induction n generalizing k with
  | zero =>
    cases k with
    | zero => simp [stA]
    | succ k =>
      rw [Nat.stirlingSecond_zero_succ]
      unfold stA
      have h : ∀ j : Nat, (-1 : Int) ^ (k + 1 + j) * ((k + 1).choose j : Int) * (j : Int) ^ 0
          = (-1) ^ (k + 1) * ((-1) ^ j * ((k + 1).choose j : Int)) := by
        intro j; rw [pow_add]; ring
      simp only [h, Nat.cast_zero, mul_zero]
      rw [← Finset.mul_sum, Int.alternating_sum_range_choose_of_ne (Nat.succ_ne_zero k), mul_zero]
  | succ n ih =>
    cases k with
    | zero => simp [stA, Nat.stirlingSecond_succ_zero]
    | succ k =>
      rw [stA_succ_succ, stB_eq, ih, ih, Nat.stirlingSecond_succ_succ, Nat.factorial_succ]
      push_cast
      ring

theorem st2_t_step (k J : Nat) (hJ : J ≤ k) :
    ((k.choose J : Int) * ((k : Int) - J)).fdiv ((J : Int) + 1) = (k.choose (J + 1) : Int) := by
  have h := Nat.choose_succ_right_eq k J
  have h2 : ((k.choose (J + 1) * (J + 1) : Nat) : Int) = ((k.choose J * (k - J) : Nat) : Int) := by
    rw [h]
  push_cast [Nat.cast_sub hJ] at h2
  rw [Int.fdiv_eq_ediv_of_nonneg _ (by omega), ← h2, Int.mul_ediv_cancel _ (by omega)]

theorem st2_s_step (n k J : Nat) (S C : Int) :
    (if (k + J) % 2 = 1 then S - C * (J : Int) ^ n else S + C * (J : Int) ^ n)
      = S + (-1) ^ (k + J) * C * (J : Int) ^ n := by
  rcases Nat.even_or_odd (k + J) with he | ho
  · rw [if_neg (by rw [Nat.even_iff] at he; omega), he.neg_one_pow]; ring
  · rw [if_pos (Nat.odd_iff.1 ho), ho.neg_one_pow]; ring

/-- part (i): the loop of `stirling2` computes the alternating sum, the second component is the
running binomial coefficient -/
theorem st2_fold_aux (n k J : Nat) (hJ : J ≤ k + 1) :
    (List.range J).foldl (st2Step n k) (0, 1)
      = (∑ j ∈ Finset.range J, (-1) ^ (k + j) * (k.choose j : Int) * (j : Int) ^ n,
          (k.choose J : Int)) := by
  induction J with
  | zero => simp
  | succ J ih =>
    rw [List.range_succ, List.foldl_append, ih (by omega), List.foldl_cons, List.foldl_nil]
    simp only [st2Step]
    rw [st2_s_step, st2_t_step k J (by omega), Finset.sum_range_succ]

theorem st2_fold_sum (n k : Nat) :
    ((List.range (k + 1)).foldl (st2Step n k) (0, 1)).1
      = ∑ j ∈ Finset.range (k + 1), (-1) ^ (k + j) * (k.choose j : Int) * (j : Int) ^ n := by
  rw [st2_fold_aux n k (k + 1) (Nat.le_refl _)]

/-- the loop of `stirling2` computes `k! * S(n,k)` (also true for `n = 0`) -/
theorem st2_fold' (n k : Nat) :
    ((List.range (k + 1)).foldl (st2Step n k) (0, 1)).1
      = (k.factorial : Int) * (Nat.stirlingSecond n k : Int) := by
  rw [st2_fold_sum]
  exact stA_eq n k

theorem st2_fold (n k : Nat) (_hn : 1 ≤ n) :
    ((List.range (k + 1)).foldl (st2Step n k) (0, 1)).1
      = (k.factorial : Int) * (Nat.stirlingSecond n k : Int) :=
  st2_fold' n k

example : ((List.range (3 + 1)).foldl (st2Step 5 3) (0, 1)).1 = 6 * 25 := by decide

/-! ## stirling1 -/

theorem getD_set_int (L : List Int) (a i : Nat) (v : Int) :
    (L.set a v).getD i 0 = if a = i ∧ a < L.length then v else L.getD i 0 := by
  rw [List.getD_eq_getElem?_getD, List.getD_eq_getElem?_getD, List.getElem?_set]
  by_cases h : a = i
  · subst h
    by_cases h2 : a < L.length
    · simp [h2]
    · simp [h2]
  · simp [h]

theorem st1Inner_length (J : Nat) (m : Int) (L : List Int) : (st1Inner J m L).length = L.length := by
  induction J generalizing L with
  | zero => rfl
  | succ J ih => rw [st1Inner, ih, List.length_set]

theorem st1Inner_getD (J : Nat) (m : Int) (L : List Int) (hJ : J < L.length) (i : Nat) :
    (st1Inner J m L).getD i 0
      = if 1 ≤ i ∧ i ≤ J then (m - 1) * L.getD i 0 + L.getD (i - 1) 0 else L.getD i 0 := by
  induction J generalizing L with
  | zero => rw [st1Inner, if_neg (by omega)]
  | succ J ih =>
    rw [st1Inner, ih _ (by rw [List.length_set]; omega)]
    by_cases h1 : 1 ≤ i ∧ i ≤ J
    · rw [if_pos h1, if_pos (by omega), getD_set_int, getD_set_int, if_neg (by omega),
        if_neg (by omega)]
    · rw [if_neg h1, getD_set_int]
      by_cases h2 : i = J + 1
      · subst h2
        rw [if_pos ⟨rfl, hJ⟩, if_pos (by omega)]; rfl
      · rw [if_neg (by omega), if_neg (by omega)]

/-- row `m` of the table of unsigned Stirling numbers of the first kind, columns `0..k` -/
def st1Row (k m : Nat) : List Int := (List.range (k + 1)).map (fun j => (Nat.stirlingFirst m j : Int))

theorem st1Row_getD (k m i : Nat) :
    (st1Row k m).getD i 0 = if i ≤ k then (Nat.stirlingFirst m i : Int) else 0 := by
  unfold st1Row
  rw [List.getD_eq_getElem?_getD, List.getElem?_map]
  by_cases h : i ≤ k
  · rw [List.getElem?_range (by omega), if_pos h]; rfl
  · rw [List.getElem?_eq_none (by simp; omega), if_neg h]; rfl

theorem list_ext_getD (L1 L2 : List Int) (hl : L1.length = L2.length)
    (h : ∀ i, L1.getD i 0 = L2.getD i 0) : L1 = L2 := by
  apply List.ext_getElem hl
  intro i h1 h2
  have := h i
  rw [List.getD_eq_getElem?_getD, List.getD_eq_getElem?_getD, List.getElem?_eq_getElem h1,
    List.getElem?_eq_getElem h2] at this
  exact this

theorem st1Row_length (k m : Nat) : (st1Row k m).length = k + 1 := by simp [st1Row]

theorem st1_init (k : Nat) : (List.replicate (k + 1) (0 : Int)).set 1 1 = st1Row k 1 := by
  apply list_ext_getD
  · simp [st1Row]
  · intro i
    rw [getD_set_int, st1Row_getD, List.length_replicate, List.getD_eq_getElem?_getD,
      List.getElem?_replicate]
    rcases i with _ | _ | i
    · simp [Nat.stirlingFirst_succ_zero]
    · by_cases hk : 1 ≤ k
      · rw [if_pos ⟨rfl, by omega⟩, if_pos hk]; simp [Nat.stirlingFirst_self]
      · rw [if_neg (by omega), if_neg hk, if_neg (by omega)]; rfl
    · rw [if_neg (by omega), Nat.stirlingFirst_eq_zero_of_lt (by omega)]
      by_cases hk : i + 1 + 1 < k + 1
      · rw [if_pos hk]; simp
      · rw [if_neg hk]; simp

theorem st1_row_step (k m : Nat) (hm : 1 ≤ m) :
    st1Inner (min k (m + 1)) ((m + 1 : Nat) : Int) (st1Row k m) = st1Row k (m + 1) := by
  apply list_ext_getD
  · rw [st1Inner_length, st1Row_length, st1Row_length]
  · intro i
    rw [st1Inner_getD _ _ _ (by rw [st1Row_length]; omega), st1Row_getD, st1Row_getD, st1Row_getD]
    rcases i with _ | i
    · obtain ⟨m', rfl⟩ := Nat.exists_eq_add_of_le' hm
      rw [if_neg (by omega), if_pos (by omega), if_pos (by omega), Nat.stirlingFirst_succ_zero,
        Nat.stirlingFirst_succ_zero]
    · by_cases h1 : i + 1 ≤ min k (m + 1)
      · rw [if_pos ⟨by omega, h1⟩, if_pos (by omega), if_pos (by omega), if_pos (by omega),
          Nat.stirlingFirst_succ_succ]
        push_cast
        simp
      · rw [if_neg (by omega)]
        by_cases hk : i + 1 ≤ k
        · rw [if_pos hk, if_pos hk, Nat.stirlingFirst_eq_zero_of_lt (by omega),
            Nat.stirlingFirst_eq_zero_of_lt (by omega)]
        · rw [if_neg hk, if_neg hk]

theorem st1_fold_row (k cnt : Nat) :
    (List.range' 2 cnt).foldl (fun L m => st1Inner (min k m) (m : Int) L) (st1Row k 1)
      = st1Row k (1 + cnt) := by
  induction cnt with
  | zero => rfl
  | succ c ih =>
    rw [List.range'_1_concat, List.foldl_append, ih, List.foldl_cons, List.foldl_nil,
      show 2 + c = 1 + c + 1 by omega, st1_row_step k (1 + c) (by omega)]
    rfl

theorem st1_fold (n k : Nat) (hk : 1 ≤ k) (hkn : k < n) :
    ((List.range' 2 (n - 1)).foldl (fun L m => st1Inner (min k m) (m : Int) L)
        ((List.replicate (k + 1) (0:Int)).set 1 1)).getD k 0
      = (Nat.stirlingFirst n k : Int) := by
  rw [st1_init, st1_fold_row, st1Row_getD, if_pos (Nat.le_refl _), show 1 + (n - 1) = n by omega]

example : ((List.range' 2 (5 - 1)).foldl (fun L m => st1Inner (min 2 m) (m : Int) L)
    ((List.replicate (2 + 1) (0:Int)).set 1 1)).getD 2 0 = 50 := by decide

/-- bonus: `stirling1` returns the signed Stirling number of the first kind -/
theorem stirling1_spec (n k : Nat) :
    stirling1 (n : Int) (k : Int) = .ok ((-1) ^ (n + k) * (Nat.stirlingFirst n k : Int)) := by
  unfold stirling1
  rw [if_neg (by omega)]
  by_cases h1 : (k : Int) ≥ n
  · rw [if_pos h1]
    by_cases h2 : (n : Int) = k
    · have : n = k := by omega
      subst this
      rw [if_pos rfl, Nat.stirlingFirst_self, ← two_mul, pow_mul]; simp
    · rw [if_neg h2, Nat.stirlingFirst_eq_zero_of_lt (by omega)]; simp
  · rw [if_neg h1]
    by_cases h3 : (k : Int) < 1
    · have : k = 0 := by omega
      subst this
      obtain ⟨n', rfl⟩ : ∃ n', n = n' + 1 := ⟨n - 1, by omega⟩
      rw [if_pos h3, Nat.stirlingFirst_succ_zero]; simp
    · rw [if_neg h3]
      simp only [Int.toNat_natCast]
      rw [st1_fold n k (by omega) (by omega), show ((n : Int) + k).toNat = n + k by omega]

theorem stirling1_err (n k : Int) (h : n < 0 ∨ k < 0) : stirling1 n k = .error .valueError := by
  unfold stirling1
  rw [if_pos h]

end Mp

