/-
  MpProofs/Format.lean — the p-bit format over K: representability, the "empty cell" lemma,
  and rounding predicates derived from the enclosing cell `[q·2^E, (q+1)·2^E]`.
-/
import MpProofs.Bits

namespace Mp

variable {K : Type*} [Field K] [LinearOrder K] [IsStrictOrderedRing K]

theorem two_zpow_pos (E : ℤ) : (0 : K) < (2 : K) ^ E := by positivity

/-! ### Repb -/

theorem Repb.neg {p : ℕ} {y : K} (h : Repb p y) : Repb p (-y) := by
  obtain ⟨m, e, hm, rfl⟩ := h
  exact ⟨-m, e, by simpa using hm, by push_cast; ring⟩

theorem repb_neg_iff {p : ℕ} {y : K} : Repb p (-y) ↔ Repb p y :=
  ⟨fun h => by simpa using h.neg, Repb.neg⟩

theorem repb_zero (p : ℕ) : Repb p (0 : K) := ⟨0, 0, by positivity, by simp⟩

theorem repb_nat {p : ℕ} {q : ℕ} (hq : q < 2 ^ p) (E : ℤ) : Repb p ((q : K) * 2 ^ E) :=
  ⟨q, E, by rw [abs_of_nonneg (by positivity)]; exact_mod_cast hq, by push_cast; ring⟩

theorem repb_two_pow {p : ℕ} (hp : 0 < p) (E : ℤ) : Repb p (((2 ^ p : ℕ) : K) * 2 ^ E) := by
  refine ⟨1, E + p, ?_, ?_⟩
  · rw [abs_one]; exact one_lt_pow₀ (by norm_num) (by omega)
  · rw [zpow_add₀ (by norm_num), zpow_natCast]; push_cast; ring

/-- every cell endpoint `q·2^E` with `q ≤ 2^p` is representable -/
theorem repb_nat_le {p : ℕ} (hp : 0 < p) {q : ℕ} (hq : q ≤ 2 ^ p) (E : ℤ) : Repb p ((q : K) * 2 ^ E) := by
  rcases Nat.lt_or_ge q (2 ^ p) with h | h
  · exact repb_nat h E
  · have : q = 2 ^ p := le_antisymm hq h
    subst this; exact repb_two_pow hp E

theorem Repb.mono {p p' : ℕ} (h : p ≤ p') {y : K} (hy : Repb p y) : Repb p' y := by
  obtain ⟨m, e, hm, rfl⟩ := hy
  refine ⟨m, e, lt_of_lt_of_le hm ?_, rfl⟩
  exact pow_le_pow_right₀ (by norm_num) h

/-- Key "no representable number strictly inside a binade cell" lemma:
if 2^(p-1) ≤ q, then no p-bit representable z satisfies q*2^E < z < (q+1)*2^E. -/
theorem no_repr_between {p : Nat} (hp : 0 < p) {q : ℕ} {E : ℤ} (hq : 2^(p-1) ≤ q)
    {z : K} (hz : Repb p z) (h1 : (q:K) * 2^E < z) (h2 : z < ((q:K)+1) * 2^E) : False := by
  obtain ⟨m, e, hm, rfl⟩ := hz
  have hE : (0:K) < 2^E := by positivity
  rcases le_or_gt E e with hle | hlt
  · -- e ≥ E : z is a multiple of 2^E
    obtain ⟨k, rfl⟩ : ∃ k : ℕ, e = E + k := ⟨(e - E).toNat, by omega⟩
    rw [zpow_add₀ (by norm_num), zpow_natCast] at h1 h2
    have h1' : (q:K) < m * 2^k := by
      have : (q:K) * 2^E < (m * 2^k) * 2^E := by linarith [h1]
      exact lt_of_mul_lt_mul_right this hE.le
    have h2' : (m:K) * 2^k < q + 1 := by
      have : (m * 2^k : K) * 2^E < ((q:K)+1) * 2^E := by linarith [h2]
      exact lt_of_mul_lt_mul_right this hE.le
    have a : (q:ℤ) < m * 2^k := by exact_mod_cast h1'
    have b : m * 2^k < (q:ℤ) + 1 := by exact_mod_cast h2'
    omega
  · -- e < E
    obtain ⟨k, rfl⟩ : ∃ k : ℕ, E = e + (k+1) := ⟨(E - e - 1).toNat, by omega⟩
    have he : (0:K) < 2^e := by positivity
    rw [zpow_add₀ (by norm_num)] at h1
    have h1' : (q:K) * 2^((k:ℤ)+1) < m := by
      have : ((q:K) * 2^((k:ℤ)+1)) * 2^e < m * 2^e := by linarith [h1]
      exact lt_of_mul_lt_mul_right this he.le
    have : ((k:ℤ)+1) = ((k+1 : ℕ) : ℤ) := by push_cast; ring
    rw [this, zpow_natCast] at h1'
    have a : (q:ℤ) * 2^(k+1) < m := by exact_mod_cast h1'
    have hm' : m < 2^p := (abs_lt.1 hm).2
    have : (2:ℤ)^p ≤ q * 2^(k+1) := by
      have h3 : (2:ℤ)^(p-1) ≤ q := by exact_mod_cast hq
      have h4 : (2:ℤ)^1 ≤ 2^(k+1) := pow_le_pow_right₀ (by norm_num) (by omega)
      have : (2:ℤ)^p = 2^(p-1) * 2^1 := by rw [← pow_add]; congr 1; omega
      rw [this]
      exact mul_le_mul h3 h4 (by positivity) (by positivity)
    omega

/-- a representable value is not strictly inside a cell: it is at or below the left end,
or at or above the right end -/
theorem repb_outside_cell {p : Nat} (hp : 0 < p) {q : ℕ} {E : ℤ} (hq : 2^(p-1) ≤ q)
    {z : K} (hz : Repb p z) : z ≤ (q:K) * 2^E ∨ ((q:K)+1) * 2^E ≤ z := by
  by_contra h
  push_neg at h
  exact no_repr_between hp hq hz h.1 h.2

/-! ### rounding from the enclosing cell -/

section cell
variable {p : ℕ} (hp : 0 < p) {q : ℕ} {E : ℤ} (hq1 : 2 ^ (p-1) ≤ q) (hq2 : q < 2 ^ p)
include hp hq1 hq2

theorem isRoundF_of_cell {X : K} (h1 : (q:K) * 2^E ≤ X) (h2 : X < ((q:K)+1) * 2^E) :
    IsRoundF p X ((q:K) * 2^E) := by
  refine ⟨repb_nat hq2 E, h1, fun z hz hzx => ?_⟩
  rcases repb_outside_cell hp hq1 (E := E) hz with h | h
  · exact h
  · linarith

theorem isRoundC_of_cell {X : K} (h1 : (q:K) * 2^E < X) (h2 : X ≤ ((q:K)+1) * 2^E) :
    IsRoundC p X (((q:K)+1) * 2^E) := by
  refine ⟨?_, h2, fun z hz hzx => ?_⟩
  · have : ((q:K)+1) = ((q+1 : ℕ) : K) := by push_cast; ring
    rw [this]; exact repb_nat_le hp (by omega) E
  · rcases repb_outside_cell hp hq1 (E := E) hz with h | h
    · linarith
    · exact h

/-- nearest, lower end strictly closer -/
theorem isRoundN_of_cell_lo {X : K} (h1 : (q:K) * 2^E ≤ X) (h2 : X ≤ ((q:K)+1) * 2^E)
    (hc : X - (q:K) * 2^E < ((q:K)+1) * 2^E - X) : IsRoundN p X ((q:K) * 2^E) := by
  refine ⟨repb_nat hq2 E, fun z hz => ?_⟩
  rw [abs_of_nonneg (by linarith : (0:K) ≤ X - (q:K) * 2^E)]
  rcases repb_outside_cell hp hq1 (E := E) hz with h | h
  · rw [abs_of_nonneg (by linarith : (0:K) ≤ X - z)]
    rcases eq_or_lt_of_le h with he | hl
    · right; exact ⟨by rw [he], Or.inl he⟩
    · left; linarith
  · left
    rw [abs_of_nonpos (by linarith : X - z ≤ 0)]
    linarith

/-- nearest, upper end strictly closer -/
theorem isRoundN_of_cell_hi {X : K} (h1 : (q:K) * 2^E ≤ X) (h2 : X ≤ ((q:K)+1) * 2^E)
    (hc : ((q:K)+1) * 2^E - X < X - (q:K) * 2^E) : IsRoundN p X (((q:K)+1) * 2^E) := by
  refine ⟨?_, fun z hz => ?_⟩
  · have : ((q:K)+1) = ((q+1 : ℕ) : K) := by push_cast; ring
    rw [this]; exact repb_nat_le hp (by omega) E
  rw [abs_of_nonpos (by linarith : X - ((q:K)+1) * 2^E ≤ 0)]
  rcases repb_outside_cell hp hq1 (E := E) hz with h | h
  · left
    rw [abs_of_nonneg (by linarith : (0:K) ≤ X - z)]
    linarith
  · rw [abs_of_nonpos (by linarith : X - z ≤ 0)]
    rcases eq_or_lt_of_le h with he | hl
    · right; exact ⟨by rw [← he], Or.inl he.symm⟩
    · left; linarith

/-- nearest, exact tie, `q` even: the lower end -/
theorem isRoundN_of_cell_tie_even {X : K} (hc : X - (q:K) * 2^E = ((q:K)+1) * 2^E - X)
    (he : q % 2 = 0) : IsRoundN p X ((q:K) * 2^E) := by
  have hE : (0:K) < 2 ^ E := two_zpow_pos E
  have h1 : (q:K) * 2^E ≤ X := by nlinarith
  have h2 : X ≤ ((q:K)+1) * 2^E := by nlinarith
  refine ⟨repb_nat hq2 E, fun z hz => ?_⟩
  rw [abs_of_nonneg (by linarith : (0:K) ≤ X - (q:K) * 2^E)]
  rcases repb_outside_cell hp hq1 (E := E) hz with h | h
  · rw [abs_of_nonneg (by linarith : (0:K) ≤ X - z)]
    rcases eq_or_lt_of_le h with he' | hl
    · right; exact ⟨by rw [he'], Or.inl he'⟩
    · left; linarith
  · rw [abs_of_nonpos (by linarith : X - z ≤ 0)]
    rcases eq_or_lt_of_le h with he' | hl
    · right
      refine ⟨by rw [← he']; linarith, Or.inr ⟨(q:ℤ)+1, (q:ℤ)/2, E, by omega, ?_, ?_⟩⟩
      · rw [← he']; push_cast; ring
      · have : ((q:ℤ)) = 2 * ((q:ℤ)/2) := by omega
        have h' : (q:K) = 2 * (((q:ℤ)/2 : ℤ) : K) := by exact_mod_cast this
        rw [h']
    · left; linarith

/-- nearest, exact tie, `q` odd: the upper end -/
theorem isRoundN_of_cell_tie_odd {X : K} (hc : X - (q:K) * 2^E = ((q:K)+1) * 2^E - X)
    (he : q % 2 = 1) : IsRoundN p X (((q:K)+1) * 2^E) := by
  have hE : (0:K) < 2 ^ E := two_zpow_pos E
  have h1 : (q:K) * 2^E ≤ X := by nlinarith
  have h2 : X ≤ ((q:K)+1) * 2^E := by nlinarith
  refine ⟨?_, fun z hz => ?_⟩
  · have : ((q:K)+1) = ((q+1 : ℕ) : K) := by push_cast; ring
    rw [this]; exact repb_nat_le hp (by omega) E
  rw [abs_of_nonpos (by linarith : X - ((q:K)+1) * 2^E ≤ 0)]
  rcases repb_outside_cell hp hq1 (E := E) hz with h | h
  · rw [abs_of_nonneg (by linarith : (0:K) ≤ X - z)]
    rcases eq_or_lt_of_le h with he' | hl
    · right
      refine ⟨by rw [he']; linarith, Or.inr ⟨(q:ℤ), ((q:ℤ)+1)/2, E, by omega, ?_, ?_⟩⟩
      · rw [he']; push_cast; ring
      · have : ((q:ℤ)+1) = 2 * (((q:ℤ)+1)/2) := by omega
        have h' : ((q:K)+1) = 2 * ((((q:ℤ)+1)/2 : ℤ) : K) := by exact_mod_cast this
        rw [h']
    · left; linarith
  · rw [abs_of_nonpos (by linarith : X - z ≤ 0)]
    rcases eq_or_lt_of_le h with he' | hl
    · right; exact ⟨by rw [← he'], Or.inl he'.symm⟩
    · left; linarith

end cell

/-! ### exactly representable values round to themselves -/

theorem isRoundF_self {p : ℕ} {x : K} (h : Repb p x) : IsRoundF p x x :=
  ⟨h, le_refl _, fun _ _ hz => hz⟩

theorem isRoundC_self {p : ℕ} {x : K} (h : Repb p x) : IsRoundC p x x :=
  ⟨h, le_refl _, fun _ _ hz => hz⟩

theorem isRoundN_self {p : ℕ} {x : K} (h : Repb p x) : IsRoundN p x x := by
  refine ⟨h, fun z _ => ?_⟩
  simp only [sub_self, abs_zero]
  rcases eq_or_ne z x with he | hne
  · right; exact ⟨by rw [he]; simp, Or.inl he⟩
  · left; exact abs_pos.2 (sub_ne_zero.2 (Ne.symm hne))

theorem isRound_self {p : ℕ} (rnd : Rnd) {x : K} (h : Repb p x) : IsRound p rnd x x := by
  cases rnd <;> simp only [IsRound]
  · exact isRoundN_self h
  · exact isRoundF_self h
  · exact isRoundC_self h
  · split <;> [exact isRoundC_self h; exact isRoundF_self h]
  · split <;> [exact isRoundF_self h; exact isRoundC_self h]

/-! ### negation symmetry -/

theorem isRoundF_neg {p : ℕ} {x y : K} : IsRoundF p (-x) (-y) ↔ IsRoundC p x y := by
  constructor
  · rintro ⟨h1, h2, h3⟩
    refine ⟨by simpa using h1.neg, by linarith, fun z hz hxz => ?_⟩
    have := h3 (-z) hz.neg (by linarith); linarith
  · rintro ⟨h1, h2, h3⟩
    refine ⟨h1.neg, by linarith, fun z hz hxz => ?_⟩
    have := h3 (-z) hz.neg (by linarith); linarith

theorem isRoundC_neg {p : ℕ} {x y : K} : IsRoundC p (-x) (-y) ↔ IsRoundF p x y := by
  have := @isRoundF_neg K _ _ _ p (-x) (-y)
  simp only [neg_neg] at this
  exact this.symm

theorem EvenerThan.neg {y z : K} (h : EvenerThan y z) : EvenerThan (-y) (-z) := by
  obtain ⟨a, b, E, ha, hz, hy⟩ := h
  exact ⟨-a, -b, E, by omega, by rw [hz]; push_cast; ring, by rw [hy]; push_cast; ring⟩

theorem isRoundN_neg {p : ℕ} {x y : K} : IsRoundN p (-x) (-y) ↔ IsRoundN p x y := by
  have key : ∀ {x y : K}, IsRoundN p x y → IsRoundN p (-x) (-y) := by
    rintro x y ⟨h1, h2⟩
    refine ⟨h1.neg, fun z hz => ?_⟩
    have e1 : |-x - -y| = |x - y| := by rw [← abs_neg]; congr 1; ring
    have e2 : |-x - z| = |x - -z| := by rw [← abs_neg]; congr 1; ring
    rw [e1, e2]
    rcases h2 (-z) hz.neg with h | ⟨h, h'⟩
    · left; exact h
    · right; refine ⟨h, ?_⟩
      rcases h' with h' | h'
      · left; linarith
      · right; simpa using h'.neg
  constructor
  · intro h; simpa using key h
  · exact key

/-! ### uniqueness of the correctly rounded value -/

theorem isRoundF_unique {p : ℕ} {x y y' : K} (h : IsRoundF p x y) (h' : IsRoundF p x y') : y = y' :=
  le_antisymm (h'.2.2 y h.1 h.2.1) (h.2.2 y' h'.1 h'.2.1)

theorem isRoundC_unique {p : ℕ} {x y y' : K} (h : IsRoundC p x y) (h' : IsRoundC p x y') : y = y' :=
  le_antisymm (h.2.2 y' h'.1 h'.2.1) (h'.2.2 y h.1 h.2.1)

/-- "has the larger 2-adic valuation" is asymmetric -/
theorem EvenerThan.asymm {y z : K} (h : EvenerThan y z) (h' : EvenerThan z y) : False := by
  obtain ⟨a, b, E, ha, hz, hy⟩ := h
  obtain ⟨a', b', E', ha', hy', hz'⟩ := h'
  -- z = a·2^E = 2b'·2^E',  y = 2b·2^E = a'·2^E'
  rcases le_or_gt E E' with hle | hlt
  · obtain ⟨k, rfl⟩ : ∃ k : ℕ, E' = E + k := ⟨(E' - E).toNat, by omega⟩
    have hE : (0 : K) < 2 ^ E := two_zpow_pos E
    have e1 : (a : K) * 2 ^ E = (2 * (b' : K) * 2 ^ k) * 2 ^ E := by
      rw [← hz, hz', zpow_add₀ (by norm_num), zpow_natCast]; ring
    have e2 : (a : K) = 2 * (b' : K) * 2 ^ k := mul_right_cancel₀ hE.ne' e1
    have e3 : a = 2 * b' * 2 ^ k := by exact_mod_cast e2
    have : a % 2 = 0 := by rw [e3, mul_assoc]; exact Int.mul_emod_right 2 _
    omega
  · obtain ⟨k, rfl⟩ : ∃ k : ℕ, E = E' + k := ⟨(E - E').toNat, by omega⟩
    have hE : (0 : K) < 2 ^ E' := two_zpow_pos E'
    have e1 : (a' : K) * 2 ^ E' = (2 * (b : K) * 2 ^ k) * 2 ^ E' := by
      rw [← hy', hy, zpow_add₀ (by norm_num), zpow_natCast]; ring
    have e2 : (a' : K) = 2 * (b : K) * 2 ^ k := mul_right_cancel₀ hE.ne' e1
    have e3 : a' = 2 * b * 2 ^ k := by exact_mod_cast e2
    have : a' % 2 = 0 := by rw [e3, mul_assoc]; exact Int.mul_emod_right 2 _
    omega

theorem isRoundN_unique {p : ℕ} {x y y' : K} (h : IsRoundN p x y) (h' : IsRoundN p x y') : y = y' := by
  rcases h.2 y' h'.1 with h1 | ⟨h1, h1'⟩
  · rcases h'.2 y h.1 with h2 | ⟨h2, _⟩
    · exact absurd h1 (not_lt.2 h2.le)
    · rw [h2] at h1; exact absurd h1 (lt_irrefl _)
  · rcases h'.2 y h.1 with h2 | ⟨_, h2'⟩
    · rw [h1] at h2; exact absurd h2 (lt_irrefl _)
    · rcases h1' with e | ev
      · exact e.symm
      · rcases h2' with e | ev'
        · exact e
        · exact (ev.asymm ev').elim

/-- **the correctly rounded value is unique** — this is what makes bit-exact comparison of an
implementation with the proved model a decision of the property. -/
theorem isRound_unique {p : ℕ} {rnd : Rnd} {x y y' : K} (h : IsRound p rnd x y) (h' : IsRound p rnd x y') :
    y = y' := by
  cases rnd <;> simp only [IsRound] at h h'
  · exact isRoundN_unique h h'
  · exact isRoundF_unique h h'
  · exact isRoundC_unique h h'
  · split at h <;> rename_i hx <;> simp only [hx, if_true, if_false] at h'
    · exact isRoundC_unique h h'
    · exact isRoundF_unique h h'
  · split at h <;> rename_i hx <;> simp only [hx, if_true, if_false] at h'
    · exact isRoundF_unique h h'
    · exact isRoundC_unique h h'

theorem IsRound.repb {p : ℕ} {rnd : Rnd} {x y : K} (h : IsRound p rnd x y) : Repb p y := by
  cases rnd <;> simp only [IsRound] at h
  · exact h.1
  · exact h.1
  · exact h.1
  · split at h <;> exact h.1
  · split at h <;> exact h.1

end Mp
