/-
  MpProofs/EnclSound.lean — the verified reference evaluator: soundness of `evalPoint` for every `FunId`
  and of the accuracy checker `accCheck` (DESIGN.md C12: "translation validation, proved validator").

  All statements are about Mathlib's real functions (`Real.exp`, `Real.log`, `Real.sqrt`, `Real.arctan`,
  `Real.sin`, `Real.cos`, `Real.pi`, …); the evaluator uses only integer arithmetic.
    expI_sound, logI_sound, sqrtI_sound, piI_sound, atanI_sound, sinI_sound, cosI_sound   (imported)
    evalPoint_sound'         every enclosure returned by `evalPoint f wp x` contains `f.sem x`, and one is
                             returned only inside the real domain `f.dom x`
    accCheck_sound_ok        accCheck f x y p k = ok        →  |y - f(x)| ≤ 2^(k-p)·|f(x)|
    accCheck_sound_violates  accCheck f x y p k = violates  →  2^(k-p)·|f(x)| < |y - f(x)|
-/
import MpProofs.EnclDerived

namespace Mp.Encl

/-- the real function denoted by a `FunId` -/
noncomputable def FunId.sem : FunId → ℝ → ℝ
  | .exp, x => Real.exp x
  | .log, x => Real.log x
  | .sqrt, x => Real.sqrt x
  | .atan, x => Real.arctan x
  | .sin, x => Real.sin x
  | .cos, x => Real.cos x
  | .pi, _ => Real.pi
  | .tan, x => Real.tan x
  | .sinh, x => Real.sinh x
  | .cosh, x => Real.cosh x
  | .tanh, x => Real.tanh x
  | .cot, x => Real.cot x
  | .sec, x => 1 / Real.cos x
  | .csc, x => 1 / Real.sin x
  | .expm1, x => Real.exp x - 1
  | .log1p, x => Real.log (1 + x)
  | .asin, x => Real.arcsin x
  | .acos, x => Real.arccos x
  | .asinh, x => Real.arsinh x
  | .acosh, x => Real.arcosh x
  | .atanh, x => Real.artanh x
  | .sinpi, x => Real.sin (Real.pi * x)
  | .cospi, x => Real.cos (Real.pi * x)

/-- the real domain on which `FunId.sem` is the mathematical function (outside it Mathlib's total
functions return junk values and mpmath returns complex numbers or raises) -/
def FunId.dom : FunId → ℝ → Prop
  | .log, x => 0 < x
  | .sqrt, x => 0 ≤ x
  | .log1p, x => -1 < x
  | .asin, x => -1 ≤ x ∧ x ≤ 1
  | .acos, x => -1 ≤ x ∧ x ≤ 1
  | .acosh, x => 1 ≤ x
  | .atanh, x => -1 < x ∧ x < 1
  | _, _ => True

/-- every enclosure returned by `evalPoint` contains the exact value, and an enclosure is only
returned inside the real domain of the function -/
theorem evalPoint_sound' (f : FunId) (wp : ℕ) (x : Dy) (F : DI) (h : evalPoint f wp x = some F) :
    F.Mem (f.sem x.val) ∧ f.dom x.val := by
  have hX := DI.mem_point x
  cases f <;> simp only [evalPoint, FunId.sem, FunId.dom, and_true] at h ⊢
  case exp =>
    simp only [Option.some.injEq] at h; subst h
    exact expI_mem wp hX
  case log => exact logI_mem h hX
  case sqrt =>
    split at h
    · simp at h
    · simp only [Option.some.injEq] at h; subst h
      exact ⟨DI.mem_round (sqrtI_sound _ _ _ hX) wp, by rw [Dy.val_nonneg_iff]; omega⟩
  case atan =>
    simp only [Option.some.injEq] at h; subst h
    exact atanI_mem wp hX
  case sin =>
    simp only [Option.some.injEq] at h; subst h
    exact sinI_sound wp _ _ hX.1 hX.2
  case cos =>
    simp only [Option.some.injEq] at h; subst h
    exact cosI_sound wp _ _ hX.1 hX.2
  case pi =>
    simp only [Option.some.injEq] at h; subst h
    exact piI_mem wp
  case tan => exact tanPoint_sound wp x F h
  case sinh =>
    simp only [Option.some.injEq] at h; subst h
    exact sinhPoint_sound wp x
  case cosh =>
    simp only [Option.some.injEq] at h; subst h
    exact coshPoint_sound wp x
  case tanh => exact tanhPoint_sound wp x F h
  case cot => exact cotPoint_sound wp x F h
  case sec => exact secPoint_sound wp x F h
  case csc => exact cscPoint_sound wp x F h
  case expm1 =>
    simp only [Option.some.injEq] at h; subst h
    exact expm1Point_sound wp x
  case log1p => exact log1pPoint_sound wp x F h
  case asin => exact asinPoint_sound wp x F h
  case acos => exact acosPoint_sound wp x F h
  case asinh => exact asinhPoint_sound wp x F h
  case acosh => exact acoshPoint_sound wp x F h
  case atanh => exact atanhPoint_sound wp x F h
  case sinpi =>
    simp only [Option.some.injEq] at h; subst h
    exact DI.mem_round (cosSinPi_sound wp x).2 wp
  case cospi =>
    simp only [Option.some.injEq] at h; subst h
    exact DI.mem_round (cosSinPi_sound wp x).1 wp

theorem evalPoint_sound (f : FunId) (wp : ℕ) (x : Dy) (F : DI) (h : evalPoint f wp x = some F) :
    F.Mem (f.sem x.val) := (evalPoint_sound' f wp x F h).1

theorem evalPoint_dom (f : FunId) (wp : ℕ) (x : Dy) (F : DI) (h : evalPoint f wp x = some F) :
    f.dom x.val := (evalPoint_sound' f wp x F h).2

theorem decide1_ok (F : DI) (y t : Dy) (v : ℝ) (ht : 0 ≤ t.val) (hv : F.Mem v)
    (h : decide1 F y t = .ok) : |y.val - v| ≤ t.val * |v| := by
  unfold decide1 at h
  simp only at h
  split at h
  · rename_i hc
    rw [Dy.le_iff, Dy.val_mul] at hc
    have hE : (DI.mk (y.sub F.hi) (y.sub F.lo)).Mem (y.val - v) := by
      constructor <;> simp only [Dy.val_sub] <;> linarith [hv.1, hv.2]
    calc |y.val - v| ≤ _ := DI.abs_le_mag hE
      _ ≤ t.val * F.mig.val := hc
      _ ≤ t.val * |v| := mul_le_mul_of_nonneg_left (DI.mig_le_abs hv) ht
  · split at h <;> simp at h

theorem decide1_violates (F : DI) (y t : Dy) (v : ℝ) (ht : 0 ≤ t.val) (hv : F.Mem v)
    (h : decide1 F y t = .violates) : t.val * |v| < |y.val - v| := by
  unfold decide1 at h
  simp only at h
  split at h
  · simp at h
  · split at h
    · rename_i hc
      rw [Dy.lt_iff, Dy.val_mul] at hc
      have hE : (DI.mk (y.sub F.hi) (y.sub F.lo)).Mem (y.val - v) := by
        constructor <;> simp only [Dy.val_sub] <;> linarith [hv.1, hv.2]
      calc t.val * |v| ≤ t.val * F.mag.val := mul_le_mul_of_nonneg_left (DI.abs_le_mag hv) ht
        _ < _ := hc
        _ ≤ |y.val - v| := DI.mig_le_abs hE
    · simp at h

theorem accLoop_sound (f : FunId) (x y t : Dy) (ht : 0 ≤ t.val) (ws : List ℕ) :
    (accLoop f x y t ws = .ok → |y.val - f.sem x.val| ≤ t.val * |f.sem x.val|) ∧
    (accLoop f x y t ws = .violates → t.val * |f.sem x.val| < |y.val - f.sem x.val|) := by
  induction ws with
  | nil => simp [accLoop]
  | cons wp ws ih =>
    unfold accLoop
    cases hF : evalPoint f wp x with
    | none => simp
    | some F =>
      have hv := evalPoint_sound f wp x F hF
      simp only
      cases hd : decide1 F y t with
      | ok => simp only [true_implies, reduceCtorEq, false_implies, and_true]
              exact decide1_ok F y t _ ht hv hd
      | violates => simp only [true_implies, reduceCtorEq, false_implies, true_and]
                    exact decide1_violates F y t _ ht hv hd
      | undecided => exact ih

theorem val_two_zpow (e : ℤ) : (Dy.mk 1 e).val = (2 : ℝ) ^ e := by simp [Dy.val]

/-- **soundness of the accuracy checker, `ok` direction**: the inequality of property C12 holds for
the exact real value `f(x)` -/
theorem accCheck_sound_ok (f : FunId) (x y : Dy) (p k : ℕ) (h : accCheck f x y p k = .ok) :
    |y.val - f.sem x.val| ≤ (2 : ℝ) ^ ((k : ℤ) - (p : ℤ)) * |f.sem x.val| := by
  unfold accCheck at h
  have := (accLoop_sound f x y ⟨1, (k : ℤ) - (p : ℤ)⟩ (by rw [val_two_zpow]; positivity) _).1 h
  rwa [val_two_zpow] at this

/-- **soundness of the accuracy checker, `violates` direction** -/
theorem accCheck_sound_violates (f : FunId) (x y : Dy) (p k : ℕ) (h : accCheck f x y p k = .violates) :
    (2 : ℝ) ^ ((k : ℤ) - (p : ℤ)) * |f.sem x.val| < |y.val - f.sem x.val| := by
  unfold accCheck at h
  have := (accLoop_sound f x y ⟨1, (k : ℤ) - (p : ℤ)⟩ (by rw [val_two_zpow]; positivity) _).2 h
  rwa [val_two_zpow] at this

theorem accLoop_dom (f : FunId) (x y t : Dy) (ws : List ℕ) (h : accLoop f x y t ws ≠ .undecided) :
    f.dom x.val := by
  induction ws with
  | nil => simp [accLoop] at h
  | cons wp ws ih =>
    unfold accLoop at h
    cases hF : evalPoint f wp x with
    | none => rw [hF] at h; simp at h
    | some F => exact evalPoint_dom f wp x F hF

/-- a verdict other than `undecided` is only produced inside the real domain of `f` -/
theorem accCheck_dom (f : FunId) (x y : Dy) (p k : ℕ) (h : accCheck f x y p k ≠ .undecided) :
    f.dom x.val := by
  unfold accCheck at h
  exact accLoop_dom f x y _ _ h

/-- with `ok` at slack `k` the relative error is strictly below `2^(k+1-p)` wherever `f(x) ≠ 0`
(property C12 is phrased with a strict bound `2^(4-p)`: check with `k = 3`) -/
theorem accCheck_ok_strict (f : FunId) (x y : Dy) (p k : ℕ) (h : accCheck f x y p k = .ok)
    (h0 : f.sem x.val ≠ 0) :
    |y.val - f.sem x.val| < (2 : ℝ) ^ (((k + 1 : ℕ) : ℤ) - (p : ℤ)) * |f.sem x.val| := by
  have h1 := accCheck_sound_ok f x y p k h
  have hpos : 0 < |f.sem x.val| := abs_pos.2 h0
  refine lt_of_le_of_lt h1 ?_
  apply mul_lt_mul_of_pos_right _ hpos
  apply zpow_lt_zpow_right₀ (by norm_num)
  push_cast; omega

/-- with `ok` and `f(x) = 0` the value is exact -/
theorem accCheck_ok_zero (f : FunId) (x y : Dy) (p k : ℕ) (h : accCheck f x y p k = .ok)
    (h0 : f.sem x.val = 0) : y.val = 0 := by
  have h1 := accCheck_sound_ok f x y p k h
  rw [h0, abs_zero, mul_zero, sub_zero] at h1
  exact abs_eq_zero.1 (le_antisymm h1 (abs_nonneg _))

end Mp.Encl
