/-
  MpProofs/SpecRefZeta.lean — the C19 references agree with Mathlib: `bern = bernoulli`,
  `bernPolyQ = Polynomial.bernoulli`, zeta values at even positive and non-positive integers.
-/
import MpProofs.SpecRefGamma
import Mathlib.NumberTheory.Bernoulli
import Mathlib.NumberTheory.BernoulliPolynomials
import Mathlib.NumberTheory.LSeries.HurwitzZetaValues
import Mathlib.NumberTheory.ZetaValues
import Mathlib.Analysis.SpecificLimits.Normed
import Mathlib.Analysis.SpecialFunctions.Log.Deriv

namespace Mp.SpecRef
open Mp.Encl
open scoped Nat

theorem list_range_map_sum {M : Type*} [AddCommMonoid M] (f : ℕ → M) (n : ℕ) :
    ((List.range n).map f).sum = ∑ i ∈ Finset.range n, f i := by
  induction n with
  | zero => simp
  | succ n ih =>
    rw [List.range_succ, List.map_append, List.sum_append, ih, Finset.sum_range_succ]
    simp

theorem bernStep_spec (n : ℕ) : bernStep ((List.range n).map bernoulli') = bernoulli' n := by
  unfold bernStep
  simp only [List.length_map, List.length_range]
  rw [List.zipWith_map_right]
  have : List.zipWith (fun (a : ℕ) (b : ℕ) =>
      (chooseM n a : ℚ) / ((n : ℚ) - (a : ℚ) + 1) * bernoulli' b) (List.range n) (List.range n)
      = (List.range n).map (fun k => (chooseM n k : ℚ) / ((n : ℚ) - (k : ℚ) + 1) * bernoulli' k) := by
    rw [List.zipWith_self]
  rw [this, list_range_map_sum, bernoulli'_def]
  congr 1
  apply Finset.sum_congr rfl
  intro k _
  rw [chooseM_eq]

theorem bernTab_eq (n : ℕ) : bernTab n = (List.range n).map bernoulli' := by
  induction n with
  | zero => rfl
  | succ n ih =>
    rw [bernTab]
    rw [ih, bernStep_spec, List.range_succ, List.map_append]
    rfl

theorem bernFrom_spec (n i : ℕ) (hi : i < n) : bernFrom (bernTab n) i = bernoulli i := by
  unfold bernFrom
  split
  · rename_i h1; subst h1; rw [bernoulli_one]
  · rename_i h1
    rw [bernTab_eq, bernoulli_eq_bernoulli'_of_ne_one h1]
    simp [List.getD, hi]

/-- the executable Bernoulli numbers are Mathlib's `bernoulli` -/
theorem bern_eq (n : ℕ) : bern n = bernoulli n := bernFrom_spec (n + 1) n (Nat.lt_succ_self n)

/-- the executable Bernoulli polynomial is Mathlib's `Polynomial.bernoulli` -/
theorem bernPolyQ_eq (n : ℕ) (x : ℚ) : bernPolyQ n x = (Polynomial.bernoulli n).eval x := by
  unfold bernPolyQ
  simp only
  rw [list_range_map_sum, Polynomial.bernoulli, Polynomial.eval_finsetSum]
  apply Finset.sum_congr rfl
  intro i hi
  rw [Finset.mem_range] at hi
  rw [bernFrom_spec (n + 1) i hi, Polynomial.eval_monomial, chooseM_eq]

/-! ### zeta values -/

theorem zetaEven_sem (k : ℕ) :
    (((zetaEvenQ k : ℚ) : ℝ) * Real.pi ^ (2 * k) : ℝ) =
      (-1 : ℝ) ^ (k + 1) * (2 : ℝ) ^ (2 * k - 1) * Real.pi ^ (2 * k) * bernoulli (2 * k) / (2 * k)! := by
  unfold zetaEvenQ
  rw [bern_eq, factN_eq]
  push_cast
  ring

theorem zetaEven_complex (k : ℕ) (hk : k ≠ 0) :
    ((((zetaEvenQ k : ℚ) : ℝ) * Real.pi ^ (2 * k) : ℝ) : ℂ) = riemannZeta (2 * (k : ℂ)) := by
  rw [zetaEven_sem k, riemannZeta_two_mul_nat hk]
  push_cast
  ring

theorem zetaNeg_complex (n : ℕ) :
    ((((-1 : ℚ) ^ n * bern (n + 1) / ((n : ℚ) + 1) : ℚ) : ℝ) : ℂ) = riemannZeta (-(n : ℂ)) := by
  rw [riemannZeta_neg_nat_eq_bernoulli, bern_eq]
  push_cast
  ring

/-- `etaFactor s = 1 − 2^(1−s)` -/
theorem etaFactor_sem (s : ℤ) : ((etaFactor s : ℚ) : ℝ) = 1 - (2 : ℝ) ^ (1 - s) := by
  unfold etaFactor
  split
  · rename_i h
    have : (1 - s) = -(((s - 1).toNat : ℕ) : ℤ) := by omega
    rw [this, zpow_neg, zpow_natCast]
    push_cast
    rw [one_div]
  · rename_i h
    have : (1 - s) = (((1 - s).toNat : ℕ) : ℤ) := by omega
    conv_rhs => rw [this, zpow_natCast]
    push_cast
    rfl

/-- `powSumQ s a = Σ_{j<a} 1/j^s` without the term `j = 0` -/
theorem powSumQ_eq (s : ℕ) (hs : s ≠ 0) (a : ℕ) :
    ((powSumQ s a : ℚ) : ℝ) = ∑ j ∈ Finset.range a, 1 / (j : ℝ) ^ s := by
  induction a with
  | zero => simp [powSumQ]
  | succ a ih =>
    rw [powSumQ, Finset.sum_range_succ, ← ih]
    push_cast
    congr 1
    split
    · rename_i h0; subst h0; simp [hs]
    · simp

/-- Hurwitz zeta at an integer shift: `Σ_{n≥0} 1/(n+a)^(2k) = ζ(2k) − Σ_{j<a} 1/j^(2k)` -/
theorem hurwitz_hasSum (k a : ℕ) (hk : k ≠ 0) :
    HasSum (fun n : ℕ => 1 / ((n : ℝ) + (a : ℝ)) ^ (2 * k))
      ((((zetaEvenQ k : ℚ) : ℝ) * Real.pi ^ (2 * k)) - ((powSumQ (2 * k) a : ℚ) : ℝ)) := by
  have h := hasSum_zeta_nat hk
  rw [← zetaEven_sem k] at h
  have h2 := (hasSum_nat_add_iff' a).2 h
  rw [powSumQ_eq (2 * k) (by omega) a]
  have e : (fun n : ℕ => 1 / ((n : ℝ) + (a : ℝ)) ^ (2 * k)) = fun n : ℕ => 1 / ((n + a : ℕ) : ℝ) ^ (2 * k) := by
    funext n; rw [Nat.cast_add]
  rw [e]
  exact h2

/-! ### polylog of non-positive integer order: `Σ_k k^n z^k` -/

/-- `Σ_i row[i]·C(k, j+i)` -/
def evalRow : List ℕ → ℕ → ℕ → ℕ
  | [], _, _ => 0
  | c :: cs, j, k => c * k.choose j + evalRow cs (j + 1) k

theorem hasSum_of_eq {f g : ℕ → ℝ} {a b : ℝ} (h : HasSum f a) (hf : ∀ k, g k = f k) (hab : b = a) :
    HasSum g b := by
  have : g = f := funext hf
  rw [this, hab]; exact h

theorem mul_choose_split (k j : ℕ) : k * k.choose j = j * k.choose j + (j + 1) * k.choose (j + 1) := by
  rcases Nat.lt_or_ge k j with h | h
  · rw [Nat.choose_eq_zero_of_lt h, Nat.choose_eq_zero_of_lt (by omega : k < j + 1)]; simp
  · have := Nat.choose_succ_right_eq k j
    have e : k = j + (k - j) := by omega
    calc k * k.choose j = (j + (k - j)) * k.choose j := by rw [← e]
      _ = j * k.choose j + k.choose j * (k - j) := by ring
      _ = j * k.choose j + k.choose (j + 1) * (j + 1) := by rw [this]
      _ = _ := by ring

theorem evalRow_nextRow (row : List ℕ) : ∀ (prev j k : ℕ),
    evalRow (nextRow prev j row) j k = j * prev * k.choose j + k * evalRow row j k := by
  induction row with
  | nil => intro prev j k; simp [nextRow, evalRow]
  | cons c cs ih =>
    intro prev j k
    rw [nextRow, evalRow, ih, evalRow]
    have := mul_choose_split k j
    calc j * (prev + c) * k.choose j + ((j + 1) * c * k.choose (j + 1) + k * evalRow cs (j + 1) k)
        = j * prev * k.choose j + (c * (j * k.choose j + (j + 1) * k.choose (j + 1)) + k * evalRow cs (j + 1) k) := by
          ring
      _ = _ := by rw [← this]; ring

theorem evalRow_cRow (n k : ℕ) : evalRow (cRow n) 0 k = k ^ n := by
  induction n with
  | zero => simp [cRow, evalRow]
  | succ n ih => rw [cRow, evalRow_nextRow, ih, pow_succ]; ring

theorem hasSum_choose_geom (j : ℕ) (z : ℝ) (hz : |z| < 1) :
    HasSum (fun k : ℕ => (k.choose j : ℝ) * z ^ k) (z ^ j / (1 - z) ^ (j + 1)) := by
  have h := (hasSum_choose_mul_geometric_of_norm_lt_one j (r := z) (by simpa using hz)).mul_left (z ^ j)
  have h2 : HasSum (fun n : ℕ => (((n + j).choose j : ℕ) : ℝ) * z ^ (n + j)) (z ^ j / (1 - z) ^ (j + 1)) :=
    hasSum_of_eq h (fun n => by rw [pow_add]; ring) (by ring)
  have hz0 : ∑ i ∈ Finset.range j, ((i.choose j : ℕ) : ℝ) * z ^ i = 0 := by
    apply Finset.sum_eq_zero
    intro i hi
    rw [Finset.mem_range] at hi
    rw [Nat.choose_eq_zero_of_lt hi]; simp
  apply (hasSum_nat_add_iff' (f := fun k : ℕ => (k.choose j : ℝ) * z ^ k) j).1
  rw [hz0, sub_zero]
  exact h2

theorem hasSum_evalRow (row : List ℕ) (z : ℚ) (hz : |(z : ℝ)| < 1) : ∀ j : ℕ,
    HasSum (fun k : ℕ => (evalRow row j k : ℝ) * (z : ℝ) ^ k) ((geomRow row j z : ℚ) : ℝ) := by
  induction row with
  | nil =>
    intro j
    exact hasSum_of_eq (hasSum_zero : HasSum (fun _ : ℕ => (0 : ℝ)) 0) (fun k => by simp [evalRow])
      (by simp [geomRow])
  | cons c cs ih =>
    intro j
    have h1 := (hasSum_choose_geom j (z : ℝ) hz).mul_left (c : ℝ)
    have h2 := h1.add (ih (j + 1))
    exact hasSum_of_eq h2 (fun k => by simp only [evalRow]; push_cast; ring)
      (by simp only [geomRow]; push_cast; ring)

/-- `Σ_{k≥0} k^n z^k = powGeomQ n z` for `|z| < 1` (with `0^0 = 1`) -/
theorem hasSum_powGeom (n : ℕ) (z : ℚ) (hz : |(z : ℝ)| < 1) :
    HasSum (fun k : ℕ => (k : ℝ) ^ n * (z : ℝ) ^ k) ((powGeomQ n z : ℚ) : ℝ) := by
  have := hasSum_evalRow (cRow n) z hz 0
  simp only [evalRow_cRow] at this
  exact hasSum_of_eq this (fun k => by push_cast; rfl) rfl

/-- `Σ_{k≥1} k^n z^k` -/
theorem hasSum_polylog_neg (n : ℕ) (z : ℚ) (hz : |(z : ℝ)| < 1) :
    HasSum (fun k : ℕ => ((k + 1 : ℕ) : ℝ) ^ n * (z : ℝ) ^ (k + 1))
      (((if n = 0 then powGeomQ 0 z - 1 else powGeomQ n z : ℚ)) : ℝ) := by
  have h := (hasSum_nat_add_iff' (f := fun k : ℕ => (k : ℝ) ^ n * (z : ℝ) ^ k) 1).2 (hasSum_powGeom n z hz)
  refine hasSum_of_eq h (fun k => rfl) ?_
  split
  · rename_i h0; subst h0; simp
  · rename_i h0; simp [h0]

end Mp.SpecRef
