/-
  MpProofs/Str.lean — helper lemmas for the decimal string conversions (C07, C08):
  the value `decValue` of a decimal literal, the shape of accepted literals, and the evaluation of
  the model parser `strToManExp` on such shapes.
-/
import MpModel.Str
import MpProofs.Spec
import Mathlib.Data.List.Basic
import Mathlib.Data.List.TakeWhile
import Batteries.Data.Char.Basic
import Mathlib.Tactic.Ring
import Mathlib.Tactic.Linarith
import Mathlib.Tactic.NormNum
import Mathlib.Tactic.FieldSimp
import Mathlib.Tactic.Push

namespace Mp

/-! ### generic list lemmas for the Python string helpers -/

theorem rstripL_eq_self_of_forall {p : Char → Bool} {l : List Char}
    (h : ∀ c ∈ l, p c = false) : rstripL p l = l := by
  unfold rstripL
  have : l.reverse.dropWhile p = l.reverse := by
    cases hr : l.reverse with
    | nil => rfl
    | cons a t =>
      have : a ∈ l := by
        have : a ∈ l.reverse := by rw [hr]; exact List.mem_cons_self
        exact List.mem_reverse.mp this
      simp [h a this]
  rw [this, List.reverse_reverse]

theorem rstripL_concat_of_neg {p : Char → Bool} (l : List Char) {c : Char} (h : p c = false) :
    rstripL p (l ++ [c]) = l ++ [c] := by
  unfold rstripL
  simp [h]

theorem dropWhile_eq_self_of_forall {p : Char → Bool} {l : List Char}
    (h : ∀ c ∈ l, p c = false) : l.dropWhile p = l := by
  cases l with
  | nil => rfl
  | cons a t => simp [h a List.mem_cons_self]

theorem stripL_eq_self_of_forall {p : Char → Bool} {l : List Char}
    (h : ∀ c ∈ l, p c = false) : stripL p l = l := by
  unfold stripL
  rw [dropWhile_eq_self_of_forall h, rstripL_eq_self_of_forall h]

/-- `rstrip` removes a suffix all of whose characters satisfy the predicate -/
theorem rstripL_spec (p : Char → Bool) (l : List Char) :
    ∃ suf, l = rstripL p l ++ suf ∧ ∀ c ∈ suf, p c = true := by
  refine ⟨(l.reverse.takeWhile p).reverse, ?_, ?_⟩
  · unfold rstripL
    rw [← List.reverse_append, List.takeWhile_append_dropWhile, List.reverse_reverse]
  · intro c hc
    exact List.mem_takeWhile_imp (List.mem_reverse.mp hc)

theorem splitOnC_of_not_mem {c : Char} {l : List Char} (h : c ∉ l) : splitOnC c l = [l] := by
  induction l with
  | nil => rfl
  | cons x xs ih =>
    have hx : x ≠ c := fun e => h (e ▸ List.mem_cons_self)
    have hxs : c ∉ xs := fun e => h (List.mem_cons_of_mem _ e)
    simp [splitOnC, hx, ih hxs]

theorem splitOnC_append_cons {c : Char} {a : List Char} (b : List Char) (h : c ∉ a) :
    splitOnC c (a ++ c :: b) = a :: splitOnC c b := by
  induction a with
  | nil => simp [splitOnC]
  | cons x xs ih =>
    have hx : x ≠ c := fun e => h (e ▸ List.mem_cons_self)
    have hxs : c ∉ xs := fun e => h (List.mem_cons_of_mem _ e)
    simp [splitOnC, hx, ih hxs]

/-! ### characters -/

theorem isDigitC_iff (c : Char) : isDigitC c = true ↔ 48 ≤ c.toNat ∧ c.toNat ≤ 57 := by
  unfold isDigitC; simp

/-- the characters that occur in a plain decimal literal -/
def LitChar (c : Char) : Prop :=
  isDigitC c = true ∨ c = '+' ∨ c = '-' ∨ c = '.' ∨ c = 'e'

theorem lowerC_digit {c : Char} (h : isDigitC c = true) : lowerC c = c := by
  rw [isDigitC_iff] at h
  unfold lowerC; rw [if_neg]; omega

theorem isDigitC_lowerC_ne_l {c : Char} (h : LitChar c) : (lowerC c == 'l') = false := by
  rcases h with h | rfl | rfl | rfl | rfl
  · rw [lowerC_digit h]; rw [isDigitC_iff] at h
    simp only [beq_eq_false_iff_ne, ne_eq]; rintro rfl; revert h; decide
  all_goals decide

theorem LitChar.not_space {c : Char} (h : LitChar c) : isSpaceNum c = false := by
  rcases h with h | rfl | rfl | rfl | rfl
  · rw [isDigitC_iff] at h; unfold isSpaceNum; simp; omega
  all_goals decide

theorem LitChar.not_spaceStrip {c : Char} (h : LitChar c) : isSpaceStrip c = false := by
  rcases h with h | rfl | rfl | rfl | rfl
  · rw [isDigitC_iff] at h; unfold isSpaceStrip isSpaceNum; simp; omega
  all_goals decide

theorem LitChar.ascii {c : Char} (h : LitChar c) : c.toNat < 128 := by
  rcases h with h | rfl | rfl | rfl | rfl
  · rw [isDigitC_iff] at h; omega
  all_goals decide

theorem LitChar.ne_underscore {c : Char} (h : LitChar c) : c ≠ '_' := by
  rcases h with h | rfl | rfl | rfl | rfl
  · rintro rfl; revert h; decide
  all_goals decide

theorem LitChar.ne_slash {c : Char} (h : LitChar c) : c ≠ '/' := by
  rcases h with h | rfl | rfl | rfl | rfl
  · rintro rfl; revert h; decide
  all_goals decide

theorem LitChar.lower {c : Char} (h : LitChar c) : lowerC c = c := by
  rcases h with h | rfl | rfl | rfl | rfl
  · exact lowerC_digit h
  all_goals decide


/-! ### digit strings -/

def Digits (l : List Char) : Prop := ∀ c ∈ l, isDigitC c = true

def SignStr (sg : List Char) : Prop := sg = [] ∨ sg = ['+'] ∨ sg = ['-']

def signVal (sg : List Char) : Int := if sg = ['-'] then -1 else 1

theorem foldl_digits (acc : Nat) (l : List Char) :
    l.foldl (fun a c => 10 * a + digitVal c) acc = acc * 10 ^ l.length + natOfDigits l := by
  unfold natOfDigits
  induction l generalizing acc with
  | nil => simp
  | cons x xs ih =>
    simp only [List.foldl_cons, List.length_cons]
    rw [ih (10 * acc + digitVal x), ih (10 * 0 + digitVal x)]
    ring

theorem natOfDigits_append (a b : List Char) :
    natOfDigits (a ++ b) = natOfDigits a * 10 ^ b.length + natOfDigits b := by
  unfold natOfDigits
  rw [List.foldl_append, foldl_digits]
  rfl

theorem natOfDigits_zeros {z : List Char} (h : ∀ c ∈ z, (c == '0') = true) : natOfDigits z = 0 := by
  induction z with
  | nil => rfl
  | cons x xs ih =>
    have hx : x = '0' := by simpa using h x List.mem_cons_self
    have := ih (fun c hc => h c (List.mem_cons_of_mem _ hc))
    change natOfDigits ([x] ++ xs) = 0
    rw [natOfDigits_append, this, hx]
    simp [natOfDigits, digitVal]

theorem Digits.litChar {l : List Char} (h : Digits l) : ∀ c ∈ l, LitChar c :=
  fun c hc => Or.inl (h c hc)

theorem SignStr.litChar {sg : List Char} (h : SignStr sg) : ∀ c ∈ sg, LitChar c := by
  rcases h with rfl | rfl | rfl <;> intro c hc <;> simp at hc <;> subst hc
  · exact Or.inr (Or.inl rfl)
  · exact Or.inr (Or.inr (Or.inl rfl))

theorem underscoresOK_of_none {prev : Char} {l : List Char} (hp : prev ≠ '_')
    (h : ∀ c ∈ l, c ≠ '_') : underscoresOK prev l = true := by
  induction l generalizing prev with
  | nil => simp [underscoresOK, hp]
  | cons x xs ih =>
    have hx : x ≠ '_' := h x List.mem_cons_self
    simp [underscoresOK, hx, hp, ih hx (fun c hc => h c (List.mem_cons_of_mem _ hc))]

theorem isAscii_of_litChar {l : List Char} (h : ∀ c ∈ l, LitChar c) : isAscii l = true := by
  unfold isAscii
  simp only [List.all_eq_true, decide_eq_true_eq]
  exact fun c hc => (h c hc).ascii

theorem filter_underscore_of_litChar {l : List Char} (h : ∀ c ∈ l, LitChar c) :
    l.filter (· != '_') = l := by
  rw [List.filter_eq_self]
  intro c hc
  simpa using (h c hc).ne_underscore

/-- `int()` on an optional sign followed by a non-empty digit string (no digit-count limit) -/
theorem pyInt_sign_digits {sg ds : List Char} (hs : SignStr sg) (hd : Digits ds) (hne : ds ≠ []) :
    pyInt (sg ++ ds) 0 = .ok (signVal sg * (natOfDigits ds : Int)) := by
  have hall : ∀ c ∈ sg ++ ds, LitChar c := by
    intro c hc
    rcases List.mem_append.mp hc with h | h
    · exact hs.litChar c h
    · exact hd.litChar c h
  have hfil : ds.filter (· != '_') = ds := filter_underscore_of_litChar hd.litChar
  have hus : underscoresOK '\x00' ds = true :=
    underscoresOK_of_none (by decide) (fun c hc => (hd.litChar c hc).ne_underscore)
  have hdall : ds.all isDigitC = true := by rw [List.all_eq_true]; exact hd
  have hemp : ds.isEmpty = false := by cases ds <;> simp_all
  unfold pyInt
  rw [isAscii_of_litChar hall, stripL_eq_self_of_forall (fun c hc => (hall c hc).not_space)]
  rcases hs with rfl | rfl | rfl
  · obtain ⟨c, r, rfl⟩ := List.exists_cons_of_ne_nil hne
    have hc : isDigitC c = true := hd c List.mem_cons_self
    have h1 : c ≠ '-' := by rintro rfl; revert hc; decide
    have h2 : c ≠ '+' := by rintro rfl; revert hc; decide
    have ht : takeSign (c :: r) = (false, c :: r) := by
      unfold takeSign
      split
      · rename_i heq; exact absurd (List.cons.inj heq).1 h1
      · rename_i heq; exact absurd (List.cons.inj heq).1 h2
      · rfl
    simp only [List.nil_append, ht]
    simp [hfil, hus, hdall, signVal]
  · simp [takeSign, hfil, hus, hdall, hemp, signVal]
  · simp [takeSign, hfil, hus, hdall, hemp, signVal]

/-! ### the shape of a plain decimal literal and the parser on it -/

/-- `t` is empty or starts with a character that is not a digit -/
def NoDigitHead (t : List Char) : Prop := ∀ c r, t = c :: r → isDigitC c = false

theorem takeWhile_digits_append {a t : List Char} (ha : Digits a) (ht : NoDigitHead t) :
    (a ++ t).takeWhile isDigitC = a ∧ (a ++ t).dropWhile isDigitC = t := by
  have h1 : t.takeWhile isDigitC = [] := by
    cases t with
    | nil => rfl
    | cons c r => simp [ht c r rfl]
  have h2 : t.dropWhile isDigitC = t := by
    cases t with
    | nil => rfl
    | cons c r => simp [ht c r rfl]
  constructor
  · rw [List.takeWhile_append_of_pos ha, h1, List.append_nil]
  · rw [List.dropWhile_append_of_pos ha, h2]

theorem dropSign_append {sg rest : List Char} (hs : SignStr sg)
    (hr : ∀ c r, rest = c :: r → c ≠ '+' ∧ c ≠ '-') : dropSign (sg ++ rest) = rest := by
  rcases hs with rfl | rfl | rfl
  · cases rest with
    | nil => rfl
    | cons c r =>
      obtain ⟨h1, h2⟩ := hr c r rfl
      simp only [List.nil_append]
      unfold dropSign
      split
      · rename_i heq; exact absurd (List.cons.inj heq).1 h1
      · rename_i heq; exact absurd (List.cons.inj heq).1 h2
      · rfl
  · rfl
  · rfl

/-- the fraction part of a literal: `.fp` or nothing -/
def dotStr (dot : Bool) (fp : List Char) : List Char := if dot then '.' :: fp else []

/-- the exponent part of a (lower-case) literal: `e`, sign, digits, or nothing -/
def expStr (eo : Option (List Char × List Char)) : List Char :=
  match eo with
  | none => []
  | some (es, ed) => 'e' :: (es ++ ed)

/-- the literal `sg ip [. fp] [e es ed]` -/
def litL (sg ip : List Char) (dot : Bool) (fp : List Char) (eo : Option (List Char × List Char)) :
    List Char :=
  sg ++ (ip ++ (dotStr dot fp ++ expStr eo))

/-- well-formedness of the parts of a literal -/
structure LitOK (sg ip : List Char) (dot : Bool) (fp : List Char)
    (eo : Option (List Char × List Char)) : Prop where
  sign : SignStr sg
  ipd : Digits ip
  fpd : Digits fp
  nodot : dot = false → fp = []
  nonempty : ip ≠ [] ∨ fp ≠ []
  exp : ∀ es ed, eo = some (es, ed) → SignStr es ∧ Digits ed ∧ ed ≠ []

def expVal (eo : Option (List Char × List Char)) : Int :=
  match eo with
  | none => 0
  | some (es, ed) => signVal es * (natOfDigits ed : Int)

theorem expStr_noDigitHead (eo : Option (List Char × List Char)) : NoDigitHead (expStr eo) := by
  intro c r h
  cases eo with
  | none => simp [expStr] at h
  | some p => obtain ⟨es, ed⟩ := p; simp only [expStr, List.cons.injEq] at h; rw [← h.1]; decide

theorem dotExp_noDigitHead (dot : Bool) (fp : List Char) (eo : Option (List Char × List Char)) :
    NoDigitHead (dotStr dot fp ++ expStr eo) := by
  cases dot with
  | false => simpa [dotStr] using expStr_noDigitHead eo
  | true =>
    intro c r h
    simp only [dotStr, if_true, List.cons_append, List.cons.injEq] at h
    rw [← h.1]; decide

theorem fracPart_dotExp {dot : Bool} {fp : List Char} (eo : Option (List Char × List Char))
    (hfp : Digits fp) (hnd : dot = false → fp = []) :
    fracPart (dotStr dot fp ++ expStr eo) = (fp, expStr eo) := by
  cases dot with
  | true =>
    simp only [dotStr, if_true, List.cons_append, fracPart]
    obtain ⟨h1, h2⟩ := takeWhile_digits_append hfp (expStr_noDigitHead eo)
    rw [h1, h2]
  | false =>
    rw [hnd rfl]
    simp only [dotStr, Bool.false_eq_true, if_false, List.nil_append]
    cases eo with
    | none => rfl
    | some p => rfl

theorem all_digits_of {l : List Char} (h : Digits l) : l.all isDigitC = true := by
  rw [List.all_eq_true]; exact h

theorem expPartOK_expStr {eo : Option (List Char × List Char)}
    (h : ∀ es ed, eo = some (es, ed) → SignStr es ∧ Digits ed ∧ ed ≠ []) :
    expPartOK (expStr eo) = true := by
  cases eo with
  | none => rfl
  | some p =>
    obtain ⟨es, ed⟩ := p
    obtain ⟨hs, hd, hne⟩ := h es ed rfl
    obtain ⟨c, r, rfl⟩ := List.exists_cons_of_ne_nil hne
    have hc : isDigitC c = true := hd c List.mem_cons_self
    have hds : dropSign (es ++ c :: r) = c :: r := by
      apply dropSign_append hs
      intro c' r' h'
      rw [← (List.cons.inj h').1]
      constructor <;> (rintro rfl; revert hc; decide)
    simp only [expStr, expPartOK, hds]
    simp [all_digits_of hd]

theorem litL_litChar {sg ip : List Char} {dot : Bool} {fp : List Char}
    {eo : Option (List Char × List Char)} (h : LitOK sg ip dot fp eo) :
    ∀ c ∈ litL sg ip dot fp eo, LitChar c := by
  intro c hc
  simp only [litL, List.mem_append] at hc
  rcases hc with hc | hc | hc | hc
  · exact h.sign.litChar c hc
  · exact h.ipd.litChar c hc
  · cases dot with
    | false => simp [dotStr] at hc
    | true =>
      simp only [dotStr, if_true, List.mem_cons] at hc
      rcases hc with rfl | hc
      · exact Or.inr (Or.inr (Or.inr (Or.inl rfl)))
      · exact h.fpd.litChar c hc
  · cases eo with
    | none => simp [expStr] at hc
    | some p =>
      obtain ⟨es, ed⟩ := p
      obtain ⟨hs, hd, _⟩ := h.exp es ed rfl
      simp only [expStr, List.mem_cons, List.mem_append] at hc
      rcases hc with rfl | hc | hc
      · exact Or.inr (Or.inr (Or.inr (Or.inr rfl)))
      · exact hs.litChar c hc
      · exact hd.litChar c hc

/-- the first character after the sign of a literal is a digit or the point -/
theorem litL_body_head {ip : List Char} {dot : Bool} {fp : List Char}
    {eo : Option (List Char × List Char)} (hip : Digits ip) (hnd : dot = false → fp = [])
    (hne : ip ≠ [] ∨ fp ≠ []) :
    ∃ c r, ip ++ (dotStr dot fp ++ expStr eo) = c :: r ∧ (isDigitC c = true ∨ c = '.') := by
  cases ip with
  | cons c r => exact ⟨c, _, rfl, Or.inl (hip c List.mem_cons_self)⟩
  | nil =>
    cases dot with
    | true => exact ⟨'.', _, rfl, Or.inr rfl⟩
    | false => rcases hne with h | h; exact absurd rfl h; exact absurd (hnd rfl) h

theorem plainFloatOK_litL {sg ip : List Char} {dot : Bool} {fp : List Char}
    {eo : Option (List Char × List Char)} (h : LitOK sg ip dot fp eo) :
    plainFloatOK (litL sg ip dot fp eo) = true := by
  obtain ⟨c, r, hcr, hc⟩ := litL_body_head (eo := eo) h.ipd h.nodot h.nonempty
  have hds : dropSign (litL sg ip dot fp eo) = ip ++ (dotStr dot fp ++ expStr eo) := by
    apply dropSign_append h.sign
    intro c' r' h'
    rw [hcr] at h'
    rw [← (List.cons.inj h').1]
    rcases hc with hc | rfl
    · constructor <;> (rintro rfl; revert hc; decide)
    · decide
  obtain ⟨h1, h2⟩ := takeWhile_digits_append h.ipd (dotExp_noDigitHead dot fp eo)
  unfold plainFloatOK
  simp only [hds, h1, h2, fracPart_dotExp eo h.fpd h.nodot, expPartOK_expStr h.exp]
  have hsp : (ip ++ (dotStr dot fp ++ expStr eo) = "inf".toList ||
      ip ++ (dotStr dot fp ++ expStr eo) = "infinity".toList ||
      ip ++ (dotStr dot fp ++ expStr eo) = "nan".toList) = false := by
    rw [hcr]
    rcases hc with hc | rfl
    · have : c ≠ 'i' ∧ c ≠ 'n' := by constructor <;> (rintro rfl; revert hc; decide)
      simp [this.1, this.2]
    · simp
  rw [hsp]
  have : (ip.isEmpty && fp.isEmpty) = false := by
    rcases h.nonempty with h | h
    · cases ip <;> simp_all
    · cases fp <;> simp_all
  simp [this]

theorem floatOK_litL {sg ip : List Char} {dot : Bool} {fp : List Char}
    {eo : Option (List Char × List Char)} (h : LitOK sg ip dot fp eo) :
    floatOK (litL sg ip dot fp eo) = true := by
  have hall := litL_litChar h
  unfold floatOK
  rw [isAscii_of_litChar hall, stripL_eq_self_of_forall (fun c hc => (hall c hc).not_space)]
  simp only [filter_underscore_of_litChar hall, plainFloatOK_litL h,
    underscoresOK_of_none (show ('\x00' : Char) ≠ '_' by decide) (fun c hc => (hall c hc).ne_underscore),
    Bool.and_self]

theorem Digits.not_mem {l : List Char} (h : Digits l) {c : Char} (hc : isDigitC c = false) : c ∉ l :=
  fun hm => by rw [h c hm] at hc; exact Bool.noConfusion hc

theorem SignStr.not_mem {sg : List Char} (h : SignStr sg) {c : Char} (h1 : c ≠ '+') (h2 : c ≠ '-') :
    c ∉ sg := by
  rcases h with rfl | rfl | rfl <;> simp [h1, h2]

theorem Digits.append {a b : List Char} (ha : Digits a) (hb : Digits b) : Digits (a ++ b) := by
  intro c hc
  rcases List.mem_append.mp hc with h | h
  · exact ha c h
  · exact hb c h

theorem Digits.rstrip {l : List Char} (h : Digits l) (p : Char → Bool) : Digits (rstripL p l) := by
  obtain ⟨suf, hs, _⟩ := rstripL_spec p l
  intro c hc
  apply h c
  rw [hs]
  exact List.mem_append_left _ hc

theorem map_lowerC_of_litChar {l : List Char} (h : ∀ c ∈ l, LitChar c) : l.map lowerC = l := by
  induction l with
  | nil => rfl
  | cons x xs ih =>
    rw [List.map_cons, (h x List.mem_cons_self).lower, ih (fun c hc => h c (List.mem_cons_of_mem _ hc))]

/-- `padEmpty` on an optional sign followed by digits: a `0` is supplied exactly when no digit is there -/
theorem padEmpty_sign_digits {sg ds : List Char} (hs : SignStr sg) (hd : Digits ds) :
    ∃ ds', Digits ds' ∧ ds' ≠ [] ∧ padEmpty (sg ++ ds) = sg ++ ds' ∧ natOfDigits ds' = natOfDigits ds := by
  cases ds with
  | nil =>
    refine ⟨['0'], by intro c hc; simp at hc; rw [hc]; decide, by simp, ?_, by decide⟩
    rcases hs with rfl | rfl | rfl <;> simp [padEmpty]
  | cons c r =>
    have hc : isDigitC c = true := hd c List.mem_cons_self
    have h1 : c ≠ '+' := by rintro rfl; revert hc; decide
    have h2 : c ≠ '-' := by rintro rfl; revert hc; decide
    refine ⟨c :: r, hd, by simp, ?_, rfl⟩
    rcases hs with rfl | rfl | rfl <;> simp [padEmpty, h1, h2]

/-- the mantissa branch of the parser on `sg ip [. fp]` -/
theorem manExpOfMantissa_mant {sg ip : List Char} {dot : Bool} {fp : List Char} (e : Int)
    (hs : SignStr sg) (hip : Digits ip) (hfp : Digits fp) (hnd : dot = false → fp = [])
    (hne : ip ≠ [] ∨ fp ≠ []) :
    manExpOfMantissa (sg ++ (ip ++ dotStr dot fp)) e 0 =
      .ok (signVal sg * (natOfDigits (ip ++ rstripL (· == '0') fp) : Int),
           e - ((rstripL (· == '0') fp).length : Int)) := by
  have hdotnd : isDigitC '.' = false := by decide
  cases dot with
  | true =>
    have hsplit : splitOnC '.' (sg ++ (ip ++ dotStr true fp)) = [sg ++ ip, fp] := by
      have : sg ++ (ip ++ dotStr true fp) = (sg ++ ip) ++ '.' :: fp := by simp [dotStr]
      rw [this, splitOnC_append_cons]
      · rw [splitOnC_of_not_mem (hfp.not_mem hdotnd)]
      · intro hmem
        rcases List.mem_append.mp hmem with h | h
        · exact hs.not_mem (by decide) (by decide) h
        · exact hip.not_mem hdotnd h
    obtain ⟨ds', hd', hne', hpad, hval⟩ := padEmpty_sign_digits hs (hip.append (hfp.rstrip (· == '0')))
    unfold manExpOfMantissa
    rw [hsplit]
    simp only [List.append_assoc]
    rw [hpad, pyInt_sign_digits hs hd' hne', hval]
  | false =>
    have hfp0 : fp = [] := hnd rfl
    subst hfp0
    have hm : ip ≠ [] := by rcases hne with h | h; exact h; exact absurd rfl h
    have hr : rstripL (· == '0') ([] : List Char) = [] := rfl
    rw [hr]
    have hsplit : splitOnC '.' (sg ++ (ip ++ dotStr false [])) = [sg ++ (ip ++ dotStr false [])] := by
      apply splitOnC_of_not_mem
      simp only [dotStr, Bool.false_eq_true, if_false, List.append_nil]
      intro hmem
      rcases List.mem_append.mp hmem with h | h
      · exact hs.not_mem (by decide) (by decide) h
      · exact hip.not_mem hdotnd h
    unfold manExpOfMantissa
    rw [hsplit]
    simp only [dotStr, Bool.false_eq_true, if_false, List.append_nil]
    rw [pyInt_sign_digits hs hip hm]
    simp

/-- The split-and-convert part of the parser on a well-formed lower-case literal (no digit-count limit). -/
theorem strToManExpCore_litL {sg ip : List Char} {dot : Bool} {fp : List Char}
    {eo : Option (List Char × List Char)} (h : LitOK sg ip dot fp eo) :
    strToManExpCore (litL sg ip dot fp eo) 0 =
      .ok (signVal sg * (natOfDigits (ip ++ rstripL (· == '0') fp) : Int),
           expVal eo - ((rstripL (· == '0') fp).length : Int)) := by
  have hedig : isDigitC 'e' = false := by decide
  unfold strToManExpCore
  cases eo with
  | none =>
    have hl : litL sg ip dot fp none = sg ++ (ip ++ dotStr dot fp) := by simp [litL, expStr]
    have hsplit : splitOnC 'e' (litL sg ip dot fp none) = [litL sg ip dot fp none] := by
      apply splitOnC_of_not_mem
      rw [hl]
      intro hmem
      rcases List.mem_append.mp hmem with hx | hx
      · exact h.sign.not_mem (by decide) (by decide) hx
      · rcases List.mem_append.mp hx with hx | hx
        · exact h.ipd.not_mem hedig hx
        · cases dot with
          | false => simp [dotStr] at hx
          | true =>
            simp only [dotStr, if_true, List.mem_cons] at hx
            rcases hx with hx | hx
            · revert hx; decide
            · exact h.fpd.not_mem hedig hx
    rw [hsplit]
    simp only [hl, expVal]
    exact manExpOfMantissa_mant 0 h.sign h.ipd h.fpd h.nodot h.nonempty
  | some p =>
    obtain ⟨es, ed⟩ := p
    obtain ⟨hes, hed, hne⟩ := h.exp es ed rfl
    have hl : litL sg ip dot fp (some (es, ed)) = (sg ++ (ip ++ dotStr dot fp)) ++ 'e' :: (es ++ ed) := by
      simp [litL, expStr]
    have hsplit : splitOnC 'e' (litL sg ip dot fp (some (es, ed))) =
        [sg ++ (ip ++ dotStr dot fp), es ++ ed] := by
      rw [hl, splitOnC_append_cons]
      · rw [splitOnC_of_not_mem]
        intro hmem
        rcases List.mem_append.mp hmem with hx | hx
        · exact hes.not_mem (by decide) (by decide) hx
        · exact hed.not_mem hedig hx
      · intro hmem
        rcases List.mem_append.mp hmem with hx | hx
        · exact h.sign.not_mem (by decide) (by decide) hx
        · rcases List.mem_append.mp hx with hx | hx
          · exact h.ipd.not_mem hedig hx
          · cases dot with
            | false => simp [dotStr] at hx
            | true =>
              simp only [dotStr, if_true, List.mem_cons] at hx
              rcases hx with hx | hx
              · revert hx; decide
              · exact h.fpd.not_mem hedig hx
    rw [hsplit]
    simp only [pyInt_sign_digits hes hed hne, expVal]
    exact manExpOfMantissa_mant _ h.sign h.ipd h.fpd h.nodot h.nonempty

/-! ### digit group separators -/

theorem toNat_lowerC_upper {c : Char} (h : 65 ≤ c.toNat ∧ c.toNat ≤ 90) :
    (lowerC c).toNat = c.toNat + 32 := by
  unfold lowerC
  rw [if_pos h, Char.toNat_ofNat, if_pos]; left; omega

theorem lowerC_eq_underscore (c : Char) : lowerC c = '_' ↔ c = '_' := by
  by_cases h : 65 ≤ c.toNat ∧ c.toNat ≤ 90
  · have h1 := toNat_lowerC_upper h
    constructor
    · intro he; rw [he] at h1; have : ('_' : Char).toNat = 95 := by decide
      omega
    · rintro rfl; exact absurd h (by decide)
  · unfold lowerC; rw [if_neg h]

theorem isDigitC_lowerC (c : Char) : isDigitC (lowerC c) = isDigitC c := by
  by_cases h : 65 ≤ c.toNat ∧ c.toNat ≤ 90
  · have h1 := toNat_lowerC_upper h
    have a : isDigitC (lowerC c) = false := by
      rw [Bool.eq_false_iff, ne_eq, isDigitC_iff]; omega
    have b : isDigitC c = false := by
      rw [Bool.eq_false_iff, ne_eq, isDigitC_iff]; omega
    rw [a, b]
  · unfold lowerC; rw [if_neg h]

theorem bne_lowerC_underscore (c : Char) : (lowerC c != '_') = (c != '_') := by
  by_cases h : c = '_'
  · subst h; decide
  · have : lowerC c ≠ '_' := fun e => h ((lowerC_eq_underscore c).mp e)
    rw [bne_iff_ne.mpr this, bne_iff_ne.mpr h]

theorem underscoresOK_map_lower (prev : Char) (l : List Char) :
    underscoresOK (lowerC prev) (l.map lowerC) = underscoresOK prev l := by
  induction l generalizing prev with
  | nil => exact bne_lowerC_underscore prev
  | cons x xs ih =>
    simp only [List.map_cons, underscoresOK, ih, isDigitC_lowerC, bne_lowerC_underscore,
      lowerC_eq_underscore]

theorem filter_map_lower (l : List Char) :
    (l.map lowerC).filter (· != '_') = (l.filter (· != '_')).map lowerC := by
  rw [List.filter_map]
  congr 1
  apply List.filter_congr
  intro c _
  simp only [Function.comp, bne_lowerC_underscore]

/-- The whole parser on a string that is, after removal of the separators and lower-casing, a
well-formed literal, and whose separators are placed as `float()` demands. -/
theorem strToManExp_of_shape {l : List Char} (hus : underscoresOK '\x00' l = true)
    {sg ip : List Char} {dot : Bool} {fp : List Char} {eo : Option (List Char × List Char)}
    (h : LitOK sg ip dot fp eo) (hmap : (l.filter (· != '_')).map lowerC = litL sg ip dot fp eo) :
    strToManExp l 0 =
      .ok (signVal sg * (natOfDigits (ip ++ rstripL (· == '0') fp) : Int),
           expVal eo - ((rstripL (· == '0') fp).length : Int)) := by
  have hall := litL_litChar h
  have hfil : (l.map lowerC).filter (· != '_') = litL sg ip dot fp eo := by rw [filter_map_lower, hmap]
  have hchars : ∀ c ∈ l.map lowerC, c = '_' ∨ LitChar c := by
    intro c hc
    by_cases hu : c = '_'
    · exact Or.inl hu
    · right
      apply hall
      rw [← hfil]
      exact List.mem_filter.mpr ⟨hc, by simpa using hu⟩
  have hnl : ∀ c ∈ l.map lowerC, (c == 'l') = false := by
    intro c hc
    rcases hchars c hc with rfl | hl
    · decide
    · have := isDigitC_lowerC_ne_l hl; rwa [hl.lower] at this
  have hnsp : ∀ c ∈ l.map lowerC, isSpaceNum c = false := by
    intro c hc
    rcases hchars c hc with rfl | hl
    · decide
    · exact hl.not_space
  have hascii : isAscii (l.map lowerC) = true := by
    unfold isAscii
    simp only [List.all_eq_true, decide_eq_true_eq]
    intro c hc
    rcases hchars c hc with rfl | hl
    · decide
    · exact hl.ascii
  have hus' : underscoresOK '\x00' (l.map lowerC) = true := by
    have := underscoresOK_map_lower '\x00' l
    rw [show lowerC '\x00' = '\x00' by decide] at this
    rw [this, hus]
  have hfloat : floatOK (l.map lowerC) = true := by
    unfold floatOK
    rw [hascii, stripL_eq_self_of_forall hnsp]
    simp only [hus', hfil, plainFloatOK_litL h, Bool.and_self]
  have hnsp' : ∀ c ∈ l.map lowerC, isSpaceStrip c = false := by
    intro c hc
    rcases hchars c hc with rfl | hl
    · decide
    · exact hl.not_spaceStrip
  unfold strToManExp
  simp only [rstripL_eq_self_of_forall hnl, stripL_eq_self_of_forall hnsp', hfloat, Bool.not_true, Bool.false_eq_true,
    if_false, hfil]
  exact strToManExpCore_litL h


/-! ### the value of a decimal literal -/

/-- sign factor of an optional leading sign character -/
def signZ (l : List Char) : ℤ :=
  match l with
  | '-' :: _ => -1
  | _ => 1

/-- The rational value of a decimal literal `[+-] digits [. digits] [(e|E) [+-] digits]` (at least one
mantissa digit), read digit by digit (`natOfDigits` is the left fold `a ↦ 10·a + digit`);
`none` for any other string. -/
def decValueL (l : List Char) : Option ℚ :=
  let body := dropSign l
  let ip := body.takeWhile isDigitC
  let fr := fracPart (body.dropWhile isDigitC)
  if ip = [] ∧ fr.1 = [] then none else
  let mant : ℚ := (natOfDigits ip : ℚ) + (natOfDigits fr.1 : ℚ) / 10 ^ fr.1.length
  match fr.2 with
  | [] => some (signZ l * mant)
  | c :: r =>
    if (c = 'e' ∨ c = 'E') ∧ dropSign r ≠ [] ∧ (dropSign r).all isDigitC = true then
      some (signZ l * mant * (10 : ℚ) ^ (signZ r * (natOfDigits (dropSign r) : ℤ)))
    else none

/-- The value of a decimal literal in the grammar of Python's `float()`: digit group separators `_`
(each one between two digits) are dropped, then the plain literal is read by `decValueL`. -/
def decValueU (l : List Char) : Option ℚ :=
  if underscoresOK '\x00' l = true then decValueL (l.filter (· != '_')) else none

def decValue (s : String) : Option ℚ := decValueU s.toList

/-- an optional sign in front of `l`, split off -/
theorem sign_split (l : List Char) :
    ∃ sg, SignStr sg ∧ l = sg ++ dropSign l ∧ signZ l = signVal sg := by
  by_cases h1 : ∃ r, l = '+' :: r
  · obtain ⟨r, rfl⟩ := h1
    exact ⟨['+'], Or.inr (Or.inl rfl), rfl, by simp [signZ, signVal]⟩
  by_cases h2 : ∃ r, l = '-' :: r
  · obtain ⟨r, rfl⟩ := h2
    exact ⟨['-'], Or.inr (Or.inr rfl), rfl, by simp [signZ, signVal]⟩
  have hd : dropSign l = l := by
    unfold dropSign
    split
    · exact absurd ⟨_, rfl⟩ h1
    · exact absurd ⟨_, rfl⟩ h2
    · rfl
  have hz : signZ l = 1 := by
    unfold signZ
    split
    · exact absurd ⟨_, rfl⟩ h2
    · rfl
  exact ⟨[], Or.inl rfl, by rw [hd]; rfl, by rw [hz]; simp [signVal]⟩

theorem digits_takeWhile (l : List Char) : Digits (l.takeWhile isDigitC) :=
  fun _ hc => List.mem_takeWhile_imp hc

/-- every string with a `decValue` is, up to the case of the exponent marker, a well-formed literal -/
theorem decValueL_shape {l : List Char} {v : ℚ} (h : decValueL l = some v) :
    ∃ sg ip dot fp eo, LitOK sg ip dot fp eo ∧ l.map lowerC = litL sg ip dot fp eo ∧
      dropSign l = ip ++ (dropSign l).dropWhile isDigitC ∧
      v = (signVal sg : ℚ) * ((natOfDigits ip : ℚ) + (natOfDigits fp : ℚ) / 10 ^ fp.length) *
            (10 : ℚ) ^ expVal eo := by
  obtain ⟨sg, hsg, hl, hsv⟩ := sign_split l
  unfold decValueL at h
  dsimp only at h
  set body := dropSign l with hbody
  set ip := body.takeWhile isDigitC with hip
  have hbd : body = ip ++ body.dropWhile isDigitC := (List.takeWhile_append_dropWhile).symm
  have hipd : Digits ip := digits_takeWhile body
  -- the fraction part
  obtain ⟨dot, fp, rest, hfr, hrest, hfpd, hnd⟩ :
      ∃ dot fp rest, fracPart (body.dropWhile isDigitC) = (fp, rest) ∧
        body.dropWhile isDigitC = dotStr dot fp ++ rest ∧ Digits fp ∧ (dot = false → fp = []) := by
    unfold fracPart
    split
    · rename_i r' heq
      refine ⟨true, r'.takeWhile isDigitC, r'.dropWhile isDigitC, rfl, ?_, digits_takeWhile r', by simp⟩
      rw [heq]; simp [dotStr, List.takeWhile_append_dropWhile]
    · exact ⟨false, [], _, rfl, by simp [dotStr], by intro c hc; simp at hc, fun _ => rfl⟩
  rw [hfr] at h
  dsimp only at h
  by_cases hne : ip = [] ∧ fp = []
  · rw [if_pos hne] at h; cases h
  rw [if_neg hne] at h
  have hne' : ip ≠ [] ∨ fp ≠ [] := by
    by_cases hi : ip = []
    · right; intro hf; exact hne ⟨hi, hf⟩
    · left; exact hi
  have hmapd : ∀ {d : List Char}, Digits d → d.map lowerC = d :=
    fun hd => map_lowerC_of_litChar hd.litChar
  have hmaps : sg.map lowerC = sg := map_lowerC_of_litChar hsg.litChar
  have hmapdot : (dotStr dot fp).map lowerC = dotStr dot fp := by
    cases dot with
    | false => simp [dotStr]
    | true => simp only [dotStr, if_true, List.map_cons, hmapd hfpd]; rfl
  cases rest with
  | nil =>
    -- no exponent
    dsimp only at h
    refine ⟨sg, ip, dot, fp, none, ⟨hsg, hipd, hfpd, hnd, hne', by intro _ _ h; cases h⟩, ?_, hbd, ?_⟩
    · rw [hl]
      conv_lhs => rw [hbd, hrest]
      simp only [List.map_append, hmaps, hmapd hipd, hmapdot, litL, expStr, List.map_nil]
    · have := Option.some.inj h
      rw [← this, hsv]
      simp [expVal]
  | cons c r =>
    dsimp only at h
    by_cases hc : (c = 'e' ∨ c = 'E') ∧ dropSign r ≠ [] ∧ (dropSign r).all isDigitC = true
    · rw [if_pos hc] at h
      obtain ⟨hce, hedne, hedall⟩ := hc
      obtain ⟨es, hes, hrl, hesv⟩ := sign_split r
      have hedd : Digits (dropSign r) := by
        intro x hx; exact (List.all_eq_true.mp hedall) x hx
      have hmapes : es.map lowerC = es := map_lowerC_of_litChar hes.litChar
      have hclow : lowerC c = 'e' := by rcases hce with rfl | rfl <;> decide
      refine ⟨sg, ip, dot, fp, some (es, dropSign r),
        ⟨hsg, hipd, hfpd, hnd, hne', ?_⟩, ?_, hbd, ?_⟩
      · intro es' ed' he
        cases he
        exact ⟨hes, hedd, hedne⟩
      · rw [hl]
        conv_lhs => rw [hbd, hrest, hrl]
        simp only [List.map_append, List.map_cons, hmaps, hmapd hipd, hmapdot, hmapes, hmapd hedd,
          hclow, litL, expStr]
      · have := Option.some.inj h
        rw [← this, hsv, hesv]
        simp [expVal]
    · rw [if_neg hc] at h; cases h

theorem natOfDigits_rstrip_zeros (fp : List Char) :
    ∃ k : ℕ, natOfDigits fp = natOfDigits (rstripL (· == '0') fp) * 10 ^ k ∧
      fp.length = (rstripL (· == '0') fp).length + k := by
  obtain ⟨suf, hs, hz⟩ := rstripL_spec (· == '0') fp
  refine ⟨suf.length, ?_, ?_⟩
  · conv_lhs => rw [hs]
    rw [natOfDigits_append, natOfDigits_zeros hz]; simp
  · conv_lhs => rw [hs]
    simp

theorem strToManExp_lower (x : List Char) (lim : Nat) :
    strToManExp (x.map lowerC) lim = strToManExp x lim := by
  have hid : ∀ c, lowerC (lowerC c) = lowerC c := by
    intro c
    unfold lowerC
    by_cases h : 65 ≤ c.toNat ∧ c.toNat ≤ 90
    · rw [if_pos h]
      have h1 : c.toNat + 32 < 0xd800 := by omega
      have : (Char.ofNat (c.toNat + 32)).toNat = c.toNat + 32 := by
        rw [Char.toNat_ofNat, if_pos]; left; omega
      rw [if_neg]; omega
    · rw [if_neg h, if_neg h]
  unfold strToManExp
  have : (x.map lowerC).map lowerC = x.map lowerC := by
    rw [List.map_map]; apply List.map_congr_left; intro c _; exact hid c
  rw [this]

/-- **The parser computes the value of the literal.** For every string with a `decValue` (including
separators, `.0`-style mantissas, either case of the exponent marker) the model of `str_to_man_exp`
(without digit-count limit) returns `(man, exp)` with `man · 10^exp` equal to that value. -/
theorem strToManExp_value {l : List Char} {v : ℚ} (h : decValueU l = some v) :
    ∃ man exp, strToManExp l 0 = .ok (man, exp) ∧ (man : ℚ) * (10 : ℚ) ^ exp = v := by
  unfold decValueU at h
  by_cases hus : underscoresOK '\x00' l = true
  · rw [if_pos hus] at h
    obtain ⟨sg, ip, dot, fp, eo, hok, hmap, -, hv⟩ := decValueL_shape h
    obtain ⟨k, hk1, hk2⟩ := natOfDigits_rstrip_zeros fp
    set fp' := rstripL (· == '0') fp with hfp'
    refine ⟨signVal sg * (natOfDigits (ip ++ fp') : Int), expVal eo - (fp'.length : Int),
      strToManExp_of_shape hus hok hmap, ?_⟩
    rw [hv, hk1, hk2]
    have h10 : (10 : ℚ) ≠ 0 := by norm_num
    rw [zpow_sub₀ h10, zpow_natCast, natOfDigits_append]
    push_cast
    rw [pow_add]
    field_simp
  · rw [if_neg hus] at h; cases h

/-- the characters of a string with a value: separators and literal characters (after lower-casing) -/
theorem decValueU_chars {l : List Char} {v : ℚ} (h : decValueU l = some v) :
    ∀ c ∈ l.map lowerC, c = '_' ∨ LitChar c := by
  unfold decValueU at h
  by_cases hus : underscoresOK '\x00' l = true
  · rw [if_pos hus] at h
    obtain ⟨sg, ip, dot, fp, eo, hok, hmap, -, -⟩ := decValueL_shape h
    have hall := litL_litChar hok
    intro c hc
    by_cases hu : c = '_'
    · exact Or.inl hu
    · right
      apply hall
      rw [← hmap, ← filter_map_lower]
      exact List.mem_filter.mpr ⟨hc, by simpa using hu⟩
  · rw [if_neg hus] at h; cases h

/-- a plain literal (no separators) has the same value under both readings -/
theorem decValueU_of_decValueL {l : List Char} {v : ℚ} (h : decValueL l = some v) : decValueU l = some v := by
  obtain ⟨sg, ip, dot, fp, eo, hok, hmap, -, -⟩ := decValueL_shape h
  have hall := litL_litChar hok
  have hno : ∀ c ∈ l, c ≠ '_' := by
    intro c hc hu
    have : lowerC c ∈ l.map lowerC := List.mem_map_of_mem hc
    rw [hmap, hu, (lowerC_eq_underscore '_').mpr rfl] at this
    exact (hall _ this).ne_underscore rfl
  unfold decValueU
  rw [if_pos (underscoresOK_of_none (by decide) hno)]
  have : l.filter (· != '_') = l := by
    rw [List.filter_eq_self]; intro c hc; simpa using hno c hc
  rw [this, h]

end Mp
