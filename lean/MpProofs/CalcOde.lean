/-
  MpProofs/CalcOde.lean — the mathematics behind the reference values of `MpModel/CalcOde.lean`.
    Ode.sol, Ode.rhs            the real solution functions / right-hand sides of the test problems
    Ode.solRef_sem              `solRef` denotes `sol`
    Ode.sol_init, Ode.sol_hasDerivAt        `sol` solves the initial value problem
    Ode.sol_unique_lin / _osc / _riccati    … and is the only solution on `[x0, T]` (Grönwall)
    listPolyFn, polyCoeffDist_bound, polyCoeffDist_eq_sum
    fourierRef_sem
    interpolant_value_independent   value-level order independence of the `odefun` store model (knot continuity)
-/
import MpModel.CalcOde
import MpProofs.CalcFam
import MpProofs.CalcLogicB
import Mathlib.Analysis.ODE.ExistUnique
import Mathlib.Analysis.Calculus.Deriv.Prod
import Mathlib.Analysis.Calculus.Deriv.Inv
import Mathlib.Analysis.Normed.Operator.NNNorm

namespace Mp.Calc
open Set

/-! ## the test problems of C34 -/

/-- component `i` of the solution of the initial value problem (`0` for `i ≥ dim`) -/
noncomputable def Ode.sol : Ode → ℕ → ℝ → ℝ
  | .lin a x0 y0, 0, x => (y0 : ℝ) * Real.exp ((a : ℝ) * (x - (x0 : ℝ)))
  | .osc w x0 c0 s0, 0, x =>
      (c0 : ℝ) * Real.cos ((w : ℝ) * (x - (x0 : ℝ))) + ((s0 : ℝ) / (w : ℝ)) * Real.sin ((w : ℝ) * (x - (x0 : ℝ)))
  | .osc w x0 c0 s0, 1, x =>
      -((c0 : ℝ) * (w : ℝ)) * Real.sin ((w : ℝ) * (x - (x0 : ℝ))) + (s0 : ℝ) * Real.cos ((w : ℝ) * (x - (x0 : ℝ)))
  | .riccati x0 y0, 0, x => (y0 : ℝ) / (1 + (y0 : ℝ) * (x - (x0 : ℝ)))
  | _, _, _ => 0

/-- component `i` of the right-hand side `F(y)` of the system `y' = F(y)`, as a function of the state
vector `y` (`0` for `i ≥ dim`) -/
noncomputable def Ode.rhs : Ode → ℕ → (ℕ → ℝ) → ℝ
  | .lin a _ _, 0, y => (a : ℝ) * y 0
  | .osc _ _ _ _, 0, y => y 1
  | .osc w _ _ _, 1, y => -((w : ℝ) ^ 2) * y 0
  | .riccati _ _, 0, y => -(y 0) ^ 2
  | _, _, _ => 0

/-- where the closed form is a solution: everywhere for the linear problems, right of the pole
`x0 − 1/y0` for `riccati` (this contains `[x0, ∞)`) -/
def Ode.inDomain : Ode → ℝ → Prop
  | .riccati x0 y0, x => (x0 : ℝ) - 1 / (y0 : ℝ) < x
  | _, _ => True

theorem Ode.inDomain_of_ge (o : Ode) (hok : o.ok = true) (x : ℝ) (hx : (o.x0 : ℝ) ≤ x) : o.inDomain x := by
  cases o with
  | lin => trivial
  | osc => trivial
  | riccati x0 y0 =>
    simp only [Ode.ok, decide_eq_true_eq] at hok
    have hy : (0 : ℝ) < y0 := by exact_mod_cast hok
    show (x0 : ℝ) - 1 / (y0 : ℝ) < x
    have : 0 < 1 / (y0 : ℝ) := by positivity
    simp only [Ode.x0] at hx
    linarith

/-- `solRef` denotes the solution -/
theorem Ode.solRef_sem (o : Ode) (i : ℕ) (x : ℚ) (r : Ref) (h : o.solRef i x = some r) :
    r.sem = o.sol i (x : ℝ) := by
  unfold Ode.solRef at h
  split at h
  · rename_i hc
    simp only [Bool.and_eq_true, decide_eq_true_eq] at hc
    obtain ⟨⟨_, hi⟩, _⟩ := hc
    simp only [Option.some.injEq] at h
    subst h
    cases o with
    | lin a x0 y0 =>
      have : i = 0 := by simp only [Ode.dim] at hi; omega
      subst this
      simp only [Ode.solRefRaw, Ode.sol, Ref.sem]
      push_cast; rfl
    | osc w x0 c0 s0 =>
      have : i = 0 ∨ i = 1 := by simp only [Ode.dim] at hi; omega
      rcases this with rfl | rfl
      · simp only [Ode.solRefRaw, Ode.sol, Ref.sem]
        push_cast; rfl
      · simp only [Ode.solRefRaw, Ode.sol, Ref.sem]
        push_cast; rfl
    | riccati x0 y0 =>
      have : i = 0 := by simp only [Ode.dim] at hi; omega
      subst this
      simp only [Ode.solRefRaw, Ode.sol, Ref.sem]
      push_cast; rfl
  · simp at h

/-- the solution takes the initial value at `x0` -/
theorem Ode.sol_init (o : Ode) (i : ℕ) (hi : i < o.dim) : o.sol i (o.x0 : ℝ) = (o.init i : ℝ) := by
  cases o with
  | lin a x0 y0 =>
    have : i = 0 := by simp only [Ode.dim] at hi; omega
    subst this
    simp [Ode.sol, Ode.x0, Ode.init]
  | osc w x0 c0 s0 =>
    have : i = 0 ∨ i = 1 := by simp only [Ode.dim] at hi; omega
    rcases this with rfl | rfl <;> simp [Ode.sol, Ode.x0, Ode.init]
  | riccati x0 y0 =>
    have : i = 0 := by simp only [Ode.dim] at hi; omega
    subst this
    simp [Ode.sol, Ode.x0, Ode.init]

/-- each component of `sol` satisfies its differential equation: `(sol i)'(x) = F_i(sol(x))` -/
theorem Ode.sol_hasDerivAt (o : Ode) (hok : o.ok = true) (i : ℕ) (hi : i < o.dim) (x : ℝ)
    (hx : o.inDomain x) : HasDerivAt (o.sol i) (o.rhs i fun j => o.sol j x) x := by
  cases o with
  | lin a x0 y0 =>
    have : i = 0 := by simp only [Ode.dim] at hi; omega
    subst this
    have h := ((((hasDerivAt_id' x).sub_const (x0 : ℝ)).const_mul (a : ℝ)).exp).const_mul (y0 : ℝ)
    show HasDerivAt (fun t : ℝ => (y0 : ℝ) * Real.exp ((a : ℝ) * (t - (x0 : ℝ))))
      ((a : ℝ) * ((y0 : ℝ) * Real.exp ((a : ℝ) * (x - (x0 : ℝ))))) x
    refine h.congr_deriv ?_
    ring
  | osc w x0 c0 s0 =>
    simp only [Ode.ok, bne_iff_ne, ne_eq] at hok
    have hw : (w : ℝ) ≠ 0 := by exact_mod_cast hok
    have hin := ((hasDerivAt_id' x).sub_const (x0 : ℝ)).const_mul (w : ℝ)
    have : i = 0 ∨ i = 1 := by simp only [Ode.dim] at hi; omega
    rcases this with rfl | rfl
    · have h := (hin.cos.const_mul (c0 : ℝ)).add (hin.sin.const_mul ((s0 : ℝ) / (w : ℝ)))
      show HasDerivAt (fun t : ℝ => (c0 : ℝ) * Real.cos ((w : ℝ) * (t - (x0 : ℝ))) +
          ((s0 : ℝ) / (w : ℝ)) * Real.sin ((w : ℝ) * (t - (x0 : ℝ))))
        (-((c0 : ℝ) * (w : ℝ)) * Real.sin ((w : ℝ) * (x - (x0 : ℝ))) +
          (s0 : ℝ) * Real.cos ((w : ℝ) * (x - (x0 : ℝ)))) x
      refine h.congr_deriv ?_
      field_simp
    · have h := (hin.sin.const_mul (-((c0 : ℝ) * (w : ℝ)))).add (hin.cos.const_mul (s0 : ℝ))
      show HasDerivAt (fun t : ℝ => -((c0 : ℝ) * (w : ℝ)) * Real.sin ((w : ℝ) * (t - (x0 : ℝ))) +
          (s0 : ℝ) * Real.cos ((w : ℝ) * (t - (x0 : ℝ))))
        (-((w : ℝ) ^ 2) * ((c0 : ℝ) * Real.cos ((w : ℝ) * (x - (x0 : ℝ))) +
          ((s0 : ℝ) / (w : ℝ)) * Real.sin ((w : ℝ) * (x - (x0 : ℝ))))) x
      refine h.congr_deriv ?_
      field_simp
      ring
  | riccati x0 y0 =>
    have : i = 0 := by simp only [Ode.dim] at hi; omega
    subst this
    simp only [Ode.ok, decide_eq_true_eq] at hok
    have hy : (0 : ℝ) < y0 := by exact_mod_cast hok
    have hx' : (x0 : ℝ) - 1 / (y0 : ℝ) < x := hx
    have hden : 0 < 1 + (y0 : ℝ) * (x - (x0 : ℝ)) := by
      have : (y0 : ℝ) * ((x0 : ℝ) - 1 / (y0 : ℝ)) < (y0 : ℝ) * x := mul_lt_mul_of_pos_left hx' hy
      have h2 : (y0 : ℝ) * ((x0 : ℝ) - 1 / (y0 : ℝ)) = (y0 : ℝ) * x0 - 1 := by field_simp
      nlinarith
    have hin := (((hasDerivAt_id' x).sub_const (x0 : ℝ)).const_mul (y0 : ℝ)).const_add 1
    have h := (hin.inv (ne_of_gt hden)).const_mul (y0 : ℝ)
    show HasDerivAt (fun t : ℝ => (y0 : ℝ) / (1 + (y0 : ℝ) * (t - (x0 : ℝ))))
      (-((y0 : ℝ) / (1 + (y0 : ℝ) * (x - (x0 : ℝ)))) ^ 2) x
    have hfun : (fun t : ℝ => (y0 : ℝ) / (1 + (y0 : ℝ) * (t - (x0 : ℝ)))) =
        fun t : ℝ => (y0 : ℝ) * (1 + (y0 : ℝ) * (t - (x0 : ℝ)))⁻¹ := by
      funext t; rw [div_eq_mul_inv]
    rw [hfun]
    refine h.congr_deriv ?_
    field_simp

/-! ### uniqueness (Grönwall) -/

/-- `sol` is continuous on `[x0, T]` and has the right derivative required by Mathlib's uniqueness theorems -/
theorem Ode.sol_continuousOn (o : Ode) (hok : o.ok = true) (i : ℕ) (hi : i < o.dim) (T : ℝ) :
    ContinuousOn (o.sol i) (Icc (o.x0 : ℝ) T) := fun t ht =>
  (o.sol_hasDerivAt hok i hi t (o.inDomain_of_ge hok t ht.1)).continuousAt.continuousWithinAt

/-- **uniqueness, `lin`.**  Any function that is continuous on `[x0, T]`, has right derivative `a·f(t)` at
every `t ∈ [x0, T)` and starts at `y0` equals `y0·exp(a(t − x0))` on `[x0, T]`. -/
theorem Ode.sol_unique_lin (a x0 y0 : ℚ) (T : ℝ) (f : ℝ → ℝ)
    (hc : ContinuousOn f (Icc (x0 : ℝ) T))
    (hd : ∀ t ∈ Ico (x0 : ℝ) T, HasDerivWithinAt f ((a : ℝ) * f t) (Ici t) t)
    (h0 : f (x0 : ℝ) = (y0 : ℝ)) :
    ∀ t ∈ Icc (x0 : ℝ) T, f t = (Ode.lin a x0 y0).sol 0 t := by
  have hL : ∀ _ : ℝ, LipschitzWith ⟨|(a : ℝ)|, abs_nonneg _⟩ (fun y : ℝ => (a : ℝ) * y) := fun _ =>
    LipschitzWith.of_dist_le_mul fun y z => by
      rw [Real.dist_eq, Real.dist_eq, ← mul_sub, abs_mul]; rfl
  have hs := Ode.sol_continuousOn (.lin a x0 y0) rfl 0 Nat.zero_lt_one T
  refine ODE_solution_unique (v := fun _ y => (a : ℝ) * y) hL hc hd hs (fun t ht => ?_) ?_
  · exact (Ode.sol_hasDerivAt (.lin a x0 y0) rfl 0 Nat.zero_lt_one t trivial).hasDerivWithinAt
  · rw [h0]; exact (Ode.sol_init (.lin a x0 y0) 0 Nat.zero_lt_one).symm

/-- the right-hand side of `osc` as a continuous linear map of `ℝ × ℝ` -/
noncomputable def oscMap (w : ℝ) : ℝ × ℝ →L[ℝ] ℝ × ℝ :=
  (ContinuousLinearMap.snd ℝ ℝ ℝ).prod ((-(w ^ 2)) • ContinuousLinearMap.fst ℝ ℝ ℝ)

theorem oscMap_apply (w : ℝ) (y : ℝ × ℝ) : oscMap w y = (y.2, -(w ^ 2) * y.1) := by
  simp [oscMap]

/-- **uniqueness, `osc`.**  Any pair `(f, g)` continuous on `[x0, T]` with right derivatives `f' = g`,
`g' = −w²·f` on `[x0, T)` and `(f, g)(x0) = (c0, s0)` equals the closed form on `[x0, T]`. -/
theorem Ode.sol_unique_osc (w x0 c0 s0 : ℚ) (hw : w ≠ 0) (T : ℝ) (f g : ℝ → ℝ)
    (hcf : ContinuousOn f (Icc (x0 : ℝ) T)) (hcg : ContinuousOn g (Icc (x0 : ℝ) T))
    (hdf : ∀ t ∈ Ico (x0 : ℝ) T, HasDerivWithinAt f (g t) (Ici t) t)
    (hdg : ∀ t ∈ Ico (x0 : ℝ) T, HasDerivWithinAt g (-((w : ℝ) ^ 2) * f t) (Ici t) t)
    (hf0 : f (x0 : ℝ) = (c0 : ℝ)) (hg0 : g (x0 : ℝ) = (s0 : ℝ)) :
    ∀ t ∈ Icc (x0 : ℝ) T, f t = (Ode.osc w x0 c0 s0).sol 0 t ∧ g t = (Ode.osc w x0 c0 s0).sol 1 t := by
  have hok : (Ode.osc w x0 c0 s0).ok = true := by simp [Ode.ok, hw]
  set o := Ode.osc w x0 c0 s0 with ho
  have key : EqOn (fun t => (f t, g t)) (fun t => (o.sol 0 t, o.sol 1 t)) (Icc (x0 : ℝ) T) := by
    refine ODE_solution_unique (v := fun _ y => oscMap (w : ℝ) y) (fun _ => (oscMap (w : ℝ)).lipschitz)
      (hcf.prodMk hcg) (fun t ht => ?_)
      ((Ode.sol_continuousOn o hok 0 Nat.zero_lt_two T).prodMk (Ode.sol_continuousOn o hok 1 Nat.one_lt_two T))
      (fun t ht => ?_) ?_
    · rw [oscMap_apply]
      exact (hdf t ht).prodMk (hdg t ht)
    · rw [oscMap_apply]
      exact ((Ode.sol_hasDerivAt o hok 0 Nat.zero_lt_two t trivial).prodMk
        (Ode.sol_hasDerivAt o hok 1 Nat.one_lt_two t trivial)).hasDerivWithinAt
    · have h1 := Ode.sol_init o 0 Nat.zero_lt_two
      have h2 := Ode.sol_init o 1 Nat.one_lt_two
      simp only [ho, Ode.x0, Ode.init] at h1 h2
      simp only [hf0, hg0, ho, h1, h2]
  intro t ht
  have := key ht
  simp only [Prod.mk.injEq] at this
  exact this

/-- **uniqueness, `riccati`.**  Any function continuous on `[x0, T]` with right derivative `−f(t)²` on
`[x0, T)` and `f(x0) = y0 > 0` equals `y0/(1 + y0(t − x0))` on `[x0, T]` (no positivity assumption on `f`:
`y ↦ −y²` is Lipschitz on the bounded set in which both solutions stay). -/
theorem Ode.sol_unique_riccati (x0 y0 : ℚ) (hy : 0 < y0) (T : ℝ) (f : ℝ → ℝ)
    (hc : ContinuousOn f (Icc (x0 : ℝ) T))
    (hd : ∀ t ∈ Ico (x0 : ℝ) T, HasDerivWithinAt f (-(f t) ^ 2) (Ici t) t)
    (h0 : f (x0 : ℝ) = (y0 : ℝ)) :
    ∀ t ∈ Icc (x0 : ℝ) T, f t = (Ode.riccati x0 y0).sol 0 t := by
  have hok : (Ode.riccati x0 y0).ok = true := by simp [Ode.ok, hy]
  set o := Ode.riccati x0 y0 with ho
  have hs := Ode.sol_continuousOn o hok 0 Nat.zero_lt_one T
  have hx0 : (o.x0 : ℝ) = (x0 : ℝ) := rfl
  rw [hx0] at hs
  obtain ⟨C₁, hC₁⟩ := isCompact_Icc.exists_bound_of_continuousOn hc
  obtain ⟨C₂, hC₂⟩ := isCompact_Icc.exists_bound_of_continuousOn hs
  set R : ℝ := max (max C₁ C₂) 0 with hR
  have hR0 : 0 ≤ R := le_max_right _ _
  have hL : ∀ t ∈ Ico (x0 : ℝ) T,
      LipschitzOnWith ⟨2 * R, by positivity⟩ (fun y : ℝ => -y ^ 2) (Metric.closedBall (0 : ℝ) R) := by
    intro _ _
    refine LipschitzOnWith.of_dist_le_mul fun y hy z hz => ?_
    rw [Metric.mem_closedBall, Real.dist_eq, sub_zero] at hy hz
    rw [Real.dist_eq, Real.dist_eq]
    have : -y ^ 2 - -z ^ 2 = -(y + z) * (y - z) := by ring
    rw [this, abs_mul, abs_neg]
    refine mul_le_mul_of_nonneg_right ?_ (abs_nonneg _)
    calc |y + z| ≤ |y| + |z| := abs_add_le _ _
      _ ≤ 2 * R := by linarith
  refine ODE_solution_unique_of_mem_Icc_right (v := fun _ y => -y ^ 2)
    (s := fun _ => Metric.closedBall (0 : ℝ) R) hL hc hd (fun t ht => ?_) hs (fun t ht => ?_)
    (fun t ht => ?_) ?_
  · rw [Metric.mem_closedBall, Real.dist_eq, sub_zero]
    have := hC₁ t (Ico_subset_Icc_self ht)
    rw [Real.norm_eq_abs] at this
    exact le_trans this (le_trans (le_max_left _ _) (le_max_left _ _))
  · exact (Ode.sol_hasDerivAt o hok 0 Nat.zero_lt_one t
      (Ode.inDomain_of_ge o hok t ht.1)).hasDerivWithinAt
  · rw [Metric.mem_closedBall, Real.dist_eq, sub_zero]
    have := hC₂ t (Ico_subset_Icc_self ht)
    rw [Real.norm_eq_abs] at this
    exact le_trans this (le_trans (le_max_right _ _) (le_max_left _ _))
  · rw [h0]; exact (Ode.sol_init o 0 Nat.zero_lt_one).symm

/-! ## C36: polynomial distance and the Fourier sum -/

/-- value `Σ_j l[j]·x^j` of a coefficient list in increasing degree -/
noncomputable def listPolyFn (l : List ℚ) (x : ℝ) : ℝ :=
  ∑ j ∈ Finset.range l.length, (l.getD j 0 : ℝ) * x ^ j

theorem listPolyFn_nil (x : ℝ) : listPolyFn [] x = 0 := by simp [listPolyFn]

theorem listPolyFn_cons (c : ℚ) (cs : List ℚ) (x : ℝ) :
    listPolyFn (c :: cs) x = (c : ℝ) + x * listPolyFn cs x := by
  simp only [listPolyFn, List.length_cons, Finset.sum_range_succ', List.getD_cons_succ,
    List.getD_cons_zero, pow_zero, mul_one, Finset.mul_sum]
  rw [add_comm]
  congr 1
  apply Finset.sum_congr rfl
  intro j _
  ring

theorem ratAbs_cast (q : ℚ) : ((ratAbs q : ℚ) : ℝ) = |(q : ℝ)| := by
  unfold ratAbs
  split
  · rename_i h
    have : (q : ℝ) < 0 := by exact_mod_cast h
    rw [abs_of_neg this]; push_cast; rfl
  · rename_i h
    have : (0 : ℝ) ≤ q := by exact_mod_cast not_lt.mp h
    rw [abs_of_nonneg this]

theorem absHorner_bound (c : List ℚ) (M : ℚ) (hM : 0 ≤ M) (x : ℝ) (hx : |x| ≤ (M : ℝ)) :
    |listPolyFn c x| ≤ ((absHorner c M : ℚ) : ℝ) := by
  have hM' : (0 : ℝ) ≤ M := by exact_mod_cast hM
  induction c with
  | nil => simp [listPolyFn_nil, absHorner]
  | cons c cs ih =>
    rw [listPolyFn_cons, absHorner]
    push_cast
    rw [ratAbs_cast]
    have h1 : |(c : ℝ) + x * listPolyFn cs x| ≤ |(c : ℝ)| + |x| * |listPolyFn cs x| := by
      rw [← abs_mul]; exact abs_add_le _ _
    have h2 := mul_le_mul hx ih (abs_nonneg _) hM'
    linarith

/-- the exact rational `polyCoeffDist d c M` bounds the distance of the two polynomials on `[−M, M]` -/
theorem polyCoeffDist_bound (d c : List ℚ) (M : ℚ) (hM : 0 ≤ M) (x : ℝ) (hx : |x| ≤ (M : ℝ)) :
    |listPolyFn d x - listPolyFn c x| ≤ ((polyCoeffDist d c M : ℚ) : ℝ) := by
  have hM' : (0 : ℝ) ≤ M := by exact_mod_cast hM
  induction d generalizing c with
  | nil =>
    rw [listPolyFn_nil, zero_sub, abs_neg, polyCoeffDist]
    exact absHorner_bound c M hM x hx
  | cons d ds ih =>
    cases c with
    | nil =>
      rw [listPolyFn_cons, polyCoeffDist]
      push_cast
      rw [ratAbs_cast]
      have ih' := ih []
      rw [listPolyFn_nil] at ih' ⊢
      have h1 : |(d : ℝ) + x * listPolyFn ds x - 0| ≤ |(d : ℝ)| + |x| * |listPolyFn ds x - 0| := by
        rw [sub_zero, sub_zero, ← abs_mul]; exact abs_add_le _ _
      have h2 := mul_le_mul hx ih' (abs_nonneg _) hM'
      linarith
    | cons c cs =>
      rw [listPolyFn_cons, listPolyFn_cons, polyCoeffDist]
      push_cast
      rw [ratAbs_cast]
      have h1 : |(d : ℝ) + x * listPolyFn ds x - ((c : ℝ) + x * listPolyFn cs x)| ≤
          |((d - c : ℚ) : ℝ)| + |x| * |listPolyFn ds x - listPolyFn cs x| := by
        rw [← abs_mul]
        have : (d : ℝ) + x * listPolyFn ds x - ((c : ℝ) + x * listPolyFn cs x) =
            ((d - c : ℚ) : ℝ) + x * (listPolyFn ds x - listPolyFn cs x) := by push_cast; ring
        rw [this]; exact abs_add_le _ _
      have h2 := mul_le_mul hx (ih cs) (abs_nonneg _) hM'
      linarith

theorem absHorner_eq_sum (c : List ℚ) (M : ℚ) :
    ((absHorner c M : ℚ) : ℝ) = ∑ j ∈ Finset.range c.length, |(c.getD j 0 : ℝ)| * (M : ℝ) ^ j := by
  induction c with
  | nil => simp [absHorner]
  | cons c cs ih =>
    rw [absHorner]
    push_cast
    rw [ratAbs_cast, ih]
    simp only [List.length_cons, Finset.sum_range_succ', List.getD_cons_succ, List.getD_cons_zero,
      pow_zero, mul_one, Finset.mul_sum]
    rw [add_comm]
    congr 1
    apply Finset.sum_congr rfl
    intro j _
    ring

/-- the Horner form of the model is the sum `Σ_j |d[j] − c[j]|·M^j` -/
theorem polyCoeffDist_eq_sum (d c : List ℚ) (M : ℚ) :
    ((polyCoeffDist d c M : ℚ) : ℝ) = ∑ j ∈ Finset.range (max d.length c.length),
      |(d.getD j 0 : ℝ) - (c.getD j 0 : ℝ)| * (M : ℝ) ^ j := by
  induction d generalizing c with
  | nil =>
    rw [polyCoeffDist, absHorner_eq_sum]
    simp
  | cons d ds ih =>
    cases c with
    | nil =>
      rw [polyCoeffDist]
      push_cast
      rw [ratAbs_cast, ih]
      simp only [List.length_cons, List.length_nil, Nat.max_zero, Finset.sum_range_succ',
        List.getD_cons_succ, List.getD_cons_zero, List.getD_nil, pow_zero, mul_one, Finset.mul_sum]
      rw [add_comm]
      congr 1
      · apply Finset.sum_congr rfl
        intro j _
        ring
      · simp
    | cons c cs =>
      rw [polyCoeffDist]
      push_cast
      rw [ratAbs_cast, ih]
      simp only [List.length_cons, Nat.add_max_add_right, Finset.sum_range_succ',
        List.getD_cons_succ, List.getD_cons_zero, pow_zero, mul_one, Finset.mul_sum]
      rw [add_comm]
      congr 1
      · apply Finset.sum_congr rfl
        intro j _
        ring
      · push_cast; rfl

/-- semantics of one trigonometric sum -/
theorem trigSumRef_sem (trig : Ref → Ref) (T : ℝ → ℝ) (hT : ∀ r, (trig r).sem = T r.sem) (m : Ref) (x : ℚ)
    (l : List ℚ) : ∀ n : ℕ, (trigSumRef trig m x l n).sem =
      ∑ k ∈ Finset.range l.length, (l.getD k 0 : ℝ) * T (m.sem * ((n + k : ℕ) : ℝ) * (x : ℝ)) := by
  induction l with
  | nil => intro n; simp [trigSumRef, Ref.sem]
  | cons c cs ih =>
    intro n
    simp only [trigSumRef, Ref.sem, hT, ih, List.length_cons, Finset.sum_range_succ',
      List.getD_cons_succ, List.getD_cons_zero, Nat.add_zero]
    rw [add_comm]
    congr 1
    apply Finset.sum_congr rfl
    intro k _
    have : n + 1 + k = n + (k + 1) := by omega
    rw [this]

/-- `fourierRef` denotes the trigonometric sum in the definition of `fourierval` -/
theorem fourierRef_sem (cs ss : List ℚ) (a b x : ℚ) (r : Ref) (h : fourierRef cs ss a b x = some r) :
    r.sem = ∑ n ∈ Finset.range cs.length,
        (cs.getD n 0 : ℝ) * Real.cos (2 * Real.pi / ((b : ℝ) - (a : ℝ)) * (n : ℝ) * (x : ℝ)) +
      ∑ n ∈ Finset.range ss.length,
        (ss.getD n 0 : ℝ) * Real.sin (2 * Real.pi / ((b : ℝ) - (a : ℝ)) * (n : ℝ) * (x : ℝ)) := by
  unfold fourierRef at h
  split at h
  · simp at h
  · simp only [Option.some.injEq] at h
    subst h
    have hm : (Ref.mul (.rat (2 / (b - a))) .pi).sem = 2 * Real.pi / ((b : ℝ) - (a : ℝ)) := by
      simp only [Ref.sem]; push_cast; ring
    simp only [Ref.sem, trigSumRef_sem Ref.cos Real.cos (fun _ => rfl),
      trigSumRef_sem Ref.sin Real.sin (fun _ => rfl), Nat.zero_add]
    rw [← hm]
    rfl

/-- the trigonometric sum `Σ_n cs[n]·cos(m·n·x) + Σ_n ss[n]·sin(m·n·x)`, `m = 2π/(b − a)`, that defines
`fourierval((cs, ss), [a, b], x)` -/
noncomputable def fourierSum (cs ss : List ℚ) (a b : ℚ) (x : ℝ) : ℝ :=
  ∑ n ∈ Finset.range cs.length,
      (cs.getD n 0 : ℝ) * Real.cos (2 * Real.pi / ((b : ℝ) - (a : ℝ)) * (n : ℝ) * x) +
    ∑ n ∈ Finset.range ss.length,
      (ss.getD n 0 : ℝ) * Real.sin (2 * Real.pi / ((b : ℝ) - (a : ℝ)) * (n : ℝ) * x)

theorem fourierRef_sem' (cs ss : List ℚ) (a b x : ℚ) (r : Ref) (h : fourierRef cs ss a b x = some r) :
    r.sem = fourierSum cs ss a b (x : ℝ) :=
  fourierRef_sem cs ss a b x r h

/-! ## C34: value-level order independence of the interpolant model

`Example.history_independence_counterexample` shows that the SEGMENT answering a query at a boundary point
depends on the history.  The VALUE does not, provided the piecewise polynomial is continuous at the knots in
the exact (bitwise) sense `hknot` below.  In the code this holds because segment `k+1` is expanded around `xb_k`
from the state `y = mpolyval(ser_k, xb_k − xa_k)`, its constant Taylor coefficient is `y·1`, and every
`mpolyval` of `interpolant`/`get_series` runs at the same precision `workprec`. -/

section Value
variable {S X Y : Type} [LinearOrder X] {step : X → Y → S × X} {endval : S → X → X → Y} {x0 : X} {y0 : Y}

/-- exact continuity at the knots: evaluating segment `k+1` at its left end `xb_k` gives the same value as
evaluating segment `k` at its right end `xb_k` -/
def KnotContinuous (step : X → Y → S × X) (endval : S → X → X → Y) (evalAt : S → X → X → Y) (x0 : X) (y0 : Y) :
    Prop :=
  ∀ k, evalAt (seg step endval x0 y0 (k + 1)).1 (bd step endval x0 y0 (k + 1)) (bd step endval x0 y0 (k + 1)) =
    evalAt (seg step endval x0 y0 k).1 (bd step endval x0 y0 k) (bd step endval x0 y0 (k + 1))

private theorem seg_eval_eq_aux (evalAt : S → X → X → Y) (hprog : Progress step endval x0 y0)
    (hknot : KnotContinuous step endval evalAt x0 y0) {x : X} {k k' : ℕ} (hk : k < k')
    (h2 : x ≤ bd step endval x0 y0 (k + 1)) (h1' : bd step endval x0 y0 k' ≤ x) :
    evalAt (seg step endval x0 y0 k).1 (bd step endval x0 y0 k) x =
      evalAt (seg step endval x0 y0 k').1 (bd step endval x0 y0 k') x := by
  have hm := hprog.strictMono
  have hle : bd step endval x0 y0 (k + 1) ≤ bd step endval x0 y0 k' := hm.monotone (by omega)
  have hx : x = bd step endval x0 y0 (k + 1) := le_antisymm h2 (le_trans hle h1')
  have hb : bd step endval x0 y0 k' = bd step endval x0 y0 (k + 1) := le_antisymm (hx ▸ h1') hle
  have hk' : k' = k + 1 := hm.injective hb
  subst hk'
  rw [hx]
  exact (hknot k).symm

/-- all canonical segments whose closed interval `[xa_k, xb_k]` contains `x` give the same value at `x` -/
theorem seg_eval_eq (evalAt : S → X → X → Y) (hprog : Progress step endval x0 y0)
    (hknot : KnotContinuous step endval evalAt x0 y0) {x : X} {k k' : ℕ}
    (h1 : bd step endval x0 y0 k ≤ x) (h2 : x ≤ bd step endval x0 y0 (k + 1))
    (h1' : bd step endval x0 y0 k' ≤ x) (h2' : x ≤ bd step endval x0 y0 (k' + 1)) :
    evalAt (seg step endval x0 y0 k).1 (bd step endval x0 y0 k) x =
      evalAt (seg step endval x0 y0 k').1 (bd step endval x0 y0 k') x := by
  rcases lt_trichotomy k k' with h | h | h
  · exact seg_eval_eq_aux evalAt hprog hknot h h2 h1'
  · subst h; rfl
  · exact (seg_eval_eq_aux evalAt hprog hknot h h2' h1).symm

/-- **value-level order independence.**  Under progress and exact knot continuity, the value returned by the
interpolant model for a point `x` is the same in ANY two reachable stores (any two query histories, any fuel
that suffices), for EVERY `x ≥ x0` — boundary points included. -/
theorem interpolant_value_independent (evalAt : S → X → X → Y) (hprog : Progress step endval x0 y0)
    (hknot : KnotContinuous step endval evalAt x0 y0) {st₁ st₂ st₁' st₂' : Store S X}
    (hr₁ : Reachable step endval x0 y0 st₁) (hr₂ : Reachable step endval x0 y0 st₂) {x : X} {f₁ f₂ : ℕ}
    {v₁ v₂ : Y} (h₁ : interpolant step endval evalAt x0 f₁ st₁ x = .ok (st₁', v₁))
    (h₂ : interpolant step endval evalAt x0 f₂ st₂ x = .ok (st₂', v₂)) : v₁ = v₂ := by
  obtain ⟨m₁, hm₁, rfl⟩ := segments_prefix' hr₁
  obtain ⟨m₂, hm₂, rfl⟩ := segments_prefix' hr₂
  unfold interpolant at h₁ h₂
  split at h₁
  · exact absurd h₁ (by simp)
  · rename_i s₁ sg₁ hq₁
    split at h₂
    · exact absurd h₂ (by simp)
    · rename_i s₂ sg₂ hq₂
      injection h₁ with h₁; injection h₁ with _ h₁
      injection h₂ with h₂; injection h₂ with _ h₂
      obtain ⟨_, k₁, _, e₁, _, _, _, lo₁, hi₁⟩ := getSeries_ok_inv hprog hm₁ hq₁
      obtain ⟨_, k₂, _, e₂, _, _, _, lo₂, hi₂⟩ := getSeries_ok_inv hprog hm₂ hq₂
      have hi₁' : x ≤ bd step endval x0 y0 (k₁ + 1) := hi₁.elim (fun h => le_of_lt h.1) (fun h => h.1)
      have hi₂' : x ≤ bd step endval x0 y0 (k₂ + 1) := hi₂.elim (fun h => le_of_lt h.1) (fun h => h.1)
      rw [← h₁, ← h₂, e₁, e₂, seg_xa, seg_xa]
      exact seg_eval_eq evalAt hprog hknot lo₁ hi₁' lo₂ hi₂'

/-- non-vacuity: exact Taylor segments of length 2 for `y' = 1`, `y(0) = 7`: the series of a segment is
`(xa, ya)`, its value at `x` is `ya + (x − xa)`; the knots are continuous and progress holds -/
def Example.vstep : Int → Int → (Int × Int) × Int := fun x y => ((x, y), x + 2)
/-- `mpolyval` stand-in for `Example.vstep` -/
def Example.vend : Int × Int → Int → Int → Int := fun s _ x => s.2 + (x - s.1)

example : KnotContinuous Example.vstep Example.vend Example.vend 0 7 := by
  intro k
  simp [seg, nextSeg, Example.vstep, Example.vend, bd]

example : Progress Example.vstep Example.vend 0 7 := by
  intro k
  cases k <;> simp [seg, nextSeg, Example.vstep]

end Value

end Mp.Calc

/-! ## axiom audit -/
section Audit
open Mp.Calc
#print axioms Ode.solRef_sem
#print axioms Ode.sol_init
#print axioms Ode.sol_hasDerivAt
#print axioms Ode.sol_unique_lin
#print axioms Ode.sol_unique_osc
#print axioms Ode.sol_unique_riccati
#print axioms polyCoeffDist_bound
#print axioms polyCoeffDist_eq_sum
#print axioms fourierRef_sem
#print axioms interpolant_value_independent
end Audit
