/-
  MpProofs/EnclArith.lean — soundness of the dyadic / interval arithmetic layer of `MpModel/Encl.lean`.
-/
import MpModel.Encl
import Mathlib.Data.Real.Basic
import Mathlib.Analysis.Real.Sqrt
import Mathlib.Data.Nat.Sqrt
import Mathlib.Algebra.Order.Field.Power
import Mathlib.Tactic.Ring
import Mathlib.Tactic.Linarith
import Mathlib.Tactic.Positivity
import Mathlib.Tactic.NormNum
import Mathlib.Tactic.FieldSimp
import Mathlib.Tactic.Push
import Mathlib.Tactic.GCongr

namespace Mp.Encl

/-- the real value of a dyadic -/
noncomputable def Dy.val (x : Dy) : ℝ := (x.m : ℝ) * (2 : ℝ) ^ x.e

/-- `x` lies in the closed interval `I` -/
def DI.Mem (I : DI) (x : ℝ) : Prop := I.lo.val ≤ x ∧ x ≤ I.hi.val

theorem two_zpow_pos (e : ℤ) : (0 : ℝ) < (2 : ℝ) ^ e := by positivity

theorem pow2_cast (s : ℕ) : ((pow2 s : ℤ) : ℝ) = (2 : ℝ) ^ s := by
  unfold pow2; push_cast; rfl

theorem two_zpow_split {a b : ℤ} (h : a ≤ b) :
    (2 : ℝ) ^ b = (2 : ℝ) ^ (b - a).toNat * (2 : ℝ) ^ a := by
  have h1 : ((b - a).toNat : ℤ) = b - a := Int.toNat_of_nonneg (by omega)
  rw [← zpow_natCast, h1, ← zpow_add₀ (by norm_num : (2 : ℝ) ≠ 0)]
  congr 1; ring

namespace Dy

@[simp] theorem val_zero : Dy.zero.val = 0 := by simp [Dy.zero, val]
@[simp] theorem val_one : Dy.one.val = 1 := by simp [Dy.one, val]
@[simp] theorem val_ofInt (n : ℤ) : (Dy.ofInt n).val = n := by simp [Dy.ofInt, val]
@[simp] theorem val_neg (x : Dy) : x.neg.val = -x.val := by simp [Dy.neg, val]

@[simp] theorem val_mul (x y : Dy) : (x.mul y).val = x.val * y.val := by
  simp only [Dy.mul, val, Int.cast_mul, zpow_add₀ (by norm_num : (2 : ℝ) ≠ 0)]
  ring

theorem val_shift (x : Dy) (s : ℤ) : (x.shift s).val = x.val * (2 : ℝ) ^ s := by
  simp only [Dy.shift, val, zpow_add₀ (by norm_num : (2 : ℝ) ≠ 0)]
  ring

@[simp] theorem val_add (x y : Dy) : (x.add y).val = x.val + y.val := by
  unfold Dy.add
  split
  · rename_i h
    simp only [val, Int.cast_add, Int.cast_mul, pow2_cast]
    rw [two_zpow_split h]; ring
  · rename_i h
    have h' : y.e ≤ x.e := by omega
    simp only [val, Int.cast_add, Int.cast_mul, pow2_cast]
    rw [two_zpow_split h']; ring

@[simp] theorem val_sub (x y : Dy) : (x.sub y).val = x.val - y.val := by
  simp [Dy.sub, sub_eq_add_neg]

theorem val_nonneg_iff (x : Dy) : 0 ≤ x.val ↔ 0 ≤ x.m := by
  unfold val
  rw [mul_nonneg_iff_of_pos_right (two_zpow_pos _)]
  exact Int.cast_nonneg_iff

theorem val_pos_iff (x : Dy) : 0 < x.val ↔ 0 < x.m := by
  unfold val
  rw [mul_pos_iff_of_pos_right (two_zpow_pos _)]
  exact Int.cast_pos

theorem val_neg_iff (x : Dy) : x.val < 0 ↔ x.m < 0 := by
  rw [← not_le, val_nonneg_iff]; omega

theorem val_nonpos_iff (x : Dy) : x.val ≤ 0 ↔ x.m ≤ 0 := by
  rw [← not_lt, val_pos_iff]; omega

theorem le_iff (x y : Dy) : x.le y = true ↔ x.val ≤ y.val := by
  unfold Dy.le
  rw [decide_eq_true_iff, ← val_nonneg_iff, val_sub, sub_nonneg]

theorem lt_iff (x y : Dy) : x.lt y = true ↔ x.val < y.val := by
  unfold Dy.lt
  rw [decide_eq_true_iff, ← val_pos_iff, val_sub, sub_pos]

theorem val_min (x y : Dy) : (x.min y).val = Min.min x.val y.val := by
  unfold Dy.min
  by_cases h : x.le y = true
  · rw [if_pos h]; rw [le_iff] at h; rw [min_eq_left h]
  · rw [if_neg h]; rw [le_iff] at h; rw [min_eq_right (le_of_not_ge h)]

theorem val_max (x y : Dy) : (x.max y).val = Max.max x.val y.val := by
  unfold Dy.max
  by_cases h : x.le y = true
  · rw [if_pos h]; rw [le_iff] at h; rw [max_eq_right h]
  · rw [if_neg h]; rw [le_iff] at h; rw [max_eq_left (le_of_not_ge h)]

/-- dropping `s` low bits with floor never increases the value -/
theorem val_shiftRight_le (m e : ℤ) (s : ℕ) :
    (Dy.mk (m >>> s) (e + (s : ℤ))).val ≤ (Dy.mk m e).val := by
  simp only [val]
  rw [Int.shiftRight_eq_div_pow, zpow_add₀ (by norm_num : (2 : ℝ) ≠ 0), zpow_natCast, ← mul_assoc]
  have h : m / ((2 ^ s : ℕ) : ℤ) * ((2 ^ s : ℕ) : ℤ) ≤ m := Int.ediv_mul_le m (by positivity)
  have h2 : ((m / ((2 ^ s : ℕ) : ℤ) * ((2 ^ s : ℕ) : ℤ) : ℤ) : ℝ) ≤ (m : ℝ) := by exact_mod_cast h
  rw [Int.cast_mul] at h2
  have h3 : ((((2 ^ s : ℕ) : ℤ)) : ℝ) = (2 : ℝ) ^ s := by push_cast; rfl
  rw [h3] at h2
  calc ((m / ((2 ^ s : ℕ) : ℤ) : ℤ) : ℝ) * (2 : ℝ) ^ e * (2 : ℝ) ^ s
      = (((m / ((2 ^ s : ℕ) : ℤ) : ℤ) : ℝ) * (2 : ℝ) ^ s) * (2 : ℝ) ^ e := by ring
    _ ≤ (m : ℝ) * (2 : ℝ) ^ e := mul_le_mul_of_nonneg_right h2 (two_zpow_pos e).le

theorem roundDown_le (wp : ℕ) (x : Dy) : (x.roundDown wp).val ≤ x.val := by
  unfold Dy.roundDown
  simp only
  split
  · exact le_rfl
  · exact val_shiftRight_le x.m x.e _

theorem le_roundUp (wp : ℕ) (x : Dy) : x.val ≤ (x.roundUp wp).val := by
  unfold Dy.roundUp
  simp only
  split
  · exact le_rfl
  · have h := val_shiftRight_le (-x.m) x.e (blen x.m - wp)
    simp only [val, Int.cast_neg] at h ⊢
    linarith

/-- `divDown` is a lower bound of the quotient -/
theorem divDown_le (wp : ℕ) (x y : Dy) (hy : 0 < y.m) : (x.divDown wp y).val ≤ x.val / y.val := by
  unfold Dy.divDown
  simp only
  generalize wp + blen y.m + 1 - blen x.m = s
  have hyv : 0 < y.val := (val_pos_iff y).2 hy
  rw [le_div_iff₀ hyv]
  simp only [val]
  have h : x.m * pow2 s / y.m * y.m ≤ x.m * pow2 s := Int.ediv_mul_le _ (by omega)
  have h2 : ((x.m * pow2 s / y.m * y.m : ℤ) : ℝ) ≤ ((x.m * pow2 s : ℤ) : ℝ) := by exact_mod_cast h
  push_cast [pow2_cast] at h2
  have e1 : (2 : ℝ) ^ (x.e - (s : ℤ) - y.e) * (2 : ℝ) ^ y.e * (2 : ℝ) ^ s = (2 : ℝ) ^ x.e := by
    rw [← zpow_natCast, ← zpow_add₀ (by norm_num : (2 : ℝ) ≠ 0), ← zpow_add₀ (by norm_num : (2 : ℝ) ≠ 0)]
    congr 1; ring
  have hp : (0 : ℝ) < (2 : ℝ) ^ (x.e - (s : ℤ) - y.e) * (2 : ℝ) ^ y.e := by positivity
  calc ((x.m * pow2 s / y.m : ℤ) : ℝ) * (2 : ℝ) ^ (x.e - (s : ℤ) - y.e) * ((y.m : ℝ) * (2 : ℝ) ^ y.e)
      = (((x.m * pow2 s / y.m : ℤ) : ℝ) * (y.m : ℝ)) * ((2 : ℝ) ^ (x.e - (s : ℤ) - y.e) * (2 : ℝ) ^ y.e) := by ring
    _ ≤ ((x.m : ℝ) * (2 : ℝ) ^ s) * ((2 : ℝ) ^ (x.e - (s : ℤ) - y.e) * (2 : ℝ) ^ y.e) :=
        mul_le_mul_of_nonneg_right h2 hp.le
    _ = (x.m : ℝ) * ((2 : ℝ) ^ (x.e - (s : ℤ) - y.e) * (2 : ℝ) ^ y.e * (2 : ℝ) ^ s) := by ring
    _ = (x.m : ℝ) * (2 : ℝ) ^ x.e := by rw [e1]

theorem le_divUp (wp : ℕ) (x y : Dy) (hy : 0 < y.m) : x.val / y.val ≤ (x.divUp wp y).val := by
  unfold Dy.divUp
  have h := divDown_le wp x.neg y hy
  rw [val_neg, neg_div] at h
  rw [val_neg]; linarith

end Dy

namespace DI

theorem mem_point (x : Dy) : (DI.point x).Mem x.val := ⟨le_rfl, le_rfl⟩
theorem mem_zero : DI.zero.Mem 0 := by simpa [DI.zero] using mem_point Dy.zero
theorem mem_one : DI.one.Mem 1 := by simpa [DI.one] using mem_point Dy.one
theorem mem_ofInt (n : ℤ) : (DI.ofInt n).Mem n := by simpa [DI.ofInt] using mem_point (Dy.ofInt n)

theorem mem_neg {I : DI} {x : ℝ} (h : I.Mem x) : I.neg.Mem (-x) := by
  obtain ⟨h1, h2⟩ := h
  constructor <;> simp only [DI.neg, Dy.val_neg] <;> linarith

theorem mem_add {I J : DI} {x y : ℝ} (hx : I.Mem x) (hy : J.Mem y) : (I.add J).Mem (x + y) := by
  obtain ⟨h1, h2⟩ := hx
  obtain ⟨h3, h4⟩ := hy
  constructor <;> simp only [DI.add, Dy.val_add] <;> linarith

theorem mem_sub {I J : DI} {x y : ℝ} (hx : I.Mem x) (hy : J.Mem y) : (I.sub J).Mem (x - y) := by
  rw [sub_eq_add_neg]; exact mem_add hx (mem_neg hy)

theorem mem_shift {I : DI} {x : ℝ} (hx : I.Mem x) (s : ℤ) : (I.shift s).Mem (x * (2 : ℝ) ^ s) := by
  obtain ⟨h1, h2⟩ := hx
  have hp := (two_zpow_pos s).le
  constructor <;> simp only [DI.shift, Dy.val_shift]
  · exact mul_le_mul_of_nonneg_right h1 hp
  · exact mul_le_mul_of_nonneg_right h2 hp

theorem mem_round {I : DI} {x : ℝ} (hx : I.Mem x) (wp : ℕ) : (I.round wp).Mem x :=
  ⟨le_trans (Dy.roundDown_le wp _) hx.1, le_trans hx.2 (Dy.le_roundUp wp _)⟩

/-- a product lies between the extreme corner products -/
theorem mul_mem_corners {a b c d x y : ℝ} (hx1 : a ≤ x) (hx2 : x ≤ b) (hy1 : c ≤ y) (hy2 : y ≤ d) :
    min (min (a * c) (a * d)) (min (b * c) (b * d)) ≤ x * y ∧
    x * y ≤ max (max (a * c) (a * d)) (max (b * c) (b * d)) := by
  rcases le_total 0 y with hy | hy
  · -- a*y ≤ x*y ≤ b*y
    have l1 : a * y ≤ x * y := mul_le_mul_of_nonneg_right hx1 hy
    have l2 : x * y ≤ b * y := mul_le_mul_of_nonneg_right hx2 hy
    constructor
    · rcases le_total 0 a with ha | ha
      · have : a * c ≤ a * y := mul_le_mul_of_nonneg_left hy1 ha
        exact le_trans (le_trans (min_le_left _ _) (min_le_left _ _)) (le_trans this l1)
      · have : a * d ≤ a * y := mul_le_mul_of_nonpos_left hy2 ha
        exact le_trans (le_trans (min_le_left _ _) (min_le_right _ _)) (le_trans this l1)
    · rcases le_total 0 b with hb | hb
      · have : b * y ≤ b * d := mul_le_mul_of_nonneg_left hy2 hb
        exact le_trans (le_trans l2 this) (le_trans (le_max_right _ _) (le_max_right _ _))
      · have : b * y ≤ b * c := mul_le_mul_of_nonpos_left hy1 hb
        exact le_trans (le_trans l2 this) (le_trans (le_max_left _ _) (le_max_right _ _))
  · -- b*y ≤ x*y ≤ a*y
    have l1 : b * y ≤ x * y := mul_le_mul_of_nonpos_right hx2 hy
    have l2 : x * y ≤ a * y := mul_le_mul_of_nonpos_right hx1 hy
    constructor
    · rcases le_total 0 b with hb | hb
      · have : b * c ≤ b * y := mul_le_mul_of_nonneg_left hy1 hb
        exact le_trans (le_trans (min_le_right _ _) (min_le_left _ _)) (le_trans this l1)
      · have : b * d ≤ b * y := mul_le_mul_of_nonpos_left hy2 hb
        exact le_trans (le_trans (min_le_right _ _) (min_le_right _ _)) (le_trans this l1)
    · rcases le_total 0 a with ha | ha
      · have : a * y ≤ a * d := mul_le_mul_of_nonneg_left hy2 ha
        exact le_trans (le_trans l2 this) (le_trans (le_max_right _ _) (le_max_left _ _))
      · have : a * y ≤ a * c := mul_le_mul_of_nonpos_left hy1 ha
        exact le_trans (le_trans l2 this) (le_trans (le_max_left _ _) (le_max_left _ _))

theorem mem_mulGen {I J : DI} {x y : ℝ} (hx : I.Mem x) (hy : J.Mem y) : (I.mulGen J).Mem (x * y) := by
  obtain ⟨h1, h2⟩ := hx
  obtain ⟨h3, h4⟩ := hy
  have := mul_mem_corners h1 h2 h3 h4
  unfold DI.Mem DI.mulGen
  simp only [Dy.val_min, Dy.val_max, Dy.val_mul]
  exact this

theorem mem_mul {I J : DI} {x y : ℝ} (hx : I.Mem x) (hy : J.Mem y) : (I.mul J).Mem (x * y) := by
  have hg := mem_mulGen hx hy
  obtain ⟨h1, h2⟩ := hx
  obtain ⟨h3, h4⟩ := hy
  unfold DI.mul
  split
  · rename_i ha
    have ha0 : 0 ≤ I.lo.val := (Dy.val_nonneg_iff _).2 ha
    have hx0 : 0 ≤ x := le_trans ha0 h1
    have hb0 : 0 ≤ I.hi.val := le_trans hx0 h2
    split
    · rename_i hc
      have hc0 : 0 ≤ J.lo.val := (Dy.val_nonneg_iff _).2 hc
      have hy0 : 0 ≤ y := le_trans hc0 h3
      constructor <;> simp only [Dy.val_mul]
      · exact mul_le_mul h1 h3 hc0 hx0
      · exact mul_le_mul h2 h4 hy0 hb0
    · split
      · rename_i hc hd
        have hd0 : J.hi.val ≤ 0 := (Dy.val_nonpos_iff _).2 hd
        have hy0 : y ≤ 0 := le_trans h4 hd0
        constructor <;> simp only [Dy.val_mul]
        · calc I.hi.val * J.lo.val ≤ I.hi.val * y := mul_le_mul_of_nonneg_left h3 hb0
            _ ≤ x * y := mul_le_mul_of_nonpos_right h2 hy0
        · calc x * y ≤ I.lo.val * y := mul_le_mul_of_nonpos_right h1 hy0
            _ ≤ I.lo.val * J.hi.val := mul_le_mul_of_nonneg_left h4 ha0
      · exact hg
  · split
    · rename_i ha hb
      have hb0 : I.hi.val ≤ 0 := (Dy.val_nonpos_iff _).2 hb
      have hx0 : x ≤ 0 := le_trans h2 hb0
      have ha0 : I.lo.val ≤ 0 := le_trans h1 hx0
      split
      · rename_i hc
        have hc0 : 0 ≤ J.lo.val := (Dy.val_nonneg_iff _).2 hc
        have hy0 : 0 ≤ y := le_trans hc0 h3
        constructor <;> simp only [Dy.val_mul]
        · calc I.lo.val * J.hi.val ≤ I.lo.val * y := mul_le_mul_of_nonpos_left h4 ha0
            _ ≤ x * y := mul_le_mul_of_nonneg_right h1 hy0
        · calc x * y ≤ I.hi.val * y := mul_le_mul_of_nonneg_right h2 hy0
            _ ≤ I.hi.val * J.lo.val := mul_le_mul_of_nonpos_left h3 hb0
      · split
        · rename_i hc hd
          have hd0 : J.hi.val ≤ 0 := (Dy.val_nonpos_iff _).2 hd
          have hy0 : y ≤ 0 := le_trans h4 hd0
          constructor <;> simp only [Dy.val_mul]
          · calc I.hi.val * J.hi.val ≤ I.hi.val * y := mul_le_mul_of_nonpos_left h4 hb0
              _ ≤ x * y := mul_le_mul_of_nonpos_right h2 hy0
          · calc x * y ≤ I.lo.val * y := mul_le_mul_of_nonpos_right h1 hy0
              _ ≤ I.lo.val * J.lo.val := mul_le_mul_of_nonpos_left h3 ha0
        · exact hg
    · exact hg

theorem abs_le_mag {I : DI} {x : ℝ} (hx : I.Mem x) : |x| ≤ I.mag.val := by
  obtain ⟨h1, h2⟩ := hx
  unfold DI.mag
  rw [Dy.val_max, Dy.val_neg, abs_le]
  constructor
  · have := le_max_left (-I.lo.val) I.hi.val; linarith
  · exact le_trans h2 (le_max_right _ _)

theorem mag_nonneg {I : DI} {x : ℝ} (hx : I.Mem x) : 0 ≤ I.mag.val :=
  le_trans (abs_nonneg x) (abs_le_mag hx)

theorem mig_le_abs {I : DI} {x : ℝ} (hx : I.Mem x) : I.mig.val ≤ |x| := by
  obtain ⟨h1, h2⟩ := hx
  unfold DI.mig
  split
  · exact le_trans h1 (le_abs_self x)
  · split
    · rw [Dy.val_neg]; exact le_trans (by linarith) (neg_le_abs x)
    · simp

theorem mem_widen {I : DI} {r : Dy} {s x : ℝ} (hs : I.Mem s) (hx : |x - s| ≤ r.val) :
    (I.widen r).Mem x := by
  obtain ⟨h1, h2⟩ := hs
  rw [abs_le] at hx
  constructor <;> simp only [DI.widen, Dy.val_sub, Dy.val_add] <;> linarith

theorem mem_divPos {I J : DI} {x y : ℝ} (wp : ℕ) (hx : I.Mem x) (hy : J.Mem y) (hJ : 0 < J.lo.m) :
    (I.divPos wp J).Mem (x / y) := by
  obtain ⟨h1, h2⟩ := hx
  obtain ⟨h3, h4⟩ := hy
  have hlo : 0 < J.lo.val := (Dy.val_pos_iff _).2 hJ
  have hy0 : 0 < y := lt_of_lt_of_le hlo h3
  have hhi : 0 < J.hi.val := lt_of_lt_of_le hy0 h4
  have hJh : 0 < J.hi.m := (Dy.val_pos_iff _).1 hhi
  unfold DI.divPos
  constructor
  · simp only
    split
    · rename_i h
      have hl0 : 0 ≤ I.lo.val := (Dy.val_nonneg_iff _).2 h
      refine le_trans (Dy.divDown_le wp _ _ hJh) ?_
      exact div_le_div₀ (le_trans hl0 h1) h1 hy0 h4
    · rename_i h
      have hl0 : I.lo.val ≤ 0 := le_of_lt ((Dy.val_neg_iff _).2 (by omega))
      refine le_trans (Dy.divDown_le wp _ _ hJ) ?_
      calc I.lo.val / J.lo.val ≤ I.lo.val / y := by
            rw [div_le_div_iff₀ hlo hy0]
            exact mul_le_mul_of_nonpos_left h3 hl0
        _ ≤ x / y := div_le_div_of_nonneg_right h1 hy0.le
  · simp only
    split
    · rename_i h
      have hl0 : 0 ≤ I.hi.val := (Dy.val_nonneg_iff _).2 h
      refine le_trans ?_ (Dy.le_divUp wp _ _ hJ)
      calc x / y ≤ I.hi.val / y := div_le_div_of_nonneg_right h2 hy0.le
        _ ≤ I.hi.val / J.lo.val := div_le_div_of_nonneg_left hl0 hlo h3
    · rename_i h
      have hl0 : I.hi.val ≤ 0 := le_of_lt ((Dy.val_neg_iff _).2 (by omega))
      refine le_trans ?_ (Dy.le_divUp wp _ _ hJh)
      calc x / y ≤ I.hi.val / y := div_le_div_of_nonneg_right h2 hy0.le
        _ ≤ I.hi.val / J.hi.val := by
            rw [div_le_div_iff₀ hy0 hhi]
            exact mul_le_mul_of_nonpos_left h4 hl0

theorem mem_divNat {I : DI} {x : ℝ} (wp : ℕ) (hx : I.Mem x) {k : ℕ} (hk : 0 < k) :
    (I.divNat wp k).Mem (x / (k : ℝ)) := by
  unfold DI.divNat
  have := mem_divPos wp hx (mem_ofInt (k : ℤ)) (by simp [DI.ofInt, DI.point, Dy.ofInt]; exact hk)
  simpa using this

theorem mem_divI {I J K : DI} {x y : ℝ} (wp : ℕ) (hx : I.Mem x) (hy : J.Mem y)
    (h : I.divI wp J = some K) : K.Mem (x / y) ∧ y ≠ 0 := by
  unfold DI.divI at h
  split at h
  · rename_i hJ
    have hy0 : 0 < y := lt_of_lt_of_le ((Dy.val_pos_iff _).2 hJ) hy.1
    simp only [Option.some.injEq] at h
    subst h
    exact ⟨mem_divPos wp hx hy hJ, hy0.ne'⟩
  · split at h
    · rename_i hJ
      have hy0 : y < 0 := lt_of_le_of_lt hy.2 ((Dy.val_neg_iff _).2 hJ)
      simp only [Option.some.injEq] at h
      subst h
      have := mem_divPos wp (mem_neg hx) (mem_neg hy) (by simp [DI.neg, Dy.neg]; exact hJ)
      rw [neg_div_neg_eq] at this
      exact ⟨this, hy0.ne⟩
    · simp at h

theorem mem_clamp1 {I : DI} {x : ℝ} (hx : I.Mem x) (h1 : -1 ≤ x) (h2 : x ≤ 1) : I.clamp1.Mem x := by
  unfold DI.clamp1 DI.Mem
  simp only [Dy.val_max, Dy.val_min, Dy.val_ofInt, Dy.val_one]
  exact ⟨max_le hx.1 (by push_cast; linarith), le_min hx.2 h2⟩

end DI

/-! ### sqrt -/

theorem sqrtShift_even (wp : ℕ) (x : Dy) :
    x.e - (x.sqrtShift wp : ℤ) = 2 * ((x.e - (x.sqrtShift wp : ℤ)) / 2) := by
  unfold Dy.sqrtShift
  simp only
  split
  · omega
  · push_cast; omega

/-- `x = M · 2^(2h)` with `M = x.m · 2^s` -/
theorem sqrt_val_eq (wp : ℕ) (x : Dy) (hx : 0 ≤ x.m) :
    x.val = ((x.m.toNat * 2 ^ x.sqrtShift wp : ℕ) : ℝ) *
      ((2 : ℝ) ^ ((x.e - (x.sqrtShift wp : ℤ)) / 2)) ^ 2 := by
  have he := sqrtShift_even wp x
  generalize x.sqrtShift wp = s at he ⊢
  generalize (x.e - (s : ℤ)) / 2 = h at he ⊢
  have hm : ((x.m.toNat : ℕ) : ℝ) = (x.m : ℝ) := by
    have : ((x.m.toNat : ℕ) : ℤ) = x.m := Int.toNat_of_nonneg hx
    exact_mod_cast congrArg (fun z : ℤ => (z : ℝ)) this
  have e2 : ((2 : ℝ) ^ h) ^ 2 = (2 : ℝ) ^ (2 * h) := by
    rw [← zpow_natCast, ← zpow_mul]; congr 1; ring
  have e3 : (2 : ℝ) ^ x.e = (2 : ℝ) ^ s * (2 : ℝ) ^ (2 * h) := by
    rw [← zpow_natCast, ← zpow_add₀ (by norm_num : (2 : ℝ) ≠ 0)]; congr 1; omega
  unfold Dy.val
  push_cast
  rw [hm, e2, e3]; ring

theorem sqrtDown_le (wp : ℕ) (x : Dy) (hx : 0 ≤ x.m) : (x.sqrtDown wp).val ≤ Real.sqrt x.val := by
  rw [sqrt_val_eq wp x hx]
  unfold Dy.sqrtDown
  simp only [Dy.val]
  set M := x.m.toNat * 2 ^ x.sqrtShift wp
  set t : ℝ := (2 : ℝ) ^ ((x.e - (x.sqrtShift wp : ℤ)) / 2)
  have ht : 0 ≤ t := by positivity
  rw [Real.sqrt_mul (Nat.cast_nonneg M), Real.sqrt_sq ht]
  apply mul_le_mul_of_nonneg_right _ ht
  push_cast
  exact Real.nat_sqrt_le_real_sqrt

theorem le_sqrtUp (wp : ℕ) (x : Dy) (hx : 0 ≤ x.m) : Real.sqrt x.val ≤ (x.sqrtUp wp).val := by
  rw [sqrt_val_eq wp x hx]
  unfold Dy.sqrtUp
  simp only [Dy.val]
  set M := x.m.toNat * 2 ^ x.sqrtShift wp
  set t : ℝ := (2 : ℝ) ^ ((x.e - (x.sqrtShift wp : ℤ)) / 2)
  have ht : 0 ≤ t := by positivity
  rw [Real.sqrt_mul (Nat.cast_nonneg M), Real.sqrt_sq ht]
  apply mul_le_mul_of_nonneg_right _ ht
  split
  · rename_i h
    have : ((M : ℕ) : ℝ) = (Nat.sqrt M : ℝ) * (Nat.sqrt M : ℝ) := by
      have h' := congrArg (fun n : ℕ => (n : ℝ)) h.symm
      simp only [Nat.cast_mul] at h'
      exact h'
    push_cast
    rw [this, Real.sqrt_mul_self (Nat.cast_nonneg _)]
  · push_cast
    exact Real.real_sqrt_le_nat_sqrt_succ

/-- soundness of the square-root enclosure (for `Real.sqrt`, which is `0` on negatives) -/
theorem sqrtI_sound (wp : ℕ) (I : DI) (x : ℝ) (hx : I.Mem x) : (sqrtI wp I).Mem (Real.sqrt x) := by
  obtain ⟨h1, h2⟩ := hx
  unfold sqrtI DI.Mem
  constructor
  · simp only
    split
    · simp
    · rename_i h
      exact le_trans (sqrtDown_le wp _ (by omega)) (Real.sqrt_le_sqrt h1)
  · simp only
    split
    · rename_i h
      have : x ≤ 0 := le_trans h2 ((Dy.val_nonpos_iff _).2 h)
      rw [Real.sqrt_eq_zero_of_nonpos this]; simp
    · rename_i h
      exact le_trans (Real.sqrt_le_sqrt h2) (le_sqrtUp wp _ (by omega))

end Mp.Encl
