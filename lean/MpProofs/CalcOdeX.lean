/-
  MpProofs/CalcOdeX.lean — the closed form of `MpModel/CalcOdeX.lean` (`y' = −2(x − c)y²`, `y(x0) = y0 > 0`, `c ≤ x0`) is THE
  solution on `[x0, T]`: it takes the initial value, satisfies the differential equation (differentiation) and is the only
  such function (Grönwall, as for `riccati` in `MpProofs/CalcOde.lean`).
-/
import MpModel.CalcOdeX
import MpProofs.CalcRef
import Mathlib.Analysis.ODE.ExistUnique
import Mathlib.Analysis.Calculus.Deriv.Inv
import Mathlib.Analysis.Calculus.Deriv.Pow

namespace Mp.Calc
open Set

/-- the solution as a real function -/
noncomputable def RicX.sol (o : RicX) (x : ℝ) : ℝ :=
  1 / (1 / (o.y0 : ℝ) + (x - (o.c : ℝ)) ^ 2 - ((o.x0 : ℝ) - (o.c : ℝ)) ^ 2)

/-- the denominator `1/y0 + (x − c)² − (x0 − c)²` -/
noncomputable def RicX.den (o : RicX) (x : ℝ) : ℝ :=
  1 / (o.y0 : ℝ) + (x - (o.c : ℝ)) ^ 2 - ((o.x0 : ℝ) - (o.c : ℝ)) ^ 2

theorem RicX.ok_iff (o : RicX) : o.ok = true ↔ 0 < o.y0 ∧ o.c ≤ o.x0 := by
  simp [RicX.ok]

theorem RicX.den_pos (o : RicX) (hok : o.ok = true) (x : ℝ) (hx : (o.x0 : ℝ) ≤ x) : 0 < o.den x := by
  obtain ⟨hy, hc⟩ := (o.ok_iff).1 hok
  have hy' : (0 : ℝ) < o.y0 := by exact_mod_cast hy
  have hc' : (o.c : ℝ) ≤ o.x0 := by exact_mod_cast hc
  have h1 : 0 < 1 / (o.y0 : ℝ) := by positivity
  have h2 : ((o.x0 : ℝ) - o.c) ^ 2 ≤ (x - o.c) ^ 2 := by
    apply pow_le_pow_left₀ (by linarith) (by linarith)
  unfold RicX.den
  linarith

/-- `solRef` denotes the solution -/
theorem RicX.solRef_sem (o : RicX) (x : ℚ) (r : Ref) (h : o.solRef x = some r) : r.sem = o.sol (x : ℝ) := by
  unfold RicX.solRef at h
  split at h
  · simp only [Option.some.injEq] at h
    subst h
    simp only [Ref.sem, RicX.solQ, RicX.sol]
    push_cast
    rfl
  · simp at h

/-- the solution takes the initial value at `x0` -/
theorem RicX.sol_init (o : RicX) (hok : o.ok = true) : o.sol (o.x0 : ℝ) = (o.y0 : ℝ) := by
  obtain ⟨hy, _⟩ := (o.ok_iff).1 hok
  have hy' : (o.y0 : ℝ) ≠ 0 := by
    have : (0 : ℝ) < o.y0 := by exact_mod_cast hy
    exact ne_of_gt this
  unfold RicX.sol
  field_simp
  ring

/-- the solution satisfies `y' = −2(x − c)·y²` at every `x ≥ x0` -/
theorem RicX.sol_hasDerivAt (o : RicX) (hok : o.ok = true) (x : ℝ) (hx : (o.x0 : ℝ) ≤ x) :
    HasDerivAt o.sol (-2 * (x - (o.c : ℝ)) * (o.sol x) ^ 2) x := by
  have hd : 0 < o.den x := o.den_pos hok x hx
  have hin : HasDerivAt o.den (2 * (x - (o.c : ℝ))) x := by
    have h1 := ((hasDerivAt_id' x).sub_const (o.c : ℝ)).pow 2
    have h2 := (h1.const_add (1 / (o.y0 : ℝ))).sub_const (((o.x0 : ℝ) - (o.c : ℝ)) ^ 2)
    have hf : o.den = fun t : ℝ => 1 / (o.y0 : ℝ) + (t - (o.c : ℝ)) ^ 2 - ((o.x0 : ℝ) - (o.c : ℝ)) ^ 2 := rfl
    rw [hf]
    refine h2.congr_deriv ?_
    simp
  have h := hin.inv (ne_of_gt hd)
  have hfun : o.sol = fun t : ℝ => (o.den t)⁻¹ := by
    funext t; simp [RicX.sol, RicX.den]
  rw [hfun]
  refine h.congr_deriv ?_
  have hne : o.den x ≠ 0 := ne_of_gt hd
  field_simp

theorem RicX.sol_continuousOn (o : RicX) (hok : o.ok = true) (T : ℝ) :
    ContinuousOn o.sol (Icc (o.x0 : ℝ) T) := fun t ht =>
  (o.sol_hasDerivAt hok t ht.1).continuousAt.continuousWithinAt

/-- **uniqueness.**  Any function continuous on `[x0, T]` with right derivative `−2(t − c)·f(t)²` on `[x0, T)` and
`f(x0) = y0` equals the closed form on `[x0, T]`. -/
theorem RicX.sol_unique (o : RicX) (hok : o.ok = true) (T : ℝ) (f : ℝ → ℝ)
    (hc : ContinuousOn f (Icc (o.x0 : ℝ) T))
    (hd : ∀ t ∈ Ico (o.x0 : ℝ) T, HasDerivWithinAt f (-2 * (t - (o.c : ℝ)) * (f t) ^ 2) (Ici t) t)
    (h0 : f (o.x0 : ℝ) = (o.y0 : ℝ)) :
    ∀ t ∈ Icc (o.x0 : ℝ) T, f t = o.sol t := by
  have hs := o.sol_continuousOn hok T
  obtain ⟨C₁, hC₁⟩ := isCompact_Icc.exists_bound_of_continuousOn hc
  obtain ⟨C₂, hC₂⟩ := isCompact_Icc.exists_bound_of_continuousOn hs
  set R : ℝ := max (max C₁ C₂) 0 with hR
  have hR0 : 0 ≤ R := le_max_right _ _
  set M : ℝ := max |(o.x0 : ℝ) - o.c| |T - o.c| with hM
  have hM0 : 0 ≤ M := le_trans (abs_nonneg _) (le_max_left _ _)
  have hMt : ∀ t ∈ Ico (o.x0 : ℝ) T, |t - (o.c : ℝ)| ≤ M := by
    intro t ht
    rw [abs_le]
    constructor
    · have : -|(o.x0 : ℝ) - o.c| ≤ (o.x0 : ℝ) - o.c := neg_abs_le _
      have h2 : |(o.x0 : ℝ) - o.c| ≤ M := le_max_left _ _
      linarith [ht.1]
    · have : T - (o.c : ℝ) ≤ |T - o.c| := le_abs_self _
      have h2 : |T - (o.c : ℝ)| ≤ M := le_max_right _ _
      linarith [ht.2]
  have hL : ∀ t ∈ Ico (o.x0 : ℝ) T,
      LipschitzOnWith ⟨4 * M * R, by positivity⟩ (fun y : ℝ => -2 * (t - (o.c : ℝ)) * y ^ 2)
        (Metric.closedBall (0 : ℝ) R) := by
    intro t ht
    refine LipschitzOnWith.of_dist_le_mul fun y hy z hz => ?_
    rw [Metric.mem_closedBall, Real.dist_eq, sub_zero] at hy hz
    rw [Real.dist_eq, Real.dist_eq]
    have : -2 * (t - (o.c : ℝ)) * y ^ 2 - -2 * (t - (o.c : ℝ)) * z ^ 2 =
        -2 * (t - (o.c : ℝ)) * (y + z) * (y - z) := by ring
    rw [this, abs_mul]
    refine mul_le_mul_of_nonneg_right ?_ (abs_nonneg _)
    rw [abs_mul, abs_mul]
    have h1 : |(-2 : ℝ)| = 2 := by norm_num
    rw [h1]
    have h2 : |y + z| ≤ 2 * R := by
      calc |y + z| ≤ |y| + |z| := abs_add_le _ _
        _ ≤ 2 * R := by linarith
    have h3 := hMt t ht
    show 2 * |t - (o.c : ℝ)| * |y + z| ≤ 4 * M * R
    have h4 : 2 * |t - (o.c : ℝ)| ≤ 2 * M := by linarith
    calc 2 * |t - (o.c : ℝ)| * |y + z| ≤ (2 * M) * (2 * R) :=
          mul_le_mul h4 h2 (abs_nonneg _) (by positivity)
      _ = 4 * M * R := by ring
  refine ODE_solution_unique_of_mem_Icc_right (v := fun t y => -2 * (t - (o.c : ℝ)) * y ^ 2)
    (s := fun _ => Metric.closedBall (0 : ℝ) R) hL hc hd (fun t ht => ?_) hs (fun t ht => ?_)
    (fun t ht => ?_) ?_
  · rw [Metric.mem_closedBall, Real.dist_eq, sub_zero]
    have := hC₁ t (Ico_subset_Icc_self ht)
    rw [Real.norm_eq_abs] at this
    exact le_trans this (le_trans (le_max_left _ _) (le_max_left _ _))
  · exact (o.sol_hasDerivAt hok t ht.1).hasDerivWithinAt
  · rw [Metric.mem_closedBall, Real.dist_eq, sub_zero]
    have := hC₂ t (Ico_subset_Icc_self ht)
    rw [Real.norm_eq_abs] at this
    exact le_trans this (le_trans (le_max_right _ _) (le_max_left _ _))
  · rw [h0]; exact (o.sol_init hok).symm

/-- at `x0 = c` the solution is an even function of `x − x0` (so its odd-order Taylor coefficients at `x0` vanish) -/
theorem RicX.sol_even (o : RicX) (h : o.oddCoeffsVanish = true) (u : ℝ) :
    o.sol ((o.x0 : ℝ) + u) = o.sol ((o.x0 : ℝ) - u) := by
  have hc : o.c = o.x0 := by simpa [RicX.oddCoeffsVanish] using h
  simp only [RicX.sol, hc]
  ring_nf

end Mp.Calc
