/-
  MpProofs/RootOrder.lean — the ordering produced by the post-processing of polyroots
  (stable insertion sort model, key order, real-first / conjugate adjacency lemmas; patched ordering).
-/
import MpModel.RootCert
import MpProofs.Spec
import MpProofs.Cmp
import MpProofs.Arith
import Mathlib.Data.List.Perm.Basic
import Mathlib.Data.List.Permutation
import Mathlib.Data.Prod.Lex
import Mathlib.Algebra.Order.Archimedean.Basic
import Mathlib.Tactic.Linarith

namespace Mp
namespace RootCert

/-! ## generic facts about the stable insertion sort -/

theorem insertBy_perm {α : Type} (lt : α → α → Bool) (x : α) (l : List α) :
    (insertBy lt x l).Perm (x :: l) := by
  induction l with
  | nil => simp [insertBy]
  | cons y ys ih =>
    simp only [insertBy]
    split
    · exact (List.Perm.cons y ih).trans (List.Perm.swap x y ys)
    · exact List.Perm.refl _

theorem sortBy_perm {α : Type} (lt : α → α → Bool) (l : List α) : (sortBy lt l).Perm l := by
  induction l with
  | nil => simp [sortBy]
  | cons x xs ih =>
    simp only [sortBy]
    exact (insertBy_perm lt x _).trans (List.Perm.cons x ih)

section sorted
variable {α : Type} {L : Type} [LinearOrder L] (lt : α → α → Bool) (f : α → L)

theorem insertBy_sorted (hlt : ∀ a b, lt a b = true ↔ f a < f b) (x : α) (l : List α)
    (hl : l.Pairwise (fun a b => f a ≤ f b)) :
    (insertBy lt x l).Pairwise (fun a b => f a ≤ f b) := by
  induction l with
  | nil => simp [insertBy]
  | cons y ys ih =>
    simp only [insertBy]
    rw [List.pairwise_cons] at hl
    split
    · rename_i h
      have hyx : f y < f x := (hlt y x).1 h
      rw [List.pairwise_cons]
      refine ⟨?_, ih hl.2⟩
      intro z hz
      have hz' : z ∈ x :: ys := (insertBy_perm lt x ys).mem_iff.1 hz
      rcases List.mem_cons.1 hz' with rfl | hz'
      · exact hyx.le
      · exact hl.1 z hz'
    · rename_i h
      have hxy : f x ≤ f y := by
        by_contra hc
        exact h ((hlt y x).2 (lt_of_not_ge hc))
      rw [List.pairwise_cons]
      refine ⟨?_, List.pairwise_cons.2 hl⟩
      intro z hz
      rw [List.mem_cons] at hz
      rcases hz with rfl | hz
      · exact hxy
      · exact hxy.trans (hl.1 z hz)

theorem sortBy_sorted (hlt : ∀ a b, lt a b = true ↔ f a < f b) (l : List α) :
    (sortBy lt l).Pairwise (fun a b => f a ≤ f b) := by
  induction l with
  | nil => simp [sortBy]
  | cons x xs ih => exact insertBy_sorted lt f hlt x _ ih

/-- a list sorted by `f` is its `< k` part followed by its `≥ k` part -/
theorem sorted_split (k : L) (l : List α) (hl : l.Pairwise (fun a b => f a ≤ f b)) :
    l = l.filter (fun a => decide (f a < k)) ++ l.filter (fun a => !decide (f a < k)) := by
  induction l with
  | nil => simp
  | cons x xs ih =>
    rw [List.pairwise_cons] at hl
    by_cases hx : f x < k
    · simp only [List.filter_cons, hx, decide_true, if_true, Bool.not_true, Bool.false_eq_true, if_false,
        List.cons_append]
      rw [← ih hl.2]
    · have h1 : xs.filter (fun a => decide (f a < k)) = [] := by
        rw [List.filter_eq_nil_iff]
        intro a ha
        have := hl.1 a ha
        simp only [decide_eq_true_eq, not_lt]
        exact (not_lt.1 hx).trans this
      have h2 : xs.filter (fun a => !decide (f a < k)) = xs := by
        rw [List.filter_eq_self]
        intro a ha
        have := hl.1 a ha
        simp only [Bool.not_eq_true', decide_eq_false_iff_not, not_lt]
        exact (not_lt.1 hx).trans this
      simp [hx, h1, h2]

end sorted

/-! ## the key order of `polyroots` on canonical finite values -/

/-- both components are canonical finite mpf values (no inf/nan, normalised) -/
def Root.WF (r : Root) : Prop := CanonFin r.re ∧ CanonFin r.im

instance (r : Root) : Decidable r.WF := by unfold Root.WF; infer_instance

theorem Root.WF.imag {r : Root} (h : r.WF) : CanonFin r.imag := by
  unfold Root.imag; split
  · exact h.2
  · exact canonFin_fzero

theorem canonFin_val_eq_zero {s : Mpf} (hs : CanonFin s) : val s = 0 ↔ s = fzero := by
  constructor
  · intro h
    exact canonFin_val_inj hs canonFin_fzero (by rw [h, val_fzero])
  · rintro rfl; exact val_fzero

/-- rounding `|s|` to `wp ≥ 1` bits never produces zero from a nonzero value -/
theorem mpf_abs_val_pos {s : Mpf} (hs : CanonFin s) (hne : s ≠ fzero) {wp : ℤ} (hp : 0 < wp) :
    0 < val (mpf_abs s wp .n) := by
  obtain ⟨hc, _, h3⟩ := mpf_abs_spec hs hp.le .n
  obtain ⟨hr, _⟩ := h3 hp
  have hx : 0 < |val s| := abs_pos.2 (fun h => hne ((canonFin_val_eq_zero hs).1 h))
  generalize |val s| = x at hr hx
  generalize val (mpf_abs s wp .n) = v at hr
  have hr' : IsRoundN wp.toNat x v := hr
  have hle : ∀ z, Repb wp.toNat z → |x - v| ≤ |x - z| := by
    intro z hz
    rcases hr'.2 z hz with h | h
    · exact h.le
    · exact h.1.le
  have hnn : 0 ≤ v := by
    by_contra hneg
    push Not at hneg
    have h0 : Repb wp.toNat (0 : ℚ) := ⟨0, 0, by simp, by simp⟩
    have h := hle 0 h0
    rw [sub_zero, abs_of_pos hx] at h
    have : x - v ≤ |x - v| := le_abs_self _
    linarith
  rcases hnn.lt_or_eq with h | h
  · exact h
  · exfalso
    obtain ⟨k, hk1, hk2⟩ := exists_mem_Ico_zpow (y := (2 : ℚ)) hx (by norm_num)
    have hz : Repb wp.toNat ((2 : ℚ) ^ k) := by
      refine ⟨1, k, ?_, by simp⟩
      have : 1 ≤ wp.toNat := by omega
      have h2 : (2 : ℤ) ^ 1 ≤ 2 ^ wp.toNat := pow_le_pow_right₀ (by norm_num) this
      simp only [abs_one]
      linarith
    have hpos : (0 : ℚ) < 2 ^ k := by positivity
    have hlt : |x - (2 : ℚ) ^ k| < x := by
      rw [abs_of_nonneg (by linarith)]
      linarith
    have h' := hle _ hz
    rw [← h, sub_zero, abs_of_pos hx] at h'
    linarith

/-- the value-level sort key: `(|Im| rounded to wp bits, Re)` in the lexicographic order -/
def keyVal (wp : ℤ) (r : Root) : ℚ ×ₗ ℚ := toLex (val (mpf_abs r.imag wp .n), val r.re)

/-- Python's tuple `<` on canonical finite mpf pairs is the lexicographic order of the values -/
theorem keyLt_iff {a1 a2 b1 b2 : Mpf} (ha1 : CanonFin a1) (ha2 : CanonFin a2) (hb1 : CanonFin b1)
    (hb2 : CanonFin b2) :
    keyLt (a1, a2) (b1, b2) = true ↔ (toLex (val a1, val a2) : ℚ ×ₗ ℚ) < toLex (val b1, val b2) := by
  rw [Prod.Lex.toLex_lt_toLex]
  simp only [keyLt, mpf_eq_spec ha1 hb1, mpf_eq_spec ha2 hb2, mpf_lt_spec ha1 hb1, mpf_lt_spec ha2 hb2]
  by_cases h1 : val a1 = val b1
  · by_cases h2 : val a2 = val b2
    · simp [h1, h2]
    · simp [h1, h2]
  · simp [h1]

theorem sortKey_lt_iff {wp : ℤ} (hp : 0 ≤ wp) {a b : Root} (ha : a.WF) (hb : b.WF) :
    keyLt (sortKey wp a) (sortKey wp b) = true ↔ keyVal wp a < keyVal wp b := by
  unfold sortKey keyVal
  exact keyLt_iff (mpf_abs_spec ha.imag hp .n).1 ha.1 (mpf_abs_spec hb.imag hp .n).1 hb.1

/-- `polyrootsOrder` returns a permutation of its input -/
theorem polyrootsOrder_perm (wp : ℤ) (roots : List Root) : (polyrootsOrder wp roots).Perm roots :=
  sortBy_perm _ _

theorem polyrootsOrder_sorted {wp : ℤ} (hp : 0 ≤ wp) (roots : List Root) (hwf : ∀ r ∈ roots, r.WF) :
    (polyrootsOrder wp roots).Pairwise (fun a b => keyVal wp a ≤ keyVal wp b) := by
  -- restrict to the subtype of well-formed roots to use the generic lemma
  unfold polyrootsOrder
  let lt := fun a b : Root => keyLt (sortKey wp a) (sortKey wp b)
  -- generic lemma needs `lt a b ↔ f a < f b` for all a b; we only have it on WF roots, so we go
  -- through an induction that carries membership
  suffices h : ∀ l : List Root, (∀ r ∈ l, r.WF) →
      (sortBy lt l).Pairwise (fun a b => keyVal wp a ≤ keyVal wp b) ∧ ∀ r ∈ sortBy lt l, r.WF from
    (h roots hwf).1
  intro l
  induction l with
  | nil => intro _; simp [sortBy]
  | cons x xs ih =>
    intro hl
    have hx : x.WF := hl x (by simp)
    obtain ⟨h1, h2⟩ := ih (fun r hr => hl r (by simp [hr]))
    simp only [sortBy]
    constructor
    · -- insertion into a sorted WF list
      generalize sortBy lt xs = ys at h1 h2
      induction ys with
      | nil => simp [insertBy]
      | cons y ys ih2 =>
        have hy : y.WF := h2 y (by simp)
        rw [List.pairwise_cons] at h1
        simp only [insertBy]
        split
        · rename_i h
          have hyx : keyVal wp y < keyVal wp x := (sortKey_lt_iff hp hy hx).1 h
          rw [List.pairwise_cons]
          refine ⟨?_, ih2 h1.2 (fun r hr => h2 r (by simp [hr]))⟩
          intro z hz
          have hz' : z ∈ x :: ys := (insertBy_perm lt x ys).mem_iff.1 hz
          rcases List.mem_cons.1 hz' with rfl | hz'
          · exact hyx.le
          · exact h1.1 z hz'
        · rename_i h
          have hxy : keyVal wp x ≤ keyVal wp y := by
            by_contra hc
            exact h ((sortKey_lt_iff hp hy hx).2 (lt_of_not_ge hc))
          rw [List.pairwise_cons]
          refine ⟨?_, List.pairwise_cons.2 h1⟩
          intro z hz
          rcases List.mem_cons.1 hz with rfl | hz
          · exact hxy
          · exact hxy.trans (h1.1 z hz)
    · intro r hr
      have : r ∈ x :: sortBy lt xs := (insertBy_perm lt x _).mem_iff.1 hr
      rcases List.mem_cons.1 this with rfl | h
      · exact hx
      · exact h2 r h

theorem keyVal_real {wp : ℤ} {r : Root} (h : r.imag = fzero) (_hp : 0 ≤ wp) :
    keyVal wp r = toLex (0, val r.re) := by
  unfold keyVal
  rw [h]
  have : mpf_abs fzero wp .n = fzero := by
    by_cases h0 : wp = 0 <;> simp [mpf_abs, fzero, isSpecial, h0]
  rw [this, val_fzero]

/-- **real roots first, sorted by value**: in the order computed by `polyroots`, no root with a nonzero
imaginary part precedes a real one, and real roots appear in non-decreasing order. -/
theorem polyrootsOrder_real_first {wp : ℤ} (hp : 0 < wp) (roots : List Root) (hwf : ∀ r ∈ roots, r.WF) :
    (polyrootsOrder wp roots).Pairwise (fun a b =>
      (b.imag = fzero → a.imag = fzero) ∧ (a.imag = fzero → b.imag = fzero → val a.re ≤ val b.re)) := by
  have hs := polyrootsOrder_sorted hp.le roots hwf
  have hmem : ∀ r ∈ polyrootsOrder wp roots, r.WF := fun r hr =>
    hwf r ((polyrootsOrder_perm wp roots).mem_iff.1 hr)
  rw [List.Pairwise.and_mem] at hs
  refine hs.imp ?_
  rintro a b ⟨ha, hb, hab⟩
  constructor
  · intro hb0
    by_contra ha0
    have hpos := mpf_abs_val_pos (hmem a ha).imag ha0 hp
    rw [keyVal_real hb0 hp.le] at hab
    unfold keyVal at hab
    rw [Prod.Lex.toLex_le_toLex] at hab
    simp only at hab
    rcases hab with h | h
    · linarith
    · linarith [h.1]
  · intro ha0 hb0
    rw [keyVal_real ha0 hp.le, keyVal_real hb0 hp.le, Prod.Lex.toLex_le_toLex] at hab
    simp only at hab
    rcases hab with h | h
    · exact absurd h (lt_irrefl _)
    · exact h.2

/-- a sorted list whose elements are all `≥ k` is its `= k` part followed by the rest -/
theorem sorted_split_eq {α L : Type} [LinearOrder L] (f : α → L) (k : L) (l : List α)
    (hl : l.Pairwise (fun a b => f a ≤ f b)) (hge : ∀ a ∈ l, k ≤ f a) :
    l = l.filter (fun a => decide (f a = k)) ++ l.filter (fun a => !decide (f a = k)) := by
  induction l with
  | nil => simp
  | cons x xs ih =>
    rw [List.pairwise_cons] at hl
    have hxs : ∀ a ∈ xs, k ≤ f a := fun a ha => hge a (by simp [ha])
    by_cases hx : f x = k
    · simp only [List.filter_cons, hx, decide_true, if_true, Bool.not_true, Bool.false_eq_true, if_false,
        List.cons_append]
      rw [← ih hl.2 hxs]
    · have hgt : k < f x := lt_of_le_of_ne (hge x (by simp)) (Ne.symm hx)
      have h1 : xs.filter (fun a => decide (f a = k)) = [] := by
        rw [List.filter_eq_nil_iff]
        intro a ha
        have := hl.1 a ha
        simp only [decide_eq_true_eq]
        exact fun h => absurd (h ▸ this) (not_le.2 hgt)
      have h2 : xs.filter (fun a => !decide (f a = k)) = xs := by
        rw [List.filter_eq_self]
        intro a ha
        have := hl.1 a ha
        simp only [Bool.not_eq_true', decide_eq_false_iff_not]
        exact fun h => absurd (h ▸ this) (not_le.2 hgt)
      simp [hx, h1, h2]

/-- **conjugate adjacency, conditional**: if two roots `a`, `b` of the list have identical keys
(exact conjugates have: same `Re`, same `|Im|`) and no other root has that key, they are adjacent
in the output. -/
theorem polyrootsOrder_adjacent {wp : ℤ} (hp : 0 ≤ wp) (roots rest : List Root) (a b : Root)
    (hwf : ∀ r ∈ roots, r.WF) (hperm : roots.Perm (a :: b :: rest))
    (hab : keyVal wp b = keyVal wp a) (hrest : ∀ c ∈ rest, keyVal wp c ≠ keyVal wp a) :
    ∃ l1 l2, polyrootsOrder wp roots = l1 ++ [a, b] ++ l2 ∨ polyrootsOrder wp roots = l1 ++ [b, a] ++ l2 := by
  classical
  have hs : (polyrootsOrder wp roots).Pairwise (fun x y => keyVal wp x ≤ keyVal wp y) :=
    polyrootsOrder_sorted hp roots hwf
  have hpo : (polyrootsOrder wp roots).Perm (a :: b :: rest) := (polyrootsOrder_perm wp roots).trans hperm
  generalize polyrootsOrder wp roots = out at hs hpo
  have h1 := sorted_split (keyVal wp) (keyVal wp a) out hs
  have hs2 : (out.filter (fun x => !decide (keyVal wp x < keyVal wp a))).Pairwise
      (fun x y => keyVal wp x ≤ keyVal wp y) := hs.sublist List.filter_sublist
  have hge : ∀ x ∈ out.filter (fun x => !decide (keyVal wp x < keyVal wp a)), keyVal wp a ≤ keyVal wp x := by
    intro x hx
    have := (List.mem_filter.1 hx).2
    simpa using this
  have h2 := sorted_split_eq (keyVal wp) (keyVal wp a) _ hs2 hge
  rw [List.filter_filter] at h2
  have hmid : (out.filter (fun x => decide (keyVal wp x = keyVal wp a) &&
      !decide (keyVal wp x < keyVal wp a))).Perm [a, b] := by
    refine (hpo.filter _).trans ?_
    have hr : rest.filter (fun x => decide (keyVal wp x = keyVal wp a) &&
        !decide (keyVal wp x < keyVal wp a)) = [] := by
      rw [List.filter_eq_nil_iff]
      intro c hc
      simp [hrest c hc]
    simp [hab, hr]
  rcases List.perm_pair.1 hmid with h | h
  · refine ⟨out.filter (fun x => decide (keyVal wp x < keyVal wp a)),
      (out.filter (fun x => !decide (keyVal wp x < keyVal wp a))).filter
        (fun x => !decide (keyVal wp x = keyVal wp a)), Or.inl ?_⟩
    rw [List.append_assoc, ← h, ← h2]
    exact h1
  · refine ⟨out.filter (fun x => decide (keyVal wp x < keyVal wp a)),
      (out.filter (fun x => !decide (keyVal wp x < keyVal wp a))).filter
        (fun x => !decide (keyVal wp x = keyVal wp a)), Or.inr ?_⟩
    rw [List.append_assoc, ← h, ← h2]
    exact h1

/-! ## the patched ordering -/

theorem getD_cons_eraseIdx_perm {α : Type} (d : α) (l : List α) (k : Nat) (hk : k < l.length) :
    (l.getD k d :: l.eraseIdx k).Perm l := by
  induction l generalizing k with
  | nil => simp at hk
  | cons x xs ih =>
    cases k with
    | zero => simp
    | succ k =>
      simp only [List.getD_cons_succ, List.eraseIdx_cons_succ]
      have := ih k (by simpa using hk)
      exact (List.Perm.swap x _ _).trans (List.Perm.cons x this)

theorem getD_mem {α : Type} (d : α) (l : List α) (k : Nat) (hk : k < l.length) : l.getD k d ∈ l :=
  (getD_cons_eraseIdx_perm d l k hk).mem_iff.1 (by simp)

theorem mapExcept_length {α β : Type} (f : α → Except Err β) (l : List α) (r : List β)
    (h : mapExcept f l = .ok r) : r.length = l.length := by
  induction l generalizing r with
  | nil => simp [mapExcept] at h; subst h; rfl
  | cons x xs ih =>
    simp only [mapExcept, bind, Except.bind] at h
    split at h
    · exact absurd h (by simp)
    · rename_i y hy
      split at h
      · exact absurd h (by simp)
      · rename_i ys hys
        simp only [pure, Except.pure, Except.ok.injEq] at h
        subst h
        simp [ih ys hys]

theorem argminAux_lt (ds : List Mpf) (i best : Nat) (bd : Mpf) (h : best < i) :
    argminAux ds i best bd < i + ds.length := by
  induction ds generalizing i best bd with
  | nil => simpa [argminAux] using h
  | cons d ds ih =>
    simp only [argminAux, List.length_cons]
    split
    · have := ih (i + 1) i d (by omega); omega
    · have := ih (i + 1) best bd (by omega); omega

theorem argmin_lt (ds : List Mpf) (h : ds ≠ []) : argmin ds < ds.length := by
  cases ds with
  | nil => exact absurd rfl h
  | cons d ds =>
    simp only [argmin, List.length_cons]
    have := argminAux_lt ds 1 0 d (by omega)
    omega

theorem indexFrom_map_snd {α : Type} (k : Nat) (l : List α) : (indexFrom k l).map (·.2) = l := by
  induction l generalizing k with
  | nil => rfl
  | cons x xs ih => simp [indexFrom, ih]

theorem indexFrom_filter_map {α : Type} (p : α → Bool) (k : Nat) (l : List α) :
    ((indexFrom k l).filter (fun r => p r.2)).map (·.2) = l.filter p := by
  induction l generalizing k with
  | nil => rfl
  | cons x xs ih =>
    simp only [indexFrom, List.filter_cons]
    split <;> simp [ih]

/-- the pairing loop returns a permutation of `upper ++ lower` -/
theorem pairUp_perm (wp : Int) (us lower : List (Nat × Root)) (out : List Root)
    (h : pairUp wp us lower = .ok out) : out.Perm ((us ++ lower).map (·.2)) := by
  induction us generalizing lower out with
  | nil => simp [pairUp] at h; subst h; simp
  | cons u us ih =>
    cases lower with
    | nil => simp [pairUp] at h; subst h; simp
    | cons l ls =>
      simp only [pairUp] at h
      split at h
      · exact absurd h (by simp)
      · rename_i ds hds
        split at h
        · exact absurd h (by simp)
        · rename_i rest hrest
          simp only [Except.ok.injEq] at h
          have hlen := mapExcept_length _ _ _ hds
          have hk : argmin ds < (l :: ls).length := by
            rw [← hlen]; apply argmin_lt; intro h0; rw [h0] at hlen; simp at hlen
          have h1 := ih _ _ hrest
          have h2 := getD_cons_eraseIdx_perm u (l :: ls) (argmin ds) hk
          have hmain : (u.2 :: ((l :: ls).getD (argmin ds) u).2 :: rest).Perm
              (((u :: us) ++ (l :: ls)).map (·.2)) := by
            have h3 : (u :: ((l :: ls).getD (argmin ds) u) :: (us ++ (l :: ls).eraseIdx (argmin ds))).Perm
                ((u :: us) ++ (l :: ls)) := by
              refine List.Perm.cons u ?_
              refine List.perm_middle.symm.trans ?_
              exact List.Perm.append_left us h2
            have h4 := h3.map (·.2)
            simp only [List.map_cons] at h4
            exact (List.Perm.cons _ (List.Perm.cons _ h1)).trans h4
          subst h
          split
          · exact (List.Perm.swap _ _ _).trans hmain
          · exact hmain

/-- with as many upper as lower roots the pairing loop output is a sequence of pairs of opposite half planes -/
theorem pairUp_opposite (wp : Int) (us lower : List (Nat × Root)) (out : List Root)
    (h : pairUp wp us lower = .ok out) (hlen : us.length = lower.length)
    (hu : ∀ r ∈ us, mpfPos r.2.imag = true) (hl : ∀ r ∈ lower, mpfPos r.2.imag = false) :
    oppositePairs out = true := by
  induction us generalizing lower out with
  | nil =>
    cases lower with
    | nil => simp [pairUp] at h; subst h; rfl
    | cons l ls => simp at hlen
  | cons u us ih =>
    cases lower with
    | nil => simp at hlen
    | cons l ls =>
      simp only [pairUp] at h
      split at h
      · exact absurd h (by simp)
      · rename_i ds hds
        split at h
        · exact absurd h (by simp)
        · rename_i rest hrest
          simp only [Except.ok.injEq] at h
          have hlen' := mapExcept_length _ _ _ hds
          have hk : argmin ds < (l :: ls).length := by
            rw [← hlen']; apply argmin_lt; intro h0; rw [h0] at hlen'; simp at hlen'
          have h1 := ih ((l :: ls).eraseIdx (argmin ds)) rest hrest
            (by rw [List.length_eraseIdx_of_lt hk]; simp at hlen ⊢; omega)
            (fun r hr => hu r (by simp [hr]))
            (fun r hr => hl r (List.mem_of_mem_eraseIdx hr))
          have hU := hu u (by simp)
          have hL := hl _ (getD_mem u _ _ hk)
          subst h
          split
          · simp only [oppositePairs, hU, hL, h1]; decide
          · simp only [oppositePairs, hU, hL, h1]; decide

/-- **patched order, permutation**: no root is lost or duplicated -/
theorem polyrootsOrderPatched_perm (wp : Int) (roots out : List Root)
    (h : polyrootsOrderPatched wp roots = .ok out) : out.Perm roots := by
  unfold polyrootsOrderPatched at h
  simp only at h
  split at h
  · exact absurd h (by simp)
  · rename_i paired hp
    simp only [Except.ok.injEq] at h
    subst h
    have h1 := pairUp_perm _ _ _ _ hp
    rw [List.map_append] at h1
    have e1 := indexFrom_filter_map (fun r : Root => mpfPos r.imag) 0 (polyrootsOrder wp roots)
    rw [List.filter_filter, List.filter_filter] at h1
    have hU := indexFrom_filter_map (fun r : Root => mpfPos r.imag && !(r.imag == fzero)) 0 (polyrootsOrder wp roots)
    have hL := indexFrom_filter_map (fun r : Root => !mpfPos r.imag && !(r.imag == fzero)) 0 (polyrootsOrder wp roots)
    rw [hU, hL] at h1
    refine (List.Perm.append_left _ h1).trans ?_
    rw [← List.filter_filter, ← List.filter_filter]
    refine (List.Perm.append_left _ (List.filter_append_perm _ _)).trans ?_
    exact (List.filter_append_perm _ _).trans (polyrootsOrder_perm wp roots)

/-- **patched order, shape**: the output is the real roots (in the order of the existing sort, hence sorted
by value) followed by the paired block, which contains no real root; and when the numbers of roots with
positive and with non-positive nonzero imaginary part agree, the block is a sequence of pairs each made
of one root of the upper and one of the lower half plane.  No hypothesis on the imaginary parts being
distinct or equal is needed. -/
theorem polyrootsOrderPatched_shape (wp : Int) (roots out : List Root)
    (h : polyrootsOrderPatched wp roots = .ok out) :
    ∃ paired, out = (polyrootsOrder wp roots).filter (fun r => r.imag == fzero) ++ paired ∧
      (∀ r ∈ paired, r.imag ≠ fzero) ∧
      (((roots.filter (fun r => !(r.imag == fzero))).filter (fun r => mpfPos r.imag)).length =
        ((roots.filter (fun r => !(r.imag == fzero))).filter (fun r => !mpfPos r.imag)).length →
        oppositePairs paired = true) := by
  unfold polyrootsOrderPatched at h
  simp only at h
  split at h
  · exact absurd h (by simp)
  · rename_i paired hp
    simp only [Except.ok.injEq] at h
    subst h
    have hU := indexFrom_filter_map (fun r : Root => mpfPos r.imag && !(r.imag == fzero)) 0 (polyrootsOrder wp roots)
    have hL := indexFrom_filter_map (fun r : Root => !mpfPos r.imag && !(r.imag == fzero)) 0 (polyrootsOrder wp roots)
    refine ⟨paired, rfl, ?_, ?_⟩
    · intro r hr
      have := (pairUp_perm _ _ _ _ hp).mem_iff.1 hr
      rw [List.mem_map] at this
      obtain ⟨x, hx, rfl⟩ := this
      rw [List.mem_append] at hx
      rcases hx with h | h
      · have := (List.mem_filter.1 (List.mem_filter.1 h).1).2
        simpa using this
      · have := (List.mem_filter.1 (List.mem_filter.1 h).1).2
        simpa using this
    · intro hlen
      have hperm := polyrootsOrder_perm wp roots
      apply pairUp_opposite _ _ _ _ hp
      · have e1 := congrArg List.length hU
        have e2 := congrArg List.length hL
        rw [List.length_map] at e1 e2
        rw [List.filter_filter, List.filter_filter, e1, e2]
        rw [List.filter_filter, List.filter_filter] at hlen
        rw [(hperm.filter _).length_eq, (hperm.filter _).length_eq]
        exact hlen
      · intro r hr; exact (List.mem_filter.1 hr).2
      · intro r hr; simpa using (List.mem_filter.1 hr).2

/-! ## witness data (D13) -/

/-- complex root from raw components -/
def C29c (re im : Mpf) : Root := ⟨true, re, im⟩

/-- the six roots held by `polyroots([1,-4,5,0,4,-16,20])` (= (x²−2x+2)(x²+2x+2)(x²−4x+5)) at 53 bits
just before the sort, at the working precision 63: `2−i, 1−i, 1+i, −1−i, −1+i, 2+(1−2⁻⁶²)i` -/
def C29d13 : List Root :=
  [C29c ftwo fnone, C29c fone fnone, C29c fone fone, C29c fnone fnone, C29c fnone fone,
   C29c ftwo ⟨0, 4611686018427387903, -62, 62⟩]

/-- what `polyroots` returns for them: `2+i, −1−i, −1+i, 1−i, 1+i, 2−i` -/
def C29d13Out : List Root :=
  [C29c ftwo fone, C29c fnone fnone, C29c fnone fone, C29c fone fnone, C29c fone fone, C29c ftwo fnone]

end RootCert
end Mp
