/-
  MpProofs/IntervalPow.lean — interval integer powers `mpi_pow_int` (nonnegative exponents) contain `x^n` for every `x` of the
  input interval: the endpoints are `mpf_pow_int` with round_floor / round_ceiling, and `mpf_pow_int` never rounds past the exact
  power (`PowOK.side`, the C03 theorem).  Odd exponents are monotone; even exponents are monotone in `|x|`.
-/
import MpProofs.Pow
import MpProofs.IntervalMore
import MpProofs.IntervalDiv
import Mathlib.Algebra.Order.Ring.Abs
import Mathlib.Algebra.Order.Ring.Basic

namespace Mp

/-- a nonnegative integer power with a directed rounding: a canonical value on the requested side of the exact power -/
theorem pow_nat_dir {s : Mpf} (hs : CanonFin s) (n : ℕ) {prec : ℤ} (hp : 0 < prec) (rnd : Rnd) :
    ∃ r, mpf_pow_int s n prec rnd = .ok r ∧ CanonFin r ∧ OnSide rnd (val s ^ n) (val r) := by
  have hP := powIntPos_spec hs n hp rnd
  refine ⟨powIntPos s n prec rnd, ?_, hP.canon, hP.side⟩
  unfold mpf_pow_int
  simp only [hs.finite, Bool.false_eq_true, if_false, ge_iff_le, Int.natCast_nonneg, if_true, Int.toNat_natCast]

theorem pow_le_pow_of_abs_le {x y : ℚ} (h : |x| ≤ y) {n : ℕ} (hn : Even n) : x ^ n ≤ y ^ n := by
  rw [← Even.pow_abs hn x]
  exact pow_le_pow_left₀ (abs_nonneg x) h n

/-- **integer powers of intervals** (`n ≥ 0`): the result contains `x^n` for every `x` of the interval -/
theorem mpiPowNat_sound {s : Mpi} (hs : FinIv s) (n : ℕ) {prec : ℤ} (hp : 0 < prec) {x : ℚ} (hx : MemIv x s) :
    ∃ r, mpiPowNat s n prec = .ok r ∧ FinIv r ∧ MemIv (x ^ n) r := by
  obtain ⟨ha, hb, hab⟩ := hs
  obtain ⟨hx1, hx2⟩ := hx
  unfold mpiPowNat
  simp only
  by_cases h0 : n = 0
  · subst h0
    refine ⟨(fone, fone), by simp, ⟨Or.inr ⟨by decide, by decide, by decide⟩, Or.inr ⟨by decide, by decide, by decide⟩, le_refl _⟩, ?_⟩
    simp [MemIv, val_fone]
  rw [if_neg h0]
  by_cases h1 : n = 1
  · subst h1
    exact ⟨s, by simp, ⟨ha, hb, hab⟩, by simpa [MemIv] using ⟨hx1, hx2⟩⟩
  rw [if_neg h1]
  by_cases h2 : n = 2
  · subst h2
    obtain ⟨f, m⟩ := mpi_square_sound ⟨ha, hb, hab⟩ hp.le ⟨hx1, hx2⟩
    refine ⟨_, by simp, f, ?_⟩
    rwa [pow_two]
  rw [if_neg h2]
  by_cases hodd : n % 2 = 1
  · -- odd exponent: x ↦ x^n is monotone
    rw [if_pos hodd]
    have hO : Odd n := Nat.odd_iff.2 hodd
    obtain ⟨ra, ea, ca, sa⟩ := pow_nat_dir ha n hp .f
    obtain ⟨rb, eb, cb, sb⟩ := pow_nat_dir hb n hp .c
    have m1 : val s.1 ^ n ≤ x ^ n := hO.pow_le_pow.2 hx1
    have m2 : x ^ n ≤ val s.2 ^ n := hO.pow_le_pow.2 hx2
    simp only [OnSide] at sa sb
    refine ⟨(ra, rb), by simp [ea, eb]; rfl, ⟨ca, cb, by show val ra ≤ val rb; linarith⟩, ?_, ?_⟩
    · show val ra ≤ x ^ n; linarith
    · show x ^ n ≤ val rb; linarith
  · rw [if_neg hodd]
    have hE : Even n := Nat.even_iff.2 (by omega)
    by_cases hs1 : mpf_sign s.1 ≥ 0
    · -- nonnegative interval
      rw [if_pos hs1]
      have ha0 : 0 ≤ val s.1 := (mpf_sign_nonneg_iff ha).1 hs1
      obtain ⟨ra, ea, ca, sa⟩ := pow_nat_dir ha n hp .f
      obtain ⟨rb, eb, cb, sb⟩ := pow_nat_dir hb n hp .c
      have hx0 : 0 ≤ x := by linarith
      have m1 : val s.1 ^ n ≤ x ^ n := pow_le_pow_left₀ ha0 hx1 n
      have m2 : x ^ n ≤ val s.2 ^ n := pow_le_pow_left₀ hx0 hx2 n
      simp only [OnSide] at sa sb
      refine ⟨(ra, rb), by simp [ea, eb]; rfl, ⟨ca, cb, by show val ra ≤ val rb; linarith⟩, ?_, ?_⟩
      · show val ra ≤ x ^ n; linarith
      · show x ^ n ≤ val rb; linarith
    · rw [if_neg hs1]
      have ha0 : val s.1 < 0 := by
        by_contra h; exact hs1 ((mpf_sign_nonneg_iff ha).2 (not_lt.1 h))
      by_cases hs2 : mpf_sign s.2 ≤ 0
      · -- nonpositive interval: x^n decreases
        rw [if_pos hs2]
        have hb0 : val s.2 ≤ 0 := by
          rcases mpf_sign_cases hb with ⟨h, _⟩ | ⟨h, _⟩ | ⟨_, h⟩
          · exact h.le
          · exact h.le
          · omega
        obtain ⟨ra, ea, ca, sa⟩ := pow_nat_dir hb n hp .f
        obtain ⟨rb, eb, cb, sb⟩ := pow_nat_dir ha n hp .c
        have m1 : val s.2 ^ n ≤ x ^ n := by
          rw [← Even.neg_pow hE (val s.2), ← Even.neg_pow hE x]
          exact pow_le_pow_left₀ (by linarith) (by linarith) n
        have m2 : x ^ n ≤ val s.1 ^ n := by
          rw [← Even.neg_pow hE (val s.1), ← Even.neg_pow hE x]
          exact pow_le_pow_left₀ (by linarith) (by linarith) n
        simp only [OnSide] at sa sb
        refine ⟨(ra, rb), by simp [ea, eb]; rfl, ⟨ca, cb, by show val ra ≤ val rb; linarith⟩, ?_, ?_⟩
        · show val ra ≤ x ^ n; linarith
        · show x ^ n ≤ val rb; linarith
      · -- the interval straddles zero: [0, max(-a, b)^n]
        rw [if_neg hs2]
        obtain ⟨hnc, hnv⟩ := val_mpf_neg_exact ha
        have hge := mpf_ge_spec hnc hb
        have hx0 : 0 ≤ x ^ n := hE.pow_nonneg x
        by_cases hg : mpf_ge (mpf_neg s.1) s.2 = true
        · rw [if_pos hg]
          rw [hge, decide_eq_true_eq, hnv] at hg
          obtain ⟨rb, eb, cb, sb⟩ := pow_nat_dir hnc n hp .c
          simp only [OnSide] at sb
          have m : x ^ n ≤ val (mpf_neg s.1) ^ n := by
            apply pow_le_pow_of_abs_le _ hE
            rw [hnv, abs_le]; constructor <;> linarith
          refine ⟨(fzero, rb), by simp [eb], ⟨canonFin_fzero, cb, by show val fzero ≤ val rb; rw [val_fzero]; linarith⟩, ?_, ?_⟩
          · show val fzero ≤ x ^ n; rw [val_fzero]; exact hx0
          · show x ^ n ≤ val rb; linarith
        · rw [if_neg hg]
          rw [hge, decide_eq_true_eq, hnv] at hg
          push Not at hg
          obtain ⟨rb, eb, cb, sb⟩ := pow_nat_dir hb n hp .c
          simp only [OnSide] at sb
          have m : x ^ n ≤ val s.2 ^ n := by
            apply pow_le_pow_of_abs_le _ hE
            rw [abs_le]; constructor <;> linarith
          refine ⟨(fzero, rb), by simp [eb], ⟨canonFin_fzero, cb, by show val fzero ≤ val rb; rw [val_fzero]; linarith⟩, ?_, ?_⟩
          · show val fzero ≤ x ^ n; rw [val_fzero]; exact hx0
          · show x ^ n ≤ val rb; linarith

/-- **negative integer powers of intervals**: `1 / s^n` with the power taken at `prec + 20`; whenever the power interval
excludes zero (the implementation divides by it), the result contains `x^(-n)` for every `x` of the interval -/
theorem mpi_pow_int_neg_sound {s : Mpi} (hs : FinIv s) {n : ℕ} (hn : 0 < n) {prec : ℤ} (hp : 0 < prec) {x : ℚ}
    (hx : MemIv x s) :
    ∃ p, mpiPowNat s n (prec + 20) = .ok p ∧ FinIv p ∧ MemIv (x ^ n) p ∧
      ((0 < val p.1 ∨ val p.2 < 0) →
        ∃ r, mpi_pow_int s (-(n : ℤ)) prec = .ok r ∧ FinIv r ∧ MemIv ((x ^ n)⁻¹) r) := by
  obtain ⟨p, hpow, hfin, hmem⟩ := mpiPowNat_sound hs n (by omega : (0 : ℤ) < prec + 20) hx
  refine ⟨p, hpow, hfin, hmem, fun h0 => ?_⟩
  have h1 : FinIv (fone, fone) :=
    ⟨Or.inr ⟨by decide, by decide, by decide⟩, Or.inr ⟨by decide, by decide, by decide⟩, le_refl _⟩
  have m1 : MemIv 1 (fone, fone) := by simp [MemIv, val_fone]
  have hdiv : ∃ r, mpi_div (fone, fone) p prec = .ok r ∧ FinIv r ∧ MemIv (1 / x ^ n) r := by
    rcases h0 with h | h
    · exact mpi_div_pos_sound h1 hfin h hp m1 hmem
    · exact mpi_div_neg_sound h1 hfin h hp m1 hmem
  obtain ⟨r, hr, hf, hm⟩ := hdiv
  refine ⟨r, ?_, hf, by rwa [one_div] at hm⟩
  unfold mpi_pow_int
  have hneg : -(n : ℤ) < 0 := by omega
  simp only [hneg, if_true, neg_neg, Int.toNat_natCast, hpow]
  exact hr

/-- `mpi_pow_int` with a nonnegative exponent is `mpiPowNat` -/
theorem mpi_pow_int_natCast (s : Mpi) (n : ℕ) (prec : ℤ) : mpi_pow_int s (n : ℤ) prec = mpiPowNat s n prec := by
  unfold mpi_pow_int
  have : ¬ ((n : ℤ) < 0) := by omega
  simp only [this, if_false, Int.toNat_natCast]

end Mp
