/-
  MpProofs/PrecConvRoundtrip.lean — `prec_to_dps (dps_to_prec d) = d` by kernel evaluation of the
  binary64 model, over a range split in halves (recursion depth = log₂ of the range).
  Cost: about 10 ms per value in the kernel, hence the modest bound here; the harness
  (`harness/prec_dynamic.py --conv`) checks the same identity on CPython and the agreement of the
  model with CPython exhaustively up to 10^6.
-/
import MpModel.PrecConv

namespace Mp

def rtOK (d : Nat) : Bool := precToDps (dpsToPrec d) == (d : Int)

/-- checks `rtOK` on `lo ≤ d < lo + 2^k` -/
def rtRange : Nat → Nat → Bool
  | 0, lo => rtOK lo
  | k+1, lo => rtRange k lo && rtRange k (lo + 2 ^ k)

theorem rtRange_sound : ∀ k lo, rtRange k lo = true → ∀ d, lo ≤ d → d < lo + 2 ^ k → rtOK d = true := by
  intro k
  induction k with
  | zero =>
    intro lo h d h1 h2
    have : d = lo := by simp at h2; omega
    subst this; exact h
  | succ k ih =>
    intro lo h d h1 h2
    simp only [rtRange, Bool.and_eq_true] at h
    by_cases hd : d < lo + 2 ^ k
    · exact ih lo h.1 d h1 hd
    · refine ih (lo + 2 ^ k) h.2 d (by omega) ?_
      have : 2 ^ (k + 1) = 2 ^ k + 2 ^ k := by rw [Nat.pow_succ]; omega
      omega

theorem rtRange_10 : rtRange 10 1 = true := by decide +kernel

/-- `prec_to_dps(dps_to_prec(d)) == d` for every `1 ≤ d ≤ 1024` (binary64 model). -/
theorem precToDps_dpsToPrec (d : Nat) (h1 : 1 ≤ d) (h2 : d ≤ 1024) :
    precToDps (dpsToPrec d) = d := by
  have := rtRange_sound 10 1 rtRange_10 d h1 (by omega)
  simpa [rtOK] using this

end Mp
