/-
  MpProofs/CalcLogicA.lean — theorems about the pure logic of mpmath's calculus package modelled in
  `MpModel/CalcLogicA.lean`: forward differences (`difference`), Richardson extrapolation weights
  (`richardson`) and the index-range standardisation of `nsum`.
-/
import MpModel.CalcLogicA
import Mathlib.Algebra.Group.ForwardDiff
import Mathlib.Algebra.BigOperators.Intervals
import Mathlib.Algebra.Order.BigOperators.Group.Finset
import Mathlib.Data.Nat.Choose.Sum
import Mathlib.Data.Nat.Factorial.Basic
import Mathlib.Data.Rat.Defs
import Mathlib.Order.Interval.Finset.Nat
import Mathlib.Data.Int.Interval
import Mathlib.Algebra.Order.Group.Int
import Mathlib.Algebra.Order.Field.Rat
import Mathlib.Tactic.Ring
import Mathlib.Tactic.FieldSimp
import Mathlib.Tactic.Linarith
import Mathlib.Tactic.NormNum

namespace Mp.Calc
open Finset

/-! ## (a) `difference` -/

/-- the closed form of the `k`-th weight of `difference(s, n)` -/
def diffW (n k : ℕ) : ℤ := (-1) ^ (n - k) * (n.choose k : ℤ)

theorem diffInit_eq (n : ℕ) : diffInit n = diffW n 0 := by
  unfold diffInit diffW
  rw [Nat.and_one_is_mod, Nat.choose_zero_right, Nat.cast_one, mul_one, Nat.sub_zero]
  rcases Nat.mod_two_eq_zero_or_one n with h | h
  · rw [h, pow_zero, Even.neg_one_pow (Nat.even_iff.mpr h)]
  · rw [h, pow_one, Odd.neg_one_pow (Nat.odd_iff.mpr h)]

/-- one step of the weight recurrence stays on the closed form; the floor division is exact -/
theorem diffStep_eq (n k : ℕ) (hk : k ≤ n) : diffStep n (diffW n k) k = diffW n (k + 1) := by
  unfold diffStep
  have hc : ((n.choose (k + 1) : ℤ)) * ((k : ℤ) + 1) = (n.choose k : ℤ) * ((n : ℤ) - k) := by
    have := Nat.choose_succ_right_eq n k
    have h2 : ((n - k : ℕ) : ℤ) = (n : ℤ) - k := by omega
    rw [← h2]; exact_mod_cast this
  have key : diffW n k * ((k : ℤ) - n) = diffW n (k + 1) * ((k : ℤ) + 1) := by
    unfold diffW
    rcases Nat.eq_or_lt_of_le hk with rfl | hlt
    · simp
    · have hs : (-1 : ℤ) ^ (n - k) = -((-1) ^ (n - (k + 1))) := by
        have : n - k = (n - (k + 1)) + 1 := by omega
        rw [this, pow_succ]; ring
      rw [hs, mul_assoc (_ ^ _), hc]; ring
  rw [key]
  exact Int.mul_fdiv_cancel _ (by omega)

theorem diffWeightsAux_eq (n : ℕ) : ∀ (fuel k : ℕ), k + fuel = n + 1 →
    diffWeightsAux n fuel k (diffW n k) = (List.range' k fuel).map (diffW n) := by
  intro fuel
  induction fuel with
  | zero => intro k _; rfl
  | succ fuel ih =>
    intro k hk
    rw [diffWeightsAux, List.range'_succ, List.map_cons, diffStep_eq n k (by omega),
      ih (k + 1) (by omega)]

/-- The list of weights used by `difference(s, n)` is `[(-1)^(n-k) * C(n,k) : k = 0..n]`. -/
theorem diffWeights_eq_map (n : ℕ) :
    diffWeights n = (List.range (n + 1)).map fun k => (-1 : ℤ) ^ (n - k) * (n.choose k : ℤ) := by
  unfold diffWeights
  rw [diffInit_eq, diffWeightsAux_eq n (n + 1) 0 (by omega), List.range_eq_range']
  rfl

/-- `diffWeights_eq`: the `k`-th weight `b` used by `difference(s, n)` (`k ≤ n`) is
`(-1)^(n-k) * C(n,k)`; in particular every floor division `(b*(k-n)) // (k+1)` is exact. -/
theorem diffWeights_eq (n k : ℕ) (hk : k ≤ n) :
    (diffWeights n)[k]? = some ((-1 : ℤ) ^ (n - k) * (n.choose k : ℤ)) := by
  rw [diffWeights_eq_map, List.getElem?_map, List.getElem?_range (by omega)]
  rfl

example : (diffWeights 5)[2]? = some ((-1 : ℤ) ^ (5 - 2) * (Nat.choose 5 2 : ℤ)) :=
  diffWeights_eq 5 2 (by decide)
example : diffWeights 5 = [-1, 5, -10, 10, -5, 1] := by decide

theorem diffWeights_length (n : ℕ) : (diffWeights n).length = n + 1 := by
  rw [diffWeights_eq_map]; simp

theorem differenceAux_eq (s : ℕ → ℚ) (n : ℕ) : ∀ (fuel k : ℕ) (d : ℚ), k + fuel = n + 1 →
    differenceAux s n fuel k (diffW n k) d
      = d + ∑ i ∈ range fuel, ((diffW n (k + i) : ℤ) : ℚ) * s (k + i) := by
  intro fuel
  induction fuel with
  | zero => intro k d _; simp [differenceAux]
  | succ fuel ih =>
    intro k d hk
    rw [differenceAux, diffStep_eq n k (by omega), ih (k + 1) _ (by omega), sum_range_succ',
      add_assoc]
    congr 1
    rw [add_comm]
    simp only [Nat.add_zero, Nat.add_assoc, Nat.add_comm 1]

/-- `difference_spec`: `difference(s, n)` in exact arithmetic is the `n`-th forward difference
`∑_{k=0}^{n} (-1)^(n-k) C(n,k) s_k`. -/
theorem difference_spec (s : ℕ → ℚ) (n : ℕ) :
    difference s n = ∑ k ∈ range (n + 1), (-1 : ℚ) ^ (n - k) * (n.choose k : ℚ) * s k := by
  unfold difference
  rw [diffInit_eq, differenceAux_eq s n (n + 1) 0 0 (by omega), zero_add]
  refine sum_congr rfl fun k _ => ?_
  simp [diffW]

example : difference (fun k => (k : ℚ) ^ 2) 2 = 2 := by
  rw [difference_spec]; norm_num [sum_range_succ, Nat.choose]
example : difference (fun k => (k : ℚ) ^ 2) 2 = 2 := by decide +kernel

/-- `difference(s, n)` is the iterated Mathlib forward difference `Δ_[1]^[n]` at `0`. -/
theorem difference_eq_fwdDiff (s : ℕ → ℚ) (n : ℕ) :
    difference s n = (fwdDiff 1)^[n] s 0 := by
  rw [difference_spec, fwdDiff_iter_eq_sum_shift]
  refine sum_congr rfl fun k _ => ?_
  simp [zsmul_eq_mul]

/-! ## (c) `nsum` index-range standardisation -/

/-- a sum over an integer window `[a, a+n]` as a sum over `range (n+1)` -/
theorem sum_Icc_int (f : ℤ → ℚ) (a : ℤ) (n : ℕ) :
    ∑ j ∈ Icc a (a + n), f j = ∑ i ∈ range (n + 1), f (a + i) := by
  induction n with
  | zero => simp
  | succ n ih =>
    have h : Icc a (a + ((n + 1 : ℕ) : ℤ)) = insert (a + ((n + 1 : ℕ) : ℤ)) (Icc a (a + n)) := by
      ext x; simp only [mem_Icc, mem_insert]; omega
    rw [h, sum_insert (by simp), ih, sum_range_succ _ (n + 1), add_comm]

theorem sumFrom_eq (f : ℤ → ℚ) : ∀ (cnt : ℕ) (a : ℤ) (s : ℚ),
    sumFrom f cnt a s = s + ∑ i ∈ range cnt, f (a + i) := by
  intro cnt
  induction cnt with
  | zero => intro a s; simp [sumFrom]
  | succ cnt ih =>
    intro a s
    have h : ∀ i : ℕ, f (a + 1 + i) = f (a + ((i + 1 : ℕ) : ℤ)) := fun i => by
      congr 1; push_cast; ring
    rw [sumFrom, ih, sum_range_succ', add_assoc]
    simp only [h, Nat.cast_zero, add_zero]
    rw [add_comm (f a)]

theorem sumNat_eq (t : ℕ → ℚ) : ∀ (cnt k : ℕ) (s : ℚ),
    sumNat t cnt k s = s + ∑ i ∈ range cnt, t (k + i) := by
  intro cnt
  induction cnt with
  | zero => intro k s; simp [sumNat]
  | succ cnt ih =>
    intro k s
    rw [sumNat, ih, sum_range_succ', add_assoc]
    congr 1
    rw [add_comm]
    simp only [Nat.add_zero, Nat.add_assoc, Nat.add_comm 1]

/-- `stdTerm_fin`: for a finite range the standardised "term" is the exact finite sum over
`[a, b]` (the empty sum when `b < a`), independently of `k`. -/
theorem stdTerm_fin (a b : ℤ) (f : ℤ → ℚ) (k : ℕ) :
    stdTerm (.fin a b) f k = ∑ j ∈ Icc a b, f j := by
  show (if b < a then 0 else foldFinite1 f a b) = _
  split
  · rename_i h; rw [Icc_eq_empty (by omega), sum_empty]
  · rename_i h
    have hb : b = a + ((b - a).toNat : ℤ) := by omega
    have hc : (b + 1 - a).toNat = (b - a).toNat + 1 := by omega
    rw [show foldFinite1 f a b = sumFrom f (b + 1 - a).toNat a 0 from rfl, sumFrom_eq, zero_add, hc, ← sum_Icc_int, ← hb]

example : stdTerm (.fin (-1) 3) (fun j => (j : ℚ) ^ 2) 0 = 15 := by decide +kernel
example : stdTerm (.fin 3 1) (fun j => (j : ℚ) ^ 2) 0 = 0 := by decide +kernel

/-- `stdTerm_partial_sum` for `[a, +inf)`: the first `n+1` standardised terms are exactly the
terms with index in `[a, a+n]`. -/
theorem stdTerm_partial_sum_toInf (a : ℤ) (f : ℤ → ℚ) (n : ℕ) :
    ∑ k ∈ range (n + 1), stdTerm (.toInf a) f k = ∑ j ∈ Icc a (a + n), f j := by
  rw [sum_Icc_int]
  refine sum_congr rfl fun k _ => ?_
  simp only [stdTerm, add_comm]

/-- `stdTerm_partial_sum` for `(-inf, b]`: the first `n+1` standardised terms are exactly the
terms with index in `[b-n, b]`. -/
theorem stdTerm_partial_sum_fromNegInf (b : ℤ) (f : ℤ → ℚ) (n : ℕ) :
    ∑ k ∈ range (n + 1), stdTerm (.fromNegInf b) f k = ∑ j ∈ Icc (b - n) b, f j := by
  have h := sum_Icc_int f (b - n) n
  rw [sub_add_cancel] at h
  rw [h, ← sum_range_reflect]
  refine sum_congr rfl fun k hk => ?_
  have hk' : k ≤ n := by have := mem_range.mp hk; omega
  simp only [stdTerm]
  congr 1
  have : ((n + 1 - 1 - k : ℕ) : ℤ) = (n : ℤ) - k := by omega
  rw [this]; ring

/-- `stdTerm_partial_sum` for `(-inf, +inf)`: the first `n+1` standardised terms are exactly the
terms with index in `[-n, n]`, each index once. -/
theorem stdTerm_partial_sum_all (f : ℤ → ℚ) (n : ℕ) :
    ∑ k ∈ range (n + 1), stdTerm .all f k = ∑ j ∈ Icc (-(n : ℤ)) n, f j := by
  induction n with
  | zero => simp [stdTerm]
  | succ n ih =>
    have h : Icc (-((n + 1 : ℕ) : ℤ)) ((n + 1 : ℕ) : ℤ)
        = insert ((n + 1 : ℕ) : ℤ) (insert (-((n + 1 : ℕ) : ℤ)) (Icc (-(n : ℤ)) n)) := by
      ext x; simp only [mem_Icc, mem_insert]; omega
    rw [sum_range_succ, ih, h, sum_insert (by simp only [mem_insert, mem_Icc]; omega),
      sum_insert (by simp only [mem_Icc]; omega)]
    simp only [stdTerm, ne_eq, Nat.add_one_ne_zero, not_false_eq_true, if_true]
    ring

/-- `stdTerm_partial_sum`: for each infinite shape the standardised series enumerates exactly the
original index set, each index once (statement for the three shapes at once). -/
theorem stdTerm_partial_sum (f : ℤ → ℚ) (n : ℕ) :
    (∀ a, ∑ k ∈ range (n + 1), stdTerm (.toInf a) f k = ∑ j ∈ Icc a (a + n), f j) ∧
    (∀ b, ∑ k ∈ range (n + 1), stdTerm (.fromNegInf b) f k = ∑ j ∈ Icc (b - n) b, f j) ∧
    (∑ k ∈ range (n + 1), stdTerm .all f k = ∑ j ∈ Icc (-(n : ℤ)) n, f j) :=
  ⟨fun a => stdTerm_partial_sum_toInf a f n, fun b => stdTerm_partial_sum_fromNegInf b f n,
    stdTerm_partial_sum_all f n⟩

example : ∑ k ∈ range 3, stdTerm .all (fun j => (j : ℚ) ^ 3 + 1) k = 5 := by
  rw [stdTerm_partial_sum_all]; decide +kernel

theorem shell_eq (f : ℕ → ℕ → ℚ) (n : ℕ) :
    shell f n = ∑ x ∈ range (n + 1), f x n + ∑ y ∈ range n, f n y := by
  unfold shell
  rw [sumNat_eq, sumNat_eq]
  simp

/-- `shell_partial_sum`: the shells `max(x,y) = n` of `fold_infinite` partition `ℕ × ℕ`: the sum
of the first `N+1` shells is the sum over the square `[0,N] × [0,N]`. -/
theorem shell_partial_sum (f : ℕ → ℕ → ℚ) (N : ℕ) :
    ∑ n ∈ range (N + 1), shell f n = ∑ x ∈ range (N + 1), ∑ y ∈ range (N + 1), f x y := by
  induction N with
  | zero => simp [shell_eq]
  | succ N ih =>
    rw [sum_range_succ, ih, shell_eq, sum_range_succ (fun x => ∑ y ∈ range (N + 1 + 1), f x y)]
    simp only [sum_range_succ _ (N + 1), sum_add_distrib]
    ring

example : ∑ n ∈ range 3, shell (fun x y => (10 * x + y : ℚ)) n = 99 := by decide +kernel

theorem foldl_add_eq_sum {α : Type} (g : α → ℚ) : ∀ (l : List α) (s : ℚ),
    l.foldl (fun s x => s + g x) s = s + (l.map g).sum := by
  intro l
  induction l with
  | nil => intro s; simp
  | cons a l ih => intro s; rw [List.foldl_cons, ih, List.map_cons, List.sum_cons, add_assoc]

theorem list_range_map_sum (h : ℕ → ℚ) (n : ℕ) :
    ((List.range n).map h).sum = ∑ i ∈ range n, h i := by
  induction n with
  | zero => simp
  | succ n ih => rw [List.range_succ, List.map_append, List.sum_append, ih, sum_range_succ]; simp

theorem xrangeList_map_sum (g : ℤ → ℚ) (a b : ℤ) (hab : a ≤ b) :
    ((xrangeList a b).map g).sum = ∑ j ∈ Icc a b, g j := by
  have hb : b = a + ((b - a).toNat : ℤ) := by omega
  have hc : (b + 1 - a).toNat = (b - a).toNat + 1 := by omega
  unfold xrangeList
  rw [List.map_map, list_range_map_sum, hc]
  simp only [Function.comp]
  rw [← sum_Icc_int g a, ← hb]

theorem cartesianProduct_two (l1 l2 : List ℤ) :
    cartesianProduct [l1, l2] = l1.flatMap fun x => l2.map fun y => [x, y] := by
  simp [cartesianProduct, List.flatMap_map]

theorem sum_map_flatMap {α β : Type} (g : β → ℚ) (F : α → List β) : ∀ l : List α,
    ((l.flatMap F).map g).sum = (l.map fun x => ((F x).map g).sum).sum := by
  intro l
  induction l with
  | nil => simp
  | cons a l ih => simp [List.flatMap_cons, ih]

/-- `foldFinite2_eq`: finite×finite folding (`fold_finite` over `cartesian_product`) is the
iterated double sum, first index outermost (and `0` if one of the ranges is empty). -/
theorem foldFinite2_eq (f : ℤ → ℤ → ℚ) (a1 b1 a2 b2 : ℤ) :
    foldFinite2 f a1 b1 a2 b2 = ∑ x ∈ Icc a1 b1, ∑ y ∈ Icc a2 b2, f x y := by
  unfold foldFinite2
  split
  · rw [Icc_eq_empty (by omega), sum_empty]
  split
  · rw [Icc_eq_empty (a := a2) (by omega)]; simp
  rename_i h1 h2
  unfold foldFinite
  rw [foldl_add_eq_sum, zero_add]
  simp only [List.map_cons, List.map_nil]
  rw [cartesianProduct_two, sum_map_flatMap, xrangeList_map_sum _ _ _ (by omega)]
  refine sum_congr rfl fun x _ => ?_
  rw [List.map_map, ← xrangeList_map_sum _ _ _ (by omega)]
  rfl

example : foldFinite2 (fun x y => (10 * x + y : ℚ)) 1 2 3 5 = 114 := by decide +kernel
example : cartesianProduct [[1, 2], [3, 4, 5]] = [[1, 3], [1, 4], [1, 5], [2, 3], [2, 4], [2, 5]] := by
  decide

/-! ## (b) `richardson` -/

open Nat in
/-- the closed form `(-1)^(k+N) (N+k)^N / (k! (N-k)!)` of the `k`-th Richardson weight -/
def richW (N k : ℕ) : ℚ :=
  (-1) ^ (k + N) * ((N + k : ℕ) : ℚ) ^ N / ((k ! : ℚ) * ((N - k)! : ℚ))

theorem ifac_eq (n : ℕ) : ifac n = n.factorial := by
  induction n with
  | zero => rfl
  | succ n ih => rw [ifac, ih, Nat.factorial_succ]

theorem richInit_eq (N : ℕ) : richInit N = richW N 0 := by
  unfold richInit richW
  rw [ifac_eq]
  push_cast
  simp

theorem richDen_ne (N k : ℕ) : richDen N k ≠ 0 := by
  unfold richDen
  have h : (1 + k) * (k + N) ^ N ≠ 0 := by
    apply Nat.mul_ne_zero (by omega)
    rcases Nat.eq_zero_or_pos N with rfl | h
    · simp
    · exact pow_ne_zero _ (by omega)
  exact_mod_cast h

/-- one step `c *= (k-N)*(k+N+1)**N; c /= (1+k)*(k+N)**N` of the weight recurrence stays on the
closed form -/
theorem richStep_eq (N k : ℕ) (hk : k < N) :
    richW N k * richNum N k / richDen N k = richW N (k + 1) := by
  unfold richW richNum richDen
  have h1 : N - k = (N - (k + 1)) + 1 := by omega
  have h2 : (((N - k : ℕ) : ℚ)) = (N : ℚ) - k := by
    rw [Nat.cast_sub (by omega)]
  have h3 : (((N - (k + 1) : ℕ) : ℚ)) = (N : ℚ) - k - 1 := by
    rw [Nat.cast_sub (by omega)]; push_cast; ring
  have hx : ((N + k : ℕ) : ℚ) ≠ 0 := by
    have : N + k ≠ 0 := by omega
    exact_mod_cast this
  have hk1 : ((k : ℚ) + 1) ≠ 0 := by positivity
  have hf1 : ((k.factorial : ℕ) : ℚ) ≠ 0 := by positivity
  have hf2 : (((N - (k + 1)).factorial : ℕ) : ℚ) ≠ 0 := by positivity
  have hnk : (N : ℚ) - k - 1 + 1 ≠ 0 := by
    have : (0 : ℚ) < (N : ℚ) - k := by
      have : (k : ℚ) < N := by exact_mod_cast hk
      linarith
    linarith
  rw [h1, Nat.factorial_succ (N - (k + 1)), Nat.factorial_succ k]
  push_cast
  rw [h3]
  have hx1 : (N : ℚ) + k ≠ 0 := by simpa using hx
  have hx2 : (k : ℚ) + N ≠ 0 := by rw [add_comm]; exact hx1
  have hnk2 : (N : ℚ) - k ≠ 0 := by simpa using hnk
  field_simp
  ring

/-- the accumulated `maxc` after the steps `k, …, k+fuel-1`, starting from `m` -/
def richMaxc (N : ℕ) (k fuel : ℕ) (m : ℚ) : ℚ :=
  (List.range' k fuel).foldl (fun m j => pyMax (richAbs (richW N j)) m) m

theorem richLoop_eq (seq : List ℚ) (N : ℕ) (hlen : 2 * N < seq.length) :
    ∀ (fuel k : ℕ) (s m : ℚ), k + fuel = N + 1 →
      richLoop seq N fuel k (richW N k) s m
        = .ok (s + ∑ i ∈ range fuel, richW N (k + i) * seq.getD (N + (k + i)) 0,
            richMaxc N k fuel m) := by
  intro fuel
  induction fuel with
  | zero => intro k s m _; simp [richLoop, richMaxc]
  | succ fuel ih =>
    intro k s m hk
    have hi : N + k < seq.length := by omega
    have hx : seq[N + k]? = some (seq.getD (N + k) 0) := by
      rw [List.getD_eq_getElem?_getD, List.getElem?_eq_getElem hi]; rfl
    rw [richLoop]
    simp only [hx, if_neg (richDen_ne N k)]
    rcases Nat.eq_zero_or_pos fuel with rfl | hf
    · simp [richLoop, richMaxc]
    · rw [richStep_eq N k (by omega), ih (k + 1) _ _ (by omega), sum_range_succ']
      simp only [richMaxc, List.range'_succ, List.foldl_cons, Nat.add_zero, Nat.add_assoc,
        Nat.add_comm 1]
      congr 2
      rw [add_assoc, add_comm (richW N k * _)]

theorem richCore_eq (seq : List ℚ) (hlen : 2 ≤ seq.length) :
    richCore seq = .ok (∑ k ∈ range (seq.length / 2 - 1 + 1),
        richW (seq.length / 2 - 1) k * seq.getD (seq.length / 2 - 1 + k) 0,
      richMaxc (seq.length / 2 - 1) 0 (seq.length / 2 - 1 + 1) 1) := by
  unfold richCore
  simp only
  rw [richInit_eq, richLoop_eq seq _ (by omega) _ 0 0 1 (by omega), zero_add]
  simp only [Nat.zero_add]

theorem everyOther_length : ∀ l : List ℚ, (everyOther l).length = (l.length + 1) / 2
  | [] => rfl
  | [_] => by simp [everyOther]
  | _ :: _ :: t => by
    rw [everyOther, List.length_cons, everyOther_length t]
    simp only [List.length_cons]; omega

/-- `richardson` raises only the documented `ValueError`: for `len(seq) ≥ 3` the index `N+k` is
always in range and no divisor is zero (in either branch of the sign test). -/
theorem richardson_ok (seq : List ℚ) (hlen : 3 ≤ seq.length) : ∃ r, richardson seq = .ok r := by
  unfold richardson
  rw [if_neg (by omega)]
  simp only
  split
  · exact ⟨_, richCore_eq _ (by rw [everyOther_length]; omega)⟩
  · exact ⟨_, richCore_eq _ (by omega)⟩

/-- `richardson` raises `ValueError` iff `len(seq) < 3`. -/
theorem richardson_error (seq : List ℚ) (hlen : seq.length < 3) :
    richardson seq = .error "ValueError: seq should be of minimum length 3" := by
  unfold richardson; rw [if_pos hlen]

open Nat in
/-- `richardson_weights`: in the no-subsampling branch, with `N = len(seq)//2 - 1`, the result is
`s = ∑_{k=0}^{N} w_k * seq[N+k]` with `w_k = (-1)^(k+N) (N+k)^N / (k! (N-k)!)`, i.e. the weight
`c` used at step `k` is `w_k`; `maxc = max(1, |w_0|, …, |w_N|)` (as a left fold). -/
theorem richardson_weights (seq : List ℚ) (N : ℕ) (hlen : 3 ≤ seq.length)
    (hN : N = seq.length / 2 - 1) (hsign : richSignTest seq = false) :
    richardson seq = .ok
      (∑ k ∈ range (N + 1),
          ((-1) ^ (k + N) * ((N + k : ℕ) : ℚ) ^ N / ((k ! : ℚ) * ((N - k)! : ℚ)))
            * seq.getD (N + k) 0,
        (List.range (N + 1)).foldl (fun m j => pyMax (richAbs (richW N j)) m) 1) := by
  unfold richardson
  rw [if_neg (by omega), hsign]
  simp only [Bool.false_eq_true, if_false]
  rw [richCore_eq seq (by omega), ← hN, richMaxc, List.range_eq_range']
  rfl

example : richardson [0, 2, 3 / 2, 4 / 3] = .ok (1, 2) := by decide +kernel
example : richardson [0, 2, 3 / 2, 4 / 3, 5 / 4] = .ok (1, 2) := by decide +kernel
example : richSignTest [0, 2, 3 / 2, 4 / 3, 5 / 4] = false := by decide +kernel

/-! ### exactness of Richardson extrapolation on `L + c₁/i + … + c_N/i^N` -/

/-- alternating binomial sums of shifted powers: `∑_k (-1)^(N-k) C(N,k) (N+k)^m` is `0` for
`m < N` and `N!` for `m = N` (the `N`-th forward difference of `x ↦ x^m` at `N`). -/
theorem binom_alt_sum_pow (N m : ℕ) (hm : m ≤ N) :
    ∑ k ∈ range (N + 1), (-1 : ℚ) ^ (N - k) * (N.choose k : ℚ) * ((N : ℚ) + k) ^ m
      = if m = N then (N.factorial : ℚ) else 0 := by
  have h := fwdDiff_iter_eq_sum_shift (1 : ℚ) (fun r : ℚ => r ^ m) N (N : ℚ)
  simp only [zsmul_eq_mul, nsmul_eq_mul, mul_one] at h
  push_cast at h
  rw [← h]
  split
  · rename_i h'; subst h'; rw [fwdDiff_iter_eq_factorial]; simp
  · rename_i h'; rw [fwdDiff_iter_pow_eq_zero_of_lt (lt_of_le_of_ne hm h')]; simp

theorem richW_div (N k j : ℕ) (hk : k ≤ N) (hj : j ≤ N) :
    richW N k / ((N + k : ℕ) : ℚ) ^ j
      = (1 / (N.factorial : ℚ))
          * ((-1 : ℚ) ^ (N - k) * (N.choose k : ℚ) * ((N : ℚ) + k) ^ (N - j)) := by
  have hch : (N.choose k : ℚ) * (k.factorial : ℚ) * ((N - k).factorial : ℚ) = (N.factorial : ℚ) := by
    exact_mod_cast Nat.choose_mul_factorial_mul_factorial hk
  have hsign : (-1 : ℚ) ^ (k + N) = (-1) ^ (N - k) := by
    have : k + N = (N - k) + 2 * k := by omega
    rw [this, pow_add, pow_mul]; simp
  have hpow : ((N + k : ℕ) : ℚ) ^ N = ((N : ℚ) + k) ^ (N - j) * ((N + k : ℕ) : ℚ) ^ j := by
    rw [← Nat.cast_add, ← pow_add, Nat.sub_add_cancel hj]
  have hxj : ((N + k : ℕ) : ℚ) ^ j ≠ 0 := by
    rcases Nat.eq_zero_or_pos j with rfl | hjpos
    · simp
    · have : N + k ≠ 0 := by omega
      exact pow_ne_zero _ (by exact_mod_cast this)
  have hf1 : ((k.factorial : ℕ) : ℚ) ≠ 0 := by positivity
  have hf2 : (((N - k).factorial : ℕ) : ℚ) ≠ 0 := by positivity
  have hc0 : ((N.choose k : ℕ) : ℚ) ≠ 0 := by
    have := Nat.choose_pos hk
    positivity
  unfold richW
  rw [hsign, hpow, ← hch]
  field_simp

/-- the Richardson weights sum to `1` -/
theorem richW_sum_one (N : ℕ) : ∑ k ∈ range (N + 1), richW N k = 1 := by
  have h : ∀ k ∈ range (N + 1), richW N k
      = (1 / (N.factorial : ℚ)) * ((-1 : ℚ) ^ (N - k) * (N.choose k : ℚ) * ((N : ℚ) + k) ^ N) := by
    intro k hk
    have := richW_div N k 0 (by have := mem_range.mp hk; omega) (Nat.zero_le _)
    simpa using this
  rw [sum_congr rfl h, ← mul_sum, binom_alt_sum_pow N N le_rfl, if_pos rfl]
  have : (N.factorial : ℚ) ≠ 0 := by positivity
  field_simp

/-- the Richardson weights annihilate `i ↦ 1/i^j` for `1 ≤ j ≤ N` -/
theorem richW_sum_inv_pow (N j : ℕ) (hj1 : 1 ≤ j) (hjN : j ≤ N) :
    ∑ k ∈ range (N + 1), richW N k / ((N + k : ℕ) : ℚ) ^ j = 0 := by
  have h : ∀ k ∈ range (N + 1), richW N k / ((N + k : ℕ) : ℚ) ^ j
      = (1 / (N.factorial : ℚ))
          * ((-1 : ℚ) ^ (N - k) * (N.choose k : ℚ) * ((N : ℚ) + k) ^ (N - j)) := by
    intro k hk
    exact richW_div N k j (by have := mem_range.mp hk; omega) hjN
  rw [sum_congr rfl h, ← mul_sum, binom_alt_sum_pow N (N - j) (Nat.sub_le _ _),
    if_neg (by omega), mul_zero]

/-- the weighted sum computed by `richardson` is exact on sequences
`s i = L + ∑_{j=1}^{M} c_j / i^j` with `M ≤ N` (only the values `s N, …, s (2N)` are used) -/
theorem richW_sum_exact (N M : ℕ) (hM : M ≤ N) (L : ℚ) (c : ℕ → ℚ) (s : ℕ → ℚ)
    (hs : ∀ i, N ≤ i → i ≤ 2 * N → s i = L + ∑ j ∈ Icc 1 M, c j / (i : ℚ) ^ j) :
    ∑ k ∈ range (N + 1), richW N k * s (N + k) = L := by
  have h : ∀ k ∈ range (N + 1), richW N k * s (N + k)
      = L * richW N k + ∑ j ∈ Icc 1 M, c j * (richW N k / ((N + k : ℕ) : ℚ) ^ j) := by
    intro k hk
    have hk' := mem_range.mp hk
    rw [hs (N + k) (by omega) (by omega), mul_add, mul_sum, mul_comm]
    congr 1
    refine sum_congr rfl fun j _ => ?_
    ring
  rw [sum_congr rfl h, sum_add_distrib, ← mul_sum, richW_sum_one, mul_one, sum_comm]
  have h0 : ∀ j ∈ Icc 1 M, ∑ k ∈ range (N + 1), c j * (richW N k / ((N + k : ℕ) : ℚ) ^ j) = 0 := by
    intro j hj
    have hj' := mem_Icc.mp hj
    rw [← mul_sum, richW_sum_inv_pow N j hj'.1 (by omega), mul_zero]
  rw [sum_eq_zero h0, add_zero]

/-- `richardson_exact`: if `seq[i] = L + c₁/i + … + c_M/i^M` for the entries actually read
(`N ≤ i ≤ 2N`, `N = len(seq)//2 - 1`), with `M ≤ N`, and the sign test selects the
no-subsampling branch, then `richardson(seq)` returns exactly `L` (in exact arithmetic). -/
theorem richardson_exact (seq : List ℚ) (N M : ℕ) (L : ℚ) (c : ℕ → ℚ)
    (hlen : 3 ≤ seq.length) (hN : N = seq.length / 2 - 1) (hM : M ≤ N)
    (hsign : richSignTest seq = false)
    (hs : ∀ i, N ≤ i → i ≤ 2 * N → seq.getD i 0 = L + ∑ j ∈ Icc 1 M, c j / (i : ℚ) ^ j) :
    ∃ maxc, richardson seq = .ok (L, maxc) := by
  have h := richardson_weights seq N hlen hN hsign
  have e := richW_sum_exact N M hM L c (fun i => seq.getD i 0) hs
  unfold richW at e
  rw [e] at h
  exact ⟨_, h⟩

/-- non-vacuity of `richardson_exact`: `s i = 1 + 1/i`, `N = M = 1`, list of length 5 -/
example : ∃ maxc, richardson [0, 2, 3 / 2, 4 / 3, 5 / 4] = .ok (1, maxc) := by
  refine richardson_exact _ 1 1 1 (fun _ => 1) (by decide) (by decide) le_rfl (by decide +kernel) ?_
  intro i h1 h2
  have : i = 1 ∨ i = 2 := by omega
  rcases this with rfl | rfl <;> norm_num

theorem everyOther_getD : ∀ (l : List ℚ) (i : ℕ), (everyOther l).getD i 0 = l.getD (2 * i) 0
  | [], i => by simp [everyOther]
  | [a], i => by
    cases i with
    | zero => simp [everyOther]
    | succ i => simp [everyOther, Nat.mul_succ]
  | a :: b :: t, i => by
    cases i with
    | zero => simp [everyOther]
    | succ i =>
      rw [everyOther, List.getD_cons_succ, everyOther_getD t i, Nat.mul_succ]
      rfl

/-- `richardson_exact_subsampled`: the same exactness in the subsampling branch
(`seq = seq[::2]`): the retained entries are `s(2i) = L + ∑ (c_j/2^j)/i^j`, again of the
form annihilated by the weights (`N = len(seq[::2])//2 - 1 ≥ 1`). -/
theorem richardson_exact_subsampled (seq : List ℚ) (N M : ℕ) (L : ℚ) (c : ℕ → ℚ)
    (hlen : 3 ≤ seq.length) (hN : N = (seq.length + 1) / 2 / 2 - 1) (hM : M ≤ N)
    (hsign : richSignTest seq = true)
    (hs : ∀ i, 2 * N ≤ i → i ≤ 4 * N → seq.getD i 0 = L + ∑ j ∈ Icc 1 M, c j / (i : ℚ) ^ j) :
    ∃ maxc, richardson seq = .ok (L, maxc) := by
  have e : ∑ k ∈ range (N + 1), richW N k * (everyOther seq).getD (N + k) 0 = L := by
    refine richW_sum_exact N M hM L (fun j => c j / 2 ^ j) (fun i => (everyOther seq).getD i 0) ?_
    intro i h1 h2
    rw [everyOther_getD, hs (2 * i) (by omega) (by omega)]
    congr 1
    refine sum_congr rfl fun j _ => ?_
    push_cast
    rw [mul_pow, div_div]
  have h : richardson seq = richCore (everyOther seq) := by
    unfold richardson
    rw [if_neg (by omega), hsign]
    rfl
  rw [richCore_eq _ (by rw [everyOther_length]; omega), everyOther_length, ← hN, e] at h
  exact ⟨_, h⟩

/-- non-vacuity of `richardson_exact_subsampled`: `s i = 1 + 1/i` perturbed at an odd index so
that the sign test fires (`N = 1`, the entries read are `seq[2], seq[4]`) -/
example : ∃ maxc, richardson [0, 2, 3 / 2, 4 / 3, 5 / 4, 7, 7 / 6] = .ok (1, maxc) := by
  refine richardson_exact_subsampled _ 1 1 1 (fun _ => 1) (by decide) (by decide) le_rfl
    (by decide +kernel) ?_
  intro i h1 h2
  have : i = 2 ∨ i = 3 ∨ i = 4 := by omega
  rcases this with rfl | rfl | rfl <;> norm_num

#print axioms diffWeights_eq
#print axioms diffWeights_eq_map
#print axioms difference_spec
#print axioms difference_eq_fwdDiff
#print axioms richardson_ok
#print axioms richardson_weights
#print axioms richW_sum_one
#print axioms richW_sum_inv_pow
#print axioms richW_sum_exact
#print axioms richardson_exact
#print axioms richardson_exact_subsampled
#print axioms stdTerm_partial_sum
#print axioms stdTerm_fin
#print axioms shell_partial_sum
#print axioms foldFinite2_eq

end Mp.Calc
