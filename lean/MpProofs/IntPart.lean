/-
  MpProofs/IntPart.lean — `mpf_round_int`, `mpf_floor/ceil/nint/frac`, `to_int`, `mpf_mod` (libmpf.py) against
  the mathematical floor / ceiling / round-half-even / remainder.
-/
import MpProofs.Add
import MpProofs.Faithful
import MpProofs.Cmp

namespace Mp

/-- `n` is `x` rounded to the nearest integer, ties to the even integer -/
def IsNint (x : ℚ) (n : ℤ) : Prop := |x - n| ≤ 1 / 2 ∧ (|x - n| = 1 / 2 → n % 2 = 0)

theorem IsNint.neg {x : ℚ} {n : ℤ} (h : IsNint x n) : IsNint (-x) (-n) := by
  have e : -x - ((-n : ℤ) : ℚ) = -(x - n) := by push_cast; ring
  refine ⟨by rw [e, abs_neg]; exact h.1, fun h' => ?_⟩
  rw [e, abs_neg] at h'
  have := h.2 h'
  omega

/-! ### rounding to `p` bits a number with exactly `p` integer bits is rounding to an integer -/

section unit
variable {p : ℕ} (hp : 0 < p) {x : ℚ} (h1 : (2 : ℚ) ^ (p - 1) ≤ x) (h2 : x < 2 ^ p)
include hp h1 h2

theorem floor_cell : ∃ q : ℕ, ⌊x⌋ = (q : ℤ) ∧ 2 ^ (p - 1) ≤ q ∧ q < 2 ^ p ∧ (q : ℚ) ≤ x ∧ x < (q : ℚ) + 1 := by
  have hx0 : 0 ≤ x := le_trans (by positivity) h1
  obtain ⟨q, hq⟩ : ∃ q : ℕ, ⌊x⌋ = (q : ℤ) := ⟨⌊x⌋.toNat, by have := Int.floor_nonneg.2 hx0; omega⟩
  have hle : ((⌊x⌋ : ℤ) : ℚ) ≤ x := Int.floor_le x
  have hlt : x < ((⌊x⌋ : ℤ) : ℚ) + 1 := Int.lt_floor_add_one x
  rw [hq] at hle hlt
  push_cast at hle hlt
  refine ⟨q, hq, ?_, ?_, hle, hlt⟩
  · have : ((2 ^ (p - 1) : ℕ) : ℤ) ≤ ⌊x⌋ := by
      apply Int.le_floor.2; push_cast; exact h1
    rw [hq] at this; exact_mod_cast this
  · have : (q : ℚ) < 2 ^ p := lt_of_le_of_lt hle h2
    exact_mod_cast this

theorem isRoundF_unit {y : ℚ} (h : IsRoundF p x y) : y = ((⌊x⌋ : ℤ) : ℚ) := by
  obtain ⟨q, hq, hq1, hq2, hle, hlt⟩ := floor_cell hp h1 h2
  have := isRoundF_of_cell (K := ℚ) hp hq1 hq2 (E := 0) (X := x) (by simpa using hle) (by simpa using hlt)
  rw [isRoundF_unique h this, hq]; simp

theorem isRoundC_unit {y : ℚ} (h : IsRoundC p x y) : y = ((⌈x⌉ : ℤ) : ℚ) := by
  obtain ⟨q, hq, hq1, hq2, hle, hlt⟩ := floor_cell hp h1 h2
  rcases eq_or_lt_of_le hle with heq | hlt'
  · have hrep : Repb p x := by
      rw [← heq]; have := repb_nat (K := ℚ) hq2 0; simpa using this
    rw [isRoundC_unique h (isRoundC_self hrep), ← heq]; simp
  · have := isRoundC_of_cell (K := ℚ) hp hq1 hq2 (E := 0) (X := x) (by simpa using hlt') (by simpa using hlt.le)
    rw [isRoundC_unique h this]
    have hc : ⌈x⌉ = (q : ℤ) + 1 := by
      rw [Int.ceil_eq_iff]; push_cast; constructor <;> linarith
    rw [hc]; push_cast; simp

theorem isRoundN_unit {y : ℚ} (h : IsRoundN p x y) : ∃ n : ℤ, y = (n : ℚ) ∧ IsNint x n := by
  obtain ⟨q, hq, hq1, hq2, hle, hlt⟩ := floor_cell hp h1 h2
  rcases lt_trichotomy (x - (q : ℚ)) ((q : ℚ) + 1 - x) with hlo | htie | hhi
  · have := isRoundN_of_cell_lo (K := ℚ) hp hq1 hq2 (E := 0) (X := x) (by simpa using hle) (by simpa using hlt.le)
      (by simpa using hlo)
    refine ⟨q, by rw [isRoundN_unique h this]; simp, ?_, fun h' => ?_⟩
    · push_cast; rw [abs_of_nonneg (by linarith)]; linarith
    · push_cast at h'; rw [abs_of_nonneg (by linarith)] at h'; linarith
  · rcases Nat.mod_two_eq_zero_or_one q with he | ho
    · have := isRoundN_of_cell_tie_even (K := ℚ) hp hq1 hq2 (E := 0) (X := x) (by simpa using htie) he
      refine ⟨q, by rw [isRoundN_unique h this]; simp, ?_, fun _ => by omega⟩
      push_cast; rw [abs_of_nonneg (by linarith)]; linarith
    · have := isRoundN_of_cell_tie_odd (K := ℚ) hp hq1 hq2 (E := 0) (X := x) (by simpa using htie) ho
      refine ⟨q + 1, by rw [isRoundN_unique h this]; push_cast; simp, ?_, fun _ => by omega⟩
      push_cast; rw [abs_of_nonpos (by linarith)]; linarith
  · have := isRoundN_of_cell_hi (K := ℚ) hp hq1 hq2 (E := 0) (X := x) (by simpa using hle) (by simpa using hlt.le)
      (by simpa using hhi)
    refine ⟨q + 1, by rw [isRoundN_unique h this]; push_cast; simp, ?_, fun h' => ?_⟩
    · push_cast; rw [abs_of_nonpos (by linarith)]; linarith
    · push_cast at h'; rw [abs_of_nonpos (by linarith)] at h'; linarith

end unit

/-! ### `mpf_round_int` -/

/-- the contract of `mpf_round_int(s, rnd)` for the three modes the library uses -/
def RoundIntOK (rnd : Rnd) (x : ℚ) (v : Mpf) : Prop :=
  CanonFin v ∧
  match rnd with
  | .f => val v = ((⌊x⌋ : ℤ) : ℚ)
  | .c => val v = ((⌈x⌉ : ℤ) : ℚ)
  | .n => ∃ n : ℤ, val v = (n : ℚ) ∧ IsNint x n
  | _ => True

theorem val_fone' : val fone = 1 := by simp [val, fone]
theorem val_fnone : val fnone = -1 := by simp [val, fnone]
theorem canonFin_fone : CanonFin fone := Or.inr ⟨by decide, by decide, by decide⟩
theorem canonFin_fnone : CanonFin fnone := Or.inr ⟨by decide, by decide, by decide⟩

theorem isNint_int (n : ℤ) : IsNint (n : ℚ) n := by
  refine ⟨by simp, fun h => ?_⟩
  simp at h

theorem roundIntOK_int {rnd : Rnd} {v : Mpf} (hc : CanonFin v) {n : ℤ} (hv : val v = (n : ℚ)) :
    RoundIntOK rnd (n : ℚ) v := by
  refine ⟨hc, ?_⟩
  cases rnd <;> simp only
  · exact ⟨n, hv, isNint_int n⟩
  · rw [hv, Int.floor_intCast]
  · rw [hv, Int.ceil_intCast]

/-- magnitude bounds of a canonical nonzero value -/
theorem mag_bounds' {s : Mpf} (hm0 : s.man ≠ 0) (hbc : s.bc = (bitcount s.man : Int)) :
    (2 : ℚ) ^ (s.exp + s.bc - 1) ≤ (s.man : ℚ) * 2 ^ s.exp ∧ (s.man : ℚ) * 2 ^ s.exp < 2 ^ (s.exp + s.bc) := by
  have hE : (0 : ℚ) < 2 ^ s.exp := by positivity
  have hb := bitcount_pos hm0
  have h1 : ((2 ^ (bitcount s.man - 1) : ℕ) : ℚ) ≤ s.man := by exact_mod_cast bitcount_le hm0
  have h2 : (s.man : ℚ) < ((2 ^ bitcount s.man : ℕ) : ℚ) := by exact_mod_cast bitcount_lt s.man
  push_cast at h1 h2
  rw [hbc]
  constructor
  · have : (2 : ℚ) ^ (s.exp + (bitcount s.man : ℤ) - 1) = 2 ^ (bitcount s.man - 1) * 2 ^ s.exp := by
      rw [← zpow_natCast, ← zpow_add₀ (by norm_num)]; congr 1
      have : ((bitcount s.man - 1 : ℕ) : ℤ) = (bitcount s.man : ℤ) - 1 := by omega
      rw [this]; ring
    rw [this]; exact mul_le_mul_of_nonneg_right h1 hE.le
  · have : (2 : ℚ) ^ (s.exp + (bitcount s.man : ℤ)) = 2 ^ (bitcount s.man) * 2 ^ s.exp := by
      rw [← zpow_natCast, ← zpow_add₀ (by norm_num)]; congr 1; ring
    rw [this]; exact mul_lt_mul_of_pos_right h2 hE

theorem mpf_round_int_spec {s : Mpf} (hs : CanonFin s) {rnd : Rnd} (hr : rnd = .f ∨ rnd = .c ∨ rnd = .n) :
    ∃ v, mpf_round_int s rnd = .ok v ∧ RoundIntOK rnd (val s) v := by
  unfold mpf_round_int
  simp only [hs.finite, Bool.false_eq_true, if_false]
  by_cases hexp : s.exp ≥ 0
  · -- already an integer
    simp only [hexp, if_true]
    refine ⟨s, rfl, ?_⟩
    obtain ⟨k, hk⟩ : ∃ k : ℕ, s.exp = k := ⟨s.exp.toNat, by omega⟩
    have hv : val s = (((-1) ^ s.sign * (s.man * 2 ^ k) : ℤ) : ℚ) := by
      rw [val_def, hk, zpow_natCast]; push_cast; ring
    rw [hv]; exact roundIntOK_int hs (by rw [← hv])
  simp only [hexp, if_false]
  rcases hs.cases with rfl | ⟨hm0, hsg, hodd, hbc⟩
  · exact absurd (by simp [fzero]) hexp
  have hsg' : s.sign = 0 ∨ s.sign = 1 := by omega
  obtain ⟨hlo, hhi⟩ := mag_bounds' hm0 hbc
  have hXpos : (0 : ℚ) < (s.man : ℚ) * 2 ^ s.exp := by
    have : (0 : ℚ) < s.man := by exact_mod_cast Nat.pos_of_ne_zero hm0
    positivity
  generalize hX : (s.man : ℚ) * 2 ^ s.exp = X at *
  have hvs : val s = (-1 : ℚ) ^ s.sign * X := by rw [val_def, hX]
  by_cases hmag : s.exp + s.bc < 1
  · -- |x| < 1
    simp only [hmag, if_true]
    have hX1 : X < 1 := lt_of_lt_of_le hhi (zpow_le_one_of_nonpos₀ (by norm_num) (by omega))
    rcases hr with rfl | rfl | rfl
    · -- floor
      simp only
      rcases hsg' with h0 | h1
      · refine ⟨fzero, by simp [h0], canonFin_fzero, ?_⟩
        show val fzero = ((⌊val s⌋ : ℤ) : ℚ)
        rw [hvs, h0, val_fzero]; simp only [pow_zero, one_mul]
        have : ⌊X⌋ = 0 := by rw [Int.floor_eq_iff]; constructor <;> simp <;> linarith
        rw [this]; simp
      · refine ⟨fnone, by simp [h1], canonFin_fnone, ?_⟩
        show val fnone = ((⌊val s⌋ : ℤ) : ℚ)
        rw [hvs, h1, val_fnone]; simp only [pow_one, neg_one_mul]
        have : ⌊-X⌋ = -1 := by rw [Int.floor_eq_iff]; constructor <;> push_cast <;> linarith
        rw [this]; simp
    · -- ceiling
      simp only
      rcases hsg' with h0 | h1
      · refine ⟨fone, by simp [h0], canonFin_fone, ?_⟩
        show val fone = ((⌈val s⌉ : ℤ) : ℚ)
        rw [hvs, h0, val_fone']; simp only [pow_zero, one_mul]
        have : ⌈X⌉ = 1 := by rw [Int.ceil_eq_iff]; constructor <;> push_cast <;> linarith
        rw [this]; simp
      · refine ⟨fzero, by simp [h1], canonFin_fzero, ?_⟩
        show val fzero = ((⌈val s⌉ : ℤ) : ℚ)
        rw [hvs, h1, val_fzero]; simp only [pow_one, neg_one_mul]
        have : ⌈-X⌉ = 0 := by rw [Int.ceil_eq_iff]; constructor <;> push_cast <;> linarith
        rw [this]; simp
    · -- nearest
      simp only
      by_cases hz : s.exp + s.bc < 0 ∨ s.man = 1
      · simp only [hz, if_true]
        refine ⟨fzero, rfl, canonFin_fzero, 0, by rw [val_fzero]; simp, ?_⟩
        have hhalf : X ≤ 1 / 2 ∧ (X = 1 / 2 → True) := by
          rcases hz with h | h
          · have : (2 : ℚ) ^ (s.exp + s.bc) ≤ 2 ^ (-1 : ℤ) := zpow_le_zpow_right₀ (by norm_num) (by omega)
            rw [zpow_neg_one] at this
            exact ⟨by linarith, fun _ => trivial⟩
          · have hb1 : s.bc = 1 := by rw [hbc, h, bitcount_one]; rfl
            have he : s.exp ≤ -1 := by omega
            have : (2 : ℚ) ^ s.exp ≤ 2 ^ (-1 : ℤ) := zpow_le_zpow_right₀ (by norm_num) he
            rw [zpow_neg_one] at this
            rw [h] at hX
            exact ⟨by rw [← hX]; push_cast; linarith, fun _ => trivial⟩
        rw [hvs]
        refine ⟨?_, fun _ => by norm_num⟩
        rcases hsg' with h0 | h1
        · rw [h0]; simp only [pow_zero, one_mul, Int.cast_zero, sub_zero]
          rw [abs_of_pos hXpos]; exact hhalf.1
        · rw [h1]; simp only [pow_one, neg_one_mul, Int.cast_zero, sub_zero]
          rw [abs_neg, abs_of_pos hXpos]; exact hhalf.1
      · simp only [hz, if_false]
        push Not at hz
        -- mag = 0 and man ≥ 3: 1/2 < X < 1
        have hmag0 : s.exp + s.bc = 0 := by omega
        have hXhalf : 1 / 2 < X := by
          have hb2 : 2 ≤ bitcount s.man := by
            by_contra hb
            have hb1 : bitcount s.man = 1 := by have := bitcount_pos hm0; omega
            have : s.man < 2 ^ 1 := by have := bitcount_lt s.man; rwa [hb1] at this
            omega
          have hman : 2 ^ (bitcount s.man - 1) + 1 ≤ s.man := by
            have h1 := bitcount_le hm0
            rcases Nat.lt_or_eq_of_le h1 with h | h
            · omega
            · exfalso
              obtain ⟨j, hj⟩ : ∃ j, bitcount s.man - 1 = j + 1 := ⟨bitcount s.man - 2, by omega⟩
              rw [hj, pow_succ] at h
              omega
          have hE : (0 : ℚ) < 2 ^ s.exp := by positivity
          have h3 : ((2 ^ (bitcount s.man - 1) + 1 : ℕ) : ℚ) ≤ s.man := by exact_mod_cast hman
          have h4 : (2 : ℚ) ^ (s.exp + s.bc - 1) < X := by
            have e : (2 : ℚ) ^ (s.exp + s.bc - 1) = 2 ^ (bitcount s.man - 1) * 2 ^ s.exp := by
              rw [hbc, ← zpow_natCast, ← zpow_add₀ (by norm_num)]; congr 1
              have : ((bitcount s.man - 1 : ℕ) : ℤ) = (bitcount s.man : ℤ) - 1 := by omega
              rw [this]; ring
            rw [e, ← hX]
            push_cast at h3
            nlinarith
          rw [hmag0] at h4
          norm_num at h4
          linarith
        rcases hsg' with h0 | h1
        · refine ⟨fone, by simp [h0], canonFin_fone, 1, by rw [val_fone']; simp, ?_⟩
          rw [hvs, h0]; unfold IsNint; simp only [pow_zero, one_mul, Int.cast_one]
          refine ⟨by rw [abs_of_neg (by linarith)]; linarith, fun h => ?_⟩
          rw [abs_of_neg (by linarith)] at h; linarith
        · refine ⟨fnone, by simp [h1], canonFin_fnone, -1, by rw [val_fnone]; simp, ?_⟩
          rw [hvs, h1]; unfold IsNint; simp only [pow_one, neg_one_mul, Int.cast_neg, Int.cast_one]
          refine ⟨by rw [abs_of_pos (by linarith)]; linarith, fun h => ?_⟩
          rw [abs_of_pos (by linarith)] at h; linarith
  · -- |x| ≥ 1: round to `mag` bits
    simp only [hmag, if_false]
    have hmin : min s.bc (s.exp + s.bc) = s.exp + s.bc := min_eq_right (by omega)
    rw [hmin]
    have hp : 0 < s.exp + s.bc := by omega
    have hspec := mpf_pos_spec (Or.inr ⟨hsg, hodd, hbc⟩ : CanonFin s) hp.le rnd
    refine ⟨_, rfl, hspec.1, ?_⟩
    obtain ⟨hround, _⟩ := hspec.2.2 hp
    obtain ⟨pn, hpn⟩ : ∃ pn : ℕ, s.exp + s.bc = pn := ⟨(s.exp + s.bc).toNat, by omega⟩
    have hpn0 : 0 < pn := by omega
    rw [hpn, Int.toNat_natCast] at hround
    rw [hpn] at hlo hhi
    have hlo' : (2 : ℚ) ^ (pn - 1) ≤ X := by
      have : ((pn : ℤ) - 1) = ((pn - 1 : ℕ) : ℤ) := by omega
      rw [this, zpow_natCast] at hlo; exact hlo
    have hhi' : X < (2 : ℚ) ^ pn := by rw [zpow_natCast] at hhi; exact hhi
    rw [hpn]
    generalize val (mpf_pos s (pn : ℤ) rnd) = y at *
    rw [hvs] at hround ⊢
    rcases hsg' with h0 | h1
    · rw [h0] at hround ⊢
      simp only [pow_zero, one_mul] at hround ⊢
      rcases hr with rfl | rfl | rfl
      · exact isRoundF_unit hpn0 hlo' hhi' hround
      · exact isRoundC_unit hpn0 hlo' hhi' hround
      · exact isRoundN_unit hpn0 hlo' hhi' hround
    · rw [h1] at hround ⊢
      simp only [pow_one, neg_one_mul] at hround ⊢
      have hyy : y = -(-y) := by ring
      rcases hr with rfl | rfl | rfl
      · have h' : IsRoundC pn X (-y) := by
          have : IsRoundF pn (-X) (-(-y)) := by rw [← hyy]; exact hround
          exact isRoundF_neg.1 this
        have := isRoundC_unit hpn0 hlo' hhi' h'
        simp only
        rw [Int.floor_neg]; push_cast; linarith
      · have h' : IsRoundF pn X (-y) := by
          have : IsRoundC pn (-X) (-(-y)) := by rw [← hyy]; exact hround
          exact isRoundC_neg.1 this
        have := isRoundF_unit hpn0 hlo' hhi' h'
        simp only
        rw [Int.ceil_neg]; push_cast; linarith
      · have h' : IsRoundN pn X (-y) := by
          have : IsRoundN pn (-X) (-(-y)) := by rw [← hyy]; exact hround
          exact isRoundN_neg.1 this
        obtain ⟨n, hn, hN⟩ := isRoundN_unit hpn0 hlo' hhi' h'
        exact ⟨-n, by push_cast; linarith, hN.neg⟩

/-! ### floor, ceil, nint, frac -/

theorem mpf_floor_spec {s : Mpf} (hs : CanonFin s) {prec : Int} (hp : 0 ≤ prec) (rnd : Rnd) :
    ∃ r, mpf_floor s prec rnd = .ok r ∧ RoundOK prec rnd ((⌊val s⌋ : ℤ) : ℚ) r := by
  obtain ⟨v, hv, hc, hval⟩ := mpf_round_int_spec hs (rnd := .f) (Or.inl rfl)
  simp only at hval
  unfold mpf_floor
  rw [hv]
  by_cases h0 : prec = 0
  · subst h0
    exact ⟨v, by simp [bind, Except.bind, pure, Except.pure], roundOK_zero hc hval⟩
  · refine ⟨mpf_pos v prec rnd, by simp [bind, Except.bind, pure, Except.pure, h0], ?_⟩
    rw [← hval]; exact mpf_pos_spec hc hp rnd

theorem mpf_ceil_spec {s : Mpf} (hs : CanonFin s) {prec : Int} (hp : 0 ≤ prec) (rnd : Rnd) :
    ∃ r, mpf_ceil s prec rnd = .ok r ∧ RoundOK prec rnd ((⌈val s⌉ : ℤ) : ℚ) r := by
  obtain ⟨v, hv, hc, hval⟩ := mpf_round_int_spec hs (rnd := .c) (Or.inr (Or.inl rfl))
  simp only at hval
  unfold mpf_ceil
  rw [hv]
  by_cases h0 : prec = 0
  · subst h0
    exact ⟨v, by simp [bind, Except.bind, pure, Except.pure], roundOK_zero hc hval⟩
  · refine ⟨mpf_pos v prec rnd, by simp [bind, Except.bind, pure, Except.pure, h0], ?_⟩
    rw [← hval]; exact mpf_pos_spec hc hp rnd

theorem mpf_nint_spec {s : Mpf} (hs : CanonFin s) {prec : Int} (hp : 0 ≤ prec) (rnd : Rnd) :
    ∃ r n, mpf_nint s prec rnd = .ok r ∧ IsNint (val s) n ∧ RoundOK prec rnd (n : ℚ) r := by
  obtain ⟨v, hv, hc, n, hval, hn⟩ := mpf_round_int_spec hs (rnd := .n) (Or.inr (Or.inr rfl))
  unfold mpf_nint
  rw [hv]
  by_cases h0 : prec = 0
  · subst h0
    exact ⟨v, n, by simp [bind, Except.bind, pure, Except.pure], hn, roundOK_zero hc hval⟩
  · refine ⟨mpf_pos v prec rnd, n, by simp [bind, Except.bind, pure, Except.pure, h0], hn, ?_⟩
    rw [← hval]; exact mpf_pos_spec hc hp rnd

/-- `frac(x) = x - floor(x)`, rounded once -/
theorem mpf_frac_spec {s : Mpf} (hs : CanonFin s) {prec : Int} (hp : 0 ≤ prec) (rnd : Rnd) :
    ∃ r, mpf_frac s prec rnd = .ok r ∧ RoundOK prec rnd (val s - ((⌊val s⌋ : ℤ) : ℚ)) r := by
  obtain ⟨v, hv, hok⟩ := mpf_floor_spec hs (le_refl 0) .d
  have hval : val v = ((⌊val s⌋ : ℤ) : ℚ) := hok.2.1 rfl
  unfold mpf_frac
  rw [hv]
  refine ⟨mpf_sub s v prec rnd, by simp [bind, Except.bind, pure, Except.pure], ?_⟩
  rw [← hval]; exact mpf_sub_spec hs hok.1 hp rnd

theorem frac_range (x : ℚ) : 0 ≤ x - ((⌊x⌋ : ℤ) : ℚ) ∧ x - ((⌊x⌋ : ℤ) : ℚ) < 1 := by
  have h1 := Int.floor_le x
  have h2 := Int.lt_floor_add_one x
  constructor <;> linarith

/-! ### `to_int`: truncation toward zero -/

/-- truncation toward zero of a rational -/
def truncQ (x : ℚ) : ℤ := if 0 ≤ x then ⌊x⌋ else ⌈x⌉

theorem to_int_spec {s : Mpf} (hs : CanonFin s) : to_int s none = .ok (truncQ (val s)) := by
  unfold to_int
  simp only [hs.finite, Bool.false_eq_true, if_false]
  rcases hs.cases with rfl | ⟨hm0, hsg, hodd, hbc⟩
  · simp [fzero, ishl, truncQ, val]
  have hsg' : s.sign = 0 ∨ s.sign = 1 := by omega
  have hmpos : (0 : ℚ) < s.man := by exact_mod_cast Nat.pos_of_ne_zero hm0
  by_cases hexp : s.exp ≥ 0
  · simp only [hexp, if_true]
    obtain ⟨k, hk⟩ : ∃ k : ℕ, s.exp = k := ⟨s.exp.toNat, by omega⟩
    rw [hk, Int.toNat_natCast]
    have h2k : (0 : ℚ) < 2 ^ k := by positivity
    rcases hsg' with h0 | h1
    · have hv : val s = ((s.man * 2 ^ k : ℕ) : ℤ) := by rw [val_def, h0, hk, zpow_natCast]; push_cast; ring
      have hnn : (0 : ℚ) ≤ val s := by rw [hv]; positivity
      simp only [h0, ne_eq, not_true_eq_false, if_false, ishl]
      have : (s.man : ℤ) ≠ 0 := by exact_mod_cast hm0
      simp only [this, if_false, truncQ, hnn, if_true]
      rw [hv, Int.floor_intCast]; push_cast; ring_nf
    · have hv : val s = ((-(s.man * 2 ^ k : ℕ) : ℤ) : ℚ) := by rw [val_def, h1, hk, zpow_natCast]; push_cast; ring
      have hneg : ¬ (0 : ℚ) ≤ val s := by
        rw [val_def, h1, hk, zpow_natCast]; simp only [pow_one, neg_one_mul, not_le]
        have : (0 : ℚ) < (s.man : ℚ) * 2 ^ k := by positivity
        linarith
      simp only [h1, ne_eq, one_ne_zero, not_false_eq_true, if_true, ishl]
      have : -(s.man : ℤ) ≠ 0 := by
        have : (s.man : ℤ) ≠ 0 := by exact_mod_cast hm0
        omega
      simp only [this, if_false, truncQ, hneg]
      rw [hv, Int.ceil_intCast]; push_cast; ring_nf
  · simp only [hexp, if_false]
    obtain ⟨k, hk⟩ : ∃ k : ℕ, -s.exp = k := ⟨(-s.exp).toNat, by omega⟩
    rw [hk, Int.toNat_natCast, Nat.shiftRight_eq_div_pow]
    have hE : (2 : ℚ) ^ s.exp = 1 / 2 ^ k := by
      have : s.exp = -(k : ℤ) := by omega
      rw [this, zpow_neg, zpow_natCast, one_div]
    have hX : (s.man : ℚ) * 2 ^ s.exp = (s.man : ℚ) / ((2 ^ k : ℕ) : ℚ) := by rw [hE]; push_cast; ring
    have hfl : ⌊(s.man : ℚ) / ((2 ^ k : ℕ) : ℚ)⌋ = ((s.man / 2 ^ k : ℕ) : ℤ) := by
      rw [Rat.floor_natCast_div_natCast]; norm_cast
    have hXpos : (0 : ℚ) < (s.man : ℚ) * 2 ^ s.exp := by positivity
    rcases hsg' with h0 | h1
    · have hv : val s = (s.man : ℚ) * 2 ^ s.exp := by rw [val_def, h0]; simp
      simp only [h0, ne_eq, not_true_eq_false, if_false, truncQ]
      rw [hv, if_pos hXpos.le, hX, hfl]
    · have hv : val s = -((s.man : ℚ) * 2 ^ s.exp) := by rw [val_def, h1]; simp
      simp only [h1, ne_eq, one_ne_zero, not_false_eq_true, if_true, truncQ]
      rw [hv, if_neg (by linarith), Int.ceil_neg, hX, hfl]

/-! ### `mpf_mod`: `x - y * floor(x / y)`, rounded once -/

theorem fdiv_eq_floor (a b : ℤ) (hb : b ≠ 0) : (Int.fdiv a b : ℤ) = ⌊(a : ℚ) / (b : ℚ)⌋ := by
  symm
  rw [Int.floor_eq_iff]
  have hdm := Int.mul_fdiv_add_fmod a b
  have hq : (a : ℚ) = (b : ℚ) * (Int.fdiv a b : ℤ) + (Int.fmod a b : ℤ) := by exact_mod_cast hdm.symm
  have hbq : (b : ℚ) ≠ 0 := by exact_mod_cast hb
  rcases lt_or_gt_of_ne hb with hneg | hpos
  · have h1 : 0 ≤ (-a).fmod (-b) := Int.fmod_nonneg_of_pos _ (by omega)
    have h2 : (-a).fmod (-b) < -b := Int.fmod_lt_of_pos _ (by omega)
    rw [Int.neg_fmod_neg] at h1 h2
    have h1' : ((Int.fmod a b : ℤ) : ℚ) ≤ 0 := by exact_mod_cast (by omega : Int.fmod a b ≤ 0)
    have h2' : (b : ℚ) < ((Int.fmod a b : ℤ) : ℚ) := by exact_mod_cast (by omega : b < Int.fmod a b)
    have hbn : (b : ℚ) < 0 := by exact_mod_cast hneg
    constructor
    · rw [le_div_iff_of_neg hbn]; nlinarith
    · rw [div_lt_iff_of_neg hbn]; nlinarith
  · have h1 : 0 ≤ a.fmod b := Int.fmod_nonneg_of_pos _ hpos
    have h2 : a.fmod b < b := Int.fmod_lt_of_pos _ hpos
    have h1' : (0 : ℚ) ≤ ((Int.fmod a b : ℤ) : ℚ) := by exact_mod_cast h1
    have h2' : ((Int.fmod a b : ℤ) : ℚ) < (b : ℚ) := by exact_mod_cast h2
    have hbp : (0 : ℚ) < b := by exact_mod_cast hpos
    constructor
    · rw [le_div_iff₀ hbp]; nlinarith
    · rw [div_lt_iff₀ hbp]; nlinarith

theorem fmod_eq_sub_floor (a b : ℤ) (hb : b ≠ 0) :
    ((Int.fmod a b : ℤ) : ℚ) = (a : ℚ) - (b : ℚ) * ((⌊(a : ℚ) / (b : ℚ)⌋ : ℤ) : ℚ) := by
  rw [← fdiv_eq_floor a b hb]
  have := Int.mul_fdiv_add_fmod a b
  have hq : (a : ℚ) = (b : ℚ) * (Int.fdiv a b : ℤ) + (Int.fmod a b : ℤ) := by exact_mod_cast this.symm
  linarith

/-- the exact remainder with the sign of the divisor -/
def modQ (x y : ℚ) : ℚ := x - y * ((⌊x / y⌋ : ℤ) : ℚ)

theorem sval_eq (s : Mpf) (hsg : s.sign ≤ 1) :
    val s = (((if s.sign % 2 = 0 then (s.man : ℤ) else -(s.man : ℤ)) : ℤ) : ℚ) * 2 ^ s.exp := by
  have : s.sign = 0 ∨ s.sign = 1 := by omega
  rcases this with h | h <;> rw [val_def, h] <;> simp

theorem ishl_val (m : ℤ) (k : ℕ) : ((ishl m k : ℤ) : ℚ) = (m : ℚ) * 2 ^ k := by
  unfold ishl
  split
  · rename_i h; rw [h]; simp
  · push_cast; ring

theorem mpf_mod_spec {s t : Mpf} (hs : CanonFin s) (ht : CanonFin t) (ht0 : t ≠ fzero) {prec : Int}
    (hp : 0 < prec) (rnd : Rnd) :
    ∃ r, mpf_mod s t prec rnd = .ok r ∧ RoundOK prec rnd (modQ (val s) (val t)) r := by
  rcases ht.cases with rfl | ⟨htm, hts, hto, htb⟩
  · exact absurd rfl ht0
  have hss : s.sign ≤ 1 := by
    rcases hs.cases with rfl | ⟨_, h, _⟩
    · simp [fzero]
    · exact h
  have htpos : (0 : ℚ) < (t.man : ℚ) * 2 ^ t.exp := by
    have : (0 : ℚ) < t.man := by exact_mod_cast Nat.pos_of_ne_zero htm
    positivity
  unfold mpf_mod
  simp only [hs.finite, ht.finite, Bool.false_eq_true, or_self, if_false, htm]
  by_cases hb1 : s.sign = t.sign ∧ t.exp > s.exp + s.bc
  · -- |s| < |t| with equal signs: the quotient floors to 0
    simp only [hb1, and_self, if_true]
    refine ⟨_, rfl, ?_⟩
    have hfl : modQ (val s) (val t) = val s := by
      unfold modQ
      have : ⌊val s / val t⌋ = 0 := by
        rw [Int.floor_eq_iff]
        rcases hs.cases with rfl | ⟨hsm, _, _, hsb⟩
        · rw [val_fzero]; simp
        · obtain ⟨_, hhi⟩ := mag_bounds' hsm hsb
          have hX : (s.man : ℚ) * 2 ^ s.exp < (t.man : ℚ) * 2 ^ t.exp := by
            have h1 : (2 : ℚ) ^ (s.exp + s.bc) ≤ 2 ^ t.exp := zpow_le_zpow_right₀ (by norm_num) (by omega)
            have h2 : (2 : ℚ) ^ t.exp ≤ (t.man : ℚ) * 2 ^ t.exp := by
              have : (1 : ℚ) ≤ t.man := by exact_mod_cast Nat.pos_of_ne_zero htm
              have hE : (0 : ℚ) < 2 ^ t.exp := by positivity
              nlinarith
            linarith
          have hXpos : (0 : ℚ) < (s.man : ℚ) * 2 ^ s.exp := by
            have : (0 : ℚ) < s.man := by exact_mod_cast Nat.pos_of_ne_zero hsm
            positivity
          have hratio : val s / val t = ((s.man : ℚ) * 2 ^ s.exp) / ((t.man : ℚ) * 2 ^ t.exp) := by
            rw [val_def, val_def, hb1.1]
            have hne : ((-1 : ℚ)) ^ t.sign ≠ 0 := pow_ne_zero _ (by norm_num)
            field_simp
          rw [hratio]
          constructor
          · simp only [Int.cast_zero]; positivity
          · simp only [Int.cast_zero, zero_add]; rw [div_lt_one htpos]; exact hX
      rw [this]; simp
    rw [hfl]; exact mpf_pos_spec hs hp.le rnd
  simp only [hb1, if_false]
  by_cases hb2 : t.man = 1 ∧ s.exp > t.exp + t.bc
  · -- power-of-two divisor far below: the remainder is 0
    simp only [hb2, and_self, if_true]
    refine ⟨fzero, rfl, ?_⟩
    have hz : modQ (val s) (val t) = 0 := by
      unfold modQ
      have htb1 : t.bc = 1 := by rw [htb, hb2.1, bitcount_one]; rfl
      obtain ⟨k, hk⟩ : ∃ k : ℕ, s.exp - t.exp = k := ⟨(s.exp - t.exp).toNat, by omega⟩
      have hsexp : s.exp = t.exp + k := by omega
      have hq : val s / val t = (((-1) ^ s.sign * (-1) ^ t.sign * (s.man * 2 ^ k) : ℤ) : ℚ) := by
        rw [val_def, val_def, hb2.1, hsexp, zpow_add₀ (by norm_num), zpow_natCast]
        have hE : (2 : ℚ) ^ t.exp ≠ 0 := by positivity
        have hsq : ((-1 : ℚ) ^ t.sign) * ((-1 : ℚ) ^ t.sign) = 1 := by
          rw [← pow_add, ← two_mul, pow_mul]; simp
        have hne : ((-1 : ℚ)) ^ t.sign ≠ 0 := pow_ne_zero _ (by norm_num)
        push_cast
        field_simp
        nlinarith [hsq]
      rw [hq, Int.floor_intCast, ← hq]
      have hvt : val t ≠ 0 := by
        rw [val_def]; exact mul_ne_zero (pow_ne_zero _ (by norm_num)) htpos.ne'
      field_simp
      ring
    rw [hz]; exact roundOK_fzero hp.le rnd
  simp only [hb2, if_false]
  -- general case: exact integer remainder on the common exponent
  set base := min s.exp t.exp with hbase
  obtain ⟨ks, hks⟩ : ∃ k : ℕ, s.exp - base = k := ⟨(s.exp - base).toNat, by have := min_le_left s.exp t.exp; omega⟩
  obtain ⟨kt, hkt⟩ : ∃ k : ℕ, t.exp - base = k := ⟨(t.exp - base).toNat, by have := min_le_right s.exp t.exp; omega⟩
  rw [hks, hkt, Int.toNat_natCast, Int.toNat_natCast]
  set sman : ℤ := if s.sign % 2 = 0 then (s.man : ℤ) else -(s.man : ℤ) with hsman
  set tman : ℤ := if t.sign % 2 = 0 then (t.man : ℤ) else -(t.man : ℤ) with htman
  have htman0 : tman ≠ 0 := by
    have : (t.man : ℤ) ≠ 0 := by exact_mod_cast htm
    rw [htman]; split <;> omega
  have hb0 : ishl tman kt ≠ 0 := by
    unfold ishl; simp only [htman0, if_false]
    have : (0 : ℤ) < ((2 ^ kt : ℕ) : ℤ) := by positivity
    exact mul_ne_zero htman0 this.ne'
  simp only [hb0, if_false]
  refine ⟨_, rfl, ?_⟩
  have hBase : (0 : ℚ) < 2 ^ base := by positivity
  have hvs : val s = ((ishl sman ks : ℤ) : ℚ) * 2 ^ base := by
    rw [sval_eq s hss, ishl_val, ← hsman]
    have : s.exp = base + ks := by omega
    rw [this, zpow_add₀ (by norm_num), zpow_natCast]; ring
  have hvt : val t = ((ishl tman kt : ℤ) : ℚ) * 2 ^ base := by
    rw [sval_eq t hts, ishl_val, ← htman]
    have : t.exp = base + kt := by omega
    rw [this, zpow_add₀ (by norm_num), zpow_natCast]; ring
  generalize ishl sman ks = a at *
  generalize ishl tman kt = b at *
  have hbq : (b : ℚ) ≠ 0 := by exact_mod_cast hb0
  have hmod : modQ (val s) (val t) = ((Int.fmod a b : ℤ) : ℚ) * 2 ^ base := by
    unfold modQ
    have hratio : val s / val t = (a : ℚ) / (b : ℚ) := by
      rw [hvs, hvt]; field_simp
    rw [hratio, fmod_eq_sub_floor a b hb0, hvs, hvt]; ring
  rw [hmod]
  have hsign : (if Int.fmod a b ≥ 0 then 0 else 1 : ℕ) ≤ 1 := by split <;> omega
  have := normalize_spec hsign (Int.fmod a b).natAbs base hp rnd
  rw [← mul_assoc, neg_one_pow_mul_natAbs] at this
  exact this

end Mp
