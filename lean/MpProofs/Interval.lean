/-
  MpProofs/Interval.lean — structural lemmas about MpModel/Interval.lean and MpModel/Complex.lean
  (no arithmetic content: shapes of results, comparison functions in terms of the endpoint
  comparisons, nan-freeness of `mpi_add`/`mpi_sub`, one-step unfoldings of the recursive
  functions).  Helper material for Props/C04, C14, C15, C16.
-/
import MpModel.Interval
import MpModel.Complex

namespace Mp

/-! ### negation, position, shift: endpoints -/

theorem mpi_neg_fst (s : Mpi) (prec : Int) : (mpi_neg s prec).1 = mpf_neg s.2 prec .f := rfl
theorem mpi_neg_snd (s : Mpi) (prec : Int) : (mpi_neg s prec).2 = mpf_neg s.1 prec .c := rfl

/-- `mpi_neg` swaps the endpoints and negates each (lower endpoint rounded down, upper rounded up). -/
theorem mpi_neg_eq (a b : Mpf) (prec : Int) :
    mpi_neg (a, b) prec = (mpf_neg b prec .f, mpf_neg a prec .c) := rfl

theorem mpi_pos_eq (a b : Mpf) (prec : Int) :
    mpi_pos (a, b) prec = (mpf_pos a prec .f, mpf_pos b prec .c) := rfl

theorem mpi_shift_eq (a b : Mpf) (n : Int) : mpi_shift (a, b) n = (mpf_shift a n, mpf_shift b n) := rfl

theorem mpci_neg_eq (x y : Mpi) (prec : Int) : mpci_neg (x, y) prec = (mpi_neg x prec, mpi_neg y prec) := rfl
theorem mpci_pos_eq (x y : Mpi) (prec : Int) : mpci_pos (x, y) prec = (mpi_pos x prec, mpi_pos y prec) := rfl
theorem mpci_add_eq (x y : Mpci) (prec : Int) :
    mpci_add x y prec = (mpi_add x.1 y.1 prec, mpi_add x.2 y.2 prec) := rfl
theorem mpci_sub_eq (x y : Mpci) (prec : Int) :
    mpci_sub x y prec = (mpi_sub x.1 y.1 prec, mpi_sub x.2 y.2 prec) := rfl

/-! ### `mpi_add` / `mpi_sub` never return a nan endpoint (the nan → ±inf replacement) -/

theorem fninf_ne_fnan : fninf ≠ fnan := by decide
theorem finf_ne_fnan : finf ≠ fnan := by decide

theorem mpi_add_fst_ne_nan (s t : Mpi) (prec : Int) : (mpi_add s t prec).1 ≠ fnan := by
  show (if mpf_add s.1 t.1 prec .f = fnan then fninf else mpf_add s.1 t.1 prec .f) ≠ fnan
  split
  · exact fninf_ne_fnan
  · assumption

theorem mpi_add_snd_ne_nan (s t : Mpi) (prec : Int) : (mpi_add s t prec).2 ≠ fnan := by
  show (if mpf_add s.2 t.2 prec .c = fnan then finf else mpf_add s.2 t.2 prec .c) ≠ fnan
  split
  · exact finf_ne_fnan
  · assumption

theorem mpi_sub_fst_ne_nan (s t : Mpi) (prec : Int) : (mpi_sub s t prec).1 ≠ fnan := by
  show (if mpf_sub s.1 t.2 prec .f = fnan then fninf else mpf_sub s.1 t.2 prec .f) ≠ fnan
  split
  · exact fninf_ne_fnan
  · assumption

theorem mpi_sub_snd_ne_nan (s t : Mpi) (prec : Int) : (mpi_sub s t prec).2 ≠ fnan := by
  show (if mpf_sub s.2 t.1 prec .c = fnan then finf else mpf_sub s.2 t.1 prec .c) ≠ fnan
  split
  · exact finf_ne_fnan
  · assumption

/-- when the two directed sums are not nan, `mpi_add` is just the pair of directed sums -/
theorem mpi_add_of_ne_nan (s t : Mpi) (prec : Int)
    (ha : mpf_add s.1 t.1 prec .f ≠ fnan) (hb : mpf_add s.2 t.2 prec .c ≠ fnan) :
    mpi_add s t prec = (mpf_add s.1 t.1 prec .f, mpf_add s.2 t.2 prec .c) := by
  show ((if mpf_add s.1 t.1 prec .f = fnan then fninf else mpf_add s.1 t.1 prec .f),
        (if mpf_add s.2 t.2 prec .c = fnan then finf else mpf_add s.2 t.2 prec .c)) = _
  rw [if_neg ha, if_neg hb]

theorem mpi_sub_of_ne_nan (s t : Mpi) (prec : Int)
    (ha : mpf_sub s.1 t.2 prec .f ≠ fnan) (hb : mpf_sub s.2 t.1 prec .c ≠ fnan) :
    mpi_sub s t prec = (mpf_sub s.1 t.2 prec .f, mpf_sub s.2 t.1 prec .c) := by
  show ((if mpf_sub s.1 t.2 prec .f = fnan then fninf else mpf_sub s.1 t.2 prec .f),
        (if mpf_sub s.2 t.1 prec .c = fnan then finf else mpf_sub s.2 t.1 prec .c)) = _
  rw [if_neg ha, if_neg hb]

/-! ### comparisons in terms of the endpoint comparisons -/

theorem mpi_gt_eq (s t : Mpi) : mpi_gt s t = mpi_lt t s := rfl
theorem mpi_ge_eq (s t : Mpi) : mpi_ge s t = mpi_le t s := rfl

theorem mpi_eq_iff (s t : Mpi) : mpi_eq s t = true ↔ s.1 = t.1 ∧ s.2 = t.2 := by
  unfold mpi_eq
  rw [beq_iff_eq]
  constructor
  · intro h; rw [h]; exact ⟨rfl, rfl⟩
  · intro ⟨h1, h2⟩; exact Prod.ext h1 h2

theorem mpi_ne_eq_not (s t : Mpi) : mpi_ne s t = !mpi_eq s t := rfl

theorem mpi_lt_true_iff (s t : Mpi) : mpi_lt s t = some true ↔ mpf_lt s.2 t.1 = true := by
  unfold mpi_lt
  constructor
  · intro h
    by_cases h1 : mpf_lt s.2 t.1 = true
    · exact h1
    · rw [if_neg h1] at h
      by_cases h2 : mpf_ge s.1 t.2 = true
      · rw [if_pos h2] at h; exact absurd h (by decide)
      · rw [if_neg h2] at h; exact absurd h (by decide)
  · intro h; rw [if_pos h]

theorem mpi_lt_false_iff (s t : Mpi) :
    mpi_lt s t = some false ↔ mpf_lt s.2 t.1 = false ∧ mpf_ge s.1 t.2 = true := by
  unfold mpi_lt
  constructor
  · intro h
    by_cases h1 : mpf_lt s.2 t.1 = true
    · rw [if_pos h1] at h; exact absurd h (by decide)
    · rw [if_neg h1] at h
      by_cases h2 : mpf_ge s.1 t.2 = true
      · exact ⟨Bool.eq_false_iff.mpr h1, h2⟩
      · rw [if_neg h2] at h; exact absurd h (by decide)
  · intro ⟨h1, h2⟩
    rw [if_neg (by rw [h1]; decide), if_pos h2]

theorem mpi_lt_none_iff (s t : Mpi) :
    mpi_lt s t = none ↔ mpf_lt s.2 t.1 = false ∧ mpf_ge s.1 t.2 = false := by
  unfold mpi_lt
  constructor
  · intro h
    by_cases h1 : mpf_lt s.2 t.1 = true
    · rw [if_pos h1] at h; exact absurd h (by decide)
    · rw [if_neg h1] at h
      by_cases h2 : mpf_ge s.1 t.2 = true
      · rw [if_pos h2] at h; exact absurd h (by decide)
      · exact ⟨Bool.eq_false_iff.mpr h1, Bool.eq_false_iff.mpr h2⟩
  · intro ⟨h1, h2⟩
    rw [if_neg (by rw [h1]; decide), if_neg (by rw [h2]; decide)]

theorem mpi_le_true_iff (s t : Mpi) : mpi_le s t = some true ↔ mpf_le s.2 t.1 = true := by
  unfold mpi_le
  constructor
  · intro h
    by_cases h1 : mpf_le s.2 t.1 = true
    · exact h1
    · rw [if_neg h1] at h
      by_cases h2 : mpf_gt s.1 t.2 = true
      · rw [if_pos h2] at h; exact absurd h (by decide)
      · rw [if_neg h2] at h; exact absurd h (by decide)
  · intro h; rw [if_pos h]

theorem mpi_le_false_iff (s t : Mpi) :
    mpi_le s t = some false ↔ mpf_le s.2 t.1 = false ∧ mpf_gt s.1 t.2 = true := by
  unfold mpi_le
  constructor
  · intro h
    by_cases h1 : mpf_le s.2 t.1 = true
    · rw [if_pos h1] at h; exact absurd h (by decide)
    · rw [if_neg h1] at h
      by_cases h2 : mpf_gt s.1 t.2 = true
      · exact ⟨Bool.eq_false_iff.mpr h1, h2⟩
      · rw [if_neg h2] at h; exact absurd h (by decide)
  · intro ⟨h1, h2⟩
    rw [if_neg (by rw [h1]; decide), if_pos h2]

theorem mpi_le_none_iff (s t : Mpi) :
    mpi_le s t = none ↔ mpf_le s.2 t.1 = false ∧ mpf_gt s.1 t.2 = false := by
  unfold mpi_le
  constructor
  · intro h
    by_cases h1 : mpf_le s.2 t.1 = true
    · rw [if_pos h1] at h; exact absurd h (by decide)
    · rw [if_neg h1] at h
      by_cases h2 : mpf_gt s.1 t.2 = true
      · rw [if_pos h2] at h; exact absurd h (by decide)
      · exact ⟨Bool.eq_false_iff.mpr h1, Bool.eq_false_iff.mpr h2⟩
  · intro ⟨h1, h2⟩
    rw [if_neg (by rw [h1]; decide), if_neg (by rw [h2]; decide)]

/-- the four endpoint comparisons in terms of `mpf_cmp`, away from nan -/
theorem mpf_lt_eq_cmp (a b : Mpf) (ha : a ≠ fnan) (hb : b ≠ fnan) : mpf_lt a b = decide (mpf_cmp a b < 0) := by
  unfold mpf_lt
  rw [if_neg (by intro h; cases h with | inl h => exact ha h | inr h => exact hb h)]

theorem mpf_le_eq_cmp (a b : Mpf) (ha : a ≠ fnan) (hb : b ≠ fnan) : mpf_le a b = decide (mpf_cmp a b ≤ 0) := by
  unfold mpf_le
  rw [if_neg (by intro h; cases h with | inl h => exact ha h | inr h => exact hb h)]

theorem mpf_gt_eq_cmp (a b : Mpf) (ha : a ≠ fnan) (hb : b ≠ fnan) : mpf_gt a b = decide (mpf_cmp a b > 0) := by
  unfold mpf_gt
  rw [if_neg (by intro h; cases h with | inl h => exact ha h | inr h => exact hb h)]

theorem mpf_ge_eq_cmp (a b : Mpf) (ha : a ≠ fnan) (hb : b ≠ fnan) : mpf_ge a b = decide (mpf_cmp a b ≥ 0) := by
  unfold mpf_ge
  rw [if_neg (by intro h; cases h with | inl h => exact ha h | inr h => exact hb h)]

/-- `mpi_lt` on nan-free intervals, entirely in terms of `mpf_cmp` on endpoints -/
theorem mpi_lt_cmp (s t : Mpi) (h1 : s.1 ≠ fnan) (h2 : s.2 ≠ fnan) (h3 : t.1 ≠ fnan) (h4 : t.2 ≠ fnan) :
    mpi_lt s t = if mpf_cmp s.2 t.1 < 0 then some true else if mpf_cmp s.1 t.2 ≥ 0 then some false else none := by
  unfold mpi_lt
  rw [mpf_lt_eq_cmp _ _ h2 h3, mpf_ge_eq_cmp _ _ h1 h4]
  simp only [decide_eq_true_eq]

theorem mpi_le_cmp (s t : Mpi) (h1 : s.1 ≠ fnan) (h2 : s.2 ≠ fnan) (h3 : t.1 ≠ fnan) (h4 : t.2 ≠ fnan) :
    mpi_le s t = if mpf_cmp s.2 t.1 ≤ 0 then some true else if mpf_cmp s.1 t.2 > 0 then some false else none := by
  unfold mpi_le
  rw [mpf_le_eq_cmp _ _ h2 h3, mpf_gt_eq_cmp _ _ h1 h4]
  simp only [decide_eq_true_eq]

/-! ### membership at the context layer -/

/-- `t in s` (both `ivmpf`): both endpoint tests `s.a ≤ t.a` and `t.b ≤ s.b` answer `True`. -/
theorem ivmpf_contains_iv_iff (s t : Mpi) :
    ivmpf_contains_iv s t = true ↔ mpf_le s.1 t.1 = true ∧ mpf_le t.2 s.2 = true := by
  unfold ivmpf_contains_iv pyAnd
  constructor
  · intro h
    by_cases h1 : mpi_le (s.1, s.1) (t.1, t.1) = some true
    · have h1' := (mpi_le_true_iff _ _).mp h1
      rw [h1] at h
      simp only [truthy, if_true] at h
      have h2 : mpi_le (t.2, t.2) (s.2, s.2) = some true := by
        cases hh : mpi_le (t.2, t.2) (s.2, s.2) with
        | none => rw [hh] at h; exact absurd h (by decide)
        | some b => cases b with
          | true => rfl
          | false => rw [hh] at h; exact absurd h (by decide)
      exact ⟨h1', (mpi_le_true_iff _ _).mp h2⟩
    · exfalso
      cases hh : mpi_le (s.1, s.1) (t.1, t.1) with
      | none => rw [hh] at h; simp [truthy] at h
      | some b => cases b with
        | true => exact h1 hh
        | false => rw [hh] at h; simp [truthy] at h
  · intro ⟨h1, h2⟩
    have e1 : mpi_le (s.1, s.1) (t.1, t.1) = some true := (mpi_le_true_iff _ _).mpr h1
    have e2 : mpi_le (t.2, t.2) (s.2, s.2) = some true := (mpi_le_true_iff _ _).mpr h2
    rw [e1, e2]; rfl

/-! ### one-step unfoldings of the recursive / looping functions -/

/-- the negate-and-recurse step of `mpi_div`: a non-zero numerator over a denominator with negative
lower endpoint that does not straddle zero -/
theorem mpi_div_neg_den (s t : Mpi) (prec : Int)
    (h0 : ¬ (mpf_sign s.1 = mpf_sign s.2 ∧ mpf_sign s.2 = 0))
    (h1 : mpf_sign t.1 < 0) (h2 : ¬ mpf_sign t.2 > 0) :
    mpi_div s t prec = mpi_div (mpi_neg s) (mpi_neg t) prec := by
  rw [mpi_div]
  simp only [h0, h1, h2, and_false, ↓reduceIte, ↓reduceDIte]

/-- zero numerator: `[0,0] / t` is `[0,0]`, or the whole line when `t` contains / touches zero -/
theorem mpi_div_zero_num (s t : Mpi) (prec : Int)
    (h0 : mpf_sign s.1 = mpf_sign s.2 ∧ mpf_sign s.2 = 0) :
    mpi_div s t prec =
      if (mpf_sign t.1 < 0 ∧ mpf_sign t.2 > 0) ∨ (mpf_sign t.1 = 0 ∨ mpf_sign t.2 = 0)
      then .ok (fninf, finf) else .ok (fzero, fzero) := by
  rw [mpi_div]
  simp only [h0, and_self, ↓reduceIte]

/-- a denominator straddling zero gives the whole line -/
theorem mpi_div_straddle (s t : Mpi) (prec : Int)
    (h0 : ¬ (mpf_sign s.1 = mpf_sign s.2 ∧ mpf_sign s.2 = 0))
    (h1 : mpf_sign t.1 < 0 ∧ mpf_sign t.2 > 0) :
    mpi_div s t prec = .ok (fninf, finf) := by
  rw [mpi_div]
  simp only [h0, h1, and_self, ↓reduceIte, ↓reduceDIte]

theorem mpi_pow_int_nonneg (s : Mpi) (n : Int) (prec : Int) (h : ¬ n < 0) :
    mpi_pow_int s n prec = mpiPowNat s n.toNat prec := by
  unfold mpi_pow_int; rw [if_neg h]

theorem mpi_pow_int_zero (s : Mpi) (prec : Int) : mpi_pow_int s 0 prec = .ok (fone, fone) := rfl
theorem mpi_pow_int_one (s : Mpi) (prec : Int) : mpi_pow_int s 1 prec = .ok s := rfl
theorem mpi_pow_int_two (s : Mpi) (prec : Int) : mpi_pow_int s 2 prec = .ok (mpi_square s prec) := rfl

theorem mpci_pow_int_zero (x : Mpci) (prec : Int) : mpci_pow_int x 0 prec = .ok (mpi_one, mpi_zero) := rfl
theorem mpci_pow_int_one (x : Mpci) (prec : Int) : mpci_pow_int x 1 prec = .ok (mpci_pos x prec) := rfl
theorem mpci_pow_int_two (x : Mpci) (prec : Int) : mpci_pow_int x 2 prec = .ok (mpci_square x prec) := rfl

theorem complex_int_pow_zero (a b : Int) : complex_int_pow a b 0 = (1, 0) := rfl
theorem complex_int_pow_one (a b : Int) : complex_int_pow a b 1 = (1 * a - 0 * b, 0 * a + 1 * b) := rfl

/-- `complex_int_pow` on a concrete input: (1 + 2i)^5 = 41 − 38i -/
example : complex_int_pow 1 2 5 = (41, -38) := by decide

/-- pure real base: `mpc_pow_int` is `mpf_pow_int` on the real part -/
theorem mpc_pow_int_real (fb : Mpc → Int → Int → Rnd → Except Err Mpc) (a : Mpf) (n prec : Int) (rnd : Rnd) :
    mpc_pow_int fb (a, fzero) n prec rnd = (do let v ← mpf_pow_int a n prec rnd; pure (v, fzero)) := by
  rw [mpc_pow_int]; simp only [if_true]

end Mp
