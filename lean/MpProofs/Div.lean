/-
  MpProofs/Div.lean — `mpf_div`, `mpf_rdiv_int`, `from_rational`, `mpf_mul_int` are correctly rounded.
-/
import MpProofs.Add
import Mathlib.Tactic.LinearCombination

namespace Mp

/-- The common core of the two division routines: integer quotient with a sticky bit.
`a / b` (naturals, quotient with more than `prec` bits) scaled by `2^e`. -/
theorem div_core_spec {sign : ℕ} (hs : sign ≤ 1) {a b : ℕ} (hb : b ≠ 0) (e e' : ℤ) (he' : e' = e - 1)
    {prec : ℤ} (hp : 0 < prec) (rnd : Rnd) (hbig : 2 ^ prec.toNat ≤ a / b) :
    RoundOK prec rnd ((-1 : ℚ) ^ sign * ((a : ℚ) / b * 2 ^ e))
      (if a % b ≠ 0 then
        normalize1 sign (((a / b) <<< 1) + 1) e' (bitcount (((a / b) <<< 1) + 1)) prec rnd
       else normalize sign (a / b) e (bitcount (a / b)) prec rnd) := by
  have hbQ : (0 : ℚ) < b := by exact_mod_cast Nat.pos_of_ne_zero hb
  have hdm := Nat.div_add_mod a b
  have hml := Nat.mod_lt a (Nat.pos_of_ne_zero hb)
  set q := a / b with hq
  set r := a % b with hr
  have haQ : (a : ℚ) = b * q + r := by exact_mod_cast hdm.symm
  split
  · rename_i hrem
    -- sticky stand-in 2q+1
    have hM : (q <<< 1) + 1 = 2 * q + 1 := by rw [Nat.shiftLeft_eq]; ring
    rw [hM]
    have hodd : (2 * q + 1) % 2 = 1 := by omega
    rw [normalize1_eq_normalize _ hodd, he']
    obtain ⟨p, rfl⟩ : ∃ p : ℕ, prec = p := ⟨prec.toNat, by omega⟩
    rw [Int.toNat_natCast] at hbig
    have hbits : p + 1 < bitcount (2 * q + 1) := lt_bitcount_of_le (by rw [pow_succ]; omega)
    have hrpos : (0 : ℚ) < r := by exact_mod_cast Nat.pos_of_ne_zero hrem
    have hrlt : (r : ℚ) < b := by exact_mod_cast hml
    have hw : (2 : ℚ) ^ e = 2 ^ (e - 1) * 2 := by
      rw [← zpow_add_one₀ (by norm_num : (2 : ℚ) ≠ 0)]; congr 1; ring
    have hpos := two_zpow_pos (K := ℚ) (e - 1)
    have hdiv : (a : ℚ) / b = q + r / b := by rw [haQ]; field_simp
    have hfrac1 : (0 : ℚ) < r / b := div_pos hrpos hbQ
    have hfrac2 : (r : ℚ) / b < 1 := (div_lt_one hbQ).2 hrlt
    obtain ⟨h1, h2, h3⟩ := normalize_round_gen (K := ℚ) hs (2 * q + 1) (e - 1) hp rnd ((a : ℚ) / b * 2 ^ e)
      (fun h => by omega)
      (fun n hn hbc => by
        rw [Int.toNat_natCast] at hbc ⊢
        apply cellLike_of_cell (by omega : 0 < p) hn hbc (e - 1) (S := q) (w := e) hbig
        · rw [hw]; push_cast; nlinarith
        · rw [hw]; push_cast; nlinarith
        · rw [hdiv]; nlinarith [two_zpow_pos (K := ℚ) e]
        · rw [hdiv]; nlinarith [two_zpow_pos (K := ℚ) e])
    exact ⟨h1, fun h => by omega, fun _ => ⟨h3, h2⟩⟩
  · rename_i hrem
    have hr0 : r = 0 := by omega
    have : (a : ℚ) / b = q := by rw [haQ, hr0, Nat.cast_zero, add_zero]; field_simp
    rw [this]
    exact normalize_spec hs q e hp rnd

theorem val_div_canon (s t : Mpf) (hs : s.sign ≤ 1) (ht : t.sign ≤ 1) (htm : t.man ≠ 0) (k : ℕ) :
    (-1 : ℚ) ^ (s.sign ^^^ t.sign) * (((s.man <<< k : ℕ) : ℚ) / (t.man : ℚ) * 2 ^ (s.exp - t.exp - k))
      = val s / val t := by
  rw [val_def, val_def, neg_one_pow_xor hs ht, shl_cast]
  have h1 : (t.man : ℚ) ≠ 0 := by exact_mod_cast htm
  have h2 : (2 : ℚ) ^ t.exp ≠ 0 := (two_zpow_pos t.exp).ne'
  have h3 : (2 : ℚ) ^ (s.exp - t.exp - k) = 2 ^ s.exp / 2 ^ t.exp / 2 ^ k := by
    rw [zpow_sub₀ (by norm_num), zpow_sub₀ (by norm_num), zpow_natCast]
  have hk : (2 : ℚ) ^ k ≠ 0 := pow_ne_zero _ (by norm_num)
  have hs' : s.sign = 0 ∨ s.sign = 1 := by omega
  have ht' : t.sign = 0 ∨ t.sign = 1 := by omega
  rw [h3]
  rcases hs' with a | a <;> rcases ht' with b | b <;> simp [a, b] <;> field_simp

/-- the working quotient has more than `prec` bits -/
theorem quot_big {a b : ℕ} (hb : b ≠ 0) {k p : ℕ} (ha : 2 ^ (k + p) ≤ a) (hb2 : b < 2 ^ k) : 2 ^ p ≤ a / b := by
  rw [Nat.le_div_iff_mul_le (Nat.pos_of_ne_zero hb)]
  calc 2 ^ p * b ≤ 2 ^ p * 2 ^ k := Nat.mul_le_mul_left _ hb2.le
    _ = 2 ^ (k + p) := by rw [← pow_add, add_comm]
    _ ≤ a := ha

/-- **division is correctly rounded** for finite canonical operands with a nonzero divisor -/
theorem mpf_div_spec {s t : Mpf} (hs : CanonFin s) (ht : CanonFin t) (ht0 : t ≠ fzero) {prec : ℤ}
    (hp : 0 < prec) (rnd : Rnd) :
    ∃ r, mpf_div s t prec rnd = .ok r ∧ RoundOK prec rnd (val s / val t) r := by
  rcases ht.cases with rfl | ⟨htm, hts, hto, htb⟩
  · exact absurd rfl ht0
  rcases hs.cases with rfl | ⟨hsm, hss, hso, hsb⟩
  · refine ⟨fzero, ?_, ?_⟩
    · have h1 : t ≠ fnan := by intro h; rw [h] at htm; exact htm rfl
      have h2 : fzero.man = 0 := rfl
      simp [mpf_div, ht0, h1, h2]
    · rw [val_fzero, zero_div]; exact roundOK_fzero hp.le rnd
  unfold mpf_div
  simp only [hsm, htm, or_self, if_false]
  have hsign := xor_le_one hss hts
  split
  · rename_i h1
    refine ⟨_, rfl, ?_⟩
    rw [hsb]
    have := normalize1_spec hsign (Or.inl hso) (s.exp - t.exp) hp rnd
    convert this using 1
    have := val_div_canon s t hss hts htm 0
    simp only [Nat.shiftLeft_eq, pow_zero, mul_one, h1, Nat.cast_one, div_one, Nat.cast_zero, sub_zero] at this
    rw [← this]
  · rename_i h1
    set extra : ℤ := if prec - s.bc + t.bc + 5 < 5 then 5 else prec - s.bc + t.bc + 5 with hextra
    have hex5 : 5 ≤ extra := by rw [hextra]; split <;> omega
    have hex : prec - s.bc + t.bc + 5 ≤ extra := by rw [hextra]; split <;> omega
    obtain ⟨k, hk⟩ : ∃ k : ℕ, extra = k := ⟨extra.toNat, by omega⟩
    rw [hk, Int.toNat_natCast]
    have hbig : 2 ^ prec.toNat ≤ (s.man <<< k) / t.man := by
      refine quot_big htm (k := bitcount t.man) ?_ (bitcount_lt t.man)
      rw [Nat.shiftLeft_eq]
      have h1 := bitcount_le hsm
      have hb := bitcount_pos hsm
      calc 2 ^ (bitcount t.man + prec.toNat) ≤ 2 ^ (bitcount s.man - 1 + k) :=
            Nat.pow_le_pow_right (by norm_num) (by omega)
        _ = 2 ^ (bitcount s.man - 1) * 2 ^ k := pow_add _ _ _
        _ ≤ s.man * 2 ^ k := Nat.mul_le_mul_right _ h1
    have hcore := div_core_spec hsign htm (a := s.man <<< k) (s.exp - t.exp - k) (s.exp - t.exp - (k + 1))
      (by ring) hp rnd hbig
    rw [val_div_canon s t hss hts htm k] at hcore
    split
    · rename_i hrem
      simp only [hrem, ne_eq, not_false_eq_true, if_true] at hcore
      exact ⟨_, rfl, hcore⟩
    · rename_i hrem
      simp only [hrem, if_false] at hcore
      exact ⟨_, rfl, hcore⟩

theorem mpf_div_zero {s : Mpf} (hs : CanonFin s) (prec : ℤ) (rnd : Rnd) :
    mpf_div s fzero prec rnd = .error .zeroDiv := by
  rcases hs.cases with rfl | ⟨hsm, _⟩
  · simp [mpf_div, fzero]
  · have : s ≠ fzero := by intro h; rw [h] at hsm; exact hsm rfl
    simp [mpf_div, this, fzero]

theorem from_int_canon (n : ℤ) : CanonFin (from_int n) := (from_int_spec n (le_refl 0) .d).1

theorem from_int_val (n : ℤ) : val (from_int n) = n := (from_int_spec n (le_refl 0) .d).2.1 rfl

theorem from_int_ne_zero {n : ℤ} (h : n ≠ 0) : from_int n ≠ fzero := by
  intro h0
  have := from_int_val n
  rw [h0, val_fzero] at this
  exact h (by exact_mod_cast this.symm)

/-- `from_rational p q` is the correctly rounded value of `p/q` (`q ≠ 0`) -/
theorem from_rational_spec (p q : ℤ) (hq : q ≠ 0) {prec : ℤ} (hp : 0 < prec) (rnd : Rnd) :
    ∃ r, from_rational p q prec rnd = .ok r ∧ RoundOK prec rnd ((p : ℚ) / q) r := by
  have := mpf_div_spec (from_int_canon p) (from_int_canon q) (from_int_ne_zero hq) hp rnd
  rwa [from_int_val, from_int_val] at this

theorem from_rational_zero (p : ℤ) (prec : ℤ) (rnd : Rnd) : from_rational p 0 prec rnd = .error .zeroDiv := by
  have h0 : from_int 0 = fzero := by decide
  rw [from_rational, h0]
  exact mpf_div_zero (from_int_canon p) prec rnd

/-- `mpf_rdiv_int n t`: integer numerator divided by a finite value -/
theorem mpf_rdiv_int_spec (n : ℤ) {t : Mpf} (ht : CanonFin t) (ht0 : t ≠ fzero) {prec : ℤ}
    (hp : 0 < prec) (rnd : Rnd) :
    ∃ r, mpf_rdiv_int n t prec rnd = .ok r ∧ RoundOK prec rnd ((n : ℚ) / val t) r := by
  rcases ht.cases with rfl | ⟨htm, hts, hto, htb⟩
  · exact absurd rfl ht0
  unfold mpf_rdiv_int
  by_cases hn : n = 0
  · simp only [hn, true_or, if_true]
    have := mpf_div_spec (from_int_canon 0) ht ht0 hp rnd
    rwa [from_int_val] at this
  · simp only [hn, htm, or_self, if_false]
    set sign := (if n < 0 then t.sign ^^^ 1 else t.sign) with hsign
    have hsle : sign ≤ 1 := by rw [hsign]; split; exact xor_le_one hts (le_refl 1); exact hts
    obtain ⟨k, hk⟩ : ∃ k : ℕ, prec + t.bc + 5 = k := ⟨(prec + t.bc + 5).toNat, by
      have := bitcount_pos htm; omega⟩
    rw [hk, Int.toNat_natCast]
    have hn0 : n.natAbs ≠ 0 := by omega
    have hbig : 2 ^ prec.toNat ≤ (n.natAbs <<< k) / t.man := by
      refine quot_big htm (k := bitcount t.man) ?_ (bitcount_lt t.man)
      rw [Nat.shiftLeft_eq]
      calc 2 ^ (bitcount t.man + prec.toNat) ≤ 2 ^ k := Nat.pow_le_pow_right (by norm_num) (by omega)
        _ = 1 * 2 ^ k := by ring
        _ ≤ n.natAbs * 2 ^ k := Nat.mul_le_mul_right _ (by omega)
    have hcore := div_core_spec hsle htm (a := n.natAbs <<< k) (-t.exp - k) (-t.exp - (k + 1))
      (by ring) hp rnd hbig
    have hval : (-1 : ℚ) ^ sign * (((n.natAbs <<< k : ℕ) : ℚ) / (t.man : ℚ) * 2 ^ (-t.exp - k)) = (n : ℚ) / val t := by
      rw [val_def, shl_cast]
      have h1 : (t.man : ℚ) ≠ 0 := by exact_mod_cast htm
      have h2 : (2 : ℚ) ^ t.exp ≠ 0 := (two_zpow_pos t.exp).ne'
      have h3 : (2 : ℚ) ^ (-t.exp - k) = 1 / 2 ^ t.exp / 2 ^ k := by
        rw [zpow_sub₀ (by norm_num), zpow_neg, zpow_natCast]; ring
      have hk2 : (2 : ℚ) ^ k ≠ 0 := pow_ne_zero _ (by norm_num)
      have hts' : t.sign = 0 ∨ t.sign = 1 := by omega
      have hnabs : (n.natAbs : ℚ) = if n < 0 then -(n : ℚ) else n := by
        split
        · have : (n.natAbs : ℤ) = -n := by omega
          have h' : ((n.natAbs : ℤ) : ℚ) = -(n : ℚ) := by rw [this]; push_cast; ring
          rw [← h']; exact (Int.cast_natCast _).symm
        · have : (n.natAbs : ℤ) = n := by omega
          have h' : ((n.natAbs : ℤ) : ℚ) = (n : ℚ) := by rw [this]
          rw [← h']; exact (Int.cast_natCast _).symm
      rw [h3, hnabs, hsign]
      rcases hts' with h | h <;> by_cases hneg : n < 0 <;> simp [h, hneg] <;> field_simp
    rw [hval] at hcore
    split
    · rename_i hrem
      simp only [hrem, ne_eq, not_false_eq_true, if_true] at hcore
      exact ⟨_, rfl, hcore⟩
    · rename_i hrem
      simp only [hrem, if_false] at hcore
      exact ⟨_, rfl, hcore⟩

/-- `mpf_mul_int`: multiplication by a Python integer -/
theorem mpf_mul_int_spec {s : Mpf} (hs : CanonFin s) (n : ℤ) {prec : ℤ} (hp : 0 < prec) (rnd : Rnd) :
    RoundOK prec rnd (val s * n) (mpf_mul_int s n prec rnd) := by
  unfold mpf_mul_int
  rcases hs.cases with rfl | ⟨hsm, hss, hso, hsb⟩
  · have h0 : fzero.man = 0 := rfl
    simp only [h0, if_true]
    have := mpf_mul_spec canonFin_fzero (from_int_canon n) hp.le rnd
    rwa [from_int_val] at this
  · simp only [hsm, if_false]
    by_cases hn : n = 0
    · simp only [hn, if_true, Int.cast_zero, mul_zero]; exact roundOK_fzero hp.le rnd
    · simp only [hn, if_false]
      have hn0 : n.natAbs ≠ 0 := by omega
      have hbc := mul_bc_fast hsm hn0
      rw [hsb, hbc]
      set sign := (if n < 0 then s.sign ^^^ 1 else s.sign) with hsign
      have hsle : sign ≤ 1 := by rw [hsign]; split; exact xor_le_one hss (le_refl 1); exact hss
      have := normalize_spec hsle (s.man * n.natAbs) s.exp hp rnd
      convert this using 1
      rw [val_def, hsign]
      have hss' : s.sign = 0 ∨ s.sign = 1 := by omega
      have hnabs : ((n.natAbs : ℕ) : ℚ) = if n < 0 then -(n : ℚ) else n := by
        split
        · have : (n.natAbs : ℤ) = -n := by omega
          have h' : ((n.natAbs : ℤ) : ℚ) = -(n : ℚ) := by rw [this]; push_cast; ring
          rw [← h']; exact (Int.cast_natCast _).symm
        · have : (n.natAbs : ℤ) = n := by omega
          have h' : ((n.natAbs : ℤ) : ℚ) = (n : ℚ) := by rw [this]
          rw [← h']; exact (Int.cast_natCast _).symm
      push_cast
      rw [hnabs]
      rcases hss' with h | h <;> by_cases hneg : n < 0 <;> simp [h, hneg] <;> ring

/-- the two integer-multiplication variants agree on canonical finite operands -/
theorem gmpy_mpf_mul_int_eq {s : Mpf} (hs : CanonFin s) (n : ℤ) (prec : ℤ) (rnd : Rnd) :
    gmpy_mpf_mul_int s n prec rnd = mpf_mul_int s n prec rnd := by
  unfold gmpy_mpf_mul_int mpf_mul_int
  rcases hs.cases with rfl | ⟨hsm, hss, hso, hsb⟩
  · simp [fzero]
  · simp only [hsm, if_false]
    by_cases hn : n = 0
    · simp [hn]
    · simp only [hn, if_false]
      have hn0 : n.natAbs ≠ 0 := by omega
      have hbc := mul_bc_fast hsm hn0
      rw [hsb, hbc]

end Mp
