/-
  MpProofs/Sqrt.lean — `mpf_sqrt` (libmpf.py) returns the correctly rounded real square root, in all five modes.
  The value lives in ℝ (`Real.sqrt`); the rounding vocabulary of MpProofs/Spec.lean is generic over ordered fields.
-/
import MpProofs.Arith
import Mathlib.Analysis.Real.Sqrt
import Mathlib.Data.Nat.Sqrt

namespace Mp

/-- the value of a raw mpf as a real number -/
noncomputable abbrev valR (x : Mpf) : ℝ := valK ℝ x

theorem from_man_exp_nat (r : ℕ) (e : ℤ) {prec : ℤ} (hp : prec ≠ 0) (rnd : Rnd) :
    from_man_exp (r : ℤ) e prec rnd = normalize 0 r e (bitcount r) prec rnd := by
  unfold from_man_exp
  have h1 : ¬ ((r : ℤ) < 0) := by omega
  simp [h1, hp]

/-- the integer square root brackets the real one -/
theorem nat_sqrt_bounds (x : ℕ) : ((Nat.sqrt x : ℕ) : ℝ) ≤ Real.sqrt x ∧ Real.sqrt x < ((Nat.sqrt x : ℕ) : ℝ) + 1 := by
  have h1 := Nat.sqrt_le' x
  have h2 := Nat.lt_succ_sqrt' x
  constructor
  · apply Real.le_sqrt_of_sq_le
    exact_mod_cast h1
  · rw [Real.sqrt_lt' (by positivity)]
    have : (x : ℝ) < ((Nat.succ (Nat.sqrt x) ^ 2 : ℕ) : ℝ) := by exact_mod_cast h2
    push_cast at this
    exact this

/-- a perfect square has an exact root; otherwise the real root is strictly inside the unit cell -/
theorem nat_sqrt_strict (x : ℕ) (h : x - Nat.sqrt x * Nat.sqrt x ≠ 0) :
    ((Nat.sqrt x : ℕ) : ℝ) < Real.sqrt x := by
  have h1 := Nat.sqrt_le' x
  have hlt : Nat.sqrt x ^ 2 < x := by rw [Nat.pow_two] at h1 ⊢; omega
  apply Real.lt_sqrt_of_sq_lt
  exact_mod_cast hlt

theorem nat_sqrt_exact (x : ℕ) (h : x - Nat.sqrt x * Nat.sqrt x = 0) :
    Real.sqrt x = ((Nat.sqrt x : ℕ) : ℝ) := by
  have h1 := Nat.sqrt_le' x
  have heq : Nat.sqrt x ^ 2 = x := by rw [Nat.pow_two] at h1 ⊢; omega
  have : (x : ℝ) = ((Nat.sqrt x : ℕ) : ℝ) ^ 2 := by exact_mod_cast heq.symm
  rw [this, Real.sqrt_sq (by positivity)]

/-- `sqrt (x · 2^(2k)) = sqrt x · 2^k` -/
theorem sqrt_scale (x : ℝ) (k : ℤ) : Real.sqrt (x * 2 ^ (2 * k)) = Real.sqrt x * 2 ^ k := by
  have hk : (0 : ℝ) ≤ 2 ^ k := by positivity
  have : (2 : ℝ) ^ (2 * k) = 2 ^ k * 2 ^ k := by rw [two_mul, zpow_add₀ (by norm_num)]
  rw [this, Real.sqrt_mul' _ (by positivity), Real.sqrt_mul_self hk]

/-- the contract of a rounded operation whose exact value is a real number -/
def RoundOKR (prec : ℤ) (rnd : Rnd) (x : ℝ) (r : Mpf) : Prop :=
  CanonFin r ∧ r.bc ≤ prec ∧ IsRound prec.toNat rnd x (valR r)

/-- core: integer square root of the shifted mantissa, then one rounding -/
theorem sqrt_core {M : ℕ} (hM : M ≠ 0) {E : ℤ} {prec : ℤ} (hp : 0 < prec) {sh : ℕ}
    (hbig : 2 ^ (2 * prec.toNat + 2) ≤ M * 2 ^ sh) {e' : ℤ} (he' : E - sh = 2 * e') (rnd : Rnd) :
    let x := M * 2 ^ sh
    let r := Nat.sqrt x
    RoundOKR prec rnd (Real.sqrt ((M : ℝ) * 2 ^ E))
      (if rnd = .f ∨ rnd = .d then normalize 0 r e' (bitcount r) prec rnd
       else if x - r * r ≠ 0 then normalize 0 (2 * r + 1) (e' - 1) (bitcount (2 * r + 1)) prec rnd
       else normalize 0 r e' (bitcount r) prec rnd) := by
  intro x r
  obtain ⟨p, rfl⟩ : ∃ p : ℕ, prec = p := ⟨prec.toNat, by omega⟩
  simp only [Int.toNat_natCast] at hbig ⊢
  have hp' : 0 < p := by omega
  -- the real root on the scale of r
  have hV : Real.sqrt ((M : ℝ) * 2 ^ E) = Real.sqrt (x : ℝ) * 2 ^ e' := by
    have : (M : ℝ) * 2 ^ E = (x : ℝ) * 2 ^ (2 * e') := by
      show (M : ℝ) * 2 ^ E = ((M * 2 ^ sh : ℕ) : ℝ) * 2 ^ (2 * e')
      rw [← he', zpow_sub₀ (by norm_num), zpow_natCast]; push_cast
      field_simp
    rw [this, sqrt_scale]
  have hE : (0 : ℝ) < 2 ^ e' := by positivity
  obtain ⟨hr1, hr2⟩ := nat_sqrt_bounds x
  -- r has more than p bits
  have hrbig : 2 ^ (p + 1) ≤ r := by
    rw [Nat.le_sqrt']
    calc (2 ^ (p + 1)) ^ 2 = 2 ^ (2 * p + 2) := by rw [← pow_mul]; congr 1; ring
      _ ≤ x := hbig
  have hr0 : r ≠ 0 := by have := Nat.two_pow_pos (p + 1); omega
  have hbcr : p + 1 < bitcount r := lt_bitcount_of_le hrbig
  have hX1 : (r : ℝ) * 2 ^ e' ≤ Real.sqrt (x : ℝ) * 2 ^ e' := mul_le_mul_of_nonneg_right hr1 hE.le
  have hX2 : Real.sqrt (x : ℝ) * 2 ^ e' < ((r : ℝ) + 1) * 2 ^ e' := mul_lt_mul_of_pos_right hr2 hE
  rw [hV]
  by_cases hdown : rnd = .f ∨ rnd = .d
  · rw [if_pos hdown]
    have hrn : rnd ≠ .n := by rcases hdown with h | h <;> rw [h] <;> decide
    have hsd : shiftsDown rnd 0 = true := by rcases hdown with h | h <;> rw [h] <;> rfl
    obtain ⟨h1, h2, h3⟩ := normalize_round_down (K := ℝ) (sign := 0) (by norm_num) r e' hp hrn hsd
      (Real.sqrt (x : ℝ) * 2 ^ e') (by omega) hX1 hX2
    simp only [pow_zero, one_mul, Int.toNat_natCast] at h3
    exact ⟨h1, h2, h3⟩
  · rw [if_neg hdown]
    by_cases hrem : x - r * r ≠ 0
    · rw [if_pos hrem]
      have hstrict := nat_sqrt_strict x hrem
      have hX1' : (r : ℝ) * 2 ^ e' < Real.sqrt (x : ℝ) * 2 ^ e' := mul_lt_mul_of_pos_right hstrict hE
      have hE1 : (2 : ℝ) ^ (e' - 1) = 2 ^ e' / 2 := by rw [zpow_sub_one₀ (by norm_num)]; ring
      have hpr : 2 ^ p ≤ r := le_trans (Nat.pow_le_pow_right (by norm_num) (by omega)) hrbig
      obtain ⟨h1, h2, h3⟩ := normalize_round_gen (K := ℝ) (sign := 0) (by norm_num) (2 * r + 1) (e' - 1) hp rnd
        (Real.sqrt (x : ℝ) * 2 ^ e')
        (fun hfit => by
          exfalso
          have : bitcount r ≤ bitcount (2 * r + 1) := bitcount_mono (by omega)
          omega)
        (fun n hn hbc => by
          simp only [Int.toNat_natCast] at hbc ⊢
          apply cellLike_of_cell (K := ℝ) hp' hn hbc (e' - 1) (S := r) (w := e') hpr
          · rw [hE1]; push_cast; nlinarith
          · rw [hE1]; push_cast; nlinarith
          · exact hX1'
          · exact hX2)
      simp only [pow_zero, one_mul, Int.toNat_natCast] at h3
      exact ⟨h1, h2, h3⟩
    · rw [if_neg hrem]
      push Not at hrem
      have hexact := nat_sqrt_exact x hrem
      obtain ⟨h1, h2, h3⟩ := normalize_round_gen (K := ℝ) (sign := 0) (by norm_num) r e' hp rnd
        ((r : ℝ) * 2 ^ e') (fun _ => rfl) (fun n _ _ => cellLike_exact _ n r e')
      simp only [pow_zero, one_mul, Int.toNat_natCast] at h3
      rw [hexact]
      exact ⟨h1, h2, h3⟩

theorem valR_pos_sign0 (s : Mpf) (h : s.sign = 0) : valR s = (s.man : ℝ) * 2 ^ s.exp := by
  simp [valR, valK, h]

/-- **`mpf_sqrt` is correctly rounded** for every finite canonical nonnegative argument (mantissa of any length),
every precision ≥ 1 and all five modes: the result is canonical, has at most `prec` bits, and is THE rounding of the
real square root. -/
theorem mpf_sqrt_spec {s : Mpf} (hs : CanonFin s) (hsign : s.sign = 0) {prec : ℤ} (hp : 0 < prec) (rnd : Rnd) :
    ∃ r, mpf_sqrt s prec rnd = .ok r ∧ RoundOKR prec rnd (Real.sqrt (valR s)) r := by
  unfold mpf_sqrt
  simp only [hsign, ne_eq, not_true_eq_false, if_false]
  rcases hs.cases with rfl | ⟨hm0, _, hodd, hbc⟩
  · refine ⟨fzero, by simp [fzero], canonFin_fzero, by simp [fzero]; omega, ?_⟩
    have : valR fzero = 0 := by simp [valR, valK, fzero]
    rw [this, Real.sqrt_zero]; exact isRound_zero _ _
  simp only [hm0, if_false]
  rw [valR_pos_sign0 s hsign]
  have hp0 : prec ≠ 0 := by omega
  obtain ⟨p, hpp⟩ : ∃ p : ℕ, prec = p := ⟨prec.toNat, by omega⟩
  by_cases hspecial : ¬ (s.exp % 2 ≠ 0) ∧ s.man = 1
  · -- an even power of two: exact
    simp only [hspecial, not_false_eq_true, and_self, if_true]
    obtain ⟨hev, hm1⟩ := hspecial
    push Not at hev
    have hb1 : s.bc = 1 := by rw [hbc, hm1, bitcount_one]; rfl
    have hn1 : normalize1 0 1 (s.exp / 2) s.bc prec rnd = ⟨0, 1, s.exp / 2, 1⟩ := by
      unfold normalize1
      rw [hb1]
      simp only [one_ne_zero, if_false]
      rw [if_pos (by omega)]
    refine ⟨_, rfl, ?_⟩
    simp only [hn1]
    have hE : s.exp = 2 * (s.exp / 2) := by omega
    have hval : Real.sqrt (((1 : ℕ) : ℝ) * 2 ^ s.exp) = 2 ^ (s.exp / 2) := by
      have := sqrt_scale 1 (s.exp / 2)
      rw [Real.sqrt_one, one_mul, one_mul, ← hE] at this
      simpa using this
    rw [hval]
    refine ⟨Or.inr ⟨by simp, by simp, by simp [bitcount_one]⟩, by simp; omega, ?_⟩
    have hv : valR ⟨0, 1, s.exp / 2, 1⟩ = 2 ^ (s.exp / 2) := by simp [valR, valK]
    rw [hv]
    apply isRound_self
    have := repb_nat (K := ℝ) (p := prec.toNat) (q := 1) (by
      have : 0 < prec.toNat := by omega
      exact Nat.one_lt_two_pow (by omega)) (s.exp / 2)
    simpa using this
  · simp only [hspecial, if_false]
    -- general case: reduce to an even exponent, shift, integer square root
    have key : ∀ (M : ℕ) (E bc' : ℤ), M ≠ 0 → bc' = (bitcount M : ℤ) → E % 2 = 0 →
        (M : ℝ) * 2 ^ E = (s.man : ℝ) * 2 ^ s.exp →
        ∃ r, (let shift := max 4 (2 * prec - bc' + 4)
              let shift := shift + shift % 2
              let x := M <<< shift.toNat
              let r := Nat.sqrt x
              if rnd = .f ∨ rnd = .d then
                (Except.ok (from_man_exp r ((E - shift) / 2) prec rnd) : Except Err Mpf)
              else
                let rem := x - r * r
                if rem ≠ 0 then
                  .ok (from_man_exp ((r <<< 1) + 1 : ℕ) ((E - (shift + 2)) / 2) prec rnd)
                else
                  .ok (from_man_exp r ((E - shift) / 2) prec rnd)) = .ok r ∧
          RoundOKR prec rnd (Real.sqrt ((s.man : ℝ) * 2 ^ s.exp)) r := by
      intro M E bc' hM hbc' hEven hval
      rw [← hval]
      dsimp only
      have h4 : 4 ≤ max 4 (2 * prec - bc' + 4) := le_max_left _ _
      have hge : 2 * prec - bc' + 4 ≤ max 4 (2 * prec - bc' + 4) := le_max_right _ _
      generalize max 4 (2 * prec - bc' + 4) = shift0 at *
      have hshift_even : (shift0 + shift0 % 2) % 2 = 0 := by omega
      have hshift_ge : shift0 ≤ shift0 + shift0 % 2 := by omega
      generalize shift0 + shift0 % 2 = shift at *
      obtain ⟨sh, hshn⟩ : ∃ sh : ℕ, shift = sh := ⟨shift.toNat, by omega⟩
      subst hshn
      simp only [Int.toNat_natCast, Nat.shiftLeft_eq, pow_one]
      obtain ⟨e', he'⟩ : ∃ e' : ℤ, E - sh = 2 * e' := ⟨(E - sh) / 2, by omega⟩
      have hq1 : (E - (sh : ℤ)) / 2 = e' := by omega
      have hq2 : (E - ((sh : ℤ) + 2)) / 2 = e' - 1 := by omega
      have hbig : 2 ^ (2 * prec.toNat + 2) ≤ M * 2 ^ sh := by
        have hb := bitcount_pos hM
        have hM1 : 2 ^ (bitcount M - 1) ≤ M := bitcount_le hM
        have hexp : 2 * prec.toNat + 2 ≤ (bitcount M - 1) + sh := by
          have : (prec.toNat : ℤ) = prec := by omega
          omega
        calc 2 ^ (2 * prec.toNat + 2) ≤ 2 ^ ((bitcount M - 1) + sh) := Nat.pow_le_pow_right (by norm_num) hexp
          _ = 2 ^ (bitcount M - 1) * 2 ^ sh := pow_add _ _ _
          _ ≤ M * 2 ^ sh := Nat.mul_le_mul_right _ hM1
      have core := sqrt_core hM (E := E) hp hbig he' rnd
      simp only at core
      refine ⟨_, ?_, core⟩
      simp only [hq1, hq2, from_man_exp_nat _ _ hp0]
      have e2 : Nat.sqrt (M * 2 ^ sh) * 2 + 1 = 2 * Nat.sqrt (M * 2 ^ sh) + 1 := by ring
      rw [e2]
      split_ifs <;> rfl
    by_cases hoddexp : s.exp % 2 ≠ 0
    · simp only [hoddexp, not_false_eq_true, if_true]
      have hM : s.man <<< 1 ≠ 0 := by rw [Nat.shiftLeft_eq]; omega
      have hb : s.bc + 1 = (bitcount (s.man <<< 1) : ℤ) := by
        rw [Nat.shiftLeft_eq, bitcount_mul_two_pow hm0, hbc]; push_cast; ring
      have hv : ((s.man <<< 1 : ℕ) : ℝ) * 2 ^ (s.exp - 1) = (s.man : ℝ) * 2 ^ s.exp := by
        rw [Nat.shiftLeft_eq, zpow_sub_one₀ (by norm_num)]; push_cast; ring
      exact key (s.man <<< 1) (s.exp - 1) (s.bc + 1) hM hb (by omega) hv
    · simp only [hoddexp, if_false]
      push Not at hoddexp
      exact key s.man s.exp s.bc hm0 hbc hoddexp rfl

/-- the square root of a negative number raises ComplexResult -/
theorem mpf_sqrt_negative {s : Mpf} (h : s.sign ≠ 0) (prec : ℤ) (rnd : Rnd) :
    mpf_sqrt s prec rnd = .error .complexResult := by
  unfold mpf_sqrt; simp [h]

end Mp
