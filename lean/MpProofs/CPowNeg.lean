/-
  MpProofs/CPowNeg.lean — negative integer powers of complex numbers: `z**(-m) = mpc_reciprocal(z**m at prec+4, rounded down)`.
  In the exact regime of `z**m` each component `w` of the inner power is the correct rounding of the exact component `P`
  at `prec+4` bits (relative error η ≤ 2^(-3-prec)); the reciprocal then carries two more perturbations (|w|² truncated at
  prec+10, one rounded division).  Result: every component of `z**(-m)` is within `6·2^(-prec)` relative of the exact
  component of `1/z^m`, for `prec ≥ 3`.
-/
import MpProofs.CDiv
import MpProofs.CPow

namespace Mp

/-- general form of the perturbation argument: `q ≈ t/m`, `t ≈ T`, `m ≈ M`, with the numeric side conditions `kup`, `klo` -/
theorem rel_perturb {T M t m q ε₁ ε₂ δ K : ℚ} (hM : 0 < M) (hm : 0 < m)
    (h1 : 0 ≤ ε₁) (h1' : ε₁ ≤ 1) (h2 : 0 ≤ ε₂) (h2' : ε₂ < 1) (hδ0 : 0 ≤ δ) (hδ1 : δ ≤ 1)
    (kup : (1 + ε₁) * (1 + δ) ≤ (1 + K) * (1 - ε₂)) (klo : (1 - K) * (1 + ε₂) ≤ (1 - ε₁) * (1 - δ))
    (ht : |t - T| ≤ |T| * ε₁) (hmM : |m - M| ≤ M * ε₂) (hq : |q - t / m| ≤ |t / m| * δ) :
    |q - T / M| ≤ |T / M| * K := by
  wlog hT : 0 ≤ T generalizing T t q
  · have hT' : 0 ≤ -T := by linarith
    have := this (T := -T) (t := -t) (q := -q)
      (by rw [show -t - -T = -(t - T) by ring, abs_neg, abs_neg]; exact ht)
      (by rw [show -q - -t / m = -(q - t / m) by ring, abs_neg, neg_div, abs_neg]; exact hq) hT'
    rwa [show -q - -T / M = -(q - T / M) by ring, abs_neg, neg_div, abs_neg] at this
  rw [abs_of_nonneg hT] at ht
  obtain ⟨ht1, ht2⟩ := abs_le.1 ht
  obtain ⟨hm1, hm2⟩ := abs_le.1 hmM
  have ht0 : 0 ≤ t := by nlinarith
  have htm0 : 0 ≤ t / m := div_nonneg ht0 hm.le
  rw [abs_of_nonneg htm0] at hq
  obtain ⟨hq1, hq2⟩ := abs_le.1 hq
  have hTM0 : 0 ≤ T / M := div_nonneg hT hM.le
  rw [abs_of_nonneg hTM0]
  have h1e : 0 < 1 - ε₂ := by linarith
  have h1e' : 0 < 1 + ε₂ := by linarith
  have hup : t / m ≤ T / M * ((1 + ε₁) / (1 - ε₂)) := by
    rw [div_mul_div_comm, div_le_div_iff₀ hm (by positivity)]
    have a1 : t ≤ T * (1 + ε₁) := by linarith
    have a2 : M * (1 - ε₂) ≤ m := by linarith
    calc t * (M * (1 - ε₂)) ≤ (T * (1 + ε₁)) * (M * (1 - ε₂)) :=
          mul_le_mul_of_nonneg_right a1 (by positivity)
      _ ≤ (T * (1 + ε₁)) * m := mul_le_mul_of_nonneg_left a2 (by positivity)
  have hlo : T / M * ((1 - ε₁) / (1 + ε₂)) ≤ t / m := by
    rw [div_mul_div_comm, div_le_div_iff₀ (by positivity) hm]
    have a1 : T * (1 - ε₁) ≤ t := by linarith
    have a2 : m ≤ M * (1 + ε₂) := by linarith
    have a3 : 0 ≤ T * (1 - ε₁) := mul_nonneg hT (by linarith)
    calc T * (1 - ε₁) * m ≤ T * (1 - ε₁) * (M * (1 + ε₂)) := mul_le_mul_of_nonneg_left a2 a3
      _ ≤ t * (M * (1 + ε₂)) := mul_le_mul_of_nonneg_right a1 (by positivity)
  have kup' : (1 + ε₁) / (1 - ε₂) * (1 + δ) ≤ 1 + K := by
    rw [div_mul_eq_mul_div, div_le_iff₀ h1e]; exact kup
  have klo' : 1 - K ≤ (1 - ε₁) / (1 + ε₂) * (1 - δ) := by
    rw [div_mul_eq_mul_div, le_div_iff₀ h1e']; exact klo
  rw [abs_le]
  constructor
  · have b1 : t / m * (1 - δ) ≤ q := by linarith
    have b2 : T / M * ((1 - ε₁) / (1 + ε₂)) * (1 - δ) ≤ t / m * (1 - δ) :=
      mul_le_mul_of_nonneg_right hlo (by linarith)
    have b3 : T / M * (1 - K) ≤ T / M * ((1 - ε₁) / (1 + ε₂) * (1 - δ)) :=
      mul_le_mul_of_nonneg_left klo' hTM0
    nlinarith
  · have b1 : q ≤ t / m * (1 + δ) := by linarith
    have b2 : t / m * (1 + δ) ≤ T / M * ((1 + ε₁) / (1 - ε₂)) * (1 + δ) :=
      mul_le_mul_of_nonneg_right hup (by linarith)
    have b3 : T / M * ((1 + ε₁) / (1 - ε₂) * (1 + δ)) ≤ T / M * (1 + K) :=
      mul_le_mul_of_nonneg_left kup' hTM0
    nlinarith

/-- norm of a complex power: `Re² + Im² = (x² + y²)^n` -/
theorem cpowQ_normsq (x y : ℚ) (n : ℕ) :
    (cpowQ x y n).1 * (cpowQ x y n).1 + (cpowQ x y n).2 * (cpowQ x y n).2 = (x * x + y * y) ^ n := by
  induction n with
  | zero => simp [cpowQ]
  | succ n ih =>
    simp only [cpowQ, pow_succ, ← ih]
    ring

/-- perturbing both components by relative `η` perturbs the squared modulus by at most relative `3η` -/
theorem normsq_perturb {P Q p q η : ℚ} (hη0 : 0 ≤ η) (hη1 : η ≤ 1)
    (hp : |p - P| ≤ |P| * η) (hq : |q - Q| ≤ |Q| * η) :
    |(p * p + q * q) - (P * P + Q * Q)| ≤ (P * P + Q * Q) * (3 * η) := by
  have sq : ∀ {a A : ℚ}, |a - A| ≤ |A| * η → |a * a - A * A| ≤ (A * A) * (3 * η) := by
    intro a A h
    have h1 : |a + A| ≤ |A| * (2 + η) := by
      calc |a + A| = |(a - A) + 2 * A| := by ring_nf
        _ ≤ |a - A| + |2 * A| := abs_add_le _ _
        _ ≤ |A| * η + 2 * |A| := by rw [abs_mul, abs_two]; linarith
        _ = |A| * (2 + η) := by ring
    have e : a * a - A * A = (a - A) * (a + A) := by ring
    rw [e, abs_mul]
    have hA : |A| * |A| = A * A := abs_mul_abs_self A
    calc |a - A| * |a + A| ≤ (|A| * η) * (|A| * (2 + η)) :=
          mul_le_mul h h1 (abs_nonneg _) (by positivity)
      _ = (A * A) * (η * (2 + η)) := by rw [← hA]; ring
      _ ≤ (A * A) * (3 * η) := by
          apply mul_le_mul_of_nonneg_left _ (mul_self_nonneg A)
          nlinarith
  have e : (p * p + q * q) - (P * P + Q * Q) = (p * p - P * P) + (q * q - Q * Q) := by ring
  rw [e]
  calc |(p * p - P * P) + (q * q - Q * Q)| ≤ |p * p - P * P| + |q * q - Q * Q| := abs_add_le _ _
    _ ≤ (P * P) * (3 * η) + (Q * Q) * (3 * η) := add_le_add (sq hp) (sq hq)
    _ = (P * P + Q * Q) * (3 * η) := by ring

/-- the numeric side conditions for `η = δ₀/8` (inner power at prec+4), `ε₂ = 3η(1+2^-9)`-ish slack folded into `δ₀/2`,
`δ = 4δ₀` (reciprocal), `K = 6δ₀`, when `δ₀ ≤ 1/8` -/
theorem neg_pow_constants {d : ℚ} (h0 : 0 ≤ d) (h1 : d ≤ 1 / 8) :
    (1 + d / 8) * (1 + 4 * d) ≤ (1 + 6 * d) * (1 - d / 2) ∧ (1 - 6 * d) * (1 + d / 2) ≤ (1 - d / 8) * (1 - 4 * d) := by
  constructor <;> nlinarith [mul_nonneg h0 h0]

end Mp
