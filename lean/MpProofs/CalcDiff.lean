/-
  MpProofs/CalcDiff.lean — proofs for C28 (`diff`, `diffs`, `diffun`, `taylor`, `differint`, `pade`).
    Fam.iteratedDeriv_eq   the closed form `Fam.derivRef f n x` IS the `n`-th derivative of `f` at `x`
    padeCheck_sound        `padeCheck … = true` ⇒ `|[x^j](A·Q − P)| ≤ t·scale` for all `j ≤ L+M`
    padeCheck_exact        … with `t = 0`: `X^(L+M+1) ∣ A·Q − P`
    differintRef_deriv / differintRef_int
-/
import MpModel.CalcDiff
import MpProofs.CalcFam
import Mathlib.Analysis.Calculus.IteratedDeriv.Defs
import Mathlib.Algebra.Polynomial.Coeff
import Mathlib.Algebra.Polynomial.Div

namespace Mp.Calc
open Mp.Encl

/-! ## iterated derivatives from a chain of `HasDerivAt` facts -/

/-- if `g (n+1)` is the derivative of `g n` everywhere, then `g n` is the `n`-th derivative of `g 0` -/
theorem iteratedDeriv_of_chain (g : ℕ → ℝ → ℝ) (h : ∀ n x, HasDerivAt (g n) (g (n + 1) x) x) (n : ℕ) :
    iteratedDeriv n (g 0) = g n := by
  induction n with
  | zero => exact iteratedDeriv_zero
  | succ n ih =>
    rw [iteratedDeriv_succ, ih]
    funext x
    exact (h n x).deriv

theorem descFact_eq_zero {m n : ℕ} (h : m < n) : descFact m n = 0 := by
  induction n with
  | zero => omega
  | succ n ih =>
    rw [descFact]
    rcases Nat.lt_succ_iff_lt_or_eq.1 h with h' | h'
    · rw [ih h', Nat.mul_zero]
    · subst h'; simp

/-- one monomial: `d/dx [c·m(m−1)…(m−n+1)·x^(m−n)] = c·m(m−1)…(m−n)·x^(m−n−1)` (also right when `n ≥ m`,
where the right-hand side is 0) -/
theorem monomial_step (c : ℝ) (m n : ℕ) (x : ℝ) :
    HasDerivAt (fun y : ℝ => c * (descFact m n : ℝ) * y ^ (m - n))
      (c * (descFact m (n + 1) : ℝ) * x ^ (m - (n + 1))) x := by
  have h := (hasDerivAt_pow (m - n) x).const_mul (c * (descFact m n : ℝ))
  refine h.congr_deriv ?_
  rw [descFact, Nat.cast_mul, Nat.sub_add_eq]
  ring

/-- the term list of the `n`-th derivative without dropping the vanished terms -/
def dTermsAll (ts : List (ℚ × ℕ)) (n : ℕ) : List (ℚ × ℕ) :=
  ts.map fun t => (t.1 * (descFact t.2 n : ℕ), t.2 - n)

/-- the term list used by `Fam.derivRef (.poly ts) n` -/
def dTerms (ts : List (ℚ × ℕ)) (n : ℕ) : List (ℚ × ℕ) :=
  (ts.filter fun t => n ≤ t.2).map fun t => (t.1 * (descFact t.2 n : ℕ), t.2 - n)

theorem polyFn_dTerms (ts : List (ℚ × ℕ)) (n : ℕ) (x : ℝ) :
    polyFn (dTerms ts n) x = polyFn (dTermsAll ts n) x := by
  induction ts with
  | nil => rfl
  | cons t ts ih =>
    unfold dTerms dTermsAll at *
    rw [List.filter_cons]
    by_cases ht : n ≤ t.2
    · simp only [ht, decide_true, if_true, List.map_cons, polyFn_cons, ih]
    · simp only [ht, decide_false, List.map_cons, polyFn_cons]
      rw [descFact_eq_zero (by omega)]
      simp only [Nat.cast_zero, mul_zero, Rat.cast_zero, zero_mul, zero_add]
      exact ih

theorem polyFn_dTermsAll_step (ts : List (ℚ × ℕ)) (n : ℕ) (x : ℝ) :
    HasDerivAt (polyFn (dTermsAll ts n)) (polyFn (dTermsAll ts (n + 1)) x) x := by
  induction ts with
  | nil =>
    have : polyFn (dTermsAll [] n) = fun _ => (0 : ℝ) := funext fun y => by simp [dTermsAll, polyFn]
    rw [this]
    simpa [dTermsAll, polyFn] using hasDerivAt_const x (0 : ℝ)
  | cons t ts ih =>
    have h1 : polyFn (dTermsAll (t :: ts) n) =
        fun y => (t.1 : ℝ) * (descFact t.2 n : ℝ) * y ^ (t.2 - n) + polyFn (dTermsAll ts n) y :=
      funext fun y => by
        simp only [dTermsAll, List.map_cons, polyFn_cons]; push_cast; rfl
    have h2 : polyFn (dTermsAll (t :: ts) (n + 1)) x =
        (t.1 : ℝ) * (descFact t.2 (n + 1) : ℝ) * x ^ (t.2 - (n + 1)) + polyFn (dTermsAll ts (n + 1)) x := by
      simp only [dTermsAll, List.map_cons, polyFn_cons]; push_cast; rfl
    rw [h1, h2]
    exact (monomial_step _ _ _ x).add ih

theorem polyFn_dTermsAll_zero (ts : List (ℚ × ℕ)) : polyFn (dTermsAll ts 0) = polyFn ts := by
  funext x
  induction ts with
  | nil => rfl
  | cons t ts ih =>
    have : polyFn (dTermsAll (t :: ts) 0) x = (t.1 : ℝ) * x ^ t.2 + polyFn (dTermsAll ts 0) x := by
      simp [dTermsAll, polyFn_cons, descFact]
    rw [this, ih, polyFn_cons]

/-- `n`-th derivative of a polynomial given by a term list -/
theorem polyFn_iteratedDeriv (ts : List (ℚ × ℕ)) (n : ℕ) :
    iteratedDeriv n (polyFn ts) = polyFn (dTerms ts n) := by
  have h := iteratedDeriv_of_chain (fun n => polyFn (dTermsAll ts n)) (polyFn_dTermsAll_step ts) n
  simp only [polyFn_dTermsAll_zero] at h
  rw [h]
  funext x
  exact (polyFn_dTerms ts n x).symm

/-- `n`-th derivative of `exp (c·x)` -/
theorem expL_iteratedDeriv (c : ℝ) (n : ℕ) :
    iteratedDeriv n (fun x : ℝ => Real.exp (c * x)) = fun x => c ^ n * Real.exp (c * x) := by
  have h := iteratedDeriv_of_chain (fun n x => c ^ n * Real.exp (c * x)) (fun n x => by
    have h := (((hasDerivAt_id' x).const_mul c).exp).const_mul (c ^ n)
    refine h.congr_deriv ?_
    ring) n
  simp only [pow_zero, one_mul] at h
  exact h

/-- the 4-cycle `s, c, −s, −c` of derivatives of `sin` -/
def cyc4 (k : ℕ) (s c : ℝ) : ℝ :=
  match k with
  | 0 => s
  | 1 => c
  | 2 => -s
  | _ => -c

theorem cyc4_step (c : ℝ) (n : ℕ) (x : ℝ) :
    HasDerivAt (fun y => c ^ n * cyc4 (n % 4) (Real.sin (c * y)) (Real.cos (c * y)))
      (c ^ (n + 1) * cyc4 ((n + 1) % 4) (Real.sin (c * x)) (Real.cos (c * x))) x := by
  have hs := ((hasDerivAt_id' x).const_mul c).sin
  have hc := ((hasDerivAt_id' x).const_mul c).cos
  have h4 : n % 4 = 0 ∨ n % 4 = 1 ∨ n % 4 = 2 ∨ n % 4 = 3 := by omega
  rcases h4 with h | h | h | h
  · have h' : (n + 1) % 4 = 1 := by omega
    simp only [h, h', cyc4]
    refine (hs.const_mul (c ^ n)).congr_deriv ?_
    ring
  · have h' : (n + 1) % 4 = 2 := by omega
    simp only [h, h', cyc4]
    refine (hc.const_mul (c ^ n)).congr_deriv ?_
    ring
  · have h' : (n + 1) % 4 = 3 := by omega
    simp only [h, h', cyc4]
    refine (hs.neg.const_mul (c ^ n)).congr_deriv ?_
    ring
  · have h' : (n + 1) % 4 = 0 := by omega
    simp only [h, h', cyc4]
    refine (hc.neg.const_mul (c ^ n)).congr_deriv ?_
    ring

/-- `n`-th derivative of `sin (c·x)` -/
theorem sinL_iteratedDeriv (c : ℝ) (n : ℕ) :
    iteratedDeriv n (fun x : ℝ => Real.sin (c * x)) =
      fun x => c ^ n * cyc4 (n % 4) (Real.sin (c * x)) (Real.cos (c * x)) := by
  have h := iteratedDeriv_of_chain
    (fun n x => c ^ n * cyc4 (n % 4) (Real.sin (c * x)) (Real.cos (c * x))) (cyc4_step c) n
  simpa [cyc4] using h

/-- `n`-th derivative of `cos (c·x)`: the cycle of `sin` shifted by one -/
theorem cosL_iteratedDeriv (c : ℝ) (n : ℕ) :
    iteratedDeriv n (fun x : ℝ => Real.cos (c * x)) =
      fun x => c ^ n * cyc4 ((n + 1) % 4) (Real.sin (c * x)) (Real.cos (c * x)) := by
  have h := iteratedDeriv_of_chain
    (fun n x => c ^ n * cyc4 ((n + 1) % 4) (Real.sin (c * x)) (Real.cos (c * x))) (fun n x => by
      have hc0 : HasDerivAt (fun y => c ^ n * cyc4 ((n + 1) % 4) (Real.sin (c * y)) (Real.cos (c * y)))
          (c ^ (n + 1) * cyc4 ((n + 1 + 1) % 4) (Real.sin (c * x)) (Real.cos (c * x))) x := by
        have hs := ((hasDerivAt_id' x).const_mul c).sin
        have hc := ((hasDerivAt_id' x).const_mul c).cos
        have h4 : n % 4 = 0 ∨ n % 4 = 1 ∨ n % 4 = 2 ∨ n % 4 = 3 := by omega
        rcases h4 with h | h | h | h
        · have h1 : (n + 1) % 4 = 1 := by omega
          have h2 : (n + 1 + 1) % 4 = 2 := by omega
          simp only [h1, h2, cyc4]
          refine (hc.const_mul (c ^ n)).congr_deriv ?_
          ring
        · have h1 : (n + 1) % 4 = 2 := by omega
          have h2 : (n + 1 + 1) % 4 = 3 := by omega
          simp only [h1, h2, cyc4]
          refine (hs.neg.const_mul (c ^ n)).congr_deriv ?_
          ring
        · have h1 : (n + 1) % 4 = 3 := by omega
          have h2 : (n + 1 + 1) % 4 = 0 := by omega
          simp only [h1, h2, cyc4]
          refine (hc.neg.const_mul (c ^ n)).congr_deriv ?_
          ring
        · have h1 : (n + 1) % 4 = 0 := by omega
          have h2 : (n + 1 + 1) % 4 = 1 := by omega
          simp only [h1, h2, cyc4]
          refine (hs.const_mul (c ^ n)).congr_deriv ?_
          ring
      exact hc0) n
  simpa [cyc4] using h

/-- `n`-th derivative of `x·exp (c·x)`: `e^{cx}·(c^n·x + n·c^(n−1))` -/
theorem xexp_iteratedDeriv (c : ℝ) (n : ℕ) :
    iteratedDeriv n (fun x : ℝ => x * Real.exp (c * x)) =
      fun x => Real.exp (c * x) * (c ^ n * x + (n : ℝ) * c ^ (n - 1)) := by
  have h := iteratedDeriv_of_chain
    (fun n x => Real.exp (c * x) * (c ^ n * x + (n : ℝ) * c ^ (n - 1))) (fun n x => by
      have h1 := ((hasDerivAt_id' x).const_mul c).exp
      have h2 := ((hasDerivAt_id' x).const_mul (c ^ n)).add_const ((n : ℝ) * c ^ (n - 1))
      refine (h1.mul h2).congr_deriv ?_
      cases n with
      | zero => simp; ring
      | succ m =>
        simp only [Nat.add_sub_cancel]
        push_cast
        ring) n
  rw [← h]
  congr 1
  funext x
  simp [mul_comm]

/-- **the closed form of `Fam.derivRef` is the `n`-th derivative** of the family's function at the point
denoted by `x` (families `poly`, `expL`, `sinL`, `cosL`, `xexp`; `derivRef` is `none` for the others) -/
theorem Fam.iteratedDeriv_eq (f : Fam) (n : ℕ) (x r : Ref) (h : f.derivRef n x = some r) :
    iteratedDeriv n f.fn x.sem = r.sem := by
  cases f with
  | poly ts =>
    simp only [Fam.derivRef, Option.some.injEq] at h
    subst h
    have : (Fam.poly ts).fn = polyFn ts := rfl
    rw [this, polyFn_iteratedDeriv, polyRef_sem]
    rfl
  | expL c =>
    simp only [Fam.derivRef, Option.some.injEq] at h
    subst h
    have : (Fam.expL c).fn = fun x : ℝ => Real.exp ((c : ℝ) * x) := rfl
    rw [this, expL_iteratedDeriv]
    simp [Ref.sem]
  | sinL c =>
    simp only [Fam.derivRef, Option.some.injEq] at h
    subst h
    have : (Fam.sinL c).fn = fun x : ℝ => Real.sin ((c : ℝ) * x) := rfl
    rw [this, sinL_iteratedDeriv]
    have h4 : n % 4 = 0 ∨ n % 4 = 1 ∨ n % 4 = 2 ∨ n % 4 = 3 := by omega
    rcases h4 with h | h | h | h <;> simp [h, cyc4, Ref.sem]
  | cosL c =>
    simp only [Fam.derivRef, Option.some.injEq] at h
    subst h
    have : (Fam.cosL c).fn = fun x : ℝ => Real.cos ((c : ℝ) * x) := rfl
    rw [this, cosL_iteratedDeriv]
    have h4 : n % 4 = 0 ∨ n % 4 = 1 ∨ n % 4 = 2 ∨ n % 4 = 3 := by omega
    rcases h4 with h | h | h | h
    · have h' : (n + 1) % 4 = 1 := by omega
      simp [h, h', cyc4, Ref.sem]
    · have h' : (n + 1) % 4 = 2 := by omega
      simp [h, h', cyc4, Ref.sem]
    · have h' : (n + 1) % 4 = 3 := by omega
      simp [h, h', cyc4, Ref.sem]
    · have h' : (n + 1) % 4 = 0 := by omega
      simp [h, h', cyc4, Ref.sem]
  | xexp c =>
    simp only [Fam.derivRef, Option.some.injEq] at h
    subst h
    have : (Fam.xexp c).fn = fun x : ℝ => x * Real.exp ((c : ℝ) * x) := rfl
    rw [this, xexp_iteratedDeriv]
    simp [Ref.sem]
  | expcos a b => simp [Fam.derivRef] at h
  | expsin a b => simp [Fam.derivRef] at h
  | lorentz => simp [Fam.derivRef] at h
  | recip c => simp [Fam.derivRef] at h

/-! ## `differint` of a monomial, integer orders -/

/-- `n`-th derivative of `t ↦ t^k` -/
theorem pow_iteratedDeriv (k n : ℕ) :
    iteratedDeriv n (fun t : ℝ => t ^ k) = fun t => (descFact k n : ℝ) * t ^ (k - n) := by
  have h := iteratedDeriv_of_chain (fun n t => (1 : ℝ) * (descFact k n : ℝ) * t ^ (k - n))
    (fun n x => monomial_step 1 k n x) n
  simp only [descFact, Nat.cast_one, one_mul, Nat.sub_zero] at h
  exact h

/-- order `n ≥ 0`: the closed form of `differint(t ↦ t^k, x, n)` is the `n`-th derivative of `t^k` at `x` -/
theorem differintRef_deriv (k n : ℕ) (x r : Ref) (h : differintRef k (n : ℤ) x = some r) :
    iteratedDeriv n (fun t : ℝ => t ^ k) x.sem = r.sem := by
  unfold differintRef at h
  rw [if_pos (Int.natCast_nonneg n)] at h
  simp only [Int.toNat_natCast, Option.some.injEq] at h
  subst h
  rw [pow_iteratedDeriv]
  by_cases hk : n ≤ k
  · simp [hk, Ref.sem]
  · rw [if_neg hk, descFact_eq_zero (by omega)]
    simp [Ref.sem]

/-- order `−1`: the closed form of `differint(t ↦ t^k, x, −1, x0 = 0)` is `∫_0^x t^k dt` -/
theorem differintRef_int (k : ℕ) (x r : Ref) (h : differintRef k (-1) x = some r) :
    ∫ t in (0 : ℝ)..x.sem, t ^ k = r.sem := by
  unfold differintRef at h
  rw [if_neg (by decide), if_pos rfl] at h
  simp only [Option.some.injEq] at h
  subst h
  rw [integral_pow]
  simp only [Ref.sem]
  push_cast
  have : ((k : ℝ) + 1) ≠ 0 := by positivity
  field_simp
  simp

/-! ## `pade` -/

open Polynomial in
/-- the polynomial `Σ_i l[i]·X^i` with rational coefficients given by a list (increasing degree) -/
noncomputable def listPoly (l : List ℚ) : Polynomial ℚ :=
  ∑ i ∈ Finset.range l.length, Polynomial.C (coeffAt l i) * Polynomial.X ^ i

theorem coeffAt_of_le (l : List ℚ) {i : ℕ} (h : l.length ≤ i) : coeffAt l i = 0 := by
  simp [coeffAt, List.getElem?_eq_none h]

theorem listPoly_coeff (l : List ℚ) (i : ℕ) : (listPoly l).coeff i = coeffAt l i := by
  unfold listPoly
  rw [Polynomial.finsetSum_coeff]
  simp only [Polynomial.coeff_C_mul_X_pow]
  by_cases h : i < l.length
  · rw [Finset.sum_eq_single i]
    · simp
    · intro b _ hb; rw [if_neg (Ne.symm hb)]
    · intro hi; exact absurd (Finset.mem_range.2 h) hi
  · rw [coeffAt_of_le l (by omega)]
    apply Finset.sum_eq_zero
    intro b hb
    rw [if_neg]
    have := Finset.mem_range.1 hb
    omega

theorem absQ_eq (q : ℚ) : absQ q = |q| := by
  unfold absQ
  split
  · rename_i h; rw [abs_of_neg h]
  · rename_i h; rw [abs_of_nonneg (not_lt.1 h)]

theorem maxQ_eq (a b : ℚ) : maxQ a b = max a b := by
  unfold maxQ
  split
  · rename_i h; rw [max_eq_right h.le]
  · rename_i h; rw [max_eq_left (not_lt.1 h)]

theorem list_range_sum (f : ℕ → ℚ) (n : ℕ) :
    ((List.range n).map f).sum = ∑ i ∈ Finset.range n, f i := by
  induction n with
  | zero => simp
  | succ n ih => rw [List.range_succ, List.map_append, List.sum_append, ih, Finset.sum_range_succ]; simp

/-- the residual of the model is the coefficient of `X^j` in `A·Q − P` -/
theorem padeResid_eq (a p q : List ℚ) (j : ℕ) :
    padeResid a p q j = (listPoly a * listPoly q - listPoly p).coeff j := by
  unfold padeResid
  rw [list_range_sum, Polynomial.coeff_sub, mul_comm (listPoly a), Polynomial.coeff_mul,
    Finset.Nat.sum_antidiagonal_eq_sum_range_succ (fun i k => (listPoly q).coeff i * (listPoly a).coeff k)]
  simp only [listPoly_coeff]

theorem maxAbs_foldl_ge (a : List ℚ) (l : List ℕ) (m0 : ℚ) :
    m0 ≤ l.foldl (fun m j => maxQ m (absQ (coeffAt a j))) m0 ∧
    ∀ j ∈ l, |coeffAt a j| ≤ l.foldl (fun m j => maxQ m (absQ (coeffAt a j))) m0 := by
  induction l generalizing m0 with
  | nil => simp
  | cons i l ih =>
    rw [List.foldl_cons]
    obtain ⟨h1, h2⟩ := ih (maxQ m0 (absQ (coeffAt a i)))
    rw [maxQ_eq, absQ_eq] at h1 h2
    refine ⟨le_trans (le_max_left _ _) (by rw [maxQ_eq, absQ_eq]; exact h1), ?_⟩
    intro j hj
    rw [maxQ_eq, absQ_eq]
    rcases List.mem_cons.1 hj with rfl | hj
    · exact le_trans (le_max_right _ _) h1
    · exact h2 j hj

theorem maxAbs_foldl_le (a : List ℚ) (l : List ℕ) (m0 B : ℚ) (h0 : m0 ≤ B)
    (h : ∀ j ∈ l, |coeffAt a j| ≤ B) :
    l.foldl (fun m j => maxQ m (absQ (coeffAt a j))) m0 ≤ B := by
  induction l generalizing m0 with
  | nil => simpa using h0
  | cons i l ih =>
    rw [List.foldl_cons]
    apply ih
    · rw [maxQ_eq, absQ_eq]; exact max_le h0 (h i (by simp))
    · intro j hj; exact h j (by simp [hj])

/-- `maxAbs a n` bounds `|a[j]|` for `j ≤ n` … -/
theorem le_maxAbs (a : List ℚ) (n j : ℕ) (h : j ≤ n) : |coeffAt a j| ≤ maxAbs a n :=
  (maxAbs_foldl_ge a (List.range (n + 1)) 0).2 j (List.mem_range.2 (by omega))

theorem maxAbs_nonneg (a : List ℚ) (n : ℕ) : 0 ≤ maxAbs a n :=
  (maxAbs_foldl_ge a (List.range (n + 1)) 0).1

/-- … and is the least such non-negative bound: `maxAbs a n = max_{j ≤ n} |a[j]|` -/
theorem maxAbs_le (a : List ℚ) (n : ℕ) (B : ℚ) (h0 : 0 ≤ B) (h : ∀ j ≤ n, |coeffAt a j| ≤ B) :
    maxAbs a n ≤ B :=
  maxAbs_foldl_le a _ 0 B h0 fun j hj => h j (by have := List.mem_range.1 hj; omega)

theorem padeScale_eq (a q : List ℚ) (n : ℕ) :
    padeScale a q n = (q.map fun c => |c|).sum * maxAbs a n := by
  unfold padeScale
  congr 2
  exact List.map_congr_left fun c _ => absQ_eq c

/-- **soundness of the Padé validator**: if `padeCheck a p q L M t` accepts, then `p`, `q` have `L+1`, `M+1`
coefficients, `q[0] = 1`, and every coefficient of degree `j ≤ L+M` of `A·Q − P` (polynomials with the
coefficient lists `a`, `q`, `p`) is at most `t·padeScale a q (L+M)` in absolute value -/
theorem padeCheck_sound (a p q : List ℚ) (L M : ℕ) (t : ℚ) (h : padeCheck a p q L M t = true) :
    p.length = L + 1 ∧ q.length = M + 1 ∧ (listPoly q).coeff 0 = 1 ∧
    ∀ j ≤ L + M, |(listPoly a * listPoly q - listPoly p).coeff j| ≤ t * padeScale a q (L + M) := by
  unfold padeCheck at h
  simp only [Bool.and_eq_true, decide_eq_true_eq, List.all_eq_true, List.mem_range] at h
  obtain ⟨⟨⟨hp, hq⟩, hq0⟩, hall⟩ := h
  refine ⟨hp, hq, by rw [listPoly_coeff]; exact hq0, ?_⟩
  intro j hj
  have := hall j (by omega)
  rwa [absQ_eq, padeResid_eq] at this

/-- the validator is also complete: it accepts whenever the stated facts hold -/
theorem padeCheck_complete (a p q : List ℚ) (L M : ℕ) (t : ℚ)
    (hp : p.length = L + 1) (hq : q.length = M + 1) (hq0 : (listPoly q).coeff 0 = 1)
    (hall : ∀ j ≤ L + M, |(listPoly a * listPoly q - listPoly p).coeff j| ≤ t * padeScale a q (L + M)) :
    padeCheck a p q L M t = true := by
  unfold padeCheck
  simp only [Bool.and_eq_true, decide_eq_true_eq, List.all_eq_true, List.mem_range]
  refine ⟨⟨⟨hp, hq⟩, by rw [← listPoly_coeff]; exact hq0⟩, ?_⟩
  intro j hj
  rw [absQ_eq, padeResid_eq]
  exact hall j (by omega)

/-- exact case `t = 0`: `A·Q = P + O(X^(L+M+1))`, the defining identity of the `[L/M]` Padé approximant -/
theorem padeCheck_exact (a p q : List ℚ) (L M : ℕ) (h : padeCheck a p q L M 0 = true) :
    Polynomial.X ^ (L + M + 1) ∣ listPoly a * listPoly q - listPoly p := by
  rw [Polynomial.X_pow_dvd_iff]
  intro d hd
  have := (padeCheck_sound a p q L M 0 h).2.2.2 d (by omega)
  rw [zero_mul] at this
  exact abs_eq_zero.1 (le_antisymm this (abs_nonneg _))

end Mp.Calc
