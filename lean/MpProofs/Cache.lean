/-
  MpProofs/Cache.lean — invariants, refinement and abort safety of the cache machines of
  MpModel/Cache.lean (DESIGN.md C17, C33).  The property-level statements are in Props/C33.lean
  and Props/C17.lean.
-/
import MpModel.Cache
import MpProofs.Spec
import Mathlib.Algebra.Order.Floor.Ring
import Mathlib.Data.Rat.Floor
import Mathlib.Tactic.Ring
import Mathlib.Tactic.Linarith
import Mathlib.Tactic.Positivity
import Mathlib.Tactic.NormNum
import Mathlib.Tactic.FieldSimp

namespace Mp.Cache

open Mp

/-! ## function maps -/

@[simp] theorem FMap.set_same {K V : Type} [DecidableEq K] (m : FMap K V) (k : K) (v : V) :
    (m.set k v) k = some v := by simp [FMap.set]

theorem FMap.set_other {K V : Type} [DecidableEq K] (m : FMap K V) (k k' : K) (v : V) (h : k' ≠ k) :
    (m.set k v) k' = m k' := by simp [FMap.set, h]

@[simp] theorem FMap.empty_apply {K V : Type} (k : K) : (FMap.empty : FMap K V) k = none := rfl

/-! ## shifts -/

/-- a fixed-point function is *shift-stable* when truncating a higher-precision value gives the
lower-precision value: `F P >> (P-Q) = F Q`.  True floors have this property (`floor_shiftStable`). -/
def ShiftStable (F : Nat → Int) : Prop := ∀ P Q : Nat, Q ≤ P → shr (F P) (P - Q) = F Q

theorem shr_shr (x : Int) (a b : Nat) : shr (shr x a) b = shr x (a + b) := by
  simp [shr, Int.shiftRight_add]

theorem shr_zero (x : Int) : shr x 0 = x := by simp [shr]

theorem shr_eq_div (x : Int) (n : Nat) : shr x n = x / ((2 ^ n : Nat) : Int) := by
  simp [shr, Int.shiftRight_eq_div_pow]

/-- floors compose: `⌊c·2^P⌋ >> (P-Q) = ⌊c·2^Q⌋`. -/
theorem floor_shiftStable (c : ℚ) : ShiftStable (fun P => ⌊c * (2 : ℚ) ^ P⌋) := by
  intro P Q hQP
  have h2 : ((2 : ℚ) ^ (P - Q)) ≠ 0 := by positivity
  have e : c * (2 : ℚ) ^ Q = c * (2 : ℚ) ^ P / (((2 ^ (P - Q) : ℕ) : ℚ)) := by
    have : (2 : ℚ) ^ P = (2 : ℚ) ^ Q * (2 : ℚ) ^ (P - Q) := by
      rw [← pow_add]; congr 1; omega
    rw [this]; push_cast; field_simp
  show shr ⌊c * (2 : ℚ) ^ P⌋ (P - Q) = ⌊c * (2 : ℚ) ^ Q⌋
  rw [shr_eq_div, e, Int.floor_div_natCast]

/-! ## constant_memo -/

/-- state invariant: empty, or `memo_val = F memo_prec` -/
def MemoInv (F : Nat → Int) (s : MemoState) : Prop :=
  (s.memo_prec = -1 ∧ s.memo_val = none) ∨ ∃ P : Nat, s.memo_prec = (P : Int) ∧ s.memo_val = some (F P)

/-- invariant with provenance: the cached precision is `np q` for a request `q` of the history `h`
that was not aborted. -/
def MemoInvH (F : Nat → Int) (np : Nat → Nat) (h : List (Nat × Bool)) (s : MemoState) : Prop :=
  (s.memo_prec = -1 ∧ s.memo_val = none) ∨
  ∃ q : Nat, (q, false) ∈ h ∧ s.memo_prec = (np q : Int) ∧ s.memo_val = some (F (np q))

theorem MemoInvH.toInv {F np h s} (hi : MemoInvH F np h s) : MemoInv F s := by
  rcases hi with hi | ⟨q, _, h1, h2⟩
  · exact Or.inl hi
  · exact Or.inr ⟨np q, h1, h2⟩

theorem MemoInvH.mono {F np h h' s} (hi : MemoInvH F np h s) (hs : ∀ x ∈ h, x ∈ h') :
    MemoInvH F np h' s := by
  rcases hi with hi | ⟨q, hq, h1, h2⟩
  · exact Or.inl hi
  · exact Or.inr ⟨q, hs _ hq, h1, h2⟩

theorem memoInit_inv (F : Nat → Int) (np : Nat → Nat) : MemoInvH F np [] memoInit := Or.inl ⟨rfl, rfl⟩

/-- an aborted request leaves the state untouched -/
theorem memoReq_fault_state (F : Nat → Int) (np : Nat → Nat) (s : MemoState) (prec : Nat) :
    (memoReq F np s prec true).1 = s := by
  unfold memoReq
  split
  · split <;> rfl
  · rfl

theorem memoReq_invH (F : Nat → Int) (np : Nat → Nat) (h : List (Nat × Bool)) (s : MemoState)
    (prec : Nat) (fault : Bool) (hi : MemoInvH F np h s) :
    MemoInvH F np (h ++ [(prec, fault)]) (memoReq F np s prec fault).1 := by
  have hm : MemoInvH F np (h ++ [(prec, fault)]) s := hi.mono (by intro x hx; simp [hx])
  cases fault with
  | true => rw [memoReq_fault_state]; exact hm
  | false =>
    unfold memoReq
    split
    · split <;> exact hm
    · simp only [Bool.false_eq_true, if_false]
      split <;> exact Or.inr ⟨prec, by simp, rfl, rfl⟩

theorem memoAfter_append (F : Nat → Int) (np : Nat → Nat) (s : MemoState) (h : List (Nat × Bool))
    (r : Nat × Bool) :
    memoAfter F np s (h ++ [r]) = (memoReq F np (memoAfter F np s h) r.1 r.2).1 := by
  simp [memoAfter, List.foldl_append]

/-- the invariant holds in every reachable state -/
theorem memoAfter_invH (F : Nat → Int) (np : Nat → Nat) (h : List (Nat × Bool)) :
    MemoInvH F np h (memoAfter F np memoInit h) := by
  induction h using List.reverseRecOn with
  | nil => exact memoInit_inv F np
  | append_singleton h r ih =>
    rw [memoAfter_append]
    exact memoReq_invH F np h _ r.1 r.2 ih

/-- the answer of a request that is not aborted, in a state satisfying the invariant -/
theorem memoReq_answer (F : Nat → Int) (np : Nat → Nat) (hnp : ∀ p, p ≤ np p) (h : List (Nat × Bool))
    (s : MemoState) (prec : Nat) (hi : MemoInvH F np h s) :
    ∃ P : Nat, prec ≤ P ∧ (P = np prec ∨ ∃ q, (q, false) ∈ h ∧ P = np q) ∧
      (memoReq F np s prec false).2 = .ok (shr (F P) (P - prec)) := by
  unfold memoReq
  split
  · next hle =>
    rcases hi with ⟨h1, _⟩ | ⟨q, hq, h1, h2⟩
    · omega
    · refine ⟨np q, by omega, Or.inr ⟨q, hq, rfl⟩, ?_⟩
      simp only [h2, h1]
      congr 2
      omega
  · refine ⟨np prec, hnp prec, Or.inl rfl, ?_⟩
    simp only [Bool.false_eq_true, if_false]
    have : ¬ np prec < prec := by have := hnp prec; omega
    simp [this]

/-! ### the micro-step machine -/

/-- five micro-steps of a request that misses are the big step -/
theorem memoMicroN_eq_req (F : Nat → Int) (np : Nat → Nat) (s : MemoState) (prec : Nat) :
    memoMicroN F np 5 (s, .start prec) =
      ((memoReq F np s prec false).1, .done (memoReq F np s prec false).2) := by
  by_cases hle : (prec : Int) ≤ s.memo_prec
  · cases hv : s.memo_val with
    | none => simp [memoMicroN, memoMicro, memoReq, hle, hv]
    | some v => simp [memoMicroN, memoMicro, memoReq, hle, hv]
  · by_cases hlt : np prec < prec <;> simp [memoMicroN, memoMicro, memoReq, hle, hlt]

/-- program points at which the invariant is required to hold when the request is abandoned there:
all of them except the gap between the two assignments. -/
def MemoPc.safe : MemoPc → Prop
  | .wroteVal _ _ _ => False
  | _ => True

theorem memoMicro_state_or (F : Nat → Int) (np : Nat → Nat) (c : MemoState × MemoPc) :
    (memoMicro F np c).1 = c.1 ∨
    (∃ p n v, c.2 = .gotVal p n v ∧ (memoMicro F np c).2 = .wroteVal p n v) ∨
    (∃ p n v, c.2 = .wroteVal p n v) := by
  obtain ⟨s, pc⟩ := c
  cases pc with
  | start p => left; simp only [memoMicro]; split; (split <;> rfl); rfl
  | miss p => left; rfl
  | call p n => left; rfl
  | gotVal p n v => right; left; exact ⟨p, n, v, rfl, rfl⟩
  | wroteVal p n v => right; right; exact ⟨p, n, v, rfl⟩
  | done r => left; rfl

/-- configurations reachable inside one request started in a state with the invariant -/
def MemoCfgOK (F : Nat → Int) (c : MemoState × MemoPc) : Prop :=
  match c.2 with
  | .start _ | .miss _ | .call _ _ | .done _ => MemoInv F c.1
  | .gotVal _ n v => MemoInv F c.1 ∧ v = F n
  | .wroteVal _ n v => v = F n ∧ c.1.memo_val = some v

theorem memoMicro_ok (F : Nat → Int) (np : Nat → Nat) (c : MemoState × MemoPc) (h : MemoCfgOK F c) :
    MemoCfgOK F (memoMicro F np c) := by
  obtain ⟨s, pc⟩ := c
  cases pc with
  | start p =>
    simp only [memoMicro]
    split
    · split <;> exact h
    · exact h
  | miss p => exact h
  | call p n => exact ⟨h, rfl⟩
  | gotVal p n v => exact ⟨h.2, rfl⟩
  | wroteVal p n v =>
    obtain ⟨h1, h2⟩ := h
    show MemoInv F _
    subst h1
    exact Or.inr ⟨n, rfl, h2⟩
  | done r => exact h

theorem memoMicroN_ok (F : Nat → Int) (np : Nat → Nat) (k : Nat) (c : MemoState × MemoPc)
    (h : MemoCfgOK F c) : MemoCfgOK F (memoMicroN F np k c) := by
  induction k generalizing c with
  | zero => exact h
  | succ k ih => exact ih _ (memoMicro_ok F np c h)

theorem MemoCfgOK.inv_of_safe {F : Nat → Int} {c : MemoState × MemoPc} (h : MemoCfgOK F c)
    (hs : c.2.safe) : MemoInv F c.1 := by
  obtain ⟨s, pc⟩ := c
  cases pc with
  | wroteVal p n v => exact absurd hs (by simp [MemoPc.safe])
  | gotVal p n v => exact h.1
  | start p => exact h
  | miss p => exact h
  | call p n => exact h
  | done r => exact h

/-! ## def_mpf_constant -/

/-- for a positive mantissa `round_down` is `round_floor` and `round_up` is `round_ceiling` -/
theorem constFinal_d_eq_f (v prec : Nat) : constFinal v prec .d = constFinal v prec .f := by
  simp [constFinal, normalize, roundShift, shiftsDown]

theorem constFinal_u_eq_c (v prec : Nat) : constFinal v prec .u = constFinal v prec .c := by
  simp [constFinal, normalize, roundShift, shiftsDown]

/-- hypothesis on `normalize` (proved by the core rounding theorems, C02): floor rounding of a
positive mantissa does not increase the value. -/
def NormalizeFloorLe : Prop :=
  ∀ (m : Nat) (e : Int) (p : Int), 0 < p → val (normalize 0 m e (bitcount m) p .f) ≤ (m : ℚ) * (2 : ℚ) ^ e

/-- hypothesis on `normalize`: ceiling rounding of a positive mantissa does not decrease the value. -/
def NormalizeCeilGe : Prop :=
  ∀ (m : Nat) (e : Int) (p : Int), 0 < p → (m : ℚ) * (2 : ℚ) ^ e ≤ val (normalize 0 m e (bitcount m) p .c)

theorem constFinal_floor_le (hf : NormalizeFloorLe) (c : ℚ) (v prec : Nat) (hp : 0 < prec)
    (h2 : (v : ℚ) ≤ c * (2 : ℚ) ^ (prec + 20)) : val (constFinal v prec .f) ≤ c := by
  have h := hf v (-((prec : Int) + 20)) prec (by exact_mod_cast hp)
  have e : constFinal v prec .f = normalize 0 v (-((prec : Int) + 20)) (bitcount v) prec .f := by
    simp [constFinal]
  rw [e]
  refine le_trans h ?_
  have hpos : (0 : ℚ) < (2 : ℚ) ^ (prec + 20) := by positivity
  rw [zpow_neg]
  have : ((2 : ℚ) ^ ((prec : Int) + 20)) = (2 : ℚ) ^ (prec + 20) := by
    rw [← zpow_natCast]; push_cast; rfl
  rw [this, ← div_eq_mul_inv, div_le_iff₀ hpos]
  exact h2

theorem constFinal_ceil_ge (hc : NormalizeCeilGe) (c : ℚ) (v prec : Nat) (hp : 0 < prec)
    (h1 : c * (2 : ℚ) ^ (prec + 20) - 1 < (v : ℚ)) : c ≤ val (constFinal v prec .c) := by
  have h := hc (v + 1) (-((prec : Int) + 20)) prec (by exact_mod_cast hp)
  have e : constFinal v prec .c = normalize 0 (v + 1) (-((prec : Int) + 20)) (bitcount (v + 1)) prec .c := by
    simp [constFinal]
  rw [e]
  refine le_trans ?_ h
  have hpos : (0 : ℚ) < (2 : ℚ) ^ (prec + 20) := by positivity
  rw [zpow_neg]
  have : ((2 : ℚ) ^ ((prec : Int) + 20)) = (2 : ℚ) ^ (prec + 20) := by
    rw [← zpow_natCast]; push_cast; rfl
  rw [this, ← div_eq_mul_inv, le_div_iff₀ hpos]
  push_cast
  linarith

/-! ## log_int_cache -/

/-- every entry is the value of `F` at the stored working precision, only keys below the limit are
stored, and the stored working precision is `q + 10` for a request `(n, q)` of the history that was
not aborted. -/
def LogIntInv (F : Nat → Nat → Int) (h : List (Nat × Nat × Bool)) (s : LogIntState) : Prop :=
  ∀ n v vp, s n = some (v, vp) →
    v = F n vp ∧ n < MAX_LOG_INT_CACHE ∧ ∃ q, (n, q, false) ∈ h ∧ vp = q + 10

theorem LogIntInv.mono {F h h' s} (hi : LogIntInv F h s) (hs : ∀ x ∈ h, x ∈ h') : LogIntInv F h' s := by
  intro n v vp e
  obtain ⟨a, b, q, hq, c⟩ := hi n v vp e
  exact ⟨a, b, q, hs _ hq, c⟩

theorem logIntMiss_fault_state (F : Nat → Nat → Int) (s : LogIntState) (n prec : Nat) :
    (logIntMiss F s n prec true).1 = s := rfl

theorem logIntReq_fault_state (F : Nat → Nat → Int) (s : LogIntState) (n prec : Nat) :
    (logIntReq F s n prec true).1 = s := by
  unfold logIntReq
  split
  · split <;> rfl
  · rfl

theorem logIntMiss_inv (F : Nat → Nat → Int) (h : List (Nat × Nat × Bool)) (s : LogIntState)
    (n prec : Nat) (hm : LogIntInv F (h ++ [(n, prec, false)]) s) :
    LogIntInv F (h ++ [(n, prec, false)]) (logIntMiss F s n prec false).1 := by
  unfold logIntMiss
  simp only [Bool.false_eq_true, if_false]
  split
  · next hlt =>
    intro n' v vp e
    by_cases hn : n' = n
    · subst hn
      rw [FMap.set_same] at e
      simp only [Option.some.injEq, Prod.mk.injEq] at e
      obtain ⟨rfl, rfl⟩ := e
      exact ⟨rfl, hlt, prec, by simp, rfl⟩
    · rw [FMap.set_other _ _ _ _ hn] at e
      exact hm n' v vp e
  · exact hm

theorem logIntReq_inv (F : Nat → Nat → Int) (h : List (Nat × Nat × Bool)) (s : LogIntState)
    (n prec : Nat) (fault : Bool) (hi : LogIntInv F h s) :
    LogIntInv F (h ++ [(n, prec, fault)]) (logIntReq F s n prec fault).1 := by
  have hm : LogIntInv F (h ++ [(n, prec, fault)]) s := hi.mono (by intro x hx; simp [hx])
  cases fault with
  | true => rw [logIntReq_fault_state]; exact hm
  | false =>
    unfold logIntReq
    split
    · split
      · exact hm
      · exact logIntMiss_inv F h s n prec hm
    · exact logIntMiss_inv F h s n prec hm

theorem logIntAfter_append (F : Nat → Nat → Int) (s : LogIntState) (h : List (Nat × Nat × Bool))
    (r : Nat × Nat × Bool) :
    logIntAfter F s (h ++ [r]) = (logIntReq F (logIntAfter F s h) r.1 r.2.1 r.2.2).1 := by
  simp [logIntAfter, List.foldl_append]

theorem logIntAfter_inv (F : Nat → Nat → Int) (h : List (Nat × Nat × Bool)) :
    LogIntInv F h (logIntAfter F FMap.empty h) := by
  induction h using List.reverseRecOn with
  | nil => intro n v vp e; simp [logIntAfter] at e
  | append_singleton h r ih =>
    rw [logIntAfter_append]
    exact logIntReq_inv F h _ r.1 r.2.1 r.2.2 ih

theorem logIntReq_answer (F : Nat → Nat → Int) (h : List (Nat × Nat × Bool)) (s : LogIntState)
    (n prec : Nat) (hi : LogIntInv F h s) :
    ∃ (w : Served) (wp : Nat), prec ≤ wp ∧ (wp = prec + 10 ∨ ∃ q, (n, q, false) ∈ h ∧ wp = q + 10) ∧
      (logIntReq F s n prec false).2 = .ok (w, shr (F n wp) (wp - prec)) := by
  have hmiss : ∃ (w : Served) (wp : Nat), prec ≤ wp ∧ (wp = prec + 10 ∨ ∃ q, (n, q, false) ∈ h ∧ wp = q + 10) ∧
      (logIntMiss F s n prec false).2 = .ok (w, shr (F n wp) (wp - prec)) :=
    ⟨.computed, prec + 10, by omega, Or.inl rfl, by simp [logIntMiss]⟩
  unfold logIntReq
  split
  · next value vprec e =>
    obtain ⟨hv, _, q, hq, hvp⟩ := hi n value vprec e
    split
    · next hge => exact ⟨.cache, vprec, hge, Or.inr ⟨q, hq, hvp⟩, by rw [hv]⟩
    · exact hmiss
  · exact hmiss

/-! ## exact-key caches -/

def ExactInv {K V : Type} (F : K → V) (s : FMap K V) : Prop := ∀ k v, s k = some v → v = F k

theorem exactReq_fault_state {K V : Type} [DecidableEq K] (F : K → V) (s : FMap K V) (k : K) :
    (exactReq F s k true).1 = s := by
  unfold exactReq
  split <;> rfl

theorem exactReq_inv {K V : Type} [DecidableEq K] (F : K → V) (s : FMap K V) (k : K) (fault : Bool)
    (hi : ExactInv F s) : ExactInv F (exactReq F s k fault).1 := by
  cases fault with
  | true => rw [exactReq_fault_state]; exact hi
  | false =>
    unfold exactReq
    split
    · exact hi
    · intro k' v e
      simp only [Bool.false_eq_true, if_false] at e
      by_cases hk : k' = k
      · subst hk; rw [FMap.set_same] at e; exact (Option.some.inj e).symm
      · rw [FMap.set_other _ _ _ _ hk] at e; exact hi k' v e

theorem exactAfter_inv {K V : Type} [DecidableEq K] (F : K → V) (s : FMap K V) (h : List (K × Bool))
    (hi : ExactInv F s) : ExactInv F (exactAfter F s h) := by
  induction h generalizing s with
  | nil => exact hi
  | cons r h ih => exact ih _ (exactReq_inv F s r.1 r.2 hi)

theorem exactReq_answer {K V : Type} [DecidableEq K] (F : K → V) (s : FMap K V) (k : K)
    (hi : ExactInv F s) : ∃ w, (exactReq F s k false).2 = .ok (w, F k) := by
  unfold exactReq
  cases e : s k with
  | none => exact ⟨.computed, by simp⟩
  | some v => exact ⟨.cache, by simp [hi k v e]⟩

/-! ## memoize -/

def MemoizeInv {K V : Type} (F : K → Nat → V) (h : List (K × Nat × Bool)) (s : MemoizeState K V) : Prop :=
  ∀ k cp v, s k = some (cp, v) → v = F k cp ∧ (k, cp, false) ∈ h

theorem memoizeReq_fault_state {K V : Type} [DecidableEq K] (F : K → Nat → V) (pos : V → Nat → V)
    (s : MemoizeState K V) (k : K) (prec : Nat) : (memoizeReq F pos s k prec true).1 = s := by
  unfold memoizeReq
  split
  · split <;> rfl
  · rfl

theorem memoizeMiss_inv {K V : Type} [DecidableEq K] (F : K → Nat → V)
    (h : List (K × Nat × Bool)) (s : MemoizeState K V) (k : K) (prec : Nat)
    (hm : MemoizeInv F (h ++ [(k, prec, false)]) s) :
    MemoizeInv F (h ++ [(k, prec, false)]) (memoizeMiss F s k prec false).1 := by
  unfold memoizeMiss
  simp only [Bool.false_eq_true, if_false]
  intro k' cp v e
  by_cases hk : k' = k
  · subst hk
    rw [FMap.set_same] at e
    simp only [Option.some.injEq, Prod.mk.injEq] at e
    obtain ⟨rfl, rfl⟩ := e
    exact ⟨rfl, by simp⟩
  · rw [FMap.set_other _ _ _ _ hk] at e
    exact hm k' cp v e

theorem memoizeReq_inv {K V : Type} [DecidableEq K] (F : K → Nat → V) (pos : V → Nat → V)
    (h : List (K × Nat × Bool)) (s : MemoizeState K V) (k : K) (prec : Nat) (fault : Bool)
    (hi : MemoizeInv F h s) : MemoizeInv F (h ++ [(k, prec, fault)]) (memoizeReq F pos s k prec fault).1 := by
  have hm : MemoizeInv F (h ++ [(k, prec, fault)]) s := by
    intro k' cp v e
    obtain ⟨a, b⟩ := hi k' cp v e
    exact ⟨a, by simp [b]⟩
  cases fault with
  | true => rw [memoizeReq_fault_state]; exact hm
  | false =>
    unfold memoizeReq
    split
    · split
      · exact hm
      · exact memoizeMiss_inv F h s k prec hm
    · exact memoizeMiss_inv F h s k prec hm

theorem memoizeAfter_append {K V : Type} [DecidableEq K] (F : K → Nat → V) (pos : V → Nat → V)
    (s : MemoizeState K V) (h : List (K × Nat × Bool)) (r : K × Nat × Bool) :
    memoizeAfter F pos s (h ++ [r]) = (memoizeReq F pos (memoizeAfter F pos s h) r.1 r.2.1 r.2.2).1 := by
  simp [memoizeAfter, List.foldl_append]

theorem memoizeAfter_inv {K V : Type} [DecidableEq K] (F : K → Nat → V) (pos : V → Nat → V)
    (h : List (K × Nat × Bool)) : MemoizeInv F h (memoizeAfter F pos FMap.empty h) := by
  induction h using List.reverseRecOn with
  | nil => intro k cp v e; simp [memoizeAfter] at e
  | append_singleton h r ih =>
    rw [memoizeAfter_append]
    exact memoizeReq_inv F pos h _ r.1 r.2.1 r.2.2 ih

theorem memoizeReq_answer {K V : Type} [DecidableEq K] (F : K → Nat → V) (pos : V → Nat → V)
    (h : List (K × Nat × Bool)) (s : MemoizeState K V) (k : K) (prec : Nat) (hi : MemoizeInv F h s) :
    (memoizeReq F pos s k prec false).2 = .ok (.computed, F k prec) ∨
    ∃ cp, prec ≤ cp ∧ (k, cp, false) ∈ h ∧
      (memoizeReq F pos s k prec false).2 = .ok (.cache, pos (F k cp) prec) := by
  unfold memoizeReq
  split
  · next cp v e =>
    obtain ⟨hv, hq⟩ := hi k cp v e
    split
    · next hge => right; exact ⟨cp, hge, hq, by rw [hv]⟩
    · left; simp [memoizeMiss]
  · left; simp [memoizeMiss]

/-! ## quadrature nodes -/

def QuadInv {I N : Type} (calcN : Nat → Nat → N) (tr : N → I → I → Nat → N) (p0 : Nat)
    (s : QuadState I N) : Prop :=
  (∀ d p n, s.standard (d, p) = some n → n = calcN d p) ∧
  (∀ a b d p n, s.transformed (a, b, d, p) = some n → n = tr (calcN d p) a b (p + 20)) ∧
  s.ctxPrec = p0

/-- inside a request `ctx.prec` is `prec + 20`; the cache parts of the invariant -/
def QuadInvC {I N : Type} (calcN : Nat → Nat → N) (tr : N → I → I → Nat → N) (s : QuadState I N) : Prop :=
  (∀ d p n, s.standard (d, p) = some n → n = calcN d p) ∧
  (∀ a b d p n, s.transformed (a, b, d, p) = some n → n = tr (calcN d p) a b (p + 20))

theorem quadStd_spec {I N : Type} (calcN : Nat → Nat → N) (tr : N → I → I → Nat → N)
    (s1 : QuadState I N) (d p : Nat) (fault : Option Nat) (hi : QuadInvC calcN tr s1)
    (s2 : QuadState I N) (w : QuadServed) (nodes : N)
    (e : quadStd calcN s1 d p fault = some (s2, w, nodes)) :
    QuadInvC calcN tr s2 ∧ nodes = calcN d p ∧ s2.ctxPrec = s1.ctxPrec := by
  unfold quadStd at e
  split at e
  · next n es =>
    simp only [Option.some.injEq, Prod.mk.injEq] at e
    obtain ⟨rfl, _, rfl⟩ := e
    exact ⟨hi, hi.1 d p _ es, rfl⟩
  · split at e
    · simp at e
    · simp only [Option.some.injEq, Prod.mk.injEq] at e
      obtain ⟨rfl, _, rfl⟩ := e
      refine ⟨⟨?_, hi.2⟩, rfl, rfl⟩
      intro d' p' n' e'
      by_cases hk : (d', p') = (d, p)
      · simp only [Prod.mk.injEq] at hk
        obtain ⟨rfl, rfl⟩ := hk
        simp only at e'
        rw [FMap.set_same] at e'
        exact (Option.some.inj e').symm
      · simp only at e'
        rw [FMap.set_other _ _ _ _ hk] at e'; exact hi.1 d' p' n' e'

theorem quadFinish_spec {I N : Type} [DecidableEq I] (calcN : Nat → Nat → N) (tr : N → I → I → Nat → N)
    (s2 : QuadState I N) (w : QuadServed) (a b : I) (d p orig : Nat) (fault : Option Nat)
    (hi : QuadInvC calcN tr s2) :
    QuadInvC calcN tr (quadFinish tr s2 w (calcN d p) a b d p orig fault).1 ∧
    (quadFinish tr s2 w (calcN d p) a b d p orig fault).1.ctxPrec = orig ∧
    (fault ≠ some 1 → (quadFinish tr s2 w (calcN d p) a b d p orig fault).2 =
      .ok (w, tr (calcN d p) a b (p + 20))) := by
  unfold quadFinish
  by_cases hf : fault = some 1
  · rw [if_pos hf]
    exact ⟨hi, rfl, fun h => absurd hf h⟩
  · rw [if_neg hf]
    split
    · refine ⟨⟨hi.1, ?_⟩, rfl, fun _ => rfl⟩
      intro a' b' d' p' n' e
      by_cases hk : (a', b', d', p') = (a, b, d, p)
      · simp only [Prod.mk.injEq] at hk
        obtain ⟨rfl, rfl, rfl, rfl⟩ := hk
        simp only at e
        rw [FMap.set_same] at e
        exact (Option.some.inj e).symm
      · simp only at e
        rw [FMap.set_other _ _ _ _ hk] at e
        exact hi.2 a' b' d' p' n' e
    · exact ⟨hi, rfl, fun _ => rfl⟩

theorem quadReq_inv {I N : Type} [DecidableEq I] (calcN : Nat → Nat → N) (tr : N → I → I → Nat → N)
    (p0 : Nat) (s : QuadState I N) (a b : I) (d p : Nat) (fault : Option Nat)
    (hi : QuadInv calcN tr p0 s) : QuadInv calcN tr p0 (quadReq calcN tr s a b d p fault).1 := by
  obtain ⟨h1, h2, h3⟩ := hi
  unfold quadReq
  split
  · exact ⟨h1, h2, h3⟩
  · simp only
    split
    · exact ⟨h1, h2, h3⟩
    · next s2 w nodes e =>
      obtain ⟨hc, hn, _⟩ := quadStd_spec calcN tr { s with ctxPrec := p + 20 } d p fault ⟨h1, h2⟩ s2 w nodes e
      subst hn
      obtain ⟨q1, q2, _⟩ := quadFinish_spec calcN tr s2 w a b d p s.ctxPrec fault hc
      exact ⟨q1.1, q1.2, by rw [q2, h3]⟩

theorem quadReq_answer {I N : Type} [DecidableEq I] (calcN : Nat → Nat → N) (tr : N → I → I → Nat → N)
    (p0 : Nat) (s : QuadState I N) (a b : I) (d p : Nat) (hi : QuadInv calcN tr p0 s) :
    ∃ w, (quadReq calcN tr s a b d p none).2 = .ok (w, tr (calcN d p) a b (p + 20)) := by
  obtain ⟨h1, h2, h3⟩ := hi
  unfold quadReq
  split
  · next n et => exact ⟨.transformedCache, by rw [h2 a b d p n et]⟩
  · simp only
    split
    · next e =>
      exfalso
      unfold quadStd at e
      split at e <;> simp at e
    · next s2 w nodes e =>
      obtain ⟨hc, hn, _⟩ := quadStd_spec calcN tr { s with ctxPrec := p + 20 } d p none ⟨h1, h2⟩ s2 w nodes e
      subst hn
      obtain ⟨_, _, q3⟩ := quadFinish_spec calcN tr s2 w a b d p s.ctxPrec none hc
      exact ⟨w, q3 (by simp)⟩

/-! ## matrix `_LU` -/

/-- the cached decomposition is the decomposition of the CURRENT contents at SOME precision -/
def LUInv {D R : Type} (LU : D → Nat → Option R) (s : LUState D R) : Prop :=
  ∀ r, s.lu = some r → ∃ p, LU s.data p = some r

/-- the cached decomposition is the decomposition of the current contents at the current precision -/
def LUInvStrong {D R : Type} (LU : D → Nat → Option R) (s : LUState D R) : Prop :=
  ∀ r, s.lu = some r → LU s.data s.prec = some r

def LUOp.isResize {D : Type} : LUOp D → Bool
  | .resize _ => true
  | _ => false

def LUOp.isSetPrec {D : Type} : LUOp D → Bool
  | .setPrec _ => true
  | _ => false

theorem luStep_inv {D R : Type} (LU : D → Nat → Option R) (s : LUState D R) (o : LUOp D)
    (ho : o.isResize = false) (hi : LUInv LU s) : LUInv LU (luStep LU s o).1 := by
  cases o with
  | decomp uc fault =>
    simp only [luStep]
    split
    · exact hi
    · split
      · exact hi
      · split
        · exact hi
        · next r e =>
          intro r' hr
          simp only [Option.some.injEq] at hr
          subst hr
          exact ⟨s.prec, e⟩
  | setItem d => intro r hr; simp [luStep] at hr
  | setSlice d => intro r hr; simp [luStep] at hr
  | resize d => simp [LUOp.isResize] at ho
  | setPrec p => exact hi

theorem luStep_invStrong {D R : Type} (LU : D → Nat → Option R) (s : LUState D R) (o : LUOp D)
    (ho : o.isResize = false) (hp : o.isSetPrec = false) (hi : LUInvStrong LU s) :
    LUInvStrong LU (luStep LU s o).1 := by
  cases o with
  | decomp uc fault =>
    simp only [luStep]
    split
    · exact hi
    · split
      · exact hi
      · split
        · exact hi
        · next r e =>
          intro r' hr
          simp only [Option.some.injEq] at hr
          subst hr
          exact e
  | setItem d => intro r hr; simp [luStep] at hr
  | setSlice d => intro r hr; simp [luStep] at hr
  | resize d => simp [LUOp.isResize] at ho
  | setPrec p => simp [LUOp.isSetPrec] at hp

theorem luAfter_inv {D R : Type} (LU : D → Nat → Option R) (s : LUState D R) (h : List (LUOp D))
    (ho : ∀ o ∈ h, o.isResize = false) (hi : LUInv LU s) : LUInv LU (luAfter LU s h) := by
  induction h generalizing s with
  | nil => exact hi
  | cons o h ih =>
    exact ih _ (fun o' ho' => ho o' (by simp [ho'])) (luStep_inv LU s o (ho o (by simp)) hi)

theorem luAfter_invStrong {D R : Type} (LU : D → Nat → Option R) (s : LUState D R) (h : List (LUOp D))
    (ho : ∀ o ∈ h, o.isResize = false ∧ o.isSetPrec = false) (hi : LUInvStrong LU s) :
    LUInvStrong LU (luAfter LU s h) := by
  induction h generalizing s with
  | nil => exact hi
  | cons o h ih =>
    exact ih _ (fun o' ho' => ho o' (by simp [ho']))
      (luStep_invStrong LU s o (ho o (by simp)).1 (ho o (by simp)).2 hi)

/-! ## bernoulli_cache -/

/-- `k` completed iterations of the loop body, starting from the initial entry
`({0: fone}, [2, 10, 1])`; `none` when one of the bodies raises by itself. -/
def bernIter (env : BernEnv) (wp : Nat) : Nat → Option BernEntry
  | 0 => some bernEntryInit
  | k+1 =>
    match bernIter env wp k with
    | none => none
    | some e => (env.body wp e.m e.numbers e.bin e.bin1).map (bernAdvance e)

/-- the value of `numbers[n]` in the entry of working precision `wp`, whenever it is present: it
does not depend on the history (`bernIter_numbers`). -/
def bernVal (env : BernEnv) (wp n : Nat) : Option Mpf :=
  (bernIter env wp (n / 2)).bind (fun e => e.numbers n)

/-- every cache entry is the result of some number of completed loop iterations from the initial
entry: `numbers` and `state` are consistent. -/
def BernInv (env : BernEnv) (s : BernState) : Prop :=
  ∀ wp e, s wp = some e → ∃ k, bernIter env wp k = some e

theorem bernIter_m (env : BernEnv) (wp k : Nat) (e : BernEntry) (h : bernIter env wp k = some e) :
    e.m = 2 * k + 2 := by
  induction k generalizing e with
  | zero => simp [bernIter] at h; subst h; rfl
  | succ k ih =>
    simp only [bernIter] at h
    cases e0 : bernIter env wp k with
    | none => simp [e0] at h
    | some e' =>
      simp only [e0, Option.map_eq_some_iff] at h
      obtain ⟨b, _, rfl⟩ := h
      have := ih e' e0
      simp only [bernAdvance]; omega

theorem bernIter_numbers (env : BernEnv) (wp k : Nat) (e : BernEntry) (h : bernIter env wp k = some e)
    (n : Nat) (hn : n ≠ 0) (v : Mpf) (hv : e.numbers n = some v) : bernVal env wp n = some v := by
  induction k generalizing e with
  | zero =>
    simp [bernIter] at h; subst h
    simp [bernEntryInit, FMap.set, hn] at hv
  | succ k ih =>
    have h' := h
    simp only [bernIter] at h
    cases e0 : bernIter env wp k with
    | none => simp [e0] at h
    | some e' =>
      simp only [e0, Option.map_eq_some_iff] at h
      obtain ⟨b, _, rfl⟩ := h
      have hm := bernIter_m env wp k e' e0
      by_cases hk : n = e'.m
      · have : n / 2 = k + 1 := by omega
        simp only [bernVal, this, h', Option.bind_some]
        exact hv
      · simp only [bernAdvance] at hv
        rw [FMap.set_other _ _ _ _ hk] at hv
        exact ih e' e0 hv

theorem bernIter_keys (env : BernEnv) (wp k : Nat) (e : BernEntry) (h : bernIter env wp k = some e)
    (n : Nat) (h2 : n % 2 = 0) (hlo : 2 ≤ n) (hhi : n < e.m) : (e.numbers n).isSome = true := by
  induction k generalizing e with
  | zero => simp [bernIter] at h; subst h; simp [bernEntryInit] at hhi; omega
  | succ k ih =>
    simp only [bernIter] at h
    cases e0 : bernIter env wp k with
    | none => simp [e0] at h
    | some e' =>
      simp only [e0, Option.map_eq_some_iff] at h
      obtain ⟨b, _, rfl⟩ := h
      have hm := bernIter_m env wp k e' e0
      simp only [bernAdvance] at hhi ⊢
      by_cases hk : n = e'.m
      · subst hk; simp
      · rw [FMap.set_other _ _ _ _ hk]
        exact ih e' e0 (by omega)

/-- the loop only ever appends completed iterations, whether it finishes or is aborted -/
theorem bernLoop_iter (env : BernEnv) (wp n fuel : Nat) (e : BernEntry) (fault : Option Nat) (k : Nat)
    (h : bernIter env wp k = some e) :
    ∃ j, bernIter env wp (k + j) = some (bernLoop env wp n fuel e fault).1 := by
  induction fuel generalizing e fault k with
  | zero => exact ⟨0, h⟩
  | succ fuel ih =>
    unfold bernLoop
    split
    · split
      · exact ⟨0, h⟩
      · split
        · exact ⟨0, h⟩
        · next b hb =>
          have h1 : bernIter env wp (k + 1) = some (bernAdvance e b) := by
            simp [bernIter, h, hb]
          obtain ⟨j, hj⟩ := ih (bernAdvance e b) (fault.map (· - 1)) (k + 1) h1
          exact ⟨j + 1, by rw [← hj]; congr 1; omega⟩
    · exact ⟨0, h⟩

/-- with enough fuel a loop that reports completion has passed `n` -/
theorem bernLoop_complete (env : BernEnv) (wp n fuel : Nat) (e : BernEntry) (fault : Option Nat)
    (hf : n < e.m + 2 * fuel) (hc : (bernLoop env wp n fuel e fault).2 = true) :
    n < (bernLoop env wp n fuel e fault).1.m := by
  induction fuel generalizing e fault with
  | zero => simpa [bernLoop] using hf
  | succ fuel ih =>
    unfold bernLoop at hc ⊢
    by_cases hle : e.m ≤ n
    · rw [if_pos hle] at hc ⊢
      by_cases h0 : fault = some 0
      · rw [if_pos h0] at hc; simp at hc
      · rw [if_neg h0] at hc ⊢
        cases hb : env.body wp e.m e.numbers e.bin e.bin1 with
        | none => rw [hb] at hc; simp at hc
        | some b =>
          rw [hb] at hc
          simp only at hc ⊢
          exact ih _ _ (by simp only [bernAdvance]; omega) hc
    · rw [if_neg hle]; show n < e.m; omega

theorem bernHuge_state (env : BernEnv) (s : BernState) (n prec : Nat) (rnd : Option Rnd)
    (fault : Option Nat) : (bernHuge env s n prec rnd fault).1 = s := by
  unfold bernHuge; split <;> rfl

theorem bernRunLoop_state (env : BernEnv) (s : BernState) (e : BernEntry) (wp n prec : Nat)
    (rnd : Option Rnd) (fault : Option Nat) :
    (bernRunLoop env s e wp n prec rnd fault).1 = s.set wp (bernLoop env wp n (n + 1) e fault).1 := by
  unfold bernRunLoop
  simp only
  split
  · split <;> rfl
  · rfl

theorem bernRunLoop_inv (env : BernEnv) (s : BernState) (e : BernEntry) (wp n prec : Nat)
    (rnd : Option Rnd) (fault : Option Nat) (hi : BernInv env s) (k : Nat)
    (he : bernIter env wp k = some e) :
    BernInv env (bernRunLoop env s e wp n prec rnd fault).1 := by
  rw [bernRunLoop_state]
  intro wp' e' h
  by_cases hw : wp' = wp
  · subst hw
    rw [FMap.set_same] at h
    obtain ⟨j, hj⟩ := bernLoop_iter env wp' n (n + 1) e fault k he
    exact ⟨k + j, by rw [hj]; exact h⟩
  · rw [FMap.set_other _ _ _ _ hw] at h
    exact hi wp' e' h

theorem bernCached_inv (env : BernEnv) (s : BernState) (n prec : Nat) (rnd : Option Rnd)
    (fault : Option Nat) (hi : BernInv env s) : BernInv env (bernCached env s n prec rnd fault).1 := by
  unfold bernCached
  simp only
  split
  · next e he =>
    obtain ⟨k, hk⟩ := hi _ e he
    split
    · split <;> exact hi
    · split
      · rw [bernHuge_state]; exact hi
      · exact bernRunLoop_inv env s e _ n prec rnd fault hi k hk
  · split
    · rw [bernHuge_state]; exact hi
    · refine bernRunLoop_inv env _ bernEntryInit _ n prec rnd fault ?_ 0 rfl
      intro wp' e' h
      by_cases hw : wp' = bernWp prec
      · subst hw
        rw [FMap.set_same] at h
        exact ⟨0, by rw [← Option.some.inj h]; rfl⟩
      · rw [FMap.set_other _ _ _ _ hw] at h
        exact hi wp' e' h

/-- every request — completed or aborted at any of its crash points — preserves the invariant -/
theorem bernReq_inv (env : BernEnv) (s : BernState) (n prec : Nat) (rnd : Option Rnd)
    (fault : Option Nat) (hi : BernInv env s) : BernInv env (bernReq env s n prec rnd fault).1 := by
  unfold bernReq
  split
  · exact hi
  · split
    · exact hi
    · split
      · exact hi
      · split
        · split <;> exact hi
        · split
          · rw [bernHuge_state]; exact hi
          · exact bernCached_inv env s n prec rnd fault hi

theorem bernAfter_inv (env : BernEnv) (s : BernState)
    (h : List (Nat × Nat × Option Rnd × Option Nat)) (hi : BernInv env s) :
    BernInv env (bernAfter env s h) := by
  induction h generalizing s with
  | nil => exact hi
  | cons r h ih => exact ih _ (bernReq_inv env s r.1 r.2.1 r.2.2.1 r.2.2.2 hi)

theorem bernInv_empty (env : BernEnv) : BernInv env FMap.empty := by
  intro wp e h; simp at h

/-- the outcomes allowed by `bernoulli_refines`: `mpf_bernoulli_huge`, an exception of the
recurrence itself, or the history-independent table value `bernVal env wp n` passed through the
final `bernRound` (`numbers[n]` for `rnd = None`, else `mpf_pos(numbers[n], prec, rnd)`) — on
whichever path it is served. -/
def BernOutcome (env : BernEnv) (n prec : Nat) (rnd : Option Rnd) (r : Res (BernPath × Mpf)) : Prop :=
  r = .ok (.huge, env.huge n prec rnd) ∨ r = .raised ∨
  ∃ v path, bernVal env (bernWp prec) n = some v ∧ r = .ok (path, bernRound v prec rnd)

theorem bernRunLoop_outcome (env : BernEnv) (s : BernState) (e : BernEntry) (prec n : Nat)
    (rnd : Option Rnd) (k : Nat) (he : bernIter env (bernWp prec) k = some e) (h2 : n % 2 = 0) (hlo : 2 ≤ n) :
    BernOutcome env n prec rnd (bernRunLoop env s e (bernWp prec) n prec rnd none).2 := by
  obtain ⟨j, hj⟩ := bernLoop_iter env (bernWp prec) n (n + 1) e none k he
  have hm := bernIter_m env _ k e he
  unfold bernRunLoop
  simp only
  split
  · next hc =>
    have hlt := bernLoop_complete env (bernWp prec) n (n + 1) e none (by omega) hc
    split
    · next v hv =>
      right; right
      exact ⟨v, .computed, bernIter_numbers env _ _ _ hj n (by omega) v hv, rfl⟩
    · next hv =>
      have := bernIter_keys env _ _ _ hj n h2 hlo hlt
      rw [hv] at this; simp at this
  · right; left; rfl

theorem bernCached_outcome (env : BernEnv) (s : BernState) (n prec : Nat) (rnd : Option Rnd)
    (hi : BernInv env s) (h2 : n % 2 = 0) (hlo : 2 ≤ n) :
    BernOutcome env n prec rnd (bernCached env s n prec rnd none).2 := by
  unfold bernCached
  simp only
  split
  · next e he =>
    obtain ⟨k, hk⟩ := hi _ e he
    split
    · next v hv =>
      have hb := bernIter_numbers env _ k e hk n (by omega) v hv
      split
      · right; right; exact ⟨v, .cachedRaw, hb, rfl⟩
      · next rr => right; right; exact ⟨v, .cachedPos, hb, rfl⟩
    · split
      · left; simp [bernHuge]
      · exact bernRunLoop_outcome env s e prec n rnd k hk h2 hlo
  · split
    · left; simp [bernHuge]
    · exact bernRunLoop_outcome env _ bernEntryInit prec n rnd 0 rfl h2 hlo

/-! ## a range check with logarithmic recursion depth (for kernel evaluation) -/

def allRange (f : Nat → Bool) : Nat → Nat → Nat → Bool
  | 0, lo, len => len == 0 || (len == 1 && f lo)
  | fuel+1, lo, len =>
    if len ≤ 1 then (len == 0 || f lo)
    else allRange f fuel lo (len / 2) && allRange f fuel (lo + len / 2) (len - len / 2)

theorem allRange_sound (f : Nat → Bool) (fuel lo len : Nat) (h : allRange f fuel lo len = true) :
    ∀ p, lo ≤ p → p < lo + len → f p = true := by
  induction fuel generalizing lo len with
  | zero =>
    intro p h1 h2
    simp only [allRange, Bool.or_eq_true, beq_iff_eq, Bool.and_eq_true] at h
    rcases h with h | ⟨h, hf⟩
    · omega
    · have : p = lo := by omega
      rw [this]; exact hf
  | succ fuel ih =>
    intro p h1 h2
    unfold allRange at h
    split at h
    · simp only [Bool.or_eq_true, beq_iff_eq] at h
      rcases h with h | hf
      · omega
      · have : p = lo := by omega
        rw [this]; exact hf
    · simp only [Bool.and_eq_true] at h
      by_cases hp : p < lo + len / 2
      · exact ih lo (len / 2) h.1 p h1 hp
      · exact ih (lo + len / 2) (len - len / 2) h.2 p (by omega) (by omega)

end Mp.Cache
