/-
  MpProofs/CPow.lean — the exact regime of `mpc_pow_int`: `complex_int_pow` computes `(a + b·i)^n` in ℤ[i] exactly
  (binary exponentiation, loop invariant `w · base^n = z^N`), the two mantissas are aligned to a common exponent, and
  each component is rounded once by `from_man_exp`.
-/
import MpProofs.Arith
import MpModel.Complex
import Mathlib.NumberTheory.Zsqrtd.GaussianInt

namespace Mp

/-! ### the specification: real and imaginary part of `(x + y·i)^n` over ℚ, by the defining recursion -/

/-- `(x + y i)^n = cpowQ x y n .1 + cpowQ x y n .2 · i` -/
def cpowQ (x y : ℚ) : ℕ → ℚ × ℚ
  | 0 => (1, 0)
  | n + 1 => ((cpowQ x y n).1 * x - (cpowQ x y n).2 * y, (cpowQ x y n).1 * y + (cpowQ x y n).2 * x)

/-- scaling: `((A s) + (B s) i)^n = s^n (A + B i)^n`, with the integer power taken in ℤ[i] -/
theorem cpowQ_scale (A B : ℤ) (s : ℚ) (n : ℕ) :
    cpowQ (A * s) (B * s) n =
      ((((⟨A, B⟩ : GaussianInt) ^ n).re : ℚ) * s ^ n, (((⟨A, B⟩ : GaussianInt) ^ n).im : ℚ) * s ^ n) := by
  induction n with
  | zero => simp [cpowQ]
  | succ n ih =>
    simp only [cpowQ, ih, pow_succ, Zsqrtd.re_mul, Zsqrtd.im_mul]
    ext <;> push_cast <;> ring

/-! ### the loop -/

theorem complexIntPowLoop_spec :
    ∀ (fuel : ℕ) (wre wim a b : ℤ) (n : ℕ), n < 2 ^ fuel →
      (⟨(complexIntPowLoop fuel wre wim a b n).1, (complexIntPowLoop fuel wre wim a b n).2⟩ : GaussianInt) =
        ⟨wre, wim⟩ * (⟨a, b⟩ : GaussianInt) ^ n := by
  intro fuel
  induction fuel with
  | zero =>
    intro wre wim a b n h
    have : n = 0 := by simpa using h
    subst this
    simp [complexIntPowLoop]
  | succ fuel ih =>
    intro wre wim a b n h
    unfold complexIntPowLoop
    by_cases h0 : n = 0
    · subst h0; simp
    · simp only [h0, if_false]
      have hsq : (⟨a * a - b * b, 2 * a * b⟩ : GaussianInt) = ⟨a, b⟩ * ⟨a, b⟩ := by
        ext <;> simp [Zsqrtd.re_mul, Zsqrtd.im_mul] <;> ring
      by_cases hodd : n % 2 = 1
      · simp only [hodd, if_true]
        obtain ⟨k, rfl⟩ : ∃ k, n = 2 * k + 1 := ⟨n / 2, by omega⟩
        have hk : (2 * k + 1 - 1) / 2 = k := by omega
        have hk2 : k < 2 ^ fuel := by rw [pow_succ] at h; omega
        rw [hk, ih _ _ _ _ k hk2, hsq]
        have hw : (⟨wre * a - wim * b, wim * a + wre * b⟩ : GaussianInt) = ⟨wre, wim⟩ * ⟨a, b⟩ := by
          ext <;> simp [Zsqrtd.re_mul, Zsqrtd.im_mul] <;> ring
        rw [hw, ← pow_two, ← pow_mul, pow_succ]
        ring
      · have hev : ¬ (n % 2 = 1) := hodd
        simp only [hev, if_false]
        obtain ⟨k, rfl⟩ : ∃ k, n = 2 * k := ⟨n / 2, by omega⟩
        have hk : 2 * k / 2 = k := by omega
        have hk2 : k < 2 ^ fuel := by rw [pow_succ] at h; omega
        rw [hk, ih _ _ _ _ k hk2, hsq, ← pow_two, ← pow_mul]

/-- `complex_int_pow(a, b, n) = (a + b i)^n` in ℤ[i], for every `n ≥ 0` -/
theorem complex_int_pow_spec (a b : ℤ) (n : ℕ) :
    (⟨(complex_int_pow a b n).1, (complex_int_pow a b n).2⟩ : GaussianInt) = (⟨a, b⟩ : GaussianInt) ^ n := by
  unfold complex_int_pow
  rw [complexIntPowLoop_spec _ _ _ _ _ _ (bitcount_lt n)]
  have : (⟨1, 0⟩ : GaussianInt) = 1 := by ext <;> simp
  rw [this, one_mul]

/-! ### alignment and rounding -/

/-- signed mantissa of a number with sign field 0 or 1 -/
theorem val_signed (s : Mpf) (hs : s.sign ≤ 1) :
    val s = (((if s.sign ≠ 0 then -(s.man : ℤ) else (s.man : ℤ)) : ℤ) : ℚ) * 2 ^ s.exp := by
  unfold val
  have h : s.sign = 0 ∨ s.sign = 1 := by omega
  rcases h with h | h <;> simp [h]

theorem ishl_cast (m : ℤ) (k : ℕ) : ((ishl m k : ℤ) : ℚ) = (m : ℚ) * 2 ^ k := by
  simp [ishl]

/-- the exact regime: each component is the correct rounding of the exact component of `(a + b i)^n` -/
theorem mpcPowExact_spec (a b : Mpf) (ha : a.sign ≤ 1) (hb : b.sign ≤ 1) (n : ℕ) {prec : ℤ} (hp : 0 ≤ prec) (rnd : Rnd) :
    RoundOK prec rnd (cpowQ (val a) (val b) n).1 (mpcPowExact a b n prec rnd).1 ∧
    RoundOK prec rnd (cpowQ (val a) (val b) n).2 (mpcPowExact a b n prec rnd).2 := by
  unfold mpcPowExact
  set A : ℤ := if a.sign ≠ 0 then -(a.man : ℤ) else a.man with hA
  set B : ℤ := if b.sign ≠ 0 then -(b.man : ℤ) else b.man with hB
  have hva : val a = (A : ℚ) * 2 ^ a.exp := val_signed a ha
  have hvb : val b = (B : ℚ) * 2 ^ b.exp := val_signed b hb
  have two_ne : (2 : ℚ) ≠ 0 := by norm_num
  by_cases hde : a.exp - b.exp > 0
  · simp only [hde, if_true]
    have hk : ((a.exp - b.exp).toNat : ℤ) = a.exp - b.exp := Int.toNat_of_nonneg (le_of_lt hde)
    set A' : ℤ := ishl A (a.exp - b.exp).toNat with hA'
    have hva' : val a = (A' : ℚ) * 2 ^ b.exp := by
      rw [hva, hA', ishl_cast, mul_assoc, ← zpow_natCast, ← zpow_add₀ two_ne, hk]; congr 2; ring
    have key := cpowQ_scale A' B ((2 : ℚ) ^ b.exp) n
    rw [← hva', ← hvb] at key
    have hpow := complex_int_pow_spec A' B n
    have hre : (complex_int_pow A' B n).1 = ((⟨A', B⟩ : GaussianInt) ^ n).re := by rw [← hpow]
    have him : (complex_int_pow A' B n).2 = ((⟨A', B⟩ : GaussianInt) ^ n).im := by rw [← hpow]
    have hs : ((2 : ℚ) ^ b.exp) ^ n = 2 ^ ((n : ℤ) * b.exp) := by
      rw [← zpow_natCast, ← zpow_mul]; congr 1; ring
    rw [key, hs, ← hre, ← him]
    exact ⟨from_man_exp_spec _ _ hp rnd, from_man_exp_spec _ _ hp rnd⟩
  · simp only [hde, if_false]
    have hk : ((-(a.exp - b.exp)).toNat : ℤ) = b.exp - a.exp := by
      rw [Int.toNat_of_nonneg (by omega)]; ring
    set B' : ℤ := ishl B (-(a.exp - b.exp)).toNat with hB'
    have hvb' : val b = (B' : ℚ) * 2 ^ a.exp := by
      rw [hvb, hB', ishl_cast, mul_assoc, ← zpow_natCast, ← zpow_add₀ two_ne, hk]; congr 2; ring
    have key := cpowQ_scale A B' ((2 : ℚ) ^ a.exp) n
    rw [← hva, ← hvb'] at key
    have hpow := complex_int_pow_spec A B' n
    have hre : (complex_int_pow A B' n).1 = ((⟨A, B'⟩ : GaussianInt) ^ n).re := by rw [← hpow]
    have him : (complex_int_pow A B' n).2 = ((⟨A, B'⟩ : GaussianInt) ^ n).im := by rw [← hpow]
    have hs : ((2 : ℚ) ^ a.exp) ^ n = 2 ^ ((n : ℤ) * a.exp) := by
      rw [← zpow_natCast, ← zpow_mul]; congr 1; ring
    rw [key, hs, ← hre, ← him]
    exact ⟨from_man_exp_spec _ _ hp rnd, from_man_exp_spec _ _ hp rnd⟩

end Mp
