/-
  MpProofs/EnclLog.lean — soundness of `logI`
  (`log x = s·log 2 + 2^j·log(u^(1/2^j))`, series of `-log(1-t)` with Mathlib's remainder bound).
-/
import MpProofs.EnclArith
import Mathlib.Analysis.SpecialFunctions.Log.Deriv

namespace Mp.Encl
open Finset

theorem logTerms_sound (wp : ℕ) (T : DI) (t : ℝ) (ht : T.Mem t) (n : ℕ) :
    (logTerms wp T n).1.Mem (t ^ (n + 1)) ∧
    (logTerms wp T n).2.Mem (∑ i ∈ range n, t ^ (i + 1) / ((i : ℝ) + 1)) := by
  induction n with
  | zero => simpa [logTerms] using And.intro ht DI.mem_zero
  | succ n ih =>
    obtain ⟨h1, h2⟩ := ih
    constructor
    · have h := DI.mem_round (DI.mem_mul h1 ht) wp
      rw [pow_succ t (n + 1)]; exact h
    · have h := DI.mem_round (DI.mem_add h2 (DI.mem_divNat wp h1 (Nat.succ_pos n))) wp
      rw [Finset.sum_range_succ]
      have e : ((n.succ : ℕ) : ℝ) = (n : ℝ) + 1 := by push_cast; ring
      rw [e] at h; exact h

theorem log1mNeg_sound (wp n : ℕ) (T : DI) (t : ℝ) (ht : T.Mem t) (h2 : |t| ≤ 1 / 2) :
    (log1mNeg wp n T).Mem (-Real.log (1 - t)) := by
  obtain ⟨hp, hs⟩ := logTerms_sound wp T t ht n
  unfold log1mNeg
  apply DI.mem_widen hs
  have hb := Real.abs_log_sub_add_sum_range_le (x := t) (by linarith) n
  have e : -Real.log (1 - t) - ∑ i ∈ range n, t ^ (i + 1) / ((i : ℝ) + 1) =
      -((∑ i ∈ range n, t ^ (i + 1) / ((i : ℝ) + 1)) + Real.log (1 - t)) := by ring
  rw [e, abs_neg]
  refine le_trans hb ?_
  rw [Dy.val_shift]
  have hm := DI.abs_le_mag hp
  rw [abs_pow] at hm
  have h3 : (0 : ℝ) < 1 - |t| := by linarith
  rw [div_le_iff₀ h3]
  have h4 : (0 : ℝ) ≤ |t| ^ (n + 1) := by positivity
  have h5 : (0 : ℝ) ≤ T.mag.val := le_trans (abs_nonneg t) (DI.abs_le_mag ht)
  have h6 : (0 : ℝ) ≤ (logTerms wp T n).1.mag.val := le_trans h4 hm
  norm_num
  nlinarith

theorem sqrtN_sound (wp j : ℕ) : ∀ (U : DI) (u : ℝ), U.Mem u → (sqrtN wp j U).Mem (Real.sqrt^[j] u) := by
  induction j with
  | zero => intro U u h; simpa [sqrtN] using h
  | succ j ih =>
    intro U u h
    rw [Function.iterate_succ_apply]
    exact ih _ _ (sqrtI_sound wp U u h)

theorem log_sqrt_iter (j : ℕ) : ∀ (u : ℝ), 0 < u →
    0 < Real.sqrt^[j] u ∧ Real.log (Real.sqrt^[j] u) * (2 : ℝ) ^ (j : ℤ) = Real.log u := by
  induction j with
  | zero => intro u hu; simpa using hu
  | succ j ih =>
    intro u hu
    rw [Function.iterate_succ_apply]
    obtain ⟨h1, h2⟩ := ih (Real.sqrt u) (Real.sqrt_pos.2 hu)
    refine ⟨h1, ?_⟩
    rw [Real.log_sqrt hu.le] at h2
    push_cast at h2 ⊢
    rw [zpow_natCast] at h2
    rw [zpow_add_one₀ (by norm_num : (2 : ℝ) ≠ 0), zpow_natCast]
    linarith

theorem logCore_sound (wp j : ℕ) (U L : DI) (u : ℝ) (hU : U.Mem u) (h : logCore wp j U = some L) :
    L.Mem (Real.log u) ∧ 0 < u := by
  unfold logCore at h
  simp only at h
  split at h
  · rename_i hc
    obtain ⟨hpos, hmag⟩ := hc
    simp only [Option.some.injEq] at h
    subst h
    have hu : 0 < u := lt_of_lt_of_le ((Dy.val_pos_iff _).2 hpos) hU.1
    refine ⟨?_, hu⟩
    obtain ⟨hv, hlog⟩ := log_sqrt_iter j u hu
    have hV := sqrtN_sound wp j U u hU
    have hT := DI.mem_sub DI.mem_one hV
    have habs : |1 - Real.sqrt^[j] u| ≤ 1 / 2 := by
      refine le_trans (DI.abs_le_mag hT) ?_
      rw [Dy.le_iff] at hmag
      refine le_trans hmag ?_
      simp [Dy.val]
    apply DI.mem_round
    rw [← hlog]
    apply DI.mem_shift
    have h1 := fun n => DI.mem_neg (log1mNeg_sound wp n _ _ hT habs)
    simp only [sub_sub_cancel, neg_neg] at h1
    exact h1 _
  · simp at h

theorem logWith_sound (wp wp' j r : ℕ) (s : ℤ) (u : Dy) (L : DI)
    (h : logWith wp wp' j r s u = some L) :
    L.Mem (Real.log (u.val * (2 : ℝ) ^ s)) ∧ 0 < u.val := by
  unfold logWith at h
  split at h
  · rename_i hs
    subst hs
    cases hc : logCore wp' j (DI.point u) with
    | none => rw [hc] at h; simp at h
    | some a =>
      rw [hc] at h
      simp only [Option.map_some, Option.some.injEq] at h
      subst h
      obtain ⟨h1, h2⟩ := logCore_sound wp' j _ a u.val (DI.mem_point u) hc
      simp only [zpow_zero, mul_one]
      exact ⟨DI.mem_round h1 wp, h2⟩
  · split at h
    · rename_i a b ha hb
      simp only [Option.some.injEq] at h
      subst h
      obtain ⟨h1, h2⟩ := logCore_sound wp' j _ a u.val (DI.mem_point u) ha
      have h2' : (DI.ofInt 2).Mem (2 : ℝ) := by simpa using DI.mem_ofInt 2
      obtain ⟨h3, _⟩ := logCore_sound wp' r _ b 2 h2' hb
      refine ⟨?_, h2⟩
      rw [Real.log_mul h2.ne' (by positivity), Real.log_zpow]
      have := DI.mem_round (DI.mem_add (DI.mem_mul h3 (DI.mem_ofInt s)) h1) wp
      convert this using 1
      ring
    · simp at h

theorem logPoint_sound (wp : ℕ) (x : Dy) (L : DI) (h : logPoint wp x = some L) :
    L.Mem (Real.log x.val) ∧ 0 < x.val := by
  unfold logPoint at h
  split at h
  · simp at h
  · simp only at h
    generalize (if (Dy.mk x.m (x.e - ((blen x.m : ℤ) + x.e))).le ⟨3, -2⟩ = true
      then (blen x.m : ℤ) + x.e - 1 else (blen x.m : ℤ) + x.e) = s at h
    have := logWith_sound _ _ _ _ _ _ _ h
    have e : (Dy.mk x.m (x.e - s)).val * (2 : ℝ) ^ s = x.val := by
      simp only [Dy.val]
      rw [mul_assoc, ← zpow_add₀ (by norm_num : (2 : ℝ) ≠ 0)]
      congr 2; ring
    rw [e] at this
    refine ⟨this.1, ?_⟩
    rw [Dy.val_pos_iff]; omega

/-- **soundness of `logI`**: whenever an enclosure is returned, the interval is positive and the
enclosure contains `Real.log x` for every `x` in it -/
theorem logI_sound (wp : ℕ) (I J : DI) (h : logI wp I = some J) (x : ℝ)
    (hlo : I.lo.val ≤ x) (hhi : x ≤ I.hi.val) :
    0 < I.lo.val ∧ J.lo.val ≤ Real.log x ∧ Real.log x ≤ J.hi.val := by
  unfold logI at h
  split at h
  · rename_i a b ha hb
    simp only [Option.some.injEq] at h
    subst h
    obtain ⟨h1, h2⟩ := logPoint_sound wp _ a ha
    obtain ⟨h3, h4⟩ := logPoint_sound wp _ b hb
    have hx : 0 < x := lt_of_lt_of_le h2 hlo
    exact ⟨h2, le_trans h1.1 (Real.log_le_log h2 hlo), le_trans (Real.log_le_log hx hhi) h3.2⟩
  · simp at h

/-- `logI` refuses intervals that are not strictly positive -/
theorem logI_none_of_nonpos (wp : ℕ) (I : DI) (h : I.lo.m ≤ 0) : logI wp I = none := by
  unfold logI
  have : logPoint wp I.lo = none := by unfold logPoint; simp [h]
  rw [this]

end Mp.Encl
