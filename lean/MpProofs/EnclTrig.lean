/-
  MpProofs/EnclTrig.lean — soundness of `sinI`, `cosI`
  (Taylor sums of general order with the remainder from `Complex.exp_bound` at `z = r·I`,
   reduction `x = r + n·(π/2)` with the verified π enclosure).
-/
import MpProofs.EnclAtan
import Mathlib.Analysis.Complex.Trigonometric
import Mathlib.Analysis.SpecialFunctions.Trigonometric.Basic

namespace Mp.Encl
open Finset

/-- cosine partial sum -/
noncomputable def cosSum (r : ℝ) (n : ℕ) : ℝ := ∑ j ∈ range n, (-1) ^ j * (r ^ (2 * j) / ((2 * j).factorial : ℝ))
/-- sine partial sum -/
noncomputable def sinSum (r : ℝ) (n : ℕ) : ℝ :=
  ∑ j ∈ range n, (-1) ^ j * (r ^ (2 * j + 1) / ((2 * j + 1).factorial : ℝ))

theorem trigTerms_sound (wp : ℕ) (R : DI) (r : ℝ) (hr : R.Mem r) (n : ℕ) :
    (trigTerms wp R n).1.Mem (r ^ (2 * n) / ((2 * n).factorial : ℝ)) ∧
    (trigTerms wp R n).2.1.Mem (cosSum r n) ∧ (trigTerms wp R n).2.2.Mem (sinSum r n) := by
  induction n with
  | zero => simpa [trigTerms, cosSum, sinSum] using And.intro DI.mem_one DI.mem_zero
  | succ n ih =>
    obtain ⟨h1, h2, h3⟩ := ih
    have ht1 : (((trigTerms wp R n).1.mul R).divNat wp (2 * n + 1)).Mem
        (r ^ (2 * n + 1) / ((2 * n + 1).factorial : ℝ)) := by
      have h := DI.mem_divNat wp (DI.mem_mul h1 hr) (show 0 < 2 * n + 1 by omega)
      have e : r ^ (2 * n + 1) / ((2 * n + 1).factorial : ℝ) =
          r ^ (2 * n) / ((2 * n).factorial : ℝ) * r / ((2 * n + 1 : ℕ) : ℝ) := by
        rw [Nat.factorial_succ]; push_cast; field_simp; ring
      rw [e]; exact h
    have ht2 : ((((trigTerms wp R n).1.mul R).divNat wp (2 * n + 1)).mul R |>.divNat wp (2 * n + 2)).Mem
        (r ^ (2 * (n + 1)) / ((2 * (n + 1)).factorial : ℝ)) := by
      have h := DI.mem_divNat wp (DI.mem_mul ht1 hr) (show 0 < 2 * n + 2 by omega)
      have e : r ^ (2 * (n + 1)) / ((2 * (n + 1)).factorial : ℝ) =
          r ^ (2 * n + 1) / ((2 * n + 1).factorial : ℝ) * r / ((2 * n + 2 : ℕ) : ℝ) := by
        rw [show 2 * (n + 1) = (2 * n + 1) + 1 by ring, Nat.factorial_succ (2 * n + 1)]
        push_cast; field_simp; ring
      rw [e]; exact h
    refine ⟨ht2, ?_, ?_⟩
    · unfold cosSum
      rw [Finset.sum_range_succ]
      simp only [trigTerms]
      apply DI.mem_round
      split
      · rename_i hn
        have : (-1 : ℝ) ^ n = 1 := Even.neg_one_pow (Nat.even_iff.2 hn)
        rw [this, one_mul]
        exact DI.mem_add h2 h1
      · rename_i hn
        have : (-1 : ℝ) ^ n = -1 := Odd.neg_one_pow (Nat.odd_iff.2 (by omega))
        rw [this, neg_one_mul, ← sub_eq_add_neg]
        exact DI.mem_sub h2 h1
    · unfold sinSum
      rw [Finset.sum_range_succ]
      simp only [trigTerms]
      apply DI.mem_round
      split
      · rename_i hn
        have : (-1 : ℝ) ^ n = 1 := Even.neg_one_pow (Nat.even_iff.2 hn)
        rw [this, one_mul]
        exact DI.mem_add h3 ht1
      · rename_i hn
        have : (-1 : ℝ) ^ n = -1 := Odd.neg_one_pow (Nat.odd_iff.2 (by omega))
        rw [this, neg_one_mul, ← sub_eq_add_neg]
        exact DI.mem_sub h3 ht1

/-- the complex exponential partial sum at `r·I` splits into the cosine and sine partial sums -/
theorem exp_sum_mul_I (r : ℝ) (n : ℕ) :
    ∑ m ∈ range (2 * n), ((r : ℂ) * Complex.I) ^ m / (m.factorial : ℂ) =
      ((cosSum r n : ℝ) : ℂ) + ((sinSum r n : ℝ) : ℂ) * Complex.I := by
  induction n with
  | zero => simp [cosSum, sinSum]
  | succ n ih =>
    rw [show 2 * (n + 1) = 2 * n + 1 + 1 by ring, Finset.sum_range_succ, Finset.sum_range_succ, ih]
    unfold cosSum sinSum
    rw [Finset.sum_range_succ, Finset.sum_range_succ]
    have hI : Complex.I ^ (2 * n) = (-1 : ℂ) ^ n := by rw [pow_mul, Complex.I_sq]
    have e1 : ((r : ℂ) * Complex.I) ^ (2 * n) = (-1 : ℂ) ^ n * (r : ℂ) ^ (2 * n) := by
      rw [mul_pow, hI]; ring
    have e2 : ((r : ℂ) * Complex.I) ^ (2 * n + 1) = (-1 : ℂ) ^ n * (r : ℂ) ^ (2 * n + 1) * Complex.I := by
      rw [pow_succ, e1]; ring
    rw [e1, e2]
    push_cast
    ring

theorem trig_remainder (r : ℝ) (h1 : |r| ≤ 1) (n : ℕ) (hn : 0 < n) :
    |Real.cos r - cosSum r n| ≤ 2 * |r ^ (2 * n) / ((2 * n).factorial : ℝ)| ∧
    |Real.sin r - sinSum r n| ≤ 2 * |r ^ (2 * n) / ((2 * n).factorial : ℝ)| := by
  have hz : ‖(r : ℂ) * Complex.I‖ ≤ 1 := by
    rw [norm_mul, Complex.norm_I, mul_one, Complex.norm_real, Real.norm_eq_abs]; exact h1
  have hb := Complex.exp_bound hz (show 0 < 2 * n by omega)
  rw [exp_sum_mul_I, Complex.exp_mul_I, ← Complex.ofReal_cos, ← Complex.ofReal_sin] at hb
  have hz' : ‖(r : ℂ) * Complex.I‖ = |r| := by
    rw [norm_mul, Complex.norm_I, mul_one, Complex.norm_real, Real.norm_eq_abs]
  rw [hz'] at hb
  set D : ℂ := (↑(Real.cos r) + ↑(Real.sin r) * Complex.I - (↑(cosSum r n) + ↑(sinSum r n) * Complex.I)) with hD
  have hre : D.re = Real.cos r - cosSum r n := by
    simp [hD, Complex.cos_ofReal_re, Complex.sin_ofReal_re, Complex.sin_ofReal_im]
  have him : D.im = Real.sin r - sinSum r n := by
    simp [hD, Complex.sin_ofReal_re, Complex.cos_ofReal_im, Complex.sin_ofReal_im]
  have hfac : (0 : ℝ) < ((2 * n).factorial : ℝ) := by exact_mod_cast Nat.factorial_pos _
  have hn' : (1 : ℝ) ≤ (n : ℝ) := by exact_mod_cast hn
  have hbound : |r| ^ (2 * n) * (((2 * n).succ : ℝ) * (((2 * n).factorial : ℝ) * ((2 * n : ℕ) : ℝ))⁻¹) ≤
      2 * |r ^ (2 * n) / ((2 * n).factorial : ℝ)| := by
    rw [abs_div, abs_pow, abs_of_pos hfac]
    have h0 : (0 : ℝ) ≤ |r| ^ (2 * n) / ((2 * n).factorial : ℝ) := by positivity
    have e : |r| ^ (2 * n) * (((2 * n).succ : ℝ) * (((2 * n).factorial : ℝ) * ((2 * n : ℕ) : ℝ))⁻¹) =
        |r| ^ (2 * n) / ((2 * n).factorial : ℝ) * ((2 * (n : ℝ) + 1) / (2 * (n : ℝ))) := by
      push_cast; field_simp
    rw [e]
    have hB : (2 * (n : ℝ) + 1) / (2 * (n : ℝ)) ≤ 2 := by
      rw [div_le_iff₀ (by linarith)]; linarith
    calc |r| ^ (2 * n) / ((2 * n).factorial : ℝ) * ((2 * (n : ℝ) + 1) / (2 * (n : ℝ)))
        ≤ |r| ^ (2 * n) / ((2 * n).factorial : ℝ) * 2 := mul_le_mul_of_nonneg_left hB h0
      _ = 2 * (|r| ^ (2 * n) / ((2 * n).factorial : ℝ)) := by ring
  constructor
  · rw [← hre]; exact le_trans (Complex.abs_re_le_norm D) (le_trans hb hbound)
  · rw [← him]; exact le_trans (Complex.abs_im_le_norm D) (le_trans hb hbound)

theorem cosSinSmall_sound (wp n : ℕ) (R : DI) (r : ℝ) (hr : R.Mem r) (h1 : |r| ≤ 1) (hn : 0 < n) :
    (cosSinSmall wp n R).1.Mem (Real.cos r) ∧ (cosSinSmall wp n R).2.Mem (Real.sin r) := by
  obtain ⟨ht, hc, hs⟩ := trigTerms_sound wp R r hr n
  obtain ⟨b1, b2⟩ := trig_remainder r h1 n hn
  have hm := DI.abs_le_mag ht
  have hrem : 2 * |r ^ (2 * n) / ((2 * n).factorial : ℝ)| ≤ ((trigTerms wp R n).1.mag.shift 1).val := by
    rw [Dy.val_shift]; norm_num; linarith
  unfold cosSinSmall
  exact ⟨DI.mem_round (DI.mem_widen hc (le_trans b1 hrem)) wp,
         DI.mem_round (DI.mem_widen hs (le_trans b2 hrem)) wp⟩

theorem trigSub_sound (w : ℕ) (n : ℤ) (X : DI) (x : ℝ) (hx : X.Mem x) :
    (trigSub w n X).Mem (x - (n : ℝ) * (Real.pi / 2)) := by
  unfold trigSub
  apply DI.mem_sub hx
  have h := DI.mem_mul (DI.mem_ofInt n) (DI.mem_shift (piI_mem w) (-1))
  have e : Real.pi * (2 : ℝ) ^ (-1 : ℤ) = Real.pi / 2 := by
    rw [zpow_neg_one]; ring
  rw [e] at h
  exact h

theorem cos_sin_quadrant (r : ℝ) (n : ℤ) :
    (n % 4 = 0 → Real.cos (r + n * (Real.pi / 2)) = Real.cos r ∧ Real.sin (r + n * (Real.pi / 2)) = Real.sin r) ∧
    (n % 4 = 1 → Real.cos (r + n * (Real.pi / 2)) = -Real.sin r ∧ Real.sin (r + n * (Real.pi / 2)) = Real.cos r) ∧
    (n % 4 = 2 → Real.cos (r + n * (Real.pi / 2)) = -Real.cos r ∧ Real.sin (r + n * (Real.pi / 2)) = -Real.sin r) ∧
    (n % 4 = 3 → Real.cos (r + n * (Real.pi / 2)) = Real.sin r ∧ Real.sin (r + n * (Real.pi / 2)) = -Real.cos r) := by
  have hn : n = 4 * (n / 4) + n % 4 := (Int.mul_ediv_add_emod n 4).symm
  have key : ∀ q : ℤ, n % 4 = q →
      r + (n : ℝ) * (Real.pi / 2) = (r + (q : ℝ) * (Real.pi / 2)) + ((n / 4 : ℤ) : ℝ) * (2 * Real.pi) := by
    intro q hq
    rw [hq] at hn
    have : (n : ℝ) = 4 * ((n / 4 : ℤ) : ℝ) + (q : ℝ) := by exact_mod_cast congrArg (fun z : ℤ => (z : ℝ)) hn
    rw [this]; ring
  refine ⟨fun h => ?_, fun h => ?_, fun h => ?_, fun h => ?_⟩
  · rw [key 0 h, Real.cos_add_int_mul_two_pi, Real.sin_add_int_mul_two_pi]; simp
  · rw [key 1 h, Real.cos_add_int_mul_two_pi, Real.sin_add_int_mul_two_pi]
    simp [Real.cos_add_pi_div_two, Real.sin_add_pi_div_two]
  · rw [key 2 h, Real.cos_add_int_mul_two_pi, Real.sin_add_int_mul_two_pi]
    have : r + ((2 : ℤ) : ℝ) * (Real.pi / 2) = r + Real.pi := by push_cast; ring
    rw [this, Real.cos_add_pi, Real.sin_add_pi]; exact ⟨rfl, rfl⟩
  · rw [key 3 h, Real.cos_add_int_mul_two_pi, Real.sin_add_int_mul_two_pi]
    have : r + ((3 : ℤ) : ℝ) * (Real.pi / 2) = (r + Real.pi) + Real.pi / 2 := by push_cast; ring
    rw [this, Real.cos_add_pi_div_two, Real.sin_add_pi_div_two, Real.cos_add_pi, Real.sin_add_pi]
    simp

theorem mem_full_cos (x : ℝ) : (DI.mk (Dy.ofInt (-1)) Dy.one).Mem (Real.cos x) := by
  constructor <;> simp only [Dy.val_ofInt, Dy.val_one]
  · push_cast; exact Real.neg_one_le_cos x
  · exact Real.cos_le_one x

theorem mem_full_sin (x : ℝ) : (DI.mk (Dy.ofInt (-1)) Dy.one).Mem (Real.sin x) := by
  constructor <;> simp only [Dy.val_ofInt, Dy.val_one]
  · push_cast; exact Real.neg_one_le_sin x
  · exact Real.sin_le_one x

theorem quadrant_sound (n : ℤ) (c s : DI) (r : ℝ) (hc : c.Mem (Real.cos r)) (hs : s.Mem (Real.sin r)) :
    (quadrant (n % 4) c s).1.Mem (Real.cos (r + n * (Real.pi / 2))) ∧
    (quadrant (n % 4) c s).2.Mem (Real.sin (r + n * (Real.pi / 2))) := by
  obtain ⟨q0, q1, q2, q3⟩ := cos_sin_quadrant r n
  have c1 := Real.neg_one_le_cos r
  have c2 := Real.cos_le_one r
  have s1 := Real.neg_one_le_sin r
  have s2 := Real.sin_le_one r
  unfold quadrant
  split
  · rename_i h
    obtain ⟨e1, e2⟩ := q0 h
    rw [e1, e2]
    exact ⟨DI.mem_clamp1 hc c1 c2, DI.mem_clamp1 hs s1 s2⟩
  · split
    · rename_i h
      obtain ⟨e1, e2⟩ := q1 h
      rw [e1, e2]
      exact ⟨DI.mem_clamp1 (DI.mem_neg hs) (by linarith) (by linarith), DI.mem_clamp1 hc c1 c2⟩
    · split
      · rename_i h
        obtain ⟨e1, e2⟩ := q2 h
        rw [e1, e2]
        exact ⟨DI.mem_clamp1 (DI.mem_neg hc) (by linarith) (by linarith),
               DI.mem_clamp1 (DI.mem_neg hs) (by linarith) (by linarith)⟩
      · rename_i h0 h1 h2
        have h3 : n % 4 = 3 := by
          have := Int.emod_nonneg n (show (4 : ℤ) ≠ 0 by norm_num)
          have := Int.emod_lt_of_pos n (show (0 : ℤ) < 4 by norm_num)
          omega
        obtain ⟨e1, e2⟩ := q3 h3
        rw [e1, e2]
        exact ⟨DI.mem_clamp1 hs s1 s2, DI.mem_clamp1 (DI.mem_neg hc) (by linarith) (by linarith)⟩

theorem cosSinWith_sound (wp : ℕ) (n : ℤ) (w : ℕ) (X : DI) (x : ℝ) (hx : X.Mem x) :
    (cosSinWith wp n w X).1.Mem (Real.cos x) ∧ (cosSinWith wp n w X).2.Mem (Real.sin x) := by
  unfold cosSinWith
  simp only
  set R := (if n = 0 then X else (trigSub w n X).round (wp + 16)) with hR
  have hr : R.Mem (x - (n : ℝ) * (Real.pi / 2)) := by
    rw [hR]
    split
    · rename_i h; subst h; simpa using hx
    · exact DI.mem_round (trigSub_sound w n X x hx) _
  split
  · rename_i hmag
    rw [Dy.le_iff, Dy.val_one] at hmag
    have habs := le_trans (DI.abs_le_mag hr) hmag
    obtain ⟨hc, hs⟩ := cosSinSmall_sound (wp + 16) (nTerms (wp + 16) R.mag.lowBits / 2 + 1) R _ hr habs
      (by omega)
    have := quadrant_sound n _ _ _ hc hs
    rw [sub_add_cancel] at this
    exact this
  · exact ⟨mem_full_cos x, mem_full_sin x⟩

/-- **soundness of `cosI`** -/
theorem cosI_sound (wp : ℕ) (I : DI) (x : ℝ) (hlo : I.lo.val ≤ x) (hhi : x ≤ I.hi.val) :
    (cosI wp I).lo.val ≤ Real.cos x ∧ Real.cos x ≤ (cosI wp I).hi.val := by
  unfold cosI cosSinI
  exact DI.mem_round (cosSinWith_sound wp _ _ I x ⟨hlo, hhi⟩).1 wp

/-- **soundness of `sinI`** -/
theorem sinI_sound (wp : ℕ) (I : DI) (x : ℝ) (hlo : I.lo.val ≤ x) (hhi : x ≤ I.hi.val) :
    (sinI wp I).lo.val ≤ Real.sin x ∧ Real.sin x ≤ (sinI wp I).hi.val := by
  unfold sinI cosSinI
  exact DI.mem_round (cosSinWith_sound wp _ _ I x ⟨hlo, hhi⟩).2 wp

theorem cosSinI_mem (wp : ℕ) {I : DI} {x : ℝ} (hx : I.Mem x) :
    (cosSinI wp I).1.Mem (Real.cos x) ∧ (cosSinI wp I).2.Mem (Real.sin x) := by
  unfold cosSinI
  exact cosSinWith_sound wp _ _ I x hx

end Mp.Encl
