/-
  MpProofs/World.lean — helper lemmas for the context world (C38).
-/
import MpModel.World
import MpProofs.PrecConvRoundtrip

namespace Mp.World

variable {C F X V : Type}

/-- an existing cell other than the target of the statement is not written -/
theorem step_cells_ne (S : Sem C F X V) (w : World C) (op : Op F X) (j : Nat) (c : Cell)
    (hj : j ≠ op.target) (hc : w.cells[j]? = some c) : (step S w op).1.cells[j]? = some c := by
  have hlt : j < w.cells.length := by
    rcases Nat.lt_or_ge j w.cells.length with h | h
    · exact h
    · rw [List.getElem?_eq_none h] at hc; cases hc
  cases op <;> simp only [Op.target] at hj <;> simp only [step]
  all_goals
    split
    · exact hc
    · first
      | (simp only [List.getElem?_set_ne (Ne.symm hj)]; exact hc)
      | (split <;> first
          | exact hc
          | (simp only [List.getElem?_set_ne (Ne.symm hj)]; exact hc)
          | (simp only [List.getElem?_append_left hlt]; exact hc))
      | exact hc

/-- `clone` writes no existing cell at all (not even its parent's) -/
theorem step_clone_cells (S : Sem C F X V) (w : World C) (i j : Nat) (c : Cell)
    (hc : w.cells[j]? = some c) : (step S w (.clone i : Op F X)).1.cells[j]? = some c := by
  have hlt : j < w.cells.length := by
    rcases Nat.lt_or_ge j w.cells.length with h | h
    · exact h
    · rw [List.getElem?_eq_none h] at hc; cases hc
  simp only [step]
  split
  · exact hc
  · split
    · simp only [List.getElem?_append_left hlt]; exact hc
    · exact hc

/-- an evaluation writes no cell -/
theorem step_eval_cells (S : Sem C F X V) (w : World C) (i : Nat) (f : F) (x : X) :
    (step S w (.eval i f x)).1.cells = w.cells := by
  simp only [step]
  split <;> rfl

/-- only evaluations write the shared caches -/
theorem step_caches (S : Sem C F X V) (w : World C) (op : Op F X)
    (h : ∀ i f x, op ≠ .eval i f x) : (step S w op).1.caches = w.caches := by
  cases op <;> simp only [step]
  case eval i f x => exact absurd rfl (h i f x)
  all_goals
    split
    · rfl
    · first
      | rfl
      | (split <;> rfl)

theorem runOps_cells_ne (S : Sem C F X V) (ops : List (Op F X)) (w : World C) (j : Nat) (c : Cell)
    (hj : ∀ op ∈ ops, j ≠ op.target) (hc : w.cells[j]? = some c) :
    (runOps S w ops).cells[j]? = some c := by
  induction ops generalizing w with
  | nil => exact hc
  | cons op ops ih =>
    simp only [runOps]
    apply ih
    · intro o ho; exact hj o (List.mem_cons_of_mem _ ho)
    · exact step_cells_ne S w op j c (hj op List.mem_cons_self) hc

/-- every precision ever stored is ≥ 1 -/
def PrecPos (w : World C) : Prop := ∀ c ∈ w.cells, 1 ≤ c.prec

theorem dpsToPrec_pos (n : Int) : 1 ≤ dpsToPrec n := by
  unfold dpsToPrec
  split
  · exact Int.le_refl 1
  · exact Int.le_max_left _ _

theorem setPrec_prec_pos (c : Cell) (n : Int) (h : 1 ≤ c.prec) : 1 ≤ (c.setPrec n).prec := by
  unfold Cell.setPrec
  split
  · exact h
  · exact Int.le_max_left _ _

theorem setDps_prec_pos (c : Cell) (n : Int) (h : 1 ≤ c.prec) : 1 ≤ (c.setDps n).prec := by
  unfold Cell.setDps
  split
  · exact h
  · exact dpsToPrec_pos n

theorem precPos_set (w : World C) (i : Nat) (c' : Cell) (h : PrecPos w) (hc : 1 ≤ c'.prec) :
    ∀ c ∈ w.cells.set i c', 1 ≤ c.prec := by
  intro c hmem
  rcases List.mem_or_eq_of_mem_set hmem with h1 | h1
  · exact h c h1
  · rw [h1]; exact hc

theorem step_precPos (S : Sem C F X V) (w : World C) (op : Op F X) (h : PrecPos w) :
    PrecPos (step S w op).1 := by
  have hget : ∀ (i : Nat) (c : Cell), w.cells[i]? = some c → 1 ≤ c.prec := fun i c e => h c (List.mem_of_getElem? e)
  cases op <;> simp only [step]
  case setPrec i n =>
    split
    · exact h
    · next c e => exact precPos_set w i _ h (setPrec_prec_pos c n (hget i c e))
  case setDps i n =>
    split
    · exact h
    · next c e => exact precPos_set w i _ h (setDps_prec_pos c n (hget i c e))
  case setRounding i r =>
    split
    · exact h
    · next c e =>
      split
      · exact precPos_set w i _ h (hget i c e)
      · exact h
  case setTrap i b =>
    split
    · exact h
    · next c e => exact precPos_set w i _ h (hget i c e)
  case setPretty i b =>
    split
    · exact h
    · next c e => exact precPos_set w i _ h (hget i c e)
  case default i =>
    split
    · exact h
    · next c e =>
      split
      · exact precPos_set w i _ h (by simp [Cell.default])
      · exact h
  case clone i =>
    split
    · exact h
    · next c e =>
      split
      · intro c' hmem
        rcases List.mem_append.mp hmem with h1 | h1
        · exact h c' h1
        · rw [List.mem_singleton.mp h1]
          exact setPrec_prec_pos _ _ (by decide)
      · exact h
  case eval i f x =>
    split
    · exact h
    · exact h

theorem runOps_precPos (S : Sem C F X V) (ops : List (Op F X)) (w : World C) (h : PrecPos w) :
    PrecPos (runOps S w ops) := by
  induction ops generalizing w with
  | nil => exact h
  | cons op ops ih => exact ih _ (step_precPos S w op h)

theorem init_precPos (c0 : C) : PrecPos (init c0) := by
  intro c hc
  simp only [init, List.mem_cons, List.mem_nil_iff, or_false] at hc
  rcases hc with rfl | rfl | rfl <;> decide

/-- the clone's cell: same kind of context, SAME precision, default everything else -/
theorem cloneOf_prec (c : Cell) (h : 1 ≤ c.prec) : c.cloneOf.prec = c.prec := by
  simp only [Cell.cloneOf, Cell.setPrec, freshMp]
  exact Int.max_eq_right h

theorem cloneOf_kind (c : Cell) : c.cloneOf.kind = .mp := by
  simp [Cell.cloneOf, Cell.setPrec, freshMp]

theorem cloneOf_rounding (c : Cell) : c.cloneOf.rounding = .n := by
  simp [Cell.cloneOf, Cell.setPrec, freshMp]

end Mp.World
