/-
  MpProofs/CacheNormalize.lean — the two one-sided rounding facts about `normalize` with a positive
  mantissa that `constant_directed` (Props/C17.lean) needs.  (The complete `normalize` theorems are
  C02; these two are proved here directly so that C17's statement is unconditional.)
-/
import MpProofs.Cache

namespace Mp.Cache
open Mp

theorem trailingAux_dvd (fuel n : Nat) : 2 ^ trailingAux fuel n ∣ n := by
  induction fuel generalizing n with
  | zero => simp [trailingAux]
  | succ f ih =>
    unfold trailingAux
    split
    · simp
    · next h =>
      obtain ⟨c, hc⟩ := ih (n / 2)
      refine ⟨c, ?_⟩
      have h2 : n = 2 * (n / 2) := by omega
      rw [pow_succ, mul_comm (2 ^ _) 2, mul_assoc, ← hc]
      exact h2

theorem trailing_dvd (n : Nat) : 2 ^ trailing n ∣ n := by
  unfold trailing
  split
  · simp
  · exact trailingAux_dvd _ _

/-- stripping trailing zero bits does not change the value -/
theorem val_stripTrailing (m : Nat) (e b : Int) :
    val (stripTrailing 0 m e b) = (m : ℚ) * (2 : ℚ) ^ e := by
  obtain ⟨c, hc⟩ := trailing_dvd m
  have hdiv : m >>> trailing m = c := by
    rw [Nat.shiftRight_eq_div_pow]
    exact Nat.div_eq_of_eq_mul_right (Nat.pow_pos (by norm_num)) hc
  simp only [stripTrailing, val, pow_zero, one_mul]
  rw [hdiv]
  have h2 : (2 : ℚ) ≠ 0 := by norm_num
  rw [zpow_add₀ h2, zpow_natCast]
  have hq : (m : ℚ) = (2 : ℚ) ^ trailing m * (c : ℚ) := by exact_mod_cast hc
  rw [hq]
  ring

theorem normalize_floor_le : NormalizeFloorLe := by
  intro m e p _
  unfold normalize
  split
  · next h => subst h; simp [val, fzero]
  · simp only
    split
    · next hn =>
      rw [val_stripTrailing]
      have hr : roundShift .f 0 m (↑(bitcount m) - p).toNat = m / 2 ^ (↑(bitcount m) - p).toNat := by
        simp [roundShift, shiftsDown, Nat.shiftRight_eq_div_pow]
      rw [hr]
      set n := ((bitcount m : Int) - p).toNat with hndef
      have hnn : ((bitcount m : Int) - p) = (n : Int) := by omega
      rw [hnn]
      have h2 : (2 : ℚ) ≠ 0 := by norm_num
      rw [zpow_add₀ h2, zpow_natCast]
      have hle : ((m / 2 ^ n : Nat) : ℚ) * (2 : ℚ) ^ n ≤ (m : ℚ) := by
        have := Nat.div_mul_le_self m (2 ^ n)
        exact_mod_cast this
      have hpos : (0 : ℚ) < (2 : ℚ) ^ e := by positivity
      calc ((m / 2 ^ n : Nat) : ℚ) * ((2 : ℚ) ^ e * (2 : ℚ) ^ n)
          = (((m / 2 ^ n : Nat) : ℚ) * (2 : ℚ) ^ n) * (2 : ℚ) ^ e := by ring
        _ ≤ (m : ℚ) * (2 : ℚ) ^ e := by exact mul_le_mul_of_nonneg_right hle hpos.le
    · rw [val_stripTrailing]

theorem normalize_ceil_ge : NormalizeCeilGe := by
  intro m e p _
  unfold normalize
  split
  · next h => subst h; simp [val, fzero]
  · simp only
    split
    · next hn =>
      rw [val_stripTrailing]
      set n := ((bitcount m : Int) - p).toNat with hndef
      have hr : roundShift .c 0 m n = (m + 2 ^ n - 1) / 2 ^ n := by
        simp [roundShift, shiftsDown, Nat.shiftRight_eq_div_pow]
      rw [hr]
      have hnn : ((bitcount m : Int) - p) = (n : Int) := by omega
      rw [hnn]
      have h2 : (2 : ℚ) ≠ 0 := by norm_num
      rw [zpow_add₀ h2, zpow_natCast]
      have hk : 0 < 2 ^ n := by positivity
      have hge : m ≤ (m + 2 ^ n - 1) / 2 ^ n * 2 ^ n := by
        have := Nat.lt_mul_div_succ (m + 2 ^ n - 1) hk
        rw [Nat.mul_add, Nat.mul_one, Nat.mul_comm] at this
        omega
      have hge' : (m : ℚ) ≤ (((m + 2 ^ n - 1) / 2 ^ n : Nat) : ℚ) * (2 : ℚ) ^ n := by
        exact_mod_cast hge
      have hpos : (0 : ℚ) < (2 : ℚ) ^ e := by positivity
      calc (m : ℚ) * (2 : ℚ) ^ e
          ≤ ((((m + 2 ^ n - 1) / 2 ^ n : Nat) : ℚ) * (2 : ℚ) ^ n) * (2 : ℚ) ^ e :=
            mul_le_mul_of_nonneg_right hge' hpos.le
        _ = (((m + 2 ^ n - 1) / 2 ^ n : Nat) : ℚ) * ((2 : ℚ) ^ e * (2 : ℚ) ^ n) := by ring
    · rw [val_stripTrailing]

end Mp.Cache
