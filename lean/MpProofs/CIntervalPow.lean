/-
  MpProofs/CIntervalPow.lean — squares and nonnegative integer powers of complex rectangles (`mpci_square`, `mpciPowNat`):
  binary powering with `mpci_mul` / `mpci_square` at `prec + 20`, loop invariant `result ∋ z^k`, `X ∋ z^m`, `k + m·n = N`.
-/
import MpProofs.CPow
import MpProofs.IntervalMore

namespace Mp

/-- shifting the exponent of a finite canonical number multiplies its value by `2^n` -/
theorem mpf_shift_spec {s : Mpf} (hs : CanonFin s) (n : ℤ) :
    CanonFin (mpf_shift s n) ∧ val (mpf_shift s n) = val s * 2 ^ n := by
  unfold mpf_shift
  rcases hs.cases with rfl | ⟨hm, hsg, hodd, hbc⟩
  · have h0 : fzero.man = 0 := rfl
    simp only [h0, if_true]
    exact ⟨canonFin_fzero, by rw [val_fzero, zero_mul]⟩
  · simp only [hm, if_false]
    refine ⟨Or.inr ⟨hsg, hodd, hbc⟩, ?_⟩
    simp only [val]
    rw [zpow_add₀ (by norm_num : (2 : ℚ) ≠ 0)]
    ring

theorem mpi_shift_sound {s : Mpi} (hs : FinIv s) (n : ℤ) {x : ℚ} (hx : MemIv x s) :
    FinIv (mpi_shift s n) ∧ MemIv (x * 2 ^ n) (mpi_shift s n) := by
  obtain ⟨ha, hb, hab⟩ := hs
  obtain ⟨c1, v1⟩ := mpf_shift_spec ha n
  obtain ⟨c2, v2⟩ := mpf_shift_spec hb n
  have hpos : (0 : ℚ) < 2 ^ n := by positivity
  refine ⟨⟨c1, c2, ?_⟩, ?_, ?_⟩
  · show val (mpf_shift s.1 n) ≤ val (mpf_shift s.2 n)
    rw [v1, v2]; exact mul_le_mul_of_nonneg_right hab hpos.le
  · show val (mpf_shift s.1 n) ≤ x * 2 ^ n
    rw [v1]; exact mul_le_mul_of_nonneg_right hx.1 hpos.le
  · show x * 2 ^ n ≤ val (mpf_shift s.2 n)
    rw [v2]; exact mul_le_mul_of_nonneg_right hx.2 hpos.le

/-- rectangles -/
def FinCi' (Z : Mpci) : Prop := FinIv Z.1 ∧ FinIv Z.2
def MemCi' (x y : ℚ) (Z : Mpci) : Prop := MemIv x Z.1 ∧ MemIv y Z.2

theorem mpci_mul_sound {Z W : Mpci} (hZ : FinCi' Z) (hW : FinCi' W) {prec : ℤ} (hp : 0 ≤ prec) {x y u v : ℚ}
    (hz : MemCi' x y Z) (hw : MemCi' u v W) :
    FinCi' (mpci_mul Z W prec) ∧ MemCi' (x * u - y * v) (x * v + y * u) (mpci_mul Z W prec) := by
  obtain ⟨f1, p1⟩ := mpi_mul_sound hZ.1 hW.1 (le_refl 0) hz.1 hw.1
  obtain ⟨f2, p2⟩ := mpi_mul_sound hZ.2 hW.2 (le_refl 0) hz.2 hw.2
  obtain ⟨f3, p3⟩ := mpi_mul_sound hZ.1 hW.2 (le_refl 0) hz.1 hw.2
  obtain ⟨f4, p4⟩ := mpi_mul_sound hZ.2 hW.1 (le_refl 0) hz.2 hw.1
  obtain ⟨hre, mre⟩ := mpi_sub_sound f1 f2 hp p1 p2
  obtain ⟨him, mim⟩ := mpi_add_sound f3 f4 hp p3 p4
  exact ⟨⟨hre, him⟩, mre, mim⟩

/-- `(x + iy)² = (x² − y²) + i·2xy` -/
theorem mpci_square_sound {Z : Mpci} (hZ : FinCi' Z) {prec : ℤ} (hp : 0 ≤ prec) {x y : ℚ} (hz : MemCi' x y Z) :
    FinCi' (mpci_square Z prec) ∧ MemCi' (x * x - y * y) (x * y + y * x) (mpci_square Z prec) := by
  obtain ⟨f1, p1⟩ := mpi_square_sound hZ.1 (le_refl 0) hz.1
  obtain ⟨f2, p2⟩ := mpi_square_sound hZ.2 (le_refl 0) hz.2
  obtain ⟨fre, mre⟩ := mpi_sub_sound f1 f2 hp p1 p2
  obtain ⟨f3, p3⟩ := mpi_mul_sound hZ.1 hZ.2 hp hz.1 hz.2
  obtain ⟨fim, mim⟩ := mpi_shift_sound f3 1 p3
  refine ⟨⟨fre, fim⟩, mre, ?_⟩
  have e : x * y + y * x = x * y * 2 ^ (1 : ℤ) := by rw [zpow_one]; ring
  show MemIv (x * y + y * x) _
  rw [e]; exact mim

/-- complex multiplication on pairs -/
def cmulQ (a b : ℚ × ℚ) : ℚ × ℚ := (a.1 * b.1 - a.2 * b.2, a.1 * b.2 + a.2 * b.1)

theorem cpowQ_succ (x y : ℚ) (n : ℕ) : cpowQ x y (n + 1) = cmulQ (cpowQ x y n) (x, y) := by
  simp [cpowQ, cmulQ]

theorem cmulQ_assoc (a b c : ℚ × ℚ) : cmulQ (cmulQ a b) c = cmulQ a (cmulQ b c) := by
  simp only [cmulQ]; ext <;> ring

theorem cmulQ_comm (a b : ℚ × ℚ) : cmulQ a b = cmulQ b a := by
  simp only [cmulQ]; ext <;> ring

theorem cmulQ_one (a : ℚ × ℚ) : cmulQ a (1, 0) = a := by
  simp [cmulQ]

theorem cpowQ_add (x y : ℚ) (m n : ℕ) : cpowQ x y (m + n) = cmulQ (cpowQ x y m) (cpowQ x y n) := by
  induction n with
  | zero => simp [cpowQ, cmulQ]
  | succ n ih => rw [← add_assoc, cpowQ_succ, ih, cpowQ_succ, cmulQ_assoc]

theorem cpowQ_two_mul (x y : ℚ) (m : ℕ) : cpowQ x y (2 * m) = cmulQ (cpowQ x y m) (cpowQ x y m) := by
  rw [two_mul, cpowQ_add]

/-- loop invariant of the binary powering -/
theorem mpciPowLoop_sound {wp : ℤ} (hwp : 0 ≤ wp) (x y : ℚ) :
    ∀ (fuel : ℕ) (R X : Mpci) (n k m : ℕ), n < 2 ^ fuel → FinCi' R → FinCi' X →
      MemCi' (cpowQ x y k).1 (cpowQ x y k).2 R → MemCi' (cpowQ x y m).1 (cpowQ x y m).2 X →
      FinCi' (mpciPowLoop wp fuel R X n) ∧
        MemCi' (cpowQ x y (k + m * n)).1 (cpowQ x y (k + m * n)).2 (mpciPowLoop wp fuel R X n) := by
  intro fuel
  induction fuel with
  | zero =>
    intro R X n k m hn hR _ mR _
    have : n = 0 := by simpa using hn
    subst this
    simpa [mpciPowLoop] using ⟨hR, mR⟩
  | succ fuel ih =>
    intro R X n k m hn hR hX mR mX
    unfold mpciPowLoop
    by_cases h0 : n = 0
    · subst h0; simpa using ⟨hR, mR⟩
    · simp only [h0, if_false]
      obtain ⟨fS, mS⟩ := mpci_square_sound hX hwp mX
      have eS : cpowQ x y (2 * m) = ((cpowQ x y m).1 * (cpowQ x y m).1 - (cpowQ x y m).2 * (cpowQ x y m).2,
          (cpowQ x y m).1 * (cpowQ x y m).2 + (cpowQ x y m).2 * (cpowQ x y m).1) := by
        rw [cpowQ_two_mul]; rfl
      have mS' : MemCi' (cpowQ x y (2 * m)).1 (cpowQ x y (2 * m)).2 (mpci_square X wp) := by
        rw [eS]; exact mS
      by_cases hodd : n % 2 = 1
      · simp only [hodd, if_true]
        obtain ⟨j, rfl⟩ : ∃ j, n = 2 * j + 1 := ⟨n / 2, by omega⟩
        have hj : (2 * j + 1 - 1) / 2 = j := by omega
        have hj2 : j < 2 ^ fuel := by rw [pow_succ] at hn; omega
        obtain ⟨fM, mM⟩ := mpci_mul_sound hR hX hwp mR mX
        have eM : cpowQ x y (k + m) = ((cpowQ x y k).1 * (cpowQ x y m).1 - (cpowQ x y k).2 * (cpowQ x y m).2,
            (cpowQ x y k).1 * (cpowQ x y m).2 + (cpowQ x y k).2 * (cpowQ x y m).1) := by
          rw [cpowQ_add]; rfl
        have mM' : MemCi' (cpowQ x y (k + m)).1 (cpowQ x y (k + m)).2 (mpci_mul R X wp) := by
          rw [eM]; exact mM
        rw [hj]
        have := ih (mpci_mul R X wp) (mpci_square X wp) j (k + m) (2 * m) hj2 fM fS mM' mS'
        have e : k + m + 2 * m * j = k + m * (2 * j + 1) := by ring
        rwa [e] at this
      · simp only [hodd, if_false]
        obtain ⟨j, rfl⟩ : ∃ j, n = 2 * j := ⟨n / 2, by omega⟩
        have hj : 2 * j / 2 = j := by omega
        have hj2 : j < 2 ^ fuel := by rw [pow_succ] at hn; omega
        rw [hj]
        have := ih R (mpci_square X wp) j k (2 * m) hj2 hR fS mR mS'
        have e : k + 2 * m * j = k + m * (2 * j) := by ring
        rwa [e] at this

theorem mpci_pos_sound {Z : Mpci} (hZ : FinCi' Z) {prec : ℤ} (hp : 0 ≤ prec) {x y : ℚ} (hz : MemCi' x y Z) :
    FinCi' (mpci_pos Z prec) ∧ MemCi' x y (mpci_pos Z prec) := by
  obtain ⟨h1, m1⟩ := mpi_pos_sound hZ.1 hp hz.1
  obtain ⟨h2, m2⟩ := mpi_pos_sound hZ.2 hp hz.2
  exact ⟨⟨h1, h2⟩, m1, m2⟩

/-- **nonnegative integer powers of rectangles**: the result contains `(x + iy)^n` for every `x + iy` of the rectangle -/
theorem mpciPowNat_sound {Z : Mpci} (hZ : FinCi' Z) (n : ℕ) {prec : ℤ} (hp : 0 ≤ prec) {x y : ℚ} (hz : MemCi' x y Z) :
    FinCi' (mpciPowNat Z n prec) ∧ MemCi' (cpowQ x y n).1 (cpowQ x y n).2 (mpciPowNat Z n prec) := by
  have one_fin : FinCi' (mpi_one, mpi_zero) := by
    refine ⟨⟨Or.inr ⟨by decide, by decide, by decide⟩, Or.inr ⟨by decide, by decide, by decide⟩, le_refl _⟩,
      ⟨canonFin_fzero, canonFin_fzero, le_refl _⟩⟩
  have one_mem : MemCi' (cpowQ x y 0).1 (cpowQ x y 0).2 (mpi_one, mpi_zero) := by
    have v1 : val fone = 1 := by simp [val, fone]
    simp [cpowQ, MemCi', MemIv, mpi_one, mpi_zero, v1, val_fzero]
  have z_mem : MemCi' (cpowQ x y 1).1 (cpowQ x y 1).2 Z := by
    simpa [cpowQ] using hz
  unfold mpciPowNat
  by_cases h0 : n = 0
  · subst h0; simpa using ⟨one_fin, one_mem⟩
  rw [if_neg h0]
  by_cases h1 : n = 1
  · subst h1
    simp only [if_true]
    exact mpci_pos_sound hZ hp z_mem
  rw [if_neg h1]
  by_cases h2 : n = 2
  · subst h2
    simp only [if_true]
    obtain ⟨f, m⟩ := mpci_square_sound hZ hp hz
    refine ⟨f, ?_⟩
    have e : cpowQ x y 2 = (x * x - y * y, x * y + y * x) := by simp [cpowQ]
    rw [e]; exact m
  rw [if_neg h2]
  simp only
  have hwp : (0 : ℤ) ≤ prec + 20 := by omega
  obtain ⟨f, m⟩ := mpciPowLoop_sound hwp x y (bitcount n) (mpi_one, mpi_zero) Z n 0 1 (bitcount_lt n) one_fin hZ one_mem z_mem
  have e : 0 + 1 * n = n := by ring
  rw [e] at m
  exact mpci_pos_sound f hp m

end Mp
