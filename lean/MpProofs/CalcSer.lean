/-
  MpProofs/CalcSer.lean — the series / product / limit families of `MpModel/CalcSer.lean` converge to their
  closed forms (Mathlib: geometric series, ζ(2), ζ(4), exp/sin/cos/log series, Leibniz, telescoping, Euler).
-/
import MpModel.CalcSer
import MpProofs.CalcFam
import Mathlib.NumberTheory.ZetaValues
import Mathlib.Analysis.SpecificLimits.Normed
import Mathlib.Analysis.SpecialFunctions.Trigonometric.Series
import Mathlib.Analysis.SpecialFunctions.Log.Deriv
import Mathlib.Analysis.Real.Pi.Leibniz
import Mathlib.Analysis.SpecialFunctions.Complex.LogBounds
import Mathlib.Analysis.SpecialFunctions.Exponential

namespace Mp.Calc
open Filter Topology Finset

/-- the `k`-th term as a real number -/
noncomputable def Ser.term (s : Ser) (k : ℕ) : ℝ := ((s.termQ k : ℚ) : ℝ)

/-- the `k`-th factor as a real number -/
noncomputable def Prd.factor (s : Prd) (k : ℕ) : ℝ := ((s.factorQ k : ℚ) : ℝ)

theorem qAbs_lt_one {r : ℚ} (h : qAbs r < 1) : |(r : ℝ)| < 1 := by
  unfold qAbs at h
  split at h
  · rename_i h0
    have h0' : (r : ℝ) < 0 := by exact_mod_cast h0
    have h' : (-(r : ℝ)) < 1 := by exact_mod_cast h
    rw [abs_of_neg h0']; exact h'
  · rename_i h0
    have h0' : (0 : ℝ) ≤ r := by exact_mod_cast not_lt.1 h0
    have h' : (r : ℝ) < 1 := by exact_mod_cast h
    rw [abs_of_nonneg h0']; exact h'

theorem tele_partial (a n : ℕ) :
    ∑ k ∈ range n, (1 : ℝ) / (((1 + k + a : ℕ) : ℝ) * ((1 + k + a + 1 : ℕ) : ℝ)) =
      1 / ((a : ℝ) + 1) - 1 / ((n : ℝ) + a + 1) := by
  induction n with
  | zero => simp
  | succ n ih =>
    rw [sum_range_succ, ih]
    push_cast
    have h1 : ((a : ℝ) + 1) ≠ 0 := by positivity
    have h2 : ((n : ℝ) + a + 1) ≠ 0 := by positivity
    have h3 : ((n : ℝ) + 1 + a + 1) ≠ 0 := by positivity
    have h4 : ((1 : ℝ) + n + a) ≠ 0 := by positivity
    have h5 : ((1 : ℝ) + n + a + 1) ≠ 0 := by positivity
    field_simp
    ring

theorem tendsto_inv_nat_add (c : ℝ) : Tendsto (fun n : ℕ => 1 / ((n : ℝ) + c)) atTop (𝓝 0) := by
  have h := tendsto_natCast_atTop_atTop (R := ℝ)
  have h2 : Tendsto (fun n : ℕ => (n : ℝ) + c) atTop atTop := tendsto_atTop_add_const_right _ _ h
  exact (h2.inv_tendsto_atTop).congr fun n => by simp

/-- **partial sums tend to the closed form** (the definition of the value `nsum` approximates) -/
theorem Ser.tendsto_partial (s : Ser) (r : Ref) (h : s.sumRef = some r) :
    Tendsto (fun n => ∑ k ∈ range n, s.term (s.start + k)) atTop (𝓝 r.sem) := by
  cases s with
  | geom c q k0 =>
    simp only [Ser.sumRef] at h
    split at h
    · rename_i hq
      simp only [Option.some.injEq] at h; subst h
      have hq' := qAbs_lt_one hq
      have h1 := (hasSum_geometric_of_abs_lt_one hq').mul_left ((c : ℝ) * (q : ℝ) ^ k0)
      have h2 := h1.tendsto_sum_nat
      have hne : (1 - (q : ℝ)) ≠ 0 := by
        have := (abs_lt.1 hq').2; linarith
      convert h2 using 2
      · apply sum_congr rfl; intro k _
        simp only [Ser.term, Ser.termQ, Ser.start]; push_cast; rw [pow_add]; ring
      · simp only [Ref.sem]; push_cast; field_simp
    · simp at h
  | zeta2 =>
    simp only [Ser.sumRef, Option.some.injEq] at h; subst h
    have h1 := (hasSum_nat_add_iff' 1).mpr hasSum_zeta_two
    have h2 := h1.tendsto_sum_nat
    convert h2 using 2
    · apply sum_congr rfl; intro k _
      simp only [Ser.term, Ser.termQ, Ser.start]; push_cast; rw [add_comm]
    · simp [Ref.sem]; ring
  | zeta4 =>
    simp only [Ser.sumRef, Option.some.injEq] at h; subst h
    have h1 := (hasSum_nat_add_iff' 1).mpr hasSum_zeta_four
    have h2 := h1.tendsto_sum_nat
    convert h2 using 2
    · apply sum_congr rfl; intro k _
      simp only [Ser.term, Ser.termQ, Ser.start]; push_cast; rw [add_comm]
    · simp [Ref.sem]; ring
  | tele a =>
    simp only [Ser.sumRef, Option.some.injEq] at h; subst h
    have h1 : (fun n => ∑ k ∈ range n, (Ser.tele a).term ((Ser.tele a).start + k)) =
        fun n : ℕ => 1 / ((a : ℝ) + 1) - 1 / ((n : ℝ) + (a + 1)) := by
      funext n
      rw [← add_assoc, ← tele_partial a n]
      apply sum_congr rfl; intro k _
      simp only [Ser.term, Ser.termQ, Ser.start]; push_cast; ring
    rw [h1]
    have h2 := (tendsto_inv_nat_add ((a : ℝ) + 1)).const_sub (1 / ((a : ℝ) + 1))
    simpa [Ref.sem] using h2
  | expS x =>
    simp only [Ser.sumRef, Option.some.injEq] at h; subst h
    have h1 := NormedSpace.expSeries_div_hasSum_exp (x : ℝ)
    have h2 := h1.tendsto_sum_nat
    rw [← Real.exp_eq_exp_ℝ] at h2
    show Tendsto _ atTop (𝓝 (Real.exp (x : ℝ)))
    convert h2 using 2
    apply sum_congr rfl; intro k _
    simp only [Ser.term, Ser.termQ, Ser.start, natFactorial_eq, zero_add]; push_cast; rfl
  | sinS x =>
    simp only [Ser.sumRef, Option.some.injEq] at h; subst h
    have h2 := (Real.hasSum_sin (x : ℝ)).tendsto_sum_nat
    show Tendsto _ atTop (𝓝 (Real.sin (x : ℝ)))
    convert h2 using 2
    apply sum_congr rfl; intro k _
    simp only [Ser.term, Ser.termQ, Ser.start, natFactorial_eq, zero_add]; push_cast; rfl
  | cosS x =>
    simp only [Ser.sumRef, Option.some.injEq] at h; subst h
    have h2 := (Real.hasSum_cos (x : ℝ)).tendsto_sum_nat
    show Tendsto _ atTop (𝓝 (Real.cos (x : ℝ)))
    convert h2 using 2
    apply sum_congr rfl; intro k _
    simp only [Ser.term, Ser.termQ, Ser.start, natFactorial_eq, zero_add]; push_cast; rfl
  | logS x =>
    simp only [Ser.sumRef] at h
    split at h
    · rename_i hx
      simp only [Option.some.injEq] at h; subst h
      have h2 := (Real.hasSum_pow_div_log_of_abs_lt_one (qAbs_lt_one hx)).tendsto_sum_nat
      convert h2 using 2
      · apply sum_congr rfl; intro k _
        simp only [Ser.term, Ser.termQ, Ser.start]; push_cast; rw [add_comm 1 k, add_comm (1 : ℝ) (k : ℝ)]
      · simp [Ref.sem]
    · simp at h
  | leibniz =>
    simp only [Ser.sumRef, Option.some.injEq] at h; subst h
    have h2 := Real.tendsto_sum_pi_div_four
    convert h2 using 2
    · apply sum_congr rfl; intro k _
      simp only [Ser.term, Ser.termQ, Ser.start, zero_add]; push_cast; rfl
    · simp [Ref.sem]; ring

/-- the exact finite partial sum of the model is the finite sum of the terms -/
theorem Ser.partial_eq (s : Ser) (a b : ℕ) :
    ((s.partial a b : ℚ) : ℝ) = ∑ i ∈ range (b + 1 - a), s.term (a + i) := by
  unfold Ser.partial
  generalize (b + 1 - a) = n
  induction n with
  | zero => simp
  | succ n ih =>
    rw [List.range_succ, List.foldl_append, sum_range_succ]
    simp only [List.foldl_cons, List.foldl_nil]
    push_cast
    rw [ih]; rfl

theorem tele1_partial (n : ℕ) :
    ∏ k ∈ range n, (1 - 1 / (((2 + k : ℕ) : ℝ)) ^ 2) = ((n : ℝ) + 2) / (2 * ((n : ℝ) + 1)) := by
  induction n with
  | zero => simp
  | succ n ih =>
    rw [prod_range_succ, ih]
    push_cast
    have h1 : ((n : ℝ) + 1) ≠ 0 := by positivity
    have h2 : ((2 : ℝ) + n) ≠ 0 := by positivity
    have h3 : ((n : ℝ) + 1 + 1) ≠ 0 := by positivity
    field_simp
    ring

theorem tele2_partial (n : ℕ) :
    ∏ k ∈ range n, (1 + 1 / ((((1 + k : ℕ) : ℝ)) * (((1 + k + 2 : ℕ)) : ℝ))) =
      2 * ((n : ℝ) + 1) / ((n : ℝ) + 2) := by
  induction n with
  | zero => simp
  | succ n ih =>
    rw [prod_range_succ, ih]
    push_cast
    have h1 : ((n : ℝ) + 2) ≠ 0 := by positivity
    have h2 : ((1 : ℝ) + n) ≠ 0 := by positivity
    have h3 : ((1 : ℝ) + n + 2) ≠ 0 := by positivity
    have h4 : ((n : ℝ) + 1 + 2) ≠ 0 := by positivity
    field_simp
    ring

theorem tendsto_ratio (p q : ℝ) : Tendsto (fun n : ℕ => ((n : ℝ) + p) / ((n : ℝ) + q)) atTop (𝓝 1) := by
  have h : (fun n : ℕ => ((n : ℝ) + p) / ((n : ℝ) + q)) =ᶠ[atTop] fun n : ℕ => 1 + (p - q) * (1 / ((n : ℝ) + q)) := by
    have hev : ∀ᶠ n : ℕ in atTop, (n : ℝ) + q ≠ 0 := by
      have h2 : Tendsto (fun n : ℕ => (n : ℝ) + q) atTop atTop :=
        tendsto_atTop_add_const_right _ _ (tendsto_natCast_atTop_atTop (R := ℝ))
      exact (h2.eventually_gt_atTop 0).mono fun n hn => ne_of_gt hn
    filter_upwards [hev] with n hn
    field_simp; ring
  rw [tendsto_congr' h]
  simpa using ((tendsto_inv_nat_add q).const_mul (p - q)).const_add 1

/-- **partial products tend to the closed form** -/
theorem Prd.tendsto_partial (s : Prd) (r : Ref) (h : s.prodRef = some r) :
    Tendsto (fun n => ∏ k ∈ range n, s.factor (s.start + k)) atTop (𝓝 r.sem) := by
  cases s with
  | tele1 =>
    simp only [Prd.prodRef, Option.some.injEq] at h; subst h
    have h1 : (fun n => ∏ k ∈ range n, Prd.tele1.factor (Prd.tele1.start + k)) =
        fun n : ℕ => (1 / 2 : ℝ) * (((n : ℝ) + 2) / ((n : ℝ) + 1)) := by
      funext n
      have := tele1_partial n
      have h2 : ((n : ℝ) + 1) ≠ 0 := by positivity
      rw [show (1 / 2 : ℝ) * (((n : ℝ) + 2) / ((n : ℝ) + 1)) = ((n : ℝ) + 2) / (2 * ((n : ℝ) + 1)) by
        field_simp, ← this]
      apply prod_congr rfl; intro k _
      simp only [Prd.factor, Prd.factorQ, Prd.start]; push_cast; ring
    rw [h1]
    have := (tendsto_ratio 2 1).const_mul (1 / 2 : ℝ)
    simpa [Ref.sem] using this
  | tele2 =>
    simp only [Prd.prodRef, Option.some.injEq] at h; subst h
    have h1 : (fun n => ∏ k ∈ range n, Prd.tele2.factor (Prd.tele2.start + k)) =
        fun n : ℕ => (2 : ℝ) * (((n : ℝ) + 1) / ((n : ℝ) + 2)) := by
      funext n
      have := tele2_partial n
      rw [show (2 : ℝ) * (((n : ℝ) + 1) / ((n : ℝ) + 2)) = 2 * ((n : ℝ) + 1) / ((n : ℝ) + 2) by ring, ← this]
      apply prod_congr rfl; intro k _
      simp only [Prd.factor, Prd.factorQ, Prd.start]; push_cast; ring
    rw [h1]
    have := (tendsto_ratio 1 2).const_mul (2 : ℝ)
    simpa [Ref.sem] using this
  | ratio a b => simp [Prd.prodRef] at h

theorem Prd.partial_eq (s : Prd) (a b : ℕ) :
    ((s.partial a b : ℚ) : ℝ) = ∏ i ∈ range (b + 1 - a), s.factor (a + i) := by
  unfold Prd.partial
  generalize (b + 1 - a) = n
  induction n with
  | zero => simp
  | succ n ih =>
    rw [List.range_succ, List.foldl_append, prod_range_succ]
    simp only [List.foldl_cons, List.foldl_nil]
    push_cast
    rw [ih]; rfl

/-- the function whose limit is taken, and the filter along which -/
noncomputable def Lim.fn : Lim → ℝ → ℝ
  | .ratSeq a b c d, x => ((a : ℝ) * x + b) / ((c : ℝ) * x + d)
  | .euler t, x => (1 + (t : ℝ) / x) ^ x
  | .slopeExp c, x => (Real.exp ((c : ℝ) * x) - 1) / x
  | .slopeSin c, x => Real.sin ((c : ℝ) * x) / x

/-- `x → +∞` for the sequence-type families, `x → 0, x ≠ 0` for the slope-type ones -/
noncomputable def Lim.filter : Lim → Filter ℝ
  | .ratSeq _ _ _ _ => atTop
  | .euler _ => atTop
  | .slopeExp _ => 𝓝[≠] 0
  | .slopeSin _ => 𝓝[≠] 0

theorem Lim.tendsto (l : Lim) (r : Ref) (h : l.limRef = some r) : Tendsto l.fn l.filter (𝓝 r.sem) := by
  cases l with
  | ratSeq a b c d =>
    simp only [Lim.limRef] at h
    split at h
    · rename_i hc
      simp only [Option.some.injEq] at h; subst h
      have hc' : (c : ℝ) ≠ 0 := by
        have : c ≠ 0 := by simpa using hc
        exact_mod_cast this
      show Tendsto (fun x : ℝ => ((a : ℝ) * x + b) / ((c : ℝ) * x + d)) atTop (𝓝 ((a / c : ℚ) : ℝ))
      have hev : (fun x : ℝ => ((a : ℝ) * x + b) / ((c : ℝ) * x + d)) =ᶠ[atTop]
          fun x : ℝ => ((a : ℝ) + b * x⁻¹) / ((c : ℝ) + d * x⁻¹) := by
        filter_upwards [eventually_gt_atTop (0 : ℝ)] with x hx
        have hx' : x ≠ 0 := ne_of_gt hx
        have : ((a : ℝ) + b * x⁻¹) / ((c : ℝ) + d * x⁻¹) = (((a : ℝ) + b * x⁻¹) * x) / (((c : ℝ) + d * x⁻¹) * x) := by
          rw [mul_div_mul_right _ _ hx']
        rw [this]; congr 1 <;> field_simp
      rw [tendsto_congr' hev]
      have hi := tendsto_inv_atTop_zero (𝕜 := ℝ)
      have hn : Tendsto (fun x : ℝ => (a : ℝ) + b * x⁻¹) atTop (𝓝 ((a : ℝ) + b * 0)) :=
        (hi.const_mul (b : ℝ)).const_add _
      have hd : Tendsto (fun x : ℝ => (c : ℝ) + d * x⁻¹) atTop (𝓝 ((c : ℝ) + d * 0)) :=
        (hi.const_mul (d : ℝ)).const_add _
      have := hn.div hd (by simpa using hc')
      refine (this.congr fun x => ?_).mono_right (by simp)
      simp
    · simp at h
  | euler t =>
    simp only [Lim.limRef, Option.some.injEq] at h; subst h
    show Tendsto (fun x : ℝ => (1 + (t : ℝ) / x) ^ x) atTop (𝓝 (Real.exp (t : ℝ)))
    exact Real.tendsto_one_add_div_rpow_exp (t : ℝ)
  | slopeExp c =>
    simp only [Lim.limRef, Option.some.injEq] at h; subst h
    show Tendsto (Lim.slopeExp c).fn (𝓝[≠] 0) (𝓝 (c : ℝ))
    have hd : HasDerivAt (fun x : ℝ => Real.exp ((c : ℝ) * x)) (c : ℝ) 0 := by
      have := ((hasDerivAt_id' (0 : ℝ)).const_mul (c : ℝ)).exp
      simpa using this
    have := hd.tendsto_slope_zero
    refine this.congr fun x => ?_
    simp [Lim.fn, div_eq_inv_mul]
  | slopeSin c =>
    simp only [Lim.limRef, Option.some.injEq] at h; subst h
    show Tendsto (Lim.slopeSin c).fn (𝓝[≠] 0) (𝓝 (c : ℝ))
    have hd : HasDerivAt (fun x : ℝ => Real.sin ((c : ℝ) * x)) (c : ℝ) 0 := by
      have := ((hasDerivAt_id' (0 : ℝ)).const_mul (c : ℝ)).sin
      simpa using this
    have := hd.tendsto_slope_zero
    refine this.congr fun x => ?_
    simp [Lim.fn, div_eq_inv_mul]

/-- the integer-indexed version of the Euler limit (`limit` may sample `n = 1, 2, 3, …`) -/
theorem euler_tendsto_nat (t : ℚ) :
    Tendsto (fun n : ℕ => (1 + (t : ℝ) / n) ^ n) atTop (𝓝 (Real.exp t)) :=
  Real.tendsto_one_add_div_pow_exp (t : ℝ)

/-- product of two convergent series: the square partial sums of `a_j·b_k` tend to the product of the sums -/
theorem tendsto_square_partial (f g : ℕ → ℝ) (A B : ℝ)
    (hf : Tendsto (fun n => ∑ k ∈ range n, f k) atTop (𝓝 A))
    (hg : Tendsto (fun n => ∑ k ∈ range n, g k) atTop (𝓝 B)) :
    Tendsto (fun n => ∑ j ∈ range n, ∑ k ∈ range n, f j * g k) atTop (𝓝 (A * B)) := by
  have := hf.mul hg
  refine this.congr fun n => ?_
  rw [sum_mul_sum]

end Mp.Calc
