/-
  MpProofs/SpecRefHyper.lean — the C22 references: terminating hypergeometric sums as sums of Pochhammer
  quotients (`ascPochhammer`), three-term recurrences (`rec3`), Chebyshev polynomials.
-/
import MpProofs.SpecRefZeta
import Mathlib.RingTheory.Polynomial.Chebyshev

namespace Mp.SpecRef
open Mp.Encl
open scoped Nat

/-- the `k`-th term of `pFq(as; bs; z)`: `Π(a_i)_k / Π(b_j)_k · z^k / k!` -/
noncomputable def hypTermQ (as bs : List ℚ) (z : ℚ) (k : ℕ) : ℚ :=
  (as.map (fun a => (ascPochhammer ℚ k).eval a)).prod /
    (bs.map (fun b => (ascPochhammer ℚ k).eval b)).prod * z ^ k / (k ! : ℚ)

theorem prodShift_eq (l : List ℚ) (k : ℕ) : prodShift l k = (l.map (fun a => a + (k : ℚ))).prod := by
  unfold prodShift
  induction l with
  | nil => rfl
  | cons a l ih => simp only [List.foldr_cons, List.map_cons, List.prod_cons, ih]

theorem poch_prod_succ (l : List ℚ) (k : ℕ) :
    (l.map (fun a => (ascPochhammer ℚ (k + 1)).eval a)).prod =
      (l.map (fun a => (ascPochhammer ℚ k).eval a)).prod * prodShift l k := by
  rw [prodShift_eq]
  induction l with
  | nil => simp
  | cons a l ih =>
    rw [List.map_cons, List.prod_cons, ih, List.map_cons, List.prod_cons, List.map_cons, List.prod_cons,
      ascPochhammer_succ_eval]
    ring

theorem hypSum_spec (as bs : List ℚ) (z : ℚ) (k : ℕ) :
    (hypSum as bs z k).1 = hypTermQ as bs z k ∧
    (hypSum as bs z k).2 = ∑ j ∈ Finset.range k, hypTermQ as bs z j := by
  induction k with
  | zero => simp [hypSum, hypTermQ]
  | succ k ih =>
    obtain ⟨h1, h2⟩ := ih
    refine ⟨?_, ?_⟩
    · simp only [hypSum]
      rw [h1]
      unfold hypTermQ
      rw [poch_prod_succ as k, poch_prod_succ bs k, Nat.factorial_succ, pow_succ]
      push_cast
      simp only [div_eq_mul_inv, mul_inv]
      ring
    · simp only [hypSum]
      rw [h1, h2, Finset.sum_range_succ]

theorem termIndex_none (as : List ℚ) (h : termIndex as = none) : ∀ b ∈ as, isNpInt b = false := by
  induction as with
  | nil => intro b hb; simp at hb
  | cons a as ih =>
    rw [termIndex] at h
    split at h
    · split at h <;> simp at h
    · rename_i ha
      intro b hb
      rcases List.mem_cons.1 hb with rfl | hb'
      · simpa using ha
      · exact ih h b hb'

theorem termIndex_spec (as : List ℚ) (n : ℕ) (h : termIndex as = some n) :
    (∃ a ∈ as, isNpInt a = true ∧ (-a.num).toNat = n) ∧
    (∀ a ∈ as, isNpInt a = true → n ≤ (-a.num).toNat) := by
  induction as generalizing n with
  | nil => simp [termIndex] at h
  | cons a as ih =>
    rw [termIndex] at h
    split at h
    · rename_i ha
      cases ht : termIndex as with
      | none =>
        rw [ht] at h
        simp only [Option.some.injEq] at h
        refine ⟨⟨a, List.mem_cons_self, ha, h⟩, ?_⟩
        intro b hb hnb
        rcases List.mem_cons.1 hb with rfl | hb'
        · omega
        · have := termIndex_none as ht b hb'
          rw [hnb] at this; simp at this
      | some m =>
        rw [ht] at h
        simp only [Option.some.injEq] at h
        obtain ⟨⟨b, hb, hnb, hbm⟩, hmin⟩ := ih m ht
        refine ⟨?_, ?_⟩
        · rcases Nat.le_total (-a.num).toNat m with hle | hle
          · exact ⟨a, List.mem_cons_self, ha, by omega⟩
          · exact ⟨b, List.mem_cons_of_mem _ hb, hnb, by omega⟩
        · intro c hc hnc
          rcases List.mem_cons.1 hc with rfl | hc'
          · omega
          · have := hmin c hc' hnc; omega
    · rename_i ha
      obtain ⟨⟨b, hb, hnb, hbm⟩, hmin⟩ := ih n h
      refine ⟨⟨b, List.mem_cons_of_mem _ hb, hnb, hbm⟩, ?_⟩
      intro c hc hnc
      rcases List.mem_cons.1 hc with rfl | hc'
      · exact absurd hnc ha
      · exact hmin c hc' hnc

theorem isNpInt_iff (q : ℚ) : isNpInt q = true ↔ ∃ m : ℕ, q = -(m : ℚ) := by
  unfold isNpInt
  simp only [Bool.and_eq_true, decide_eq_true_eq]
  constructor
  · rintro ⟨h1, h2⟩
    obtain ⟨m, hm⟩ : ∃ m : ℕ, q.num = -(m : ℤ) := ⟨(-q.num).toNat, by omega⟩
    refine ⟨m, ?_⟩
    have hq : q = ((q.num : ℤ) : ℚ) := by
      conv_lhs => rw [← Rat.num_div_den q, h1]
      simp
    calc q = ((q.num : ℤ) : ℚ) := hq
      _ = ((-(m : ℤ) : ℤ) : ℚ) := by rw [hm]
      _ = -(m : ℚ) := by push_cast; rfl
  · rintro ⟨m, rfl⟩
    have : (-(m : ℚ)) = ((-(m : ℤ) : ℤ) : ℚ) := by push_cast; rfl
    rw [this]
    refine ⟨Rat.den_intCast _, ?_⟩
    rw [Rat.num_intCast]; omega

/-! ### three-term recurrences -/

theorem rec3_eq (p0 p1 : ℚ) (A B C : ℕ → ℚ) (P : ℕ → ℚ) (h0 : P 0 = p0) (h1 : P 1 = p1)
    (hrec : ∀ k, P (k + 2) = (B (k + 1) * P (k + 1) - C (k + 1) * P k) / A (k + 1)) :
    ∀ n r, rec3 p0 p1 A B C n = some r → r = (P n, P (n + 1)) := by
  intro n
  induction n with
  | zero => intro r h; simp only [rec3, Option.some.injEq] at h; rw [← h, h0, h1]
  | succ n ih =>
    intro r h
    rw [rec3] at h
    cases hr : rec3 p0 p1 A B C n with
    | none => rw [hr] at h; simp at h
    | some ab =>
      rw [hr] at h
      obtain ⟨a, b⟩ := ab
      have := ih (a, b) hr
      simp only [Prod.mk.injEq] at this
      obtain ⟨ha, hb⟩ := this
      simp only at h
      split at h
      · simp at h
      · simp only [Option.some.injEq] at h
        rw [← h, ha, hb, hrec n]

theorem chebytQ_spec (x : ℚ) (n : ℕ) :
    chebytQ x n = some ((Polynomial.Chebyshev.T ℚ n).eval x, (Polynomial.Chebyshev.T ℚ (n + 1)).eval x) := by
  unfold chebytQ
  induction n with
  | zero => simp [rec3]
  | succ n ih =>
    rw [rec3, ih]
    simp only [one_ne_zero, if_false, div_one, one_mul]
    have := Polynomial.Chebyshev.T_add_two ℚ (n : ℤ)
    have h2 := congrArg (Polynomial.eval x) this
    simp only [Polynomial.eval_sub, Polynomial.eval_mul, Polynomial.eval_ofNat, Polynomial.eval_X] at h2
    congr 2
    push_cast
    rw [show ((n : ℤ) + 1 + 1) = (n : ℤ) + 2 by ring, h2]

theorem chebyuQ_spec (x : ℚ) (n : ℕ) :
    chebyuQ x n = some ((Polynomial.Chebyshev.U ℚ n).eval x, (Polynomial.Chebyshev.U ℚ (n + 1)).eval x) := by
  unfold chebyuQ
  induction n with
  | zero => simp [rec3]
  | succ n ih =>
    rw [rec3, ih]
    simp only [one_ne_zero, if_false, div_one, one_mul]
    have := Polynomial.Chebyshev.U_add_two ℚ (n : ℤ)
    have h2 := congrArg (Polynomial.eval x) this
    simp only [Polynomial.eval_sub, Polynomial.eval_mul, Polynomial.eval_ofNat, Polynomial.eval_X] at h2
    congr 2
    push_cast
    rw [show ((n : ℤ) + 1 + 1) = (n : ℤ) + 2 by ring, h2]

end Mp.SpecRef
