/-
  MpProofs/RelCert.lean — soundness of the integer-relation acceptance checkers over ℝ.
-/
import MpModel.RelCert
import MpProofs.EnclArith
import Mathlib.Algebra.BigOperators.Group.List.Basic

namespace Mp.RelCert
open Mp.Encl

/-- the real linear form `Σ c_k x_k` -/
noncomputable def dotR : List Int → List Dy → ℝ
  | c :: cs, x :: xs => (c : ℝ) * x.val + dotR cs xs
  | _, _ => 0

/-- `Σ x_k²` -/
noncomputable def norm2R : List Dy → ℝ
  | [] => 0
  | x :: xs => x.val ^ 2 + norm2R xs

theorem dot_val : ∀ (c : List Int) (xs : List Dy), (dot c xs).val = dotR c xs
  | [], _ => by simp [dot, dotR]
  | _ :: _, [] => by simp [dot, dotR]
  | c :: cs, x :: xs => by
    simp only [dot, dotR, Dy.val_add, Dy.val_mul, Dy.val_ofInt, dot_val cs xs]

theorem norm2_val : ∀ xs : List Dy, (norm2 xs).val = norm2R xs
  | [] => by simp [norm2, norm2R]
  | x :: xs => by simp only [norm2, norm2R, Dy.val_add, Dy.val_mul, norm2_val xs]; ring

theorem norm2R_nonneg : ∀ xs : List Dy, 0 ≤ norm2R xs
  | [] => le_rfl
  | x :: xs => by simp only [norm2R]; have := norm2R_nonneg xs; positivity

theorem coeffsBelow_iff (c : List Int) (b : Int) : coeffsBelow c b = true ↔ ∀ k ∈ c, |k| < b := by
  simp only [coeffsBelow, List.all_eq_true, decide_eq_true_eq]
  constructor
  · intro h k hk; have := h k hk; rwa [Int.natCast_natAbs] at this
  · intro h k hk; rw [Int.natCast_natAbs]; exact h k hk

theorem allZero_iff (c : List Int) : allZero c = true ↔ ∀ k ∈ c, k = 0 := by
  simp [allZero, List.all_eq_true]

/-- squares compare ⇒ absolute values compare -/
theorem abs_le_of_sq_le {s t N : ℝ} (ht : 0 ≤ t) (hN : 0 ≤ N) (h : s * s ≤ t * t * N) :
    |s| ≤ t * Real.sqrt N := by
  have h1 : |s| = Real.sqrt (s * s) := by rw [Real.sqrt_mul_self_eq_abs]
  rw [h1]
  calc Real.sqrt (s * s) ≤ Real.sqrt (t * t * N) := Real.sqrt_le_sqrt h
    _ = t * Real.sqrt N := by
      rw [Real.sqrt_mul (mul_self_nonneg t), Real.sqrt_mul_self ht]

theorem pslqCheck_ok (xs : List Dy) (c : List Int) (tol : Dy) (maxcoeff : Int)
    (h : pslqCheck xs c tol maxcoeff = .ok) :
    c.length = xs.length ∧ (∃ k ∈ c, k ≠ 0) ∧ (∀ k ∈ c, |k| < maxcoeff) ∧
    |dotR c xs| ≤ tol.val * Real.sqrt (norm2R xs) := by
  unfold pslqCheck at h
  split at h
  · cases h
  rename_i h0
  push Not at h0
  obtain ⟨hlen, htol⟩ := h0
  split at h
  · cases h
  rename_i hz
  split at h
  · cases h
  rename_i hb
  simp only at h
  split at h
  · rename_i hle
    refine ⟨hlen, ?_, ?_, ?_⟩
    · by_contra hne
      push Not at hne
      exact hz ((allZero_iff c).2 hne)
    · apply (coeffsBelow_iff c maxcoeff).1
      simpa using hb
    · rw [Dy.le_iff] at hle
      simp only [Dy.val_mul, dot_val, norm2_val] at hle
      exact abs_le_of_sq_le ((Dy.val_nonneg_iff tol).2 (by omega)) (norm2R_nonneg xs) hle
  · cases h

theorem powersFrom_length (p x : Dy) : ∀ n, (powersFrom p x n).length = n
  | 0 => rfl
  | n + 1 => by simp [powersFrom, powersFrom_length (p.mul x) x n]

/-- `Σ_k a_k · p · x^k` for the list `a` (lowest degree first) -/
noncomputable def polyR (p x : ℝ) : List Int → ℝ
  | [] => 0
  | a :: as => (a : ℝ) * p + polyR (p * x) x as

/-- `Σ_{k<n} (p x^k)²` -/
noncomputable def powNorm2R (p x : ℝ) : Nat → ℝ
  | 0 => 0
  | n + 1 => p ^ 2 + powNorm2R (p * x) x n

theorem dotR_powersFrom : ∀ (a : List Int) (p x : Dy) (n : Nat), a.length = n →
    dotR a (powersFrom p x n) = polyR p.val x.val a
  | [], _, _, 0, _ => by simp [dotR, polyR, powersFrom]
  | [], _, _, n + 1, h => by simp at h
  | a :: as, _, _, 0, h => by simp at h
  | a :: as, p, x, n + 1, h => by
    simp only [powersFrom, dotR, polyR]
    rw [dotR_powersFrom as (p.mul x) x n (by simpa using h), Dy.val_mul]

theorem norm2R_powersFrom : ∀ (p x : Dy) (n : Nat),
    norm2R (powersFrom p x n) = powNorm2R p.val x.val n
  | _, _, 0 => by simp [norm2R, powNorm2R, powersFrom]
  | p, x, n + 1 => by
    simp only [powersFrom, norm2R, powNorm2R]
    rw [norm2R_powersFrom (p.mul x) x n, Dy.val_mul]

/-- `polyR 1 x a` is the polynomial `Σ a_k x^k` -/
theorem polyR_eq_sum (x : ℝ) : ∀ (a : List Int) (p : ℝ),
    polyR p x a = p * ((a.zipIdx.map (fun ak => (ak.1 : ℝ) * x ^ ak.2)).sum)
  | [], p => by simp [polyR]
  | a :: as, p => by
    rw [polyR, polyR_eq_sum x as (p * x)]
    rw [List.zipIdx_cons, List.map_cons, List.sum_cons]
    have : ((as.zipIdx 1).map (fun ak => ((ak.1 : ℤ) : ℝ) * x ^ ak.2)).sum
        = x * ((as.zipIdx).map (fun ak => ((ak.1 : ℤ) : ℝ) * x ^ ak.2)).sum := by
      rw [← List.sum_map_mul_left]
      have e : as.zipIdx 1 = as.zipIdx.map (fun ak => (ak.1, ak.2 + 1)) := by
        have := List.zipIdx_succ (l := as) (i := 0)
        simpa using this
      rw [e, List.map_map]
      congr 1
      apply List.map_congr_left
      intro ak _
      simp only [Function.comp]
      rw [pow_succ]; ring
    rw [this]
    simp only [pow_zero, mul_one]
    ring

theorem powNorm2R_eq_sum (x : ℝ) : ∀ (n : Nat) (p : ℝ),
    powNorm2R p x n = p ^ 2 * ((List.range n).map (fun k => (x ^ k) ^ 2)).sum
  | 0, p => by simp [powNorm2R]
  | n + 1, p => by
    rw [powNorm2R, powNorm2R_eq_sum x n (p * x), List.range_succ_eq_map, List.map_cons, List.sum_cons,
      List.map_map]
    have : ((List.range n).map ((fun k => (x ^ k) ^ 2) ∘ Nat.succ)).sum
        = x ^ 2 * ((List.range n).map (fun k => (x ^ k) ^ 2)).sum := by
      rw [← List.sum_map_mul_left]
      congr 1
      apply List.map_congr_left
      intro k _
      simp only [Function.comp, pow_succ]; ring
    rw [this]
    simp only [pow_zero]
    ring

end Mp.RelCert

namespace Mp.RelCert
open Mp.Encl

theorem dotR_eq_zipWith : ∀ (c : List Int) (xs : List Dy),
    dotR c xs = (List.zipWith (fun (k : Int) (x : Dy) => (k : ℝ) * x.val) c xs).sum
  | [], _ => by simp [dotR]
  | _ :: _, [] => by simp [dotR]
  | c :: cs, x :: xs => by simp [dotR, dotR_eq_zipWith cs xs]

theorem norm2R_eq_sum : ∀ xs : List Dy, norm2R xs = (xs.map (fun x => x.val ^ 2)).sum
  | [] => by simp [norm2R]
  | x :: xs => by simp [norm2R, norm2R_eq_sum xs]

/-- absolute values compare ⇒ squares compare -/
theorem sq_le_of_abs_le {s t N : ℝ} (hN : 0 ≤ N) (h : |s| ≤ t * Real.sqrt N) :
    s * s ≤ t * t * N := by
  have h0 : 0 ≤ |s| := abs_nonneg s
  have h1 : |s| * |s| ≤ (t * Real.sqrt N) * (t * Real.sqrt N) := mul_le_mul h h h0 (h0.trans h)
  have h2 : |s| * |s| = s * s := abs_mul_abs_self s
  have h3 : Real.sqrt N * Real.sqrt N = N := Real.mul_self_sqrt hN
  calc s * s = |s| * |s| := h2.symm
    _ ≤ (t * Real.sqrt N) * (t * Real.sqrt N) := h1
    _ = t * t * (Real.sqrt N * Real.sqrt N) := by ring
    _ = t * t * N := by rw [h3]

/-- the checker answers `violates` only when the promise really fails -/
theorem pslqCheck_violates (xs : List Dy) (c : List Int) (tol : Dy) (maxcoeff : Int)
    (h : pslqCheck xs c tol maxcoeff = .violates) :
    ¬ ((∃ k ∈ c, k ≠ 0) ∧ (∀ k ∈ c, |k| < maxcoeff) ∧
       |dotR c xs| ≤ tol.val * Real.sqrt (norm2R xs)) := by
  rintro ⟨⟨k, hk, hk0⟩, hb, hle⟩
  unfold pslqCheck at h
  split at h
  · cases h
  split at h
  · rename_i hz
    exact hk0 ((allZero_iff c).1 hz k hk)
  split at h
  · rename_i hnb
    have := (coeffsBelow_iff c maxcoeff).2 hb
    simp [this] at hnb
  simp only at h
  split at h
  · cases h
  · rename_i hnle
    apply hnle
    rw [Dy.le_iff]
    simp only [Dy.val_mul, dot_val, norm2_val]
    exact sq_le_of_abs_le (norm2R_nonneg xs) hle

end Mp.RelCert
