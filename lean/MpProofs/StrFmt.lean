/-
  MpProofs/StrFmt.lean — digit rounding and layout of `to_str` (C08).
-/
import MpProofs.Str
import Mathlib.Tactic.IntervalCases

namespace Mp

/-! ### digit characters -/

theorem digit_cases {c : Char} (h : isDigitC c = true) :
    c = '0' ∨ c = '1' ∨ c = '2' ∨ c = '3' ∨ c = '4' ∨ c = '5' ∨ c = '6' ∨ c = '7' ∨ c = '8' ∨ c = '9' := by
  rw [isDigitC_iff] at h
  have hc := Char.ofNat_toNat c
  obtain ⟨h1, h2⟩ := h
  generalize c.toNat = n at *
  subst hc
  interval_cases n <;> decide

theorem digitVal_le {c : Char} (h : isDigitC c = true) : digitVal c ≤ 9 := by
  rcases digit_cases h with rfl | rfl | rfl | rfl | rfl | rfl | rfl | rfl | rfl | rfl <;> decide

theorem mem_56789_iff {c : Char} (h : isDigitC c = true) : c ∈ "56789".toList ↔ 5 ≤ digitVal c := by
  rcases digit_cases h with rfl | rfl | rfl | rfl | rfl | rfl | rfl | rfl | rfl | rfl <;> decide

theorem digitChar_spec {n : Nat} (h : n ≤ 9) :
    isDigitC (digitChar n) = true ∧ digitVal (digitChar n) = n := by
  interval_cases n <;> decide

theorem natToDec_small {n : Nat} (h : n < 10) : natToDec n = [digitChar n] := by
  unfold natToDec natToDecAux
  simp [h, Nat.mod_eq_of_lt h]

theorem natOfDigits_lt {l : List Char} (h : Digits l) : natOfDigits l < 10 ^ l.length := by
  induction l using List.reverseRecOn with
  | nil => simp [natOfDigits]
  | append_singleton xs x ih =>
    have hx : digitVal x ≤ 9 := digitVal_le (h x (by simp))
    have := ih (fun c hc => h c (by simp [hc]))
    rw [natOfDigits_append]
    have h1 : natOfDigits [x] = digitVal x := by simp [natOfDigits]
    rw [h1]
    simp only [List.length_append, List.length_cons, List.length_nil, pow_succ, zero_add, pow_zero,
      one_mul]
    omega

theorem natOfDigits_nines {z : List Char} (h : ∀ c ∈ z, (c == '9') = true) :
    natOfDigits z + 1 = 10 ^ z.length := by
  induction z using List.reverseRecOn with
  | nil => simp [natOfDigits]
  | append_singleton xs x ih =>
    have hx : x = '9' := by simpa using h x (by simp)
    have := ih (fun c hc => h c (by simp [hc]))
    rw [natOfDigits_append, hx]
    have h1 : natOfDigits ['9'] = 9 := by decide
    rw [h1]
    simp only [List.length_append, List.length_cons, List.length_nil, pow_succ, zero_add, pow_zero,
      one_mul]
    omega

theorem natOfDigits_replicate_zero (k : Nat) : natOfDigits (List.replicate k '0') = 0 :=
  natOfDigits_zeros (fun c hc => by rw [List.eq_of_mem_replicate hc]; rfl)

theorem digits_replicate_zero (k : Nat) : Digits (List.replicate k '0') :=
  fun c hc => by rw [List.eq_of_mem_replicate hc]; decide

/-- `rstrip` leaves a string that does not end in a stripped character -/
theorem rstripL_getLast {p : Char → Bool} {l init : List Char} {c : Char}
    (h : rstripL p l = init ++ [c]) : p c = false := by
  unfold rstripL at h
  have h' : l.reverse.dropWhile p = c :: init.reverse := by
    have := congrArg List.reverse h
    simpa using this
  have := List.head?_dropWhile_not p l.reverse
  rw [h'] at this
  simpa using this

/-! ### `roundDigits` -/

/-- **The string surgery is half-up rounding.** For a digit string longer than `dps ≥ 1`, the result of
looking at digit `dps`, propagating the carry through the 9s and bumping the exponent on all-9s is: a
string of exactly `dps` digits `out` and a bump `b ∈ {0,1}` with
`out · 10^b = ⌊(digits + 5·10^(k-1)) / 10^k⌋`, `k` = number of dropped digits. -/
theorem roundDigits_spec {digits : List Char} {dps : Nat} (hd : Digits digits) (hdps : 1 ≤ dps)
    (hlen : dps < digits.length) :
    Digits (roundDigits digits dps).1 ∧ (roundDigits digits dps).1.length = dps ∧
    ((roundDigits digits dps).2 = 0 ∨ (roundDigits digits dps).2 = 1) ∧
    natOfDigits (roundDigits digits dps).1 * 10 ^ (roundDigits digits dps).2.toNat =
      (natOfDigits digits + 5 * 10 ^ (digits.length - dps - 1)) / 10 ^ (digits.length - dps) := by
  -- split the string: a (dps digits), c (the digit looked at), rest
  obtain ⟨a, c, rest, hsplit, halen⟩ : ∃ a c rest, digits = a ++ c :: rest ∧ a.length = dps := by
    refine ⟨digits.take dps, digits[dps], digits.drop (dps + 1), ?_, by simp; omega⟩
    rw [← List.drop_eq_getElem_cons hlen, List.take_append_drop]
  have ha : Digits a := fun x hx => hd x (by rw [hsplit]; simp [hx])
  have hc : isDigitC c = true := hd c (by rw [hsplit]; simp)
  have hrest : Digits rest := fun x hx => hd x (by rw [hsplit]; simp [hx])
  have hgetD : digits.getD dps '0' = c := by
    rw [hsplit, List.getD_eq_getElem?_getD, List.getElem?_append_right (by omega)]
    simp [halen]
  have htake : digits.take dps = a := by rw [hsplit, ← halen]; simp
  have hdl : digits.length - dps = rest.length + 1 := by rw [hsplit]; simp; omega
  have hdl1 : digits.length - dps - 1 = rest.length := by omega
  -- the arithmetic side
  have hM : natOfDigits digits = (natOfDigits a * 10 + digitVal c) * 10 ^ rest.length + natOfDigits rest := by
    rw [hsplit, show a ++ c :: rest = (a ++ [c]) ++ rest by simp, natOfDigits_append, natOfDigits_append]
    simp [natOfDigits]
  have hR := natOfDigits_lt hrest
  have hcv := digitVal_le hc
  set N := natOfDigits a
  set R := natOfDigits rest
  set K := 10 ^ rest.length with hK
  have hKpos : 0 < K := by positivity
  have hquot : (natOfDigits digits + 5 * 10 ^ (digits.length - dps - 1)) / 10 ^ (digits.length - dps) =
      N + (if 5 ≤ digitVal c then 1 else 0) := by
    rw [hdl1, hdl, hM, pow_succ, ← hK]
    have e : (N * 10 + digitVal c) * K + R + 5 * K = ((digitVal c + 5) * K + R) + N * (K * 10) := by ring
    rw [e, Nat.add_mul_div_right _ _ (by positivity), Nat.add_comm]
    congr 1
    split
    · apply Nat.div_eq_of_lt_le <;> nlinarith
    · apply Nat.div_eq_of_lt; nlinarith
  rw [hquot]
  unfold roundDigits
  dsimp only
  rw [hgetD, htake]
  by_cases h5 : 5 ≤ digitVal c
  · have hcond : digits.length > dps ∧ c ∈ "56789".toList := ⟨hlen, (mem_56789_iff hc).mpr h5⟩
    rw [if_pos hcond, if_pos h5]
    obtain ⟨nines, hkn, hnines⟩ := rstripL_spec (· == '9') a
    set kept := rstripL (· == '9') a with hkept
    have hlenk : dps = kept.length + nines.length := by rw [← halen, hkn]; simp
    have hN : N + 1 = (natOfDigits kept + 1) * 10 ^ nines.length := by
      have := natOfDigits_nines hnines
      show natOfDigits a + 1 = _
      rw [hkn, natOfDigits_append]; nlinarith
    rcases List.eq_nil_or_concat kept with hk | ⟨init, c', hk⟩
    · -- all nines
      rw [hk]
      simp only [List.reverse_nil]
      have hn : nines.length = dps := by rw [hlenk, hk]; simp
      refine ⟨?_, by simp; omega, by simp, ?_⟩
      · intro x hx
        simp only [List.mem_cons] at hx
        rcases hx with rfl | hx
        · decide
        · exact digits_replicate_zero _ x hx
      · rw [hN, hk, hn]
        show natOfDigits (['1'] ++ List.replicate (dps - 1) '0') * 10 ^ 1 = _
        have : natOfDigits ['1'] = 1 := by decide
        rw [natOfDigits_append, natOfDigits_replicate_zero, this]
        obtain ⟨d, rfl⟩ : ∃ d, dps = d + 1 := ⟨dps - 1, by omega⟩
        simp [pow_succ, natOfDigits]
    · -- carry stops at c'
      rw [List.concat_eq_append] at hk
      have hkd : Digits kept := ha.rstrip _
      have hc' : isDigitC c' = true := hkd c' (by rw [hk]; simp)
      have hinit : Digits init := fun x hx => hkd x (by rw [hk]; simp [hx])
      have hne9 : (c' == '9') = false := rstripL_getLast (p := (· == '9')) (hkept ▸ hk)
      have hv8 : digitVal c' ≤ 8 := by
        rcases digit_cases hc' with rfl | rfl | rfl | rfl | rfl | rfl | rfl | rfl | rfl | rfl <;>
          first | decide | (exact absurd hne9 (by decide))
      obtain ⟨hdc1, hdc2⟩ := digitChar_spec (show digitVal c' + 1 ≤ 9 by omega)
      rw [hk]
      simp only [List.reverse_append, List.reverse_cons, List.reverse_nil, List.nil_append,
        List.singleton_append, List.reverse_reverse]
      rw [natToDec_small (by omega)]
      have hzl : dps - (init ++ [c']).length = nines.length := by rw [← hk]; omega
      rw [hzl]
      refine ⟨?_, ?_, by simp, ?_⟩
      · intro x hx
        simp only [List.mem_append, List.mem_cons, List.not_mem_nil, or_false] at hx
        rcases hx with (hx | rfl) | hx
        · exact hinit x hx
        · exact hdc1
        · exact digits_replicate_zero _ x hx
      · simp only [List.length_append, List.length_cons, List.length_nil, List.length_replicate]
        rw [hlenk, hk]; simp
      · rw [hN, hk, natOfDigits_append, natOfDigits_append, natOfDigits_append, natOfDigits_replicate_zero]
        simp [natOfDigits, hdc2]
        ring
  · have hcond : ¬ (digits.length > dps ∧ c ∈ "56789".toList) :=
      fun hh => h5 ((mem_56789_iff hc).mp hh.2)
    rw [if_neg hcond, if_neg h5]
    exact ⟨ha, halen, Or.inl rfl, by simp [N]⟩


/-! ### `str(n)` -/

theorem natToDecAux_spec (f n : Nat) (acc : List Char) (h : n < f) :
    ∃ ds, natToDecAux f n acc = ds ++ acc ∧ Digits ds ∧ ds ≠ [] ∧ natOfDigits ds = n := by
  induction f generalizing n acc with
  | zero => omega
  | succ f ih =>
    unfold natToDecAux
    have hm : n % 10 ≤ 9 := by omega
    obtain ⟨hd1, hd2⟩ := digitChar_spec hm
    by_cases h10 : n < 10
    · refine ⟨[digitChar (n % 10)], by simp [h10], ?_, by simp, ?_⟩
      · intro c hc; simp at hc; rw [hc]; exact hd1
      · rw [Nat.mod_eq_of_lt h10] at hd2 ⊢; simp [natOfDigits, hd2]
    · obtain ⟨ds, h1, h2, h3, h4⟩ := ih (n / 10) (digitChar (n % 10) :: acc) (by omega)
      refine ⟨ds ++ [digitChar (n % 10)], by simp [h10, h1], ?_, by simp, ?_⟩
      · intro c hc
        rcases List.mem_append.mp hc with hc | hc
        · exact h2 c hc
        · simp at hc; rw [hc]; exact hd1
      · rw [natOfDigits_append, h4]
        simp [natOfDigits, hd2]
        omega

theorem natToDec_spec (n : Nat) :
    Digits (natToDec n) ∧ natToDec n ≠ [] ∧ natOfDigits (natToDec n) = n := by
  obtain ⟨ds, h1, h2, h3, h4⟩ := natToDecAux_spec (n + 1) n [] (by omega)
  unfold natToDec
  rw [h1, List.append_nil]
  exact ⟨h2, h3, h4⟩

/-! ### value of a well-formed literal (forward direction) -/

theorem signZ_append {sg rest : List Char} (hs : SignStr sg)
    (hr : ∀ c r, rest = c :: r → c ≠ '+' ∧ c ≠ '-') : signZ (sg ++ rest) = signVal sg := by
  rcases hs with rfl | rfl | rfl
  · cases rest with
    | nil => simp [signZ, signVal]
    | cons c r =>
      obtain ⟨h1, h2⟩ := hr c r rfl
      simp only [List.nil_append]
      unfold signZ
      split
      · rename_i heq; exact absurd (List.cons.inj heq).1 h2
      · simp [signVal]
  · simp [signZ, signVal]
  · simp [signZ, signVal]

theorem decValueL_litL {sg ip : List Char} {dot : Bool} {fp : List Char}
    {eo : Option (List Char × List Char)} (h : LitOK sg ip dot fp eo) :
    decValueL (litL sg ip dot fp eo) =
      some ((signVal sg : ℚ) * ((natOfDigits ip : ℚ) + (natOfDigits fp : ℚ) / 10 ^ fp.length) *
        (10 : ℚ) ^ expVal eo) := by
  obtain ⟨c, r, hcr, hc⟩ := litL_body_head (eo := eo) h.ipd h.nodot h.nonempty
  have hhead : ∀ c' r', ip ++ (dotStr dot fp ++ expStr eo) = c' :: r' → c' ≠ '+' ∧ c' ≠ '-' := by
    intro c' r' h'
    rw [hcr] at h'
    rw [← (List.cons.inj h').1]
    rcases hc with hc | rfl
    · constructor <;> (rintro rfl; revert hc; decide)
    · decide
  have hds : dropSign (litL sg ip dot fp eo) = ip ++ (dotStr dot fp ++ expStr eo) :=
    dropSign_append h.sign hhead
  have hsz : signZ (litL sg ip dot fp eo) = signVal sg := signZ_append h.sign hhead
  obtain ⟨h1, h2⟩ := takeWhile_digits_append h.ipd (dotExp_noDigitHead dot fp eo)
  unfold decValueL
  simp only [hds, h1, h2, fracPart_dotExp eo h.fpd h.nodot, hsz]
  have hne : ¬ (ip = [] ∧ fp = []) := by
    rintro ⟨a, b⟩; rcases h.nonempty with h | h <;> contradiction
  rw [if_neg hne]
  cases eo with
  | none => simp [expStr, expVal]
  | some p =>
    obtain ⟨es, ed⟩ := p
    obtain ⟨hs, hd, hne⟩ := h.exp es ed rfl
    obtain ⟨c, r, rfl⟩ := List.exists_cons_of_ne_nil hne
    have hc : isDigitC c = true := hd c List.mem_cons_self
    have hh : ∀ c' r', c :: r = c' :: r' → c' ≠ '+' ∧ c' ≠ '-' := by
      intro c' r' h'
      rw [← (List.cons.inj h').1]
      constructor <;> (rintro rfl; revert hc; decide)
    have hds : dropSign (es ++ c :: r) = c :: r := dropSign_append hs hh
    have hsz' : signZ (es ++ c :: r) = signVal es := signZ_append hs hh
    simp only [expStr, expVal]
    rw [hds, hsz', if_pos ⟨by simp, by simp, all_digits_of hd⟩]


/-! ### layout -/

theorem rstripL_barrier {p : Char → Bool} {b : Char} (hb : p b = false) (x y : List Char) :
    rstripL p (x ++ b :: y) = x ++ b :: rstripL p y := by
  unfold rstripL
  have : (x ++ b :: y).reverse = y.reverse ++ b :: x.reverse := by simp
  rw [this, List.dropWhile_append]
  split
  · rename_i he
    have he' : List.dropWhile p y.reverse = [] := by simpa using he
    rw [he']
    simp [hb]
  · simp

/-- stripping trailing zeros of `ip.fp` only changes the fraction, and not its value -/
theorem stripZeros_point (ip : List Char) {fp : List Char} (hfp : Digits fp) :
    ∃ fp', stripZeros (ip ++ '.' :: fp) = ip ++ '.' :: fp' ∧ Digits fp' ∧
      (natOfDigits fp' : ℚ) / 10 ^ fp'.length = (natOfDigits fp : ℚ) / 10 ^ fp.length := by
  obtain ⟨k, hk1, hk2⟩ := natOfDigits_rstrip_zeros fp
  have hd' : Digits (rstripL (· == '0') fp) := hfp.rstrip _
  unfold stripZeros
  rw [rstripL_barrier (by decide) ip fp]
  dsimp only
  rcases List.eq_nil_or_concat (rstripL (· == '0') fp) with hk | ⟨init, c, hk⟩
  · rw [hk] at hk1 hk2 ⊢
    refine ⟨['0'], ?_, by intro c hc; simp at hc; rw [hc]; decide, ?_⟩
    · simp
    · rw [hk1]; simp [natOfDigits, show digitVal '0' = 0 by decide]
  · rw [List.concat_eq_append] at hk
    have hc : isDigitC c = true := hd' c (by rw [hk]; simp)
    have hcd : c ≠ '.' := by rintro rfl; revert hc; decide
    refine ⟨rstripL (· == '0') fp, ?_, hd', ?_⟩
    · rw [hk]
      have : (ip ++ '.' :: (init ++ [c])).getLast? = some c := by
        rw [show ip ++ '.' :: (init ++ [c]) = (ip ++ '.' :: init) ++ [c] by simp]
        exact List.getLast?_concat
      rw [this, if_neg (by simpa using hcd)]
    · rw [hk1, hk2, pow_add]
      push_cast
      have h10 : (10 : ℚ) ^ k ≠ 0 := by positivity
      have h10' : (10 : ℚ) ^ (rstripL (· == '0') fp).length ≠ 0 := by positivity
      field_simp

/-- the three exponent suffixes of `to_str` -/
theorem withExponent_lit (sign ip fp : List Char) (e : Int) (dps : Nat) (showz : Bool) :
    ∃ eo, withExponent sign (ip ++ '.' :: fp) e dps showz = litL sign ip true fp eo ∧ expVal eo = e ∧
      ∀ es ed, eo = some (es, ed) → SignStr es ∧ Digits ed ∧ ed ≠ [] := by
  obtain ⟨hn1, hn2, hn3⟩ := natToDec_spec e.natAbs
  unfold withExponent
  by_cases h0 : e = 0 ∧ dps ≠ 0 ∧ ¬ showz = true
  · rw [if_pos h0]
    exact ⟨none, by simp [litL, dotStr, expStr], by simp [expVal, h0.1], by intro _ _ h; cases h⟩
  · rw [if_neg h0]
    by_cases hpos : e ≥ 0
    · rw [if_pos hpos]
      refine ⟨some (['+'], natToDec e.natAbs), ?_, ?_, ?_⟩
      · simp [litL, dotStr, expStr, intToDec, not_lt.mpr hpos]
      · simp only [expVal, hn3, signVal]
        rw [if_neg (by decide), one_mul, Int.natAbs_of_nonneg hpos]
      · intro es ed h; cases h; exact ⟨Or.inr (Or.inl rfl), hn1, hn2⟩
    · rw [if_neg hpos]
      refine ⟨some (['-'], natToDec e.natAbs), ?_, ?_, ?_⟩
      · simp [litL, dotStr, expStr, intToDec, not_le.mp hpos]
      · simp only [expVal, hn3, signVal]
        rw [if_pos trivial, Int.ofNat_natAbs_of_nonpos (by omega)]; ring
      · intro es ed h; cases h; exact ⟨Or.inr (Or.inr rfl), hn1, hn2⟩

theorem natOfDigits_take_drop (d : List Char) (n : Nat) :
    natOfDigits d = natOfDigits (d.take n) * 10 ^ (d.drop n).length + natOfDigits (d.drop n) := by
  conv_lhs => rw [← List.take_append_drop n d]
  exact natOfDigits_append _ _

/-- the value and shape of `sign ip.fp [e±n]` where `ip.fp` is `d1` with the point after `split` digits -/
theorem point_layout {sign d1 : List Char} {split : Nat} (ef : Int) (dps : Nat) (strip showz : Bool)
    (hs : SignStr sign) (hd : Digits d1) (h1 : 1 ≤ split) (h2 : split ≤ d1.length) :
    ∃ ip fp eo, LitOK sign ip true fp eo ∧ ip ≠ [] ∧
      withExponent sign
        (if strip then stripZeros (d1.take split ++ '.' :: d1.drop split)
          else d1.take split ++ '.' :: d1.drop split) ef dps showz = litL sign ip true fp eo ∧
      (signVal sign : ℚ) * ((natOfDigits ip : ℚ) + (natOfDigits fp : ℚ) / 10 ^ fp.length) *
          (10 : ℚ) ^ expVal eo =
        (signVal sign : ℚ) * ((natOfDigits d1 : ℚ) / 10 ^ (d1.length - split)) * (10 : ℚ) ^ ef := by
  have hip : Digits (d1.take split) := fun c hc => hd c (List.mem_of_mem_take hc)
  have hfp : Digits (d1.drop split) := fun c hc => hd c (List.mem_of_mem_drop hc)
  have hipne : d1.take split ≠ [] := by
    have hl : (d1.take split).length = split := by rw [List.length_take]; omega
    intro h
    rw [h] at hl
    simp at hl; omega
  have hdl : (d1.drop split).length = d1.length - split := by simp
  have hval : (natOfDigits (d1.take split) : ℚ) + (natOfDigits (d1.drop split) : ℚ) / 10 ^ (d1.drop split).length
      = (natOfDigits d1 : ℚ) / 10 ^ (d1.length - split) := by
    rw [natOfDigits_take_drop d1 split, hdl]
    push_cast
    have h10 : (10 : ℚ) ^ (d1.length - split) ≠ 0 := by positivity
    field_simp
  obtain ⟨fp', hst, hfp', hv'⟩ := stripZeros_point (d1.take split) hfp
  cases strip with
  | true =>
    simp only [if_true]
    rw [hst]
    obtain ⟨eo, he1, he2, he3⟩ := withExponent_lit sign (d1.take split) fp' ef dps showz
    refine ⟨d1.take split, fp', eo, ⟨hs, hip, hfp', by simp, Or.inl hipne, he3⟩, hipne, he1, ?_⟩
    rw [he2, hv', hval]
  | false =>
    simp only [Bool.false_eq_true, if_false]
    obtain ⟨eo, he1, he2, he3⟩ := withExponent_lit sign (d1.take split) (d1.drop split) ef dps showz
    refine ⟨d1.take split, d1.drop split, eo, ⟨hs, hip, hfp, by simp, Or.inl hipne, he3⟩, hipne, he1, ?_⟩
    rw [he2, hval]


theorem scale_eq (N1 N k z : ℕ) (ef g : ℤ) (hN : N1 = N * 10 ^ z) (hg : g = (z : ℤ) - (k : ℤ) + ef) :
    (N1 : ℚ) / 10 ^ k * (10 : ℚ) ^ ef = (N : ℚ) * (10 : ℚ) ^ g := by
  have h10 : (10 : ℚ) ≠ 0 := by norm_num
  subst hN hg
  rw [zpow_add₀ h10, zpow_sub₀ h10, zpow_natCast, zpow_natCast]
  push_cast
  field_simp

/-- **Layout.** For `dps ≥ 1` rounded digits `D` and decimal exponent `e` of the first digit, the string
laid out by `to_str` (fixed or scientific, zero padding, optional stripping, exponent suffix) is a
well-formed literal `sign ip . fp [e±n]` with a non-empty integer part, and its value is
`±D · 10^(e - dps + 1)`. -/
theorem layoutDigits_value {sign D : List Char} (e : Int) {dps : Nat} (strip : Bool) (mn mx : Bound)
    (showz : Bool) (hs : SignStr sign) (hD : Digits D) (hlen : D.length = dps) (hdps : 1 ≤ dps) :
    ∃ ip fp eo, LitOK sign ip true fp eo ∧ ip ≠ [] ∧
      layoutDigits sign D e dps strip mn mx showz = litL sign ip true fp eo ∧
      (signVal sign : ℚ) * ((natOfDigits ip : ℚ) + (natOfDigits fp : ℚ) / 10 ^ fp.length) *
          (10 : ℚ) ^ expVal eo =
        (signVal sign : ℚ) * (natOfDigits D : ℚ) * (10 : ℚ) ^ (e - dps + 1) := by
  unfold layoutDigits
  dsimp only
  by_cases hfix : (mn.lt e && mx.gt e) = true
  · simp only [hfix, if_true]
    by_cases hneg : e < 0
    · simp only [hneg, if_true]
      have hd1 : Digits (List.replicate (-e).toNat '0' ++ D) := (digits_replicate_zero _).append hD
      obtain ⟨ip, fp, eo, hok, hne, hl, hv⟩ := point_layout (split := 1) 0 dps strip showz hs hd1
        (le_refl 1) (by simp; omega)
      refine ⟨ip, fp, eo, hok, hne, hl, ?_⟩
      rw [hv, mul_assoc, mul_assoc]
      congr 1
      apply scale_eq _ _ _ 0
      · rw [natOfDigits_append, natOfDigits_replicate_zero]; simp
      · simp; omega
    · simp only [hneg, if_false]
      by_cases hpad : (e + 1).toNat > dps
      · simp only [hpad, if_true]
        have hd1 : Digits (D ++ List.replicate ((e + 1).toNat - dps) '0') :=
          hD.append (digits_replicate_zero _)
        obtain ⟨ip, fp, eo, hok, hne, hl, hv⟩ := point_layout (split := (e + 1).toNat) 0 dps strip showz
          hs hd1 (by omega) (by simp; omega)
        refine ⟨ip, fp, eo, hok, hne, hl, ?_⟩
        rw [hv, mul_assoc, mul_assoc]
        congr 1
        apply scale_eq _ _ _ ((e + 1).toNat - dps)
        · rw [natOfDigits_append, natOfDigits_replicate_zero]; simp
        · simp; omega
      · simp only [hpad, if_false]
        obtain ⟨ip, fp, eo, hok, hne, hl, hv⟩ := point_layout (split := (e + 1).toNat) 0 dps strip showz
          hs hD (by omega) (by omega)
        refine ⟨ip, fp, eo, hok, hne, hl, ?_⟩
        rw [hv, mul_assoc, mul_assoc]
        congr 1
        apply scale_eq _ _ _ 0
        · simp
        · simp; omega
  · simp only [hfix, Bool.false_eq_true, if_false]
    obtain ⟨ip, fp, eo, hok, hne, hl, hv⟩ := point_layout (split := 1) e dps strip showz hs hD
      (le_refl 1) (by omega)
    refine ⟨ip, fp, eo, hok, hne, hl, ?_⟩
    rw [hv, mul_assoc, mul_assoc]
    congr 1
    apply scale_eq _ _ _ 0
    · simp
    · simp; omega


/-! ### `numeral`, `to_digits_exp`, `to_str` glue -/

theorem numeralAux_digits (f n size : Nat) : Digits (numeralAux f n size) := by
  induction f generalizing n size with
  | zero => exact (natToDec_spec n).1
  | succ f ih =>
    unfold numeralAux
    split
    · intro c hc; simp at hc; rw [hc]; decide
    · split
      · exact (natToDec_spec n).1
      · dsimp only
        apply Digits.append (ih _ _)
        unfold rjust0
        exact (digits_replicate_zero _).append (ih _ _)

theorem numeral_digits (n size : Nat) : Digits (numeral n size) := numeralAux_digits _ _ _

theorem toDigitsExpPos_digits {s : Mpf} {dps : Nat} {ln2 ln10 : Mpf} {digits : List Char} {e : Int}
    (h : toDigitsExpPos s dps ln2 ln10 = .ok (digits, e)) : Digits digits := by
  unfold toDigitsExpPos at h
  dsimp only at h
  split at h
  · exact absurd h (by simp)
  · have := congrArg Prod.fst (Except.ok.inj h)
    simp only at this
    rw [← this]
    exact numeral_digits _ _

/-- the sign string and the digit string returned by `to_digits_exp` are well formed -/
theorem toDigitsExp_wf {s : Mpf} {dps : Nat} {ln2 ln10 : Mpf} {sign digits : List Char} {e : Int}
    (h : toDigitsExp s dps ln2 ln10 = .ok (sign, digits, e)) : SignStr sign ∧ Digits digits := by
  unfold toDigitsExp at h
  dsimp only at h
  have hsg : SignStr (if s.sign ≠ 0 then ['-'] else []) := by
    split
    · exact Or.inr (Or.inr rfl)
    · exact Or.inl rfl
  by_cases hm : (if s.sign ≠ 0 then mpf_neg s else s).man = 0
  · rw [if_pos hm] at h
    have := Except.ok.inj h
    simp only [Prod.mk.injEq] at this
    obtain ⟨h1, h2, -⟩ := this
    subst h1 h2
    exact ⟨Or.inl rfl, by intro c hc; simp at hc; rw [hc]; decide⟩
  · rw [if_neg hm] at h
    cases hp : toDigitsExpPos (if s.sign ≠ 0 then mpf_neg s else s) dps ln2 ln10 with
    | error err => rw [hp] at h; exact absurd h (by simp)
    | ok p =>
      obtain ⟨d, ex⟩ := p
      rw [hp] at h
      have := Except.ok.inj h
      simp only [Prod.mk.injEq] at this
      obtain ⟨h1, h2, -⟩ := this
      subst h1 h2
      exact ⟨hsg, toDigitsExpPos_digits hp⟩

/-- `to_str` on a finite non-zero number with `dps ≥ 1` is: `to_digits_exp` with three guard digits, the digit
rounding, then the layout -/
theorem toStr_finite {s : Mpf} {dps : Nat} {ln2 ln10 : Mpf} (strip : Bool) (mn mx : Option Bound)
    (showz : Bool) (hman : s.man ≠ 0) (hdps : dps ≠ 0) {sign digits : List Char} {e : Int}
    (h : toDigitsExp s (dps + 3) ln2 ln10 = .ok (sign, digits, e)) :
    toStr s dps ln2 ln10 strip mn mx showz =
      .ok (layoutDigits sign (roundDigits digits dps).1 (e + (roundDigits digits dps).2) dps strip
        (mn.getD (.fin (min (-((dps / 3 : Nat) : Int)) (-5)))) (mx.getD (.fin dps)) showz) := by
  unfold toStr
  rw [if_neg hman]
  simp only [h, if_neg hdps]


/-! ### a Bool fold over a range with logarithmic recursion depth (for `decide +kernel`) -/

/-- `P` holds on `[lo, lo+n)`, checked by halving; `false` if the fuel does not suffice -/
def allRange (P : Nat → Bool) : Nat → Nat → Nat → Bool
  | 0, lo, n => n == 0 || (P lo && n == 1)
  | f+1, lo, n =>
    if n = 0 then true
    else if n = 1 then P lo
    else allRange P f lo (n / 2) && allRange P f (lo + n / 2) (n - n / 2)

theorem allRange_sound (P : Nat → Bool) (f lo n : Nat) (h : allRange P f lo n = true) :
    ∀ p, lo ≤ p → p < lo + n → P p = true := by
  induction f generalizing lo n with
  | zero =>
    intro p h1 h2
    simp only [allRange, Bool.or_eq_true, beq_iff_eq, Bool.and_eq_true] at h
    rcases h with h | ⟨hp, hn⟩
    · omega
    · have : p = lo := by omega
      rw [this]; exact hp
  | succ f ih =>
    intro p h1 h2
    unfold allRange at h
    by_cases h0 : n = 0
    · omega
    · rw [if_neg h0] at h
      by_cases h1' : n = 1
      · rw [if_pos h1'] at h
        have : p = lo := by omega
        rw [this]; exact h
      · rw [if_neg h1', Bool.and_eq_true] at h
        by_cases hp : p < lo + n / 2
        · exact ih lo (n / 2) h.1 p h1 hp
        · exact ih (lo + n / 2) (n - n / 2) h.2 p (by omega) (by omega)

end Mp
