/-
  MpProofs/SpecRef2.lean — soundness of the references of `MpModel/SpecRef2.lean`:

    Encloses enc v             every interval produced by `enc` contains `v`
    encCheck_sound_ok/violates the deciders over an enclosure function are rigorous (real and complex output)
    geom_tail                  |f(k+1)| ≤ ρ|f(k)| for k ≥ K, ρ < 1  ⇒  f summable, |Σf − Σ_{j<K} f j| ≤ |f K|/(1−ρ)
    ratioBound_spec            the checked ratio bound holds for EVERY k ≥ K
    hypEncl_sound              `hypEncl as bs z wp = some F` ⇒ the series Σ_k Π(a_i)_k/Π(b_j)_k z^k/k! converges and F ∋ its sum
    zetaEncl_sound             `zetaEncl s wp = some F` ⇒ 2 ≤ s and F ∋ Σ_{n≥0} 1/(n+1)^s
-/
import MpModel.SpecRef2
import MpProofs.SpecRefHyper
import Mathlib.Analysis.PSeries
import Mathlib.Analysis.SpecificLimits.Basic

namespace Mp.SpecRef
open Mp.Encl
open scoped Nat

/-- every interval produced by the enclosure function contains `v` -/
def Encloses (enc : ℕ → Option DI) (v : ℝ) : Prop := ∀ wp F, enc wp = some F → F.Mem v

theorem encLoop_sound (enc : ℕ → Option DI) (v : ℝ) (h : Encloses enc v) (y t : Dy) (ht : 0 ≤ t.val)
    (ws : List ℕ) :
    (encLoop enc y t ws = .ok → |y.val - v| ≤ t.val * |v|) ∧
    (encLoop enc y t ws = .violates → t.val * |v| < |y.val - v|) := by
  induction ws with
  | nil => simp [encLoop]
  | cons wp ws ih =>
    unfold encLoop
    cases hF : enc wp with
    | none => simp
    | some F =>
      have hv := h wp F hF
      simp only
      cases hd : decide1 F y t with
      | ok => exact ⟨fun _ => decide1_ok F y t _ ht hv hd, by simp⟩
      | violates => exact ⟨by simp, fun _ => decide1_violates F y t _ ht hv hd⟩
      | undecided => exact ih

theorem encLoopC_sound (enc : ℕ → Option DI) (v : ℝ) (h : Encloses enc v) (yre yim t : Dy) (ht : 0 ≤ t.val)
    (ws : List ℕ) :
    (encLoopC enc yre yim t ws = .ok → ‖(⟨yre.val, yim.val⟩ : ℂ) - (v : ℂ)‖ ≤ t.val * |v|) ∧
    (encLoopC enc yre yim t ws = .violates → t.val * |v| < ‖(⟨yre.val, yim.val⟩ : ℂ) - (v : ℂ)‖) := by
  induction ws with
  | nil => simp [encLoopC]
  | cons wp ws ih =>
    unfold encLoopC
    cases hF : enc wp with
    | none => simp
    | some F =>
      have hv := h wp F hF
      simp only
      cases hd : decideC F yre yim t with
      | ok => exact ⟨fun _ => decideC_ok F yre yim t _ ht hv hd, by simp⟩
      | violates => exact ⟨by simp, fun _ => decideC_violates F yre yim t _ ht hv hd⟩
      | undecided => exact ih

theorem encCheck_sound_ok {enc : ℕ → Option DI} {v : ℝ} (h : Encloses enc v) (y : Dy) (p k : ℕ)
    (hc : encCheck enc y p k = .ok) : |y.val - v| ≤ (2 : ℝ) ^ ((k : ℤ) - (p : ℤ)) * |v| := by
  unfold encCheck at hc
  have := (encLoop_sound enc v h y ⟨1, (k : ℤ) - (p : ℤ)⟩ (two_zpow_nonneg k p) _).1 hc
  rwa [val_two_zpow] at this

theorem encCheck_sound_violates {enc : ℕ → Option DI} {v : ℝ} (h : Encloses enc v) (y : Dy) (p k : ℕ)
    (hc : encCheck enc y p k = .violates) : (2 : ℝ) ^ ((k : ℤ) - (p : ℤ)) * |v| < |y.val - v| := by
  unfold encCheck at hc
  have := (encLoop_sound enc v h y ⟨1, (k : ℤ) - (p : ℤ)⟩ (two_zpow_nonneg k p) _).2 hc
  rwa [val_two_zpow] at this

theorem encCheckC_sound_ok {enc : ℕ → Option DI} {v : ℝ} (h : Encloses enc v) (yre yim : Dy) (p k : ℕ)
    (hc : encCheckC enc yre yim p k = .ok) :
    ‖(⟨yre.val, yim.val⟩ : ℂ) - (v : ℂ)‖ ≤ (2 : ℝ) ^ ((k : ℤ) - (p : ℤ)) * |v| := by
  unfold encCheckC at hc
  have := (encLoopC_sound enc v h yre yim ⟨1, (k : ℤ) - (p : ℤ)⟩ (two_zpow_nonneg k p) _).1 hc
  rwa [val_two_zpow] at this

theorem encCheckC_sound_violates {enc : ℕ → Option DI} {v : ℝ} (h : Encloses enc v) (yre yim : Dy) (p k : ℕ)
    (hc : encCheckC enc yre yim p k = .violates) :
    (2 : ℝ) ^ ((k : ℤ) - (p : ℤ)) * |v| < ‖(⟨yre.val, yim.val⟩ : ℂ) - (v : ℂ)‖ := by
  unfold encCheckC at hc
  have := (encLoopC_sound enc v h yre yim ⟨1, (k : ℤ) - (p : ℤ)⟩ (two_zpow_nonneg k p) _).2 hc
  rwa [val_two_zpow] at this

/-- with `ok` at slack `k` the relative error is strictly below `2^(k+1−p)` wherever the reference is non-zero -/
theorem encCheck_ok_strict {enc : ℕ → Option DI} {v : ℝ} (h : Encloses enc v) (y : Dy) (p k : ℕ)
    (hc : encCheck enc y p k = .ok) (h0 : v ≠ 0) :
    |y.val - v| < (2 : ℝ) ^ (((k + 1 : ℕ) : ℤ) - (p : ℤ)) * |v| := by
  have h1 := encCheck_sound_ok h y p k hc
  have hpos : 0 < |v| := abs_pos.2 h0
  refine lt_of_le_of_lt h1 ?_
  apply mul_lt_mul_of_pos_right _ hpos
  apply zpow_lt_zpow_right₀ (by norm_num)
  push_cast; omega

/-! ### rational numbers -/

theorem ratDI_mem (wp : ℕ) (q : ℚ) : (ratDI wp q).Mem (q : ℝ) := by
  unfold ratDI
  have := DI.mem_divNat wp (DI.mem_ofInt q.num) q.den_pos
  rwa [← Rat.cast_def] at this

theorem ratHull_mem (wp : ℕ) (lo hi : ℚ) (v : ℝ) (h1 : (lo : ℝ) ≤ v) (h2 : v ≤ (hi : ℝ)) :
    (ratHull wp lo hi).Mem v :=
  ⟨le_trans (ratDI_mem wp lo).1 h1, le_trans h2 (ratDI_mem wp hi).2⟩

theorem absQ_eq (q : ℚ) : absQ q = |q| := by
  unfold absQ
  split
  · rename_i h; rw [abs_of_neg h]
  · rename_i h; rw [abs_of_nonneg (not_lt.1 h)]

/-! ### geometric tail bound -/

theorem geom_tail (f : ℕ → ℝ) (K : ℕ) (ρ : ℝ) (h0 : 0 ≤ ρ) (h1 : ρ < 1)
    (hr : ∀ k, K ≤ k → |f (k + 1)| ≤ ρ * |f k|) :
    Summable f ∧ |∑' k, f k - ∑ j ∈ Finset.range K, f j| ≤ |f K| / (1 - ρ) := by
  have hb : ∀ j, |f (j + K)| ≤ |f K| * ρ ^ j := by
    intro j
    induction j with
    | zero => simp
    | succ j ih =>
      have := hr (j + K) (Nat.le_add_left _ _)
      rw [show j + 1 + K = j + K + 1 by ring]
      calc |f (j + K + 1)| ≤ ρ * |f (j + K)| := this
        _ ≤ ρ * (|f K| * ρ ^ j) := mul_le_mul_of_nonneg_left ih h0
        _ = |f K| * ρ ^ (j + 1) := by ring
  have hgeo : HasSum (fun j : ℕ => |f K| * ρ ^ j) (|f K| * (1 - ρ)⁻¹) :=
    (hasSum_geometric_of_lt_one h0 h1).mul_left _
  have hg : Summable (fun j => f (j + K)) :=
    Summable.of_norm_bounded hgeo.summable (fun j => by rw [Real.norm_eq_abs]; exact hb j)
  have hf : Summable f := (summable_nat_add_iff K).1 hg
  refine ⟨hf, ?_⟩
  have hsplit := hf.sum_add_tsum_nat_add K
  have hnorm : ‖∑' j, f (j + K)‖ ≤ |f K| * (1 - ρ)⁻¹ :=
    tsum_of_norm_bounded hgeo (fun j => by rw [Real.norm_eq_abs]; exact hb j)
  rw [← hsplit, add_sub_cancel_left, div_eq_mul_inv]
  simpa [Real.norm_eq_abs] using hnorm

/-! ### non-terminating hypergeometric series -/

theorem prodShift_cons (a : ℚ) (l : List ℚ) (k : ℕ) : prodShift (a :: l) k = (a + (k : ℚ)) * prodShift l k := by
  simp [prodShift]

theorem prodShift_nil (k : ℕ) : prodShift [] k = 1 := by simp [prodShift]

theorem ratio_mono {a b : ℚ} {K k : ℕ} (hk : K ≤ k) (hb : 0 < b + (K : ℚ)) :
    (a + (k : ℚ)) / (b + (k : ℚ)) ≤
      (if 1 ≤ (a + (K : ℚ)) / (b + (K : ℚ)) then (a + (K : ℚ)) / (b + (K : ℚ)) else 1) := by
  have hkK : (K : ℚ) ≤ (k : ℚ) := by exact_mod_cast hk
  have hbk : 0 < b + (k : ℚ) := by linarith
  split
  · rename_i h1
    rw [le_div_iff₀ hb] at h1
    rw [div_le_div_iff₀ hbk hb]
    nlinarith
  · rename_i h1
    rw [not_le, div_lt_one hb] at h1
    rw [div_le_one hbk]
    linarith

theorem ratioBound_spec : ∀ (as bs : List ℚ) (K : ℕ) (R : ℚ), ratioBound as bs K = some R →
    0 ≤ R ∧ ∀ k, K ≤ k → 0 ≤ prodShift as k ∧ 0 < prodShift bs k ∧ prodShift as k / prodShift bs k ≤ R := by
  intro as
  induction as with
  | nil =>
    intro bs
    induction bs with
    | nil =>
      intro K R h
      simp only [ratioBound, Option.some.injEq] at h; subst h
      refine ⟨zero_le_one, fun k _ => ?_⟩
      simp [prodShift_nil]
    | cons b bs ih =>
      intro K R h
      simp only [ratioBound] at h
      split at h
      · rename_i hb
        simp only [Option.map_eq_some_iff] at h
        obtain ⟨R', hR', rfl⟩ := h
        obtain ⟨h0, hk⟩ := ih K R' hR'
        refine ⟨div_nonneg h0 hb.le, fun k hkK => ?_⟩
        obtain ⟨_, hpos, hle⟩ := hk k hkK
        have hkK' : (K : ℚ) ≤ (k : ℚ) := by exact_mod_cast hkK
        have hbk : 0 < b + (k : ℚ) := by linarith
        rw [prodShift_cons, prodShift_nil]
        rw [prodShift_nil] at hle
        refine ⟨zero_le_one, mul_pos hbk hpos, ?_⟩
        rw [one_div, mul_inv, mul_comm, div_eq_mul_inv]
        apply mul_le_mul _ _ (inv_nonneg.2 hbk.le) h0
        · rwa [one_div] at hle
        · exact inv_anti₀ hb (by linarith)
      · simp at h
  | cons a as ih =>
    intro bs
    cases bs with
    | nil => intro K R h; simp [ratioBound] at h
    | cons b bs =>
      intro K R h
      simp only [ratioBound] at h
      split at h
      · rename_i hab
        obtain ⟨ha, hb⟩ := hab
        simp only [Option.map_eq_some_iff] at h
        obtain ⟨R', hR', rfl⟩ := h
        obtain ⟨h0, hk⟩ := ih bs K R' hR'
        have hM : 0 ≤ (if 1 ≤ (a + (K : ℚ)) / (b + (K : ℚ)) then (a + (K : ℚ)) / (b + (K : ℚ)) else 1) := by
          split
          · exact div_nonneg ha hb.le
          · exact zero_le_one
        refine ⟨mul_nonneg hM h0, fun k hkK => ?_⟩
        obtain ⟨hpa, hpb, hle⟩ := hk k hkK
        have hkK' : (K : ℚ) ≤ (k : ℚ) := by exact_mod_cast hkK
        have hak : 0 ≤ a + (k : ℚ) := by linarith
        have hbk : 0 < b + (k : ℚ) := by linarith
        rw [prodShift_cons, prodShift_cons]
        refine ⟨mul_nonneg hak hpa, mul_pos hbk hpb, ?_⟩
        rw [mul_div_mul_comm]
        exact mul_le_mul (ratio_mono hkK hb) hle (div_nonneg hpa hpb.le) hM
      · simp at h

theorem hypSum_succ (as bs : List ℚ) (z : ℚ) (k : ℕ) :
    hypSum as bs z (k + 1) =
      ((hypSum as bs z k).1 * prodShift as k / prodShift bs k * z / ((k : ℚ) + 1),
        (hypSum as bs z k).2 + (hypSum as bs z k).1) := rfl

theorem hypLoop_inv (as bs : List ℚ) (z : ℚ) (wp : ℕ) : ∀ (fuel k : ℕ) (t S : ℚ), (t, S) = hypSum as bs z k →
    ∃ K, hypLoop as bs z wp fuel k t S = (K, (hypSum as bs z K).1, (hypSum as bs z K).2) := by
  intro fuel
  induction fuel with
  | zero =>
    intro k t S h
    refine ⟨k, ?_⟩
    rw [hypLoop, ← h]
  | succ fuel ih =>
    intro k t S h
    rw [hypLoop]
    split
    · exact ⟨k, by rw [← h]⟩
    · apply ih (k + 1)
      rw [hypSum_succ, ← h]

/-- the terms of the series as real numbers -/
noncomputable def hypTermR (as bs : List ℚ) (z : ℚ) (k : ℕ) : ℝ := ((hypTermQ as bs z k : ℚ) : ℝ)

theorem hypTerm_ratio (as bs : List ℚ) (z : ℚ) (K : ℕ) (R : ℚ) (h : ratioBound as (1 :: bs) K = some R) :
    ∀ k, K ≤ k → |hypTermR as bs z (k + 1)| ≤ ((R * |z| : ℚ) : ℝ) * |hypTermR as bs z k| := by
  intro k hk
  obtain ⟨h0, hall⟩ := ratioBound_spec _ _ _ _ h
  obtain ⟨hpa, hpb, hle⟩ := hall k hk
  rw [prodShift_cons] at hpb hle
  have hk1 : (0 : ℚ) < 1 + (k : ℚ) := by positivity
  have hpb' : 0 < prodShift bs k := by
    rcases (mul_pos_iff.1 hpb) with h | h
    · exact h.2
    · linarith [h.1]
  unfold hypTermR
  rw [← (hypSum_spec as bs z (k + 1)).1, ← (hypSum_spec as bs z k).1, hypSum_succ]
  simp only
  rw [← Rat.cast_abs, ← Rat.cast_abs, ← Rat.cast_mul, Rat.cast_le]
  set t := (hypSum as bs z k).1
  have e : t * prodShift as k / prodShift bs k * z / ((k : ℚ) + 1) =
      (prodShift as k / ((1 + (k : ℚ)) * prodShift bs k)) * z * t := by
    field_simp
    ring
  rw [e, abs_mul, abs_mul, abs_of_nonneg (div_nonneg hpa hpb.le)]
  exact mul_le_mul_of_nonneg_right (mul_le_mul_of_nonneg_right hle (abs_nonneg z)) (abs_nonneg t)

/-- **soundness of the series enclosure**: no denominator parameter is a non-positive integer, the series
`Σ_k Π(a_i)_k/Π(b_j)_k · z^k/k!` converges (absolutely), and the interval contains its sum -/
theorem hypEncl_sound (as bs : List ℚ) (z : ℚ) (wp : ℕ) (F : DI) (h : hypEncl as bs z wp = some F) :
    (∀ b ∈ bs, isNpInt b = false) ∧ Summable (hypTermR as bs z) ∧ F.Mem (∑' k, hypTermR as bs z k) := by
  unfold hypEncl at h
  split at h
  · simp at h
  · rename_i hnp
    obtain ⟨K, hK⟩ := hypLoop_inv as bs z wp (hypFuel z wp) 0 1 0 rfl
    simp only [hK] at h
    cases hR : ratioBound as (1 :: bs) K with
    | none => rw [hR] at h; simp at h
    | some R =>
      rw [hR] at h
      simp only at h
      split at h
      · rename_i hrho
        simp only [Option.some.injEq] at h; subst h
        rw [absQ_eq] at hrho
        obtain ⟨hR0, _⟩ := ratioBound_spec _ _ _ _ hR
        have hρ0 : (0 : ℝ) ≤ ((R * |z| : ℚ) : ℝ) := by
          exact_mod_cast mul_nonneg hR0 (abs_nonneg z)
        have hρ1 : ((R * |z| : ℚ) : ℝ) < 1 := by exact_mod_cast hrho
        obtain ⟨hsum, htail⟩ := geom_tail (hypTermR as bs z) K _ hρ0 hρ1 (hypTerm_ratio as bs z K R hR)
        refine ⟨?_, hsum, ?_⟩
        · intro b hb
          by_contra hc
          apply hnp
          simp only [List.any_eq_true]
          exact ⟨b, hb, by simpa using hc⟩
        · have hS : ((((hypSum as bs z K).2 : ℚ)) : ℝ) = ∑ j ∈ Finset.range K, hypTermR as bs z j := by
            rw [(hypSum_spec as bs z K).2]; unfold hypTermR; push_cast; rfl
          have hT : (((absQ (hypSum as bs z K).1 / (1 - R * absQ z) : ℚ)) : ℝ) =
              |hypTermR as bs z K| / (1 - ((R * |z| : ℚ) : ℝ)) := by
            rw [absQ_eq, absQ_eq, (hypSum_spec as bs z K).1]; unfold hypTermR; push_cast; rfl
          rw [abs_le] at htail
          apply ratHull_mem
          · rw [Rat.cast_sub, hS, hT]; linarith [htail.1]
          · rw [Rat.cast_add, hS, hT]; linarith [htail.2]
      · simp at h

/-! ### ζ(s) at integers `s ≥ 2` from the defining series -/

/-- the terms `1/(n+1)^s`, `n = 0, 1, 2, …` -/
noncomputable def zetaTermR (s : ℕ) (n : ℕ) : ℝ := 1 / ((n : ℝ) + 1) ^ s

theorem powSumDI_mem (wp s : ℕ) : ∀ n, (powSumDI wp s n).Mem (∑ j ∈ Finset.range n, zetaTermR s j) := by
  intro n
  induction n with
  | zero => simpa [powSumDI] using DI.mem_zero
  | succ n ih =>
    rw [powSumDI, Finset.sum_range_succ]
    apply DI.mem_round
    apply DI.mem_add ih
    have := DI.mem_divNat wp DI.mem_one (k := (n + 1) ^ s) (by positivity)
    unfold zetaTermR
    push_cast at this
    exact this

theorem pow_step (k : ℝ) (hk : 0 < k) : ∀ m : ℕ, 1 ≤ m → (k + 2) * k ^ m ≤ (k + 1) ^ (m + 1) := by
  intro m hm
  induction m, hm using Nat.le_induction with
  | base =>
    have e : (k + 1) ^ (1 + 1) = (k + 2) * k ^ 1 + 1 := by ring
    rw [e]; linarith
  | succ m _ ih =>
    have h1 : 0 ≤ (k + 1) ^ (m + 1) := by positivity
    calc (k + 2) * k ^ (m + 1) = k * ((k + 2) * k ^ m) := by ring
      _ ≤ k * (k + 1) ^ (m + 1) := mul_le_mul_of_nonneg_left ih hk.le
      _ ≤ (k + 1) * (k + 1) ^ (m + 1) := by nlinarith
      _ = (k + 1) ^ (m + 1 + 1) := by ring

theorem term_telescope (k : ℝ) (hk : 0 < k) (m : ℕ) (hm : 1 ≤ m) :
    1 / (k + 1) ^ (m + 1) ≤ 1 / k ^ m - 1 / (k + 1) ^ m := by
  have h1 : 0 < k ^ m := by positivity
  have h2 : 0 < (k + 1) ^ m := by positivity
  have h3 : 0 < (k + 1) ^ (m + 1) := by positivity
  have key : (k + 2) / (k + 1) ^ (m + 1) ≤ 1 / k ^ m := by
    rw [div_le_div_iff₀ h3 h1, one_mul]
    exact pow_step k hk m hm
  have e : (k + 2) / (k + 1) ^ (m + 1) = 1 / (k + 1) ^ (m + 1) + 1 / (k + 1) ^ m := by
    rw [pow_succ]; field_simp; ring
  linarith

theorem zeta_tail_partial (m N : ℕ) (hm : 1 ≤ m) (hN : 1 ≤ N) : ∀ M : ℕ,
    ∑ j ∈ Finset.range M, zetaTermR (m + 1) (j + N) ≤ 1 / (N : ℝ) ^ m - 1 / ((N : ℝ) + (M : ℝ)) ^ m := by
  intro M
  induction M with
  | zero => simp
  | succ M ih =>
    rw [Finset.sum_range_succ]
    have hk : (0 : ℝ) < (N : ℝ) + (M : ℝ) := by
      have : (1 : ℝ) ≤ (N : ℝ) := by exact_mod_cast hN
      positivity
    have := term_telescope ((N : ℝ) + (M : ℝ)) hk m hm
    have hterm : zetaTermR (m + 1) (M + N) = 1 / ((N : ℝ) + (M : ℝ) + 1) ^ (m + 1) := by
      unfold zetaTermR; push_cast
      rw [show (M : ℝ) + (N : ℝ) + 1 = (N : ℝ) + (M : ℝ) + 1 by ring]
    have e2 : ((N : ℝ) + ((M + 1 : ℕ) : ℝ)) = (N : ℝ) + (M : ℝ) + 1 := by push_cast; ring
    rw [hterm, e2]
    linarith

/-- `Σ_{n≥0} 1/(n+1)^s` converges for `s ≥ 2`, and `Σ_{j<N} ≤ ζ(s) ≤ Σ_{j<N} + 1/N^(s−1)` for `N ≥ 1` -/
theorem zeta_series_bounds (s N : ℕ) (hs : 2 ≤ s) (hN : 1 ≤ N) :
    Summable (zetaTermR s) ∧
    ∑ j ∈ Finset.range N, zetaTermR s j ≤ ∑' n, zetaTermR s n ∧
    ∑' n, zetaTermR s n ≤ ∑ j ∈ Finset.range N, zetaTermR s j + 1 / (N : ℝ) ^ (s - 1) := by
  obtain ⟨m, rfl⟩ : ∃ m, s = m + 1 := ⟨s - 1, by omega⟩
  have hm : 1 ≤ m := by omega
  have hnn : ∀ n, 0 ≤ zetaTermR (m + 1) (n + N) := fun n => by unfold zetaTermR; positivity
  have hpart : ∀ M, ∑ j ∈ Finset.range M, zetaTermR (m + 1) (j + N) ≤ 1 / (N : ℝ) ^ m := by
    intro M
    have h1 := zeta_tail_partial m N hm hN M
    have h2 : (0 : ℝ) ≤ 1 / ((N : ℝ) + (M : ℝ)) ^ m := by positivity
    linarith
  have hts : Summable (fun n => zetaTermR (m + 1) (n + N)) := summable_of_sum_range_le hnn hpart
  have hsum : Summable (zetaTermR (m + 1)) := (summable_nat_add_iff N).1 hts
  have hle : ∑' n, zetaTermR (m + 1) (n + N) ≤ 1 / (N : ℝ) ^ m := Real.tsum_le_of_sum_range_le hnn hpart
  have h0 : 0 ≤ ∑' n, zetaTermR (m + 1) (n + N) := tsum_nonneg hnn
  have hsplit := hsum.sum_add_tsum_nat_add N
  refine ⟨hsum, ?_, ?_⟩
  · linarith
  · rw [Nat.add_sub_cancel]; linarith

theorem zetaEncl_sound (s wp : ℕ) (F : DI) (h : zetaEncl s wp = some F) :
    2 ≤ s ∧ Summable (zetaTermR s) ∧ F.Mem (∑' n, zetaTermR s n) := by
  unfold zetaEncl at h
  split at h
  · simp at h
  · rename_i hs
    simp only at h
    split at h
    · simp at h
    · rename_i hN
      simp only [Option.some.injEq] at h; subst h
      have hs2 : 2 ≤ s := by omega
      have hN1 : 1 ≤ zetaTerms s wp := by omega
      obtain ⟨hsum, hlo, hhi⟩ := zeta_series_bounds s (zetaTerms s wp) hs2 hN1
      refine ⟨hs2, hsum, ?_⟩
      apply DI.mem_round
      have hS := powSumDI_mem (wp + 16) s (zetaTerms s wp)
      have hpos : (0 : ℤ) < (((zetaTerms s wp) ^ (s - 1) : ℕ) : ℤ) := by positivity
      have hT := Dy.le_divUp (wp + 16) Dy.one ⟨(((zetaTerms s wp) ^ (s - 1) : ℕ) : ℤ), 0⟩ hpos
      have e1 : Dy.one.val = 1 := by simp [Dy.one, Dy.val]
      have e2 : (Dy.mk (((zetaTerms s wp) ^ (s - 1) : ℕ) : ℤ) 0).val = ((zetaTerms s wp : ℕ) : ℝ) ^ (s - 1) := by
        simp [Dy.val]
      rw [e1, e2] at hT
      constructor
      · exact le_trans hS.1 hlo
      · simp only [Dy.val_add]
        linarith [hS.2]

theorem altzetaEncl_sound (s wp : ℕ) (F : DI) (h : altzetaEncl s wp = some F) :
    2 ≤ s ∧ Summable (zetaTermR s) ∧ F.Mem ((1 - (2 : ℝ) ^ (1 - (s : ℤ))) * ∑' n, zetaTermR s n) := by
  unfold altzetaEncl at h
  simp only [Option.map_eq_some_iff] at h
  obtain ⟨Z, hZ, rfl⟩ := h
  obtain ⟨hs, hsum, hmem⟩ := zetaEncl_sound s (wp + 2) Z hZ
  refine ⟨hs, hsum, ?_⟩
  apply DI.mem_round
  rw [mul_comm]
  have hp := DI.mem_point (Dy.mk (pow2 (s - 1) - 1) (-((s - 1 : ℕ) : ℤ)))
  have e : (Dy.mk (pow2 (s - 1) - 1) (-((s - 1 : ℕ) : ℤ))).val = 1 - (2 : ℝ) ^ (1 - (s : ℤ)) := by
    simp only [Dy.val]
    push_cast [pow2_cast]
    rw [sub_mul, one_mul, ← zpow_natCast, ← zpow_add₀ (by norm_num : (2 : ℝ) ≠ 0)]
    have h1 : ((s - 1 : ℕ) : ℤ) = (s : ℤ) - 1 := by omega
    rw [h1]
    simp only [add_neg_cancel, zpow_zero]
    congr 2
    ring
  rw [e] at hp
  exact DI.mem_mul hmem hp

end Mp.SpecRef
