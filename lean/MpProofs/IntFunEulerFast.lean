/-
  MpProofs/IntFunEulerFast.lean — `eulernum`: the kernel check of `IntFunEuler.lean` extended to all even
  `m ≤ 100` (the `n < 100` path of `mp.eulernum`).

  * `eulerRowF n a`: the in-place sweep of round `n` (`eulerUpd (eulerCnt n) (n+1) a`) as ONE left-to-right
    pass (the sweep writes only positions of the parity of `n` and reads only the other parity), proved equal
    to the sweep for every `n` (`eulerRowF_eq`, `eulerA_succ`).
  * `eulerSumF`: the summation loop in linear time (`eulerSumF_eq`).
  * `eulerSTab`: all `eulerS n, eulerS (n+2), …` in a single pass over the rows, each row forced to literals
    (`forceList`) so that kernel reduction shares it (`eulerSTab_getD`).
  * `eulerSTab_check`: one `decide +kernel`; `eulerS_small100`, `euler_values_small100` follow.
-/
import MpProofs.IntFunEuler

namespace Mp

/-! ## strict evaluation helpers (identity functions that force their argument under kernel reduction) -/

def forceNat {α : Type} (k : Nat) (f : Nat → α) : α :=
  match k with
  | 0 => f 0
  | Nat.succ k' => f (Nat.succ k')

def forceInt {α : Type} (v : Int) (f : Int → α) : α :=
  match v with
  | Int.ofNat k => forceNat k fun k' => f (Int.ofNat k')
  | Int.negSucc k => forceNat k fun k' => f (Int.negSucc k')

def forceList {α : Type} : List Int → (List Int → α) → α
  | [], f => f []
  | x :: t, f => forceInt x fun x' => forceList t fun t' => f (x' :: t')

@[simp] theorem forceNat_eq {α : Type} (k : Nat) (f : Nat → α) : forceNat k f = f k := by
  cases k <;> rfl

@[simp] theorem forceInt_eq {α : Type} (v : Int) (f : Int → α) : forceInt v f = f v := by
  cases v <;> simp [forceInt]

@[simp] theorem forceList_eq {α : Type} (l : List Int) (f : List Int → α) : forceList l f = f l := by
  induction l generalizing f with
  | nil => rfl
  | cons x t ih => simp [forceList, ih]

/-! ## one sweep of round `n` as a single pass -/

def eulerRowGo (n : Nat) : Nat → Int → List Int → List Int
  | _, _, [] => []
  | i, prev, x :: t =>
    (if i % 2 = n % 2 ∧ 1 ≤ i ∧ i ≤ n + 2 then ((i : Int) - 2) * prev + (i : Int) * t.headD 0 else x)
      :: forceNat (i+1) fun i' => eulerRowGo n i' x t

def eulerRowF (n : Nat) (a : List Int) : List Int := eulerRowGo n 0 0 a

theorem ef_getD_set_int (a : List Int) (m k : Nat) (v : Int) :
    (a.set m v).getD k 0 = if k = m ∧ m < a.length then v else a.getD k 0 := by
  simp only [List.getD_eq_getElem?_getD, List.getElem?_set]
  by_cases h : m = k
  · subst h
    by_cases h2 : m < a.length
    · simp [h2]
    · simp [h2]
  · have h' : ¬ k = m := fun e => h e.symm
    simp [h, h']

theorem eulerUpd_length (cnt j : Nat) (a : List Int) : (eulerUpd cnt j a).length = a.length := by
  induction cnt generalizing j a with
  | zero => rfl
  | succ cnt ih => simp [eulerUpd, ih]

/-- the sweep, pointwise, in terms of the ORIGINAL array -/
theorem eulerUpd_getD (cnt j : Nat) (a : List Int) (i : Nat) (h : 2 * cnt ≤ j + 2) (hl : j + 1 < a.length) :
    (eulerUpd cnt j a).getD i 0 =
      if i ≤ j + 1 ∧ j + 1 < i + 2 * cnt ∧ (j + 1 - i) % 2 = 0
      then ((i : Int) - 2) * a.getD (i - 1) 0 + (i : Int) * a.getD (i + 1) 0 else a.getD i 0 := by
  induction cnt generalizing j a with
  | zero =>
    have : ¬ (i ≤ j + 1 ∧ j + 1 < i + 2 * 0 ∧ (j + 1 - i) % 2 = 0) := by omega
    rw [if_neg this]; rfl
  | succ cnt ih =>
    rw [eulerUpd]
    by_cases hc : cnt = 0
    · subst hc
      rw [eulerUpd, ef_getD_set_int]
      by_cases hi : i = j + 1
      · subst hi
        have h1 : (j + 1 = j + 1 ∧ j + 1 < a.length) := ⟨rfl, hl⟩
        have h2 : (j + 1 ≤ j + 1 ∧ j + 1 < j + 1 + 2 * (0 + 1) ∧ (j + 1 - (j + 1)) % 2 = 0) := by omega
        rw [if_pos h1, if_pos h2]
        have e1 : j + 1 - 1 = j := by omega
        rw [e1]
        push_cast
        ring
      · have h1 : ¬ (i = j + 1 ∧ j + 1 < a.length) := fun e => hi e.1
        have h2 : ¬ (i ≤ j + 1 ∧ j + 1 < i + 2 * (0 + 1) ∧ (j + 1 - i) % 2 = 0) := by omega
        rw [if_neg h1, if_neg h2]
    · have hj : 2 ≤ j := by omega
      rw [ih (j - 2) _ (by omega) (by rw [List.length_set]; omega)]
      by_cases hcond : i ≤ j - 2 + 1 ∧ j - 2 + 1 < i + 2 * cnt ∧ (j - 2 + 1 - i) % 2 = 0
      · have h2 : i ≤ j + 1 ∧ j + 1 < i + 2 * (cnt + 1) ∧ (j + 1 - i) % 2 = 0 := by omega
        rw [if_pos hcond, if_pos h2, ef_getD_set_int, ef_getD_set_int]
        have h3 : ¬ (i - 1 = j + 1 ∧ j + 1 < a.length) := by omega
        have h4 : ¬ (i + 1 = j + 1 ∧ j + 1 < a.length) := by omega
        rw [if_neg h3, if_neg h4]
      · rw [if_neg hcond, ef_getD_set_int]
        by_cases hi : i = j + 1
        · subst hi
          have h1 : (j + 1 = j + 1 ∧ j + 1 < a.length) := ⟨rfl, hl⟩
          have h2 : (j + 1 ≤ j + 1 ∧ j + 1 < j + 1 + 2 * (cnt + 1) ∧ (j + 1 - (j + 1)) % 2 = 0) := by omega
          rw [if_pos h1, if_pos h2]
          have e1 : j + 1 - 1 = j := by omega
          rw [e1]
          push_cast
          ring
        · have h1 : ¬ (i = j + 1 ∧ j + 1 < a.length) := fun e => hi e.1
          have h2 : ¬ (i ≤ j + 1 ∧ j + 1 < i + 2 * (cnt + 1) ∧ (j + 1 - i) % 2 = 0) := by omega
          rw [if_neg h1, if_neg h2]

theorem eulerRowGo_length (n : Nat) (l : List Int) (i : Nat) (prev : Int) :
    (eulerRowGo n i prev l).length = l.length := by
  induction l generalizing i prev with
  | nil => rfl
  | cons x t ih => simp [eulerRowGo, ih]

theorem eulerRowGo_getD (n : Nat) (l : List Int) (i : Nat) (prev : Int) (k : Nat) (hk : k < l.length) :
    (eulerRowGo n i prev l).getD k 0 =
      if (i + k) % 2 = n % 2 ∧ 1 ≤ i + k ∧ i + k ≤ n + 2
      then (((i + k : Nat) : Int) - 2) * (if k = 0 then prev else l.getD (k - 1) 0)
        + ((i + k : Nat) : Int) * l.getD (k + 1) 0
      else l.getD k 0 := by
  induction l generalizing i prev k with
  | nil => simp at hk
  | cons x t ih =>
    cases k with
    | zero =>
      simp only [eulerRowGo, List.getD_cons_zero, Nat.add_zero, if_true, List.getD_cons_succ]
      cases t <;> rfl
    | succ k =>
      simp only [eulerRowGo, forceNat_eq, List.getD_cons_succ]
      rw [ih (i + 1) x k (by simpa using hk)]
      have e : i + 1 + k = i + (k + 1) := by omega
      rw [e]
      cases k with
      | zero => simp
      | succ k => simp

theorem ef_list_ext_getD (a b : List Int) (hl : a.length = b.length)
    (h : ∀ i, i < a.length → a.getD i 0 = b.getD i 0) : a = b := by
  apply List.ext_getElem hl
  intro i h1 h2
  have := h i h1
  simpa [List.getD_eq_getElem?_getD, h1, h2] using this

/-- the single pass equals the in-place sweep of round `n` -/
theorem eulerRowF_eq (n : Nat) (a : List Int) (ha : a.length = n + 5) :
    eulerRowF n a = eulerUpd (eulerCnt n) (n + 1) a := by
  apply ef_list_ext_getD
  · rw [eulerRowF, eulerRowGo_length, eulerUpd_length]
  · intro i hi
    rw [eulerRowF, eulerRowGo_length] at hi
    rw [eulerRowF, eulerRowGo_getD n a 0 0 i hi,
      eulerUpd_getD (eulerCnt n) (n + 1) a i (by unfold eulerCnt; omega) (by omega)]
    simp only [Nat.zero_add]
    by_cases hc : i % 2 = n % 2 ∧ 1 ≤ i ∧ i ≤ n + 2
    · have h2 : i ≤ n + 1 + 1 ∧ n + 1 + 1 < i + 2 * eulerCnt n ∧ (n + 1 + 1 - i) % 2 = 0 := by
        unfold eulerCnt; omega
      have h3 : ¬ i = 0 := by omega
      rw [if_pos hc, if_pos h2, if_neg h3]
    · have h2 : ¬ (i ≤ n + 1 + 1 ∧ n + 1 + 1 < i + 2 * eulerCnt n ∧ (n + 1 + 1 - i) % 2 = 0) := by
        unfold eulerCnt; omega
      rw [if_neg hc, if_neg h2]

theorem eulerA_length (n : Nat) : (eulerA n).length = n + 6 := by
  induction n with
  | zero => rfl
  | succ n ih => simp [eulerA, eulerUpd_length, ih]

theorem eulerA_succ (n : Nat) : eulerA (n + 1) = eulerRowF (n + 1) (eulerA n) ++ [0] := by
  rw [eulerRowF_eq (n + 1) (eulerA n) (by rw [eulerA_length])]
  rfl

/-! ## the summation loop in linear time -/

/-- every other element of `l`, `cnt` of them, added to `s` -/
def eulerSumAlt : Nat → List Int → Int → Int
  | 0, _, s => s
  | cnt+1, l, s =>
    match l with
    | [] => s
    | x :: t => forceInt (s + x) fun s' => eulerSumAlt cnt t.tail s'

/-- the summation loop of round `n` -/
def eulerSumF (n : Nat) (a : List Int) : Int :=
  eulerSumAlt (eulerCnt n) (a.reverse.drop (a.length - 3 - n)) 0

theorem eulerSumAlt_eq (cnt k : Nat) (a : List Int) (s : Int) (hk : k + 2 ≤ a.length) (hc : 2 * cnt ≤ k + 2) :
    eulerSumAlt cnt (a.reverse.drop (a.length - 2 - k)) s = eulerSumP cnt k a s := by
  induction cnt generalizing k s with
  | zero => rfl
  | succ cnt ih =>
    have hd : a.length - 2 - k < a.reverse.length := by rw [List.length_reverse]; omega
    rw [List.drop_eq_getElem_cons hd]
    simp only [eulerSumAlt, eulerSumP, forceInt_eq, List.tail_drop]
    have hx : a.reverse[a.length - 2 - k] = a.getD (k + 1) 0 := by
      rw [List.getElem_reverse]
      have e : a.length - 1 - (a.length - 2 - k) = k + 1 := by omega
      simp only [e]
      rw [List.getD_eq_getElem?_getD, List.getElem?_eq_getElem (by omega)]
      rfl
    rw [hx]
    by_cases h0 : cnt = 0
    · subst h0; rfl
    · have e2 : a.length - 2 - k + 1 + 1 = a.length - 2 - (k - 2) := by omega
      rw [e2]
      exact ih (k - 2) _ (by omega) (by omega)

theorem eulerSumF_eq (n : Nat) (a : List Int) (ha : n + 3 ≤ a.length) :
    eulerSumF n a = eulerSumP (eulerCnt n) (n + 1) a 0 := by
  have := eulerSumAlt_eq (eulerCnt n) (n + 1) a 0 (by omega) (by unfold eulerCnt; omega)
  rw [← this, eulerSumF]
  have e : a.length - 3 - n = a.length - 2 - (n + 1) := by omega
  rw [e]

/-! ## all sums `eulerS n, eulerS (n+2), …` in one pass over the rows -/

/-- `[eulerS n, eulerS (n+2), …]` (`c` entries), given `a = eulerA n` -/
def eulerSTab : Nat → Nat → List Int → List Int
  | 0, _, _ => []
  | c+1, n, a => eulerSumF n a ::
      forceList (eulerRowF (n+1) a ++ [0]) fun a1 =>
      forceList (eulerRowF (n+2) a1 ++ [0]) fun a2 =>
      forceNat (n+2) fun n2 => eulerSTab c n2 a2

theorem eulerSTab_getD (c n k : Nat) (hk : k < c) :
    (eulerSTab c n (eulerA n)).getD k 0 = eulerS (n + 2 * k) := by
  induction c generalizing n k with
  | zero => omega
  | succ c ih =>
    simp only [eulerSTab, forceList_eq, forceNat_eq, ← eulerA_succ]
    cases k with
    | zero =>
      rw [List.getD_cons_zero, eulerSumF_eq n _ (by rw [eulerA_length]; omega)]
      rfl
    | succ k =>
      rw [List.getD_cons_succ, ih (n + 2) k (by omega)]
      have e : n + 2 + 2 * k = n + 2 * (k + 1) := by omega
      rw [e]

/-- the expected values `(-1)^j · 4^j · E_{2j}`, `j < N` -/
def eulerExpect (N : Nat) : List Int :=
  forceList (secTableF N) fun t =>
    (List.range N).map fun j => eulerSign (2 * j) * 2 ^ (2 * j) * t.getD j 0

theorem eulerExpect_getD (N j : Nat) (hj : j < N) :
    (eulerExpect N).getD j 0 = eulerSign (2 * j) * 2 ^ (2 * j) * (secTableF N).getD j 0 := by
  simp only [eulerExpect, forceList_eq]
  simp [List.getD_eq_getElem?_getD, hj]

/-- the kernel check (strict, linear-time rows) -/
theorem eulerSTab_check : eulerSTab 51 0 [0, 0, 1, 0, 0, 0] = eulerExpect 51 := by
  decide +kernel

/-- kernel evaluation: for `n = 2j ≤ 100` the final sum of round `n` is `(-1)^(n/2) · 2^n · E_n`
(in particular divisible by `2^n`). -/
theorem eulerS_small100 : ∀ j < 51, eulerS (2 * j) = eulerSign (2 * j) * 2 ^ (2 * j) * (secTableF 51).getD j 0 := by
  intro j hj
  have h1 := eulerSTab_getD 51 0 j hj
  rw [Nat.zero_add] at h1
  rw [← h1, ← eulerExpect_getD 51 j hj, ← eulerSTab_check]
  rfl

/-- for even `m ≤ 100` both the stored and the returned value are the Euler number `E_m`. -/
theorem euler_values_small100 (j : Nat) (hj : j < 51) :
    eulerCacheVal (2 * j) = eulerE (2 * j) ∧ eulerRet (2 * j) = eulerE (2 * j) := by
  have hs := eulerS_small100 j hj
  have hE : eulerE (2 * j) = (secTableF 51).getD j 0 := by
    rw [eulerE_two_mul, ← secTable_eq_F, secTable_getD_stable (j + 1) 51 j (by omega) (by omega)]
  rw [← hE] at hs
  have hp : ((2 : Int) ^ (2 * j)) ≠ 0 := by positivity
  have hsq := eulerSign_sq (2 * j)
  constructor
  · unfold eulerCacheVal
    rw [hs, show eulerSign (2 * j) * 2 ^ (2 * j) * eulerE (2 * j) = (eulerSign (2 * j) * eulerE (2 * j)) * 2 ^ (2 * j) by ring,
      Int.mul_fdiv_cancel _ hp, ← mul_assoc, hsq, one_mul]
  · unfold eulerRet
    rw [hs, show eulerSign (2 * j) * (eulerSign (2 * j) * 2 ^ (2 * j) * eulerE (2 * j))
        = (eulerSign (2 * j) * eulerSign (2 * j)) * eulerE (2 * j) * 2 ^ (2 * j) by ring,
      hsq, one_mul, Int.mul_fdiv_cancel _ hp]

example : eulerCacheVal 100 = eulerE 100 ∧ eulerRet 100 = eulerE 100 := euler_values_small100 50 (by decide)

end Mp
