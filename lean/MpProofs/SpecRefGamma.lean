/-
  MpProofs/SpecRefGamma.lean — the C18 references agree with Mathlib:
  integer products (`factN = n!`, `chooseM = Nat.choose`, `dfact = n‼`, `superfacN = Nat.superFactorial`,
  `harmPQ` = `harmonic`), `rfQ`/`ffQ` = `ascPochhammer`/`descPochhammer`, and `gammaQ` = `Real.Gamma`
  at integers and half-integers (poles ⇔ `gammaQ = none` ⇔ `Real.Gamma = 0`).
-/
import MpProofs.SpecRef
import Mathlib.Analysis.SpecialFunctions.Gamma.Basic
import Mathlib.Analysis.SpecialFunctions.Gamma.Beta
import Mathlib.Data.Nat.Factorial.DoubleFactorial
import Mathlib.Data.Nat.Factorial.SuperFactorial
import Mathlib.Data.Nat.Choose.Basic
import Mathlib.NumberTheory.Harmonic.Defs
import Mathlib.RingTheory.Polynomial.Pochhammer

namespace Mp.SpecRef
open Mp.Encl
open scoped Nat

/-! ### integer products -/

theorem prodLin_add (a m k : ℕ) : prodLin a (m + k) = prodLin a m * prodLin (a + m) k := by
  induction k with
  | zero => simp [prodLin]
  | succ k ih => rw [← Nat.add_assoc, prodLin, ih, prodLin]; ring

theorem prodTree_eq (d : ℕ) : ∀ a n, prodTree d a n = prodLin a n := by
  induction d with
  | zero => intro a n; rfl
  | succ d ih =>
    intro a n
    rw [prodTree]
    split
    · rfl
    · rw [ih, ih, ← prodLin_add]; congr 1; omega

theorem prodLin_eq_ascFactorial (a n : ℕ) : prodLin a n = a.ascFactorial n := by
  induction n with
  | zero => simp [prodLin]
  | succ n ih => rw [prodLin, ih, Nat.ascFactorial_succ]; ring

theorem factN_eq (n : ℕ) : factN n = n ! := by
  rw [factN, prodTree_eq, prodLin_eq_ascFactorial, Nat.one_ascFactorial]

theorem chooseM_eq (n k : ℕ) : chooseM n k = n.choose k := by
  unfold chooseM
  split
  · rename_i h; exact (Nat.choose_eq_zero_of_lt h).symm
  · rename_i h
    rw [prodTree_eq, prodLin_eq_ascFactorial, factN_eq, Nat.choose_eq_descFactorial_div_factorial]
    congr 1
    obtain ⟨m, rfl⟩ : ∃ m, n = m + k := ⟨n - k, by omega⟩
    rw [Nat.add_sub_cancel, Nat.add_descFactorial_eq_ascFactorial]

theorem dfact_eq : ∀ n, dfact n = n‼
  | 0 => rfl
  | 1 => rfl
  | n + 2 => by rw [dfact, Nat.doubleFactorial, dfact_eq n]

theorem superfacN_eq (n : ℕ) : superfacN n = Nat.superFactorial n := by
  induction n with
  | zero => rfl
  | succ n ih => rw [superfacN, Nat.superFactorial, ih, factN_eq]

/-- `hyperfacN n = Π_{k=1}^{n} k^k` -/
theorem hyperfacN_eq (n : ℕ) : hyperfacN n = ∏ k ∈ Finset.range n, (k + 1) ^ (k + 1) := by
  induction n with
  | zero => rfl
  | succ n ih => rw [hyperfacN, ih, Finset.prod_range_succ]; ring

/-- `superfacN n = Π_{k=1}^{n} k!` -/
theorem superfacN_eq_prod (n : ℕ) : superfacN n = ∏ k ∈ Finset.range n, (k + 1)! := by
  induction n with
  | zero => rfl
  | succ n ih => rw [superfacN, ih, Finset.prod_range_succ, factN_eq]; ring

theorem harmPQ_zero (a n : ℕ) (ha : 0 < a) :
    (harmPQ 0 a n).2 ≠ 0 ∧
      ((harmPQ 0 a n).1 : ℚ) / ((harmPQ 0 a n).2 : ℚ) = ∑ i ∈ Finset.range n, ((a + i : ℕ) : ℚ)⁻¹ := by
  unfold harmPQ
  induction n with
  | zero => simp
  | succ n ih =>
    rw [List.range_succ, List.foldl_append]
    simp only [List.foldl_cons, List.foldl_nil]
    obtain ⟨h1, h2⟩ := ih
    refine ⟨Nat.mul_ne_zero h1 (by omega), ?_⟩
    rw [Finset.sum_range_succ, ← h2]
    have h1' : (((List.range n).foldl (fun (pq : ℕ × ℕ) i => (pq.1 * (a + i) + pq.2, pq.2 * (a + i))) (0, 1)).2 : ℚ) ≠ 0 := by
      exact_mod_cast h1
    have h3 : ((a + n : ℕ) : ℚ) ≠ 0 := by exact_mod_cast (by omega : a + n ≠ 0)
    push_cast
    push_cast at h3
    field_simp

theorem harmPQ_spec (d : ℕ) : ∀ (a n : ℕ), 0 < a →
    (harmPQ d a n).2 ≠ 0 ∧
      ((harmPQ d a n).1 : ℚ) / ((harmPQ d a n).2 : ℚ) = ∑ i ∈ Finset.range n, ((a + i : ℕ) : ℚ)⁻¹ := by
  induction d with
  | zero => intro a n ha; exact harmPQ_zero a n ha
  | succ d ih =>
    intro a n ha
    rw [harmPQ]
    split
    · exact harmPQ_zero a n ha
    · obtain ⟨l1, l2⟩ := ih a (n / 2) ha
      obtain ⟨r1, r2⟩ := ih (a + n / 2) (n - n / 2) (by omega)
      refine ⟨Nat.mul_ne_zero l1 r1, ?_⟩
      have hn : n = n / 2 + (n - n / 2) := by omega
      conv_rhs => rw [hn, Finset.sum_range_add]
      have : ∀ i, ((a + (n / 2 + i) : ℕ) : ℚ)⁻¹ = ((a + n / 2 + i : ℕ) : ℚ)⁻¹ := by
        intro i; rw [Nat.add_assoc]
      simp only [this]
      rw [← l2, ← r2]
      have l1' : ((harmPQ d a (n / 2)).2 : ℚ) ≠ 0 := by exact_mod_cast l1
      have r1' : ((harmPQ d (a + n / 2) (n - n / 2)).2 : ℚ) ≠ 0 := by exact_mod_cast r1
      push_cast
      field_simp

theorem harmPQ_harmonic (d n : ℕ) :
    (harmPQ d 1 n).2 ≠ 0 ∧ ((harmPQ d 1 n).1 : ℚ) / ((harmPQ d 1 n).2 : ℚ) = harmonic n := by
  obtain ⟨h1, h2⟩ := harmPQ_spec d 1 n Nat.one_pos
  refine ⟨h1, ?_⟩
  rw [h2, harmonic]
  apply Finset.sum_congr rfl
  intro i _
  rw [Nat.add_comm]

/-! ### rising and falling factorials -/

theorem rfQ_eq (x : ℚ) (k : ℕ) : rfQ x k = (ascPochhammer ℚ k).eval x := by
  induction k with
  | zero => simp [rfQ]
  | succ k ih => rw [rfQ, ih, ascPochhammer_succ_eval]

theorem ffQ_eq (x : ℚ) (k : ℕ) : ffQ x k = (descPochhammer ℚ k).eval x := by
  induction k with
  | zero => simp [ffQ]
  | succ k ih => rw [ffQ, ih, descPochhammer_succ_eval]

/-! ### Γ at half-integers -/

theorem gamma_half_pos (m : ℕ) :
    Real.Gamma ((m : ℝ) + 1 / 2) = ((2 * m)! : ℝ) / ((4 : ℝ) ^ m * (m ! : ℝ)) * Real.sqrt Real.pi := by
  induction m with
  | zero => simpa using Real.Gamma_one_half_eq
  | succ m ih =>
    have h0 : ((m : ℝ) + 1 / 2) ≠ 0 := by positivity
    have : ((m + 1 : ℕ) : ℝ) + 1 / 2 = ((m : ℝ) + 1 / 2) + 1 := by push_cast; ring
    rw [this, Real.Gamma_add_one h0, ih]
    have e1 : 2 * (m + 1) = (2 * m + 1) + 1 := by ring
    rw [e1, Nat.factorial_succ (2 * m + 1), Nat.factorial_succ (2 * m), Nat.factorial_succ m]
    have hm : ((m ! : ℕ) : ℝ) ≠ 0 := by exact_mod_cast (Nat.factorial_ne_zero m)
    push_cast
    field_simp
    ring

theorem gamma_half_neg (m : ℕ) :
    Real.Gamma (1 / 2 - (m : ℝ)) = ((-4 : ℝ) ^ m * (m ! : ℝ)) / ((2 * m)! : ℝ) * Real.sqrt Real.pi := by
  induction m with
  | zero => simpa using Real.Gamma_one_half_eq
  | succ m ih =>
    have h0 : (1 / 2 - ((m + 1 : ℕ) : ℝ)) ≠ 0 := by
      push_cast
      have : (0 : ℝ) ≤ m := Nat.cast_nonneg m
      intro h; linarith
    have key := Real.Gamma_add_one h0
    have e : 1 / 2 - ((m + 1 : ℕ) : ℝ) + 1 = 1 / 2 - (m : ℝ) := by push_cast; ring
    rw [e, ih] at key
    have e1 : 2 * (m + 1) = (2 * m + 1) + 1 := by ring
    rw [e1, Nat.factorial_succ (2 * m + 1), Nat.factorial_succ (2 * m), Nat.factorial_succ m]
    have hm : (((2 * m)! : ℕ) : ℝ) ≠ 0 := by exact_mod_cast (Nat.factorial_ne_zero _)
    have h1 : ((2 * m + 1 + 1 : ℕ) : ℝ) ≠ 0 := by positivity
    have h2 : ((2 * m + 1 : ℕ) : ℝ) ≠ 0 := by positivity
    have key2 : Real.Gamma (1 / 2 - ((m + 1 : ℕ) : ℝ)) =
        ((-4 : ℝ) ^ m * (m ! : ℝ)) / ((2 * m)! : ℝ) * Real.sqrt Real.pi / (1 / 2 - ((m + 1 : ℕ) : ℝ)) :=
      eq_div_of_mul_eq h0 (by rw [mul_comm]; exact key.symm)
    rw [key2]
    push_cast at h0 h1 h2 ⊢
    have e3 : (1 / 2 - ((m : ℝ) + 1)) = -(2 * (m : ℝ) + 1) / 2 := by ring
    rw [e3]
    field_simp
    ring

/-- the real number denoted by a `GVal` -/
noncomputable def GVal.sem (g : GVal) : ℝ :=
  (g.num : ℝ) / (g.den : ℝ) * (Real.sqrt Real.pi) ^ (g.s : ℤ)

theorem sqrtPi_pos : 0 < Real.sqrt Real.pi := Real.sqrt_pos.2 Real.pi_pos

theorem sqrtPi_sq : Real.sqrt Real.pi ^ (2 : ℤ) = Real.pi := by
  rw [zpow_ofNat]; exact Real.sq_sqrt Real.pi_pos.le

theorem sqrtPiPow_sem (s : ℤ) : (sqrtPiPow s).sem = (Real.sqrt Real.pi) ^ s := by
  have hs : s = 2 * (s / 2) + s % 2 := (Int.mul_ediv_add_emod s 2).symm
  have hpa : (if 0 ≤ s / 2 then SExpr.pow SExpr.pi (s / 2).toNat
      else SExpr.inv (SExpr.pow SExpr.pi (-(s / 2)).toNat)).sem = Real.pi ^ (s / 2) := by
    split
    · rename_i h
      simp only [SExpr.sem]
      conv_rhs => rw [← Int.toNat_of_nonneg h]
      rw [zpow_natCast]
    · rename_i h
      simp only [SExpr.sem]
      have : s / 2 = -((-(s / 2)).toNat : ℤ) := by omega
      conv_rhs => rw [this]
      rw [zpow_neg, zpow_natCast]
  have hpi : Real.pi ^ (s / 2) = (Real.sqrt Real.pi) ^ (2 * (s / 2)) := by
    rw [zpow_mul, sqrtPi_sq]
  unfold sqrtPiPow
  simp only
  split
  · rename_i hb
    rw [hpa, hpi]
    congr 1; omega
  · rename_i hb
    have hb1 : s % 2 = 1 := by omega
    simp only [SExpr.sem]
    rw [hpa, hpi]
    conv_rhs => rw [hs, hb1, zpow_add₀ sqrtPi_pos.ne', zpow_one]

theorem GVal.toExpr_sem (g : GVal) : g.toExpr.sem = g.sem := by
  unfold GVal.toExpr GVal.sem
  split
  · rename_i h; simp [SExpr.sem, h]
  · simp only [SExpr.sem, sqrtPiPow_sem]

theorem GVal.mul_sem (a b : GVal) : (a.mul b).sem = a.sem * b.sem := by
  unfold GVal.mul GVal.sem
  simp only
  rw [zpow_add₀ sqrtPi_pos.ne']
  push_cast
  ring

theorem GVal.one_sem : GVal.one.sem = 1 := by simp [GVal.one, GVal.sem]

theorem GVal.inv_sem (a : GVal) : a.inv.sem = (a.sem)⁻¹ := by
  unfold GVal.inv GVal.sem
  simp only
  rw [mul_inv, zpow_neg, inv_div]
  congr 1
  rcases lt_or_ge a.num 0 with h | h
  · rw [if_pos h]
    have : (a.num.natAbs : ℝ) = -(a.num : ℝ) := by
      have h' : (a.num.natAbs : ℤ) = -a.num := by omega
      rw [← Int.cast_natCast (R := ℝ) a.num.natAbs, h']; push_cast; rfl
    rw [this]; push_cast; rw [neg_div_neg_eq]
  · rw [if_neg (by omega)]
    have : (a.num.natAbs : ℝ) = (a.num : ℝ) := by
      have h' : (a.num.natAbs : ℤ) = a.num := by omega
      rw [← Int.cast_natCast (R := ℝ) a.num.natAbs, h']
    rw [this]; push_cast; rfl

/-- **Γ at integers and half-integers**: whenever `gammaQ h` returns a value it is `Real.Gamma (h/2)`,
it is non-zero, and its denominator is non-zero -/
theorem gammaQ_spec (h : ℤ) (g : GVal) (hg : gammaQ h = some g) :
    Real.Gamma ((h : ℝ) / 2) = g.sem ∧ g.den ≠ 0 ∧ g.num ≠ 0 := by
  unfold gammaQ at hg
  split at hg
  · rename_i he
    split at hg
    · simp at hg
    · rename_i hpos
      simp only [Option.some.injEq] at hg; subst hg
      obtain ⟨k, hk⟩ : ∃ k : ℕ, h = 2 * ((k : ℤ) + 1) := ⟨(h / 2 - 1).toNat, by omega⟩
      have hk2 : (h / 2 - 1).toNat = k := by omega
      refine ⟨?_, by simp, ?_⟩
      · simp only [GVal.sem, hk2, factN_eq]
        have : (h : ℝ) / 2 = (k : ℝ) + 1 := by rw [hk]; push_cast; ring
        rw [this, Real.Gamma_nat_eq_factorial]; simp
      · simp only [factN_eq]; exact_mod_cast (Nat.factorial_ne_zero _)
  · rename_i ho
    simp only at hg
    split at hg
    · rename_i hn
      simp only [Option.some.injEq] at hg; subst hg
      obtain ⟨m, hm⟩ : ∃ m : ℕ, h = 2 * (m : ℤ) + 1 := ⟨((h - 1) / 2).toNat, by omega⟩
      have hm2 : ((h - 1) / 2).toNat = m := by omega
      refine ⟨?_, ?_, ?_⟩
      · simp only [GVal.sem, hm2, factN_eq]
        have : (h : ℝ) / 2 = (m : ℝ) + 1 / 2 := by rw [hm]; push_cast; ring
        rw [this, gamma_half_pos]; push_cast; simp
      · simp only [factN_eq]; exact Nat.mul_ne_zero (by positivity) (Nat.factorial_ne_zero _)
      · simp only [factN_eq]; exact_mod_cast (Nat.factorial_ne_zero _)
    · rename_i hn
      simp only [Option.some.injEq] at hg; subst hg
      obtain ⟨m, hm⟩ : ∃ m : ℕ, h = 1 - 2 * (m : ℤ) := ⟨(-((h - 1) / 2)).toNat, by omega⟩
      have hm2 : (-((h - 1) / 2)).toNat = m := by omega
      refine ⟨?_, ?_, ?_⟩
      · simp only [GVal.sem, hm2, factN_eq]
        have : (h : ℝ) / 2 = 1 / 2 - (m : ℝ) := by rw [hm]; push_cast; ring
        rw [this, gamma_half_neg]; push_cast; simp
      · simp only [factN_eq]; exact Nat.factorial_ne_zero _
      · simp only [factN_eq]
        exact mul_ne_zero (pow_ne_zero _ (by norm_num)) (by exact_mod_cast (Nat.factorial_ne_zero _))

theorem isPoleH_iff (h : ℤ) : isPoleH h = true ↔ ∃ m : ℕ, (h : ℝ) / 2 = -(m : ℝ) := by
  unfold isPoleH
  simp only [Bool.and_eq_true, decide_eq_true_eq]
  constructor
  · rintro ⟨h1, h2⟩
    obtain ⟨k, hk⟩ : ∃ k : ℕ, h = -2 * (k : ℤ) := ⟨(-(h / 2)).toNat, by omega⟩
    refine ⟨k, ?_⟩
    rw [hk]; push_cast; ring
  · rintro ⟨m, hm⟩
    have : (h : ℝ) = ((-2 * (m : ℤ) : ℤ) : ℝ) := by push_cast; linarith
    have h2 : h = -2 * (m : ℤ) := by exact_mod_cast this
    omega

theorem gammaQ_none_iff (h : ℤ) : gammaQ h = none ↔ isPoleH h = true := by
  unfold gammaQ isPoleH
  simp only [Bool.and_eq_true, decide_eq_true_eq]
  by_cases he : h % 2 = 0
  · by_cases hle : h ≤ 0
    · simp [he, hle]
    · simp [he, hle]
  · simp only [he, if_false, false_and, iff_false]
    split <;> simp

/-- **poles**: `gammaQ h = none` exactly when `h/2` is a pole of Γ, i.e. (Mathlib's convention) `Real.Gamma (h/2) = 0` -/
theorem gammaQ_none_iff_Gamma_zero (h : ℤ) : gammaQ h = none ↔ Real.Gamma ((h : ℝ) / 2) = 0 := by
  rw [gammaQ_none_iff, isPoleH_iff, Real.Gamma_eq_zero_iff]

theorem ratE_sem (q : ℚ) : (ratE q).sem = (q : ℝ) := by
  simp only [ratE, SExpr.sem]
  rw [Rat.cast_def]

theorem gammaProdRegular_aux (hs : List ℤ) (hn : ∀ h ∈ hs, isPoleH h = false) : ∀ acc : GVal,
    (hs.foldl gammaStep acc).sem
      = acc.sem * (hs.map (fun h : ℤ => Real.Gamma ((h : ℝ) / 2))).prod := by
  induction hs with
  | nil => intro acc; simp
  | cons h hs ih =>
    intro acc
    rw [List.foldl_cons, ih (fun x hx => hn x (List.mem_cons_of_mem _ hx)), List.map_cons, List.prod_cons]
    unfold gammaStep
    cases hg : gammaQ h with
    | none =>
      have := (gammaQ_none_iff h).1 hg
      rw [hn h List.mem_cons_self] at this
      exact absurd this (by simp)
    | some g =>
      simp only
      rw [GVal.mul_sem, (gammaQ_spec h g hg).1]; ring

theorem gammaProdRegular_sem (hs : List ℤ) (hn : ∀ h ∈ hs, isPoleH h = false) :
    (gammaProdRegular hs).sem = (hs.map (fun h : ℤ => Real.Gamma ((h : ℝ) / 2))).prod := by
  rw [gammaProdRegular, gammaProdRegular_aux hs hn, GVal.one_sem, one_mul]

theorem prod_Gamma_eq_zero_of_pole (hs : List ℤ) (hp : 0 < (hs.filter isPoleH).length) :
    (hs.map (fun h : ℤ => Real.Gamma ((h : ℝ) / 2))).prod = 0 := by
  obtain ⟨h, hh⟩ := List.exists_mem_of_length_pos hp
  rw [List.mem_filter] at hh
  apply List.prod_eq_zero
  rw [List.mem_map]
  exact ⟨h, hh.1, (gammaQ_none_iff_Gamma_zero h).1 ((gammaQ_none_iff h).2 hh.2)⟩

end Mp.SpecRef
