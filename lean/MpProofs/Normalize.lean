/-
  MpProofs/Normalize.lean — `_normalize` / `_normalize1` / `from_man_exp` meet `RoundOK`.
-/
import MpProofs.Format

namespace Mp

variable {K : Type*} [Field K] [LinearOrder K] [IsStrictOrderedRing K]

/-! ### the integer rounding step -/

theorem roundShift_down {rnd : Rnd} {sign : Nat} (hr : rnd ≠ .n) (hd : shiftsDown rnd sign = true)
    (man n : Nat) : roundShift rnd sign man n = man / 2 ^ n := by
  cases rnd <;> simp_all [roundShift, Nat.shiftRight_eq_div_pow]

theorem roundShift_up {rnd : Rnd} {sign : Nat} (hd : shiftsDown rnd sign = false)
    (man n : Nat) : roundShift rnd sign man n = (man + 2 ^ n - 1) / 2 ^ n := by
  cases rnd <;> simp_all [roundShift, Nat.shiftRight_eq_div_pow, shiftsDown]

theorem ceil_div_eq (man n : Nat) :
    (man + 2 ^ n - 1) / 2 ^ n = if man % 2 ^ n = 0 then man / 2 ^ n else man / 2 ^ n + 1 := by
  have hpos : 0 < 2 ^ n := Nat.two_pow_pos n
  generalize 2 ^ n = d at *
  have h1 := Nat.div_add_mod man d
  have h2 := Nat.mod_lt man hpos
  split
  · rename_i h0
    have : man + d - 1 = d * (man / d) + (d - 1) := by rw [h0] at h1; omega
    rw [this, Nat.mul_add_div hpos]
    have : (d - 1) / d = 0 := Nat.div_eq_of_lt (by omega)
    omega
  · rename_i h0
    have : man + d - 1 = d * (man / d + 1) + (man % d - 1) := by
      have : d * (man / d + 1) = d * (man / d) + d := by ring
      omega
    rw [this, Nat.mul_add_div hpos]
    have : (man % d - 1) / d = 0 := Nat.div_eq_of_lt (by omega)
    omega

theorem roundShift_near (sign man : Nat) {n : Nat} (hn : 0 < n) :
    roundShift .n sign man n =
      if 2 ^ n < 2 * (man % 2 ^ n) ∨ (2 * (man % 2 ^ n) = 2 ^ n ∧ (man / 2 ^ n) % 2 = 1)
      then man / 2 ^ n + 1 else man / 2 ^ n := by
  obtain ⟨k, rfl⟩ : ∃ k, n = k + 1 := ⟨n - 1, by omega⟩
  simp only [roundShift, Nat.add_sub_cancel, Nat.shiftRight_eq_div_pow]
  have hpos : 0 < 2 ^ k := Nat.two_pow_pos k
  have e2 : 2 ^ (k + 1) = 2 ^ k * 2 := pow_succ 2 k
  rw [e2]
  generalize 2 ^ k = h at *
  have d1 : man / h / 2 = man / (h * 2) := Nat.div_div_eq_div_mul man h 2
  have d2 : man / h % 2 = man % (h * 2) / h := (Nat.mod_mul_right_div_self man h 2).symm
  have d3 : man % h = man % (h * 2) % h := (Nat.mod_mul_right_mod man h 2).symm
  have hr := Nat.mod_lt man (show 0 < h * 2 by omega)
  have h4 := Nat.div_add_mod (man % (h * 2)) h
  have h5 := Nat.mod_lt (man % (h * 2)) hpos
  simp only [pow_one, d1, d2, d3]
  generalize man % (h * 2) = r at *
  generalize man / (h * 2) = q at *
  have hb : r / h = 0 ∨ r / h = 1 := by
    have : r / h < 2 := Nat.div_lt_of_lt_mul (by omega)
    omega
  rcases hb with hb | hb <;> rw [hb] at h4 ⊢ <;> simp only [Nat.mul_zero, Nat.mul_one, Nat.zero_add] at h4
  · have : ¬ (h * 2 < 2 * r ∨ 2 * r = h * 2 ∧ q % 2 = 1) := by omega
    simp [this]
  · by_cases c : q % 2 = 1 ∨ r % h ≠ 0
    · have : (h * 2 < 2 * r ∨ 2 * r = h * 2 ∧ q % 2 = 1) := by omega
      simp [this, c]
    · have : ¬ (h * 2 < 2 * r ∨ 2 * r = h * 2 ∧ q % 2 = 1) := by omega
      simp only [this, if_false]
      simp only [ne_eq] at c
      simp [c]

/-- the value produced by the rounding step lies between the cell ends -/
theorem roundShift_range (rnd : Rnd) (sign man : Nat) {n : Nat} (hn : 0 < n) :
    man / 2 ^ n ≤ roundShift rnd sign man n ∧ roundShift rnd sign man n ≤ man / 2 ^ n + 1 := by
  by_cases hr : rnd = .n
  · subst hr; rw [roundShift_near sign man hn]; split <;> omega
  · cases hd : shiftsDown rnd sign
    · rw [roundShift_up hd, ceil_div_eq]; split <;> omega
    · rw [roundShift_down hr hd]; omega

/-! ### value-level rounding of a positive mantissa -/

/-- the magnitude-level direction a mode takes for a given sign -/
theorem isRound_of_mag {p : ℕ} (rnd : Rnd) {sign : Nat} (hs : sign ≤ 1) {X y : K} (hX : 0 < X)
    (hdown : rnd ≠ .n → shiftsDown rnd sign = true → IsRoundF p X y)
    (hup : shiftsDown rnd sign = false → IsRoundC p X y)
    (hnear : rnd = .n → IsRoundN p X y) :
    IsRound p rnd ((-1 : K) ^ sign * X) ((-1 : K) ^ sign * y) := by
  have hs' : sign = 0 ∨ sign = 1 := by omega
  rcases hs' with rfl | rfl
  · simp only [pow_zero, one_mul]
    cases rnd <;> simp only [IsRound, hX.le, if_true]
    · exact hnear rfl
    · exact hdown (by decide) (by decide)
    · exact hup (by decide)
    · exact hup (by decide)
    · exact hdown (by decide) (by decide)
  · simp only [pow_one, neg_one_mul]
    have hneg : ¬ (0 ≤ -X) := by linarith
    cases rnd <;> simp only [IsRound, hneg, if_false]
    · exact isRoundN_neg.2 (hnear rfl)
    · exact isRoundF_neg.2 (hup (by decide))
    · exact isRoundC_neg.2 (hdown (by decide) (by decide))
    · exact isRoundF_neg.2 (hup (by decide))
    · exact isRoundC_neg.2 (hdown (by decide) (by decide))

/-- `X` rounds like the `p+n`-bit mantissa `man` (at exponent `exp`) does: it sits in the same
`p`-bit cell `[q·2^E, (q+1)·2^E]` (`q = man / 2^n`, `E = exp+n`), on the same side of the midpoint. -/
structure CellLike (p n man : ℕ) (exp : ℤ) (X : K) : Prop where
  exact : man % 2 ^ n = 0 → X = ((man / 2 ^ n : ℕ) : K) * 2 ^ (exp + n)
  inside : man % 2 ^ n ≠ 0 →
    ((man / 2 ^ n : ℕ) : K) * 2 ^ (exp + n) < X ∧ X < (((man / 2 ^ n : ℕ) : K) + 1) * 2 ^ (exp + n)
  lo : 2 * (man % 2 ^ n) < 2 ^ n →
    X - ((man / 2 ^ n : ℕ) : K) * 2 ^ (exp + n) < (((man / 2 ^ n : ℕ) : K) + 1) * 2 ^ (exp + n) - X
  hi : 2 ^ n < 2 * (man % 2 ^ n) →
    (((man / 2 ^ n : ℕ) : K) + 1) * 2 ^ (exp + n) - X < X - ((man / 2 ^ n : ℕ) : K) * 2 ^ (exp + n)
  tie : 2 * (man % 2 ^ n) = 2 ^ n →
    X - ((man / 2 ^ n : ℕ) : K) * 2 ^ (exp + n) = (((man / 2 ^ n : ℕ) : K) + 1) * 2 ^ (exp + n) - X

/-- decomposition of the exact value along the cell -/
theorem man_cell_decomp (man n : ℕ) (exp : ℤ) :
    (man : K) * 2 ^ exp = ((man / 2 ^ n : ℕ) : K) * 2 ^ (exp + n) + ((man % 2 ^ n : ℕ) : K) * 2 ^ exp := by
  have hdm := Nat.div_add_mod man (2 ^ n)
  have hE : (2 : K) ^ (exp + n) = 2 ^ exp * 2 ^ n := by rw [zpow_add₀ (by norm_num), zpow_natCast]
  have hmanQ : (man : K) = 2 ^ n * ((man / 2 ^ n : ℕ) : K) + ((man % 2 ^ n : ℕ) : K) := by exact_mod_cast hdm.symm
  rw [hE]; conv_lhs => rw [hmanQ]
  ring

/-- the exact value is, of course, like itself -/
theorem cellLike_exact (p n man : ℕ) (exp : ℤ) : CellLike p n man exp ((man : K) * 2 ^ exp) := by
  have hml := Nat.mod_lt man (Nat.two_pow_pos n)
  have hE : (2 : K) ^ (exp + n) = 2 ^ exp * 2 ^ n := by rw [zpow_add₀ (by norm_num), zpow_natCast]
  have he : (0 : K) < 2 ^ exp := two_zpow_pos exp
  have hX := man_cell_decomp (K := K) man n exp
  set q := man / 2 ^ n
  set r := man % 2 ^ n
  have hrQ : (r : K) < 2 ^ n := by exact_mod_cast hml
  have hr0 : (0 : K) ≤ r := by positivity
  refine ⟨fun h0 => ?_, fun h0 => ?_, fun h => ?_, fun h => ?_, fun h => ?_⟩
  · rw [hX]; have : (r : K) = 0 := by exact_mod_cast h0
    rw [this]; ring
  · have hrpos : (0 : K) < r := by
      have : 0 < r := Nat.pos_of_ne_zero h0
      exact_mod_cast this
    constructor
    · rw [hX]; nlinarith
    · rw [hX, hE]; nlinarith
  · have : 2 * (r : K) < (2 : K) ^ n := by exact_mod_cast h
    rw [hX, hE]; nlinarith
  · have : (2 : K) ^ n < 2 * r := by exact_mod_cast h
    rw [hX, hE]; nlinarith
  · have : 2 * (r : K) = (2 : K) ^ n := by exact_mod_cast h
    rw [hX, hE]; nlinarith

/-- **sticky principle**: if `X` and the stand-in `man·2^exp` lie strictly inside one cell
`(S·2^w, (S+1)·2^w)` with `S ≥ 2^p` (a cell too fine to contain any `p+1`-bit number), then `X`
rounds to `p` bits exactly like the stand-in does. -/
theorem cellLike_of_cell {p n man : ℕ} (hp : 0 < p) (hn : 0 < n) (hbc : bitcount man = p + n) (exp : ℤ)
    {S : ℕ} {w : ℤ} (hS : 2 ^ p ≤ S) {X : K}
    (hY1 : (S : K) * 2 ^ w < (man : K) * 2 ^ exp) (hY2 : (man : K) * 2 ^ exp < ((S : K) + 1) * 2 ^ w)
    (hX1 : (S : K) * 2 ^ w < X) (hX2 : X < ((S : K) + 1) * 2 ^ w) : CellLike p n man exp X := by
  have hq : bitcount (man / 2 ^ n) = p := by rw [bitcount_div (by omega)]; omega
  have hq2 : man / 2 ^ n < 2 ^ p := by have := bitcount_lt (man / 2 ^ n); rwa [hq] at this
  have hml := Nat.mod_lt man (Nat.two_pow_pos n)
  have hE : (2 : K) ^ (exp + n) = 2 ^ exp * 2 ^ n := by rw [zpow_add₀ (by norm_num), zpow_natCast]
  have he : (0 : K) < 2 ^ exp := two_zpow_pos exp
  have hY := man_cell_decomp (K := K) man n exp
  set q := man / 2 ^ n
  set r := man % 2 ^ n
  have hrQ : (r : K) < 2 ^ n := by exact_mod_cast hml
  have hr0 : (0 : K) ≤ r := by positivity
  have hS' : 2 ^ (p + 1 - 1) ≤ S := by simpa using hS
  -- the three landmarks of the p-cell are (p+1)-bit numbers, hence outside the fine cell
  have hP0 : Repb (p + 1) ((q : K) * 2 ^ (exp + n)) :=
    repb_nat (lt_of_lt_of_le hq2 (Nat.pow_le_pow_right (by norm_num) (by omega))) _
  have hP1 : Repb (p + 1) (((q : K) + 1) * 2 ^ (exp + n)) := by
    have : ((q : K) + 1) = ((q + 1 : ℕ) : K) := by push_cast; ring
    rw [this]
    exact repb_nat (by rw [pow_succ]; have := Nat.two_pow_pos p; omega) _
  have hPm : Repb (p + 1) (((2 * q + 1 : ℕ) : K) * 2 ^ (exp + n - 1)) :=
    repb_nat (by rw [pow_succ]; have := Nat.two_pow_pos p; omega) _
  have hmid : ((2 * q + 1 : ℕ) : K) * 2 ^ (exp + n - 1) * 2 = (q : K) * 2 ^ (exp + n) + ((q : K) + 1) * 2 ^ (exp + n) := by
    have : (2 : K) ^ (exp + n) = 2 ^ (exp + n - 1) * 2 := by
      rw [← zpow_add_one₀ (by norm_num : (2 : K) ≠ 0)]; congr 1; ring
    rw [this]; push_cast; ring
  have o0 := repb_outside_cell (by omega : 0 < p + 1) hS' (E := w) hP0
  have o1 := repb_outside_cell (by omega : 0 < p + 1) hS' (E := w) hP1
  have om := repb_outside_cell (by omega : 0 < p + 1) hS' (E := w) hPm
  have hYlo : (q : K) * 2 ^ (exp + n) ≤ (man : K) * 2 ^ exp := by rw [hY]; nlinarith
  have hYhi : (man : K) * 2 ^ exp < ((q : K) + 1) * 2 ^ (exp + n) := by rw [hY, hE]; nlinarith
  have h0 : (q : K) * 2 ^ (exp + n) ≤ (S : K) * 2 ^ w := by
    rcases o0 with h | h
    · exact h
    · linarith
  have h1 : ((S : K) + 1) * 2 ^ w ≤ ((q : K) + 1) * 2 ^ (exp + n) := by
    rcases o1 with h | h
    · linarith
    · exact h
  have hYm : (man : K) * 2 ^ exp * 2 - ((q : K) * 2 ^ (exp + n) + ((q : K) + 1) * 2 ^ (exp + n))
      = (2 * (r : K) - 2 ^ n) * 2 ^ exp := by rw [hY, hE]; ring
  refine ⟨fun hr => ?_, fun _ => ⟨by linarith, by linarith⟩, fun h => ?_, fun h => ?_, fun h => ?_⟩
  · exfalso
    have : (r : K) = 0 := by exact_mod_cast hr
    rw [this] at hY; linarith
  · have hlt : 2 * (r : K) < (2 : K) ^ n := by exact_mod_cast h
    have hprod : (2 * (r : K) - 2 ^ n) * 2 ^ exp < 0 := mul_neg_of_neg_of_pos (by linarith) he
    rcases om with h' | h' <;> linarith
  · have hlt : (2 : K) ^ n < 2 * r := by exact_mod_cast h
    have hprod : 0 < (2 * (r : K) - 2 ^ n) * 2 ^ exp := mul_pos (by linarith) he
    rcases om with h' | h' <;> linarith
  · exfalso
    have heq : 2 * (r : K) = (2 : K) ^ n := by exact_mod_cast h
    have hprod : (2 * (r : K) - 2 ^ n) * 2 ^ exp = 0 := by rw [heq]; ring
    rcases om with h' | h' <;> linarith

/-- Rounding a positive mantissa with `p + n` bits down to `p` bits by the inline rounding step,
for the exact value or any value that is `CellLike` it. -/
theorem roundShift_isRound {p : ℕ} (hp : 0 < p) (rnd : Rnd) {sign : Nat} (hs : sign ≤ 1)
    {man n : Nat} (hn : 0 < n) (hbc : bitcount man = p + n) (exp : ℤ) {X : K}
    (hX : CellLike p n man exp X) :
    IsRound p rnd ((-1 : K) ^ sign * X)
      ((-1 : K) ^ sign * ((roundShift rnd sign man n : K) * 2 ^ (exp + n))) ∧
    2 ^ (p - 1) ≤ roundShift rnd sign man n ∧ roundShift rnd sign man n ≤ 2 ^ p := by
  have hman : man ≠ 0 := by intro h; rw [h] at hbc; simp at hbc; omega
  have hq : bitcount (man / 2 ^ n) = p := by rw [bitcount_div (by omega)]; omega
  have hq0 : man / 2 ^ n ≠ 0 := by intro h; rw [h] at hq; simp at hq; omega
  have hq1 : 2 ^ (p - 1) ≤ man / 2 ^ n := by have := bitcount_le hq0; rwa [hq] at this
  have hq2 : man / 2 ^ n < 2 ^ p := by have := bitcount_lt (man / 2 ^ n); rwa [hq] at this
  have hrange := roundShift_range rnd sign man hn
  refine ⟨?_, by omega, by omega⟩
  obtain ⟨hex, hin, hlo', hhi', htie⟩ := hX
  set q := man / 2 ^ n with hqdef
  set r := man % 2 ^ n with hrdef
  have hqpos : (0 : K) < (q : K) * 2 ^ (exp + n) := by
    have : (0 : K) < q := by exact_mod_cast Nat.pos_of_ne_zero hq0
    have := two_zpow_pos (K := K) (exp + n)
    positivity
  have hXpos : (0 : K) < X := by
    by_cases h0 : r = 0
    · rw [hex h0]; exact hqpos
    · exact lt_trans hqpos (hin h0).1
  have hlo : (q : K) * 2 ^ (exp + n) ≤ X := by
    by_cases h0 : r = 0
    · rw [hex h0]
    · exact (hin h0).1.le
  have hhi : X < ((q : K) + 1) * 2 ^ (exp + n) := by
    by_cases h0 : r = 0
    · rw [hex h0]; have := two_zpow_pos (K := K) (exp + n); nlinarith
    · exact (hin h0).2
  apply isRound_of_mag rnd hs hXpos
  · intro hr hd
    rw [roundShift_down hr hd]
    exact isRoundF_of_cell hp hq1 hq2 hlo hhi
  · intro hd
    rw [roundShift_up hd, ceil_div_eq]
    split
    · rename_i h0
      rw [hex h0]; exact isRoundC_self (repb_nat hq2 _)
    · rename_i h0
      have : ((q + 1 : ℕ) : K) = (q : K) + 1 := by push_cast; ring
      rw [this]
      exact isRoundC_of_cell hp hq1 hq2 (hin h0).1 hhi.le
  · intro hr; subst hr
    rw [roundShift_near sign man hn]
    split
    · rename_i hc
      have : ((q + 1 : ℕ) : K) = (q : K) + 1 := by push_cast; ring
      rw [this]
      rcases hc with hc | ⟨hc, hodd⟩
      · exact isRoundN_of_cell_hi hp hq1 hq2 hlo hhi.le (hhi' hc)
      · exact isRoundN_of_cell_tie_odd hp hq1 hq2 (htie hc) hodd
    · rename_i hc
      push_neg at hc
      obtain ⟨hc1, hc2⟩ := hc
      rcases Nat.lt_or_eq_of_le hc1 with hlt | heq
      · exact isRoundN_of_cell_lo hp hq1 hq2 hlo hhi.le (hlo' hlt)
      · apply isRoundN_of_cell_tie_even hp hq1 hq2 (htie heq)
        have := hc2 heq; omega

/-! ### stripping trailing zeros -/

theorem valK_mk (s m : Nat) (e b : Int) : valK K ⟨s, m, e, b⟩ = (-1 : K) ^ s * ((m : K) * 2 ^ e) := by
  simp [valK, mul_assoc]

theorem val_eq_valK (x : Mpf) : val x = valK ℚ x := rfl

theorem val_mk (s m : Nat) (e b : Int) : val ⟨s, m, e, b⟩ = (-1 : ℚ) ^ s * ((m : ℚ) * 2 ^ e) := by
  simp [val, mul_assoc]

theorem stripTrailing_valK (s m : Nat) (e b : Int) :
    valK K (stripTrailing s m e b) = (-1 : K) ^ s * ((m : K) * 2 ^ e) := by
  simp only [stripTrailing, valK_mk]
  congr 1
  have h := shiftRight_trailing_mul m
  have hQ : ((m >>> trailing m : ℕ) : K) * 2 ^ trailing m = m := by exact_mod_cast h
  rw [zpow_add₀ (by norm_num), zpow_natCast]
  calc ((m >>> trailing m : ℕ) : K) * (2 ^ e * 2 ^ trailing m)
      = (((m >>> trailing m : ℕ) : K) * 2 ^ trailing m) * 2 ^ e := by ring
    _ = (m : K) * 2 ^ e := by rw [hQ]

theorem stripTrailing_val (s m : Nat) (e b : Int) :
    val (stripTrailing s m e b) = (-1 : ℚ) ^ s * ((m : ℚ) * 2 ^ e) := stripTrailing_valK s m e b

/-- stripping gives a canonical finite tuple provided the recorded bit count is right
(or the mantissa is a power of two, where the `man == 1` repair applies). -/
theorem stripTrailing_canon {s m : Nat} (hs : s ≤ 1) (hm : m ≠ 0) (e : Int) {b : Int}
    (hb : b = (bitcount m : Int) ∨ ∃ k, m = 2 ^ k) :
    CanonFin (stripTrailing s m e b) ∧ (stripTrailing s m e b).bc ≤ max b 1 := by
  have hodd := trailing_odd hm
  have hbc := bitcount_shiftRight_trailing hm
  have htl := trailing_lt_bitcount hm
  simp only [stripTrailing, Nat.shiftRight_eq_div_pow] at *
  constructor
  · right
    refine ⟨hs, hodd, ?_⟩
    show (if m / 2 ^ trailing m = 1 then (1 : Int) else b - trailing m) = _
    split
    · rename_i h1; rw [h1]; simp [bitcount_one]
    · rename_i h1
      rcases hb with hb | ⟨k, hk⟩
      · rw [hb, hbc]; omega
      · exfalso
        -- m = 2^k, stripped mantissa is odd, hence 1
        apply h1
        have hdvd := trailing_dvd m
        rw [hk] at hdvd hodd ⊢
        have hle : trailing (2 ^ k) ≤ k := (Nat.pow_dvd_pow_iff_le_right (by norm_num)).1 hdvd
        rw [Nat.pow_div hle (by norm_num)] at hodd ⊢
        rcases Nat.eq_zero_or_pos (k - trailing (2 ^ k)) with h0 | hpos
        · rw [h0]
        · obtain ⟨j, hj⟩ : ∃ j, k - trailing (2 ^ k) = j + 1 := ⟨k - trailing (2 ^ k) - 1, by omega⟩
          rw [hj, pow_succ] at hodd; omega
  · show (if m / 2 ^ trailing m = 1 then (1 : Int) else b - trailing m) ≤ max b 1
    split
    · exact le_max_right _ _
    · have : b - (trailing m : Int) ≤ b := by omega
      exact le_trans this (le_max_left _ _)

/-! ### normalize -/

theorem canonFin_fzero : CanonFin fzero := Or.inl rfl

theorem valK_fzero : valK K fzero = 0 := by simp [valK, fzero]

theorem val_fzero : val fzero = 0 := by simp [val, fzero]

theorem isRound_zero (p : ℕ) (rnd : Rnd) : IsRound p rnd (0 : K) 0 := isRound_self rnd (repb_zero p)

theorem repb_of_bitcount_le {p : ℕ} {m : ℕ} (h : bitcount m ≤ p) (s : ℕ) (e : ℤ) :
    Repb p ((-1 : K) ^ s * ((m : K) * 2 ^ e)) := by
  have hm : m < 2 ^ p := lt_of_lt_of_le (bitcount_lt m) (Nat.pow_le_pow_right (by norm_num) h)
  rcases Nat.even_or_odd s with hs | hs
  · rw [hs.neg_one_pow, one_mul]; exact repb_nat hm e
  · rw [hs.neg_one_pow, neg_one_mul]; exact (repb_nat hm e).neg

/-- core of the `_normalize` proofs: whatever value `X` the rounding *step* is known to round
correctly, the whole function (rounding, stripping, bit-count repair) rounds correctly. -/
theorem normalize_round_core {sign : Nat} (hs : sign ≤ 1) (man : Nat) (exp : Int) {prec : Int}
    (hp : 0 < prec) (rnd : Rnd) (X : K)
    (hfit : (bitcount man : Int) ≤ prec → X = (man : K) * 2 ^ exp)
    (hstep : ∀ n : ℕ, 0 < n → bitcount man = prec.toNat + n →
      IsRound prec.toNat rnd ((-1 : K) ^ sign * X)
        ((-1 : K) ^ sign * ((roundShift rnd sign man n : K) * 2 ^ (exp + n)))) :
    CanonFin (normalize sign man exp (bitcount man) prec rnd) ∧
    (normalize sign man exp (bitcount man) prec rnd).bc ≤ prec ∧
    IsRound prec.toNat rnd ((-1 : K) ^ sign * X) (valK K (normalize sign man exp (bitcount man) prec rnd)) := by
  unfold normalize
  split
  · rename_i h0
    subst h0
    have hX : X = 0 := by rw [hfit (by simp; omega)]; simp
    refine ⟨canonFin_fzero, by simp [fzero]; omega, ?_⟩
    rw [hX, valK_fzero, mul_zero]
    exact isRound_zero _ _
  · rename_i h0
    obtain ⟨p, rfl⟩ : ∃ p : ℕ, prec = p := ⟨prec.toNat, by omega⟩
    have hp' : 0 < p := by omega
    simp only [Int.toNat_natCast] at hstep ⊢
    split
    · rename_i hn
      obtain ⟨n, hn'⟩ : ∃ n : ℕ, (bitcount man : Int) - p = n := ⟨((bitcount man : Int) - p).toNat, by omega⟩
      have hnpos : 0 < n := by omega
      have hbc : bitcount man = p + n := by omega
      have hr := hstep n hnpos hbc
      have hrange := roundShift_range rnd sign man hnpos
      have hq : bitcount (man / 2 ^ n) = p := by rw [bitcount_div (by omega)]; omega
      have hq0 : man / 2 ^ n ≠ 0 := by intro h; rw [h] at hq; simp at hq; omega
      have hq1 : 2 ^ (p - 1) ≤ man / 2 ^ n := by have := bitcount_le hq0; rwa [hq] at this
      have hq2 : man / 2 ^ n < 2 ^ p := by have := bitcount_lt (man / 2 ^ n); rwa [hq] at this
      have hr1 : 2 ^ (p - 1) ≤ roundShift rnd sign man n := by omega
      have hr2 : roundShift rnd sign man n ≤ 2 ^ p := by omega
      rw [hn', Int.toNat_natCast]
      have hq0 : roundShift rnd sign man n ≠ 0 := by
        have := Nat.two_pow_pos (p - 1); omega
      have hcanon := stripTrailing_canon hs hq0 (exp + n) (b := (p : Int)) (by
        rcases Nat.lt_or_eq_of_le hr2 with hlt | heq
        · left
          have : bitcount (roundShift rnd sign man n) = p := by
            have := bitcount_eq hr1 (by rwa [Nat.sub_add_cancel hp'])
            omega
          rw [this]
        · right; exact ⟨p, heq⟩)
      refine ⟨hcanon.1, ?_, ?_⟩
      · have := hcanon.2
        have h1 : max (p : Int) 1 = p := max_eq_left (by omega)
        rw [h1] at this; exact this
      · rw [stripTrailing_valK]; exact hr
    · rename_i hn
      have hle : bitcount man ≤ p := by omega
      have hcanon := stripTrailing_canon hs h0 exp (b := (bitcount man : Int)) (Or.inl rfl)
      refine ⟨hcanon.1, ?_, ?_⟩
      · have := hcanon.2
        have hb := bitcount_pos h0
        have h1 : max (bitcount man : Int) 1 = bitcount man := max_eq_left (by omega)
        rw [h1] at this; omega
      · rw [stripTrailing_valK, hfit (by omega)]
        exact isRound_self rnd (repb_of_bitcount_le hle sign exp)

/-- **`_normalize` rounds correctly, also for stand-ins**: the result is canonical, has at most
`prec` bits, and is the correctly rounded value of `(-1)^sign · X` for the exact value
`X = man·2^exp` or any `X` that is `CellLike` it (sticky-bit stand-ins). -/
theorem normalize_round_gen {sign : Nat} (hs : sign ≤ 1) (man : Nat) (exp : Int) {prec : Int}
    (hp : 0 < prec) (rnd : Rnd) (X : K)
    (hfit : (bitcount man : Int) ≤ prec → X = (man : K) * 2 ^ exp)
    (hcell : ∀ n : ℕ, 0 < n → bitcount man = prec.toNat + n → CellLike prec.toNat n man exp X) :
    CanonFin (normalize sign man exp (bitcount man) prec rnd) ∧
    (normalize sign man exp (bitcount man) prec rnd).bc ≤ prec ∧
    IsRound prec.toNat rnd ((-1 : K) ^ sign * X) (valK K (normalize sign man exp (bitcount man) prec rnd)) :=
  normalize_round_core hs man exp hp rnd X hfit (fun n hn hbc =>
    (roundShift_isRound (by omega) rnd hs hn hbc exp (hcell n hn hbc)).1)

/-- rounding *down in magnitude* only needs the value to lie in the half-open unit cell of the
mantissa: `man·2^exp ≤ X < (man+1)·2^exp` (used for the floor square root). -/
theorem normalize_round_down {sign : Nat} (hs : sign ≤ 1) (man : Nat) (exp : Int) {prec : Int}
    (hp : 0 < prec) {rnd : Rnd} (hr : rnd ≠ .n) (hd : shiftsDown rnd sign = true) (X : K)
    (hbig : prec < bitcount man)
    (hX1 : (man : K) * 2 ^ exp ≤ X) (hX2 : X < ((man : K) + 1) * 2 ^ exp) :
    CanonFin (normalize sign man exp (bitcount man) prec rnd) ∧
    (normalize sign man exp (bitcount man) prec rnd).bc ≤ prec ∧
    IsRound prec.toNat rnd ((-1 : K) ^ sign * X) (valK K (normalize sign man exp (bitcount man) prec rnd)) := by
  apply normalize_round_core hs man exp hp rnd X (fun h => by omega)
  intro n hn hbc
  have hp' : 0 < prec.toNat := by omega
  have hq : bitcount (man / 2 ^ n) = prec.toNat := by rw [bitcount_div (by omega)]; omega
  have hq0 : man / 2 ^ n ≠ 0 := by intro h; rw [h] at hq; simp at hq; omega
  have hq1 : 2 ^ (prec.toNat - 1) ≤ man / 2 ^ n := by have := bitcount_le hq0; rwa [hq] at this
  have hq2 : man / 2 ^ n < 2 ^ prec.toNat := by have := bitcount_lt (man / 2 ^ n); rwa [hq] at this
  have hdec := man_cell_decomp (K := K) man n exp
  have hml := Nat.mod_lt man (Nat.two_pow_pos n)
  have hE : (2 : K) ^ (exp + n) = 2 ^ exp * 2 ^ n := by rw [zpow_add₀ (by norm_num), zpow_natCast]
  have he : (0 : K) < 2 ^ exp := two_zpow_pos exp
  have hrQ : ((man % 2 ^ n : ℕ) : K) + 1 ≤ 2 ^ n := by exact_mod_cast hml
  have hr0 : (0 : K) ≤ ((man % 2 ^ n : ℕ) : K) := by positivity
  have hXpos : (0 : K) < X := by
    have : (0 : K) < (man : K) * 2 ^ exp := by
      have : (0 : K) < man := by
        have : man ≠ 0 := by intro h; rw [h] at hbc; simp at hbc; omega
        exact_mod_cast Nat.pos_of_ne_zero this
      positivity
    linarith
  apply isRound_of_mag rnd hs hXpos
  · intro _ _
    rw [roundShift_down hr hd]
    apply isRoundF_of_cell hp' hq1 hq2
    · rw [hdec] at hX1; nlinarith
    · have h2 : X < (man : K) * 2 ^ exp + 2 ^ exp := by linarith
      rw [hdec] at h2
      rw [hE]; nlinarith
  · intro h; rw [hd] at h; exact absurd h (by decide)
  · intro h; exact absurd h hr

/-- **`_normalize` is correct rounding**: for every sign bit, mantissa (any length), exponent,
precision `≥ 1` and rounding mode, given the exact bit count, the result is canonical, has at most
`prec` bits and is the correctly rounded value of `(-1)^sign · man · 2^exp`. -/
theorem normalize_spec {sign : Nat} (hs : sign ≤ 1) (man : Nat) (exp : Int) {prec : Int}
    (hp : 0 < prec) (rnd : Rnd) :
    RoundOK prec rnd ((-1 : ℚ) ^ sign * ((man : ℚ) * 2 ^ exp))
      (normalize sign man exp (bitcount man) prec rnd) := by
  obtain ⟨h1, h2, h3⟩ := normalize_round_gen (K := ℚ) hs man exp hp rnd ((man : ℚ) * 2 ^ exp)
    (fun _ => rfl) (fun n _ _ => cellLike_exact _ n man exp)
  exact ⟨h1, fun h => by omega, fun _ => ⟨h3, h2⟩⟩

/-- exact mode of `normalize`-based constructors: when the mantissa already fits, the value is kept -/
theorem normalize_val_of_fits {sign : Nat} (man : Nat) (exp : Int) {prec : Int}
    (h : (bitcount man : Int) ≤ prec) (rnd : Rnd) :
    val (normalize sign man exp (bitcount man) prec rnd) = (-1 : ℚ) ^ sign * ((man : ℚ) * 2 ^ exp) := by
  unfold normalize
  split
  · rename_i h0; subst h0; simp [val_fzero]
  · have : ¬ ((bitcount man : Int) - prec > 0) := by omega
    simp only [this, if_false]
    exact stripTrailing_val _ _ _ _

/-- on an odd mantissa `_normalize1` and `_normalize` agree -/
theorem normalize1_eq_normalize (sign : Nat) {man : Nat} (hodd : man % 2 = 1) (exp : Int) (prec : Int)
    (rnd : Rnd) :
    normalize1 sign man exp (bitcount man) prec rnd = normalize sign man exp (bitcount man) prec rnd := by
  unfold normalize1 normalize
  have h0 : man ≠ 0 := by omega
  simp only [h0, if_false]
  by_cases hle : (bitcount man : Int) ≤ prec
  · have : ¬ ((bitcount man : Int) - prec > 0) := by omega
    simp only [hle, if_true, this, if_false]
    simp only [stripTrailing, trailing_of_odd hodd, Nat.shiftRight_zero, Nat.cast_zero, add_zero, sub_zero]
    split
    · rename_i h1; rw [h1]; simp [bitcount_one]
    · rfl
  · have : ((bitcount man : Int) - prec > 0) := by omega
    simp only [hle, if_false, this, if_true]

theorem normalize1_spec {sign : Nat} (hs : sign ≤ 1) {man : Nat} (hodd : man % 2 = 1 ∨ man = 0)
    (exp : Int) {prec : Int} (hp : 0 < prec) (rnd : Rnd) :
    RoundOK prec rnd ((-1 : ℚ) ^ sign * ((man : ℚ) * 2 ^ exp))
      (normalize1 sign man exp (bitcount man) prec rnd) := by
  rcases hodd with hodd | h0
  · rw [normalize1_eq_normalize sign hodd]; exact normalize_spec hs man exp hp rnd
  · subst h0
    have : normalize1 sign 0 exp (bitcount 0) prec rnd = normalize sign 0 exp (bitcount 0) prec rnd := by
      simp [normalize1, normalize]
    rw [this]; exact normalize_spec hs 0 exp hp rnd

end Mp
