/-
  MpProofs/Sum.lean — `mpf_sum` (libmpf.py): when no two nonzero terms have exponents further apart than the accumulator's
  window (`2·prec` bits) the accumulation is exact and the result is the single correct rounding of the exact sum.
-/
import MpProofs.Arith

namespace Mp

/-- the signed mantissa used by `mpf_sum` (absolute = false) -/
def sman (x : Mpf) : ℤ := if x.sign ≠ 0 ∧ ¬ (false = true) then -(x.man : ℤ) else x.man

theorem val_eq_sman {x : Mpf} (hs : x.sign ≤ 1) : val x = (sman x : ℚ) * 2 ^ x.exp := by
  have : x.sign = 0 ∨ x.sign = 1 := by omega
  rcases this with h | h <;> simp [val_def, sman, h]

theorem ishl_cast (m : ℤ) (k : ℕ) : ((ishl m k : ℤ) : ℚ) = (m : ℚ) * 2 ^ k := by
  unfold ishl
  split
  · rename_i h; rw [h]; simp
  · push_cast; ring

/-- invariant of the accumulation: no special value seen; the accumulator is the exact sum; a nonzero accumulator has its
exponent at or below the exponent of some earlier nonzero term, and its value is an integer multiple of `2^y.exp` for some
earlier nonzero term `y` -/
def SumInv (seen : List Mpf) (st : ℤ × ℤ × Option Mpf) (S : ℚ) : Prop :=
  st.2.2 = none ∧ (st.1 : ℚ) * 2 ^ st.2.1 = S ∧
  (st.1 ≠ 0 → (∃ y ∈ seen, y.man ≠ 0 ∧ st.2.1 ≤ y.exp) ∧ (∃ y ∈ seen, y.man ≠ 0 ∧ ∃ k : ℤ, S = (k : ℚ) * 2 ^ y.exp))

theorem abs_lt_two_pow_bitcount (m : ℤ) : |(m : ℚ)| < 2 ^ (bitcount m.natAbs) := by
  have h := bitcount_lt m.natAbs
  have : |(m : ℚ)| = ((m.natAbs : ℕ) : ℚ) := by
    rw [← Int.cast_abs, Int.abs_eq_natAbs]; simp
  rw [this]; exact_mod_cast h

theorem sumStep_exact {maxExtra : ℤ} {seen : List Mpf} {st : ℤ × ℤ × Option Mpf} {S : ℚ}
    (hinv : SumInv seen st S) {x : Mpf} (hx : CanonFin x)
    (hwin : ∀ y ∈ seen, y.man ≠ 0 → x.man ≠ 0 → x.exp - y.exp ≤ maxExtra ∧ y.exp - x.exp ≤ maxExtra) :
    SumInv (x :: seen) (sumStep maxExtra false st x) (S + val x) := by
  obtain ⟨man, exp, special⟩ := st
  obtain ⟨hsp, hval, hnz⟩ := hinv
  simp only at hsp hval hnz
  subst hsp
  have lift : ∀ {P : Mpf → Prop}, (∃ y ∈ seen, P y) → ∃ y ∈ x :: seen, P y :=
    fun ⟨y, hy, h⟩ => ⟨y, List.mem_cons_of_mem _ hy, h⟩
  rcases hx.cases with rfl | ⟨hm0, hsg, _, hbc⟩
  · -- zero term: nothing happens
    have : sumStep maxExtra false (man, exp, none) fzero = (man, exp, none) := by simp [sumStep, fzero]
    rw [this, val_fzero, add_zero]
    exact ⟨rfl, hval, fun h => ⟨lift (hnz h).1, lift (hnz h).2⟩⟩
  have hvx := val_eq_sman hsg
  have hxs : sman x = (if x.sign ≠ 0 ∧ ¬ (false = true) then -(x.man : ℤ) else (x.man : ℤ)) := rfl
  have hbcpos : 1 ≤ x.bc := by rw [hbc]; have := bitcount_pos hm0; omega
  have hselfle : ∃ y ∈ x :: seen, y.man ≠ 0 ∧ x.exp ≤ y.exp := ⟨x, by simp, hm0, le_refl _⟩
  -- multiples: S + val x is a multiple of 2^(exponent of x or of the old witness)
  have hmult : ∀ (hS : man ≠ 0 → True), ∃ y ∈ x :: seen, y.man ≠ 0 ∧ ∃ k : ℤ, S + val x = (k : ℚ) * 2 ^ y.exp := by
    intro _
    by_cases hman : man = 0
    · have hS : S = 0 := by rw [← hval, hman]; simp
      exact ⟨x, by simp, hm0, sman x, by rw [hS, zero_add, hvx]⟩
    · obtain ⟨y, hy, hy0, k, hk⟩ := (hnz hman).2
      rcases le_total x.exp y.exp with hle | hle
      · obtain ⟨j, hj⟩ : ∃ j : ℕ, y.exp - x.exp = j := ⟨(y.exp - x.exp).toNat, by omega⟩
        refine ⟨x, by simp, hm0, k * 2 ^ j + sman x, ?_⟩
        rw [hk, hvx]
        have : y.exp = x.exp + j := by omega
        rw [this, zpow_add₀ (by norm_num), zpow_natCast]; push_cast; ring
      · obtain ⟨j, hj⟩ : ∃ j : ℕ, x.exp - y.exp = j := ⟨(x.exp - y.exp).toNat, by omega⟩
        refine ⟨y, List.mem_cons_of_mem _ hy, hy0, k + sman x * 2 ^ j, ?_⟩
        rw [hk, hvx]
        have : x.exp = y.exp + j := by omega
        rw [this, zpow_add₀ (by norm_num), zpow_natCast]; push_cast; ring
  have hm := hmult (fun _ => trivial)
  unfold sumStep
  simp only [hm0, ne_eq, not_false_eq_true, if_true, ← hxs]
  by_cases hge : x.exp ≥ exp
  · simp only [hge, if_true]
    obtain ⟨k, hk⟩ : ∃ k : ℕ, x.exp - exp = k := ⟨(x.exp - exp).toNat, by omega⟩
    have hexact : ((man + ishl (sman x) k : ℤ) : ℚ) * 2 ^ exp = S + val x := by
      push_cast
      rw [ishl_cast, add_mul, hval, hvx]
      have : x.exp = exp + k := by omega
      rw [this, zpow_add₀ (by norm_num), zpow_natCast]; ring
    by_cases hman : man = 0
    · subst hman
      have hS : S = 0 := by rw [← hval]; simp
      split
      · exact ⟨rfl, by simp only; rw [hS, zero_add, hvx], fun _ => ⟨hselfle, hm⟩⟩
      · rw [hk, Int.toNat_natCast]
        exact ⟨rfl, hexact, fun _ => ⟨⟨x, by simp, hm0, hge⟩, hm⟩⟩
    · obtain ⟨⟨y1, hy1, hy10, hle1⟩, ⟨y, hy, hy0, kk, hkk⟩⟩ := hnz hman
      -- the accumulator's top bit is above 2^y.exp, so x cannot be far above it
      have hSne : S ≠ 0 := by
        rw [← hval]
        have : (man : ℚ) ≠ 0 := by exact_mod_cast hman
        have h2 : (2 : ℚ) ^ exp ≠ 0 := by positivity
        exact mul_ne_zero this h2
      have hlow : (2 : ℚ) ^ y.exp ≤ |S| := by
        rw [hkk, abs_mul, abs_of_pos (by positivity : (0 : ℚ) < 2 ^ y.exp)]
        have hk0 : kk ≠ 0 := by
          intro h; rw [h] at hkk; simp at hkk; exact hSne hkk
        have : (1 : ℚ) ≤ |(kk : ℚ)| := by
          rw [← Int.cast_abs]; exact_mod_cast Int.one_le_abs hk0
        have hp : (0 : ℚ) < 2 ^ y.exp := by positivity
        nlinarith
      have hhigh : |S| < 2 ^ (exp + (bitcount man.natAbs : ℤ)) := by
        rw [← hval, abs_mul, abs_of_pos (by positivity : (0 : ℚ) < 2 ^ exp), zpow_add₀ (by norm_num), zpow_natCast,
          mul_comm]
        exact mul_lt_mul_of_pos_left (abs_lt_two_pow_bitcount man) (by positivity)
      have hyexp : y.exp < exp + (bitcount man.natAbs : ℤ) := by
        by_contra hcon
        push Not at hcon
        have : (2 : ℚ) ^ (exp + (bitcount man.natAbs : ℤ)) ≤ 2 ^ y.exp := zpow_le_zpow_right₀ (by norm_num) hcon
        linarith
      have hw := (hwin y hy hy0 hm0).1
      have hnd : ¬ (x.exp - exp > maxExtra ∧ (man = 0 ∨ x.exp - exp - (bitcount man.natAbs : ℤ) > maxExtra)) := by
        intro h
        rcases h.2 with h0 | h1
        · exact hman h0
        · omega
      simp only [hnd, if_false]
      rw [hk, Int.toNat_natCast]
      exact ⟨rfl, hexact, fun _ => ⟨⟨y1, List.mem_cons_of_mem _ hy1, hy10, hle1⟩, hm⟩⟩
  · simp only [hge, if_false]
    obtain ⟨k, hk⟩ : ∃ k : ℕ, -(x.exp - exp) = k := ⟨(-(x.exp - exp)).toNat, by omega⟩
    have hexact : ((ishl man k + sman x : ℤ) : ℚ) * 2 ^ x.exp = S + val x := by
      push_cast
      rw [ishl_cast, add_mul, hvx, ← hval]
      have : exp = x.exp + k := by omega
      rw [this, zpow_add₀ (by norm_num), zpow_natCast]; ring
    by_cases hman : man = 0
    · subst hman
      have hS : S = 0 := by rw [← hval]; simp
      split
      · simp only [if_true]
        exact ⟨rfl, by simp only; rw [hS, zero_add, hvx], fun _ => ⟨hselfle, hm⟩⟩
      · rw [hk, Int.toNat_natCast]
        exact ⟨rfl, hexact, fun _ => ⟨hselfle, hm⟩⟩
    · obtain ⟨⟨y1, hy1, hy10, hle1⟩, _⟩ := hnz hman
      have hw := (hwin y1 hy1 hy10 hm0).2
      have hnd : ¬ (-(x.exp - exp) - x.bc > maxExtra) := by omega
      simp only [hnd, if_false]
      rw [hk, Int.toNat_natCast]
      exact ⟨rfl, hexact, fun _ => ⟨hselfle, hm⟩⟩

theorem sumFold_exact {maxExtra : ℤ} :
    ∀ (rest seen : List Mpf) (st : ℤ × ℤ × Option Mpf) (S : ℚ), SumInv seen st S →
      (∀ x ∈ rest, CanonFin x) →
      (∀ x ∈ rest, ∀ y ∈ seen ++ rest, y.man ≠ 0 → x.man ≠ 0 → x.exp - y.exp ≤ maxExtra ∧ y.exp - x.exp ≤ maxExtra) →
      ∃ seen', SumInv seen' (rest.foldl (sumStep maxExtra false) st) (S + (rest.map val).sum) := by
  intro rest
  induction rest with
  | nil => intro seen st S h _ _; exact ⟨seen, by simpa using h⟩
  | cons x rest ih =>
    intro seen st S h hc hw
    have hstep := sumStep_exact h (hc x (by simp)) (fun y hy hy0 hx0 => hw x (by simp) y (by simp [hy]) hy0 hx0)
    obtain ⟨seen', h'⟩ := ih (x :: seen) _ _ hstep (fun z hz => hc z (by simp [hz]))
      (fun z hz y hy hy0 hz0 => hw z (by simp [hz]) y (by
        simp only [List.mem_append, List.mem_cons] at hy ⊢
        rcases hy with (rfl | hy) | hy
        · right; left; rfl
        · left; exact hy
        · right; right; exact hy) hy0 hz0)
    refine ⟨seen', ?_⟩
    simp only [List.foldl_cons, List.map_cons, List.sum_cons]
    rw [← add_assoc]; exact h'

/-- **`mpf_sum` is one correct rounding of the exact sum** whenever the nonzero terms' exponents lie within `2·prec` of each
other (in particular for terms with at most `prec`-bit mantissas whose magnitudes span fewer than `prec` bits). -/
theorem mpf_sum_spec (xs : List Mpf) (hxs : ∀ x ∈ xs, CanonFin x) {prec : ℤ} (hp : 0 < prec) (rnd : Rnd)
    (hwin : ∀ x ∈ xs, ∀ y ∈ xs, x.man ≠ 0 → y.man ≠ 0 → x.exp - y.exp ≤ 2 * prec) :
    RoundOK prec rnd (xs.map val).sum (mpf_sum xs prec rnd false) := by
  unfold mpf_sum
  have hme : (if prec * 2 ≠ 0 then prec * 2 else 1000000 : ℤ) = 2 * prec := by
    rw [if_pos (by omega)]; ring
  simp only [hme]
  have h0 : SumInv [] ((0 : ℤ), (0 : ℤ), (none : Option Mpf)) 0 := ⟨rfl, by simp, fun h => absurd rfl h⟩
  obtain ⟨seen', hinv⟩ := sumFold_exact (maxExtra := 2 * prec) xs [] _ 0 h0 hxs (fun x hx y hy hy0 hx0 => by
    simp only [List.nil_append] at hy
    exact ⟨hwin x hx y hy hx0 hy0, hwin y hy x hx hy0 hx0⟩)
  generalize xs.foldl (sumStep (2 * prec) false) (0, 0, none) = st at hinv
  obtain ⟨man, exp, special⟩ := st
  obtain ⟨hsp, hval, _⟩ := hinv
  simp only at hsp hval
  subst hsp
  simp only [zero_add] at hval
  rw [← hval]
  exact from_man_exp_spec man exp hp.le rnd

/-- the property's own hypothesis implies the window condition: mantissas of at most `p` bits and magnitudes
(`exp + bc`) spanning fewer than `p` bits -/
theorem window_of_magnitudes {xs : List Mpf} {prec : ℤ}
    (hbits : ∀ x ∈ xs, x.man ≠ 0 → 1 ≤ x.bc ∧ x.bc ≤ prec)
    (hspan : ∀ x ∈ xs, ∀ y ∈ xs, x.man ≠ 0 → y.man ≠ 0 → (x.exp + x.bc) - (y.exp + y.bc) < prec) :
    ∀ x ∈ xs, ∀ y ∈ xs, x.man ≠ 0 → y.man ≠ 0 → x.exp - y.exp ≤ 2 * prec := by
  intro x hx y hy hx0 hy0
  have h1 := hbits x hx hx0
  have h2 := hbits y hy hy0
  have h3 := hspan x hx y hy hx0 hy0
  omega

end Mp
