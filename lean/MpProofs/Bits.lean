/-
  MpProofs/Bits.lean — bit length and trailing-zero lemmas for the model's `bitcount` / `trailing`.
-/
import MpProofs.Spec
import Mathlib.Algebra.Order.Ring.Nat

namespace Mp

/-! ### bitcount -/

@[simp] theorem bitcount_zero : bitcount 0 = 0 := by simp [bitcount]

theorem bitcount_pos {n : Nat} (h : n ≠ 0) : 0 < bitcount n := by
  simp [bitcount, h]

theorem bitcount_lt (n : Nat) : n < 2 ^ bitcount n := by
  unfold bitcount; split
  · subst_vars; simp
  · exact Nat.lt_log2_self

theorem bitcount_le {n : Nat} (h : n ≠ 0) : 2 ^ (bitcount n - 1) ≤ n := by
  simp [bitcount, h]; exact Nat.log2_self_le h

/-- characterisation of the bit length -/
theorem bitcount_eq {n k : Nat} (h1 : 2 ^ k ≤ n) (h2 : n < 2 ^ (k+1)) : bitcount n = k + 1 := by
  have hn : n ≠ 0 := by have := Nat.two_pow_pos k; omega
  simp only [bitcount, hn, if_false]
  congr 1
  apply Nat.le_antisymm
  · have := (Nat.log2_lt hn (k := k+1)).2 h2; omega
  · exact (Nat.le_log2 hn).2 h1

theorem bitcount_le_of_lt {n k : Nat} (h : n < 2 ^ k) : bitcount n ≤ k := by
  by_cases hn : n = 0
  · simp [hn]
  · have h1 := bitcount_le hn
    have : 2 ^ (bitcount n - 1) < 2 ^ k := lt_of_le_of_lt h1 h
    have := (Nat.pow_lt_pow_iff_right (a := 2) (by norm_num)).1 this
    omega

theorem lt_bitcount_of_le {n k : Nat} (h : 2 ^ k ≤ n) : k < bitcount n := by
  have h2 := bitcount_lt n
  have : 2 ^ k < 2 ^ bitcount n := lt_of_le_of_lt h h2
  exact (Nat.pow_lt_pow_iff_right (a := 2) (by norm_num)).1 this

theorem bitcount_one : bitcount 1 = 1 := by decide

theorem bitcount_two_pow (k : Nat) : bitcount (2 ^ k) = k + 1 :=
  bitcount_eq (le_refl _) (by rw [pow_succ]; have := Nat.two_pow_pos k; omega)

theorem bitcount_div {n k : Nat} (hk : k < bitcount n) : bitcount (n / 2^k) = bitcount n - k := by
  have hn : n ≠ 0 := by intro h; simp [h] at hk
  have h1 := bitcount_le hn
  have h2 := bitcount_lt n
  have : bitcount n - k = (bitcount n - k - 1) + 1 := by omega
  rw [this]
  apply bitcount_eq
  · rw [Nat.le_div_iff_mul_le (Nat.two_pow_pos k), ← Nat.pow_add]
    have : bitcount n - k - 1 + k = bitcount n - 1 := by omega
    rw [this]; exact h1
  · rw [Nat.div_lt_iff_lt_mul (Nat.two_pow_pos k), ← Nat.pow_add]
    have : bitcount n - k - 1 + 1 + k = bitcount n := by omega
    rw [this]; exact h2

theorem bitcount_mul_two_pow {n : Nat} (hn : n ≠ 0) (k : Nat) : bitcount (n * 2^k) = bitcount n + k := by
  have h1 := bitcount_le hn
  have h2 := bitcount_lt n
  have hb := bitcount_pos hn
  have : bitcount n + k = (bitcount n - 1 + k) + 1 := by omega
  rw [this]
  apply bitcount_eq
  · rw [Nat.pow_add]; exact Nat.mul_le_mul_right _ h1
  · have : bitcount n - 1 + k + 1 = bitcount n + k := by omega
    rw [this, Nat.pow_add]; exact Nat.mul_lt_mul_of_pos_right h2 (Nat.two_pow_pos k)

theorem bitcount_mono {a b : Nat} (h : a ≤ b) : bitcount a ≤ bitcount b := by
  by_cases ha : a = 0
  · simp [ha]
  · exact bitcount_le_of_lt (lt_of_le_of_lt h (bitcount_lt b)) |>.trans (le_refl _) |> fun _ => by
      have h1 := bitcount_le ha
      have h2 := bitcount_lt b
      have : 2 ^ (bitcount a - 1) < 2 ^ bitcount b := lt_of_le_of_lt (h1.trans h) h2
      have := (Nat.pow_lt_pow_iff_right (a := 2) (by norm_num)).1 this
      omega

/-- bit length of a product: `bc a + bc b - 1` or `bc a + bc b` -/
theorem bitcount_mul_bounds {a b : Nat} (ha : a ≠ 0) (hb : b ≠ 0) :
    bitcount a + bitcount b - 1 ≤ bitcount (a * b) ∧ bitcount (a * b) ≤ bitcount a + bitcount b := by
  have a1 := bitcount_le ha; have a2 := bitcount_lt a
  have b1 := bitcount_le hb; have b2 := bitcount_lt b
  have pa := bitcount_pos ha; have pb := bitcount_pos hb
  constructor
  · have : 2 ^ (bitcount a - 1 + (bitcount b - 1)) ≤ a * b := by
      rw [Nat.pow_add]; exact Nat.mul_le_mul a1 b1
    have := lt_bitcount_of_le this
    omega
  · apply bitcount_le_of_lt
    rw [Nat.pow_add]
    exact Nat.mul_lt_mul'' a2 b2

/-! ### trailing -/

theorem trailingAux_spec : ∀ (fuel n : Nat), n ≠ 0 → n < 2 ^ fuel →
    2 ^ trailingAux fuel n ∣ n ∧ (n / 2 ^ trailingAux fuel n) % 2 = 1
  | 0, n, h0, hlt => by simp at hlt; omega
  | fuel+1, n, h0, hlt => by
    unfold trailingAux
    split
    · rename_i h1; simp [h1]
    · rename_i h1
      have hne : n / 2 ≠ 0 := by omega
      have hlt' : n / 2 < 2 ^ fuel := by rw [pow_succ] at hlt; omega
      obtain ⟨ih1, ih2⟩ := trailingAux_spec fuel (n/2) hne hlt'
      constructor
      · rw [pow_succ]
        have h2 : n = n / 2 * 2 := by omega
        conv_rhs => rw [h2]
        exact Nat.mul_dvd_mul_right ih1 2
      · rw [pow_succ, mul_comm, ← Nat.div_div_eq_div_mul]
        exact ih2

theorem trailing_dvd (n : Nat) : 2 ^ trailing n ∣ n := by
  unfold trailing; split
  · simp
  · rename_i h; exact (trailingAux_spec _ n h (bitcount_lt n)).1

theorem trailing_odd {n : Nat} (h : n ≠ 0) : (n / 2 ^ trailing n) % 2 = 1 := by
  unfold trailing; simp only [h, if_false]
  exact (trailingAux_spec _ n h (bitcount_lt n)).2

theorem trailing_of_odd {n : Nat} (h : n % 2 = 1) : trailing n = 0 := by
  have hn : n ≠ 0 := by omega
  unfold trailing; simp only [hn, if_false]
  have hb := bitcount_pos hn
  obtain ⟨k, hk⟩ : ∃ k, bitcount n = k + 1 := ⟨bitcount n - 1, by omega⟩
  rw [hk]; unfold trailingAux; simp [h]

theorem shiftRight_trailing_ne_zero {n : Nat} (h : n ≠ 0) : n >>> trailing n ≠ 0 := by
  rw [Nat.shiftRight_eq_div_pow]
  have := trailing_odd h
  omega

theorem trailing_lt_bitcount {n : Nat} (h : n ≠ 0) : trailing n < bitcount n := by
  by_contra hc
  have hc : bitcount n ≤ trailing n := by omega
  have h1 : 2 ^ trailing n ≤ n := Nat.le_of_dvd (Nat.pos_of_ne_zero h) (trailing_dvd n)
  have h2 := bitcount_lt n
  have : 2 ^ bitcount n ≤ 2 ^ trailing n := Nat.pow_le_pow_right (by norm_num) hc
  omega

/-- stripping trailing zeros: the bit count drops by exactly the number of stripped bits -/
theorem bitcount_shiftRight_trailing {n : Nat} (h : n ≠ 0) :
    bitcount (n >>> trailing n) = bitcount n - trailing n := by
  rw [Nat.shiftRight_eq_div_pow]
  exact bitcount_div (trailing_lt_bitcount h)

/-- stripped mantissa times the stripped power gives back the number -/
theorem shiftRight_trailing_mul (n : Nat) : (n >>> trailing n) * 2 ^ trailing n = n := by
  rw [Nat.shiftRight_eq_div_pow]
  exact Nat.div_mul_cancel (trailing_dvd n)

end Mp
