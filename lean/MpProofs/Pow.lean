/-
  MpProofs/Pow.lean — the binary-exponentiation loop of `mpf_pow_int` (libmpf.py):
  bit-count bookkeeping, the directed-truncation invariants, and the accumulated relative error.
-/
import MpProofs.Div
import MpProofs.Faithful
import Mathlib.Data.Nat.Prime.Basic

namespace Mp

/-! ### bit counts inside the loop -/

/-- weak bit count: `b` is the bit length of `m`, or `m = 2^b` (carry out of an upward truncation) -/
def WB (m : Nat) (b : Int) : Prop := 1 ≤ b ∧ 2 ^ (b.toNat - 1) ≤ m ∧ m ≤ 2 ^ b.toNat

theorem WB.of_bitcount {m : Nat} (hm : m ≠ 0) : WB m (bitcount m) := by
  have h1 := bitcount_pos hm
  refine ⟨by omega, ?_, ?_⟩
  · simpa using bitcount_le hm
  · simpa using (bitcount_lt m).le

theorem WB.ne_zero {m : Nat} {b : Int} (h : WB m b) : m ≠ 0 := by
  have := Nat.two_pow_pos (b.toNat - 1)
  have := h.2.1
  omega

/-- the table-driven bit-count update `bc = b1 + b2 - 2; bc += bctable[P >> bc]` is exact -/
theorem prod_bc {m1 m2 : Nat} {b1 b2 : Int} (h1 : WB m1 b1) (h2 : WB m2 b2) :
    b1 + b2 - 2 + (bitcount ((m1 * m2) >>> (b1 + b2 - 2).toNat) : Int) = (bitcount (m1 * m2) : Int) := by
  obtain ⟨k1, rfl⟩ : ∃ k1 : ℕ, b1 = k1 + 1 := ⟨b1.toNat - 1, by have := h1.1; omega⟩
  obtain ⟨k2, rfl⟩ : ∃ k2 : ℕ, b2 = k2 + 1 := ⟨b2.toNat - 1, by have := h2.1; omega⟩
  have e1 : ((k1 : Int) + 1).toNat - 1 = k1 := by omega
  have e2 : ((k2 : Int) + 1).toNat - 1 = k2 := by omega
  have e3 : ((k1 : Int) + 1 + (k2 + 1) - 2).toNat = k1 + k2 := by omega
  have l1 := h1.2.1; have l2 := h2.2.1
  rw [e1] at l1; rw [e2] at l2
  have hP : 2 ^ (k1 + k2) ≤ m1 * m2 := by
    rw [pow_add]; exact Nat.mul_le_mul l1 l2
  rw [e3, Nat.shiftRight_eq_div_pow, bitcount_div (lt_bitcount_of_le hP)]
  have := lt_bitcount_of_le hP
  omega

/-- one multiplication of the loop: product, bit-count update, truncation to `workprec` bits -/
def mulStep (rd : Bool) (wp : Int) (P B : Nat × Int × Int) : Nat × Int × Int :=
  let pm := P.1 * B.1
  let pbc := P.2.2 + B.2.2 - 2
  powTrunc rd wp pm (P.2.1 + B.2.1) (pbc + (bitcount (pm >>> pbc.toNat) : Int))

theorem powLoop_zero (rd : Bool) (wp : Int) (P B : Nat × Int × Int) (n : Nat) :
    powLoop rd wp 0 P B n = P := by
  obtain ⟨pm, pe, pbc⟩ := P; obtain ⟨m, e, b⟩ := B; rfl

theorem powLoop_succ_odd (rd : Bool) (wp : Int) (fuel : Nat) (P B : Nat × Int × Int) {n : Nat}
    (h : n % 2 = 1) :
    powLoop rd wp (fuel + 1) P B n =
      if n - 1 = 0 then mulStep rd wp P B
      else powLoop rd wp fuel (mulStep rd wp P B) (mulStep rd wp B B) ((n - 1) / 2) := by
  obtain ⟨pm, pe, pbc⟩ := P; obtain ⟨m, e, b⟩ := B
  simp only [powLoop, h, if_true, mulStep]
  by_cases h0 : n - 1 = 0
  · simp [h0]
  · simp [h0]

theorem powLoop_succ_even (rd : Bool) (wp : Int) (fuel : Nat) (P B : Nat × Int × Int) {n : Nat}
    (h : n % 2 ≠ 1) :
    powLoop rd wp (fuel + 1) P B n = powLoop rd wp fuel P (mulStep rd wp B B) (n / 2) := by
  obtain ⟨pm, pe, pbc⟩ := P; obtain ⟨m, e, b⟩ := B
  simp only [powLoop, h, if_false, mulStep]
  simp

/-- generic invariant of the loop: any predicate `I state trueValue count` preserved by one
multiplication step holds for the result, with true value `tp · tb^n` and the counts adding up
as `cp + (cb + 1) · n`. -/
theorem powLoop_inv (rd : Bool) (wp : Int) (I : Nat × Int × Int → ℚ → ℕ → Prop)
    (hmul : ∀ P B tp tb cp cb, I P tp cp → I B tb cb → I (mulStep rd wp P B) (tp * tb) (cp + cb + 1)) :
    ∀ (fuel : Nat) (P B : Nat × Int × Int) (n : Nat) (tp tb : ℚ) (cp cb : ℕ),
      1 ≤ n → n < 2 ^ fuel → I P tp cp → I B tb cb →
      I (powLoop rd wp fuel P B n) (tp * tb ^ n) (cp + (cb + 1) * n) := by
  intro fuel
  induction fuel with
  | zero => intro P B n tp tb cp cb h1 h2; simp at h2; omega
  | succ fuel ih =>
    intro P B n tp tb cp cb h1 h2 hP hB
    by_cases hodd : n % 2 = 1
    · rw [powLoop_succ_odd rd wp fuel P B hodd]
      by_cases h0 : n - 1 = 0
      · have hn : n = 1 := by omega
        subst hn
        simp only [if_true, pow_one, mul_one]
        exact hmul P B tp tb cp cb hP hB
      · simp only [h0, if_false]
        obtain ⟨k, rfl⟩ : ∃ k, n = 2 * k + 1 := ⟨n / 2, by omega⟩
        have hk : (2 * k + 1 - 1) / 2 = k := by omega
        rw [hk]
        have hk1 : 1 ≤ k := by omega
        have hk2 : k < 2 ^ fuel := by rw [pow_succ] at h2; omega
        have := ih (mulStep rd wp P B) (mulStep rd wp B B) k (tp * tb) (tb * tb) (cp + cb + 1) (cb + cb + 1)
          hk1 hk2 (hmul P B tp tb cp cb hP hB) (hmul B B tb tb cb cb hB hB)
        have e1 : tp * tb * (tb * tb) ^ k = tp * tb ^ (2 * k + 1) := by
          rw [← pow_two, ← pow_mul]; ring
        have e2 : cp + cb + 1 + (cb + cb + 1 + 1) * k = cp + (cb + 1) * (2 * k + 1) := by ring
        rw [e1, e2] at this; exact this
    · rw [powLoop_succ_even rd wp fuel P B hodd]
      obtain ⟨k, rfl⟩ : ∃ k, n = 2 * k := ⟨n / 2, by omega⟩
      have hk : 2 * k / 2 = k := by omega
      rw [hk]
      have hk1 : 1 ≤ k := by omega
      have hk2 : k < 2 ^ fuel := by rw [pow_succ] at h2; omega
      have := ih P (mulStep rd wp B B) k tp (tb * tb) cp (cb + cb + 1) hk1 hk2 hP (hmul B B tb tb cb cb hB hB)
      have e1 : tp * (tb * tb) ^ k = tp * tb ^ (2 * k) := by rw [← pow_two, ← pow_mul]
      have e2 : cp + (cb + cb + 1 + 1) * k = cp + (cb + 1) * (2 * k) := by ring
      rw [e1, e2] at this; exact this

/-! ### values -/

/-- value of a loop state `(man, exp, bc)` -/
def tv (t : Nat × Int × Int) : ℚ := (t.1 : ℚ) * 2 ^ t.2.1

/-- relative size of one truncation to `wp` bits -/
def eps (wp : Int) : ℚ := 2 ^ (1 - wp)

theorem eps_pos (wp : Int) : 0 < eps wp := by unfold eps; positivity

/-- truncation toward zero keeps the exact bit count, does not increase the value and loses at
most the relative amount `eps wp` -/
theorem powTrunc_down {wp : Int} (hwp : 1 ≤ wp) {m : Nat} (hm : m ≠ 0) (e : Int) :
    (powTrunc true wp m e (bitcount m)).1 ≠ 0 ∧
    (powTrunc true wp m e (bitcount m)).2.2 = (bitcount (powTrunc true wp m e (bitcount m)).1 : Int) ∧
    tv (powTrunc true wp m e (bitcount m)) ≤ (m : ℚ) * 2 ^ e ∧
    (m : ℚ) * 2 ^ e ≤ tv (powTrunc true wp m e (bitcount m)) * (1 + eps wp) := by
  unfold powTrunc
  have hE : (0 : ℚ) < 2 ^ e := by positivity
  have heps := eps_pos wp
  split
  · rename_i hgt
    obtain ⟨w, rfl⟩ : ∃ w : ℕ, wp = w := ⟨wp.toNat, by omega⟩
    obtain ⟨k, hk⟩ : ∃ k : ℕ, (bitcount m : Int) - w = k := ⟨((bitcount m : Int) - w).toNat, by omega⟩
    have hk0 : 0 < k := by omega
    have hbc : bitcount m = w + k := by omega
    simp only [if_true, hk, Int.toNat_natCast, Nat.shiftRight_eq_div_pow, tv]
    have hq : bitcount (m / 2 ^ k) = w := by rw [bitcount_div (by omega)]; omega
    have hq0 : m / 2 ^ k ≠ 0 := by intro h; rw [h] at hq; simp at hq; omega
    have hq1 : 2 ^ (w - 1) ≤ m / 2 ^ k := by have := bitcount_le hq0; rwa [hq] at this
    have hdm := Nat.div_add_mod m (2 ^ k)
    have hml := Nat.mod_lt m (Nat.two_pow_pos k)
    have hE2 : (2 : ℚ) ^ (e + (k : ℤ)) = 2 ^ e * 2 ^ k := by rw [zpow_add₀ (by norm_num), zpow_natCast]
    have hmQ : (m : ℚ) = (2 : ℚ) ^ k * ((m / 2 ^ k : ℕ) : ℚ) + ((m % 2 ^ k : ℕ) : ℚ) := by
      exact_mod_cast hdm.symm
    have hrQ : ((m % 2 ^ k : ℕ) : ℚ) + 1 ≤ 2 ^ k := by exact_mod_cast hml
    have hr0 : (0 : ℚ) ≤ ((m % 2 ^ k : ℕ) : ℚ) := by positivity
    have hk2 : (0 : ℚ) < 2 ^ k := by positivity
    have hqeps : (1 : ℚ) ≤ ((m / 2 ^ k : ℕ) : ℚ) * eps (w : ℤ) := by
      have h1 : ((2 ^ (w - 1) : ℕ) : ℚ) ≤ ((m / 2 ^ k : ℕ) : ℚ) := by exact_mod_cast hq1
      have h2 : eps (w : ℤ) * ((2 ^ (w - 1) : ℕ) : ℚ) = 1 := by
        unfold eps
        push_cast
        rw [← zpow_natCast, ← zpow_add₀ (by norm_num)]
        have : (1 - (w : ℤ) + ((w - 1 : ℕ) : ℤ)) = 0 := by omega
        rw [this, zpow_zero]
      nlinarith
    refine ⟨hq0, ?_, ?_, ?_⟩
    · rw [hq]
    · rw [hE2, hmQ]; nlinarith
    · rw [hE2, hmQ]
      have h3 : ((m % 2 ^ k : ℕ) : ℚ) ≤ 2 ^ k * (((m / 2 ^ k : ℕ) : ℚ) * eps (w : ℤ)) := by nlinarith
      have : (2 : ℚ) ^ k * ((m / 2 ^ k : ℕ) : ℚ) + ((m % 2 ^ k : ℕ) : ℚ)
          ≤ ((m / 2 ^ k : ℕ) : ℚ) * 2 ^ k * (1 + eps (w : ℤ)) := by nlinarith
      calc ((2 : ℚ) ^ k * ((m / 2 ^ k : ℕ) : ℚ) + ((m % 2 ^ k : ℕ) : ℚ)) * 2 ^ e
          ≤ (((m / 2 ^ k : ℕ) : ℚ) * 2 ^ k * (1 + eps (w : ℤ))) * 2 ^ e :=
            mul_le_mul_of_nonneg_right this hE.le
        _ = ((m / 2 ^ k : ℕ) : ℚ) * (2 ^ e * 2 ^ k) * (1 + eps (w : ℤ)) := by ring
  · simp only [tv]
    refine ⟨hm, trivial, le_refl _, ?_⟩
    have : (0 : ℚ) ≤ (m : ℚ) * 2 ^ e := by positivity
    nlinarith

/-- truncation away from zero keeps a weak bit count and does not decrease the value -/
theorem powTrunc_up {wp : Int} (hwp : 1 ≤ wp) {m : Nat} (hm : m ≠ 0) (e : Int) :
    WB (powTrunc false wp m e (bitcount m)).1 (powTrunc false wp m e (bitcount m)).2.2 ∧
    (m : ℚ) * 2 ^ e ≤ tv (powTrunc false wp m e (bitcount m)) := by
  unfold powTrunc
  have hE : (0 : ℚ) < 2 ^ e := by positivity
  split
  · rename_i hgt
    obtain ⟨w, rfl⟩ : ∃ w : ℕ, wp = w := ⟨wp.toNat, by omega⟩
    obtain ⟨k, hk⟩ : ∃ k : ℕ, (bitcount m : Int) - w = k := ⟨((bitcount m : Int) - w).toNat, by omega⟩
    have hk0 : 0 < k := by omega
    have hbc : bitcount m = w + k := by omega
    simp only [Bool.false_eq_true, if_false, hk, Int.toNat_natCast, Nat.shiftRight_eq_div_pow, tv]
    have hq : bitcount (m / 2 ^ k) = w := by rw [bitcount_div (by omega)]; omega
    have hq0 : m / 2 ^ k ≠ 0 := by intro h; rw [h] at hq; simp at hq; omega
    have hq1 : 2 ^ (w - 1) ≤ m / 2 ^ k := by have := bitcount_le hq0; rwa [hq] at this
    have hq2 : m / 2 ^ k < 2 ^ w := by have := bitcount_lt (m / 2 ^ k); rwa [hq] at this
    have hdm := Nat.div_add_mod m (2 ^ k)
    have hml := Nat.mod_lt m (Nat.two_pow_pos k)
    have hE2 : (2 : ℚ) ^ (e + (k : ℤ)) = 2 ^ e * 2 ^ k := by rw [zpow_add₀ (by norm_num), zpow_natCast]
    have hc := ceil_div_eq m k
    constructor
    · refine ⟨hwp, ?_, ?_⟩
      · simp only [Int.toNat_natCast]; rw [hc]; split <;> omega
      · simp only [Int.toNat_natCast]; rw [hc]; split <;> omega
    · rw [hE2, hc]
      have hmQ : (m : ℚ) = (2 : ℚ) ^ k * ((m / 2 ^ k : ℕ) : ℚ) + ((m % 2 ^ k : ℕ) : ℚ) := by
        exact_mod_cast hdm.symm
      have hk2 : (0 : ℚ) < 2 ^ k := by positivity
      split
      · rename_i h0
        rw [hmQ, h0]; push_cast
        have : (2 : ℚ) ^ k * ((m / 2 ^ k : ℕ) : ℚ) * 2 ^ e = ((m / 2 ^ k : ℕ) : ℚ) * (2 ^ e * 2 ^ k) := by ring
        simp only [add_zero]
        rw [this]
      · have hrQ : ((m % 2 ^ k : ℕ) : ℚ) + 1 ≤ 2 ^ k := by exact_mod_cast hml
        rw [hmQ]; push_cast
        have : (2 : ℚ) ^ k * ((m / 2 ^ k : ℕ) : ℚ) + ((m % 2 ^ k : ℕ) : ℚ)
            ≤ (((m / 2 ^ k : ℕ) : ℚ) + 1) * 2 ^ k := by nlinarith
        calc ((2 : ℚ) ^ k * ((m / 2 ^ k : ℕ) : ℚ) + ((m % 2 ^ k : ℕ) : ℚ)) * 2 ^ e
            ≤ ((((m / 2 ^ k : ℕ) : ℚ) + 1) * 2 ^ k) * 2 ^ e := mul_le_mul_of_nonneg_right this hE.le
          _ = (((m / 2 ^ k : ℕ) : ℚ) + 1) * (2 ^ e * 2 ^ k) := by ring
  · simp only [tv]
    exact ⟨WB.of_bitcount hm, le_refl _⟩

/-- invariant of the loop when every truncation is toward zero -/
def DownInv (wp : Int) (P : Nat × Int × Int) (tp : ℚ) (c : ℕ) : Prop :=
  P.1 ≠ 0 ∧ P.2.2 = (bitcount P.1 : Int) ∧ tv P ≤ tp ∧ tp ≤ tv P * (1 + eps wp) ^ c

/-- invariant of the loop when every truncation is away from zero -/
def UpInv (P : Nat × Int × Int) (tp : ℚ) (_c : ℕ) : Prop :=
  WB P.1 P.2.2 ∧ 0 < tp ∧ tp ≤ tv P

theorem tv_nonneg (P : Nat × Int × Int) : 0 ≤ tv P := by unfold tv; positivity

theorem tv_mul (P B : Nat × Int × Int) :
    ((P.1 * B.1 : ℕ) : ℚ) * 2 ^ (P.2.1 + B.2.1) = tv P * tv B := by
  unfold tv; rw [zpow_add₀ (by norm_num)]; push_cast; ring

theorem mulStep_down {wp : Int} (hwp : 1 ≤ wp) (P B : Nat × Int × Int) (tp tb : ℚ) (cp cb : ℕ)
    (hP : DownInv wp P tp cp) (hB : DownInv wp B tb cb) :
    DownInv wp (mulStep true wp P B) (tp * tb) (cp + cb + 1) := by
  obtain ⟨hP0, hPb, hP1, hP2⟩ := hP
  obtain ⟨hB0, hBb, hB1, hB2⟩ := hB
  have hm : P.1 * B.1 ≠ 0 := Nat.mul_ne_zero hP0 hB0
  have hbc := prod_bc (hPb ▸ WB.of_bitcount hP0) (hBb ▸ WB.of_bitcount hB0)
  unfold mulStep
  simp only [hbc]
  obtain ⟨h1, h2, h3, h4⟩ := powTrunc_down hwp hm (P.2.1 + B.2.1)
  rw [tv_mul] at h3 h4
  have hP' := tv_nonneg P; have hB' := tv_nonneg B
  have he : (0 : ℚ) ≤ 1 + eps wp := by have := eps_pos wp; linarith
  refine ⟨h1, h2, ?_, ?_⟩
  · calc _ ≤ tv P * tv B := h3
      _ ≤ tp * tb := mul_le_mul hP1 hB1 hB' (le_trans hP' hP1)
  · calc tp * tb ≤ (tv P * (1 + eps wp) ^ cp) * (tv B * (1 + eps wp) ^ cb) :=
          mul_le_mul hP2 hB2 (le_trans hB' hB1) (by positivity)
      _ = (tv P * tv B) * (1 + eps wp) ^ (cp + cb) := by rw [pow_add]; ring
      _ ≤ (tv (powTrunc true wp (P.1 * B.1) (P.2.1 + B.2.1) (bitcount (P.1 * B.1))) * (1 + eps wp))
            * (1 + eps wp) ^ (cp + cb) := mul_le_mul_of_nonneg_right h4 (by positivity)
      _ = _ := by rw [pow_succ]; ring

theorem mulStep_up {wp : Int} (hwp : 1 ≤ wp) (P B : Nat × Int × Int) (tp tb : ℚ) (cp cb : ℕ)
    (hP : UpInv P tp cp) (hB : UpInv B tb cb) :
    UpInv (mulStep false wp P B) (tp * tb) (cp + cb + 1) := by
  obtain ⟨hPw, hP0, hP1⟩ := hP
  obtain ⟨hBw, hB0, hB1⟩ := hB
  have hm : P.1 * B.1 ≠ 0 := Nat.mul_ne_zero hPw.ne_zero hBw.ne_zero
  have hbc := prod_bc hPw hBw
  unfold mulStep
  simp only [hbc]
  obtain ⟨h1, h2⟩ := powTrunc_up hwp hm (P.2.1 + B.2.1)
  rw [tv_mul] at h2
  refine ⟨h1, mul_pos hP0 hB0, ?_⟩
  calc tp * tb ≤ tv P * tv B := mul_le_mul hP1 hB1 hB0.le (le_trans hP0.le hP1)
    _ ≤ _ := h2

/-! ### `_normalize` with the weak bit count left by an upward truncation -/

theorem trailing_two_pow (j : Nat) : trailing (2 ^ j) = j := by
  have h0 : 2 ^ j ≠ 0 := by positivity
  have hd := trailing_dvd (2 ^ j)
  have ho := trailing_odd h0
  have hle : trailing (2 ^ j) ≤ j := (Nat.pow_dvd_pow_iff_le_right (by norm_num)).1 hd
  rw [Nat.pow_div hle (by norm_num)] at ho
  by_contra hne
  have : 0 < j - trailing (2 ^ j) := by omega
  obtain ⟨k, hk⟩ : ∃ k, j - trailing (2 ^ j) = k + 1 := ⟨j - trailing (2 ^ j) - 1, by omega⟩
  rw [hk, pow_succ] at ho
  omega

theorem stripTrailing_two_pow (sign j : Nat) (e b : Int) :
    stripTrailing sign (2 ^ j) e b = ⟨sign, 1, e + j, 1⟩ := by
  simp [stripTrailing, trailing_two_pow, Nat.shiftRight_eq_div_pow]

theorem roundShift_two_pow (rnd : Rnd) (sign : Nat) {b n : Nat} (hn : 0 < n) (hnb : n ≤ b) :
    roundShift rnd sign (2 ^ b) n = 2 ^ (b - n) := by
  have hdiv : 2 ^ b / 2 ^ n = 2 ^ (b - n) := Nat.pow_div hnb (by norm_num)
  have hmod : 2 ^ b % 2 ^ n = 0 := Nat.mod_eq_zero_of_dvd (Nat.pow_dvd_pow 2 hnb)
  by_cases hr : rnd = .n
  · subst hr
    rw [roundShift_near sign _ hn, hmod, hdiv]
    have := Nat.two_pow_pos n
    simp; omega
  · cases hd : shiftsDown rnd sign
    · rw [roundShift_up hd, ceil_div_eq, hmod, hdiv]; simp
    · rw [roundShift_down hr hd, hdiv]

theorem normalize_two_pow (sign b : Nat) (e : Int) {c : Int} (hc : c = b ∨ c = b + 1) {prec : Int}
    (hp : 0 < prec) (rnd : Rnd) :
    normalize sign (2 ^ b) e c prec rnd = ⟨sign, 1, e + b, 1⟩ := by
  unfold normalize
  have h0 : (2 : ℕ) ^ b ≠ 0 := by positivity
  simp only [h0, if_false]
  split
  · rename_i hgt
    obtain ⟨n, hn⟩ : ∃ n : ℕ, c - prec = n := ⟨(c - prec).toNat, by omega⟩
    have hn0 : 0 < n := by omega
    have hnb : n ≤ b := by omega
    rw [hn, Int.toNat_natCast, roundShift_two_pow rnd sign hn0 hnb, stripTrailing_two_pow]
    congr 1
    have : ((b - n : ℕ) : Int) = b - n := by omega
    rw [this]; ring
  · rw [stripTrailing_two_pow]

theorem WB.cases {m : Nat} {b : Int} (h : WB m b) : b = (bitcount m : Int) ∨ m = 2 ^ b.toNat := by
  obtain ⟨h1, h2, h3⟩ := h
  rcases Nat.lt_or_eq_of_le h3 with hlt | heq
  · left
    have := bitcount_eq h2 (by rwa [Nat.sub_add_cancel (by omega)])
    omega
  · right; exact heq

/-- `_normalize` rounds correctly also when it is handed the weak bit count of the loop -/
theorem normalize_weak_spec {sign : Nat} (hs : sign ≤ 1) {m : Nat} {b : Int} (hw : WB m b) (e : Int)
    {prec : Int} (hp : 0 < prec) (rnd : Rnd) :
    RoundOK prec rnd ((-1 : ℚ) ^ sign * ((m : ℚ) * 2 ^ e)) (normalize sign m e b prec rnd) := by
  rcases hw.cases with hb | hm
  · rw [hb]; exact normalize_spec hs m e hp rnd
  · have h1 := hw.1
    obtain ⟨k, hk⟩ : ∃ k : ℕ, b = k := ⟨b.toNat, by omega⟩
    subst hk
    simp only [Int.toNat_natCast] at hm
    subst hm
    have e1 := normalize_two_pow sign k e (c := (k : Int)) (Or.inl rfl) hp rnd
    have e2 := normalize_two_pow sign k e (c := ((bitcount (2 ^ k) : ℕ) : Int))
      (Or.inr (by rw [bitcount_two_pow]; push_cast; ring)) hp rnd
    rw [e1, ← e2]
    exact normalize_spec hs (2 ^ k) e hp rnd

/-! ### sides -/

/-- `y` is not on the wrong side of `x` for the directed mode `rnd` (nothing is claimed for nearest) -/
def OnSide (rnd : Rnd) (x y : ℚ) : Prop :=
  match rnd with
  | .f => y ≤ x
  | .c => x ≤ y
  | .d => (0 ≤ x → 0 ≤ y ∧ y ≤ x) ∧ (x ≤ 0 → x ≤ y ∧ y ≤ 0)
  | .u => (0 ≤ x → x ≤ y) ∧ (x ≤ 0 → y ≤ x)
  | .n => True

theorem IsRound.onSide {p : ℕ} {rnd : Rnd} {x y : ℚ} (h : IsRound p rnd x y) : OnSide rnd x y := by
  cases rnd <;> simp only [IsRound, OnSide] at h ⊢
  · exact h.2.1
  · exact h.2.1
  · by_cases hx : 0 ≤ x
    · rw [if_pos hx] at h
      refine ⟨fun _ => h.2.1, fun hx' => ?_⟩
      have : x = 0 := le_antisymm hx' hx
      subst this
      exact h.2.2 0 (repb_zero p) (le_refl _)
    · rw [if_neg hx] at h
      push Not at hx
      exact ⟨fun hx' => absurd hx' (by linarith), fun _ => h.2.1⟩
  · by_cases hx : 0 ≤ x
    · rw [if_pos hx] at h
      have h0 : 0 ≤ y := h.2.2 0 (repb_zero p) hx
      refine ⟨fun _ => ⟨h0, h.2.1⟩, fun hx' => ?_⟩
      have : x = 0 := le_antisymm hx' hx
      subst this
      exact ⟨h0, h.2.1⟩
    · rw [if_neg hx] at h
      push Not at hx
      refine ⟨fun hx' => absurd hx' (by linarith), fun _ => ⟨h.2.1, h.2.2 0 (repb_zero p) hx.le⟩⟩

/-- a value rounded from a magnitude `R` that errs on the side the mode allows stays on the right side of `X` -/
theorem onSide_of_mag {rnd : Rnd} {rs : Nat} (hrs : rs ≤ 1) {R X y : ℚ} (hR : 0 < R) (hX : 0 < X)
    (hdown : shiftsDown rnd rs = true → R ≤ X) (hup : shiftsDown rnd rs = false → X ≤ R)
    (h : OnSide rnd ((-1 : ℚ) ^ rs * R) y) : OnSide rnd ((-1 : ℚ) ^ rs * X) y := by
  have hrs' : rs = 0 ∨ rs = 1 := by omega
  rcases hrs' with rfl | rfl
  · simp only [pow_zero, one_mul] at h ⊢
    cases rnd <;> simp only [OnSide, shiftsDown] at h hdown hup ⊢
    · have := hdown (by decide); linarith
    · have := hup (by decide); linarith
    · have := hup trivial
      have h1 := h.1 hR.le
      exact ⟨fun _ => by linarith, fun hx => absurd hx (by linarith)⟩
    · have := hdown trivial
      have h1 := h.1 hR.le
      exact ⟨fun _ => ⟨h1.1, by linarith⟩, fun hx => absurd hx (by linarith)⟩
  · simp only [pow_one, neg_one_mul] at h ⊢
    cases rnd <;> simp only [OnSide, shiftsDown] at h hdown hup ⊢
    · have := hup (by decide); linarith
    · have := hdown (by decide); linarith
    · have := hup trivial
      have h1 := h.2 (by linarith)
      exact ⟨fun hx => absurd hx (by linarith), fun _ => by linarith⟩
    · have := hdown trivial
      have h1 := h.2 (by linarith)
      exact ⟨fun hx => absurd hx (by linarith), fun _ => ⟨by linarith, h1.2⟩⟩

/-! ### the loop regime of `mpf_pow_int` -/

theorem pow_one_add_le {ε : ℚ} (hε : 0 ≤ ε) : ∀ n : ℕ, 2 * (n : ℚ) * ε ≤ 1 → (1 + ε) ^ n ≤ 1 + 2 * n * ε := by
  intro n
  induction n with
  | zero => intro _; simp
  | succ k ih =>
    intro h
    push_cast at h
    have hk : 2 * (k : ℚ) * ε ≤ 1 := by nlinarith
    have h1 := ih hk
    have hk0 : (0 : ℚ) ≤ k := by positivity
    calc (1 + ε) ^ (k + 1) = (1 + ε) ^ k * (1 + ε) := pow_succ _ _
      _ ≤ (1 + 2 * k * ε) * (1 + ε) := mul_le_mul_of_nonneg_right h1 (by linarith)
      _ ≤ 1 + 2 * ((k + 1 : ℕ) : ℚ) * ε := by
        push_cast
        have : 2 * (k : ℚ) * ε * ε ≤ 1 * ε := mul_le_mul_of_nonneg_right hk hε
        nlinarith

theorem powLoop_down {wp : Int} (hwp : 1 ≤ wp) {m : Nat} (hm : m ≠ 0) (e : Int) {n : Nat} (hn : 1 ≤ n) :
    DownInv wp (powLoop true wp (bitcount n + 1) (1, 0, 1) (m, e, bitcount m) n) (((m : ℚ) * 2 ^ e) ^ n) n := by
  have hfuel : n < 2 ^ (bitcount n + 1) := lt_trans (bitcount_lt n) (Nat.pow_lt_pow_right (by norm_num) (by omega))
  have h := powLoop_inv true wp (DownInv wp) (mulStep_down hwp) (bitcount n + 1) (1, 0, 1) (m, e, bitcount m) n
    1 ((m : ℚ) * 2 ^ e) 0 0 hn hfuel
    ⟨by simp, by simp [bitcount_one], by simp [tv], by simp [tv]⟩
    ⟨hm, rfl, by simp [tv], by simp [tv]⟩
  simpa using h

theorem powLoop_up {wp : Int} (hwp : 1 ≤ wp) {m : Nat} (hm : m ≠ 0) (e : Int) {n : Nat} (hn : 1 ≤ n) :
    UpInv (powLoop false wp (bitcount n + 1) (1, 0, 1) (m, e, bitcount m) n) (((m : ℚ) * 2 ^ e) ^ n) n := by
  have hfuel : n < 2 ^ (bitcount n + 1) := lt_trans (bitcount_lt n) (Nat.pow_lt_pow_right (by norm_num) (by omega))
  have hpos : (0 : ℚ) < (m : ℚ) * 2 ^ e := by
    have : (0 : ℚ) < m := by exact_mod_cast Nat.pos_of_ne_zero hm
    positivity
  have h := powLoop_inv false wp UpInv (mulStep_up hwp) (bitcount n + 1) (1, 0, 1) (m, e, bitcount m) n
    1 ((m : ℚ) * 2 ^ e) 0 0 hn hfuel
    ⟨by simpa [bitcount_one] using WB.of_bitcount (m := 1) (by norm_num), by norm_num, by simp [tv]⟩
    ⟨WB.of_bitcount hm, hpos, by simp [tv]⟩
  simpa using h

theorem powIntPos_loop_eq (s : Mpf) {n : Nat} (hn : 3 ≤ n) (hm : s.man ≠ 1) (hb : ¬ s.bc * n < 1000)
    (prec : Int) (rnd : Rnd) :
    powIntPos s n prec rnd =
      normalize (s.sign &&& n)
        (powLoop (rnd == .n || shiftsDown rnd (s.sign &&& n)) (prec + 4 * (bitcount n : Int) + 4)
          (bitcount n + 1) (1, 0, 1) (s.man, s.exp, s.bc) n).1
        (powLoop (rnd == .n || shiftsDown rnd (s.sign &&& n)) (prec + 4 * (bitcount n : Int) + 4)
          (bitcount n + 1) (1, 0, 1) (s.man, s.exp, s.bc) n).2.1
        (powLoop (rnd == .n || shiftsDown rnd (s.sign &&& n)) (prec + 4 * (bitcount n : Int) + 4)
          (bitcount n + 1) (1, 0, 1) (s.man, s.exp, s.bc) n).2.2 prec rnd := by
  unfold powIntPos
  have h0 : n ≠ 0 := by omega
  have h1 : n ≠ 1 := by omega
  have h2 : n ≠ 2 := by omega
  simp only [h0, h1, h2, hm, hb, if_false]

theorem neg_one_pow_and (sg n : Nat) (hs : sg ≤ 1) : ((-1 : ℚ) ^ sg) ^ n = (-1 : ℚ) ^ (sg &&& n) := by
  have : sg = 0 ∨ sg = 1 := by omega
  rcases this with rfl | rfl
  · simp
  · rw [Nat.one_and_eq_mod_two, pow_one, neg_one_pow_eq_pow_mod_two]

theorem and_le_one (sg n : Nat) (hs : sg ≤ 1) : sg &&& n ≤ 1 := le_trans Nat.and_le_left hs

/-- the truncation error of the whole loop stays far below the last place of the result -/
theorem loop_err_small {prec : Int} (hp : 0 < prec) {n : Nat} (hn : 3 ≤ n) :
    2 * (n : ℚ) * eps (prec + 4 * (bitcount n : Int) + 4) ≤ 2 ^ (-(prec.toNat : ℤ) - 3) := by
  have hb2 : 2 ≤ bitcount n := by
    have := lt_bitcount_of_le (show 2 ^ 1 ≤ n by omega); omega
  have hn2 : (n : ℚ) < 2 ^ (bitcount n) := by exact_mod_cast bitcount_lt n
  unfold eps
  have hpos : (0 : ℚ) < 2 ^ (1 - (prec + 4 * (bitcount n : Int) + 4)) := by positivity
  have e1 : (2 : ℚ) * 2 ^ (bitcount n) * 2 ^ (1 - (prec + 4 * (bitcount n : Int) + 4))
      = 2 ^ (-(prec : ℤ) - 3 * (bitcount n : ℤ) - 2) := by
    rw [← zpow_natCast (2 : ℚ) (bitcount n)]
    have : (2 : ℚ) = 2 ^ (1 : ℤ) := by norm_num
    nth_rewrite 1 [this]
    rw [← zpow_add₀ (by norm_num), ← zpow_add₀ (by norm_num)]
    congr 1; ring
  have h1 : 2 * (n : ℚ) * 2 ^ (1 - (prec + 4 * (bitcount n : Int) + 4))
      ≤ 2 * 2 ^ (bitcount n) * 2 ^ (1 - (prec + 4 * (bitcount n : Int) + 4)) := by
    apply mul_le_mul_of_nonneg_right _ hpos.le
    linarith
  have h2 : (2 : ℚ) ^ (-(prec : ℤ) - 3 * (bitcount n : ℤ) - 2) ≤ 2 ^ (-(prec.toNat : ℤ) - 3) := by
    apply zpow_le_zpow_right₀ (by norm_num)
    have : (prec.toNat : ℤ) = prec := by omega
    omega
  linarith

/-- what is proved about every result of `mpf_pow_int` with a nonnegative exponent -/
structure PowOK (prec : Int) (rnd : Rnd) (x : ℚ) (r : Mpf) : Prop where
  canon : CanonFin r
  bc_le : r.bc ≤ prec
  repb : Repb prec.toNat (val r)
  side : OnSide rnd x (val r)
  faithful : rnd = .n → Faithful prec.toNat x (val r)
  pos : 0 < x → 0 < val r
  neg : x < 0 → val r < 0

theorem powIntPos_loop_spec {s : Mpf} (hs : CanonFin s) (hm0 : s.man ≠ 0) {n : Nat} (hn : 3 ≤ n)
    (hm1 : s.man ≠ 1) (hb : ¬ s.bc * n < 1000) {prec : Int} (hp : 0 < prec) (rnd : Rnd) :
    PowOK prec rnd (val s ^ n) (powIntPos s n prec rnd) := by
  rcases hs.cases with rfl | ⟨_, hsg, hodd, hbc⟩
  · exact absurd rfl hm0
  rw [powIntPos_loop_eq s hn hm1 hb]
  have hrs := and_le_one s.sign n hsg
  have hX : val s ^ n = (-1 : ℚ) ^ (s.sign &&& n) * ((s.man : ℚ) * 2 ^ s.exp) ^ n := by
    rw [val_def, mul_pow, neg_one_pow_and s.sign n hsg]
  have hwp : 1 ≤ prec + 4 * (bitcount n : Int) + 4 := by omega
  have hp' : 0 < prec.toNat := by omega
  have ha : (0 : ℚ) < (s.man : ℚ) * 2 ^ s.exp := by
    have : (0 : ℚ) < s.man := by exact_mod_cast Nat.pos_of_ne_zero hm0
    positivity
  have hXpos : (0 : ℚ) < ((s.man : ℚ) * 2 ^ s.exp) ^ n := by positivity
  rw [hX, hbc]
  generalize hrs' : s.sign &&& n = rs at *
  generalize hXg : ((s.man : ℚ) * 2 ^ s.exp) ^ n = X at *
  -- sign transfer
  have hsgn : ∀ {R : ℚ}, 0 < R → ∀ {y : ℚ}, IsRound prec.toNat rnd ((-1 : ℚ) ^ rs * R) y →
      ((0 < (-1 : ℚ) ^ rs * X → 0 < y) ∧ ((-1 : ℚ) ^ rs * X < 0 → y < 0)) := by
    intro R hR y hy
    have : rs = 0 ∨ rs = 1 := by omega
    rcases this with rfl | rfl
    · simp only [pow_zero, one_mul] at hy ⊢
      exact ⟨fun _ => isRound_pos hp' hR hy, fun h => absurd h (by linarith)⟩
    · simp only [pow_one, neg_one_mul] at hy ⊢
      exact ⟨fun h => absurd h (by linarith), fun _ => isRound_neg' hp' (by linarith) hy⟩
  cases hrd : (rnd == .n || shiftsDown rnd rs)
  · -- every truncation was away from zero
    have hnn : rnd ≠ .n := by intro h; subst h; simp at hrd
    have hsd : shiftsDown rnd rs = false := by
      cases h : shiftsDown rnd rs
      · rfl
      · rw [h] at hrd; simp at hrd
    obtain ⟨hw, _, hle⟩ := powLoop_up hwp hm0 s.exp (n := n) (by omega)
    rw [hXg] at hle
    generalize powLoop false (prec + 4 * (bitcount n : Int) + 4) (bitcount n + 1) (1, 0, 1)
      (s.man, s.exp, (bitcount s.man : Int)) n = R at *
    have hR0 : (0 : ℚ) < tv R := lt_of_lt_of_le hXpos hle
    obtain ⟨hc, _, h3⟩ := normalize_weak_spec hrs hw R.2.1 hp rnd
    obtain ⟨hr, hbcle⟩ := h3 hp
    have hsg' := hsgn hR0 hr
    exact ⟨hc, hbcle, hr.repb, onSide_of_mag hrs hR0 hXpos (fun h => by rw [hsd] at h; exact absurd h (by decide))
      (fun _ => hle) hr.onSide, fun h => absurd h hnn, hsg'.1, hsg'.2⟩
  · -- every truncation was toward zero
    obtain ⟨hR1, hRb, hle, hge⟩ := powLoop_down hwp hm0 s.exp (n := n) (by omega)
    rw [hXg] at hle hge
    generalize powLoop true (prec + 4 * (bitcount n : Int) + 4) (bitcount n + 1) (1, 0, 1)
      (s.man, s.exp, (bitcount s.man : Int)) n = R at *
    have hR0 : (0 : ℚ) < tv R := by
      have : (0 : ℚ) < R.1 := by exact_mod_cast Nat.pos_of_ne_zero hR1
      unfold tv; positivity
    rw [hRb]
    obtain ⟨hc, _, h3⟩ := normalize_spec hrs R.1 R.2.1 hp rnd
    obtain ⟨hr, hbcle⟩ := h3 hp
    have hsg' := hsgn hR0 hr
    refine ⟨hc, hbcle, hr.repb, onSide_of_mag hrs hR0 hXpos (fun _ => hle) (fun h => ?_) hr.onSide, fun h => ?_,
      hsg'.1, hsg'.2⟩
    · exfalso
      cases rnd <;> simp_all [shiftsDown]
    · subst h
      have hN : IsRoundN prec.toNat ((-1 : ℚ) ^ rs * tv R) (val (normalize rs R.1 R.2.1 (bitcount R.1) prec .n)) := hr
      apply faithful_of_near hp' hN
      have hsmall := loop_err_small hp hn
      have heps := eps_pos (prec + 4 * (bitcount n : Int) + 4)
      have h1 : 2 * (n : ℚ) * eps (prec + 4 * (bitcount n : Int) + 4) ≤ 1 := by
        refine le_trans hsmall ?_
        apply zpow_le_one_of_nonpos₀ (by norm_num); omega
      have h2 := pow_one_add_le heps.le n h1
      have habs : |(-1 : ℚ) ^ rs * tv R - (-1 : ℚ) ^ rs * X| = X - tv R := by
        rw [← mul_sub, abs_mul, abs_pow, abs_neg, abs_one, one_pow, one_mul, abs_sub_comm,
          abs_of_nonneg (by linarith)]
      have habs2 : |(-1 : ℚ) ^ rs * X| = X := by
        rw [abs_mul, abs_pow, abs_neg, abs_one, one_pow, one_mul, abs_of_pos hXpos]
      rw [habs, habs2]
      have h3 : X - tv R ≤ tv R * (2 * (n : ℚ) * eps (prec + 4 * (bitcount n : Int) + 4)) := by
        have : tv R * (1 + eps (prec + 4 * (bitcount n : Int) + 4)) ^ n
            ≤ tv R * (1 + 2 * n * eps (prec + 4 * (bitcount n : Int) + 4)) :=
          mul_le_mul_of_nonneg_left h2 hR0.le
        nlinarith
      calc X - tv R ≤ tv R * (2 * (n : ℚ) * eps (prec + 4 * (bitcount n : Int) + 4)) := h3
        _ ≤ X * (2 * (n : ℚ) * eps (prec + 4 * (bitcount n : Int) + 4)) :=
          mul_le_mul_of_nonneg_right hle (by positivity)
        _ ≤ X * 2 ^ (-(prec.toNat : ℤ) - 3) := mul_le_mul_of_nonneg_left hsmall hXpos.le

/-! ### exact results in the loop regime: no truncation ever happens -/

theorem powTrunc_fits (rd : Bool) {wp : Int} {m : Nat} (e : Int) (h : (bitcount m : Int) ≤ wp) :
    powTrunc rd wp m e (bitcount m) = (m, e, (bitcount m : Int)) := by
  unfold powTrunc
  rw [if_neg (by omega)]

theorem powLoop_exact (rd : Bool) {wp : Int} {m : Nat} (hm : m ≠ 0) (e : Int) {n : Nat} (hn : 1 ≤ n)
    (hfit : (bitcount (m ^ n) : Int) ≤ wp) :
    powLoop rd wp (bitcount n + 1) (1, 0, 1) (m, e, bitcount m) n = (m ^ n, e * n, (bitcount (m ^ n) : Int)) := by
  have hfuel : n < 2 ^ (bitcount n + 1) := lt_trans (bitcount_lt n) (Nat.pow_lt_pow_right (by norm_num) (by omega))
  let I : Nat × Int × Int → ℚ → ℕ → Prop := fun P tp _ =>
    ∃ j : ℕ, tp = (2 : ℚ) ^ j ∧ (j ≤ n → P = (m ^ j, e * j, (bitcount (m ^ j) : Int)))
  have hmul : ∀ P B tp tb cp cb, I P tp cp → I B tb cb → I (mulStep rd wp P B) (tp * tb) (cp + cb + 1) := by
    rintro P B tp tb cp cb ⟨jp, rfl, hP⟩ ⟨jb, rfl, hB⟩
    refine ⟨jp + jb, (pow_add _ _ _).symm, fun hj => ?_⟩
    rw [hP (by omega), hB (by omega)]
    have hmj : ∀ j, m ^ j ≠ 0 := fun j => pow_ne_zero j hm
    have hbc := prod_bc (WB.of_bitcount (hmj jp)) (WB.of_bitcount (hmj jb))
    rw [← pow_add] at hbc
    unfold mulStep
    simp only [← pow_add, hbc]
    have hle : m ^ (jp + jb) ≤ m ^ n := Nat.pow_le_pow_right (Nat.pos_of_ne_zero hm) hj
    have hb : (bitcount (m ^ (jp + jb)) : Int) ≤ wp := by
      have := bitcount_mono hle; omega
    rw [powTrunc_fits rd _ hb]
    congr 2
    push_cast; ring
  have h := powLoop_inv rd wp I hmul (bitcount n + 1) (1, 0, 1) (m, e, bitcount m) n 1 2 0 0 hn hfuel
    ⟨0, by simp, fun _ => by simp [bitcount_one]⟩ ⟨1, by simp, fun _ => by simp⟩
  obtain ⟨j, hj, hR⟩ := h
  have : j = n := by
    have h2 : (2 : ℚ) ^ n = 2 ^ j := by rw [← hj]; ring
    have h3 : (2 : ℕ) ^ n = 2 ^ j := by exact_mod_cast h2
    exact (Nat.pow_right_injective (le_refl 2) h3).symm
  subst this
  exact hR (le_refl _)

/-- a value with an odd mantissa is `p`-bit representable only if that mantissa has at most `p` bits -/
theorem bitcount_le_of_repb_odd {p : ℕ} {M : ℕ} (hodd : M % 2 = 1) {E : ℤ}
    (h : Repb p ((M : ℚ) * 2 ^ E)) : bitcount M ≤ p := by
  obtain ⟨m', e', hm', heq⟩ := h
  apply bitcount_le_of_lt
  -- compare on the common exponent
  rcases le_total E e' with hle | hle
  · -- M = m' * 2^(e'-E)
    obtain ⟨k, hk⟩ : ∃ k : ℕ, e' - E = k := ⟨(e' - E).toNat, by omega⟩
    have he' : e' = E + k := by omega
    rw [he', zpow_add₀ (by norm_num), zpow_natCast] at heq
    have hE : (0 : ℚ) < 2 ^ E := by positivity
    have h1 : (M : ℚ) = (m' : ℚ) * 2 ^ k := by
      have : (M : ℚ) * 2 ^ E = ((m' : ℚ) * 2 ^ k) * 2 ^ E := by rw [heq]; ring
      exact mul_right_cancel₀ hE.ne' this
    have h2 : (M : ℤ) = m' * 2 ^ k := by exact_mod_cast h1
    have hk0 : k = 0 := by
      by_contra hk0
      obtain ⟨k', rfl⟩ : ∃ k', k = k' + 1 := ⟨k - 1, by omega⟩
      have : (M : ℤ) % 2 = 0 := by rw [h2, pow_succ, ← mul_assoc]; exact Int.mul_emod_left _ 2
      omega
    subst hk0
    simp only [pow_zero, mul_one] at h2
    have : (M : ℤ) < 2 ^ p := by rw [h2]; exact lt_of_le_of_lt (le_abs_self _) hm'
    exact_mod_cast this
  · obtain ⟨k, hk⟩ : ∃ k : ℕ, E - e' = k := ⟨(E - e').toNat, by omega⟩
    have he' : E = e' + k := by omega
    rw [he', zpow_add₀ (by norm_num), zpow_natCast] at heq
    have hE : (0 : ℚ) < 2 ^ e' := by positivity
    have h1 : (M : ℚ) * 2 ^ k = (m' : ℚ) := by
      have : ((M : ℚ) * 2 ^ k) * 2 ^ e' = (m' : ℚ) * 2 ^ e' := by rw [← heq]; ring
      exact mul_right_cancel₀ hE.ne' this
    have h2 : (M : ℤ) * 2 ^ k = m' := by exact_mod_cast h1
    have h3 : (M : ℤ) ≤ |m'| := by
      rw [← h2, abs_mul, abs_pow]
      have : (1 : ℤ) ≤ |(2 : ℤ)| ^ k := one_le_pow₀ (by norm_num)
      have hM : (0 : ℤ) ≤ |(M : ℤ)| := abs_nonneg _
      calc (M : ℤ) ≤ |(M : ℤ)| := le_abs_self _
        _ = |(M : ℤ)| * 1 := (mul_one _).symm
        _ ≤ |(M : ℤ)| * |(2 : ℤ)| ^ k := mul_le_mul_of_nonneg_left this hM
    have : (M : ℤ) < 2 ^ p := lt_of_le_of_lt h3 hm'
    exact_mod_cast this

/-! ### the regimes put together -/

theorem val_fone : val fone = 1 := by simp [val, fone]

theorem PowOK.of_roundOK {prec : Int} (hp : 0 < prec) {rnd : Rnd} {x : ℚ} {r : Mpf}
    (h : RoundOK prec rnd x r) : PowOK prec rnd x r := by
  obtain ⟨hc, _, h3⟩ := h
  obtain ⟨hr, hb⟩ := h3 hp
  have hp' : 0 < prec.toNat := by omega
  refine ⟨hc, hb, hr.repb, hr.onSide, fun hn => ?_, fun hx => isRound_pos hp' hx hr,
    fun hx => isRound_neg' hp' hx hr⟩
  subst hn
  exact faithful_of_near hp' hr (by simp only [sub_self, abs_zero]; positivity)

/-- a canonical value that fits the precision is its own correct rounding -/
theorem roundOK_self {prec : Int} (hp : 0 < prec) (rnd : Rnd) {r : Mpf} (hc : CanonFin r) (hb : r.bc ≤ prec) :
    RoundOK prec rnd (val r) r := by
  refine ⟨hc, fun h => by omega, fun _ => ⟨isRound_self rnd ?_, hb⟩⟩
  rcases hc.cases with rfl | ⟨_, _, _, hbc⟩
  · rw [val_fzero]; exact repb_zero _
  · rw [val_def]; exact repb_of_bitcount_le (by omega) _ _

theorem powIntPos_small_spec {s : Mpf} (hs : CanonFin s) {n : Nat}
    (h : n ≤ 2 ∨ s.man = 1 ∨ s.bc * n < 1000) {prec : Int} (hp : 0 < prec) (rnd : Rnd) :
    RoundOK prec rnd (val s ^ n) (powIntPos s n prec rnd) := by
  unfold powIntPos
  by_cases h0 : n = 0
  · subst h0
    simp only [if_true, pow_zero]
    have := roundOK_self hp rnd (r := fone) (Or.inr ⟨by decide, by decide, by decide⟩) (by simp [fone]; omega)
    rwa [val_fone] at this
  by_cases h1 : n = 1
  · subst h1
    simp only [h0, if_false, if_true, pow_one]
    exact mpf_pos_spec hs hp.le rnd
  rcases hs.cases with rfl | ⟨hm0, hsg, hodd, hbc⟩
  · -- zero base
    have hz : val fzero ^ n = 0 := by rw [val_fzero]; exact zero_pow h0
    rw [hz]
    by_cases h2 : n = 2
    · subst h2; simp [fzero]; exact roundOK_fzero hp.le rnd
    · have : (0 : ℕ) ^ n = 0 := zero_pow h0
      simp [h0, h1, h2, fzero, normalize1, this]
      exact roundOK_fzero hp.le rnd
  by_cases h2 : n = 2
  · subst h2
    simp only [h0, h1, hm0, if_false, if_true]
    have hv : val s ^ 2 = (-1 : ℚ) ^ 0 * (((s.man * s.man : ℕ) : ℚ) * 2 ^ (s.exp + s.exp)) := by
      rw [val_def, mul_pow, ← pow_mul, zpow_add₀ (by norm_num)]
      have : ((-1 : ℚ)) ^ (s.sign * 2) = 1 := by rw [mul_comm, pow_mul]; simp
      rw [this]; push_cast; ring
    by_cases hone : s.man * s.man = 1
    · simp only [hone, if_true]
      rw [hv, hone]
      have hc : CanonFin ⟨0, 1, s.exp + s.exp, 1⟩ := Or.inr ⟨by simp, by simp, by simp [bitcount_one]⟩
      have := roundOK_self hp rnd hc (by simp; omega)
      rw [val_def] at this
      simpa using this
    · simp only [hone, if_false]
      have hw := WB.of_bitcount hm0
      have hbcp := prod_bc hw hw
      rw [hbc, hbcp, hv]
      exact normalize1_spec (by decide) (Or.inl (by rw [Nat.mul_mod, hodd])) _ hp rnd
  · have h3 : 3 ≤ n := by omega
    simp only [h0, h1, h2, if_false]
    have hrs := and_le_one s.sign n hsg
    have hv : val s ^ n = (-1 : ℚ) ^ (s.sign &&& n) * (((s.man ^ n : ℕ) : ℚ) * 2 ^ (s.exp * n)) := by
      rw [val_def, mul_pow, neg_one_pow_and s.sign n hsg, mul_pow, ← zpow_natCast ((2 : ℚ) ^ s.exp) n, ← zpow_mul]
      push_cast; ring
    by_cases hm1 : s.man = 1
    · simp only [hm1, if_true]
      rw [hv, hm1]
      have hc : CanonFin ⟨s.sign &&& n, 1, s.exp * n, 1⟩ := Or.inr ⟨hrs, by simp, by simp [bitcount_one]⟩
      have := roundOK_self hp rnd hc (by simp; omega)
      rw [val_def] at this
      simpa using this
    · have hb : s.bc * n < 1000 := by
        rcases h with h | h | h
        · omega
        · exact absurd h hm1
        · exact h
      simp only [hm1, hb, if_false, if_true]
      rw [hv]
      refine normalize1_spec hrs (Or.inl ?_) _ hp rnd
      rw [Nat.pow_mod, hodd]; simp

/-- **`mpf_pow_int`, nonnegative exponents, all regimes** -/
theorem powIntPos_spec {s : Mpf} (hs : CanonFin s) (n : Nat) {prec : Int} (hp : 0 < prec) (rnd : Rnd) :
    PowOK prec rnd (val s ^ n) (powIntPos s n prec rnd) := by
  by_cases h : n ≤ 2 ∨ s.man = 1 ∨ s.bc * n < 1000
  · exact PowOK.of_roundOK hp (powIntPos_small_spec hs h hp rnd)
  · push Not at h
    have hm0 : s.man ≠ 0 := by
      intro h0
      rcases hs.cases with rfl | ⟨hm, _⟩
      · have := h.2.2; simp [fzero] at this
      · exact hm h0
    exact powIntPos_loop_spec hs hm0 (by omega) h.2.1 (by omega) hp rnd

/-- exact results are returned exactly, in every mode and regime -/
theorem powIntPos_exact {s : Mpf} (hs : CanonFin s) (n : Nat) {prec : Int} (hp : 0 < prec) (rnd : Rnd)
    (hrep : Repb prec.toNat (val s ^ n)) : val (powIntPos s n prec rnd) = val s ^ n := by
  by_cases h : n ≤ 2 ∨ s.man = 1 ∨ s.bc * n < 1000
  · have := (powIntPos_small_spec hs h hp rnd).2.2 hp
    exact isRound_unique this.1 (isRound_self rnd hrep)
  · push Not at h
    rcases hs.cases with rfl | ⟨hm0, hsg, hodd, hbc⟩
    · have := h.2.2; simp [fzero] at this
    have hn : 3 ≤ n := by omega
    rw [powIntPos_loop_eq s hn h.2.1 (by omega)]
    have hv : val s ^ n = (-1 : ℚ) ^ (s.sign &&& n) * (((s.man ^ n : ℕ) : ℚ) * 2 ^ (s.exp * n)) := by
      rw [val_def, mul_pow, neg_one_pow_and s.sign n hsg, mul_pow, ← zpow_natCast ((2 : ℚ) ^ s.exp) n, ← zpow_mul]
      push_cast; ring
    have hoddn : s.man ^ n % 2 = 1 := by rw [Nat.pow_mod, hodd]; simp
    have hbits : bitcount (s.man ^ n) ≤ prec.toNat := by
      rw [hv] at hrep
      have hrep' : Repb prec.toNat (((s.man ^ n : ℕ) : ℚ) * 2 ^ (s.exp * n)) := by
        have hrs := and_le_one s.sign n hsg
        have : s.sign &&& n = 0 ∨ s.sign &&& n = 1 := by omega
        rcases this with h0 | h1
        · rw [h0] at hrep; simpa using hrep
        · rw [h1] at hrep
          have := hrep.neg
          simpa using this
      exact bitcount_le_of_repb_odd hoddn hrep'
    have hfit : (bitcount (s.man ^ n) : Int) ≤ prec + 4 * (bitcount n : Int) + 4 := by omega
    rw [hbc, powLoop_exact _ hm0 s.exp (by omega) hfit, hv]
    dsimp only
    exact normalize_val_of_fits _ _ (by omega) rnd

/-! ### negative exponents: `1 / (s^(-n))` with the reciprocal rounding mode and 5 extra bits -/

theorem recip_spec {prec : Int} (hp : 0 < prec) (rnd : Rnd) {X : ℚ} {inv r : Mpf} (hX : X ≠ 0)
    (hinv : PowOK (prec + 5) (reciprocalRnd rnd) X inv) (hr : RoundOK prec rnd (1 / val inv) r) :
    PowOK prec rnd (1 / X) r := by
  have base := PowOK.of_roundOK hp hr
  have hp' : 0 < prec.toNat := by omega
  have hI : (0 < X → 0 < val inv) ∧ (X < 0 → val inv < 0) := ⟨hinv.pos, hinv.neg⟩
  have hside := hinv.side
  have hsr := base.side
  refine ⟨base.canon, base.bc_le, base.repb, ?_, ?_, ?_, ?_⟩
  · -- side
    rcases lt_or_gt_of_ne hX with hneg | hpos
    · have hIneg := hI.2 hneg
      have h1 : 1 / val inv < 0 := one_div_neg.2 hIneg
      have h2 : 1 / X < 0 := one_div_neg.2 hneg
      cases rnd <;> simp only [OnSide, reciprocalRnd] at hside hsr ⊢
      · have := one_div_le_one_div_of_neg_of_le hIneg hside; linarith
      · have := one_div_le_one_div_of_neg_of_le hneg hside; linarith
      · have h3 := (hside.2 hneg.le).1
        have := one_div_le_one_div_of_neg_of_le hIneg h3
        exact ⟨fun h => absurd h (by linarith), fun _ => by have := hsr.2 h1.le; linarith⟩
      · have h3 := hside.2 hneg.le
        have := one_div_le_one_div_of_neg_of_le hneg h3
        have h4 := hsr.2 h1.le
        exact ⟨fun h => absurd h (by linarith), fun _ => ⟨by linarith, h4.2⟩⟩
    · have hIpos := hI.1 hpos
      have h1 : 0 < 1 / val inv := one_div_pos.2 hIpos
      have h2 : 0 < 1 / X := one_div_pos.2 hpos
      cases rnd <;> simp only [OnSide, reciprocalRnd] at hside hsr ⊢
      · have := one_div_le_one_div_of_le hpos hside; linarith
      · have := one_div_le_one_div_of_le hIpos hside; linarith
      · have h3 := (hside.1 hpos.le).2
        have := one_div_le_one_div_of_le hIpos h3
        exact ⟨fun _ => by have := hsr.1 h1.le; linarith, fun h => absurd h (by linarith)⟩
      · have h3 := hside.1 hpos.le
        have := one_div_le_one_div_of_le hpos h3
        have h4 := hsr.1 h1.le
        exact ⟨fun _ => ⟨h4.1, by linarith⟩, fun h => absurd h (by linarith)⟩
  · -- nearest: faithful
    intro hn
    subst hn
    have hf := hinv.faithful rfl
    have hp5 : 0 < (prec + 5).toNat := by omega
    have hrel := hf.relerr hp5
    have hNr : IsRoundN prec.toNat (1 / val inv) (val r) := (hr.2.2 hp).1
    apply faithful_of_near hp' hNr
    have e5 : (1 - ((prec + 5).toNat : ℤ)) = -(prec.toNat : ℤ) - 4 := by omega
    rw [e5] at hrel
    have hI0 : val inv ≠ 0 := by
      rcases lt_or_gt_of_ne hX with h | h
      · exact (hI.2 h).ne
      · exact (hI.1 h).ne'
    have hXa : 0 < |X| := abs_pos.2 hX
    have hIa : 0 < |val inv| := abs_pos.2 hI0
    have h4 : (2 : ℚ) ^ (-(prec.toNat : ℤ) - 3) = 2 * 2 ^ (-(prec.toNat : ℤ) - 4) := by
      have : (-(prec.toNat : ℤ) - 3) = (-(prec.toNat : ℤ) - 4) + 1 := by ring
      rw [this, zpow_add_one₀ (by norm_num)]; ring
    have hd : (0 : ℚ) < 2 ^ (-(prec.toNat : ℤ) - 4) := by positivity
    have hd1 : (2 : ℚ) ^ (-(prec.toNat : ℤ) - 4) ≤ 1 / 2 := by
      have : (2 : ℚ) ^ (-(prec.toNat : ℤ) - 4) ≤ 2 ^ (-1 : ℤ) := zpow_le_zpow_right₀ (by norm_num) (by omega)
      simpa using this
    -- |I| ≥ |X| / 2
    have hIX : |X| ≤ 2 * |val inv| := by
      have : |X| - |val inv| ≤ |val inv - X| := by
        have := abs_sub_abs_le_abs_sub X (val inv)
        rwa [abs_sub_comm] at this
      nlinarith
    have e1 : 1 / val inv - 1 / X = (X - val inv) / (val inv * X) := by
      field_simp
    rw [e1, abs_div, abs_mul, abs_div, abs_one, abs_sub_comm, h4]
    rw [div_le_iff₀ (by positivity)]
    have : 1 / |X| * (2 * 2 ^ (-(prec.toNat : ℤ) - 4)) * (|val inv| * |X|)
        = 2 * |val inv| * 2 ^ (-(prec.toNat : ℤ) - 4) := by field_simp
    rw [this]
    calc |val inv - X| ≤ |X| * 2 ^ (-(prec.toNat : ℤ) - 4) := hrel
      _ ≤ 2 * |val inv| * 2 ^ (-(prec.toNat : ℤ) - 4) := mul_le_mul_of_nonneg_right hIX hd.le
  · intro h
    exact base.pos (one_div_pos.2 (hI.1 (one_div_pos.1 h)))
  · intro h
    exact base.neg (one_div_neg.2 (hI.2 (one_div_neg.1 h)))

theorem val_ne_zero_of_ne_fzero {s : Mpf} (hs : CanonFin s) (h0 : s ≠ fzero) : val s ≠ 0 := by
  rcases hs.cases with rfl | ⟨hm, _⟩
  · exact absurd rfl h0
  · rw [val_def]
    have : (0 : ℚ) < s.man := by exact_mod_cast Nat.pos_of_ne_zero hm
    have h2 : (0 : ℚ) < (s.man : ℚ) * 2 ^ s.exp := by positivity
    have h1 : ((-1 : ℚ)) ^ s.sign ≠ 0 := pow_ne_zero _ (by norm_num)
    exact mul_ne_zero h1 h2.ne'

theorem ne_fzero_of_val_ne_zero {s : Mpf} (h : val s ≠ 0) : s ≠ fzero := by
  intro h0; rw [h0, val_fzero] at h; exact h rfl

/-- **`mpf_pow_int`, negative exponents of a nonzero base** -/
theorem mpf_pow_int_neg_spec {s : Mpf} (hs : CanonFin s) (hs0 : s ≠ fzero) {n : Int} (hn : n < 0)
    {prec : Int} (hp : 0 < prec) (rnd : Rnd) :
    ∃ r, mpf_pow_int s n prec rnd = .ok r ∧ PowOK prec rnd (val s ^ n) r := by
  have hv0 := val_ne_zero_of_ne_fzero hs hs0
  unfold mpf_pow_int
  simp only [hs.finite, Bool.false_eq_true, if_false, show ¬ (n ≥ 0) by omega]
  by_cases h1 : n = -1
  · subst h1
    simp only [if_true]
    obtain ⟨r, hr, hok⟩ := mpf_div_spec (Or.inr ⟨by decide, by decide, by decide⟩ : CanonFin fone) hs hs0 hp rnd
    refine ⟨r, hr, ?_⟩
    have : val s ^ (-1 : ℤ) = val fone / val s := by rw [val_fone, zpow_neg_one, one_div]
    rw [this]
    exact PowOK.of_roundOK hp hok
  · simp only [h1, if_false]
    obtain ⟨m, hm⟩ : ∃ m : ℕ, -n = m := ⟨(-n).toNat, by omega⟩
    rw [hm, Int.toNat_natCast]
    have hinv := powIntPos_spec hs m (show 0 < prec + 5 by omega) (reciprocalRnd rnd)
    have hX : val s ^ m ≠ 0 := pow_ne_zero _ hv0
    have hI0 : val (powIntPos s m (prec + 5) (reciprocalRnd rnd)) ≠ 0 := by
      rcases lt_or_gt_of_ne hX with h | h
      · exact (hinv.neg h).ne
      · exact (hinv.pos h).ne'
    obtain ⟨r, hr, hok⟩ := mpf_div_spec (Or.inr ⟨by decide, by decide, by decide⟩ : CanonFin fone)
      hinv.canon (ne_fzero_of_val_ne_zero hI0) hp rnd
    refine ⟨r, hr, ?_⟩
    rw [val_fone] at hok
    have hz : val s ^ n = 1 / val s ^ m := by
      have : n = -(m : ℤ) := by omega
      rw [this, zpow_neg, zpow_natCast, one_div]
    rw [hz]
    exact recip_spec hp rnd hX hinv hok

/-- an odd number whose reciprocal is a dyadic rational is 1 -/
theorem odd_inv_dyadic {M : ℕ} (hodd : M % 2 = 1) {m' k : ℤ} (h : (M : ℚ) * m' = 2 ^ k) : M = 1 := by
  rcases le_or_gt 0 k with hk | hk
  · obtain ⟨j, rfl⟩ : ∃ j : ℕ, k = j := ⟨k.toNat, by omega⟩
    rw [zpow_natCast] at h
    have h2 : (M : ℤ) * m' = 2 ^ j := by exact_mod_cast h
    have hdvd : (M : ℤ) ∣ 2 ^ j := ⟨m', h2.symm⟩
    have hdvd' : M ∣ 2 ^ j := by exact_mod_cast hdvd
    have hcop : Nat.Coprime M (2 ^ j) :=
      Nat.Coprime.pow_right j (Nat.coprime_two_right.2 (Nat.odd_iff.2 hodd))
    exact Nat.Coprime.eq_one_of_dvd hcop hdvd'
  · obtain ⟨j, hj⟩ : ∃ j : ℕ, -k = j := ⟨(-k).toNat, by omega⟩
    have hk' : k = -(j : ℤ) := by omega
    rw [hk', zpow_neg, zpow_natCast] at h
    have hpos : (0 : ℚ) < 2 ^ j := by positivity
    have h1 : (M : ℚ) * m' * 2 ^ j = 1 := by rw [h]; field_simp
    have h2 : (M : ℤ) * (m' * 2 ^ j) = 1 := by
      have : ((M : ℤ) : ℚ) * ((m' : ℚ) * 2 ^ j) = 1 := by push_cast; linarith
      exact_mod_cast this
    have hdvd : (M : ℤ) ∣ 1 := ⟨_, h2.symm⟩
    have : M ∣ 1 := by exact_mod_cast hdvd
    exact Nat.dvd_one.1 this

/-- exact results of negative powers are returned exactly (they only exist for power-of-two bases) -/
theorem mpf_pow_int_neg_exact {s : Mpf} (hs : CanonFin s) (hs0 : s ≠ fzero) {n : Int} (hn : n < 0)
    {prec : Int} (hp : 0 < prec) (rnd : Rnd) (hrep : Repb prec.toNat (val s ^ n)) :
    ∃ r, mpf_pow_int s n prec rnd = .ok r ∧ val r = val s ^ n := by
  have hv0 := val_ne_zero_of_ne_fzero hs hs0
  unfold mpf_pow_int
  simp only [hs.finite, Bool.false_eq_true, if_false, show ¬ (n ≥ 0) by omega]
  by_cases h1 : n = -1
  · subst h1
    simp only [if_true]
    obtain ⟨r, hr, hok⟩ := mpf_div_spec (Or.inr ⟨by decide, by decide, by decide⟩ : CanonFin fone) hs hs0 hp rnd
    refine ⟨r, hr, ?_⟩
    have e : val s ^ (-1 : ℤ) = val fone / val s := by rw [val_fone, zpow_neg_one, one_div]
    rw [e] at hrep ⊢
    exact isRound_unique (hok.2.2 hp).1 (isRound_self rnd hrep)
  · simp only [h1, if_false]
    obtain ⟨m, hm⟩ : ∃ m : ℕ, -n = m := ⟨(-n).toNat, by omega⟩
    rw [hm, Int.toNat_natCast]
    have hm2 : 2 ≤ m := by omega
    have hz : val s ^ n = 1 / val s ^ m := by
      have : n = -(m : ℤ) := by omega
      rw [this, zpow_neg, zpow_natCast, one_div]
    rcases hs.cases with rfl | ⟨hm0, hsg, hodd, hbc⟩
    · exact absurd rfl hs0
    -- the mantissa must be 1
    have hv : val s ^ m = (-1 : ℚ) ^ (s.sign &&& m) * (((s.man ^ m : ℕ) : ℚ) * 2 ^ (s.exp * m)) := by
      rw [val_def, mul_pow, neg_one_pow_and s.sign m hsg, mul_pow, ← zpow_natCast ((2 : ℚ) ^ s.exp) m, ← zpow_mul]
      push_cast; ring
    have hoddm : s.man ^ m % 2 = 1 := by rw [Nat.pow_mod, hodd]; simp
    have hman : s.man ^ m = 1 := by
      obtain ⟨m', e', _, heq⟩ := hrep
      rw [hz, hv] at heq
      have hE : (0 : ℚ) < 2 ^ (s.exp * m) := by positivity
      have hE' : (0 : ℚ) < 2 ^ e' := by positivity
      have hsq : ((-1 : ℚ) ^ (s.sign &&& m)) * ((-1 : ℚ) ^ (s.sign &&& m)) = 1 := by
        rw [← pow_add, ← two_mul, pow_mul]; simp
      have hM : (0 : ℚ) < ((s.man ^ m : ℕ) : ℚ) := by
        have : 0 < s.man ^ m := Nat.pos_of_ne_zero (pow_ne_zero _ hm0)
        exact_mod_cast this
      have hne : ((-1 : ℚ) ^ (s.sign &&& m) * (((s.man ^ m : ℕ) : ℚ) * 2 ^ (s.exp * m))) ≠ 0 := by
        rw [← hv]; exact pow_ne_zero _ hv0
      have key : ((s.man ^ m : ℕ) : ℚ) * (((-1 : ℤ) ^ (s.sign &&& m) * m' : ℤ) : ℚ)
          = 2 ^ (-(s.exp * m) - e') := by
        rw [div_eq_iff hne] at heq
        have hD : (2 : ℚ) ^ (s.exp * m) * 2 ^ e' ≠ 0 := by positivity
        have h3 : (2 : ℚ) ^ (-(s.exp * m) - e') * (2 ^ (s.exp * m) * 2 ^ e') = 1 := by
          rw [← zpow_add₀ (by norm_num), ← zpow_add₀ (by norm_num)]
          have : (-(s.exp * (m : ℤ)) - e' + (s.exp * m + e')) = 0 := by ring
          rw [this, zpow_zero]
        have h2 : ((s.man ^ m : ℕ) : ℚ) * (((-1 : ℤ) ^ (s.sign &&& m) * m' : ℤ) : ℚ)
            * (2 ^ (s.exp * m) * 2 ^ e') = 1 := by
          push_cast at heq ⊢
          linear_combination (-1 : ℚ) * heq
        exact mul_right_cancel₀ hD (h2.trans h3.symm)
      exact odd_inv_dyadic hoddm key
    have hman1 : s.man = 1 := by
      rcases Nat.pow_eq_one.1 hman with h | h
      · exact h
      · omega
    -- then the inverse power is exact
    have hXrep : Repb (prec + 5).toNat (val s ^ m) := by
      rw [hv, hman]
      have := repb_of_bitcount_le (K := ℚ) (p := (prec + 5).toNat) (m := 1) (by rw [bitcount_one]; omega)
        (s.sign &&& m) (s.exp * m)
      simpa using this
    have hinvx := powIntPos_exact hs m (show 0 < prec + 5 by omega) (reciprocalRnd rnd) hXrep
    have hinv := powIntPos_spec hs m (show 0 < prec + 5 by omega) (reciprocalRnd rnd)
    have hX : val s ^ m ≠ 0 := pow_ne_zero _ hv0
    have hI0 : val (powIntPos s m (prec + 5) (reciprocalRnd rnd)) ≠ 0 := by rw [hinvx]; exact hX
    obtain ⟨r, hr, hok⟩ := mpf_div_spec (Or.inr ⟨by decide, by decide, by decide⟩ : CanonFin fone)
      hinv.canon (ne_fzero_of_val_ne_zero hI0) hp rnd
    refine ⟨r, hr, ?_⟩
    rw [val_fone, hinvx] at hok
    rw [hz] at hrep ⊢
    exact isRound_unique (hok.2.2 hp).1 (isRound_self rnd hrep)

/-- zero to a negative power raises ZeroDivisionError -/
theorem mpf_pow_int_zero_neg {n : Int} (hn : n < 0) (prec : Int) (rnd : Rnd) :
    mpf_pow_int fzero n prec rnd = .error .zeroDiv := by
  unfold mpf_pow_int
  have hfin : isSpecial fzero = false := rfl
  simp only [hfin, Bool.false_eq_true, if_false, show ¬ (n ≥ 0) by omega]
  have hc1 : CanonFin fone := Or.inr ⟨by decide, by decide, by decide⟩
  by_cases h1 : n = -1
  · subst h1; simp only [if_true]; exact mpf_div_zero hc1 prec rnd
  · simp only [h1, if_false]
    obtain ⟨m, hm⟩ : ∃ m : ℕ, -n = m := ⟨(-n).toNat, by omega⟩
    rw [hm, Int.toNat_natCast]
    have hm2 : 2 ≤ m := by omega
    have : powIntPos fzero m (prec + 5) (reciprocalRnd rnd) = fzero := by
      unfold powIntPos
      have h0 : m ≠ 0 := by omega
      have h1 : m ≠ 1 := by omega
      by_cases h2 : m = 2
      · subst h2; simp [fzero]
      · have : (0 : ℕ) ^ m = 0 := zero_pow h0
        simp [h0, h1, h2, fzero, normalize1, this]
    rw [this]
    exact mpf_div_zero hc1 prec rnd

end Mp
