/-
  MpProofs/CalcFam.lean — the real functions denoted by the families `Mp.Calc.Fam` / `FamInf`, and the
  calculus facts about them (antiderivatives checked by differentiation in Lean, integrals through the
  fundamental theorem of calculus and Mathlib's Gamma / Gaussian integrals).
-/
import MpProofs.CalcRef
import Mathlib.Analysis.SpecialFunctions.Integrals.Basic
import Mathlib.Analysis.SpecialFunctions.ImproperIntegrals
import Mathlib.Analysis.SpecialFunctions.Gaussian.GaussianIntegral
import Mathlib.Analysis.SpecialFunctions.Gamma.Basic
import Mathlib.MeasureTheory.Integral.IntervalIntegral.FundThmCalculus

namespace Mp.Calc
open Mp.Encl MeasureTheory Set

/-- value of a term list `Σ c·x^n` at a real point -/
noncomputable def polyFn (ts : List (ℚ × ℕ)) (x : ℝ) : ℝ := (ts.map fun t => (t.1 : ℝ) * x ^ t.2).sum

/-- the real function denoted by a family -/
noncomputable def Fam.fn : Fam → ℝ → ℝ
  | .poly ts, x => polyFn ts x
  | .expL c, x => Real.exp (c * x)
  | .sinL c, x => Real.sin (c * x)
  | .cosL c, x => Real.cos (c * x)
  | .xexp c, x => x * Real.exp (c * x)
  | .expcos a b, x => Real.exp (a * x) * Real.cos (b * x)
  | .expsin a b, x => Real.exp (a * x) * Real.sin (b * x)
  | .lorentz, x => (1 + x ^ 2)⁻¹
  | .recip c, x => (x + c)⁻¹

theorem polyRef_sem (ts : List (ℚ × ℕ)) (x : Ref) : (polyRef ts x).sem = polyFn ts x.sem := by
  simp only [polyRef, Ref.sem_sum, polyFn, List.map_map]
  congr 1

theorem Fam.valRef_sem (f : Fam) (x : Ref) : (f.valRef x).sem = f.fn x.sem := by
  cases f <;> simp [Fam.valRef, Fam.fn, Ref.sem, polyRef_sem]

/-- the antiderivative denoted by `Fam.primRef` -/
noncomputable def Fam.primFn (f : Fam) (x : ℝ) : ℝ :=
  match f with
  | .poly ts => polyFn (ts.map fun t => (t.1 / ((t.2 + 1 : ℕ) : ℚ), t.2 + 1)) x
  | .expL c => ((1 / c : ℚ) : ℝ) * Real.exp (c * x)
  | .sinL c => ((-1 / c : ℚ) : ℝ) * Real.cos (c * x)
  | .cosL c => ((1 / c : ℚ) : ℝ) * Real.sin (c * x)
  | .xexp c => Real.exp (c * x) * (((1 / c : ℚ) : ℝ) * x + ((-1 / (c * c) : ℚ) : ℝ))
  | .expcos a b => (((1 / (a * a + b * b) : ℚ) : ℝ) * Real.exp (a * x)) *
        ((a : ℝ) * Real.cos (b * x) + (b : ℝ) * Real.sin (b * x))
  | .expsin a b => (((1 / (a * a + b * b) : ℚ) : ℝ) * Real.exp (a * x)) *
        ((a : ℝ) * Real.sin (b * x) + ((-b : ℚ) : ℝ) * Real.cos (b * x))
  | .lorentz => Real.arctan x
  | .recip c => Real.log (x + c)

theorem Fam.primRef_sem (f : Fam) (x : Ref) : (f.primRef x).sem = f.primFn x.sem := by
  cases f <;> simp [Fam.primRef, Fam.primFn, Ref.sem, polyRef_sem]

theorem polyFn_cons (t : ℚ × ℕ) (ts : List (ℚ × ℕ)) (x : ℝ) :
    polyFn (t :: ts) x = (t.1 : ℝ) * x ^ t.2 + polyFn ts x := by
  simp [polyFn]

theorem polyFn_nil (x : ℝ) : polyFn [] x = 0 := by simp [polyFn]

theorem polyFn_continuous (ts : List (ℚ × ℕ)) : Continuous (polyFn ts) := by
  induction ts with
  | nil =>
    have : polyFn [] = fun _ => (0 : ℝ) := funext polyFn_nil
    rw [this]; exact continuous_const
  | cons t ts ih =>
    have : polyFn (t :: ts) = fun x => (t.1 : ℝ) * x ^ t.2 + polyFn ts x := funext (polyFn_cons t ts)
    rw [this]; fun_prop

theorem polyFn_hasDerivAt_prim (ts : List (ℚ × ℕ)) (x : ℝ) :
    HasDerivAt (polyFn (ts.map fun t => (t.1 / ((t.2 + 1 : ℕ) : ℚ), t.2 + 1))) (polyFn ts x) x := by
  induction ts with
  | nil =>
    have : polyFn ([].map fun t : ℚ × ℕ => (t.1 / ((t.2 + 1 : ℕ) : ℚ), t.2 + 1)) = fun _ => (0 : ℝ) :=
      funext fun y => by simp [polyFn]
    rw [this, polyFn_nil]; exact hasDerivAt_const x 0
  | cons t ts ih =>
    have h1 : polyFn ((t :: ts).map fun t : ℚ × ℕ => (t.1 / ((t.2 + 1 : ℕ) : ℚ), t.2 + 1)) =
        fun y => ((t.1 / ((t.2 + 1 : ℕ) : ℚ) : ℚ) : ℝ) * y ^ (t.2 + 1) +
          polyFn (ts.map fun t : ℚ × ℕ => (t.1 / ((t.2 + 1 : ℕ) : ℚ), t.2 + 1)) y :=
      funext fun y => by rw [List.map_cons, polyFn_cons]
    rw [h1, polyFn_cons]
    have h2 := (hasDerivAt_pow (t.2 + 1) x).const_mul ((t.1 / ((t.2 + 1 : ℕ) : ℚ) : ℚ) : ℝ)
    refine HasDerivAt.add (h2.congr_deriv ?_) ih
    push_cast
    have : ((t.2 : ℝ) + 1) ≠ 0 := by positivity
    try simp only [Nat.add_sub_cancel]
    field_simp

/-- `primFn` is an antiderivative of `fn` at every point where the side condition holds -/
theorem Fam.hasDerivAt_primFn (f : Fam) (x : ℝ)
    (hc : match f with
      | .expL c | .sinL c | .cosL c | .xexp c => c ≠ 0
      | .expcos a b | .expsin a b => a * a + b * b ≠ 0
      | .recip c => 0 < x + (c : ℝ)
      | _ => True) :
    HasDerivAt f.primFn (f.fn x) x := by
  cases f with
  | poly ts => exact polyFn_hasDerivAt_prim ts x
  | expL c =>
    have hc' : (c : ℝ) ≠ 0 := by exact_mod_cast hc
    have h := (((hasDerivAt_id' x).const_mul (c : ℝ)).exp).const_mul (((1 / c : ℚ)) : ℝ)
    show HasDerivAt (fun y => ((1 / c : ℚ) : ℝ) * Real.exp (c * y)) (Real.exp (c * x)) x
    refine h.congr_deriv ?_
    push_cast; field_simp
  | sinL c =>
    have hc' : (c : ℝ) ≠ 0 := by exact_mod_cast hc
    have h := (((hasDerivAt_id' x).const_mul (c : ℝ)).cos).const_mul (((-1 / c : ℚ)) : ℝ)
    show HasDerivAt (fun y => ((-1 / c : ℚ) : ℝ) * Real.cos (c * y)) (Real.sin (c * x)) x
    refine h.congr_deriv ?_
    push_cast; field_simp
  | cosL c =>
    have hc' : (c : ℝ) ≠ 0 := by exact_mod_cast hc
    have h := (((hasDerivAt_id' x).const_mul (c : ℝ)).sin).const_mul (((1 / c : ℚ)) : ℝ)
    show HasDerivAt (fun y => ((1 / c : ℚ) : ℝ) * Real.sin (c * y)) (Real.cos (c * x)) x
    refine h.congr_deriv ?_
    push_cast; field_simp
  | xexp c =>
    have hc' : (c : ℝ) ≠ 0 := by exact_mod_cast hc
    have h1 := ((hasDerivAt_id' x).const_mul (c : ℝ)).exp
    have h2 := ((hasDerivAt_id' x).const_mul (((1 / c : ℚ)) : ℝ)).add_const (((-1 / (c * c) : ℚ)) : ℝ)
    have h := h1.mul h2
    show HasDerivAt (fun y => Real.exp (c * y) * (((1 / c : ℚ) : ℝ) * y + ((-1 / (c * c) : ℚ) : ℝ)))
      (x * Real.exp (c * x)) x
    refine h.congr_deriv ?_
    try simp only [Pi.add_apply]
    push_cast; field_simp; ring
  | expcos a b =>
    have hc' : ((a : ℝ) * a + b * b) ≠ 0 := by exact_mod_cast hc
    have hc2 : ((a : ℝ) ^ 2 + (b : ℝ) ^ 2) ≠ 0 := by rw [sq, sq]; exact hc'
    have h1 := (((hasDerivAt_id' x).const_mul (a : ℝ)).exp).const_mul (((1 / (a * a + b * b) : ℚ)) : ℝ)
    have h2 := ((((hasDerivAt_id' x).const_mul (b : ℝ)).cos).const_mul (a : ℝ)).add
      ((((hasDerivAt_id' x).const_mul (b : ℝ)).sin).const_mul (b : ℝ))
    have h := h1.mul h2
    show HasDerivAt (fun y => (((1 / (a * a + b * b) : ℚ) : ℝ) * Real.exp (a * y)) *
        ((a : ℝ) * Real.cos (b * y) + (b : ℝ) * Real.sin (b * y))) (Real.exp (a * x) * Real.cos (b * x)) x
    refine h.congr_deriv ?_
    try simp only [Pi.add_apply]
    push_cast; field_simp; ring
  | expsin a b =>
    have hc' : ((a : ℝ) * a + b * b) ≠ 0 := by exact_mod_cast hc
    have hc2 : ((a : ℝ) ^ 2 + (b : ℝ) ^ 2) ≠ 0 := by rw [sq, sq]; exact hc'
    have h1 := (((hasDerivAt_id' x).const_mul (a : ℝ)).exp).const_mul (((1 / (a * a + b * b) : ℚ)) : ℝ)
    have h2 := ((((hasDerivAt_id' x).const_mul (b : ℝ)).sin).const_mul (a : ℝ)).add
      ((((hasDerivAt_id' x).const_mul (b : ℝ)).cos).const_mul (((-b : ℚ)) : ℝ))
    have h := h1.mul h2
    show HasDerivAt (fun y => (((1 / (a * a + b * b) : ℚ) : ℝ) * Real.exp (a * y)) *
        ((a : ℝ) * Real.sin (b * y) + ((-b : ℚ) : ℝ) * Real.cos (b * y))) (Real.exp (a * x) * Real.sin (b * x)) x
    refine h.congr_deriv ?_
    try simp only [Pi.add_apply]
    push_cast; field_simp; ring
  | lorentz =>
    have h := Real.hasDerivAt_arctan x
    show HasDerivAt (fun y => Real.arctan y) ((1 + x ^ 2)⁻¹) x
    refine h.congr_deriv ?_
    rw [one_div]
  | recip c =>
    have hx : x + (c : ℝ) ≠ 0 := ne_of_gt hc
    have h := ((hasDerivAt_id' x).add_const (c : ℝ)).log hx
    show HasDerivAt (fun y => Real.log (y + c)) ((x + c)⁻¹) x
    refine h.congr_deriv ?_
    rw [one_div]

theorem Fam.continuous_fn (f : Fam) (hf : ∀ c, f ≠ .recip c) : Continuous f.fn := by
  cases f with
  | poly ts => exact polyFn_continuous ts
  | expL c => unfold Fam.fn; fun_prop
  | sinL c => unfold Fam.fn; fun_prop
  | cosL c => unfold Fam.fn; fun_prop
  | xexp c => unfold Fam.fn; fun_prop
  | expcos a b => unfold Fam.fn; fun_prop
  | expsin a b => unfold Fam.fn; fun_prop
  | lorentz =>
    unfold Fam.fn
    exact Continuous.inv₀ (by fun_prop) (fun x => by positivity)
  | recip c => exact absurd rfl (hf c)

/-- fundamental theorem of calculus for the families: the closed form `Fam.integralRef` IS the integral -/
theorem Fam.integral_eq (f : Fam) (a b : ℚ) (r : Ref) (h : f.integralRef a b = some r) :
    ∫ x in (a : ℝ)..(b : ℝ), f.fn x = r.sem := by
  unfold Fam.integralRef at h
  split at h
  · rename_i hok
    simp only [Option.some.injEq] at h
    subst h
    rw [Ref.sem_sub, Fam.primRef_sem, Fam.primRef_sem]
    simp only [Ref.sem]
    by_cases hr : ∃ c, f = .recip c
    · obtain ⟨c, rfl⟩ := hr
      simp only [Fam.intOK, Bool.and_eq_true, decide_eq_true_eq] at hok
      have ha : (0 : ℝ) < a + c := by exact_mod_cast hok.1
      have hb : (0 : ℝ) < b + c := by exact_mod_cast hok.2
      have hpos : ∀ x ∈ uIcc (a : ℝ) (b : ℝ), 0 < x + (c : ℝ) := by
        intro x hx
        rcases le_total (a : ℝ) b with hab | hab
        · rw [uIcc_of_le hab] at hx; linarith [hx.1]
        · rw [uIcc_of_ge hab] at hx; linarith [hx.1]
      apply intervalIntegral.integral_eq_sub_of_hasDerivAt
      · intro x hx
        exact Fam.hasDerivAt_primFn (.recip c) x (hpos x hx)
      · apply ContinuousOn.intervalIntegrable
        intro x hx
        show ContinuousWithinAt (fun y : ℝ => (y + (c : ℝ))⁻¹) _ x
        exact (ContinuousAt.inv₀ (f := fun y : ℝ => y + (c : ℝ)) (by fun_prop) (ne_of_gt (hpos x hx))).continuousWithinAt
    · push Not at hr
      apply intervalIntegral.integral_eq_sub_of_hasDerivAt
      · intro x _
        apply Fam.hasDerivAt_primFn
        cases f <;> simp_all [Fam.intOK]
      · exact (Fam.continuous_fn f hr).intervalIntegrable _ _
  · simp at h

/-! ### infinite ranges -/

/-- integrand of an infinite-range family -/
noncomputable def FamInf.fn : FamInf → ℝ → ℝ
  | .gammaN n, x => x ^ n * Real.exp (-x)
  | .expDecay c _, x => Real.exp (-(c * x))
  | .gaussFull b, x => Real.exp (-(b * x ^ 2))
  | .gaussHalf b, x => Real.exp (-(b * x ^ 2))

/-- the domain of integration of an infinite-range family -/
def FamInf.dom : FamInf → Set ℝ
  | .gammaN _ => Ioi 0
  | .expDecay _ a => Ioi (a : ℝ)
  | .gaussFull _ => univ
  | .gaussHalf _ => Ioi 0

theorem FamInf.valRef_sem (f : FamInf) (x : Ref) : (f.valRef x).sem = f.fn x.sem := by
  cases f <;> simp [FamInf.valRef, FamInf.fn, Ref.sem]

theorem natFactorial_eq (n : ℕ) : natFactorial n = n.factorial := by
  induction n with
  | zero => rfl
  | succ n ih => simp [natFactorial, Nat.factorial_succ, ih]

theorem FamInf.integral_eq (f : FamInf) (r : Ref) (h : f.integralRef = some r) :
    ∫ x in f.dom, f.fn x = r.sem := by
  cases f with
  | gammaN n =>
    simp only [FamInf.integralRef, Option.some.injEq] at h; subst h
    simp only [FamInf.dom, FamInf.fn, Ref.sem]
    have h1 := Real.Gamma_nat_eq_factorial n
    rw [Real.Gamma_eq_integral (by positivity)] at h1
    rw [natFactorial_eq]
    push_cast
    rw [← h1]
    apply setIntegral_congr_fun measurableSet_Ioi
    intro x hx
    simp only [add_sub_cancel_right, Real.rpow_natCast]
    ring
  | expDecay c a =>
    simp only [FamInf.integralRef] at h
    split at h
    · rename_i hc
      simp only [Option.some.injEq] at h; subst h
      simp only [FamInf.dom, FamInf.fn, Ref.sem]
      have hc' : (-(c : ℝ)) < 0 := by
        have : (0 : ℝ) < c := by exact_mod_cast hc
        linarith
      have h1 := integral_exp_mul_Ioi hc' (a : ℝ)
      have : (fun x : ℝ => Real.exp (-((c : ℝ) * x))) = fun x => Real.exp (-(c : ℝ) * x) := by
        funext x; ring_nf
      rw [this, h1]
      have hc0 : (c : ℝ) ≠ 0 := by linarith
      push_cast
      field_simp
    · simp at h
  | gaussFull b =>
    simp only [FamInf.integralRef] at h
    split at h
    · simp only [Option.some.injEq] at h; subst h
      simp only [FamInf.dom, FamInf.fn, Ref.sem, Measure.restrict_univ]
      have h1 := integral_gaussian (b : ℝ)
      have : (fun x : ℝ => Real.exp (-((b : ℝ) * x ^ 2))) = fun x => Real.exp (-(b : ℝ) * x ^ 2) := by
        funext x; ring_nf
      rw [this, h1]
      push_cast
      rw [one_div, div_eq_mul_inv]
    · simp at h
  | gaussHalf b =>
    simp only [FamInf.integralRef] at h
    split at h
    · simp only [Option.some.injEq] at h; subst h
      simp only [FamInf.dom, FamInf.fn, Ref.sem]
      have h1 := integral_gaussian_Ioi (b : ℝ)
      have : (fun x : ℝ => Real.exp (-((b : ℝ) * x ^ 2))) = fun x => Real.exp (-(b : ℝ) * x ^ 2) := by
        funext x; ring_nf
      rw [this, h1]
      push_cast
      rw [one_div, div_eq_mul_inv, one_div]
      ring_nf
    · simp at h

end Mp.Calc
