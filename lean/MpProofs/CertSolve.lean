/-
  MpProofs/CertSolve.lean — soundness of the C30 solve / inverse / least-squares / det certificates
  of MpModel/Cert.lean (`solveCert lsqCert condModerate invCert detCert`): an elementary Neumann
  argument over ℂ with the ∞-operator norm, pure real arithmetic for the cross-multiplied tests,
  and the glue to the executable checkers.
-/
import MpProofs.Cert
import Mathlib.LinearAlgebra.Matrix.NonsingularInverse
import Mathlib.Tactic.GCongr

namespace Mp.Cert

open scoped Matrix.Norms.Operator

/-! ## (a) abstract certificate -/

/-- if `‖E‖ ≤ α < 1` then `(1 - E) * D = W` pins `‖D‖` between `‖W‖/(1+α)` and `‖W‖/(1-α)` -/
theorem neumann_bounds {n k : ℕ} (E : Matrix (Fin n) (Fin n) ℂ) (D W : Matrix (Fin n) (Fin k) ℂ)
    (α : ℝ) (hE : ‖E‖ ≤ α) (hα1 : α < 1) (h : (1 - E) * D = W) :
    ‖D‖ ≤ ‖W‖ / (1 - α) ∧ ‖W‖ / (1 + α) ≤ ‖D‖ := by
  have hα0 : 0 ≤ α := le_trans (norm_nonneg _) hE
  have hD0 : 0 ≤ ‖D‖ := norm_nonneg _
  have hED : ‖E * D‖ ≤ α * ‖D‖ :=
    le_trans (Matrix.linfty_opNorm_mul E D) (mul_le_mul_of_nonneg_right hE hD0)
  have hW : W = D - E * D := by rw [← h, Matrix.sub_mul, Matrix.one_mul]
  have hD : D = W + E * D := by rw [hW]; abel
  constructor
  · rw [le_div_iff₀ (by linarith)]
    have h1 : ‖D‖ ≤ ‖W‖ + ‖E * D‖ := by
      conv_lhs => rw [hD]
      exact norm_add_le _ _
    nlinarith
  · rw [div_le_iff₀ (by linarith)]
    have h1 : ‖W‖ ≤ ‖D‖ + ‖E * D‖ := by
      rw [hW]; exact norm_sub_le _ _
    nlinarith

/-- `‖E‖ < 1` makes `1 - E` invertible (injectivity of `mulVec`, no completeness needed) -/
theorem isUnit_one_sub {n : ℕ} (E : Matrix (Fin n) (Fin n) ℂ) (α : ℝ) (hE : ‖E‖ ≤ α)
    (hα1 : α < 1) : IsUnit (1 - E) := by
  rw [← Matrix.mulVec_injective_iff_isUnit]
  intro v w hvw
  have h0 : (1 - E).mulVec (v - w) = 0 := by
    rw [Matrix.mulVec_sub, hvw, sub_self]
  rw [Matrix.sub_mulVec, Matrix.one_mulVec, sub_eq_zero] at h0
  have h1 : ‖v - w‖ ≤ α * ‖v - w‖ := by
    conv_lhs => rw [h0]
    exact le_trans (Matrix.linfty_opNorm_mulVec E (v - w))
      (mul_le_mul_of_nonneg_right hE (norm_nonneg _))
  have h2 : ‖v - w‖ = 0 := by
    have := norm_nonneg (v - w)
    nlinarith
  exact sub_eq_zero.1 (norm_eq_zero.1 h2)

theorem cert_isUnit {n : ℕ} (A R : Matrix (Fin n) (Fin n) ℂ) (α : ℝ)
    (hα : ‖1 - R * A‖ ≤ α) (hα1 : α < 1) : IsUnit A.det := by
  have h := isUnit_one_sub (1 - R * A) α hα hα1
  rw [sub_sub_cancel, Matrix.isUnit_iff_isUnit_det, Matrix.det_mul] at h
  exact isUnit_of_mul_isUnit_right h

theorem cert_inv_bounds {n : ℕ} (A R : Matrix (Fin n) (Fin n) ℂ) (α : ℝ)
    (hα : ‖1 - R * A‖ ≤ α) (hα1 : α < 1) :
    ‖A⁻¹‖ ≤ ‖R‖ / (1 - α) ∧ ‖R‖ / (1 + α) ≤ ‖A⁻¹‖ := by
  have hU := cert_isUnit A R α hα hα1
  refine neumann_bounds (1 - R * A) A⁻¹ R α hα hα1 ?_
  rw [sub_sub_cancel, Matrix.mul_assoc, Matrix.mul_nonsing_inv A hU, Matrix.mul_one]

theorem cert_err_bounds {n k : ℕ} (A R : Matrix (Fin n) (Fin n) ℂ) (B X : Matrix (Fin n) (Fin k) ℂ)
    (α : ℝ) (hα : ‖1 - R * A‖ ≤ α) (hα1 : α < 1) :
    ‖A⁻¹ * B - X‖ ≤ ‖R * (B - A * X)‖ / (1 - α) ∧
    ‖R * (B - A * X)‖ / (1 + α) ≤ ‖A⁻¹ * B - X‖ := by
  have hU := cert_isUnit A R α hα hα1
  refine neumann_bounds (1 - R * A) (A⁻¹ * B - X) (R * (B - A * X)) α hα hα1 ?_
  rw [sub_sub_cancel, Matrix.mul_assoc, Matrix.mul_sub, ← Matrix.mul_assoc A,
    Matrix.mul_nonsing_inv A hU, Matrix.one_mul]

theorem cert_core {n k : ℕ} (A R : Matrix (Fin n) (Fin n) ℂ) (B X : Matrix (Fin n) (Fin k) ℂ)
    (α : ℝ) (hα : ‖1 - R * A‖ ≤ α) (hα1 : α < 1) :
    IsUnit A.det ∧
    ‖A⁻¹ * B - X‖ ≤ ‖R * (B - A * X)‖ / (1 - α) ∧
    ‖R * (B - A * X)‖ / (1 + α) ≤ ‖A⁻¹ * B - X‖ ∧
    ‖A⁻¹‖ ≤ ‖R‖ / (1 - α) ∧ ‖R‖ / (1 + α) ≤ ‖A⁻¹‖ :=
  ⟨cert_isUnit A R α hα hα1, (cert_err_bounds A R B X α hα hα1).1,
    (cert_err_bounds A R B X α hα hα1).2, (cert_inv_bounds A R α hα hα1).1,
    (cert_inv_bounds A R α hα hα1).2⟩

/-! ## (b) real arithmetic behind the cross-multiplied tests -/

theorem ok_arith {α ρ nAL nRL t mxL e nA nAi nX nXs : ℝ}
    (hα0 : 0 ≤ α) (hα1 : α < 1) (hρ0 : 0 ≤ ρ) (hAL0 : 0 ≤ nAL) (hRL0 : 0 ≤ nRL) (ht : 0 ≤ t)
    (hAi0 : 0 ≤ nAi) (hXs0 : 0 ≤ nXs)
    (he : (1 - α) * e ≤ ρ) (hA : nAL ≤ nA) (hAi : nRL ≤ (1 + α) * nAi)
    (hX : mxL ≤ nX) (hXs : nX - e ≤ nXs)
    (htest : ρ * (1 + α) ≤ nAL * nRL * t * (mxL * (1 - α) - ρ)) :
    e ≤ nA * nAi * t * nXs := by
  have hA0 : 0 ≤ nA := le_trans hAL0 hA
  have h1m : 0 < 1 - α := by linarith
  have h1p : 0 < 1 + α := by linarith
  by_cases hq : 0 ≤ mxL * (1 - α) - ρ
  · have hv : mxL * (1 - α) - ρ ≤ (1 - α) * nXs := by
      have h1 := mul_le_mul_of_nonneg_left hXs h1m.le
      have h2 := mul_le_mul_of_nonneg_left hX h1m.le
      linarith
    have hchain : nAL * nRL * t * (mxL * (1 - α) - ρ)
        ≤ nA * ((1 + α) * nAi) * t * ((1 - α) * nXs) := by gcongr
    have hpos : 0 < (1 + α) * (1 - α) := mul_pos h1p h1m
    have h3 : (1 + α) * (1 - α) * e ≤ (1 + α) * (1 - α) * (nA * nAi * t * nXs) := by
      calc (1 + α) * (1 - α) * e = (1 + α) * ((1 - α) * e) := by ring
        _ ≤ (1 + α) * ρ := mul_le_mul_of_nonneg_left he h1p.le
        _ = ρ * (1 + α) := by ring
        _ ≤ _ := htest
        _ ≤ _ := hchain
        _ = (1 + α) * (1 - α) * (nA * nAi * t * nXs) := by ring
    exact le_of_mul_le_mul_left h3 hpos
  · have hq' : mxL * (1 - α) - ρ ≤ 0 := le_of_lt (not_le.1 hq)
    have hc : 0 ≤ nAL * nRL * t := by positivity
    have h1 : nAL * nRL * t * (mxL * (1 - α) - ρ) ≤ 0 := mul_nonpos_of_nonneg_of_nonpos hc hq'
    have h2 : ρ * (1 + α) ≤ 0 := le_trans htest h1
    have h3 : ρ ≤ 0 := by nlinarith
    have h4 : (1 - α) * e ≤ 0 := le_trans he h3
    have h5 : e ≤ 0 := by nlinarith
    have h6 : 0 ≤ nA * nAi * t * nXs := by positivity
    linarith

theorem viol_arith {α ρ ρL W nAU nRU t mxU e nA nAi nX nXs : ℝ}
    (hα0 : 0 ≤ α) (hα1 : α < 1) (ht : 0 ≤ t)
    (hWL : ρL ≤ W) (hWe : W ≤ (1 + α) * e) (he : (1 - α) * e ≤ ρ)
    (hA0 : 0 ≤ nA) (hA : nA ≤ nAU) (hAi0 : 0 ≤ nAi) (hAi : (1 - α) * nAi ≤ nRU)
    (hXs0 : 0 ≤ nXs) (hX : nX ≤ mxU) (hXs : nXs ≤ nX + e)
    (htest : (1 + α) * nAU * nRU * t * (mxU * (1 - α) + ρ) < ρL * (1 - α) * (1 - α)) :
    ¬ e ≤ nA * nAi * t * nXs := by
  intro hle
  have h1m : 0 < 1 - α := by linarith
  have h1p : 0 < 1 + α := by linarith
  have hv : (1 - α) * nXs ≤ mxU * (1 - α) + ρ := by
    have h1 := mul_le_mul_of_nonneg_left hXs h1m.le
    have h2 := mul_le_mul_of_nonneg_left hX h1m.le
    linarith
  have hu0 : 0 ≤ (1 - α) * nAi := mul_nonneg h1m.le hAi0
  have hv0 : 0 ≤ (1 - α) * nXs := mul_nonneg h1m.le hXs0
  have hAU0 : 0 ≤ nAU := le_trans hA0 hA
  have hRU0 : 0 ≤ nRU := le_trans hu0 hAi
  have hchain : nA * ((1 - α) * nAi) * t * ((1 - α) * nXs)
      ≤ nAU * nRU * t * (mxU * (1 - α) + ρ) := by gcongr
  have hsq : 0 ≤ (1 - α) * (1 - α) := mul_nonneg h1m.le h1m.le
  have h3 : ρL * (1 - α) * (1 - α) ≤ (1 + α) * nAU * nRU * t * (mxU * (1 - α) + ρ) := by
    calc ρL * (1 - α) * (1 - α) = ρL * ((1 - α) * (1 - α)) := by ring
      _ ≤ W * ((1 - α) * (1 - α)) := mul_le_mul_of_nonneg_right hWL hsq
      _ ≤ (1 + α) * e * ((1 - α) * (1 - α)) := mul_le_mul_of_nonneg_right hWe hsq
      _ = (1 + α) * ((1 - α) * (1 - α)) * e := by ring
      _ ≤ (1 + α) * ((1 - α) * (1 - α)) * (nA * nAi * t * nXs) :=
          mul_le_mul_of_nonneg_left hle (mul_nonneg h1p.le hsq)
      _ = (1 + α) * (nA * ((1 - α) * nAi) * t * ((1 - α) * nXs)) := by ring
      _ ≤ (1 + α) * (nAU * nRU * t * (mxU * (1 - α) + ρ)) :=
          mul_le_mul_of_nonneg_left hchain h1p.le
      _ = _ := by ring
  linarith

/-! ## (b) glue to the executable solve certificate -/

theorem toMat_residE (n : ℕ) (A R : Mat) :
    toMat n n (residE n A R) = 1 - toMat n n R * toMat n n A := by
  rw [residE, toMat_msub, toMat_ident, toMat_mmul]

theorem toMat_residW (n k : ℕ) (A B X R : Mat) :
    toMat n k (residW n k A B X R)
      = toMat n n R * (toMat n k B - toMat n n A * toMat n k X) := by
  rw [residW, toMat_mmul, toMat_msub, toMat_mmul]

theorem alpha_bound (n : ℕ) (A R : Mat) :
    ‖1 - toMat n n R * toMat n n A‖ ≤ (rowSumU n n (residE n A R)).toReal := by
  rw [← toMat_residE]; exact linf_le_rowSumU _ _ _

theorem rowSumU_nonneg (r c : ℕ) (M : Mat) : 0 ≤ (rowSumU r c M).toReal := maxD_nonneg _ _
theorem rowSumL_nonneg (r c : ℕ) (M : Mat) : 0 ≤ (rowSumL r c M).toReal := maxD_nonneg _ _

/-- the property instance decided by `solveCert` (∞-operator norms) -/
def SolveAccurate {n k : ℕ} (p : ℤ) (A : Matrix (Fin n) (Fin n) ℂ)
    (B X : Matrix (Fin n) (Fin k) ℂ) : Prop :=
  ‖A⁻¹ * B - X‖ ≤ ‖A‖ * ‖A⁻¹‖ * (2:ℝ) ^ (10 - p) * ‖A⁻¹ * B‖

theorem verdict_ok_of {a b c : Bool}
    (h : (if (!a) = true then Verdict.undecided else
      if b = true then Verdict.ok else
      if c = true then Verdict.violates else Verdict.undecided) = Verdict.ok) :
    a = true ∧ b = true := by
  revert h; cases a <;> cases b <;> cases c <;> decide

theorem verdict_violates_of {a b c : Bool}
    (h : (if (!a) = true then Verdict.undecided else
      if b = true then Verdict.ok else
      if c = true then Verdict.violates else Verdict.undecided) = Verdict.violates) :
    a = true ∧ b = false ∧ c = true := by
  revert h; cases a <;> cases b <;> cases c <;> decide

theorem solveCert_ok_unfold {n k : ℕ} {p : ℤ} {A B X R : Mat}
    (h : solveCert n k p A B X R = .ok) :
    Dy.lt (rowSumU n n (residE n A R)) Dy.one = true ∧
    Dy.le (rowSumU n k (residW n k A B X R) * (Dy.one + rowSumU n n (residE n A R)))
      (rowSumL n n A * rowSumL n n R * tol1 p *
        (rowSumL n k X * (Dy.one - rowSumU n n (residE n A R)) - rowSumU n k (residW n k A B X R)))
      = true := by
  exact verdict_ok_of h

theorem solveCert_violates_unfold {n k : ℕ} {p : ℤ} {A B X R : Mat}
    (h : solveCert n k p A B X R = .violates) :
    Dy.lt (rowSumU n n (residE n A R)) Dy.one = true ∧
    Dy.lt ((Dy.one + rowSumU n n (residE n A R)) * rowSumU n n A * rowSumU n n R * tol1 p *
        (rowSumU n k X * (Dy.one - rowSumU n n (residE n A R)) + rowSumU n k (residW n k A B X R)))
      (rowSumL n k (residW n k A B X R) * (Dy.one - rowSumU n n (residE n A R)) *
        (Dy.one - rowSumU n n (residE n A R))) = true := by
  exact (verdict_violates_of h).imp_right And.right

theorem solveCert_ok {n k : ℕ} {p : ℤ} {A B X R : Mat} (h : solveCert n k p A B X R = .ok) :
    IsUnit (toMat n n A).det ∧ SolveAccurate p (toMat n n A) (toMat n k B) (toMat n k X) := by
  obtain ⟨h1, h2⟩ := solveCert_ok_unfold h
  rw [Dy.lt_iff, Dy.toReal_one] at h1
  have hα := alpha_bound n A R
  have hα0 : 0 ≤ (rowSumU n n (residE n A R)).toReal := rowSumU_nonneg _ _ _
  have h1m : 0 < 1 - (rowSumU n n (residE n A R)).toReal := by linarith
  have h1p : 0 < 1 + (rowSumU n n (residE n A R)).toReal := by linarith
  obtain ⟨hU, he, -, -, hinv⟩ :=
    cert_core (toMat n n A) (toMat n n R) (toMat n k B) (toMat n k X) _ hα h1
  refine ⟨hU, ?_⟩
  rw [le_div_iff₀ h1m] at he
  rw [div_le_iff₀ h1p] at hinv
  have hW : ‖toMat n n R * (toMat n k B - toMat n n A * toMat n k X)‖
      ≤ (rowSumU n k (residW n k A B X R)).toReal := by
    rw [← toMat_residW]; exact linf_le_rowSumU _ _ _
  rw [Dy.le_iff] at h2
  simp only [Dy.toReal_mul, Dy.toReal_add, Dy.toReal_sub, Dy.toReal_one, toReal_tol1] at h2
  unfold SolveAccurate
  refine ok_arith (nX := ‖toMat n k X‖) hα0 h1 (rowSumU_nonneg _ _ _) (rowSumL_nonneg _ _ _)
    (rowSumL_nonneg _ _ _) (by positivity) (norm_nonneg _) (norm_nonneg _) ?_
    (rowSumL_le_linf n n A) ?_ (rowSumL_le_linf n k X) ?_ h2
  · rw [mul_comm]; exact le_trans he hW
  · rw [mul_comm]; exact le_trans (rowSumL_le_linf n n R) hinv
  · rw [sub_le_iff_le_add]
    have := norm_sub_le ((toMat n n A)⁻¹ * toMat n k B)
      ((toMat n n A)⁻¹ * toMat n k B - toMat n k X)
    rwa [sub_sub_cancel] at this

theorem solveCert_violates {n k : ℕ} {p : ℤ} {A B X R : Mat}
    (h : solveCert n k p A B X R = .violates) :
    IsUnit (toMat n n A).det ∧ ¬ SolveAccurate p (toMat n n A) (toMat n k B) (toMat n k X) := by
  obtain ⟨h1, h2⟩ := solveCert_violates_unfold h
  rw [Dy.lt_iff, Dy.toReal_one] at h1
  have hα := alpha_bound n A R
  have hα0 : 0 ≤ (rowSumU n n (residE n A R)).toReal := rowSumU_nonneg _ _ _
  have h1m : 0 < 1 - (rowSumU n n (residE n A R)).toReal := by linarith
  have h1p : 0 < 1 + (rowSumU n n (residE n A R)).toReal := by linarith
  obtain ⟨hU, he, he', hinv, -⟩ :=
    cert_core (toMat n n A) (toMat n n R) (toMat n k B) (toMat n k X) _ hα h1
  refine ⟨hU, ?_⟩
  rw [le_div_iff₀ h1m] at he hinv
  rw [div_le_iff₀ h1p] at he'
  have hW : ‖toMat n n R * (toMat n k B - toMat n n A * toMat n k X)‖
      ≤ (rowSumU n k (residW n k A B X R)).toReal := by
    rw [← toMat_residW]; exact linf_le_rowSumU _ _ _
  have hWL : (rowSumL n k (residW n k A B X R)).toReal
      ≤ ‖toMat n n R * (toMat n k B - toMat n n A * toMat n k X)‖ := by
    rw [← toMat_residW]; exact rowSumL_le_linf _ _ _
  rw [Dy.lt_iff] at h2
  simp only [Dy.toReal_mul, Dy.toReal_add, Dy.toReal_sub, Dy.toReal_one, toReal_tol1] at h2
  unfold SolveAccurate
  refine viol_arith (nX := ‖toMat n k X‖) hα0 h1 (by positivity) hWL ?_ ?_ (norm_nonneg _)
    (linf_le_rowSumU n n A) (norm_nonneg _) ?_ (norm_nonneg _) (linf_le_rowSumU n k X) ?_ h2
  · rw [mul_comm]; exact he'
  · rw [mul_comm]; exact le_trans he hW
  · rw [mul_comm]; exact le_trans hinv (linf_le_rowSumU n n R)
  · have := norm_add_le (toMat n k X) ((toMat n n A)⁻¹ * toMat n k B - toMat n k X)
    rwa [add_sub_cancel] at this

/-! ## (b) corollaries: inverse, least squares, moderate condition number -/

theorem solveAccurate_one {n : ℕ} (p : ℤ) (A X : Matrix (Fin n) (Fin n) ℂ) :
    SolveAccurate p A 1 X ↔ ‖A⁻¹ - X‖ ≤ ‖A‖ * ‖A⁻¹‖ * (2:ℝ) ^ (10 - p) * ‖A⁻¹‖ := by
  rw [SolveAccurate, Matrix.mul_one]

theorem invCert_ok {n : ℕ} {p : ℤ} {A X R : Mat} (h : invCert n p A X R = .ok) :
    IsUnit (toMat n n A).det ∧ SolveAccurate p (toMat n n A) 1 (toMat n n X) := by
  have := solveCert_ok (show solveCert n n p A (ident n) X R = .ok from h)
  rwa [toMat_ident] at this

theorem invCert_violates {n : ℕ} {p : ℤ} {A X R : Mat} (h : invCert n p A X R = .violates) :
    IsUnit (toMat n n A).det ∧ ¬ SolveAccurate p (toMat n n A) 1 (toMat n n X) := by
  have := solveCert_violates (show solveCert n n p A (ident n) X R = .violates from h)
  rwa [toMat_ident] at this

theorem lsqCert_ok {m n k : ℕ} {p : ℤ} {A B X R : Mat} (h : lsqCert m n k p A B X R = .ok) :
    IsUnit ((toMat m n A).conjTranspose * toMat m n A).det ∧
    SolveAccurate p ((toMat m n A).conjTranspose * toMat m n A)
      ((toMat m n A).conjTranspose * toMat m k B) (toMat n k X) := by
  have := solveCert_ok (show solveCert n k p (mmul n m n (conjT m n A) A)
    (mmul n m k (conjT m n A) B) X R = .ok from h)
  rwa [toMat_mmul, toMat_mmul, toMat_conjT] at this

theorem lsqCert_violates {m n k : ℕ} {p : ℤ} {A B X R : Mat}
    (h : lsqCert m n k p A B X R = .violates) :
    IsUnit ((toMat m n A).conjTranspose * toMat m n A).det ∧
    ¬ SolveAccurate p ((toMat m n A).conjTranspose * toMat m n A)
      ((toMat m n A).conjTranspose * toMat m k B) (toMat n k X) := by
  have := solveCert_violates (show solveCert n k p (mmul n m n (conjT m n A) A)
    (mmul n m k (conjT m n A) B) X R = .violates from h)
  rwa [toMat_mmul, toMat_mmul, toMat_conjT] at this

theorem condModerate_sound {n : ℕ} {p : ℤ} {A R : Mat} (h : condModerate n p A R = true) :
    IsUnit (toMat n n A).det ∧
    ‖toMat n n A‖ * ‖(toMat n n A)⁻¹‖ * (2:ℝ) ^ (10 - p) < 1 := by
  simp only [condModerate, Bool.and_eq_true, Dy.lt_iff, Dy.toReal_mul, Dy.toReal_sub,
    Dy.toReal_one, toReal_tol1] at h
  obtain ⟨h1, h2⟩ := h
  have hα := alpha_bound n A R
  have h1m : 0 < 1 - (rowSumU n n (residE n A R)).toReal := by linarith
  have hU := cert_isUnit _ _ _ hα h1
  have hinv := (cert_inv_bounds _ _ _ hα h1).1
  rw [le_div_iff₀ h1m] at hinv
  refine ⟨hU, ?_⟩
  have ht : (0:ℝ) ≤ (2:ℝ) ^ (10 - p) := by positivity
  have hu0 : 0 ≤ ‖(toMat n n A)⁻¹‖ * (1 - (rowSumU n n (residE n A R)).toReal) :=
    mul_nonneg (norm_nonneg _) h1m.le
  have hchain : ‖toMat n n A‖ * (‖(toMat n n A)⁻¹‖ * (1 - (rowSumU n n (residE n A R)).toReal))
      * (2:ℝ) ^ (10 - p)
      ≤ (rowSumU n n A).toReal * (rowSumU n n R).toReal * (2:ℝ) ^ (10 - p) := by
    have hA := linf_le_rowSumU n n A
    have hR := le_trans hinv (linf_le_rowSumU n n R)
    have hA0 : 0 ≤ (rowSumU n n A).toReal := rowSumU_nonneg _ _ _
    gcongr
  have h3 : (‖toMat n n A‖ * ‖(toMat n n A)⁻¹‖ * (2:ℝ) ^ (10 - p))
      * (1 - (rowSumU n n (residE n A R)).toReal)
      < 1 * (1 - (rowSumU n n (residE n A R)).toReal) := by
    calc _ = ‖toMat n n A‖ * (‖(toMat n n A)⁻¹‖ * (1 - (rowSumU n n (residE n A R)).toReal))
          * (2:ℝ) ^ (10 - p) := by ring
      _ ≤ _ := hchain
      _ < _ := h2
      _ = _ := by ring
  exact lt_of_mul_lt_mul_right h3 h1m.le

/-! ## (c) determinant -/

theorem det_ok_arith {α nAL nRL t x y nA nAi : ℝ}
    (hα0 : 0 ≤ α) (hAL0 : 0 ≤ nAL) (hRL0 : 0 ≤ nRL) (ht : 0 ≤ t) (hx : 0 ≤ x) (hy : 0 ≤ y)
    (hA : nAL ≤ nA) (hAi : nRL ≤ (1 + α) * nAi)
    (htest : x ^ 2 * (1 + α) * (1 + α) ≤ nAL * nRL * t * (nAL * nRL * t) * y ^ 2) :
    x ≤ nA * nAi * t * y := by
  have h1p : 0 < 1 + α := by linarith
  have hA0 : 0 ≤ nA := le_trans hAL0 hA
  have hsq : (x * (1 + α)) ^ 2 ≤ (nAL * nRL * t * y) ^ 2 := by
    calc (x * (1 + α)) ^ 2 = x ^ 2 * (1 + α) * (1 + α) := by ring
      _ ≤ _ := htest
      _ = (nAL * nRL * t * y) ^ 2 := by ring
  have h1 : x * (1 + α) ≤ nAL * nRL * t * y :=
    (sq_le_sq₀ (mul_nonneg hx h1p.le) (by positivity)).1 hsq
  have hchain : nAL * nRL * t * y ≤ nA * ((1 + α) * nAi) * t * y := by gcongr
  have h3 : x * (1 + α) ≤ (nA * nAi * t * y) * (1 + α) := by
    calc x * (1 + α) ≤ _ := h1
      _ ≤ _ := hchain
      _ = (nA * nAi * t * y) * (1 + α) := by ring
  exact le_of_mul_le_mul_right h3 h1p

theorem det_viol_arith {α nAU nRU t x y nA nAi : ℝ}
    (hα1 : α < 1) (ht : 0 ≤ t) (hx : 0 ≤ x) (hy : 0 ≤ y)
    (hA0 : 0 ≤ nA) (hAi0 : 0 ≤ nAi) (hA : nA ≤ nAU) (hAi : (1 - α) * nAi ≤ nRU)
    (htest : nAU * nRU * t * (nAU * nRU * t) * y ^ 2 < x ^ 2 * (1 - α) * (1 - α)) :
    ¬ x ≤ nA * nAi * t * y := by
  intro hle
  have h1m : 0 < 1 - α := by linarith
  have hu0 : 0 ≤ (1 - α) * nAi := mul_nonneg h1m.le hAi0
  have hAU0 : 0 ≤ nAU := le_trans hA0 hA
  have hRU0 : 0 ≤ nRU := le_trans hu0 hAi
  have hchain : nA * ((1 - α) * nAi) * t * y ≤ nAU * nRU * t * y := by gcongr
  have h1 : x * (1 - α) ≤ nAU * nRU * t * y := by
    calc x * (1 - α) ≤ (nA * nAi * t * y) * (1 - α) := mul_le_mul_of_nonneg_right hle h1m.le
      _ = nA * ((1 - α) * nAi) * t * y := by ring
      _ ≤ _ := hchain
  have hsq : (x * (1 - α)) ^ 2 ≤ (nAU * nRU * t * y) ^ 2 :=
    pow_le_pow_left₀ (mul_nonneg hx h1m.le) h1 2
  have : x ^ 2 * (1 - α) * (1 - α) ≤ nAU * nRU * t * (nAU * nRU * t) * y ^ 2 := by
    calc x ^ 2 * (1 - α) * (1 - α) = (x * (1 - α)) ^ 2 := by ring
      _ ≤ _ := hsq
      _ = _ := by ring
  linarith

theorem verdict_det_singular_iff {z a b c : Bool} :
    (if z = true then Verdict.singular else
      if (!a) = true then Verdict.undecided else
      if b = true then Verdict.ok else
      if c = true then Verdict.violates else Verdict.undecided) = Verdict.singular ↔ z = true := by
  cases z <;> cases a <;> cases b <;> cases c <;> decide

theorem verdict_det_ok_of {z a b c : Bool}
    (h : (if z = true then Verdict.singular else
      if (!a) = true then Verdict.undecided else
      if b = true then Verdict.ok else
      if c = true then Verdict.violates else Verdict.undecided) = Verdict.ok) :
    z = false ∧ a = true ∧ b = true := by
  revert h; cases z <;> cases a <;> cases b <;> cases c <;> decide

theorem verdict_det_violates_of {z a b c : Bool}
    (h : (if z = true then Verdict.singular else
      if (!a) = true then Verdict.undecided else
      if b = true then Verdict.ok else
      if c = true then Verdict.violates else Verdict.undecided) = Verdict.violates) :
    z = false ∧ a = true ∧ c = true := by
  revert h; cases z <;> cases a <;> cases b <;> cases c <;> decide

theorem detN_isZero_iff (n : ℕ) (A : Mat) : (detN n A).isZero = true ↔ (toMat n n A).det = 0 := by
  rw [G.isZero_iff, toC_detN]

theorem detCert_singular_iff {n : ℕ} {p : ℤ} {A : Mat} {d : G} {R : Mat} :
    detCert n p A d R = .singular ↔ (toMat n n A).det = 0 := by
  rw [← detN_isZero_iff]
  exact verdict_det_singular_iff

/-- the property instance decided by `detCert` -/
def DetAccurate {n : ℕ} (p : ℤ) (A : Matrix (Fin n) (Fin n) ℂ) (d : ℂ) : Prop :=
  ‖d - A.det‖ ≤ ‖A‖ * ‖A⁻¹‖ * (2:ℝ) ^ (10 - p) * ‖A.det‖

theorem detCert_ok {n : ℕ} {p : ℤ} {A : Mat} {d : G} {R : Mat} (h : detCert n p A d R = .ok) :
    (toMat n n A).det ≠ 0 ∧ DetAccurate p (toMat n n A) d.toC := by
  obtain ⟨hz, h1, h2⟩ := verdict_det_ok_of h
  have hdet : (toMat n n A).det ≠ 0 := by
    intro h0
    rw [← detN_isZero_iff, hz] at h0
    exact Bool.false_ne_true h0
  refine ⟨hdet, ?_⟩
  rw [Dy.lt_iff, Dy.toReal_one] at h1
  have hα := alpha_bound n A R
  have hα0 : 0 ≤ (rowSumU n n (residE n A R)).toReal := rowSumU_nonneg _ _ _
  have h1p : 0 < 1 + (rowSumU n n (residE n A R)).toReal := by linarith
  have hinv := (cert_inv_bounds _ _ _ hα h1).2
  rw [div_le_iff₀ h1p] at hinv
  rw [Dy.le_iff] at h2
  simp only [Dy.toReal_mul, Dy.toReal_add, Dy.toReal_one, toReal_tol1, G.toReal_normSq,
    G.toC_sub, toC_detN, Complex.normSq_eq_norm_sq] at h2
  unfold DetAccurate
  refine det_ok_arith hα0 (rowSumL_nonneg _ _ _) (rowSumL_nonneg _ _ _) (by positivity)
    (norm_nonneg _) (norm_nonneg _) (rowSumL_le_linf n n A) ?_ h2
  rw [mul_comm]; exact le_trans (rowSumL_le_linf n n R) hinv

theorem detCert_violates {n : ℕ} {p : ℤ} {A : Mat} {d : G} {R : Mat}
    (h : detCert n p A d R = .violates) :
    (toMat n n A).det ≠ 0 ∧ ¬ DetAccurate p (toMat n n A) d.toC := by
  obtain ⟨hz, h1, h2⟩ := verdict_det_violates_of h
  have hdet : (toMat n n A).det ≠ 0 := by
    intro h0
    rw [← detN_isZero_iff, hz] at h0
    exact Bool.false_ne_true h0
  refine ⟨hdet, ?_⟩
  rw [Dy.lt_iff, Dy.toReal_one] at h1
  have hα := alpha_bound n A R
  have h1m : 0 < 1 - (rowSumU n n (residE n A R)).toReal := by linarith
  have hinv := (cert_inv_bounds _ _ _ hα h1).1
  rw [le_div_iff₀ h1m] at hinv
  rw [Dy.lt_iff] at h2
  simp only [Dy.toReal_mul, Dy.toReal_sub, Dy.toReal_one, toReal_tol1, G.toReal_normSq,
    G.toC_sub, toC_detN, Complex.normSq_eq_norm_sq] at h2
  unfold DetAccurate
  refine det_viol_arith h1 (by positivity) (norm_nonneg _) (norm_nonneg _) (norm_nonneg _)
    (norm_nonneg _) (linf_le_rowSumU n n A) ?_ h2
  rw [mul_comm]; exact le_trans hinv (linf_le_rowSumU n n R)

end Mp.Cert
