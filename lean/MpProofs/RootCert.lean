/-
  MpProofs/RootCert.lean — soundness of the exact certificate checkers of MpModel/RootCert.lean.

  * `rootIncl_complex` : for P ∈ ℂ[X] with natDegree ≤ n and P'(r) ≠ 0 some root lies within n·|P(r)|/|P'(r)| of r
  * casts `Q.toReal`, `GQ.toC`, `polyOf` and their homomorphism lemmas
  * `horner_eval`      : the executable Horner pair is (P(r), P'(r)) of `polyOf cs`
  * `sqrtSumLt_sound`  : the square-root free comparison
  * `inclVerdict_sound`, `matching_sound` : what the verdicts of `polyrootsReport` mean
-/
import MpModel.RootCert
import Mathlib.Analysis.Complex.Polynomial.Basic
import Mathlib.Algebra.Polynomial.Splits
import Mathlib.Analysis.Normed.Group.Basic
import Mathlib.Data.List.Forall2
import Mathlib.Tactic.Ring
import Mathlib.Tactic.Linarith
import Mathlib.Tactic.Positivity
import Mathlib.Tactic.FieldSimp
import Mathlib.Tactic.NormNum

open Polynomial

namespace Mp
namespace RootCert

/-! ## the inclusion theorem over ℂ -/

/-- For a complex polynomial `P` with `natDegree P ≤ n` and a point `r` with `P'(r) ≠ 0`,
some root of `P` lies in the closed disc of radius `n·|P(r)|/|P'(r)|` around `r`. -/
theorem rootIncl_complex (P : ℂ[X]) (n : ℕ) (hn : P.natDegree ≤ n) (r : ℂ)
    (hd : P.derivative.eval r ≠ 0) :
    ∃ z : ℂ, P.IsRoot z ∧ ‖z - r‖ ≤ n * ‖P.eval r‖ / ‖P.derivative.eval r‖ := by
  have hd' : 0 < ‖P.derivative.eval r‖ := norm_pos_iff.2 hd
  by_cases h0 : P.eval r = 0
  · exact ⟨r, h0, by simp [h0]⟩
  by_contra hcon
  push Not at hcon
  have hP0 : 0 < ‖P.eval r‖ := norm_pos_iff.2 h0
  have hsp : P.Splits := IsAlgClosed.splits P
  have hPne : P ≠ 0 := by rintro rfl; simp at h0
  have key := hsp.eval_derivative_div_eval_of_ne_zero h0
  have hcard : P.roots.card = P.natDegree := IsAlgClosed.card_roots_eq_natDegree
  have hne : P.roots ≠ ∅ := by
    intro he
    rw [he] at key
    simp at key
    rcases key with h | h
    · exact hd h
    · exact h0 h
  set ρ : ℝ := n * ‖P.eval r‖ / ‖P.derivative.eval r‖ with hρ
  have hn0 : 0 < P.natDegree := by
    rw [← hcard]; exact Multiset.card_pos.2 hne
  have hnpos : (0 : ℝ) < n := by exact_mod_cast lt_of_lt_of_le hn0 hn
  have hρpos : 0 < ρ := by positivity
  have hlt : ∀ z ∈ P.roots, ‖1 / (r - z)‖ < 1 / ρ := by
    intro z hz
    have hz' : P.IsRoot z := (mem_roots hPne).1 hz
    have := hcon z hz'
    rw [norm_div, norm_one, ← norm_neg (r - z), neg_sub]
    exact one_div_lt_one_div_of_lt hρpos this
  have h1 : ‖P.derivative.eval r / P.eval r‖ < P.roots.card * (1 / ρ) := by
    rw [key]
    calc ‖(P.roots.map fun z => 1 / (r - z)).sum‖
        ≤ ((P.roots.map fun z => 1 / (r - z)).map fun x => ‖x‖).sum := norm_multiset_sum_le _
      _ = (P.roots.map fun z => ‖1 / (r - z)‖).sum := by rw [Multiset.map_map]; rfl
      _ < (P.roots.map fun _ => 1 / ρ).sum := Multiset.sum_lt_sum_of_nonempty hne hlt
      _ = P.roots.card * (1 / ρ) := by simp
  rw [norm_div, hcard] at h1
  have h2 : (P.natDegree : ℝ) * (1 / ρ) ≤ n * (1 / ρ) := by
    apply mul_le_mul_of_nonneg_right _ (by positivity)
    exact_mod_cast hn
  have h3 : (n : ℝ) * (1 / ρ) = ‖P.derivative.eval r‖ / ‖P.eval r‖ := by
    rw [hρ]; field_simp
  linarith

/-! ## casts -/

/-- the real number denoted by a fraction -/
noncomputable def Q.toReal (a : Q) : ℝ := (a.num : ℝ) / (a.den : ℝ)

/-- the complex number denoted by a Gaussian rational -/
noncomputable def GQ.toC (a : GQ) : ℂ := ⟨a.re.toReal, a.im.toReal⟩

theorem Q.den_ne (a : Q) : (a.den : ℝ) ≠ 0 := by
  have := a.pos
  positivity

theorem Q.den_pos' (a : Q) : (0 : ℝ) < a.den := by exact_mod_cast a.pos

theorem Q.add_def (a b : Q) : a + b = Q.add a b := rfl
theorem Q.sub_def (a b : Q) : a - b = Q.sub a b := rfl
theorem Q.mul_def (a b : Q) : a * b = Q.mul a b := rfl

@[simp] theorem Q.toReal_ofInt (n : Int) : (Q.ofInt n).toReal = n := by simp [Q.ofInt, Q.toReal]
@[simp] theorem Q.toReal_zero : Q.zero.toReal = 0 := by simp [Q.zero]

theorem Q.toReal_norm (a : Q) : (Q.norm a).toReal = a.toReal := by
  have ha := a.den_ne
  unfold Q.norm Q.toReal
  simp only
  set g := Nat.gcd a.num.natAbs a.den with hg
  have hgpos : 0 < g := Nat.gcd_pos_of_pos_right _ a.pos
  have hgR : (g : ℝ) ≠ 0 := by positivity
  have hd : g ∣ a.den := Nat.gcd_dvd_right _ _
  have hn : (g : ℤ) ∣ a.num := by
    have : g ∣ a.num.natAbs := Nat.gcd_dvd_left _ _
    exact Int.natCast_dvd.2 this
  have h1 : ((a.num / (g : ℤ) : ℤ) : ℝ) = (a.num : ℝ) / (g : ℝ) := by
    rw [Int.cast_div hn (by exact_mod_cast hgR)]
    simp
  have h2 : ((a.den / g : ℕ) : ℝ) = (a.den : ℝ) / (g : ℝ) := Nat.cast_div hd hgR
  rw [h1, h2]
  field_simp

@[simp] theorem Q.toReal_add (a b : Q) : (a + b).toReal = a.toReal + b.toReal := by
  have ha := a.den_ne; have hb := b.den_ne
  simp only [Q.add_def, Q.add, Q.toReal_norm]
  simp only [Q.toReal]
  push_cast
  field_simp

@[simp] theorem Q.toReal_neg (a : Q) : (Q.neg a).toReal = -a.toReal := by
  simp only [Q.neg, Q.toReal]; push_cast; ring

@[simp] theorem Q.toReal_sub (a b : Q) : (a - b).toReal = a.toReal - b.toReal := by
  have h : a - b = a + Q.neg b := rfl
  rw [h, Q.toReal_add, Q.toReal_neg]; ring

@[simp] theorem Q.toReal_mul (a b : Q) : (a * b).toReal = a.toReal * b.toReal := by
  have ha := a.den_ne; have hb := b.den_ne
  simp only [Q.mul_def, Q.mul, Q.toReal_norm]
  simp only [Q.toReal]
  push_cast
  field_simp

theorem Q.toReal_inv (a : Q) : (Q.inv a).toReal = (a.toReal)⁻¹ := by
  have ha := a.den_ne
  unfold Q.inv
  split
  · rename_i h
    simp [Q.toReal, h, Q.zero, Q.ofInt]
  · rename_i h
    simp only [Q.toReal]
    have hn : (a.num : ℝ) ≠ 0 := by exact_mod_cast h
    rw [inv_div]
    rcases lt_or_gt_of_ne h with hneg | hpos
    · have h1 : ((a.num.natAbs : ℕ) : ℝ) = -(a.num : ℝ) := by
        have : ((a.num.natAbs : ℕ) : ℤ) = -a.num := by omega
        have h2 : (((a.num.natAbs : ℕ) : ℤ) : ℝ) = ((-a.num : ℤ) : ℝ) := by rw [this]
        simpa using h2
      rw [h1, Int.sign_eq_neg_one_of_neg hneg]
      push_cast
      field_simp
    · have h1 : ((a.num.natAbs : ℕ) : ℝ) = (a.num : ℝ) := by
        have : ((a.num.natAbs : ℕ) : ℤ) = a.num := by omega
        have h2 : (((a.num.natAbs : ℕ) : ℤ) : ℝ) = ((a.num : ℤ) : ℝ) := by rw [this]
        simpa using h2
      rw [h1, Int.sign_eq_one_of_pos hpos]
      push_cast
      field_simp

@[simp] theorem Q.toReal_div (a b : Q) : (Q.div a b).toReal = a.toReal / b.toReal := by
  have h : Q.div a b = a * Q.inv b := rfl
  rw [h, Q.toReal_mul, Q.toReal_inv, div_eq_mul_inv]

theorem Q.le_iff (a b : Q) : Q.le a b = true ↔ a.toReal ≤ b.toReal := by
  have ha := a.den_pos'; have hb := b.den_pos'
  simp only [Q.le, decide_eq_true_eq, Q.toReal]
  rw [div_le_div_iff₀ ha hb]
  constructor
  · intro h; exact_mod_cast h
  · intro h; exact_mod_cast h

theorem Q.lt_iff (a b : Q) : Q.lt a b = true ↔ a.toReal < b.toReal := by
  have ha := a.den_pos'; have hb := b.den_pos'
  simp only [Q.lt, decide_eq_true_eq, Q.toReal]
  rw [div_lt_div_iff₀ ha hb]
  constructor
  · intro h; exact_mod_cast h
  · intro h; exact_mod_cast h

theorem Q.isZero_iff (a : Q) : Q.isZero a = true ↔ a.toReal = 0 := by
  have ha := a.den_ne
  simp only [Q.isZero, decide_eq_true_eq, Q.toReal]
  constructor
  · intro h; simp [h]
  · intro h
    rcases div_eq_zero_iff.1 h with h | h
    · exact_mod_cast h
    · exact absurd h ha

theorem GQ.add_def (a b : GQ) : a + b = GQ.add a b := rfl
theorem GQ.sub_def (a b : GQ) : a - b = GQ.sub a b := rfl
theorem GQ.mul_def (a b : GQ) : a * b = GQ.mul a b := rfl

@[simp] theorem GQ.toC_zero : GQ.zero.toC = 0 := by
  apply Complex.ext <;> simp [GQ.zero, GQ.toC]

@[simp] theorem GQ.toC_add (a b : GQ) : (a + b).toC = a.toC + b.toC := by
  apply Complex.ext <;> simp [GQ.add_def, GQ.add, GQ.toC]

@[simp] theorem GQ.toC_sub (a b : GQ) : (a - b).toC = a.toC - b.toC := by
  apply Complex.ext <;> simp [GQ.sub_def, GQ.sub, GQ.toC]

@[simp] theorem GQ.toC_mul (a b : GQ) : (a * b).toC = a.toC * b.toC := by
  apply Complex.ext <;> simp [GQ.mul_def, GQ.mul, GQ.toC]

theorem GQ.toReal_normSq (a : GQ) : a.normSq.toReal = ‖a.toC‖ ^ 2 := by
  rw [← Complex.normSq_eq_norm_sq, Complex.normSq_apply]
  simp [GQ.normSq, GQ.toC]

theorem GQ.isZero_iff (a : GQ) : a.isZero = true ↔ a.toC = 0 := by
  simp only [GQ.isZero, Bool.and_eq_true, Q.isZero_iff, GQ.toC]
  constructor
  · rintro ⟨h1, h2⟩; apply Complex.ext <;> simp [h1, h2]
  · intro h
    have := congrArg Complex.re h
    have := congrArg Complex.im h
    simp_all

/-! ## the polynomial denoted by a coefficient list -/

/-- coefficient list (highest degree first) ↦ polynomial over ℂ -/
noncomputable def polyOf (cs : List GQ) : ℂ[X] := cs.foldl (fun p c => p * X + C c.toC) 0

theorem horner_foldl (x : GQ) (cs : List GQ) (p : ℂ[X]) (pq : GQ × GQ)
    (h1 : pq.1.toC = p.eval x.toC) (h2 : pq.2.toC = p.derivative.eval x.toC) :
    ((cs.foldl (hornerStep x) pq).1.toC = (cs.foldl (fun p c => p * X + C c.toC) p).eval x.toC) ∧
    ((cs.foldl (hornerStep x) pq).2.toC = (cs.foldl (fun p c => p * X + C c.toC) p).derivative.eval x.toC) := by
  induction cs generalizing p pq with
  | nil => exact ⟨h1, h2⟩
  | cons c cs ih =>
    simp only [List.foldl_cons]
    apply ih
    · simp [hornerStep, h1]; ring
    · simp [hornerStep, h1, h2]; ring

/-- the executable Horner pair is `(P(x), P'(x))` -/
theorem horner_eval (cs : List GQ) (x : GQ) :
    (horner cs x).1.toC = (polyOf cs).eval x.toC ∧
    (horner cs x).2.toC = (polyOf cs).derivative.eval x.toC := by
  unfold horner polyOf
  apply horner_foldl <;> simp

theorem natDegree_foldl_le (cs : List GQ) (p : ℂ[X]) :
    (cs.foldl (fun p c => p * X + C c.toC) p).natDegree ≤ p.natDegree + cs.length := by
  induction cs generalizing p with
  | nil => simp
  | cons c cs ih =>
    simp only [List.foldl_cons, List.length_cons]
    refine (ih _).trans ?_
    have : (p * X + C c.toC).natDegree ≤ p.natDegree + 1 := by
      refine (natDegree_add_le _ _).trans ?_
      simp only [natDegree_C, max_le_iff, Nat.zero_le, and_true]
      exact (natDegree_mul_le).trans (by simp)
    omega

/-- `natDegree (polyOf cs) ≤ len(cs) - 1` -/
theorem natDegree_polyOf_le (cs : List GQ) : (polyOf cs).natDegree ≤ degOf cs := by
  unfold polyOf degOf
  cases cs with
  | nil => simp
  | cons c cs =>
    simp only [List.foldl_cons, List.length_cons, Nat.add_sub_cancel]
    refine (natDegree_foldl_le cs _).trans ?_
    simp

/-! ## soundness of the verdicts -/

/-- the inclusion radius `n·|P(r)|/|P'(r)|` (n = `len(cs)-1`) as a real number -/
noncomputable def radius (cs : List GQ) (r : GQ) : ℝ :=
  (degOf cs : ℝ) * ‖(polyOf cs).eval r.toC‖ / ‖(polyOf cs).derivative.eval r.toC‖

theorem radius_nonneg (cs : List GQ) (r : GQ) : 0 ≤ radius cs r := by
  unfold radius; positivity

/-- the executable ρ² is the square of the real radius -/
theorem rootInclSq_toReal (cs : List GQ) (r : GQ) : (rootInclSq cs r).toReal = (radius cs r) ^ 2 := by
  unfold rootInclSq radius
  simp only [Q.toReal_div, Q.toReal_mul, Q.toReal_ofInt, GQ.toReal_normSq, (horner_eval cs r).1,
    (horner_eval cs r).2]
  push_cast
  rw [div_pow, mul_pow]
  ring

theorem derivNonzero_iff (cs : List GQ) (r : GQ) :
    derivNonzero cs r = true ↔ (polyOf cs).derivative.eval r.toC ≠ 0 := by
  unfold derivNonzero
  rw [← (horner_eval cs r).2, Ne, ← GQ.isZero_iff]
  simp

/-- a root within the radius (from `rootIncl_complex`) -/
theorem exists_root_radius (cs : List GQ) (r : GQ) (hd : derivNonzero cs r = true) :
    ∃ z : ℂ, (polyOf cs).IsRoot z ∧ ‖z - r.toC‖ ≤ radius cs r :=
  rootIncl_complex (polyOf cs) (degOf cs) (natDegree_polyOf_le cs) r.toC ((derivNonzero_iff cs r).1 hd)

theorem sq_le_sq_imp {x y : ℝ} (_hx : 0 ≤ x) (hy : 0 ≤ y) (h : x ^ 2 ≤ y ^ 2) : x ≤ y := by
  by_contra hc
  push Not at hc
  nlinarith

/-- verdict `ok` of the per-root check: a genuine root of `polyOf cs` within `tol` of `r` -/
theorem inclVerdict_sound (cs : List GQ) (tol : Q) (r : GQ) (h : inclVerdict cs tol r = .ok) :
    radius cs r ≤ tol.toReal ∧
    ∃ z : ℂ, (polyOf cs).IsRoot z ∧ ‖z - r.toC‖ ≤ tol.toReal := by
  unfold inclVerdict at h
  split at h
  · exact absurd h (by decide)
  · rename_i ht
    have ht' : 0 ≤ tol.toReal := by
      have : Q.le Q.zero tol = true := by simpa using ht
      simpa using (Q.le_iff _ _).1 this
    split at h
    · rename_i hz
      have h0 : (polyOf cs).eval r.toC = 0 := by
        rw [← (horner_eval cs r).1]; exact (GQ.isZero_iff _).1 hz
      refine ⟨?_, r.toC, h0, by simpa using ht'⟩
      unfold radius; rw [h0]; simpa using ht'
    · split at h
      · exact absurd h (by decide)
      · rename_i hd
        split at h
        · rename_i hc
          have hd' : derivNonzero cs r = true := by simpa using hd
          simp only [Q.le_iff, Q.toReal_mul, rootInclSq_toReal] at hc
          have hr : radius cs r ≤ tol.toReal :=
            sq_le_sq_imp (radius_nonneg cs r) ht' (by nlinarith [hc])
          obtain ⟨z, hz, hzr⟩ := exists_root_radius cs r hd'
          exact ⟨hr, z, hz, hzr.trans hr⟩
        · exact absurd h (by decide)

/-- the square-root free comparison: with `B = b²`, `C = c²`, `A = a²` and `a, b, c ≥ 0`,
`sqrtSumLt B C A` implies `b + c < a` -/
theorem sqrtSumLt_sound (B C A : Q) (b c a : ℝ) (hb : 0 ≤ b) (hc : 0 ≤ c) (ha : 0 ≤ a)
    (hB : B.toReal = b ^ 2) (hC : C.toReal = c ^ 2) (hA : A.toReal = a ^ 2)
    (h : sqrtSumLt B C A = true) : b + c < a := by
  unfold sqrtSumLt at h
  simp only [Bool.and_eq_true, Q.lt_iff, Q.toReal_add, Q.toReal_mul, Q.toReal_sub, Q.toReal_ofInt,
    hB, hC, hA] at h
  obtain ⟨h1, h2⟩ := h
  push_cast at h2
  have hs : 0 < a ^ 2 - b ^ 2 - c ^ 2 := by linarith
  have h3 : 2 * b * c < a ^ 2 - b ^ 2 - c ^ 2 := by
    by_contra hcon
    push Not at hcon
    have : 0 ≤ 2 * b * c := by positivity
    nlinarith
  by_contra hcon
  push Not at hcon
  nlinarith

/-- conversely the comparison is exact: it holds whenever `b + c < a` (so `undecided` for the matching
is never caused by the squared form) -/
theorem sqrtSumLt_complete (B C A : Q) (b c a : ℝ) (hb : 0 ≤ b) (hc : 0 ≤ c) (_ha : 0 ≤ a)
    (hB : B.toReal = b ^ 2) (hC : C.toReal = c ^ 2) (hA : A.toReal = a ^ 2)
    (h : b + c < a) : sqrtSumLt B C A = true := by
  unfold sqrtSumLt
  simp only [Bool.and_eq_true, Q.lt_iff, Q.toReal_add, Q.toReal_mul, Q.toReal_sub, Q.toReal_ofInt,
    hB, hC, hA]
  push_cast
  have h0 : 0 ≤ b * c := by positivity
  have h1 : (b + c) ^ 2 < a ^ 2 := by nlinarith
  have h3 : 2 * b * c < a ^ 2 - b ^ 2 - c ^ 2 := by nlinarith
  constructor
  · nlinarith
  · nlinarith

theorem pairwiseAll_iff {α : Type} (f : α → α → Bool) (l : List α) :
    pairwiseAll f l = true ↔ l.Pairwise (fun a b => f a b = true) := by
  induction l with
  | nil => simp [pairwiseAll]
  | cons x xs ih => simp [pairwiseAll, List.pairwise_cons, ih, List.all_eq_true]

/-- disjoint discs: the radii add up to less than the distance of the centres -/
theorem discsDisjoint_sound (cs : List GQ) (a b : GQ) (h : discsDisjoint cs a b = true) :
    radius cs a + radius cs b < ‖a.toC - b.toC‖ := by
  unfold discsDisjoint at h
  refine sqrtSumLt_sound _ _ _ _ _ _ (radius_nonneg cs a) (radius_nonneg cs b) (norm_nonneg _)
    (rootInclSq_toReal cs a) (rootInclSq_toReal cs b) ?_ h
  rw [GQ.toReal_normSq, GQ.toC_sub]

/-- (c): pairwise disjoint inclusion discs and `len(roots) = len(cs)-1` give a one-to-one matching of the
returned roots with ALL the roots of the polynomial (with multiplicity): the multiset of roots of
`polyOf cs` is a list `zs` with `zs[i]` inside the disc of `roots[i]`. -/
theorem matching_sound (cs : List GQ) (roots : List GQ)
    (hlen : roots.length = degOf cs)
    (hd : roots.all (derivNonzero cs) = true)
    (hp : pairwiseAll (discsDisjoint cs) roots = true) :
    ∃ zs : List ℂ, (polyOf cs).roots = (zs : Multiset ℂ) ∧
      List.Forall₂ (fun z r => ‖z - r.toC‖ ≤ radius cs r) zs roots := by
  classical
  have hd' : ∀ r ∈ roots, derivNonzero cs r = true := by simpa [List.all_eq_true] using hd
  -- choose a root in every disc
  let g : GQ → ℂ := fun r =>
    if h : derivNonzero cs r = true then Classical.choose (exists_root_radius cs r h) else 0
  have hg : ∀ r ∈ roots, (polyOf cs).IsRoot (g r) ∧ ‖g r - r.toC‖ ≤ radius cs r := by
    intro r hr
    have h := hd' r hr
    simp only [g, h, dif_pos]
    exact Classical.choose_spec (exists_root_radius cs r h)
  refine ⟨roots.map g, ?_, ?_⟩
  · -- nodup
    have hpw : roots.Pairwise (fun a b => g a ≠ g b) := by
      have h1 := (pairwiseAll_iff _ _).1 hp
      rw [List.Pairwise.and_mem] at h1
      refine h1.imp ?_
      rintro a b ⟨ha, hb, hab⟩ heq
      have hlt := discsDisjoint_sound cs a b hab
      have h2 := (hg a ha).2
      have h3 := (hg b hb).2
      rw [heq] at h2
      have : ‖a.toC - b.toC‖ ≤ ‖g b - a.toC‖ + ‖g b - b.toC‖ := by
        have : a.toC - b.toC = (g b - b.toC) - (g b - a.toC) := by ring
        rw [this]
        exact (norm_sub_le _ _).trans (by linarith)
      linarith
    have hnd : (roots.map g).Nodup := by
      rw [List.Nodup, List.pairwise_map]
      exact hpw
    have hcardP : (polyOf cs).roots.card ≤ (roots.map g).length := by
      rw [IsAlgClosed.card_roots_eq_natDegree, List.length_map, hlen]
      exact natDegree_polyOf_le cs
    rcases roots with _ | ⟨r0, rs⟩
    · simp only [List.map_nil, List.length_nil, Nat.le_zero, Multiset.card_eq_zero] at hcardP
      simp [hcardP]
    · have hP : polyOf cs ≠ 0 := by
        intro h0
        have := (derivNonzero_iff cs r0).1 (hd' r0 (by simp))
        rw [h0] at this
        simp at this
      symm
      apply Multiset.eq_of_le_of_card_le
      · rw [Multiset.le_iff_subset (Multiset.coe_nodup.2 hnd)]
        intro z hz
        rw [Multiset.mem_coe, List.mem_map] at hz
        obtain ⟨r, hr, rfl⟩ := hz
        exact (mem_roots hP).2 (hg r hr).1
      · simpa using hcardP
  · rw [List.forall₂_map_left_iff, List.forall₂_same]
    intro r hr
    exact (hg r hr).2

/-! ## rational maps: the exact evaluator computes the complex value -/

@[simp] theorem Q.toReal_one : Q.one.toReal = 1 := by simp [Q.one]

theorem GQ.toC_ofQ (a : Q) : (GQ.ofQ a).toC = (a.toReal : ℂ) := by
  apply Complex.ext <;> simp [GQ.ofQ, GQ.toC]

@[simp] theorem GQ.toC_pow (a : GQ) (k : ℕ) : (GQ.pow a k).toC = a.toC ^ k := by
  induction k with
  | zero => simp [GQ.pow, GQ.toC_ofQ]
  | succ k ih => simp [GQ.pow, ih, pow_succ]

/-- value of a monomial at a complex point (missing coordinates count as absent factors) -/
noncomputable def monoC : List ℕ → List ℂ → ℂ → ℂ
  | [], _, acc => acc
  | _ :: _, [], acc => acc
  | e :: es, x :: xs, acc => monoC es xs (acc * x ^ e)

/-- value of a polynomial (list of monomials) at a complex point -/
noncomputable def mpolyC (p : MPoly) (xs : List ℂ) : ℂ :=
  p.foldl (fun acc m => acc + monoC m.exps xs m.coef.toC) 0

theorem evalMonoAux_toC (es : List ℕ) (xs : List GQ) (acc : GQ) :
    (evalMonoAux es xs acc).toC = monoC es (xs.map GQ.toC) acc.toC := by
  induction es generalizing xs acc with
  | nil => simp [evalMonoAux, monoC]
  | cons e es ih =>
    cases xs with
    | nil => simp [evalMonoAux, monoC]
    | cons x xs => simp [evalMonoAux, monoC, ih]

theorem evalMPoly_toC (p : MPoly) (xs : List GQ) :
    (evalMPoly p xs).toC = mpolyC p (xs.map GQ.toC) := by
  unfold evalMPoly mpolyC
  have : ∀ (acc : GQ) (accC : ℂ), acc.toC = accC →
      (p.foldl (fun acc m => acc + evalMono m xs) acc).toC =
        p.foldl (fun acc m => acc + monoC m.exps (xs.map GQ.toC) m.coef.toC) accC := by
    induction p with
    | nil => intro acc accC h; simpa using h
    | cons m ms ih =>
      intro acc accC h
      simp only [List.foldl_cons]
      apply ih
      simp [evalMono, evalMonoAux_toC, h]
  exact this _ _ (by simp)

/-- verdict `ok` of the residual check: the denominator does not vanish and `|N(x)/D(x)|² ≤ tol` -/
theorem residualVerdict_sound (tol : Q) (xs : List GQ) (f : RatFun) (h : residualVerdict tol xs f = .ok) :
    mpolyC f.denom (xs.map GQ.toC) ≠ 0 ∧
    ‖mpolyC f.numer (xs.map GQ.toC) / mpolyC f.denom (xs.map GQ.toC)‖ ^ 2 ≤ tol.toReal := by
  unfold residualVerdict at h
  simp only at h
  split at h
  · exact absurd h (by decide)
  · rename_i hd
    split at h
    · rename_i hc
      have hd' : mpolyC f.denom (xs.map GQ.toC) ≠ 0 := by
        rw [← evalMPoly_toC]
        intro h0
        exact hd ((GQ.isZero_iff _).2 h0)
      refine ⟨hd', ?_⟩
      rw [Q.le_iff, Q.toReal_mul, GQ.toReal_normSq, GQ.toReal_normSq, evalMPoly_toC, evalMPoly_toC] at hc
      rw [norm_div, div_pow, div_le_iff₀ (by positivity)]
      exact hc
    · exact absurd h (by decide)

theorem combineIncl_ok {vs : List Verdict} (h : combineIncl vs = .ok) : ∀ v ∈ vs, v = .ok := by
  unfold combineIncl at h
  split at h
  · exact absurd h (by decide)
  · split at h
    · exact absurd h (by decide)
    · rename_i h1 h2
      intro v hv
      cases v with
      | ok => rfl
      | fail => exact absurd (List.any_eq_true.2 ⟨_, hv, by decide⟩) h1
      | undecided => exact absurd (List.any_eq_true.2 ⟨_, hv, by decide⟩) h2

theorem Q.toReal_min (a b : Q) : (Q.min a b).toReal = Min.min a.toReal b.toReal := by
  unfold Q.min
  split
  · rename_i h; rw [min_eq_left ((Q.le_iff a b).1 h)]
  · rename_i h
    have : ¬ a.toReal ≤ b.toReal := fun hc => h ((Q.le_iff a b).2 hc)
    rw [min_eq_right (le_of_lt (not_le.1 this))]

theorem Q.toReal_max (a b : Q) : (Q.max a b).toReal = Max.max a.toReal b.toReal := by
  unfold Q.max
  split
  · rename_i h; rw [max_eq_right ((Q.le_iff a b).1 h)]
  · rename_i h
    have : ¬ a.toReal ≤ b.toReal := fun hc => h ((Q.le_iff a b).2 hc)
    rw [max_eq_left (le_of_lt (not_le.1 this))]

theorem inBracket_sound (a b : Q) (x : GQ) (h : inBracket a b x = true) :
    x.toC.im = 0 ∧ min a.toReal b.toReal ≤ x.toC.re ∧ x.toC.re ≤ max a.toReal b.toReal := by
  unfold inBracket at h
  simp only [Bool.and_eq_true, Q.isZero_iff, Q.le_iff] at h
  rw [Q.toReal_min, Q.toReal_max] at h
  exact ⟨h.1.1, h.1.2, h.2⟩

theorem forall₂_radius_le (cs : List GQ) (tol : Q) (zs : List ℂ) (roots : List GQ)
    (h : List.Forall₂ (fun z r => ‖z - r.toC‖ ≤ radius cs r) zs roots)
    (hper : ∀ r ∈ roots, radius cs r ≤ tol.toReal) :
    List.Forall₂ (fun z r => ‖z - r.toC‖ ≤ tol.toReal) zs roots := by
  induction h with
  | nil => exact List.Forall₂.nil
  | cons hab _ ih =>
    exact List.Forall₂.cons (hab.trans (hper _ (by simp))) (ih (fun r hr => hper r (by simp [hr])))

end RootCert
end Mp
