/-
  MpProofs/OdeSeg.lean — lemmas about the odefun segment cache model (MpModel/OdeSeg.lean).
  Specification vocabulary: `Incr` (strictly increasing step), `Inv` (cache invariant).
-/
import MpModel.OdeSeg

namespace Mp
namespace OdeSeg

variable {σ : Type}

/-- every successful step moves the right boundary strictly to the right
(`ode_taylor` returns `x0 + radius` with `radius > 0`; the harness checks it on every real step) -/
def Incr (step : Seg σ → Option (σ × Int)) : Prop :=
  ∀ s ser xb, step s = some (ser, xb) → s.xb < xb

/-- the cache invariant: `series_data` is an initial piece of the canonical segment sequence and
`series_boundaries` is `x0` followed by the right end points of the segments -/
structure Inv (step : Seg σ → Option (σ × Int)) (x0 : Int) (seg0 : Seg σ) (s : State σ) : Prop where
  ne : s.data ≠ []
  seq : ∀ k, k < s.data.length → s.data[k]? = canon step seg0 k
  bounds : s.bounds = x0 :: s.data.map (·.xb)

/-- strictly increasing, phrased with the accessor the binary search uses -/
def SortedLt (a : List Int) : Prop := ∀ i j, i < j → j < a.length → a.getD i 0 < a.getD j 0

/-! ### binary search -/

theorem bisectRightLoop_spec (a : List Int) (x : Int) (hs : SortedLt a) :
    ∀ fuel lo hi, hi - lo ≤ fuel → lo ≤ hi → hi ≤ a.length →
      (∀ i, i < lo → a.getD i 0 ≤ x) → (∀ i, hi ≤ i → i < a.length → x < a.getD i 0) →
      bisectRightLoop a x fuel lo hi ≤ a.length ∧
      (∀ i, i < bisectRightLoop a x fuel lo hi → a.getD i 0 ≤ x) ∧
      (∀ i, bisectRightLoop a x fuel lo hi ≤ i → i < a.length → x < a.getD i 0) := by
  intro fuel
  induction fuel with
  | zero =>
    intro lo hi hf hle hlen h1 h2
    have : lo = hi := by omega
    subst this
    simp only [bisectRightLoop]
    exact ⟨hlen, h1, h2⟩
  | succ f ih =>
    intro lo hi hf hle hlen h1 h2
    simp only [bisectRightLoop]
    by_cases hlt : lo < hi
    · simp only [hlt, if_true]
      have hm1 : lo ≤ (lo + hi) / 2 := by omega
      have hm2 : (lo + hi) / 2 < hi := by omega
      by_cases hx : x < a.getD ((lo + hi) / 2) 0
      · simp only [hx, if_true]
        refine ih lo ((lo + hi) / 2) (by omega) hm1 (by omega) h1 ?_
        intro i hi1 hi2
        by_cases he : i = (lo + hi) / 2
        · subst he; exact hx
        · have := hs ((lo + hi) / 2) i (by omega) hi2
          omega
      · simp only [hx, if_false]
        refine ih ((lo + hi) / 2 + 1) hi (by omega) (by omega) hlen ?_ h2
        intro i hi1
        by_cases he : i = (lo + hi) / 2
        · subst he; omega
        · have := hs i ((lo + hi) / 2) (by omega) (by omega)
          omega
    · have : lo = hi := by omega
      subst this
      simp only [hlt, if_false]
      exact ⟨hlen, h1, h2⟩

/-- on a strictly increasing list `bisect_right(a, x)` is the number of elements `≤ x` -/
theorem bisectRight_spec (a : List Int) (x : Int) (hs : SortedLt a) :
    bisectRight a x ≤ a.length ∧
    (∀ i, i < bisectRight a x → a.getD i 0 ≤ x) ∧
    (∀ i, bisectRight a x ≤ i → i < a.length → x < a.getD i 0) := by
  unfold bisectRight
  exact bisectRightLoop_spec a x hs a.length 0 a.length (by omega) (by omega) (by omega)
    (by intro i hi; omega) (by intro i h1 h2; omega)

/-! ### the canonical sequence -/

theorem canon_pred {step : Seg σ → Option (σ × Int)} {seg0 : Seg σ} {k : Nat} {b : Seg σ}
    (h : canon step seg0 (k + 1) = some b) :
    ∃ a, canon step seg0 k = some a ∧ nextSeg step a = some b := by
  simp only [canon] at h
  cases hc : canon step seg0 k with
  | none => simp [hc] at h
  | some a => simp only [hc] at h; exact ⟨a, rfl, h⟩

theorem canon_succ {step : Seg σ → Option (σ × Int)} {seg0 : Seg σ} {k : Nat} {a b : Seg σ}
    (ha : canon step seg0 k = some a) (hn : nextSeg step a = some b) :
    canon step seg0 (k + 1) = some b := by
  simp only [canon, ha, hn]

theorem nextSeg_spec {step : Seg σ → Option (σ × Int)} (hinc : Incr step) {a b : Seg σ}
    (h : nextSeg step a = some b) : b.xa = a.xb ∧ a.xb < b.xb := by
  unfold nextSeg at h
  cases hs : step a with
  | none => simp [hs] at h
  | some p =>
    obtain ⟨ser, xb⟩ := p
    simp only [hs, Option.some.injEq] at h
    subst h
    exact ⟨rfl, hinc a ser xb hs⟩

theorem canon_xa_lt_xb {step : Seg σ → Option (σ × Int)} (hinc : Incr step) {seg0 : Seg σ}
    (h1 : seg0.xa < seg0.xb) : ∀ k a, canon step seg0 k = some a → a.xa < a.xb := by
  intro k
  cases k with
  | zero => intro a h; simp only [canon, Option.some.injEq] at h; subst h; exact h1
  | succ k =>
    intro a h
    obtain ⟨p, _, hn⟩ := canon_pred h
    have := nextSeg_spec hinc hn
    omega

/-- the canonical segments are laid end to end, left to right -/
theorem canon_mono {step : Seg σ → Option (σ × Int)} (hinc : Incr step) {seg0 : Seg σ} :
    ∀ k j a b, j < k → canon step seg0 j = some a → canon step seg0 k = some b →
      a.xb ≤ b.xa ∧ a.xb < b.xb := by
  intro k
  induction k with
  | zero => intro j a b h; omega
  | succ k ih =>
    intro j a b hjk ha hb
    obtain ⟨p, hp, hn⟩ := canon_pred hb
    have hs := nextSeg_spec hinc hn
    by_cases he : j = k
    · subst he
      rw [hp] at ha
      cases ha
      omega
    · have := ih j a p (by omega) ha hp
      omega

/-! ### consequences of the invariant -/

theorem Inv.len_bounds {step : Seg σ → Option (σ × Int)} {x0 : Int} {seg0 : Seg σ} {s : State σ}
    (h : Inv step x0 seg0 s) : s.bounds.length = s.data.length + 1 := by
  rw [h.bounds]; simp

theorem Inv.pos {step : Seg σ → Option (σ × Int)} {x0 : Int} {seg0 : Seg σ} {s : State σ}
    (h : Inv step x0 seg0 s) : 0 < s.data.length := by
  have := h.ne
  cases hd : s.data with
  | nil => exact absurd hd this
  | cons a l => simp

theorem Inv.get {step : Seg σ → Option (σ × Int)} {x0 : Int} {seg0 : Seg σ} {s : State σ}
    (h : Inv step x0 seg0 s) {k : Nat} (hk : k < s.data.length) :
    ∃ sg, s.data[k]? = some sg ∧ canon step seg0 k = some sg := by
  have := h.seq k hk
  refine ⟨s.data[k], ?_, ?_⟩
  · simp [hk]
  · rw [← this]; simp [hk]

/-- `boundaries[k+1]` is the right end of segment `k` -/
theorem Inv.bound_succ {step : Seg σ → Option (σ × Int)} {x0 : Int} {seg0 : Seg σ} {s : State σ}
    (h : Inv step x0 seg0 s) {k : Nat} {sg : Seg σ} (hk : s.data[k]? = some sg) :
    s.bounds.getD (k + 1) 0 = sg.xb := by
  rw [h.bounds]
  simp [List.getD, hk]

/-- `boundaries[k]` is the left end of segment `k` -/
theorem Inv.bound_xa {step : Seg σ → Option (σ × Int)} (hinc : Incr step) {x0 : Int} {seg0 : Seg σ}
    (h0 : seg0.xa = x0) {s : State σ}
    (h : Inv step x0 seg0 s) {k : Nat} {sg : Seg σ} (hk : s.data[k]? = some sg) :
    s.bounds.getD k 0 = sg.xa := by
  have hlt : k < s.data.length := by
    rcases Nat.lt_or_ge k s.data.length with h' | h'
    · exact h'
    · have := List.getElem?_eq_none h'; rw [this] at hk; cases hk
  cases k with
  | zero =>
    have := h.seq 0 hlt
    rw [hk] at this
    simp only [canon, Option.some.injEq] at this
    subst this
    rw [h.bounds]; simp [h0]
  | succ k =>
    obtain ⟨p, hp1, hp2⟩ := h.get (k := k) (by omega)
    have hc := h.seq (k + 1) hlt
    rw [hk] at hc
    obtain ⟨q, hq1, hq2⟩ := canon_pred hc.symm
    rw [hp2] at hq1
    cases hq1
    have := nextSeg_spec hinc hq2
    rw [h.bound_succ hp1]
    omega

theorem Inv.sorted {step : Seg σ → Option (σ × Int)} (hinc : Incr step) {x0 : Int} {seg0 : Seg σ}
    (h0 : seg0.xa = x0) (h1 : x0 < seg0.xb) {s : State σ} (h : Inv step x0 seg0 s) :
    SortedLt s.bounds := by
  intro i j hij hj
  rw [h.len_bounds] at hj
  obtain ⟨a, ha1, ha2⟩ := h.get (k := i) (by omega)
  obtain ⟨b, hb1, hb2⟩ := h.get (k := j - 1) (by omega)
  have e1 := h.bound_xa hinc h0 ha1
  have e2 := h.bound_succ hb1
  have hj' : j - 1 + 1 = j := by omega
  rw [hj'] at e2
  rw [e1, e2]
  have hax := canon_xa_lt_xb hinc (by omega : seg0.xa < seg0.xb) i a ha2
  by_cases he : i = j - 1
  · subst he
    rw [ha2] at hb2; cases hb2
    exact hax
  · have := canon_mono hinc (j - 1) i a b (by omega) ha2 hb2
    omega

theorem sortedLt_pairwise {a : List Int} (h : SortedLt a) : a.Pairwise (· < ·) := by
  rw [List.pairwise_iff_getElem]
  intro i j hi hj hij
  have := h i j hij hj
  simpa [List.getD, hi, hj] using this

theorem inv_init {step : Seg σ → Option (σ × Int)} (x0 : Int) (seg0 : Seg σ) :
    Inv step x0 seg0 (init x0 seg0) := by
  refine ⟨by simp [init], ?_, by simp [init]⟩
  intro k hk
  simp only [init, List.length_singleton] at hk
  have : k = 0 := by omega
  subst this
  simp [init, canon]

theorem pyGet_pred {α : Type} (l : List α) (n : Nat) (hn : 1 ≤ n) :
    pyGet l ((n : Int) - 1) = l[n - 1]? := by
  unfold pyGet
  have h : (0 : Int) ≤ (n : Int) - 1 := by omega
  have h2 : ((n : Int) - 1).toNat = n - 1 := by omega
  simp only [h, if_true, h2]

/-! ### the cached branch -/

/-- With the invariant, the lookup `n = bisect(boundaries, x)`, `n < len` selects the canonical
segment `n-1`, and `xa ≤ x < xb`. -/
theorem cached_spec {step : Seg σ → Option (σ × Int)} (hinc : Incr step) {x0 : Int} {seg0 : Seg σ}
    (h0 : seg0.xa = x0) (h1 : x0 < seg0.xb) {s : State σ} (h : Inv step x0 seg0 s) {x : Int}
    (hx : x0 ≤ x) (hn : bisectRight s.bounds x < s.bounds.length) :
    1 ≤ bisectRight s.bounds x ∧
    ∃ sg, pyGet s.data ((bisectRight s.bounds x : Int) - 1) = some sg ∧
      canon step seg0 (bisectRight s.bounds x - 1) = some sg ∧
      bisectRight s.bounds x - 1 < s.data.length ∧ sg.xa ≤ x ∧ x < sg.xb := by
  obtain ⟨b1, b2, b3⟩ := bisectRight_spec s.bounds x (h.sorted hinc h0 h1)
  have hlen := h.len_bounds
  have hpos : 1 ≤ bisectRight s.bounds x := by
    rcases Nat.eq_zero_or_pos (bisectRight s.bounds x) with hz | hz
    · have := b3 0 (by omega) (by omega)
      rw [h.bounds] at this
      simp at this
      omega
    · exact hz
  refine ⟨hpos, ?_⟩
  obtain ⟨sg, hs1, hs2⟩ := h.get (k := bisectRight s.bounds x - 1) (by omega)
  refine ⟨sg, ?_, hs2, by omega, ?_, ?_⟩
  · rw [pyGet_pred _ _ hpos]; exact hs1
  · have := b2 (bisectRight s.bounds x - 1) (by omega)
    rw [h.bound_xa hinc h0 hs1] at this
    exact this
  · have := b3 (bisectRight s.bounds x) (by omega) hn
    have e := h.bound_succ hs1
    have hj : bisectRight s.bounds x - 1 + 1 = bisectRight s.bounds x := by omega
    rw [hj] at e
    omega

/-- if the lookup falls through (`n = len`), the last boundary is `≤ x` -/
theorem fallthrough_last {step : Seg σ → Option (σ × Int)} (hinc : Incr step) {x0 : Int}
    {seg0 : Seg σ} (h0 : seg0.xa = x0) (h1 : x0 < seg0.xb) {s : State σ} (h : Inv step x0 seg0 s)
    {x : Int} (hn : ¬ bisectRight s.bounds x < s.bounds.length) :
    ∀ last, s.data.getLast? = some last → last.xb ≤ x := by
  intro last hl
  obtain ⟨b1, b2, b3⟩ := bisectRight_spec s.bounds x (h.sorted hinc h0 h1)
  have hlen := h.len_bounds
  have hp := h.pos
  rw [List.getLast?_eq_getElem?] at hl
  have := b2 (s.data.length - 1 + 1) (by omega)
  rw [h.bound_succ hl] at this
  exact this

/-! ### the extension loop -/

theorem inv_snoc {step : Seg σ → Option (σ × Int)} {x0 : Int} {seg0 : Seg σ} {s : State σ}
    (h : Inv step x0 seg0 s) {last sg : Seg σ} (hl : s.data.getLast? = some last)
    (hn : nextSeg step last = some sg) :
    Inv step x0 seg0 ⟨s.bounds ++ [sg.xb], s.data ++ [sg]⟩ := by
  have hp := h.pos
  rw [List.getLast?_eq_getElem?] at hl
  have hc : canon step seg0 (s.data.length - 1) = some last := by
    rw [← h.seq _ (by omega)]; exact hl
  have hnew : canon step seg0 s.data.length = some sg := by
    have := canon_succ hc hn
    have e : s.data.length - 1 + 1 = s.data.length := by omega
    rw [e] at this; exact this
  refine ⟨by simp, ?_, ?_⟩
  · intro k hk
    simp only [List.length_append, List.length_singleton] at hk
    by_cases hk' : k < s.data.length
    · simp only [List.getElem?_append_left hk']
      exact h.seq k hk'
    · have : k = s.data.length := by omega
      subst this
      simp [hnew]
  · simp [h.bounds]

/-- The `while 1` loop: whatever the fuel and the fault position, the invariant is preserved, the
cached lists are only extended at the end, and a returned segment is the freshly appended last
canonical segment, the first one with `x ≤ xb`. -/
theorem extend_spec {step : Seg σ → Option (σ × Int)} (hinc : Incr step) {x0 : Int} {seg0 : Seg σ}
    (x : Int) :
    ∀ fuel fault (s : State σ), Inv step x0 seg0 s →
      (∀ last, s.data.getLast? = some last → last.xb ≤ x) →
      Inv step x0 seg0 (extend step x fuel fault s).1 ∧
      (∃ l, (extend step x fuel fault s).1.data = s.data ++ l) ∧
      (extend step x fuel fault s).2 ≠ .indexError ∧
      (∀ sg, (extend step x fuel fault s).2 = .seg sg →
        (extend step x fuel fault s).1.data.getLast? = some sg ∧
        s.data.length < (extend step x fuel fault s).1.data.length ∧
        sg.xa ≤ x ∧ x ≤ sg.xb ∧
        (sg.xa < x ∨ (extend step x fuel fault s).1.data.length = s.data.length + 1)) := by
  intro fuel
  induction fuel with
  | zero =>
    intro fault s h hl
    simp only [extend]
    exact ⟨h, ⟨[], by simp⟩, by simp, by intro sg hsg; cases hsg⟩
  | succ f ih =>
    intro fault s h hl
    simp only [extend]
    cases hlast : s.data.getLast? with
    | none =>
      exfalso
      have := h.ne
      rw [List.getLast?_eq_none_iff] at hlast
      exact this hlast
    | some last =>
      simp only []
      by_cases hf : fault = some 0
      · simp only [hf, if_true]
        exact ⟨h, ⟨[], by simp⟩, by simp, by intro sg hsg; cases hsg⟩
      · simp only [hf, if_false]
        cases hn : nextSeg step last with
        | none =>
          simp only []
          exact ⟨h, ⟨[], by simp⟩, by simp, by intro sg hsg; cases hsg⟩
        | some sg =>
          simp only []
          have hinv := inv_snoc h hlast hn
          have hsp := nextSeg_spec hinc hn
          have hlx := hl last hlast
          by_cases hx : x ≤ sg.xb
          · simp only [hx, if_true]
            refine ⟨hinv, ⟨[sg], rfl⟩, by simp, ?_⟩
            intro sg' hsg'
            cases hsg'
            refine ⟨by simp, by simp, by omega, hx, Or.inr (by simp)⟩
          · simp only [hx, if_false]
            have hl' : ∀ l', (s.data ++ [sg]).getLast? = some l' → l'.xb ≤ x := by
              intro l' hl'
              simp only [List.getLast?_append, List.getLast?_singleton, Option.some_or,
                Option.some.injEq] at hl'
              subst hl'; omega
            obtain ⟨i1, ⟨l, i2⟩, i3, i4⟩ := ih (fault.map (· - 1)) ⟨s.bounds ++ [sg.xb], s.data ++ [sg]⟩ hinv hl'
            refine ⟨i1, ⟨sg :: l, by rw [i2]; simp⟩, i3, ?_⟩
            intro sg' hsg'
            obtain ⟨j1, j2, j3, j4, j5⟩ := i4 sg' hsg'
            simp only [List.length_append, List.length_singleton] at j2 j5
            refine ⟨j1, by omega, j3, j4, ?_⟩
            rcases j5 with j5 | j5
            · exact Or.inl j5
            · -- sg' is the segment right after sg, whose xa is sg.xb < x
              left
              rw [i2] at j1 j5
              simp only [List.length_append, List.length_singleton] at j5
              have hl1 : l.length = 1 := by omega
              match l, hl1 with
              | [c], _ =>
                simp only [List.getLast?_append, List.getLast?_singleton, Option.some_or,
                  Option.some.injEq] at j1
                subst j1
                have hc := i1.seq (s.data.length + 1) (by rw [i2]; simp)
                have hb := i1.seq s.data.length (by rw [i2]; simp)
                rw [i2] at hc hb
                simp at hc hb
                obtain ⟨q, hq1, hq2⟩ := canon_pred hc.symm
                rw [← hb] at hq1
                cases hq1
                have := nextSeg_spec hinc hq2
                omega

/-- enough fuel: no `outOfFuel` when every boundary step is at least 1 (strictly increasing on `Int`) -/
theorem extend_fuel_enough {step : Seg σ → Option (σ × Int)} (hinc : Incr step) (x : Int) :
    ∀ fuel fault (s : State σ) last, s.data.getLast? = some last →
      (x - last.xb).toNat < fuel →
      (extend step x fuel fault s).2 ≠ .outOfFuel := by
  intro fuel
  induction fuel with
  | zero => intro fault s last _ h; omega
  | succ f ih =>
    intro fault s last hlast hf
    simp only [extend, hlast]
    by_cases hfa : fault = some 0
    · simp [hfa]
    · simp only [hfa, if_false]
      cases hn : nextSeg step last with
      | none => simp
      | some sg =>
        simp only []
        have hsp := nextSeg_spec hinc hn
        by_cases hx : x ≤ sg.xb
        · simp [hx]
        · simp only [hx, if_false]
          exact ih _ _ sg (by simp) (by omega)

theorem extend_ne_valueError (step : Seg σ → Option (σ × Int)) (x : Int) :
    ∀ fuel fault (s : State σ), (extend step x fuel fault s).2 ≠ .valueError := by
  intro fuel
  induction fuel with
  | zero => intro fault s; simp [extend]
  | succ f ih =>
    intro fault s
    simp only [extend]
    split
    · simp
    · split
      · simp
      · split
        · simp
        · split
          · simp
          · exact ih _ _

/-! ### one request, histories -/

/-- `get_series` preserves the invariant, only appends to the cache, never raises IndexError, and a
returned segment is canonical and contains `x`. -/
theorem getSeries_spec {step : Seg σ → Option (σ × Int)} (hinc : Incr step) {x0 : Int} {seg0 : Seg σ}
    (h0 : seg0.xa = x0) (h1 : x0 < seg0.xb) {s : State σ} (h : Inv step x0 seg0 s)
    (fuel : Nat) (fault : Option Nat) (x : Int) :
    Inv step x0 seg0 (getSeries step x0 fuel fault s x).1 ∧
    (∃ l, (getSeries step x0 fuel fault s x).1.data = s.data ++ l) ∧
    (getSeries step x0 fuel fault s x).2 ≠ .indexError ∧
    ((getSeries step x0 fuel fault s x).2 = .valueError ↔ x < x0) ∧
    (∀ sg, (getSeries step x0 fuel fault s x).2 = .seg sg →
      ∃ k, canon step seg0 k = some sg ∧ sg.xa ≤ x ∧ x ≤ sg.xb ∧
        ((getSeries step x0 fuel fault s x).1 = s ∧ k < s.data.length ∧ x < sg.xb ∨
         s.data.length ≤ k ∧ (getSeries step x0 fuel fault s x).1.data.length = k + 1 ∧
           (getSeries step x0 fuel fault s x).1.data.getLast? = some sg ∧
           (sg.xa < x ∨ k = s.data.length))) := by
  unfold getSeries
  by_cases hx : x < x0
  · simp only [hx, if_true]
    exact ⟨h, ⟨[], by simp⟩, by simp, by simp, by intro sg hsg; cases hsg⟩
  · simp only [hx, if_false]
    by_cases hn : bisectRight s.bounds x < s.bounds.length
    · simp only [hn, if_true]
      obtain ⟨hpos, sg, c1, c2, c3, c4, c5⟩ := cached_spec hinc h0 h1 h (by omega) hn
      simp only [c1]
      refine ⟨h, ⟨[], by simp⟩, by simp, by simp, ?_⟩
      intro sg' hsg'
      cases hsg'
      exact ⟨_, c2, c4, by omega, Or.inl ⟨by trivial, c3, c5⟩⟩
    · simp only [hn, if_false]
      obtain ⟨e1, e2, e3, e4⟩ := extend_spec hinc (x0 := x0) (seg0 := seg0) x fuel fault s h
        (fallthrough_last hinc h0 h1 h hn)
      refine ⟨e1, e2, e3, ?_, ?_⟩
      · constructor
        · intro hv; exact absurd hv (extend_ne_valueError step x fuel fault s)
        · intro hh; first | exact absurd hh hx | exact hh.elim
      · intro sg hsg
        obtain ⟨j1, j2, j3, j4, j5⟩ := e4 sg hsg
        have hp := e1.pos
        refine ⟨(extend step x fuel fault s).1.data.length - 1, ?_, j3, j4, Or.inr ⟨by omega, by omega, j1, ?_⟩⟩
        · rw [← e1.seq _ (by omega), ← List.getLast?_eq_getElem?]; exact j1
        · rcases j5 with j5 | j5
          · exact Or.inl j5
          · right; omega

theorem inv_after {step : Seg σ → Option (σ × Int)} (hinc : Incr step) {x0 : Int} {seg0 : Seg σ}
    (h0 : seg0.xa = x0) (h1 : x0 < seg0.xb) :
    ∀ (h : List Req) (s : State σ), Inv step x0 seg0 s → Inv step x0 seg0 (after step x0 s h) := by
  intro h
  induction h with
  | nil => intro s hs; exact hs
  | cons r rs ih =>
    intro s hs
    simp only [after]
    exact ih _ (getSeries_spec hinc h0 h1 hs r.fuel r.fault r.x).1

/-- two states satisfying the invariant hold the same segments as far as both go -/
theorem inv_prefix {step : Seg σ → Option (σ × Int)} {x0 : Int} {seg0 : Seg σ} {s t : State σ}
    (hs : Inv step x0 seg0 s) (ht : Inv step x0 seg0 t) (hle : s.data.length ≤ t.data.length) :
    s.data = t.data.take s.data.length ∧ s.bounds = t.bounds.take s.bounds.length := by
  have hd : s.data = t.data.take s.data.length := by
    apply List.ext_getElem?
    intro k
    by_cases hk : k < s.data.length
    · rw [List.getElem?_take_of_lt hk, hs.seq k hk, ht.seq k (by omega)]
    · rw [List.getElem?_eq_none (by omega), List.getElem?_eq_none (by simp; omega)]
  refine ⟨hd, ?_⟩
  rw [hs.len_bounds, hs.bounds, ht.bounds, List.take_succ_cons, ← List.map_take, ← hd]

/-- `get_series(x0)`: always the first segment, from the cache -/
theorem getSeries_x0 {step : Seg σ → Option (σ × Int)} (hinc : Incr step) {x0 : Int} {seg0 : Seg σ}
    (h0 : seg0.xa = x0) (h1 : x0 < seg0.xb) {s : State σ} (h : Inv step x0 seg0 s)
    (fuel : Nat) (fault : Option Nat) :
    getSeries step x0 fuel fault s x0 = (s, .seg seg0) := by
  have hlen := h.len_bounds
  have hp := h.pos
  obtain ⟨b1, b2, b3⟩ := bisectRight_spec s.bounds x0 (h.sorted hinc h0 h1)
  obtain ⟨a, ha1, ha2⟩ := h.get (k := 0) hp
  simp only [canon, Option.some.injEq] at ha2
  subst ha2
  have hb1 : s.bounds.getD 1 0 = seg0.xb := h.bound_succ ha1
  have hn : bisectRight s.bounds x0 = 1 := by
    rcases Nat.lt_trichotomy (bisectRight s.bounds x0) 1 with hlt | heq | hgt
    · have := b3 0 (by omega) (by omega)
      rw [h.bounds] at this
      simp at this
    · exact heq
    · have := b2 1 hgt
      omega
  unfold getSeries
  have hnlt : ¬ x0 < x0 := by omega
  simp only [hnlt, if_false, hn]
  have h2 : 1 < s.bounds.length := by omega
  simp only [h2, if_true]
  have : pyGet s.data (((1 : Nat) : Int) - 1) = some seg0 := by
    rw [pyGet_pred _ 1 (by omega)]; exact ha1
  simp only [this]

theorem extend_total {step : Seg σ → Option (σ × Int)} (htot : ∀ s, step s ≠ none) (x : Int) :
    ∀ fuel (s : State σ), s.data ≠ [] →
      (∃ sg, (extend step x fuel none s).2 = .seg sg) ∨ (extend step x fuel none s).2 = .outOfFuel := by
  intro fuel
  induction fuel with
  | zero => intro s _; right; simp [extend]
  | succ f ih =>
    intro s hne
    simp only [extend]
    cases hl : s.data.getLast? with
    | none => rw [List.getLast?_eq_none_iff] at hl; exact absurd hl hne
    | some last =>
      simp only []
      have hns : nextSeg step last ≠ none := by
        unfold nextSeg
        cases hs : step last with
        | none => exact absurd hs (htot last)
        | some p => simp
      cases hn : nextSeg step last with
      | none => exact absurd hn hns
      | some sg =>
        have hf : ¬ ((none : Option Nat) = some 0) := by simp
        simp only [hf, if_false]
        by_cases hx : x ≤ sg.xb
        · left; simp [hx]
        · simp only [hx, if_false, Option.map_none]
          exact ih _ (by simp)

/-- a call `f(x)`, `x ≥ x0`, that is not aborted and is given the fuel `fuelFor` returns a segment
(when `ode_taylor` never raises and strictly advances) -/
theorem getSeries_answers {step : Seg σ → Option (σ × Int)} (hinc : Incr step)
    (htot : ∀ s, step s ≠ none) {x0 : Int} {seg0 : Seg σ}
    (h0 : seg0.xa = x0) (h1 : x0 < seg0.xb) {s : State σ} (h : Inv step x0 seg0 s) {x : Int}
    (hx : x0 ≤ x) :
    ∃ sg, (getSeries step x0 (fuelFor s x) none s x).2 = .seg sg := by
  unfold getSeries
  have hnx : ¬ x < x0 := by omega
  simp only [hnx, if_false]
  by_cases hn : bisectRight s.bounds x < s.bounds.length
  · simp only [hn, if_true]
    obtain ⟨_, sg, c1, _⟩ := cached_spec hinc h0 h1 h hx hn
    simp only [c1]
    exact ⟨sg, rfl⟩
  · simp only [hn, if_false]
    rcases extend_total htot x (fuelFor s x) s h.ne with hsg | hof
    · exact hsg
    · exfalso
      cases hl : s.data.getLast? with
      | none => rw [List.getLast?_eq_none_iff] at hl; exact h.ne hl
      | some last =>
        refine extend_fuel_enough hinc x (fuelFor s x) none s last hl ?_ hof
        simp only [fuelFor, hl]
        omega

/-- two canonical segments that both contain `x` are equal, or `x` is their common end point -/
theorem canon_unique {step : Seg σ → Option (σ × Int)} (hinc : Incr step) {seg0 : Seg σ}
    {j k : Nat} {a b : Seg σ} {x : Int}
    (ha : canon step seg0 j = some a) (hb : canon step seg0 k = some b)
    (ha1 : a.xa ≤ x) (ha2 : x ≤ a.xb) (hb1 : b.xa ≤ x) (hb2 : x ≤ b.xb) :
    a = b ∨ (a.xb = x ∧ b.xa = x) ∨ (b.xb = x ∧ a.xa = x) := by
  rcases Nat.lt_trichotomy j k with hlt | heq | hgt
  · have := canon_mono hinc k j a b hlt ha hb
    right; left; omega
  · subst heq; rw [ha] at hb; cases hb; left; rfl
  · have := canon_mono hinc j k b a hgt hb ha
    right; right; omega

end OdeSeg
end Mp
