/-
  MpProofs/IntervalMore.lean — containment for mpi_abs, mpi_square (over ℚ) and mpi_sqrt (over ℝ).
-/
import MpProofs.IntervalSound
import MpProofs.Sqrt

namespace Mp

theorem mpf_sign_nonneg_iff {s : Mpf} (hs : CanonFin s) : mpf_sign s ≥ 0 ↔ 0 ≤ val s := by
  rw [mpf_sign_canon hs]; unfold cmpQ
  rcases lt_trichotomy (val s) 0 with h | h | h
  · have h' : ¬ (0 ≤ val s) := by linarith
    simp [h, h']
  · simp [h]
  · have h1 : ¬ (val s < 0) := by linarith
    have h2 : ¬ (val s = 0) := by linarith
    simp [h1, h2, h.le]

theorem val_mpf_neg_exact {s : Mpf} (hs : CanonFin s) : CanonFin (mpf_neg s) ∧ val (mpf_neg s) = -val s := by
  have := mpf_neg_spec hs (le_refl 0) .d
  exact ⟨this.1, this.2.1 rfl⟩

/-- `|x|` for every `x` of the interval -/
theorem mpi_abs_sound {s : Mpi} (hs : FinIv s) {prec : ℤ} (hp : 0 ≤ prec) {x : ℚ} (hx : MemIv x s) :
    FinIv (mpi_abs s prec) ∧ MemIv |x| (mpi_abs s prec) := by
  obtain ⟨ha, hb, hab⟩ := hs
  obtain ⟨hx1, hx2⟩ := hx
  unfold mpi_abs
  simp only
  by_cases h1 : mpf_sign s.1 ≥ 0
  · -- nonnegative interval
    rw [if_pos h1]
    have ha0 := (mpf_sign_nonneg_iff ha).1 h1
    have r1 := mpf_pos_spec ha hp .f
    have r2 := mpf_pos_spec hb hp .c
    have l1 := roundOK_f_le hp r1
    have l2 := roundOK_c_ge hp r2
    rw [abs_of_nonneg (by linarith)]
    exact ⟨⟨r1.1, r2.1, by linarith⟩, by show val _ ≤ x; linarith, by show x ≤ val _; linarith⟩
  · rw [if_neg h1]
    have ha0 : val s.1 < 0 := by
      by_contra h; exact h1 ((mpf_sign_nonneg_iff ha).2 (not_lt.1 h))
    obtain ⟨hnc, hnv⟩ := val_mpf_neg_exact ha
    by_cases h2 : mpf_sign s.2 ≥ 0
    · -- straddles zero
      rw [if_pos h2]
      have hb0 := (mpf_sign_nonneg_iff hb).1 h2
      have hlt := mpf_lt_spec hnc hb
      by_cases h3 : mpf_lt (mpf_neg s.1) s.2 = true
      · rw [if_pos h3]
        rw [hlt, decide_eq_true_eq, hnv] at h3
        have r2 := mpf_pos_spec hb hp .c
        have l2 := roundOK_c_ge hp r2
        refine ⟨⟨canonFin_fzero, r2.1, by rw [val_fzero]; linarith⟩, by show val fzero ≤ |x|; rw [val_fzero]; exact abs_nonneg x, ?_⟩
        show |x| ≤ val _
        rw [abs_le]; constructor <;> linarith
      · rw [if_neg h3]
        rw [hlt, decide_eq_true_eq, hnv] at h3
        push Not at h3
        have r2 := mpf_pos_spec hnc hp .c
        have l2 := roundOK_c_ge hp r2
        rw [hnv] at l2
        refine ⟨⟨canonFin_fzero, r2.1, by rw [val_fzero]; linarith⟩, by show val fzero ≤ |x|; rw [val_fzero]; exact abs_nonneg x, ?_⟩
        show |x| ≤ val _
        rw [abs_le]; constructor <;> linarith
    · -- negative interval
      rw [if_neg h2]
      have hb0 : val s.2 < 0 := by
        by_contra h; exact h2 ((mpf_sign_nonneg_iff hb).2 (not_lt.1 h))
      have r1 := mpf_neg_spec hb hp .f
      have r2 := mpf_neg_spec ha hp .c
      have l1 := roundOK_f_le hp r1
      have l2 := roundOK_c_ge hp r2
      rw [abs_of_nonpos (by linarith)]
      exact ⟨⟨r1.1, r2.1, by linarith⟩, by show val _ ≤ -x; linarith, by show -x ≤ val _; linarith⟩

/-- `x²` for every `x` of the interval -/
theorem mpi_square_sound {s : Mpi} (hs : FinIv s) {prec : ℤ} (hp : 0 ≤ prec) {x : ℚ} (hx : MemIv x s) :
    FinIv (mpi_square s prec) ∧ MemIv (x * x) (mpi_square s prec) := by
  obtain ⟨ha, hb, hab⟩ := hs
  obtain ⟨hx1, hx2⟩ := hx
  unfold mpi_square
  simp only
  have hge := mpf_ge_spec ha canonFin_fzero
  have hle := mpf_le_spec hb canonFin_fzero
  rw [val_fzero] at hge hle
  by_cases h1 : mpf_ge s.1 fzero = true
  · rw [if_pos h1]
    rw [hge, decide_eq_true_eq] at h1
    have r1 := mpf_mul_spec ha ha hp .f
    have r2 := mpf_mul_spec hb hb hp .c
    have l1 := roundOK_f_le hp r1
    have l2 := roundOK_c_ge hp r2
    refine ⟨⟨r1.1, r2.1, ?_⟩, ?_, ?_⟩
    · nlinarith
    · show val _ ≤ x * x; nlinarith
    · show x * x ≤ val _; nlinarith
  · rw [if_neg h1]
    rw [hge, decide_eq_true_eq] at h1
    push Not at h1
    by_cases h2 : mpf_le s.2 fzero = true
    · rw [if_pos h2]
      rw [hle, decide_eq_true_eq] at h2
      have r1 := mpf_mul_spec hb hb hp .f
      have r2 := mpf_mul_spec ha ha hp .c
      have l1 := roundOK_f_le hp r1
      have l2 := roundOK_c_ge hp r2
      refine ⟨⟨r1.1, r2.1, ?_⟩, ?_, ?_⟩
      · nlinarith
      · show val _ ≤ x * x; nlinarith
      · show x * x ≤ val _; nlinarith
    · rw [if_neg h2]
      rw [hle, decide_eq_true_eq] at h2
      push Not at h2
      obtain ⟨hnc, hnv⟩ := val_mpf_neg_exact ha
      obtain ⟨_, hmc, hmm, _, hmem⟩ := mpf_min_max_spec (mpf_neg s.1) [s.2] hnc (by
        intro y hy; simp only [List.mem_singleton] at hy; rw [hy]; exact hb)
      have hm1 := (hmm (mpf_neg s.1) (by simp)).2
      have hm2 := (hmm s.2 (by simp)).2
      rw [hnv] at hm1
      have r2 := mpf_mul_spec hmc hmc hp .c
      have l2 := roundOK_c_ge hp r2
      have hM0 : 0 ≤ val (mpf_min_max (mpf_neg s.1) [s.2]).2 := by linarith
      refine ⟨⟨canonFin_fzero, r2.1, ?_⟩, ?_, ?_⟩
      · rw [val_fzero]; nlinarith
      · show val fzero ≤ x * x; rw [val_fzero]; nlinarith [mul_self_nonneg x]
      · show x * x ≤ val _
        have hxabs : |x| ≤ val (mpf_min_max (mpf_neg s.1) [s.2]).2 := by
          rw [abs_le]; constructor <;> linarith
        have : x * x = |x| * |x| := (abs_mul_abs_self x).symm
        rw [this]
        have h0 := abs_nonneg x
        nlinarith

/-- `sqrt x` (real) for every `x` of a nonnegative interval -/
theorem mpi_sqrt_sound {s : Mpi} (hs : FinIv s) (hnn : 0 ≤ val s.1) {prec : ℤ} (hp : 0 < prec) {x : ℚ}
    (hx : MemIv x s) :
    ∃ r, mpi_sqrt s prec = .ok r ∧ CanonFin r.1 ∧ CanonFin r.2 ∧
      valR r.1 ≤ Real.sqrt (x : ℝ) ∧ Real.sqrt (x : ℝ) ≤ valR r.2 := by
  obtain ⟨ha, hb, hab⟩ := hs
  obtain ⟨hx1, hx2⟩ := hx
  have sign0 : ∀ {t : Mpf}, CanonFin t → 0 ≤ val t → t.sign = 0 := by
    intro t ht h0
    rcases ht.cases with rfl | ⟨hm, hsg, _, _⟩
    · rfl
    · by_contra h
      have : t.sign = 1 := by omega
      have := val_neg_of_sign1 hm this
      linarith
  have hsa := sign0 ha hnn
  have hsb := sign0 hb (by linarith)
  obtain ⟨r1, hr1, hc1, _, hround1⟩ := mpf_sqrt_spec ha hsa hp .f
  obtain ⟨r2, hr2, hc2, _, hround2⟩ := mpf_sqrt_spec hb hsb hp .c
  refine ⟨(r1, r2), ?_, hc1, hc2, ?_, ?_⟩
  · unfold mpi_sqrt; rw [hr1, hr2]; rfl
  · have h1 : valR r1 ≤ Real.sqrt (valR s.1) := hround1.2.1
    have hcast : valR s.1 = ((val s.1 : ℚ) : ℝ) := by
      simp [valR, valK, val]
    have : Real.sqrt (valR s.1) ≤ Real.sqrt (x : ℝ) := by
      apply Real.sqrt_le_sqrt; rw [hcast]; exact_mod_cast hx1
    exact le_trans h1 this
  · have h2 : Real.sqrt (valR s.2) ≤ valR r2 := hround2.2.1
    have hcast : valR s.2 = ((val s.2 : ℚ) : ℝ) := by
      simp [valR, valK, val]
    have : Real.sqrt (x : ℝ) ≤ Real.sqrt (valR s.2) := by
      apply Real.sqrt_le_sqrt; rw [hcast]; exact_mod_cast hx2
    exact le_trans this h2

end Mp
