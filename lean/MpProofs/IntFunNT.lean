/-
  MpProofs/IntFunNT.lean — number-theoretic specifications of the `libintmath` model:
  `moebius`, `powmod`, `isprime`.
-/
import MpModel.IntFun
import Mathlib.NumberTheory.ArithmeticFunction.Moebius
import Mathlib.Tactic.IntervalCases
import Mathlib.Tactic.Push
import Mathlib.Tactic.Linarith
import Mathlib.Tactic.NormNum
import Mathlib.Tactic.NormNum.Prime
import Mathlib.Tactic.Ring
import Mathlib.FieldTheory.Finite.Basic

namespace Mp

open ArithmeticFunction

/-! ## moebius -/

private theorem sum_mod_eq_zero_iff (p : Nat) (l : List Nat) :
    (l.map (fun f => p % f)).sum = 0 ↔ ∀ f ∈ l, p % f = 0 := by
  induction l with
  | nil => simp
  | cons a t ih => simp [ih]

/-- the loop returns `0` as soon as the remaining range contains a `q` with `q² ∣ n` -/
theorem moebiusLoop_eq_zero : ∀ (cnt p n : Nat) (factors : List Nat),
    (∃ q, p ≤ q ∧ q < p + cnt ∧ n % q = 0 ∧ n % q ^ 2 = 0) → moebiusLoop cnt p n factors = 0
  | 0, p, n, factors, ⟨q, h1, h2, _, _⟩ => by omega
  | cnt+1, p, n, factors, ⟨q, h1, h2, h3, h4⟩ => by
    unfold moebiusLoop
    by_cases hqp : q = p
    · subst hqp; simp [h3, h4]
    · have hex : ∃ q, p + 1 ≤ q ∧ q < p + 1 + cnt ∧ n % q = 0 ∧ n % q ^ 2 = 0 :=
        ⟨q, by omega, by omega, h3, h4⟩
      split
      · split
        · rfl
        · split
          · exact moebiusLoop_eq_zero cnt (p+1) n _ hex
          · exact moebiusLoop_eq_zero cnt (p+1) n _ hex
      · exact moebiusLoop_eq_zero cnt (p+1) n _ hex

private theorem sqfree_prime_not_dvd {n d e q : Nat} (hsq : Squarefree n) (hde : d * e ∣ n)
    (hq : q.Prime) (hqe : q ∣ e) : ¬ q ∣ d := by
  intro hqd
  have h1 : q * q ∣ n := dvd_trans (Nat.mul_dvd_mul hqd hqe) hde
  exact (Nat.squarefree_iff_prime_squarefree.1 hsq) q hq h1

private theorem sqfree_mul_dvd {n d q : Nat} (hq : q.Prime) (hqn : q ∣ n) (hdn : d ∣ n)
    (hqd : ¬ q ∣ d) : d * q ∣ n :=
  Nat.Coprime.mul_dvd_of_dvd_of_dvd ((Nat.Prime.coprime_iff_not_dvd hq).2 hqd).symm hdn hqn

/-- loop invariant for squarefree `n`: `factors` is a divisor chain ending in `d`. -/
theorem moebiusLoop_squarefree {n : Nat} (hsq : Squarefree n) :
    ∀ (cnt p : Nat) (factors : List Nat) (d : Nat),
      2 ≤ p → p + cnt = n + 1 →
      (factors = [] ∧ d = 1 ∨ d ∈ factors) →
      (∀ f ∈ factors, f ∣ d) → d ∣ n → factors.length = cardDistinctFactors d → d < p →
      (∀ q, q.Prime → q ∣ n → ¬ q ∣ d → p ≤ d * q) →
      moebiusLoop cnt p n factors = (-1) ^ cardDistinctFactors n
  | 0, p, factors, d, hp, hcnt, hlast, hall, hdn, hlen, hdp, hb => by
    unfold moebiusLoop
    have hn0 : n ≠ 0 := hsq.ne_zero
    obtain ⟨e, he⟩ := hdn
    have he1 : e = 1 := by
      by_contra hne
      obtain ⟨q, hq, hqe⟩ := Nat.exists_prime_and_dvd hne
      have hqd : ¬ q ∣ d := sqfree_prime_not_dvd hsq (by rw [he]) hq hqe
      have hqn : q ∣ n := he ▸ Dvd.dvd.mul_left hqe d
      have h1 := hb q hq hqn hqd
      have he0 : 0 < e := Nat.pos_of_ne_zero (by rintro rfl; simp at he; exact hn0 he)
      have h2 : d * q ≤ d * e := Nat.mul_le_mul_left d (Nat.le_of_dvd he0 hqe)
      omega
    have : d = n := by rw [he, he1, mul_one]
    rw [hlen, this]
  | cnt+1, p, factors, d, hp, hcnt, hlast, hall, hdn, hlen, hdp, hb => by
    unfold moebiusLoop
    have hn0 : n ≠ 0 := hsq.ne_zero
    have hd0 : d ≠ 0 := by rintro rfl; exact hn0 (Nat.eq_zero_of_zero_dvd hdn)
    by_cases hpn : n % p = 0
    · have hpdvd : p ∣ n := Nat.dvd_of_mod_eq_zero hpn
      have hp2 : ¬ n % p ^ 2 = 0 := by
        intro h
        have h1 : p * p ∣ n := by rw [← sq]; exact Nat.dvd_of_mod_eq_zero h
        have := Nat.isUnit_iff.1 (hsq p h1)
        omega
      rw [if_pos hpn, if_neg hp2]
      have hsum : (factors.map (fun f => p % f)).sum = 0 ↔ d ∣ p := by
        rw [sum_mod_eq_zero_iff]
        constructor
        · intro h
          rcases hlast with ⟨_, h1⟩ | hmem
          · rw [h1]; exact one_dvd p
          · exact Nat.dvd_of_mod_eq_zero (h d hmem)
        · intro h f hf
          exact Nat.mod_eq_zero_of_dvd (dvd_trans (hall f hf) h)
      by_cases hdp' : d ∣ p
      · rw [if_pos (hsum.2 hdp')]
        obtain ⟨e, he⟩ := hdp'
        have hne : e ≠ 1 := by rintro rfl; omega
        obtain ⟨q, hq, hqe⟩ := Nat.exists_prime_and_dvd hne
        have hqd : ¬ q ∣ d := sqfree_prime_not_dvd hsq (by rw [← he]; exact hpdvd) hq hqe
        have hqn : q ∣ n := dvd_trans (he ▸ Dvd.dvd.mul_left hqe d) hpdvd
        have h1 := hb q hq hqn hqd
        have he0 : 0 < e := Nat.pos_of_ne_zero (by rintro rfl; omega)
        have h2 : d * q ≤ d * e := Nat.mul_le_mul_left d (Nat.le_of_dvd he0 hqe)
        have hpq : p = d * q := by omega
        have hcop : Nat.Coprime d q := ((Nat.Prime.coprime_iff_not_dvd hq).2 hqd).symm
        apply moebiusLoop_squarefree hsq cnt (p+1) (factors ++ [p]) p (by omega) (by omega)
        · right; simp
        · intro f hf
          rcases List.mem_append.1 hf with hf | hf
          · exact dvd_trans (hall f hf) (hpq ▸ Dvd.intro q rfl)
          · simp at hf; rw [hf]
        · exact hpdvd
        · rw [List.length_append, hlen, hpq, cardDistinctFactors_mul hcop,
            cardDistinctFactors_apply_prime hq]; rfl
        · omega
        · intro q' hq' _ _
          have := hq'.two_le
          nlinarith
      · rw [if_neg (fun h => hdp' (hsum.1 h))]
        apply moebiusLoop_squarefree hsq cnt (p+1) factors d (by omega) (by omega) hlast hall hdn
          hlen (by omega)
        intro q hq hqn hqd
        have h1 := hb q hq hqn hqd
        have : d * q ≠ p := by rintro rfl; exact hdp' (Dvd.intro q rfl)
        omega
    · rw [if_neg hpn]
      apply moebiusLoop_squarefree hsq cnt (p+1) factors d (by omega) (by omega) hlast hall hdn
        hlen (by omega)
      intro q hq hqn hqd
      have h1 := hb q hq hqn hqd
      have : d * q ≠ p := by
        rintro rfl
        exact hpn (Nat.mod_eq_zero_of_dvd (sqfree_mul_dvd hq hqn hdn hqd))
      omega

theorem moebius_spec (n : Int) : Mp.moebius n = ArithmeticFunction.moebius n.natAbs := by
  unfold Mp.moebius
  generalize n.natAbs = m
  show (if m < 2 then ((m : Nat) : Int) else moebiusLoop (m - 1) 2 m []) = _
  by_cases hm : m < 2
  · rw [if_pos hm]
    interval_cases m <;> simp
  · rw [if_neg hm]
    by_cases hsq : Squarefree m
    · rw [moebiusLoop_squarefree hsq (m-1) 2 [] 1 (by omega) (by omega) (Or.inl ⟨rfl, rfl⟩)
        (by simp) (one_dvd m) (by simp) (by omega)
        (fun q hq _ _ => by have := hq.two_le; omega)]
      rw [moebius_apply_of_squarefree hsq,
        ← (cardDistinctFactors_eq_cardFactors_iff_squarefree hsq.ne_zero).2 hsq]
    · rw [moebius_eq_zero_of_not_squarefree hsq]
      have h1 := mt Nat.squarefree_iff_prime_squarefree.2 hsq
      push Not at h1
      obtain ⟨q, hq, hqq⟩ := h1
      have hq2 := hq.two_le
      have hqm : q ≤ m := Nat.le_of_dvd (by omega) (dvd_trans (Dvd.intro q rfl) hqq)
      apply moebiusLoop_eq_zero
      refine ⟨q, hq2, by omega, Nat.mod_eq_zero_of_dvd (dvd_trans (Dvd.intro q rfl) hqq), ?_⟩
      rw [sq]; exact Nat.mod_eq_zero_of_dvd hqq

/-! ## powmod -/

private theorem nt_bitcount_lt (n : Nat) : n < 2 ^ bitcount n := by
  unfold bitcount; split
  · subst_vars; simp
  · exact Nat.lt_log2_self

/-- square-and-multiply invariant: with enough fuel the result is `acc * a^d mod n` -/
theorem powmodAux_spec : ∀ (fuel a d n acc : Nat), 0 < n → acc < n → d < 2 ^ fuel →
    powmodAux fuel a d n acc = acc * a ^ d % n
  | 0, a, d, n, acc, hn, hacc, hd => by
    have hd0 : d = 0 := by simpa using hd
    subst hd0
    simp [powmodAux, Nat.mod_eq_of_lt hacc]
  | fuel+1, a, d, n, acc, hn, hacc, hd => by
    unfold powmodAux
    by_cases hd0 : d = 0
    · subst hd0; simp [Nat.mod_eq_of_lt hacc]
    · rw [if_neg hd0]
      have hd2 : d / 2 < 2 ^ fuel := by rw [pow_succ] at hd; omega
      by_cases hodd : d % 2 = 1
      · rw [if_pos hodd, powmodAux_spec fuel _ _ n _ hn (Nat.mod_lt _ hn) hd2]
        have h1 : acc * a % n * (a * a % n) ^ (d / 2) ≡ acc * a * (a * a) ^ (d / 2) [MOD n] :=
          (Nat.mod_modEq _ _).mul ((Nat.mod_modEq _ _).pow _)
        have h2 : acc * a * (a * a) ^ (d / 2) = acc * a ^ d := by
          have hd' : d = 2 * (d / 2) + 1 := by omega
          conv_rhs => rw [hd']
          rw [← pow_two, ← pow_mul, pow_succ]; ring
        rw [h2] at h1
        exact h1
      · rw [if_neg hodd, powmodAux_spec fuel _ _ n _ hn hacc hd2]
        have h1 : acc * (a * a % n) ^ (d / 2) ≡ acc * (a * a) ^ (d / 2) [MOD n] :=
          (Nat.ModEq.refl _).mul ((Nat.mod_modEq _ _).pow _)
        have h2 : acc * (a * a) ^ (d / 2) = acc * a ^ d := by
          have hd' : d = 2 * (d / 2) := by omega
          conv_rhs => rw [hd']
          rw [← pow_two, ← pow_mul]
        rw [h2] at h1
        exact h1

theorem powmod_spec (a d n : Nat) (hn : 0 < n) : powmod a d n = a ^ d % n := by
  unfold powmod
  rw [powmodAux_spec _ _ _ n _ hn (Nat.mod_lt _ hn) (nt_bitcount_lt d)]
  have h1 : 1 % n * (a % n) ^ d ≡ 1 * a ^ d [MOD n] :=
    (Nat.mod_modEq _ _).mul ((Nat.mod_modEq _ _).pow _)
  rw [one_mul] at h1
  exact h1

example : powmod 7 13 10 = 7 ^ 13 % 10 := powmod_spec 7 13 10 (by decide)

/-! ## trailing -/

private theorem nt_trailingAux_spec : ∀ (fuel n : Nat), n ≠ 0 → n < 2 ^ fuel →
    2 ^ trailingAux fuel n ∣ n
  | 0, n, h0, hlt => by simp at hlt; omega
  | fuel+1, n, h0, hlt => by
    unfold trailingAux
    split
    · simp
    · have hne : n / 2 ≠ 0 := by omega
      have hlt' : n / 2 < 2 ^ fuel := by rw [pow_succ] at hlt; omega
      have ih1 := nt_trailingAux_spec fuel (n/2) hne hlt'
      rw [pow_succ]
      have h2 : n = n / 2 * 2 := by omega
      conv_rhs => rw [h2]
      exact Nat.mul_dvd_mul_right ih1 2

private theorem nt_trailing_dvd (n : Nat) : 2 ^ trailing n ∣ n := by
  unfold trailing; split
  · simp
  · rename_i h; exact nt_trailingAux_spec _ n h (nt_bitcount_lt n)

private theorem nt_shiftRight_trailing_mul (n : Nat) : (n >>> trailing n) * 2 ^ trailing n = n := by
  rw [Nat.shiftRight_eq_div_pow]
  exact Nat.div_mul_cancel (nt_trailing_dvd n)

/-! ## Miller–Rabin: completeness -/

/-- the loop finds `m` if some `x^(2^r) mod n`, `1 ≤ r ≤ cnt`, equals `m` -/
theorem mrLoop_true : ∀ (cnt x n m : Nat),
    (∃ r, 1 ≤ r ∧ r ≤ cnt ∧ x ^ 2 ^ r % n = m) → mrLoop cnt x n m = true
  | 0, x, n, m, ⟨r, h1, h2, _⟩ => by omega
  | cnt+1, x, n, m, ⟨r, h1, h2, h3⟩ => by
    unfold mrLoop
    by_cases hx : x ^ 2 % n = m
    · simp [hx]
    · simp only [hx, if_false]
      apply mrLoop_true cnt
      have hr : r ≠ 1 := by rintro rfl; simp at h3; exact hx h3
      refine ⟨r - 1, by omega, by omega, ?_⟩
      rw [← Nat.pow_mod, ← pow_mul, ← pow_succ']
      have : r - 1 + 1 = r := by omega
      rw [this]; exact h3

/-- square roots of one modulo a prime are `±1` -/
theorem sq_mod_prime {n x : Nat} (hp : n.Prime) (hx : x < n) (h : x ^ 2 % n = 1) :
    x = 1 ∨ x = n - 1 := by
  have hn2 := hp.two_le
  have hx0 : x ≠ 0 := by rintro rfl; simp at h
  obtain ⟨t, rfl⟩ : ∃ t, x = t + 1 := ⟨x - 1, by omega⟩
  have h1 : ((t + 1) ^ 2 - 1) % n = 0 :=
    Nat.sub_mod_eq_zero_of_mod_eq (by rw [h, Nat.mod_eq_of_lt (by omega)])
  have h2 : (t + 1) ^ 2 - 1 = t * (t + 2) := by
    have : (t + 1) ^ 2 = t * (t + 2) + 1 := by ring
    omega
  rw [h2] at h1
  rcases (Nat.Prime.dvd_mul hp).1 (Nat.dvd_of_mod_eq_zero h1) with h3 | h3
  · left
    have : t = 0 := Nat.eq_zero_of_dvd_of_lt h3 (by omega)
    omega
  · right
    have := Nat.le_of_dvd (by omega) h3
    omega

/-- if `x^(2^r) ≡ 1` modulo a prime then `x ≡ 1` or some earlier square is `≡ -1` -/
theorem mr_chain {n : Nat} (hp : n.Prime) (x : Nat) : ∀ r : Nat, x ^ 2 ^ r % n = 1 →
    x % n = 1 ∨ ∃ j, j < r ∧ x ^ 2 ^ j % n = n - 1
  | 0, h => by left; simpa using h
  | r+1, h => by
    have h1 : (x ^ 2 ^ r % n) ^ 2 % n = 1 := by
      rw [← Nat.pow_mod, ← pow_mul, ← pow_succ]; exact h
    rcases sq_mod_prime hp (Nat.mod_lt _ hp.pos) h1 with h2 | h2
    · rcases mr_chain hp x r h2 with h3 | ⟨j, hj, h3⟩
      · left; exact h3
      · right; exact ⟨j, by omega, h3⟩
    · right; exact ⟨r, by omega, h2⟩

/-- a prime passes the Miller–Rabin test for every base not divisible by it -/
theorem mrTest_of_prime {n s d a : Nat} (hp : n.Prime) (ha : ¬ n ∣ a) (hsd : d * 2 ^ s = n - 1) :
    mrTest n (n - 1) s d a = true := by
  unfold mrTest
  rw [powmod_spec a d n hp.pos]
  have hferm : (a ^ d % n) ^ 2 ^ s % n = 1 := by
    rw [← Nat.pow_mod, ← pow_mul, hsd, ← Nat.totient_prime hp]
    have h1 := Nat.ModEq.pow_totient (((Nat.Prime.coprime_iff_not_dvd hp).2 ha).symm)
    have hn2 := hp.two_le
    rw [Nat.ModEq, Nat.mod_eq_of_lt (show 1 < n by omega)] at h1
    exact h1
  rcases mr_chain hp (a ^ d % n) s hferm with h | ⟨j, hj, h⟩
  · rw [Nat.mod_mod] at h
    simp [h]
  · by_cases hj0 : j = 0
    · subst hj0
      rw [pow_zero, pow_one, Nat.mod_mod] at h
      simp [h]
    · have : mrLoop (s - 1) (a ^ d % n) n (n - 1) = true :=
        mrLoop_true _ _ _ _ ⟨j, by omega, by omega, h⟩
      simp [this]

/-! ## isprime -/

theorem isprime_neg (n : Int) (h : n < 0) : isprime n = false := by
  unfold isprime
  by_cases h2 : n % 2 = 0
  · rw [if_pos h2]
    have : n ≠ 2 := by omega
    simpa using this
  · rw [if_neg h2, if_pos (by omega)]
    have : ¬ (n ≥ 0) := by omega
    simp [this]

private theorem small_odd_primes_bounds {p : Nat} (hp : p ∈ small_odd_primes) : 3 ≤ p ∧ p < 50 := by
  simp only [small_odd_primes, List.mem_cons, List.not_mem_nil, or_false] at hp
  omega

theorem isprime_complete (n : Nat) (h : Nat.Prime n) : isprime (n : Int) = true := by
  by_cases h50 : n < 50
  · interval_cases n <;> first | rfl | (exfalso; revert h; norm_num)
  · have hodd : n % 2 = 1 := by
      rcases h.eq_two_or_odd with h2 | h2
      · omega
      · exact h2
    unfold isprime
    have h1 : ¬ ((n : Int) % 2 = 0) := by omega
    have h2 : ¬ ((n : Int) < 50) := by omega
    rw [if_neg h1, if_neg h2]
    simp only [Int.toNat_natCast]
    have h3 : small_odd_primes.any (fun p => decide (n % p = 0)) = false := by
      rw [List.any_eq_false]
      intro p hp
      have hb := small_odd_primes_bounds hp
      intro hdiv
      have hdiv' : n % p = 0 := by simpa using hdiv
      rcases h.eq_one_or_self_of_dvd p (Nat.dvd_of_mod_eq_zero hdiv') with h4 | h4 <;> omega
    rw [h3]
    simp only [Bool.false_eq_true, if_false, List.all_eq_true]
    intro a ha
    have hab : 1 ≤ a ∧ a < 50 := by
      split_ifs at ha
      · simp at ha; omega
      · simp at ha; omega
      · have := small_odd_primes_bounds ha; omega
    apply mrTest_of_prime h
    · intro hdvd
      have := Nat.le_of_dvd (by omega) hdvd
      omega
    · exact nt_shiftRight_trailing_mul (n - 1)

example : isprime ((1000003 : Nat) : Int) = true := isprime_complete _ (by norm_num)

/-! ## isprime: soundness below a literal bound, by kernel evaluation

Strategy: a composite `n ≥ 50` accepted by `isprime` is odd and has no prime factor `≤ 47`, so
`n = p * m` with `p = minFac n ≥ 53`, `p ≤ m`, both odd, `p` itself free of small factors.  For
`n < B` there are few such pairs `(p, m)` and the kernel checks that each `p * m` is rejected
(by the small-prime sieve or by Miller–Rabin with bases 2, 3).  The functions below are
kernel-friendly restatements (`Nat.beq`, `a ^ d % n` instead of `powmod`, forced sharing of
intermediate values) proved equal to the model's. -/

/-- `k x`, written so that kernel reduction evaluates `x` to a literal once and shares it -/
def ntWithVal (x : Nat) (k : Nat → Bool) : Bool :=
  match x with
  | 0 => k 0
  | x'+1 => k (x'+1)

theorem ntWithVal_eq (x : Nat) (k : Nat → Bool) : ntWithVal x k = k x := by
  cases x <;> rfl

/-- no element of `small_odd_primes` divides `n` -/
def ntSieveOK (n : Nat) : Bool := small_odd_primes.all (fun p => !(Nat.beq (Nat.mod n p) 0))

theorem ntSieveOK_iff (n : Nat) : ntSieveOK n = true ↔ ∀ p ∈ small_odd_primes, n % p ≠ 0 := by
  unfold ntSieveOK
  rw [List.all_eq_true]
  constructor
  · intro h p hp h0
    have := h p hp
    rw [show Nat.mod n p = n % p from rfl, h0] at this
    simp at this
  · intro h p hp
    have := h p hp
    rw [show Nat.mod n p = n % p from rfl, Bool.not_eq_true', ← Bool.not_eq_true, Nat.beq_eq]
    exact this

/-- `mrTest` with `a ^ d % n` in place of `powmod a d n` -/
def ntMrFast (n m s d a : Nat) : Bool :=
  ntWithVal (a ^ d % n) fun x => Nat.beq x 1 || Nat.beq x m || mrLoop (s - 1) x n m

theorem ntMrFast_eq {n : Nat} (hn : 0 < n) (m s d a : Nat) :
    ntMrFast n m s d a = mrTest n m s d a := by
  unfold ntMrFast mrTest
  rw [ntWithVal_eq, powmod_spec a d n hn]
  by_cases h1 : a ^ d % n = 1
  · simp [h1]
  · by_cases h2 : a ^ d % n = m
    · simp [h2]
    · have h1' : Nat.beq (a ^ d % n) 1 = false := by
        rw [← Bool.not_eq_true, Nat.beq_eq]; exact h1
      have h2' : Nat.beq (a ^ d % n) m = false := by
        rw [← Bool.not_eq_true, Nat.beq_eq]; exact h2
      simp [h1, h2, h1', h2']

/-- what `isprime n = true` entails for `50 ≤ n < 1373653` -/
def ntFastCheck (n : Nat) : Bool :=
  Nat.beq (Nat.mod n 2) 1 && ntSieveOK n &&
    ntWithVal (trailing (n - 1)) fun s => ntWithVal ((n - 1) >>> s) fun d =>
      ntMrFast n (n - 1) s d 2 && ntMrFast n (n - 1) s d 3

theorem isprime_imp_ntFastCheck (n : Nat) (h50 : 50 ≤ n) (hlt : n < 1373653)
    (h : isprime (n : Int) = true) : ntFastCheck n = true := by
  unfold isprime at h
  by_cases hpar : (n : Int) % 2 = 0
  · rw [if_pos hpar] at h
    have : (n : Int) = 2 := by simpa using h
    omega
  · have h2 : ¬ ((n : Int) < 50) := by omega
    rw [if_neg hpar, if_neg h2] at h
    simp only [Int.toNat_natCast] at h
    by_cases hany : small_odd_primes.any (fun p => decide (n % p = 0)) = true
    · rw [if_pos hany] at h; exact absurd h (by decide)
    · rw [if_neg hany] at h
      simp only [if_pos hlt, List.all_cons, List.all_nil, Bool.and_true, Bool.and_eq_true] at h
      unfold ntFastCheck
      rw [ntWithVal_eq, ntWithVal_eq, ntMrFast_eq (by omega), ntMrFast_eq (by omega), h.1, h.2]
      have hs : ntSieveOK n = true := by
        rw [ntSieveOK_iff]
        intro p hp h0
        apply hany
        rw [List.any_eq_true]
        exact ⟨p, hp, by simpa using h0⟩
      have hodd : Nat.beq (Nat.mod n 2) 1 = true := by
        rw [Nat.beq_eq]; show n % 2 = 1; omega
      rw [hs, hodd]; rfl

/-- `m = lo + 2 j`, `j < fuel`: every `p * m` is rejected -/
def ntChkM (p lo : Nat) : Nat → Bool
  | 0 => true
  | f+1 => !ntFastCheck (p * (lo + 2 * f)) && ntChkM p lo f

theorem ntChkM_spec (p lo : Nat) : ∀ f, ntChkM p lo f = true →
    ∀ j, j < f → ntFastCheck (p * (lo + 2 * j)) = false
  | 0, _, j, hj => by omega
  | f+1, h, j, hj => by
    unfold ntChkM at h
    rw [Bool.and_eq_true] at h
    by_cases hjf : j = f
    · subst hjf; simpa using h.1
    · exact ntChkM_spec p lo f h.2 j (by omega)

/-- `p = lo + i`, `i < fuel`: if `p` is odd and sieve-free, all `p * m < B`, `m ≥ p` odd, are rejected -/
def ntChkP (B lo : Nat) : Nat → Bool
  | 0 => true
  | f+1 => (!(Nat.beq ((lo + f) % 2) 1 && ntSieveOK (lo + f)) ||
      ntChkM (lo + f) (lo + f) ((B / (lo + f) - (lo + f)) / 2 + 1)) && ntChkP B lo f

theorem ntChkP_spec (B lo : Nat) : ∀ f, ntChkP B lo f = true →
    ∀ i, i < f → (lo + i) % 2 = 1 → ntSieveOK (lo + i) = true →
      ntChkM (lo + i) (lo + i) ((B / (lo + i) - (lo + i)) / 2 + 1) = true
  | 0, _, i, hi, _, _ => by omega
  | f+1, h, i, hi, hodd, hs => by
    unfold ntChkP at h
    rw [Bool.and_eq_true] at h
    by_cases hif : i = f
    · subst hif
      have h1 := h.1
      have hb : Nat.beq ((lo + i) % 2) 1 = true := by rw [Nat.beq_eq]; exact hodd
      rw [hb, hs] at h1
      simpa using h1
    · exact ntChkP_spec B lo f h.2 i (by omega) hodd hs

/-- chunk form of `ntChkP_spec` -/
theorem ntChkP_chunk {B lo f : Nat} (h : ntChkP B lo f = true) (p : Nat) (h1 : lo ≤ p)
    (h2 : p < lo + f) (hodd : p % 2 = 1) (hs : ntSieveOK p = true) :
    ntChkM p p ((B / p - p) / 2 + 1) = true := by
  have := ntChkP_spec B lo f h (p - lo) (by omega)
    (by rw [show lo + (p - lo) = p by omega]; exact hodd)
    (by rw [show lo + (p - lo) = p by omega]; exact hs)
  rw [show lo + (p - lo) = p by omega] at this
  exact this

/-! the kernel checks, split by ranges of `p` to keep the type checker's caches small -/
section KernelChecks
set_option maxRecDepth 100000
theorem ntChk_53 : ntChkP 100000 53 5 = true := by decide +kernel
theorem ntChk_58 : ntChkP 100000 58 4 = true := by decide +kernel
theorem ntChk_62 : ntChkP 100000 62 6 = true := by decide +kernel
theorem ntChk_68 : ntChkP 100000 68 7 = true := by decide +kernel
theorem ntChk_75 : ntChkP 100000 75 10 = true := by decide +kernel
theorem ntChk_85 : ntChkP 100000 85 15 = true := by decide +kernel
theorem ntChk_100 : ntChkP 100000 100 20 = true := by decide +kernel
theorem ntChk_120 : ntChkP 100000 120 30 = true := by decide +kernel
theorem ntChk_150 : ntChkP 100000 150 50 = true := by decide +kernel
theorem ntChk_200 : ntChkP 100000 200 117 = true := by decide +kernel

theorem ntChkSmall : (List.range 50).all (fun k => !isprime (k : Int) ||
    [2,3,5,7,11,13,17,19,23,29,31,37,41,43,47].contains k) = true := by decide +kernel

end KernelChecks

theorem isprime_sound_nat (k : Nat) (hk : k < 100000) (h : isprime (k : Int) = true) :
    Nat.Prime k := by
  by_cases h50 : k < 50
  · have h1 := List.all_eq_true.1 ntChkSmall k (List.mem_range.2 h50)
    rw [h] at h1
    simp only [Bool.not_true, Bool.false_or, List.contains_eq_mem, List.mem_cons,
      List.not_mem_nil, or_false, decide_eq_true_eq] at h1
    rcases h1 with rfl | rfl | rfl | rfl | rfl | rfl | rfl | rfl | rfl | rfl | rfl | rfl | rfl |
      rfl | rfl <;> norm_num
  · by_contra hnp
    have hfc := isprime_imp_ntFastCheck k (by omega) (by omega) h
    have hfc' := hfc
    unfold ntFastCheck at hfc'
    rw [Bool.and_eq_true, Bool.and_eq_true, Nat.beq_eq] at hfc'
    obtain ⟨⟨hodd, hsv⟩, _⟩ := hfc'
    replace hodd : k % 2 = 1 := hodd
    have hs := (ntSieveOK_iff k).1 hsv
    have hp : (Nat.minFac k).Prime := Nat.minFac_prime (by omega)
    have hpk : Nat.minFac k ∣ k := Nat.minFac_dvd k
    have hpm : Nat.minFac k ≤ k / Nat.minFac k := Nat.minFac_le_div (by omega) hnp
    have hkm : k = Nat.minFac k * (k / Nat.minFac k) := (Nat.mul_div_cancel' hpk).symm
    generalize Nat.minFac k = p at hp hpk hpm hkm
    generalize k / p = m at hpm hkm
    have hp53 : 53 ≤ p := by
      by_contra hlt
      have hlt : p < 53 := by omega
      have h2 := hp.two_le
      interval_cases p <;>
        first
        | (exfalso; revert hp; norm_num; done)
        | omega
        | exact absurd (Nat.mod_eq_zero_of_dvd hpk) (hs _ (by decide))
    have hpodd : p % 2 = 1 := by
      rcases hp.eq_two_or_odd with h2 | h2
      · omega
      · exact h2
    have hps : ntSieveOK p = true := by
      rw [ntSieveOK_iff]
      intro q hq h0
      have hb := small_odd_primes_bounds hq
      rcases hp.eq_one_or_self_of_dvd q (Nat.dvd_of_mod_eq_zero h0) with h4 | h4 <;> omega
    have hmodd : m % 2 = 1 := by
      by_contra hm
      have hm0 : m % 2 = 0 := by omega
      have : k % 2 = 0 := by rw [hkm, Nat.mul_mod, hm0]; simp
      omega
    have hpS : p < 317 := by
      by_contra hge
      have hge : 317 ≤ p := by omega
      have : 317 * 317 ≤ p * m := Nat.mul_le_mul hge (by omega)
      omega
    have hmB : m ≤ 100000 / p := by
      rw [Nat.le_div_iff_mul_le hp.pos, mul_comm]; omega
    have hchk : ntChkM p p ((100000 / p - p) / 2 + 1) = true := by
      by_cases h58 : p < 58
      · exact ntChkP_chunk ntChk_53 p (by omega) (by omega) hpodd hps
      by_cases h62 : p < 62
      · exact ntChkP_chunk ntChk_58 p (by omega) (by omega) hpodd hps
      by_cases h68 : p < 68
      · exact ntChkP_chunk ntChk_62 p (by omega) (by omega) hpodd hps
      by_cases h75 : p < 75
      · exact ntChkP_chunk ntChk_68 p (by omega) (by omega) hpodd hps
      by_cases h85 : p < 85
      · exact ntChkP_chunk ntChk_75 p (by omega) (by omega) hpodd hps
      by_cases h100 : p < 100
      · exact ntChkP_chunk ntChk_85 p (by omega) (by omega) hpodd hps
      by_cases h120 : p < 120
      · exact ntChkP_chunk ntChk_100 p (by omega) (by omega) hpodd hps
      by_cases h150 : p < 150
      · exact ntChkP_chunk ntChk_120 p (by omega) (by omega) hpodd hps
      by_cases h200 : p < 200
      · exact ntChkP_chunk ntChk_150 p (by omega) (by omega) hpodd hps
      exact ntChkP_chunk ntChk_200 p (by omega) (by omega) hpodd hps
    generalize 100000 / p = Q at hmB hchk
    have hrej := ntChkM_spec p p _ hchk ((m - p) / 2) (by omega)
    rw [show p + 2 * ((m - p) / 2) = m by omega, ← hkm, hfc] at hrej
    exact absurd hrej (by decide)

theorem isprime_sound_small (n : Int) (hn : n < 100000) (h : isprime n = true) :
    Nat.Prime n.toNat := by
  by_cases hneg : n < 0
  · rw [isprime_neg n hneg] at h; exact absurd h (by decide)
  · obtain ⟨k, rfl⟩ := Int.eq_ofNat_of_zero_le (by omega : 0 ≤ n)
    rw [Int.toNat_natCast]
    exact isprime_sound_nat k (by omega) h

example : isprime 99991 = true := by decide +kernel

/-! ## isprime: soundness below ψ₇, conditional on the published strong-pseudoprime bounds -/

/-- `n` is a strong probable prime to base `a` (mathematical definition) -/
def SPRP (n a : Nat) : Prop :=
  ∃ s d : Nat, n - 1 = 2 ^ s * d ∧ d % 2 = 1 ∧
    (a ^ d % n = 1 ∨ ∃ r, r < s ∧ a ^ (d * 2 ^ r) % n = n - 1)

/-- published bounds (Pomerance–Selfridge–Wagstaff 1980; Jaeschke 1993), NOT proved here:
ψ₂ = 1373653 is the least odd composite that is a strong probable prime to bases 2 and 3;
ψ₇ = 341550071728321 the least to bases 2,3,5,7,11,13,17. -/
def SPRP_bounds : Prop :=
  (∀ n : Nat, 1 < n → n % 2 = 1 → n < 1373653 → (∀ a ∈ [2, 3], SPRP n a) → Nat.Prime n) ∧
  (∀ n : Nat, 1 < n → n % 2 = 1 → n < 341550071728321 →
    (∀ a ∈ [2, 3, 5, 7, 11, 13, 17], SPRP n a) → Nat.Prime n)

example : SPRP 7 2 := ⟨1, 3, by norm_num, by norm_num, Or.inl (by norm_num)⟩
example : SPRP 13 2 := ⟨2, 3, by norm_num, by norm_num, Or.inr ⟨1, by norm_num, by norm_num⟩⟩

private theorem nt_trailingAux_odd : ∀ (fuel n : Nat), n ≠ 0 → n < 2 ^ fuel →
    (n / 2 ^ trailingAux fuel n) % 2 = 1
  | 0, n, h0, hlt => by simp at hlt; omega
  | fuel+1, n, h0, hlt => by
    unfold trailingAux
    split
    · rename_i h1; simp [h1]
    · have hne : n / 2 ≠ 0 := by omega
      have hlt' : n / 2 < 2 ^ fuel := by rw [pow_succ] at hlt; omega
      have ih := nt_trailingAux_odd fuel (n/2) hne hlt'
      rw [pow_succ, mul_comm, ← Nat.div_div_eq_div_mul]
      exact ih

private theorem nt_shiftRight_trailing_odd {n : Nat} (h : n ≠ 0) : (n >>> trailing n) % 2 = 1 := by
  rw [Nat.shiftRight_eq_div_pow]
  unfold trailing; simp only [h, if_false]
  exact nt_trailingAux_odd _ n h (nt_bitcount_lt n)

/-- converse of `mrLoop_true` -/
theorem mrLoop_imp : ∀ (cnt x n m : Nat), mrLoop cnt x n m = true →
    ∃ r, 1 ≤ r ∧ r ≤ cnt ∧ x ^ 2 ^ r % n = m
  | 0, x, n, m, h => by simp [mrLoop] at h
  | cnt+1, x, n, m, h => by
    unfold mrLoop at h
    by_cases hx : x ^ 2 % n = m
    · exact ⟨1, le_refl 1, by omega, by simpa using hx⟩
    · simp only [hx, if_false] at h
      obtain ⟨r, h1, h2, h3⟩ := mrLoop_imp cnt _ n m h
      refine ⟨r + 1, by omega, by omega, ?_⟩
      rw [← Nat.pow_mod, ← pow_mul, ← pow_succ'] at h3
      exact h3

/-- a number accepted by the model's Miller–Rabin test (with the model's `s`, `d`) is a strong
probable prime in the mathematical sense -/
theorem mrTest_imp_SPRP {n a : Nat} (hn : 3 ≤ n) (hodd : n % 2 = 1)
    (h : mrTest n (n - 1) (trailing (n - 1)) ((n - 1) >>> trailing (n - 1)) a = true) :
    SPRP n a := by
  have hm0 : n - 1 ≠ 0 := by omega
  have hmul := nt_shiftRight_trailing_mul (n - 1)
  have hdodd := nt_shiftRight_trailing_odd hm0
  generalize trailing (n - 1) = s at h hmul hdodd
  generalize (n - 1) >>> s = d at h hmul hdodd
  have hs : 1 ≤ s := by
    by_contra hs0
    have : s = 0 := by omega
    subst this
    simp at hmul
    omega
  refine ⟨s, d, by rw [mul_comm]; exact hmul.symm, hdodd, ?_⟩
  unfold mrTest at h
  rw [powmod_spec a d n (by omega)] at h
  by_cases h1 : a ^ d % n = 1
  · exact Or.inl h1
  · right
    by_cases h2 : a ^ d % n = n - 1
    · exact ⟨0, by omega, by simpa using h2⟩
    · have h3 : mrLoop (s - 1) (a ^ d % n) n (n - 1) = true := by simpa [h1, h2] using h
      obtain ⟨r, hr1, hr2, hr3⟩ := mrLoop_imp _ _ _ _ h3
      refine ⟨r, by omega, ?_⟩
      rw [← Nat.pow_mod, ← pow_mul] at hr3
      exact hr3

theorem isprime_sound_conditional (H : SPRP_bounds) (n : Int) (hn : n < 341550071728321)
    (h : isprime n = true) : Nat.Prime n.toNat := by
  by_cases hneg : n < 0
  · rw [isprime_neg n hneg] at h; exact absurd h (by decide)
  · obtain ⟨k, rfl⟩ := Int.eq_ofNat_of_zero_le (by omega : 0 ≤ n)
    rw [Int.toNat_natCast]
    by_cases h50 : k < 50
    · exact isprime_sound_nat k (by omega) h
    · have hk : k < 341550071728321 := by omega
      unfold isprime at h
      by_cases hpar : (k : Int) % 2 = 0
      · rw [if_pos hpar] at h
        have : (k : Int) = 2 := by simpa using h
        omega
      · have h2 : ¬ ((k : Int) < 50) := by omega
        have hodd : k % 2 = 1 := by omega
        rw [if_neg hpar, if_neg h2] at h
        simp only [Int.toNat_natCast] at h
        by_cases hany : small_odd_primes.any (fun p => decide (k % p = 0)) = true
        · rw [if_pos hany] at h; exact absurd h (by decide)
        · rw [if_neg hany] at h
          by_cases hlt : k < 1373653
          · simp only [if_pos hlt, List.all_eq_true] at h
            exact H.1 k (by omega) hodd hlt
              (fun a ha => mrTest_imp_SPRP (by omega) hodd (h a ha))
          · simp only [if_neg hlt, if_pos hk, List.all_eq_true] at h
            exact H.2 k (by omega) hodd hk
              (fun a ha => mrTest_imp_SPRP (by omega) hodd (h a ha))

end Mp
