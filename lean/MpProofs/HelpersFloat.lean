/-
  MpProofs/HelpersFloat.lean — lemmas for C09 (binary64 conversion).
-/
import MpProofs.Helpers

namespace Mp.H

/-! ## C09: bit counts -/

theorem bitcount_eq_of_bounds {n b : Nat} (h1 : 2 ^ b ≤ n) (h2 : n < 2 ^ (b + 1)) : bitcount n = b + 1 := by
  have hn : n ≠ 0 := by
    intro h; subst h; have : 0 < 2 ^ b := by positivity
    omega
  unfold bitcount; simp only [hn, if_false]
  rw [(Nat.log2_eq_iff hn).mpr ⟨h1, h2⟩]

theorem bitcount_le_of_lt {n j : Nat} (h : n < 2 ^ j) : bitcount n ≤ j := by
  unfold bitcount; split
  · omega
  · rename_i hn
    have := (Nat.log2_lt hn).mpr h
    omega

theorem bitcount_mul_pow {n : Nat} (hn : n ≠ 0) (j : Nat) : bitcount (n * 2 ^ j) = bitcount n + j := by
  have h1 := two_pow_bitcount_le hn
  have h2 := lt_two_pow_bitcount n
  have hb := bitcount_pos hn
  have : bitcount n + j = (bitcount n - 1 + j) + 1 := by omega
  rw [this]
  apply bitcount_eq_of_bounds
  · rw [pow_add]; exact Nat.mul_le_mul_right _ h1
  · have : bitcount n - 1 + j + 1 = bitcount n + j := by omega
    rw [this, pow_add]; exact Nat.mul_lt_mul_of_pos_right h2 (by positivity)

theorem trailingAux_dvd (fuel n : Nat) : 2 ^ trailingAux fuel n ∣ n := by
  induction fuel generalizing n with
  | zero => simp [trailingAux]
  | succ f ih =>
    unfold trailingAux; split
    · simp
    · rename_i h
      have h2 : n % 2 = 0 := by omega
      obtain ⟨k, hk⟩ := ih (n / 2)
      refine ⟨k, ?_⟩
      rw [pow_succ, mul_assoc, mul_comm 2 k, ← mul_assoc, ← hk]; omega

theorem trailing_dvd (n : Nat) : 2 ^ trailing n ∣ n := by
  unfold trailing; split
  · simp_all
  · exact trailingAux_dvd _ _

theorem shiftRight_trailing_mul (n : Nat) : (n >>> trailing n) * 2 ^ trailing n = n := by
  rw [Nat.shiftRight_eq_div_pow]; exact Nat.div_mul_cancel (trailing_dvd n)

/-- `stripTrailing` does not change the value -/
theorem val_stripTrailing (sign man : Nat) (exp bc : Int) :
    val (stripTrailing sign man exp bc) = (-1 : ℚ) ^ sign * (man : ℚ) * (2:ℚ) ^ exp := by
  unfold stripTrailing val
  simp only
  have h := shiftRight_trailing_mul man
  have hq : (man : ℚ) = ((man >>> trailing man : ℕ) : ℚ) * (2:ℚ) ^ (trailing man) := by exact_mod_cast h.symm
  conv => rhs; rw [hq]
  rw [zpow_add₀ (by norm_num : (2:ℚ) ≠ 0), zpow_natCast]; ring

theorem stripTrailing_fields (sign man : Nat) (exp bc : Int) :
    (stripTrailing sign man exp bc).sign = sign ∧ (stripTrailing sign man exp bc).man = man >>> trailing man ∧
    (stripTrailing sign man exp bc).exp = exp + trailing man := ⟨rfl, rfl, rfl⟩

/-! ## C09: from_float -/

/-- the rational value of a finite binary64 pattern -/
def doubleVal (d : Dbl) : ℚ := (-1 : ℚ) ^ d.sign * (d.sig : ℚ) * (2:ℚ) ^ d.qexp

theorem Dbl.sig_lt (d : Dbl) (h : d.WF) : d.sig < 2 ^ 53 := by
  obtain ⟨_, _, hf⟩ := h
  unfold Dbl.sig; split <;> omega

theorem from_man_exp_val_of_le (m : Int) (e : Int) (prec : Int) (rnd : Rnd) (hp : 0 < prec)
    (hb : (bitcount m.natAbs : Int) ≤ prec) :
    val (from_man_exp m e prec rnd) = (m : ℚ) * (2:ℚ) ^ e := by
  unfold from_man_exp
  simp only [show prec ≠ 0 by omega, if_false]
  unfold normalize
  split
  · rename_i h0
    have : m = 0 := by omega
    simp [this, val, fzero]
  · have hn : ¬ ((bitcount m.natAbs : Int) - prec > 0) := by omega
    simp only [hn, if_false]
    rw [val_stripTrailing]
    by_cases hm : m < 0
    · simp only [hm, if_true, pow_one]
      have : (m : ℚ) = -((m.natAbs : ℕ) : ℚ) := by
        rw [Nat.cast_natAbs, Int.cast_abs, abs_of_neg (by exact_mod_cast hm : (m : ℚ) < 0)]; ring
      rw [this]; ring
    · simp only [hm, if_false, pow_zero, one_mul]
      have : (m : ℚ) = ((m.natAbs : ℕ) : ℚ) := by
        rw [Nat.cast_natAbs, Int.cast_abs, abs_of_nonneg (by exact_mod_cast (not_lt.mp hm) : (0 : ℚ) ≤ (m : ℚ))]
      rw [this]

theorem from_float_val (d : Dbl) (hwf : d.WF) (hfin : d.ex < 2047) (prec : Int) (rnd : Rnd) (hp : 53 ≤ prec) :
    val (from_float d prec rnd) = doubleVal d := by
  have hnan : d.isNan = false := by simp [Dbl.isNan]; omega
  have hinf : d.isInf = false := by simp [Dbl.isInf]; omega
  unfold from_float
  simp only [hnan, hinf, Bool.false_eq_true, if_false]
  unfold frexpBits
  simp only
  by_cases hs : d.sig = 0
  · simp only [hs, if_true]
    rw [from_man_exp_val_of_le _ _ _ _ (by omega) (by split <;> simp [bitcount] <;> omega)]
    simp [doubleVal, hs]
  · simp only [hs, if_false]
    have hk : bitcount d.sig ≤ 53 := bitcount_le_of_lt (Dbl.sig_lt d hwf)
    have hbc : bitcount (d.sig * 2 ^ (53 - bitcount d.sig)) = 53 := by
      rw [bitcount_mul_pow hs]; omega
    have hsg : d.sign = 0 ∨ d.sign = 1 := by have := hwf.1; omega
    have hna : (if d.sign = 0 then ((d.sig * 2 ^ (53 - bitcount d.sig) : ℕ) : ℤ)
        else -((d.sig * 2 ^ (53 - bitcount d.sig) : ℕ) : ℤ)).natAbs = d.sig * 2 ^ (53 - bitcount d.sig) := by
      split
      · exact Int.natAbs_natCast _
      · rw [Int.natAbs_neg]; exact Int.natAbs_natCast _
    rw [from_man_exp_val_of_le _ _ _ _ (by omega) (by rw [hna, hbc]; exact_mod_cast hp)]
    unfold doubleVal
    have hcast : ((d.sig * 2 ^ (53 - bitcount d.sig) : ℕ) : ℚ) = (d.sig : ℚ) * (2:ℚ) ^ ((53 - bitcount d.sig : ℕ) : ℤ) := by
      push_cast; rw [zpow_natCast]
    have hexp : (2:ℚ) ^ ((53 - bitcount d.sig : ℕ) : ℤ) * (2:ℚ) ^ (d.qexp + (bitcount d.sig : ℤ) - 53) = (2:ℚ) ^ d.qexp := by
      rw [← zpow_add₀ (by norm_num : (2:ℚ) ≠ 0)]; congr 1; omega
    rcases hsg with h | h
    · simp only [h, if_true, pow_zero, one_mul, Int.cast_natCast]
      rw [hcast, mul_assoc, hexp]
    · simp only [h, one_ne_zero, if_false, pow_one, Int.cast_neg, Int.cast_natCast]
      rw [hcast]
      rw [show -((d.sig : ℚ) * (2:ℚ) ^ ((53 - bitcount d.sig : ℕ) : ℤ)) * (2:ℚ) ^ (d.qexp + (bitcount d.sig : ℤ) - 53)
        = -((d.sig : ℚ) * ((2:ℚ) ^ ((53 - bitcount d.sig : ℕ) : ℤ) * (2:ℚ) ^ (d.qexp + (bitcount d.sig : ℤ) - 53))) by ring, hexp]
      ring

/-! ## C09: roundToDouble on representable values -/

theorem roundShift_n_exact (a n : Nat) (hn : 1 ≤ n) : roundShift .n 0 (a * 2 ^ n) n = a := by
  unfold roundShift
  simp only
  have h1 : (a * 2 ^ n) >>> (n - 1) = 2 * a := by
    rw [Nat.shiftRight_eq_div_pow]
    have : 2 ^ n = 2 * 2 ^ (n - 1) := by rw [← pow_succ']; congr 1; omega
    rw [this, ← mul_assoc, Nat.mul_div_cancel _ (by positivity), mul_comm]
  rw [h1]
  have : ¬ ((2 * a) % 2 = 1 ∧ ((2 * a / 2) % 2 = 1 ∨ a * 2 ^ n % 2 ^ (n - 1) ≠ 0)) := by omega
  simp only [this, if_false, Nat.shiftRight_eq_div_pow]; omega

theorem roundToDouble_exact (man : Nat) (exp : Int) (d : Dbl) (hm : man ≠ 0) (hwf : d.WF)
    (hfin : d.ex < 2047) (hs : d.sig ≠ 0)
    (hv : (d.qexp ≤ exp ∧ d.sig = man * 2 ^ (exp - d.qexp).toNat) ∨
          (exp < d.qexp ∧ man = d.sig * 2 ^ (d.qexp - exp).toNat)) :
    roundToDouble d.sign man exp = some d := by
  obtain ⟨sg, ex, fr⟩ := d
  obtain ⟨hsg, hex, hfr⟩ := hwf
  simp only at hsg hex hfr hfin
  -- bit length of the value
  have he : exp + (bitcount man : ℤ) = Dbl.qexp ⟨sg, ex, fr⟩ + (bitcount (Dbl.sig ⟨sg, ex, fr⟩) : ℤ) := by
    rcases hv with ⟨h1, h2⟩ | ⟨h1, h2⟩
    · rw [h2, bitcount_mul_pow hm]; push_cast; omega
    · rw [h2, bitcount_mul_pow hs]; push_cast; omega
  -- the significand computed by the model
  have hmS : ∀ q, q = Dbl.qexp ⟨sg, ex, fr⟩ →
      (if exp ≥ q then man <<< (exp - q).toNat else roundShift .n 0 man (q - exp).toNat) = Dbl.sig ⟨sg, ex, fr⟩ := by
    intro q hq; subst hq
    rcases hv with ⟨h1, h2⟩ | ⟨h1, h2⟩
    · simp only [ge_iff_le, h1, if_true, Nat.shiftLeft_eq]; exact h2.symm
    · have : ¬ (exp ≥ Dbl.qexp ⟨sg, ex, fr⟩) := by omega
      simp only [this, if_false]
      rw [h2]; exact roundShift_n_exact _ _ (by omega)
  unfold roundToDouble
  simp only
  rw [he]
  by_cases hex0 : ex = 0
  · -- subnormal target
    subst hex0
    have hS : Dbl.sig ⟨sg, 0, fr⟩ = fr := by simp [Dbl.sig]
    have hQ : Dbl.qexp ⟨sg, 0, fr⟩ = -1074 := by simp [Dbl.qexp]
    rw [hS, hQ] at he hmS ⊢
    rw [hS] at hs
    have hk : bitcount fr ≤ 52 := bitcount_le_of_lt hfr
    have hk1 := bitcount_pos hs
    have c1 : ¬ ((-1074 : ℤ) + (bitcount fr : ℤ) > 1024) := by omega
    have c2 : ¬ ((-1074 : ℤ) + (bitcount fr : ℤ) < -1075) := by omega
    have c3 : ¬ ((-1074 : ℤ) + (bitcount fr : ℤ) - 53 ≥ -1074) := by omega
    simp only [c1, c2, c3, if_false]
    rw [hmS (-1074) rfl]
    simp only [hs, if_false, hfr, if_true]
  · -- normal target
    have hS : Dbl.sig ⟨sg, ex, fr⟩ = 2 ^ 52 + fr := by simp [Dbl.sig, hex0]
    have hQ : Dbl.qexp ⟨sg, ex, fr⟩ = (ex : ℤ) - 1075 := by simp [Dbl.qexp, hex0]
    rw [hS, hQ] at he hmS ⊢
    have hk : bitcount (2 ^ 52 + fr) = 53 := bitcount_eq_of_bounds (by omega) (by omega)
    rw [hk]
    have c1 : ¬ ((ex : ℤ) - 1075 + ((53 : ℕ) : ℤ) > 1024) := by omega
    have c2 : ¬ ((ex : ℤ) - 1075 + ((53 : ℕ) : ℤ) < -1075) := by omega
    have c3 : ((ex : ℤ) - 1075 + ((53 : ℕ) : ℤ) - 53 ≥ -1074) := by omega
    simp only [c1, c2, c3, if_false, if_true]
    have hq : (ex : ℤ) - 1075 + ((53 : ℕ) : ℤ) - 53 = (ex : ℤ) - 1075 := by omega
    rw [hq, hmS _ rfl]
    have d1 : ¬ (2 ^ 52 + fr = 0) := by omega
    have d2 : ¬ (2 ^ 52 + fr < 2 ^ 52) := by omega
    have d3 : ¬ (2 ^ 52 + fr = 2 ^ 53) := by omega
    simp only [d1, d2, d3, if_false]
    have d4 : ¬ ((ex : ℤ) - 1075 + 1075 ≥ 2047) := by omega
    simp only [d4, if_false]
    have e1 : ((ex : ℤ) - 1075 + 1075).toNat = ex := by omega
    have e2 : 2 ^ 52 + fr - 2 ^ 52 = fr := by omega
    rw [e1, e2]

/-! ## C09: to_float on representable values -/

theorem two_zpow_split (Q : ℤ) (u : ℕ) : (2:ℚ) ^ (Q + u) = (2:ℚ) ^ Q * (2:ℚ) ^ u := by
  rw [zpow_add₀ (by norm_num : (2:ℚ) ≠ 0), zpow_natCast]

/-- `roundToDouble` returns `d` on any input whose value is exactly that of the finite pattern `d` -/
theorem roundToDouble_exact_q (man : Nat) (exp : Int) (d : Dbl) (hm : man ≠ 0) (hwf : d.WF)
    (hfin : d.ex < 2047) (hv : (man : ℚ) * (2:ℚ) ^ exp = (d.sig : ℚ) * (2:ℚ) ^ d.qexp) :
    roundToDouble d.sign man exp = some d := by
  have hs : d.sig ≠ 0 := by
    intro h
    rw [h] at hv
    have : (0:ℚ) < (man : ℚ) * (2:ℚ) ^ exp :=
      mul_pos (by exact_mod_cast Nat.pos_of_ne_zero hm) (zpow_pos (by norm_num) _)
    simp at hv
    rcases hv with h | h
    · exact hm (by exact_mod_cast h)
    · exact absurd h (zpow_ne_zero _ (by norm_num))
  apply roundToDouble_exact man exp d hm hwf hfin hs
  have hQ : (0:ℚ) < (2:ℚ) ^ d.qexp := zpow_pos (by norm_num) _
  have hE : (0:ℚ) < (2:ℚ) ^ exp := zpow_pos (by norm_num) _
  by_cases hc : d.qexp ≤ exp
  · left
    refine ⟨hc, ?_⟩
    obtain ⟨u, hu⟩ : ∃ u : ℕ, exp = d.qexp + u := ⟨(exp - d.qexp).toNat, by omega⟩
    have hun : (exp - d.qexp).toNat = u := by omega
    rw [hun]
    rw [hu, two_zpow_split, ← mul_assoc, mul_comm ((man : ℚ)) _, mul_assoc, mul_comm] at hv
    have : (d.sig : ℚ) = (man : ℚ) * (2:ℚ) ^ u := by
      have := mul_right_cancel₀ hQ.ne' hv
      linarith
    exact_mod_cast this
  · right
    refine ⟨by omega, ?_⟩
    obtain ⟨u, hu⟩ : ∃ u : ℕ, d.qexp = exp + u := ⟨(d.qexp - exp).toNat, by omega⟩
    have hun : (d.qexp - exp).toNat = u := by omega
    rw [hun]
    rw [hu, two_zpow_split, ← mul_assoc, mul_comm ((d.sig : ℚ)) _, mul_assoc, mul_comm ((2:ℚ) ^ exp)] at hv
    have : (man : ℚ) = (d.sig : ℚ) * (2:ℚ) ^ u := mul_right_cancel₀ hE.ne' hv
    exact_mod_cast this

/-- the double of a Python int with at most 53 bits -/
def intDbl (sg man : Nat) : Dbl := ⟨sg, bitcount man + 1022, man * 2 ^ (53 - bitcount man) - 2 ^ 52⟩

theorem intDbl_facts (sg man : Nat) (hsg : sg ≤ 1) (hm : man ≠ 0) (hb : bitcount man ≤ 53) :
    (intDbl sg man).WF ∧ (intDbl sg man).ex < 2047 ∧ (intDbl sg man).sig = man * 2 ^ (53 - bitcount man) ∧
    (intDbl sg man).qexp = (bitcount man : ℤ) - 53 ∧ (intDbl sg man).sign = sg := by
  have hb1 := bitcount_pos hm
  have h53 : bitcount (man * 2 ^ (53 - bitcount man)) = 53 := by rw [bitcount_mul_pow hm]; omega
  have hne : man * 2 ^ (53 - bitcount man) ≠ 0 := by
    intro h; rw [h] at h53; simp [bitcount] at h53
  have hlo := two_pow_bitcount_le hne
  have hhi := lt_two_pow_bitcount (man * 2 ^ (53 - bitcount man))
  rw [h53] at hlo hhi
  have hlo' : 2 ^ 52 ≤ man * 2 ^ (53 - bitcount man) := hlo
  refine ⟨⟨hsg, by show bitcount man + 1022 < 2048; omega, by show _ - 2 ^ 52 < 2 ^ 52; omega⟩,
    by show bitcount man + 1022 < 2047; omega, ?_, ?_, rfl⟩
  · show (if bitcount man + 1022 = 0 then _ else 2 ^ 52 + (man * 2 ^ (53 - bitcount man) - 2 ^ 52)) = _
    rw [if_neg (by omega)]; omega
  · show (if bitcount man + 1022 = 0 then _ else ((bitcount man + 1022 : ℕ) : ℤ) - 1075) = _
    rw [if_neg (by omega)]; push_cast; omega

theorem intToDouble_small (sg man : Nat) (hsg : sg ≤ 1) (hm : man ≠ 0) (hb : bitcount man ≤ 53) :
    intToDouble sg man = some (intDbl sg man) := by
  obtain ⟨hwf, hfin, hsig, hq, hsign⟩ := intDbl_facts sg man hsg hm hb
  unfold intToDouble
  rw [← hsign]
  apply roundToDouble_exact_q man 0 (intDbl sg man) hm hwf hfin
  rw [hsig, hq]
  simp only [Nat.cast_mul, Nat.cast_pow, Nat.cast_ofNat]
  have hz : ((53 - bitcount man : ℕ) : ℤ) + ((bitcount man : ℤ) - 53) = 0 := by omega
  rw [mul_assoc, ← zpow_natCast, ← zpow_add₀ (by norm_num : (2:ℚ) ≠ 0), hz]

/-- `to_float` on a tuple with at most 53 mantissa bits whose value is exactly the finite double `d` -/
theorem to_float_exact (t : Mpf) (d : Dbl) (hm : t.man ≠ 0) (hsg : t.sign ≤ 1) (hbc : t.bc ≤ 53)
    (hb : bitcount t.man ≤ 53) (hwf : d.WF) (hfin : d.ex < 2047) (hsign : d.sign = t.sign)
    (hv : (t.man : ℚ) * (2:ℚ) ^ t.exp = (d.sig : ℚ) * (2:ℚ) ^ d.qexp) (strict : Bool) (rnd : Rnd) :
    to_float t strict rnd = .ok d := by
  unfold to_float
  simp only [hm, if_false, show ¬ (t.bc > 53) by omega]
  have hsg' : (if t.sign ≠ 0 then 1 else 0) = t.sign := by split <;> omega
  rw [hsg', intToDouble_small t.sign t.man hsg hm hb]
  obtain ⟨iwf, ifin, isig, iq, isign⟩ := intDbl_facts t.sign t.man hsg hm hb
  have hne : t.man * 2 ^ (53 - bitcount t.man) ≠ 0 := by
    have : 0 < 2 ^ (53 - bitcount t.man) := by positivity
    exact Nat.mul_ne_zero hm (by omega)
  have hld : ldexpD (intDbl t.sign t.man) t.exp = some d := by
    unfold ldexpD
    have : (intDbl t.sign t.man).isFinite = true := by simp [Dbl.isFinite]; exact ifin
    simp only [this, Bool.not_true, Bool.false_eq_true, if_false, isig, hne, iq, isign]
    rw [← hsign]
    apply roundToDouble_exact_q _ _ d hne hwf hfin
    rw [← hv]
    simp only [Nat.cast_mul, Nat.cast_pow, Nat.cast_ofNat]
    have hz : ((53 - bitcount t.man : ℕ) : ℤ) + ((bitcount t.man : ℤ) - 53 + t.exp) = t.exp := by omega
    rw [mul_assoc, ← zpow_natCast, ← zpow_add₀ (by norm_num : (2:ℚ) ≠ 0), hz]
  simp only [hld]

/-! ## C09: to_float after from_float -/

theorem from_float_zero (d : Dbl) (hfin : d.ex < 2047) (hs : d.sig = 0) (prec : Int) (rnd : Rnd)
    (hp : 53 ≤ prec) : from_float d prec rnd = fzero := by
  have hnan : d.isNan = false := by simp [Dbl.isNan]; omega
  have hinf : d.isInf = false := by simp [Dbl.isInf]; omega
  unfold from_float frexpBits
  simp only [hnan, hinf, Bool.false_eq_true, if_false, hs, if_true]
  unfold from_man_exp
  simp only [show prec ≠ 0 by omega, if_false]
  unfold normalize
  have : (if d.sign = 0 then ((0 : ℕ) : ℤ) else -((0 : ℕ) : ℤ)).natAbs = 0 := by split <;> simp
  simp only [this, if_true]

theorem from_float_shape (d : Dbl) (hwf : d.WF) (hfin : d.ex < 2047) (hs : d.sig ≠ 0) (prec : Int) (rnd : Rnd)
    (hp : 53 ≤ prec) :
    from_float d prec rnd =
      stripTrailing d.sign (d.sig * 2 ^ (53 - bitcount d.sig)) (d.qexp + bitcount d.sig - 53) 53 := by
  have hnan : d.isNan = false := by simp [Dbl.isNan]; omega
  have hinf : d.isInf = false := by simp [Dbl.isInf]; omega
  have hk : bitcount d.sig ≤ 53 := bitcount_le_of_lt (Dbl.sig_lt d hwf)
  have hbc : bitcount (d.sig * 2 ^ (53 - bitcount d.sig)) = 53 := by
    rw [bitcount_mul_pow hs]; omega
  have hne : d.sig * 2 ^ (53 - bitcount d.sig) ≠ 0 := by
    intro h; rw [h] at hbc; simp [bitcount] at hbc
  have hsg : d.sign = 0 ∨ d.sign = 1 := by have := hwf.1; omega
  unfold from_float frexpBits
  simp only [hnan, hinf, Bool.false_eq_true, if_false, hs]
  unfold from_man_exp
  simp only [show prec ≠ 0 by omega, if_false]
  have hna : (if d.sign = 0 then ((d.sig * 2 ^ (53 - bitcount d.sig) : ℕ) : ℤ)
      else -((d.sig * 2 ^ (53 - bitcount d.sig) : ℕ) : ℤ)).natAbs = d.sig * 2 ^ (53 - bitcount d.sig) := by
    split
    · exact Int.natAbs_natCast _
    · rw [Int.natAbs_neg]; exact Int.natAbs_natCast _
  have hpos : (0 : ℤ) < ((d.sig * 2 ^ (53 - bitcount d.sig) : ℕ) : ℤ) := by
    exact_mod_cast Nat.pos_of_ne_zero hne
  have hsign : (if (if d.sign = 0 then ((d.sig * 2 ^ (53 - bitcount d.sig) : ℕ) : ℤ)
      else -((d.sig * 2 ^ (53 - bitcount d.sig) : ℕ) : ℤ)) < 0 then 1 else 0) = d.sign := by
    rcases hsg with h | h
    · simp only [h, if_true]; rw [if_neg (by omega)]
    · simp only [h, one_ne_zero, if_false]; rw [if_pos (by omega)]
  rw [hna, hsign, hbc]
  unfold normalize
  simp only [hne, if_false]
  rw [if_neg (by omega)]
  rfl

theorem to_float_from_float_aux (d : Dbl) (hwf : d.WF) (hfin : d.ex < 2047) (hs : d.sig ≠ 0)
    (prec : Int) (rnd : Rnd) (hp : 53 ≤ prec) (strict : Bool) (rnd' : Rnd) :
    to_float (from_float d prec rnd) strict rnd' = .ok d := by
  have hk : bitcount d.sig ≤ 53 := bitcount_le_of_lt (Dbl.sig_lt d hwf)
  have hbc : bitcount (d.sig * 2 ^ (53 - bitcount d.sig)) = 53 := by
    rw [bitcount_mul_pow hs]; omega
  have hne : d.sig * 2 ^ (53 - bitcount d.sig) ≠ 0 := by
    intro h; rw [h] at hbc; simp [bitcount] at hbc
  have hval := from_float_val d hwf hfin prec rnd hp
  rw [from_float_shape d hwf hfin hs prec rnd hp] at hval ⊢
  set m := d.sig * 2 ^ (53 - bitcount d.sig) with hmdef
  set t := stripTrailing d.sign m (d.qexp + bitcount d.sig - 53) 53 with htdef
  have hmul := shiftRight_trailing_mul m
  have htman : t.man = m >>> trailing m := rfl
  have htsign : t.sign = d.sign := rfl
  have hman0 : t.man ≠ 0 := by
    intro h; rw [htman] at h; rw [h] at hmul; omega
  have hle : t.man ≤ m := by
    rw [htman, Nat.shiftRight_eq_div_pow]; exact Nat.div_le_self _ _
  have hmlt : m < 2 ^ 53 := by have := lt_two_pow_bitcount m; rwa [hbc] at this
  have hb : bitcount t.man ≤ 53 := bitcount_le_of_lt (by omega)
  have htbc : t.bc ≤ 53 := by
    show (if m >>> trailing m = 1 then (1 : ℤ) else 53 - (trailing m : ℤ)) ≤ 53
    split <;> omega
  apply to_float_exact t d hman0 (by rw [htsign]; exact hwf.1) htbc hb hwf hfin htsign.symm
  have h1 := abs_val t
  rw [hval] at h1
  rw [← h1]
  unfold doubleVal
  rw [abs_mul, abs_mul, abs_pow, abs_neg, abs_one, one_pow, one_mul, Nat.abs_cast,
    abs_of_pos (zpow_pos (by norm_num : (0:ℚ) < 2) _)]

/-! ## C09: to_float in the normal range, overflow -/

theorem normalize1_sign (sign man : Nat) (exp bc prec : Int) (rnd : Rnd) (hm : man ≠ 0) :
    (normalize1 sign man exp bc prec rnd).sign = sign := by
  unfold normalize1
  simp only [hm, if_false]
  split <;> rfl

/-- `to_float x` only looks at the tuple after the 53-bit rounding step -/
theorem to_float_eq_of_round (x r : Mpf) (strict : Bool) (rnd : Rnd) (hm : x.man ≠ 0)
    (hr : r = if x.bc > 53 then normalize1 x.sign x.man x.exp x.bc 53 rnd else x)
    (hrm : r.man ≠ 0) (hrbc : r.bc ≤ 53) :
    to_float x strict rnd = to_float r strict rnd := by
  unfold to_float
  simp only [hm, hrm, if_false, show ¬ (r.bc > 53) by omega, ← hr]

/-- the normal double `± man · 2^(E - bitcount man)`, for a mantissa of at most 53 bits and `-1021 ≤ E ≤ 1024` -/
def mkDbl (sg man : Nat) (E : Int) : Dbl := ⟨sg, (E + 1022).toNat, man * 2 ^ (53 - bitcount man) - 2 ^ 52⟩

theorem mkDbl_facts (sg man : Nat) (E : Int) (hsg : sg ≤ 1) (hm : man ≠ 0) (hb : bitcount man ≤ 53)
    (hE1 : -1021 ≤ E) (hE2 : E ≤ 1024) :
    (mkDbl sg man E).WF ∧ 1 ≤ (mkDbl sg man E).ex ∧ (mkDbl sg man E).ex ≤ 2046 ∧
    (mkDbl sg man E).sig = man * 2 ^ (53 - bitcount man) ∧
    (mkDbl sg man E).qexp = E - 53 ∧ (mkDbl sg man E).sign = sg := by
  have hb1 := bitcount_pos hm
  have h53 : bitcount (man * 2 ^ (53 - bitcount man)) = 53 := by rw [bitcount_mul_pow hm]; omega
  have hne : man * 2 ^ (53 - bitcount man) ≠ 0 := by
    intro h; rw [h] at h53; simp [bitcount] at h53
  have hlo := two_pow_bitcount_le hne
  have hhi := lt_two_pow_bitcount (man * 2 ^ (53 - bitcount man))
  rw [h53] at hlo hhi
  have hlo' : 2 ^ 52 ≤ man * 2 ^ (53 - bitcount man) := hlo
  have hex : (E + 1022).toNat ≠ 0 := by omega
  refine ⟨⟨hsg, by show (E + 1022).toNat < 2048; omega, by show _ - 2 ^ 52 < 2 ^ 52; omega⟩,
    by show 1 ≤ (E + 1022).toNat; omega, by show (E + 1022).toNat ≤ 2046; omega, ?_, ?_, rfl⟩
  · show (if (E + 1022).toNat = 0 then _ else 2 ^ 52 + (man * 2 ^ (53 - bitcount man) - 2 ^ 52)) = _
    rw [if_neg hex]; omega
  · show (if (E + 1022).toNat = 0 then _ else (((E + 1022).toNat : ℕ) : ℤ) - 1075) = _
    rw [if_neg hex]; omega

/-- in the normal range `to_float` of a tuple with at most 53 bits is exact -/
theorem to_float_normal_range (r : Mpf) (hm : r.man ≠ 0) (hsg : r.sign ≤ 1) (hbc : r.bc = (bitcount r.man : Int))
    (hb : r.bc ≤ 53) (hlow : (2:ℚ) ^ (-1022 : ℤ) ≤ |val r|) (hhigh : |val r| < (2:ℚ) ^ (1024 : ℤ)) :
    ∃ d : Dbl, (∀ strict rnd, to_float r strict rnd = .ok d) ∧ d.WF ∧ 1 ≤ d.ex ∧ d.ex ≤ 2046 ∧ d.sign = r.sign ∧
      doubleVal d = val r := by
  obtain ⟨hb1, hb2⟩ := abs_val_bounds r hm hbc
  have hbn : bitcount r.man ≤ 53 := by omega
  have hE1 : -1021 ≤ r.exp + r.bc := by
    by_contra h
    have : (2:ℚ) ^ (r.exp + r.bc) ≤ (2:ℚ) ^ (-1022 : ℤ) := zpow_le_zpow_right₀ (by norm_num) (by omega)
    linarith
  have hE2 : r.exp + r.bc ≤ 1024 := by
    by_contra h
    have : (2:ℚ) ^ (1024 : ℤ) ≤ (2:ℚ) ^ (r.exp + r.bc - 1) := zpow_le_zpow_right₀ (by norm_num) (by omega)
    linarith
  obtain ⟨dwf, dex1, dex2, dsig, dq, dsign⟩ := mkDbl_facts r.sign r.man (r.exp + r.bc) hsg hm hbn hE1 hE2
  have hv : (r.man : ℚ) * (2:ℚ) ^ r.exp
      = ((mkDbl r.sign r.man (r.exp + r.bc)).sig : ℚ) * (2:ℚ) ^ (mkDbl r.sign r.man (r.exp + r.bc)).qexp := by
    rw [dsig, dq]
    simp only [Nat.cast_mul, Nat.cast_pow, Nat.cast_ofNat]
    have hz : ((53 - bitcount r.man : ℕ) : ℤ) + (r.exp + r.bc - 53) = r.exp := by omega
    rw [mul_assoc, ← zpow_natCast, ← zpow_add₀ (by norm_num : (2:ℚ) ≠ 0), hz]
  refine ⟨mkDbl r.sign r.man (r.exp + r.bc),
    fun strict rnd => to_float_exact r _ hm hsg hb hbn dwf (by omega) dsign hv strict rnd, dwf, dex1, dex2, dsign, ?_⟩
  unfold doubleVal val
  rw [dsign, mul_assoc, ← hv, mul_assoc]

/-- beyond the largest double `to_float` overflows: ±inf, or OverflowError when `strict` -/
theorem to_float_overflow (r : Mpf) (hm : r.man ≠ 0) (hsg : r.sign ≤ 1) (hbc : r.bc = (bitcount r.man : Int))
    (hb : r.bc ≤ 53) (hhigh : (2:ℚ) ^ (1024 : ℤ) ≤ |val r|) (rnd : Rnd) :
    to_float r false rnd = .ok (Dbl.inf r.sign) ∧ to_float r true rnd = .error .overflow := by
  obtain ⟨hb1, hb2⟩ := abs_val_bounds r hm hbc
  have hbn : bitcount r.man ≤ 53 := by omega
  have hE : 1025 ≤ r.exp + r.bc := by
    by_contra h
    have : (2:ℚ) ^ (r.exp + r.bc) ≤ (2:ℚ) ^ (1024 : ℤ) := zpow_le_zpow_right₀ (by norm_num) (by omega)
    linarith
  have hsg' : (if r.sign ≠ 0 then 1 else 0) = r.sign := by split <;> omega
  obtain ⟨iwf, ifin, isig, iq, isign⟩ := intDbl_facts r.sign r.man hsg hm hbn
  have hne : r.man * 2 ^ (53 - bitcount r.man) ≠ 0 := by
    have : 0 < 2 ^ (53 - bitcount r.man) := by positivity
    exact Nat.mul_ne_zero hm (by omega)
  have h53 : bitcount (r.man * 2 ^ (53 - bitcount r.man)) = 53 := by rw [bitcount_mul_pow hm]; omega
  have hld : ldexpD (intDbl r.sign r.man) r.exp = none := by
    unfold ldexpD
    have : (intDbl r.sign r.man).isFinite = true := by simp [Dbl.isFinite]; exact ifin
    simp only [this, Bool.not_true, Bool.false_eq_true, if_false, isig, hne, iq, isign]
    unfold roundToDouble
    simp only [h53]
    rw [if_pos (by push_cast; omega)]
  have key : ∀ strict, to_float r strict rnd =
      if strict then .error .overflow else .ok (Dbl.inf r.sign) := by
    intro strict
    unfold to_float
    simp only [hm, if_false, show ¬ (r.bc > 53) by omega]
    rw [hsg', intToDouble_small r.sign r.man hsg hm hbn]
    simp only [hld]
    rw [if_pos (by omega : r.exp + r.bc > 0)]
  exact ⟨by rw [key]; rfl, by rw [key]; rfl⟩

/-! ## C09: nearest -/

theorem isRoundN_le (p : ℕ) (x y z : ℚ) (h : IsRoundN p x y) (hz : Repb p z) : |x - y| ≤ |x - z| := by
  rcases h.2 z hz with h1 | ⟨h1, _⟩
  · exact h1.le
  · exact h1.le

theorem repb_pow2 (p : ℕ) (hp : 1 ≤ p) (e : ℤ) : Repb p ((2:ℚ) ^ e) ∧ Repb p (-(2:ℚ) ^ e) := by
  have h1 : (1:ℤ) < 2 ^ p := by
    have : (2:ℤ) ^ 1 ≤ 2 ^ p := pow_le_pow_right₀ (by norm_num) hp
    omega
  constructor
  · exact ⟨1, e, by simpa using h1, by simp⟩
  · exact ⟨-1, e, by simpa using h1, by simp⟩

/-- rounding to nearest cannot cross a representable power of two: the lower threshold survives -/
theorem isRoundN_abs_lower (p : ℕ) (hp : 1 ≤ p) (x y : ℚ) (e : ℤ) (h : IsRoundN p x y)
    (hx : (2:ℚ) ^ e ≤ |x|) : (2:ℚ) ^ e ≤ |y| ∧ (0 < x → 0 < y) ∧ (x < 0 → y < 0) := by
  have hL : (0:ℚ) < (2:ℚ) ^ e := zpow_pos (by norm_num) _
  obtain ⟨r1, r2⟩ := repb_pow2 p hp e
  rcases le_or_gt 0 x with hx0 | hx0
  · rw [abs_of_nonneg hx0] at hx
    have hle := isRoundN_le p x y _ h r1
    rw [abs_of_nonneg (by linarith : 0 ≤ x - (2:ℚ) ^ e)] at hle
    have hy : (2:ℚ) ^ e ≤ y := by
      by_contra hc
      have : x - y ≤ |x - y| := le_abs_self _
      linarith
    refine ⟨by rw [abs_of_pos (by linarith)]; exact hy, fun _ => by linarith, fun h => by linarith⟩
  · rw [abs_of_neg hx0] at hx
    have hle := isRoundN_le p x y _ h r2
    rw [show x - -(2:ℚ) ^ e = -(-x - (2:ℚ) ^ e) by ring, abs_neg,
      abs_of_nonneg (by linarith : 0 ≤ -x - (2:ℚ) ^ e)] at hle
    have hy : y ≤ -(2:ℚ) ^ e := by
      by_contra hc
      have : -(x - y) ≤ |x - y| := neg_le_abs _
      linarith
    refine ⟨by rw [abs_of_neg (by linarith)]; linarith, fun h => by linarith, fun _ => by linarith⟩

theorem isRoundN_self (p : ℕ) (x : ℚ) (h : Repb p x) : IsRoundN p x x := by
  refine ⟨h, fun z _ => ?_⟩
  by_cases hz : z = x
  · right; exact ⟨by rw [hz], Or.inl hz⟩
  · left
    rw [sub_self, abs_zero]
    exact abs_pos.mpr (sub_ne_zero.mpr (Ne.symm hz))

theorem repb_val (x : Mpf) (hb : bitcount x.man ≤ 53) : Repb 53 (val x) := by
  refine ⟨(-1) ^ x.sign * (x.man : ℤ), x.exp, ?_, by unfold val; push_cast; ring⟩
  rw [abs_mul, abs_pow, abs_neg, abs_one, one_pow, one_mul, Nat.abs_cast]
  have h1 := lt_two_pow_bitcount x.man
  have h2 : 2 ^ bitcount x.man ≤ 2 ^ 53 := Nat.pow_le_pow_right (by norm_num) hb
  exact_mod_cast lt_of_lt_of_le h1 h2

/-- The theorem behind `to_float_nearest_partial`: `r` is the tuple after the 53-bit step. -/
theorem to_float_nearest_core (x : Mpf) (hx : CanonFin x) (hm : x.man ≠ 0)
    (hlow : (2:ℚ) ^ (-1022 : ℤ) ≤ |val x|)
    (normalize1_correct : x.bc > 53 → RoundOK 53 .n (val x) (normalize1 x.sign x.man x.exp x.bc 53 .n)) :
    ∃ r : Mpf, IsRoundN 53 (val x) (val r) ∧
      (|val r| < (2:ℚ) ^ (1024 : ℤ) →
        ∃ d : Dbl, to_float x false .n = .ok d ∧ to_float x true .n = .ok d ∧ d.WF ∧ 1 ≤ d.ex ∧ d.ex ≤ 2046 ∧
          doubleVal d = val r) ∧
      ((2:ℚ) ^ (1024 : ℤ) ≤ |val r| →
        to_float x false .n = .ok (Dbl.inf x.sign) ∧ to_float x true .n = .error .overflow) := by
  have hxc : x.sign ≤ 1 ∧ x.man % 2 = 1 ∧ x.bc = (bitcount x.man : Int) := by
    rcases hx with h | h
    · rw [h] at hm; simp [fzero] at hm
    · exact h
  set r := if x.bc > 53 then normalize1 x.sign x.man x.exp x.bc 53 .n else x with hr
  -- facts about r
  have hfacts : IsRoundN 53 (val x) (val r) ∧ r.sign = x.sign ∧ r.bc ≤ 53 ∧ CanonFin r := by
    by_cases hbig : x.bc > 53
    · have hr' : r = normalize1 x.sign x.man x.exp x.bc 53 .n := by rw [hr, if_pos hbig]
      obtain ⟨hcf, _, h3⟩ := normalize1_correct hbig
      obtain ⟨h4, h5⟩ := h3 (by norm_num)
      rw [hr']
      exact ⟨h4, normalize1_sign _ _ _ _ _ _ hm, h5, hcf⟩
    · have hr' : r = x := by rw [hr, if_neg hbig]
      rw [hr']
      exact ⟨isRoundN_self 53 _ (repb_val x (by omega)), rfl, by omega, Or.inr hxc⟩
  obtain ⟨hN, hrsign, hrbc, hrcf⟩ := hfacts
  obtain ⟨hrlow, _, _⟩ := isRoundN_abs_lower 53 (by norm_num) _ _ _ hN hlow
  have hrc : r.sign ≤ 1 ∧ r.man % 2 = 1 ∧ r.bc = (bitcount r.man : Int) := by
    rcases hrcf with h | h
    · exfalso
      have hz : val r = 0 := by rw [h]; simp [val, fzero]
      rw [hz, abs_zero] at hrlow
      have : (0:ℚ) < (2:ℚ) ^ (-1022 : ℤ) := zpow_pos (by norm_num) _
      linarith
    · exact h
  have hrm : r.man ≠ 0 := by omega
  have heq : ∀ strict, to_float x strict .n = to_float r strict .n :=
    fun strict => to_float_eq_of_round x r strict .n hm hr hrm hrbc
  refine ⟨r, hN, fun hhigh => ?_, fun hhigh => ?_⟩
  · obtain ⟨d, h1, h2, h3, h4, _, h6⟩ :=
      to_float_normal_range r hrm hrc.1 hrc.2.2 hrbc hrlow hhigh
    exact ⟨d, by rw [heq]; exact h1 false .n, by rw [heq]; exact h1 true .n, h2, h3, h4, h6⟩
  · obtain ⟨h1, h2⟩ := to_float_overflow r hrm hrc.1 hrc.2.2 hrbc hhigh .n
    exact ⟨by rw [heq, h1, hrsign], by rw [heq, h2]⟩

end Mp.H
