/-
  MpProofs/Helpers.lean — lemmas for C40 (hex round trip, dict/heap model of matrices) and
  C39 (magnitude, nearest integer, classification helpers).
  All lemmas live in the namespace `Mp.H` (several generic names — `bitcount_pos`, `abs_val`, … — also exist in
  MpProofs/Bits.lean etc.); the property files `open H`.
-/
import MpModel.Helpers
import MpProofs.Spec
import Mathlib.Tactic.IntervalCases

namespace Mp.H

/-! ## C40: hexadecimal round trip -/

theorem hexVal_hexDigitChar : ∀ d : Nat, d < 16 → hexVal (hexDigitChar d) = some d := by
  intro d hd
  interval_cases d <;> decide

theorem ofHexList_append (l : List Char) (c : Char) (a : Nat) :
    ofHexList (l ++ [c]) a = (ofHexList l a).bind (fun v => (hexVal c).map (fun d => v * 16 + d)) := by
  induction l generalizing a with
  | nil => simp [ofHexList]; cases hexVal c <;> simp
  | cons x xs ih =>
    simp only [List.cons_append, ofHexList]
    cases hexVal x with
    | none => simp
    | some d => simp [ih]

theorem ofHexList_toHexDigitsAux (fuel n : Nat) (h : n < 16 * 16 ^ fuel) :
    ofHexList (toHexDigitsAux fuel n) 0 = some n := by
  induction fuel generalizing n with
  | zero =>
    have : n < 16 := by simpa using h
    simp [toHexDigitsAux, ofHexList, Nat.mod_eq_of_lt this, hexVal_hexDigitChar n this]
  | succ f ih =>
    unfold toHexDigitsAux
    split
    · rename_i h16
      simp [ofHexList, hexVal_hexDigitChar n h16]
    · have h1 : n / 16 < 16 * 16 ^ f := by
        rw [Nat.div_lt_iff_lt_mul (by norm_num)]; rw [pow_succ] at h; omega
      rw [ofHexList_append, ih _ h1, hexVal_hexDigitChar _ (Nat.mod_lt _ (by norm_num))]
      simp; omega

theorem toHexDigits_ne_nil (n : Nat) : toHexDigits n ≠ [] := by
  unfold toHexDigits
  cases bitcount n with
  | zero => simp [toHexDigitsAux]
  | succ f => unfold toHexDigitsAux; split <;> simp

theorem lt_two_pow_bitcount (n : Nat) : n < 2 ^ bitcount n := by
  unfold bitcount
  split
  · subst_vars; simp
  · exact Nat.lt_log2_self

theorem ofHex_toHex (n : Nat) : ofHex (toHex n) = some n := by
  unfold ofHex toHex
  rw [String.toList_ofList]
  have hne := toHexDigits_ne_nil n
  have : ofHexList (toHexDigits n) 0 = some n := by
    apply ofHexList_toHexDigitsAux
    have h1 := lt_two_pow_bitcount n
    have h2 : 2 ^ bitcount n ≤ 16 ^ bitcount n := Nat.pow_le_pow_left (by norm_num) _
    omega
  cases hl : toHexDigits n with
  | nil => exact absurd hl hne
  | cons c cs => simp only; rw [← hl]; exact this

/-! ## C40: dicts, heap, matrices -/

theorem Dict.get?_erase_eq (d : Dict) (k : Nat × Nat) : (Dict.erase d k).get? k = none := by
  induction d with
  | nil => rfl
  | cons x r ih =>
    obtain ⟨k', v⟩ := x
    unfold Dict.erase; split
    · exact ih
    · rename_i hne; unfold Dict.get?; simp only [hne, if_false]; exact ih

theorem Dict.get?_erase_ne (d : Dict) (k k2 : Nat × Nat) (h : k ≠ k2) :
    (Dict.erase d k).get? k2 = d.get? k2 := by
  induction d with
  | nil => rfl
  | cons x r ih =>
    obtain ⟨k', v⟩ := x
    unfold Dict.erase; split
    · rename_i he; subst he
      conv => rhs; unfold Dict.get?
      simp only [h, if_false]; exact ih
    · conv => lhs; unfold Dict.get?
      conv => rhs; unfold Dict.get?
      split
      · rfl
      · exact ih

theorem Dict.get?_set_eq (d : Dict) (k : Nat × Nat) (v : Entry) : (d.set k v).get? k = some v := by
  unfold Dict.set Dict.get?; simp

theorem Dict.get?_set_ne (d : Dict) (k k2 : Nat × Nat) (v : Entry) (h : k ≠ k2) :
    (d.set k v).get? k2 = d.get? k2 := by
  have : ∀ (r : Dict), Dict.get? ((k, v) :: r) k2 = r.get? k2 := by
    intro r; conv => lhs; unfold Dict.get?
    simp only [h, if_false]
  unfold Dict.set; rw [this]; exact Dict.get?_erase_ne d k k2 h

theorem Heap.read_alloc_old (h : Heap) (d : Dict) (a : Nat) (ha : a < h.objs.length) :
    (h.alloc d).1.read a = h.read a := by
  simp [Heap.alloc, Heap.read, List.getD_eq_getElem?_getD, List.getElem?_append_left ha]

theorem Heap.read_alloc_new (h : Heap) (d : Dict) : (h.alloc d).1.read (h.alloc d).2 = d := by
  simp [Heap.alloc, Heap.read, List.getD_eq_getElem?_getD]

theorem Heap.read_write_eq (h : Heap) (a : Nat) (d : Dict) (ha : a < h.objs.length) :
    (h.write a d).read a = d := by
  simp [Heap.write, Heap.read, List.getD_eq_getElem?_getD, ha]

theorem Heap.read_write_ne (h : Heap) (a b : Nat) (d : Dict) (hab : a ≠ b) :
    (h.write a d).read b = h.read b := by
  simp [Heap.write, Heap.read, List.getD_eq_getElem?_getD, List.getElem?_set_ne hab]

theorem Heap.alloc_length (h : Heap) (d : Dict) : (h.alloc d).1.objs.length = h.objs.length + 1 := by
  simp [Heap.alloc]

theorem Heap.alloc_snd (h : Heap) (d : Dict) : (h.alloc d).2 = h.objs.length := rfl

/-- the dict of the copy is a fresh object holding the same items; the original object is untouched -/
theorem matCopy_facts (h : Heap) (m : Mat) (hm : m.ref < h.objs.length) :
    (matCopy h m).2.rows = m.rows ∧ (matCopy h m).2.cols = m.cols ∧
    (matCopy h m).2.ref = h.objs.length + 1 ∧
    (matCopy h m).1.objs.length = h.objs.length + 2 ∧
    (matCopy h m).1.read (matCopy h m).2.ref = h.read m.ref ∧
    (matCopy h m).1.read m.ref = h.read m.ref := by
  have h1 : ((h.alloc []).1.read m.ref) = h.read m.ref := Heap.read_alloc_old h [] m.ref hm
  have hm' : m.ref < (h.alloc []).1.objs.length := by rw [Heap.alloc_length]; omega
  refine ⟨rfl, rfl, ?_, ?_, ?_, ?_⟩
  · simp [matCopy, matNew, Heap.alloc]
  · simp [matCopy, matNew, Heap.alloc]
  · show ((h.alloc []).1.alloc ((h.alloc []).1.read m.ref)).1.read ((h.alloc []).1.alloc ((h.alloc []).1.read m.ref)).2 = _
    rw [Heap.read_alloc_new, h1]
  · show ((h.alloc []).1.alloc ((h.alloc []).1.read m.ref)).1.read m.ref = _
    rw [Heap.read_alloc_old _ _ _ hm', h1]

theorem matGet_congr (h h' : Heap) (m m' : Mat) (hr : m'.rows = m.rows) (hc : m'.cols = m.cols)
    (hd : h'.read m'.ref = h.read m.ref) (i j : Nat) : matGet h' m' i j = matGet h m i j := by
  unfold matGet; rw [hr, hc, hd]

theorem matSet_read_other (h h'' : Heap) (m : Mat) (i j : Nat) (v : Entry) (a : Nat) (ha : a ≠ m.ref)
    (hs : matSet h m i j v = .ok h'') : h''.read a = h.read a := by
  unfold matSet at hs
  split at hs
  · cases hs
  · split at hs <;> (injection hs with hs; subst hs; exact Heap.read_write_ne _ _ _ _ (Ne.symm ha))

theorem matSet_get_same (h h'' : Heap) (m : Mat) (i j : Nat) (v : Entry) (hm : m.ref < h.objs.length)
    (hs : matSet h m i j v = .ok h'') :
    matGet h'' m i j = .ok (if v.truthy then v else .mpf fzero) := by
  unfold matSet at hs
  split at hs
  · cases hs
  · rename_i hb
    unfold matGet; simp only [hb, if_false]
    split at hs <;> (rename_i ht; injection hs with hs; subst hs; rw [Heap.read_write_eq _ _ _ hm])
    · simp [Dict.get?_set_eq, ht]
    · simp [Dict.get?_erase_eq, ht]

theorem matSet_get_other (h h'' : Heap) (m : Mat) (i j a b : Nat) (v : Entry) (hm : m.ref < h.objs.length)
    (hab : (i, j) ≠ (a, b)) (hs : matSet h m i j v = .ok h'') :
    matGet h'' m a b = matGet h m a b := by
  unfold matSet at hs
  split at hs
  · cases hs
  · unfold matGet
    split at hs <;> (injection hs with hs; subst hs; rw [Heap.read_write_eq _ _ _ hm])
    · rw [Dict.get?_set_ne _ _ _ _ hab]
    · rw [Dict.get?_erase_ne _ _ _ hab]

/-! ## C39: values, magnitudes -/

theorem bitcount_pos {n : Nat} (h : n ≠ 0) : 1 ≤ bitcount n := by
  unfold bitcount; simp [h]

theorem two_pow_bitcount_le {n : Nat} (h : n ≠ 0) : 2 ^ (bitcount n - 1) ≤ n := by
  unfold bitcount; simp only [h, if_false, Nat.add_sub_cancel]; exact Nat.log2_self_le h

theorem bitcount_lower_q {n : Nat} (h : n ≠ 0) : (2:ℚ) ^ ((bitcount n : ℤ) - 1) ≤ (n : ℚ) := by
  have h1 := two_pow_bitcount_le h
  have h2 := bitcount_pos h
  have : ((bitcount n : ℤ) - 1) = ((bitcount n - 1 : ℕ) : ℤ) := by omega
  rw [this, zpow_natCast]; exact_mod_cast h1

theorem bitcount_upper_q (n : Nat) : (n : ℚ) < (2:ℚ) ^ (bitcount n : ℤ) := by
  rw [zpow_natCast]; exact_mod_cast lt_two_pow_bitcount n

theorem abs_val (x : Mpf) : |val x| = (x.man : ℚ) * (2:ℚ) ^ x.exp := by
  unfold val
  rw [abs_mul, abs_mul, abs_pow, abs_neg, abs_one, one_pow, one_mul, Nat.abs_cast,
    abs_of_pos (zpow_pos (by norm_num : (0:ℚ) < 2) _)]

/-- magnitude bounds of a nonzero tuple with exact bit count -/
theorem abs_val_bounds (x : Mpf) (hm : x.man ≠ 0) (hbc : x.bc = (bitcount x.man : Int)) :
    (2:ℚ) ^ (x.exp + x.bc - 1) ≤ |val x| ∧ |val x| < (2:ℚ) ^ (x.exp + x.bc) := by
  rw [abs_val, hbc]
  have hp : (0:ℚ) < (2:ℚ) ^ x.exp := zpow_pos (by norm_num) _
  constructor
  · have : x.exp + (bitcount x.man : ℤ) - 1 = ((bitcount x.man : ℤ) - 1) + x.exp := by ring
    rw [this, zpow_add₀ (by norm_num : (2:ℚ) ≠ 0)]
    exact mul_le_mul_of_nonneg_right (bitcount_lower_q hm) hp.le
  · rw [add_comm, zpow_add₀ (by norm_num : (2:ℚ) ≠ 0)]
    exact mul_lt_mul_of_pos_right (bitcount_upper_q _) hp

theorem val_ldexp (x : Mpf) (n : Int) : val (ldexp x n) = val x * (2:ℚ) ^ n := by
  unfold ldexp mpf_shift
  split
  · rename_i h; simp [val, h]
  · simp only [val]; rw [zpow_add₀ (by norm_num : (2:ℚ) ≠ 0)]; ring

/-! ## C39: frexp, isint -/

theorem frexp_ok (x : Mpf) (hm : x.man ≠ 0) :
    frexp x = .ok (⟨x.sign, x.man, -x.bc, x.bc⟩, x.bc + x.exp) := by
  unfold frexp mpf_frexp mpf_shift
  simp only [hm, if_false]
  congr 3; ring

/-- value-level facts about an odd mantissa with negative exponent -/
theorem not_int_of_odd_neg_exp (man : Nat) (exp : Int) (hodd : man % 2 = 1) (hexp : exp < 0) (n : ℤ) :
    (man : ℚ) * (2:ℚ) ^ exp ≠ (n : ℚ) := by
  intro h
  obtain ⟨k, hk⟩ : ∃ k : ℕ, exp = -((k : ℤ) + 1) := ⟨(-exp - 1).toNat, by omega⟩
  rw [hk, zpow_neg, ← div_eq_mul_inv, div_eq_iff (by positivity)] at h
  have h2 : (man : ℤ) = n * 2 ^ (k + 1) := by
    have : ((man : ℤ) : ℚ) = ((n * 2 ^ (k + 1) : ℤ) : ℚ) := by
      push_cast; rw [h]; congr 1
    exact_mod_cast this
  have : (man : ℤ) % 2 = 0 := by
    rw [h2, pow_succ, ← mul_assoc]; exact Int.mul_emod_left _ 2
  omega

theorem val_eq_signed (x : Mpf) (hs : x.sign ≤ 1) :
    val x = (if x.sign = 0 then 1 else -1) * ((x.man : ℚ) * (2:ℚ) ^ x.exp) := by
  unfold val
  have : x.sign = 0 ∨ x.sign = 1 := by omega
  rcases this with h | h <;> simp [h]

theorem val_int_of_exp_nonneg (x : Mpf) (he : 0 ≤ x.exp) :
    val x = (((-1) ^ x.sign * (x.man : ℤ) * 2 ^ x.exp.toNat : ℤ) : ℚ) := by
  unfold val
  obtain ⟨k, hk⟩ : ∃ k : ℕ, x.exp = k := ⟨x.exp.toNat, by omega⟩
  rw [hk]; simp

theorem isintF_iff (x : Mpf) (hc : CanonFin x) : isintF x = true ↔ ∃ n : ℤ, val x = n := by
  rcases hc with rfl | ⟨hs, hodd, _⟩
  · simp [isintF, val, fzero]; exact ⟨0, by simp⟩
  · have hm : x.man ≠ 0 := by omega
    have hnz : x ≠ fzero := by intro h; rw [h] at hm; simp [fzero] at hm
    constructor
    · intro h
      have he : 0 ≤ x.exp := by
        simp [isintF, hm, hnz] at h; exact h
      exact ⟨_, val_int_of_exp_nonneg x he⟩
    · rintro ⟨n, hn⟩
      by_contra hcon
      have he : x.exp < 0 := by
        simp [isintF, hm, hnz] at hcon; exact hcon
      rw [val_eq_signed x hs] at hn
      split at hn
      · exact not_int_of_odd_neg_exp x.man x.exp hodd he n (by simpa using hn)
      · exact not_int_of_odd_neg_exp x.man x.exp hodd he (-n) (by push_cast; linarith)

/-! ## C39: isnpint, rationals -/

theorem isnpintF_iff (x : Mpf) (hc : CanonFin x) :
    isnpintF x = true ↔ ∃ n : ℤ, n ≤ 0 ∧ val x = n := by
  rcases hc with rfl | ⟨hs, hodd, _⟩
  · simp [isnpintF, val, fzero]; exact ⟨0, le_refl _, by simp⟩
  · have hm : x.man ≠ 0 := by omega
    have hnz : x ≠ fzero := by intro h; rw [h] at hm; simp [fzero] at hm
    have hpos : (0:ℚ) < (x.man : ℚ) * (2:ℚ) ^ x.exp :=
      mul_pos (by exact_mod_cast Nat.pos_of_ne_zero hm) (zpow_pos (by norm_num) _)
    constructor
    · intro h
      simp [isnpintF, hnz] at h
      obtain ⟨hsg, he⟩ := h
      refine ⟨_, ?_, val_int_of_exp_nonneg x he⟩
      have h1 : x.sign = 1 := by omega
      rw [h1]; simp
    · rintro ⟨n, hn0, hn⟩
      have hsg : x.sign ≠ 0 := by
        intro h0
        rw [val_eq_signed x hs] at hn; simp [h0] at hn
        have : (n : ℚ) ≤ 0 := by exact_mod_cast hn0
        linarith
      have he : 0 ≤ x.exp := by
        by_contra hcon
        rw [val_eq_signed x hs] at hn; simp [hsg] at hn
        exact not_int_of_odd_neg_exp x.man x.exp hodd (by omega) (-n) (by push_cast; linarith)
      simp [isnpintF, hnz, hsg, he]

theorem isintQ_iff (p : Int) (q : Nat) (hq : 0 < q) :
    ∃ b, isintQ p q = .ok b ∧ (b = true ↔ ∃ n : ℤ, (p : ℚ) / (q : ℚ) = n) := by
  refine ⟨p % (q : Int) == 0, by simp [isintQ, Nat.ne_of_gt hq], ?_⟩
  have hq' : (q : ℚ) ≠ 0 := by exact_mod_cast Nat.ne_of_gt hq
  simp only [beq_iff_eq]
  constructor
  · intro h
    obtain ⟨k, hk⟩ := Int.dvd_of_emod_eq_zero h
    refine ⟨k, ?_⟩
    rw [div_eq_iff hq', hk]; push_cast; ring
  · rintro ⟨n, hn⟩
    rw [div_eq_iff hq'] at hn
    have : p = n * (q : ℤ) := by exact_mod_cast hn
    rw [this]; exact Int.mul_emod_left _ _

theorem isnpintQ_iff (p : Int) (q : Nat) (hq : 0 < q) (hred : Int.gcd p q = 1) :
    isnpintQ p q = true ↔ ∃ n : ℤ, n ≤ 0 ∧ (p : ℚ) / (q : ℚ) = n := by
  have hq' : (q : ℚ) ≠ 0 := by exact_mod_cast Nat.ne_of_gt hq
  unfold isnpintQ
  split
  · rename_i h0; subst h0; simp; exact ⟨0, le_refl _, by simp⟩
  · rename_i hp
    simp only [Bool.and_eq_true, beq_iff_eq, decide_eq_true_eq]
    constructor
    · rintro ⟨h1, hp0⟩
      exact ⟨p, hp0, by rw [h1]; simp⟩
    · rintro ⟨n, hn0, hn⟩
      rw [div_eq_iff hq'] at hn
      have hpn : p = n * (q : ℤ) := by exact_mod_cast hn
      have hq1 : q = 1 := by
        have : (q : ℤ) ∣ p := ⟨n, by rw [hpn]; ring⟩
        have h2 : (q : ℕ) ∣ Int.gcd p q := by
          apply Nat.dvd_gcd
          · exact Int.natAbs_dvd_natAbs.mpr this |> fun h => by simpa using h
          · simp
        rw [hred] at h2; exact Nat.dvd_one.mp h2
      refine ⟨hq1, ?_⟩
      rw [hpn, hq1]; simpa using hn0

/-! ## C39: nint_distance -/

/-- `D` is the binary exponent of the non-negative quantity `u`: `-inf` exactly when `u = 0`,
otherwise `2^(e-1) ≤ u < 2^e`. -/
def DistOf (D : Dist) (u : ℚ) : Prop :=
  (D = .ninf ↔ u = 0) ∧ ∀ e, D = .fin e → (2:ℚ) ^ (e - 1) ≤ u ∧ u < (2:ℚ) ^ e

theorem DistOf_fin_bitcount (rem : Nat) (exp : Int) (h : rem ≠ 0) :
    DistOf (.fin (exp + bitcount rem)) ((rem : ℚ) * (2:ℚ) ^ exp) := by
  have hp : (0:ℚ) < (2:ℚ) ^ exp := zpow_pos (by norm_num) _
  constructor
  · constructor
    · intro h; cases h
    · intro h0
      have : (0:ℚ) < (rem : ℚ) * (2:ℚ) ^ exp :=
        mul_pos (by exact_mod_cast Nat.pos_of_ne_zero h) hp
      linarith
  · intro e he
    injection he with he; subst he
    constructor
    · have : exp + (bitcount rem : ℤ) - 1 = ((bitcount rem : ℤ) - 1) + exp := by ring
      rw [this, zpow_add₀ (by norm_num : (2:ℚ) ≠ 0)]
      exact mul_le_mul_of_nonneg_right (bitcount_lower_q h) hp.le
    · rw [add_comm, zpow_add₀ (by norm_num : (2:ℚ) ≠ 0)]
      exact mul_lt_mul_of_pos_right (bitcount_upper_q _) hp

/-- arithmetic heart of the general branch -/
theorem nint_general_arith (man d n0 rem : Nat) (hrem0 : rem ≠ 0) (hrem : rem < 2 ^ d)
    (h : man = n0 * 2 ^ (d + 1) + rem ∨ man + rem = n0 * 2 ^ (d + 1)) :
    |(man : ℚ) * (2:ℚ) ^ (-((d : ℤ) + 1)) - (n0 : ℚ)| = (rem : ℚ) * (2:ℚ) ^ (-((d : ℤ) + 1)) ∧
    (rem : ℚ) * (2:ℚ) ^ (-((d : ℤ) + 1)) < 1 / 2 := by
  have hP : (0:ℚ) < (2:ℚ) ^ (d + 1) := by positivity
  have hz : (2:ℚ) ^ (-((d : ℤ) + 1)) = ((2:ℚ) ^ (d + 1))⁻¹ := by
    rw [zpow_neg]; congr 1
  rw [hz]
  have hremq : (rem : ℚ) < (2:ℚ) ^ d := by exact_mod_cast hrem
  have hrem0q : (0:ℚ) < (rem : ℚ) := by exact_mod_cast Nat.pos_of_ne_zero hrem0
  constructor
  · rcases h with h | h
    · have : (man : ℚ) = n0 * (2:ℚ) ^ (d + 1) + rem := by exact_mod_cast h
      rw [this, add_mul, mul_assoc, mul_inv_cancel₀ hP.ne', mul_one, add_sub_cancel_left,
        abs_of_pos (mul_pos hrem0q (inv_pos.mpr hP))]
    · have : (man : ℚ) = n0 * (2:ℚ) ^ (d + 1) - rem := by
        have : (man : ℚ) + rem = n0 * (2:ℚ) ^ (d + 1) := by exact_mod_cast h
        linarith
      rw [this, sub_mul, mul_assoc, mul_inv_cancel₀ hP.ne', mul_one, sub_sub_cancel_left,
        abs_neg, abs_of_pos (mul_pos hrem0q (inv_pos.mpr hP))]
  · rw [← div_eq_mul_inv, div_lt_iff₀ hP, pow_succ]; linarith

theorem nintAbs_spec (man : Nat) (exp : Int) (hodd : man % 2 = 1) :
    |(man : ℚ) * (2:ℚ) ^ exp - ((nintAbs man exp).1 : ℚ)| ≤ 1 / 2 ∧
    (|(man : ℚ) * (2:ℚ) ^ exp - ((nintAbs man exp).1 : ℚ)| = 1 / 2 →
        (man : ℚ) * (2:ℚ) ^ exp < ((nintAbs man exp).1 : ℚ)) ∧
    DistOf (nintAbs man exp).2 |(man : ℚ) * (2:ℚ) ^ exp - ((nintAbs man exp).1 : ℚ)| := by
  unfold nintAbs
  split
  · -- exact integer
    rename_i he
    obtain ⟨k, hk⟩ : ∃ k : ℕ, exp = k := ⟨exp.toNat, by omega⟩
    subst hk
    have : ((man <<< (k : ℤ).toNat : ℕ) : ℚ) = (man : ℚ) * (2:ℚ) ^ (k : ℤ) := by
      simp [Nat.shiftLeft_eq]
    simp only [this, sub_self, abs_zero]
    refine ⟨by norm_num, by norm_num, ⟨fun _ => rfl, fun _ => rfl⟩, fun e he => by cases he⟩
  · split
    · -- exact half-integer
      rename_i _ he
      subst he
      have hn : (((man >>> 1) + 1 : ℕ) : ℚ) = (man : ℚ) * (2:ℚ) ^ (-1 : ℤ) + 1 / 2 := by
        have h2 : man = 2 * (man >>> 1) + 1 := by rw [Nat.shiftRight_eq_div_pow]; omega
        have h3 : (man : ℚ) = 2 * ((man >>> 1 : ℕ) : ℚ) + 1 := by exact_mod_cast h2
        push_cast; rw [h3]; norm_num; ring
      simp only [hn]
      have : (man : ℚ) * (2:ℚ) ^ (-1 : ℤ) - ((man : ℚ) * (2:ℚ) ^ (-1 : ℤ) + 1 / 2) = -(1/2) := by ring
      rw [this, abs_neg, abs_of_pos (by norm_num : (0:ℚ) < 1/2)]
      refine ⟨le_refl _, fun _ => by linarith, ⟨?_, by norm_num⟩, fun e he => ?_⟩
      · intro h; cases h
      · injection he with he; subst he; norm_num
    · -- general branch
      rename_i h1 h2
      obtain ⟨d, hd⟩ : ∃ d : ℕ, exp = -((d : ℤ) + 1) ∧ 1 ≤ d := ⟨(-exp - 1).toNat, by omega, by omega⟩
      obtain ⟨hd, hd1⟩ := hd
      have hdn : (-exp - 1).toNat = d := by omega
      simp only [hdn]
      have hdiv : man = (man >>> d) * 2 ^ d + man % 2 ^ d := by
        rw [Nat.shiftRight_eq_div_pow, mul_comm]; exact (Nat.div_add_mod man (2 ^ d)).symm
      have hrlt : man % 2 ^ d < 2 ^ d := Nat.mod_lt _ (by positivity)
      have h2d : 2 ^ d = 2 * 2 ^ (d - 1) := by
        rw [← pow_succ']; congr 1; omega
      have hrodd : (man % 2 ^ d) % 2 = 1 := by
        rw [h2d, Nat.mod_mul_right_mod]; exact hodd
      set t := man >>> d with ht
      set r := man % 2 ^ d with hr
      split
      · -- t odd: round up
        rename_i htodd
        have hn0 : t + 1 = 2 * ((t + 1) >>> 1) := by rw [Nat.shiftRight_eq_div_pow]; omega
        set n0 := (t + 1) >>> 1 with hn0def
        have hrem : ((t + 1) <<< d) - man = 2 ^ d - r := by
          rw [Nat.shiftLeft_eq, add_mul, one_mul]; omega
        have hn0' : n0 * 2 ^ (d + 1) = t * 2 ^ d + 2 ^ d := by
          rw [pow_succ, mul_comm (2 ^ d) 2, ← mul_assoc, mul_comm n0 2, ← hn0, add_mul, one_mul]
        have hrem0 : 2 ^ d - r ≠ 0 := by omega
        have hremlt : 2 ^ d - r < 2 ^ d := by omega
        have harith := nint_general_arith man d n0 (2 ^ d - r) hrem0 hremlt
          (Or.inr (by rw [hn0']; omega))
        simp only [hrem]
        rw [hd, harith.1]
        refine ⟨harith.2.le, fun h => absurd h (ne_of_lt harith.2), ?_⟩
        have := DistOf_fin_bitcount (2 ^ d - r) (-((d : ℤ) + 1)) hrem0
        simpa using this
      · -- t even: round down
        rename_i hteven
        have hn0 : t = 2 * (t >>> 1) := by rw [Nat.shiftRight_eq_div_pow]; omega
        set n0 := t >>> 1 with hn0def
        have hrem : man - (t <<< d) = r := by
          rw [Nat.shiftLeft_eq]; omega
        have hn0' : n0 * 2 ^ (d + 1) = t * 2 ^ d := by
          rw [pow_succ, mul_comm (2 ^ d) 2, ← mul_assoc, mul_comm n0 2, ← hn0]
        have hrem0 : r ≠ 0 := by omega
        have harith := nint_general_arith man d n0 r hrem0 hrlt
          (Or.inl (by rw [hn0']; exact hdiv))
        simp only [hrem]
        rw [hd, harith.1]
        refine ⟨harith.2.le, fun h => absurd h (ne_of_lt harith.2), ?_⟩
        have := DistOf_fin_bitcount r (-((d : ℤ) + 1)) hrem0
        simpa using this

theorem DistOf_nonneg {D : Dist} {u : ℚ} (h : DistOf D u) : 0 ≤ u := by
  cases D with
  | ninf => exact le_of_eq (h.1.mp rfl).symm
  | fin e => exact le_trans (zpow_pos (by norm_num) _).le (h.2 e rfl).1

theorem DistOf_pyMax {D1 D2 : Dist} {u v : ℚ} (h1 : DistOf D1 u) (h2 : DistOf D2 v) :
    DistOf (Dist.pyMax D1 D2) (max u v) := by
  have hu := DistOf_nonneg h1
  have hv := DistOf_nonneg h2
  cases D1 with
  | ninf =>
    have : u = 0 := h1.1.mp rfl
    subst this
    rw [max_eq_right hv]
    cases D2 <;> exact h2
  | fin a =>
    have ha := h1.2 a rfl
    have hupos : 0 < u := lt_of_lt_of_le (zpow_pos (by norm_num) _) ha.1
    cases D2 with
    | ninf =>
      have : v = 0 := h2.1.mp rfl
      subst this
      rw [max_eq_left hu]; exact h1
    | fin b =>
      have hb := h2.2 b rfl
      have hmpos : 0 < max u v := lt_of_lt_of_le hupos (le_max_left _ _)
      show DistOf (if b > a then Dist.fin b else Dist.fin a) (max u v)
      split
      · rename_i hba
        refine ⟨⟨(fun h => by cases h), fun h => absurd h hmpos.ne'⟩, fun e he => ?_⟩
        injection he with he; subst he
        refine ⟨le_trans hb.1 (le_max_right _ _), max_lt ?_ hb.2⟩
        exact lt_of_lt_of_le ha.2 (zpow_le_zpow_right₀ (by norm_num) (by omega))
      · rename_i hba
        refine ⟨⟨(fun h => by cases h), fun h => absurd h hmpos.ne'⟩, fun e he => ?_⟩
        injection he with he; subst he
        refine ⟨le_trans ha.1 (le_max_left _ _), max_lt ha.2 ?_⟩
        exact lt_of_lt_of_le hb.2 (zpow_le_zpow_right₀ (by norm_num) (by omega))

theorem Dist.pyMax_ninf_right (D : Dist) : Dist.pyMax D .ninf = D := by cases D <;> rfl
theorem Dist.pyMax_ninf_left (D : Dist) : Dist.pyMax .ninf D = D := by cases D <;> rfl

theorem DistOf_ninf_zero : DistOf .ninf 0 := ⟨⟨fun _ => rfl, fun _ => rfl⟩, fun e h => by cases h⟩

/-- specification of the shared tail of `nint_distance` for a nonzero canonical real part -/
theorem nintDistCore_spec (re : Mpf) (hs : re.sign ≤ 1) (hodd : re.man % 2 = 1)
    (hbc : re.bc = (bitcount re.man : Int)) (imDist : Dist) (v : ℚ) (hv : DistOf imDist v) :
    ∃ (n : ℤ) (D : Dist), nintDistCore re imDist = .ok (n, D) ∧
      |val re - n| ≤ 1 / 2 ∧ (|val re - n| = 1 / 2 → |val re| < |(n : ℚ)|) ∧
      DistOf D (max |val re - n| v) := by
  have hm : re.man ≠ 0 := by omega
  unfold nintDistCore
  rw [if_neg (fun h => hm h.1)]
  simp only
  split
  · rename_i hmag
    refine ⟨0, _, rfl, ?_⟩
    have hb := abs_val_bounds re hm hbc
    have hle : (2:ℚ) ^ (re.exp + re.bc) ≤ (2:ℚ) ^ (-1 : ℤ) :=
      zpow_le_zpow_right₀ (by norm_num) (by omega)
    have h12 : (2:ℚ) ^ (-1 : ℤ) = 1 / 2 := by norm_num
    rw [h12] at hle
    have hlt : |val re| < 1 / 2 := lt_of_lt_of_le hb.2 hle
    simp only [Int.cast_zero, sub_zero]
    refine ⟨hlt.le, fun h => absurd h (ne_of_lt hlt), DistOf_pyMax ?_ hv⟩
    refine ⟨⟨(fun h => by cases h), fun h => ?_⟩, fun e he => ?_⟩
    · have := lt_of_lt_of_le (zpow_pos (by norm_num : (0:ℚ) < 2) (re.exp + re.bc - 1)) hb.1
      linarith
    · injection he with he; subst he; exact hb
  · obtain ⟨h1, h2, h3⟩ := nintAbs_spec re.man re.exp hodd
    set n0 := (nintAbs re.man re.exp).1 with hn0
    set a := (re.man : ℚ) * (2:ℚ) ^ re.exp with ha
    have hapos : 0 < a := mul_pos (by exact_mod_cast Nat.pos_of_ne_zero hm) (zpow_pos (by norm_num) _)
    have hval := val_eq_signed re hs
    rw [← ha] at hval
    have habs : |val re| = a := by rw [abs_val]
    refine ⟨_, _, rfl, ?_⟩
    have key : |val re - ((if re.sign ≠ 0 then -(n0 : ℤ) else (n0 : ℤ) : ℤ) : ℚ)| = |a - (n0 : ℚ)| := by
      rw [hval]
      by_cases hsg : re.sign = 0
      · simp [hsg]
      · simp only [hsg, if_false, ne_eq, not_false_eq_true, if_true]
        push_cast
        rw [show -1 * a - -(n0 : ℚ) = -(a - n0) by ring, abs_neg]
    rw [key]
    refine ⟨h1, fun h => ?_, DistOf_pyMax h3 hv⟩
    rw [habs]
    have := h2 h
    by_cases hsg : re.sign = 0
    · simp only [hsg, ne_eq, not_true_eq_false, if_false]
      rw [Int.cast_natCast, Nat.abs_cast]; exact this
    · simp only [hsg, ne_eq, not_false_eq_true, if_true]
      rw [Int.cast_neg, abs_neg, Int.cast_natCast, Nat.abs_cast]; exact this

/-! ## C39: mag -/

theorem quot_bounds (A Q : Nat) (hA : A ≠ 0) (hQ : Q ≠ 0) :
    (2:ℚ) ^ ((bitcount A : ℤ) - (bitcount Q : ℤ) - 1) < (A : ℚ) / (Q : ℚ) ∧
    (A : ℚ) / (Q : ℚ) < (2:ℚ) ^ ((bitcount A : ℤ) - (bitcount Q : ℤ) + 1) := by
  have hQpos : (0:ℚ) < (Q : ℚ) := by exact_mod_cast Nat.pos_of_ne_zero hQ
  have hApos : (0:ℚ) < (A : ℚ) := by exact_mod_cast Nat.pos_of_ne_zero hA
  have hA1 := bitcount_lower_q hA
  have hA2 := bitcount_upper_q A
  have hQ1 := bitcount_lower_q hQ
  have hQ2 := bitcount_upper_q Q
  have h2 : (2:ℚ) ≠ 0 := by norm_num
  constructor
  · rw [lt_div_iff₀ hQpos]
    have e1 : (2:ℚ) ^ ((bitcount A : ℤ) - (bitcount Q : ℤ) - 1) * (2:ℚ) ^ (bitcount Q : ℤ)
        = (2:ℚ) ^ ((bitcount A : ℤ) - 1) := by
      rw [← zpow_add₀ h2]; congr 1; ring
    have hp : (0:ℚ) < (2:ℚ) ^ ((bitcount A : ℤ) - (bitcount Q : ℤ) - 1) := zpow_pos (by norm_num) _
    calc (2:ℚ) ^ ((bitcount A : ℤ) - (bitcount Q : ℤ) - 1) * (Q : ℚ)
        < (2:ℚ) ^ ((bitcount A : ℤ) - (bitcount Q : ℤ) - 1) * (2:ℚ) ^ (bitcount Q : ℤ) :=
          mul_lt_mul_of_pos_left hQ2 hp
      _ = (2:ℚ) ^ ((bitcount A : ℤ) - 1) := e1
      _ ≤ A := hA1
  · rw [div_lt_iff₀ hQpos]
    have e1 : (2:ℚ) ^ ((bitcount A : ℤ) - (bitcount Q : ℤ) + 1) * (2:ℚ) ^ ((bitcount Q : ℤ) - 1)
        = (2:ℚ) ^ (bitcount A : ℤ) := by
      rw [← zpow_add₀ h2]; congr 1; ring
    have hp : (0:ℚ) < (2:ℚ) ^ ((bitcount A : ℤ) - (bitcount Q : ℤ) + 1) := zpow_pos (by norm_num) _
    calc (A : ℚ) < (2:ℚ) ^ (bitcount A : ℤ) := hA2
      _ = (2:ℚ) ^ ((bitcount A : ℤ) - (bitcount Q : ℤ) + 1) * (2:ℚ) ^ ((bitcount Q : ℤ) - 1) := e1.symm
      _ ≤ (2:ℚ) ^ ((bitcount A : ℤ) - (bitcount Q : ℤ) + 1) * (Q : ℚ) :=
          mul_le_mul_of_nonneg_left hQ1 hp.le

theorem abs_int_div_nat (p : Int) (q : Nat) : |(p : ℚ) / (q : ℚ)| = (p.natAbs : ℚ) / (q : ℚ) := by
  rw [abs_div, Nat.abs_cast]; congr 1
  rw [← Int.cast_abs, Int.abs_eq_natAbs]; simp

theorem magQ_spec (p : Int) (q : Nat) (hp : p ≠ 0) (hq : 0 < q) :
    ∃ m : ℤ, magQ p q = .int m ∧ (2:ℚ) ^ (m - 2) < |(p : ℚ) / (q : ℚ)| ∧ |(p : ℚ) / (q : ℚ)| < (2:ℚ) ^ m := by
  refine ⟨1 + (bitcount p.natAbs : ℤ) - (bitcount q : ℤ), by simp [magQ, hp], ?_⟩
  rw [abs_int_div_nat]
  have := quot_bounds p.natAbs q (by omega) (by omega)
  constructor
  · convert this.1 using 2; ring
  · convert this.2 using 2; ring

theorem magInt_spec (n : Int) (hn : n ≠ 0) :
    ∃ m : ℤ, magInt n = .int m ∧ (2:ℚ) ^ (m - 1) ≤ |(n : ℚ)| ∧ |(n : ℚ)| < (2:ℚ) ^ m := by
  refine ⟨(bitcount n.natAbs : ℤ), by simp [magInt, hn], ?_⟩
  have : |(n : ℚ)| = (n.natAbs : ℚ) := by
    rw [← Int.cast_abs, Int.abs_eq_natAbs]; simp
  rw [this]
  exact ⟨bitcount_lower_q (by omega), bitcount_upper_q _⟩

theorem magF_spec (x : Mpf) (hm : x.man ≠ 0) (hbc : x.bc = (bitcount x.man : Int)) :
    ∃ m : ℤ, magF x = .int m ∧ (2:ℚ) ^ (m - 1) ≤ |val x| ∧ |val x| < (2:ℚ) ^ m :=
  ⟨x.exp + x.bc, by simp [magF, mpfMag, hm], abs_val_bounds x hm hbc⟩

theorem magC_spec (r i : Mpf) (hr : r.man ≠ 0) (hi : i.man ≠ 0)
    (hrbc : r.bc = (bitcount r.man : Int)) (hibc : i.bc = (bitcount i.man : Int)) :
    ∃ m : ℤ, magC r i = .int m ∧ m = 1 + max (r.exp + r.bc) (i.exp + i.bc) ∧
      ((2:ℚ) ^ (m - 2)) ^ 2 ≤ (val r) ^ 2 + (val i) ^ 2 ∧ (val r) ^ 2 + (val i) ^ 2 < ((2:ℚ) ^ m) ^ 2 := by
  have hrz : r ≠ fzero := by intro h; rw [h] at hr; simp [fzero] at hr
  have hiz : i ≠ fzero := by intro h; rw [h] at hi; simp [fzero] at hi
  obtain ⟨hr1, hr2⟩ := abs_val_bounds r hr hrbc
  obtain ⟨hi1, hi2⟩ := abs_val_bounds i hi hibc
  set mr := r.exp + r.bc with hmr
  set mi := i.exp + i.bc with hmi
  have hmag : magC r i = .int (1 + max mr mi) := by
    unfold magC
    simp only [hrz, hiz, if_false, mpfMag, hr, hi, ne_eq, not_false_eq_true, if_true, MagRes.pyMax,
      MagRes.gt]
    by_cases h : mi > mr
    · simp [h, MagRes.succ, max_eq_right (le_of_lt h), ← hmr, ← hmi]
    · simp [h, MagRes.succ, max_eq_left (not_lt.mp h), ← hmr, ← hmi]
  refine ⟨_, hmag, rfl, ?_⟩
  set M := max mr mi with hM
  have hMr : (2:ℚ) ^ mr ≤ (2:ℚ) ^ M := zpow_le_zpow_right₀ (by norm_num) (le_max_left _ _)
  have hMi : (2:ℚ) ^ mi ≤ (2:ℚ) ^ M := zpow_le_zpow_right₀ (by norm_num) (le_max_right _ _)
  have hP : (0:ℚ) < (2:ℚ) ^ M := zpow_pos (by norm_num) _
  have e1 : (2:ℚ) ^ (1 + M) = 2 * (2:ℚ) ^ M := by
    rw [zpow_add₀ (by norm_num : (2:ℚ) ≠ 0)]; norm_num
  have e2 : (1 + M - 2) = M - 1 := by ring
  have sr : (val r) ^ 2 = |val r| ^ 2 := (sq_abs _).symm
  have si : (val i) ^ 2 = |val i| ^ 2 := (sq_abs _).symm
  have ar := abs_nonneg (val r)
  have ai := abs_nonneg (val i)
  constructor
  · rw [e2, sr, si]
    have hq : (0:ℚ) ≤ (2:ℚ) ^ (M - 1) := (zpow_pos (by norm_num) _).le
    rcases le_total mr mi with h | h
    · have hMe : M = mi := max_eq_right h
      have hi1' : (2:ℚ) ^ (M - 1) ≤ |val i| := by rw [hMe]; exact hi1
      nlinarith [pow_le_pow_left₀ hq hi1' 2, sq_nonneg |val r|]
    · have hMe : M = mr := max_eq_left h
      have hr1' : (2:ℚ) ^ (M - 1) ≤ |val r| := by rw [hMe]; exact hr1
      nlinarith [pow_le_pow_left₀ hq hr1' 2, sq_nonneg |val i|]
  · rw [e1, sr, si]
    have h1 : |val r| < (2:ℚ) ^ M := lt_of_lt_of_le hr2 hMr
    have h2 : |val i| < (2:ℚ) ^ M := lt_of_lt_of_le hi2 hMi
    nlinarith [mul_self_lt_mul_self ar h1, mul_self_lt_mul_self ai h2]

theorem magC_real_axis (r : Mpf) : magC r fzero = magF r := by
  unfold magC magF; split
  · rename_i h; rw [h]
  · simp

theorem magC_imag_axis (i : Mpf) : magC fzero i = magF i := by simp [magC, magF]

/-! ## C39: nint_distance on rationals -/

theorem rat_sub_int (p : Int) (q : Nat) (hq : 0 < q) (n : Int) :
    (p : ℚ) / (q : ℚ) - (n : ℚ) = ((p - n * q : ℤ) : ℚ) / (q : ℚ) := by
  have hq' : (q : ℚ) ≠ 0 := by exact_mod_cast Nat.ne_of_gt hq
  push_cast; field_simp

theorem nintDistQ_spec (p : Int) (q : Nat) (hq : 0 < q) :
    ∃ (n : ℤ) (D : Dist), nintDistQ p q = .ok (n, D) ∧
      |(p : ℚ) / (q : ℚ) - n| ≤ 1 / 2 ∧
      (|(p : ℚ) / (q : ℚ) - n| = 1 / 2 → (p : ℚ) / (q : ℚ) < n) ∧
      (D = .ninf ↔ (p : ℚ) / (q : ℚ) = n) ∧
      ∀ e, D = .fin e → (2:ℚ) ^ (e - 1) < |(p : ℚ) / (q : ℚ) - n| ∧
                        |(p : ℚ) / (q : ℚ) - n| < (2:ℚ) ^ (e + 1) := by
  have hq0 : q ≠ 0 := Nat.ne_of_gt hq
  have hqZ : (0:ℤ) < (q : ℤ) := by exact_mod_cast hq
  have hqQ : (0:ℚ) < (q : ℚ) := by exact_mod_cast hq
  have hdm := Int.emod_add_mul_ediv p (q : ℤ)
  have hr0 := Int.emod_nonneg p (ne_of_gt hqZ)
  have hrq := Int.emod_lt_of_pos p hqZ
  set n0 := p / (q : ℤ) with hn0
  set r := p % (q : ℤ) with hr
  have hqn : (q : ℤ) * n0 = n0 * q := mul_comm _ _
  -- the general shape: distance `|c|/q` with `c = p - n q ≠ 0`
  have fin_case : ∀ (n : ℤ), p - n * q ≠ 0 → 2 * (p - n * (q : ℤ)).natAbs ≤ q →
      |(p : ℚ) / (q : ℚ) - n| ≤ 1 / 2 ∧
      (Dist.fin ((bitcount (p - n * q).natAbs : ℤ) - (bitcount q : ℤ)) = Dist.ninf ↔ (p : ℚ) / (q : ℚ) = n) ∧
      ∀ e, Dist.fin ((bitcount (p - n * q).natAbs : ℤ) - (bitcount q : ℤ)) = Dist.fin e →
        (2:ℚ) ^ (e - 1) < |(p : ℚ) / (q : ℚ) - n| ∧ |(p : ℚ) / (q : ℚ) - n| < (2:ℚ) ^ (e + 1) := by
    intro n hc hhalf
    have hA : (p - n * (q : ℤ)).natAbs ≠ 0 := by omega
    rw [rat_sub_int p q hq n, abs_int_div_nat]
    have hqb := quot_bounds (p - n * (q : ℤ)).natAbs q hA hq0
    refine ⟨?_, ⟨(fun h => by cases h), fun h => ?_⟩, fun e he => ?_⟩
    · rw [div_le_iff₀ hqQ]
      have : (2:ℚ) * ((p - n * (q : ℤ)).natAbs : ℚ) ≤ (q : ℚ) := by exact_mod_cast hhalf
      linarith
    · exfalso
      have h0 := rat_sub_int p q hq n
      rw [h, sub_self] at h0
      have : ((p - n * q : ℤ) : ℚ) = 0 := by
        rcases div_eq_zero_iff.mp h0.symm with h | h
        · exact h
        · exact absurd h hqQ.ne'
      exact hc (by exact_mod_cast this)
    · injection he with he; subst he
      exact hqb
  unfold nintDistQ
  simp only [hq0, if_false]
  split
  · -- round up
    rename_i h2r
    refine ⟨n0 + 1, _, rfl, ?_⟩
    have hc : p - (n0 + 1) * (q : ℤ) = r - q := by rw [← hdm]; ring
    have hcne : p - (n0 + 1) * (q : ℤ) ≠ 0 := by rw [hc]; omega
    have hhalf : 2 * (p - (n0 + 1) * (q : ℤ)).natAbs ≤ q := by rw [hc]; omega
    obtain ⟨f1, f2, f3⟩ := fin_case (n0 + 1) hcne hhalf
    refine ⟨f1, fun _ => ?_, f2, f3⟩
    have := rat_sub_int p q hq (n0 + 1)
    have hneg : ((p - (n0 + 1) * q : ℤ) : ℚ) / (q : ℚ) < 0 := by
      apply div_neg_of_neg_of_pos _ hqQ
      rw [hc]; exact_mod_cast (by omega : r - (q : ℤ) < 0)
    linarith
  · rename_i h2r
    split
    · -- exact integer
      rename_i hr0'
      refine ⟨n0, _, rfl, ?_⟩
      have hx : (p : ℚ) / (q : ℚ) = n0 := by
        rw [div_eq_iff hqQ.ne']
        have : p = n0 * q := by rw [← hdm]; rw [← hr] at hr0'; rw [hr0']; ring
        exact_mod_cast this
      rw [hx, sub_self, abs_zero]
      exact ⟨by norm_num, fun h => by norm_num at h, ⟨fun _ => rfl, fun _ => rfl⟩, fun e he => by cases he⟩
    · -- round down
      rename_i hrne
      refine ⟨n0, _, rfl, ?_⟩
      have hc : p - n0 * (q : ℤ) = r := by rw [← hdm]; ring
      have hcne : p - n0 * (q : ℤ) ≠ 0 := by rw [hc]; exact hrne
      have hhalf : 2 * (p - n0 * (q : ℤ)).natAbs ≤ q := by rw [hc]; omega
      have hhalf' : 2 * (p - n0 * (q : ℤ)).natAbs < q := by rw [hc]; omega
      obtain ⟨f1, f2, f3⟩ := fin_case n0 hcne hhalf
      refine ⟨f1, fun htie => ?_, f2, f3⟩
      exfalso
      rw [rat_sub_int p q hq n0, abs_int_div_nat, div_eq_iff hqQ.ne'] at htie
      have : (2:ℚ) * ((p - n0 * (q : ℤ)).natAbs : ℚ) < (q : ℚ) := by exact_mod_cast hhalf'
      linarith

/-! ## C39: nint_distance on mpc -/

theorem int_eq_of_abs_sub_le_half (k n : ℤ) (h : |(k : ℚ) - n| ≤ 1 / 2) : k = n := by
  have h1 : |((k - n : ℤ) : ℚ)| < 1 := by push_cast; linarith
  have h2 : |k - n| < 1 := by
    have : ((|k - n| : ℤ) : ℚ) < 1 := by rw [Int.cast_abs]; exact h1
    exact_mod_cast this
  have := Int.abs_lt_one_iff.mp h2
  omega

theorem canonFin_zero_iff (x : Mpf) (hc : CanonFin x) : x = fzero ↔ val x = 0 := by
  constructor
  · rintro rfl; simp [val, fzero]
  · intro h
    rcases hc with h0 | ⟨_, hodd, _⟩
    · exact h0
    · exfalso
      have hm : x.man ≠ 0 := by omega
      have : |val x| = 0 := by rw [h, abs_zero]
      rw [abs_val] at this
      have hpos : (0:ℚ) < (x.man : ℚ) * (2:ℚ) ^ x.exp :=
        mul_pos (by exact_mod_cast Nat.pos_of_ne_zero hm) (zpow_pos (by norm_num) _)
      linarith

theorem nintDistCore_zero (D : Dist) : nintDistCore fzero D = .ok (0, D) := by
  simp [nintDistCore, fzero, Dist.pyMax_ninf_left]

/-- unpacking `DistOf` of a maximum of two non-negative numbers -/
theorem DistOf_max_unpack {D : Dist} {u v : ℚ} (hu : 0 ≤ u) (hv : 0 ≤ v) (h : DistOf D (max u v)) :
    (D = .ninf ↔ u = 0 ∧ v = 0) ∧ ∀ e, D = .fin e → (2:ℚ) ^ (e - 1) ≤ max u v ∧ max u v < (2:ℚ) ^ e := by
  refine ⟨?_, h.2⟩
  rw [h.1]
  constructor
  · intro hm
    have h1 := le_max_left u v
    have h2 := le_max_right u v
    exact ⟨le_antisymm (by linarith) hu, le_antisymm (by linarith) hv⟩
  · rintro ⟨rfl, rfl⟩; simp

/-- the imaginary-part distance computed by `nint_distance` describes `|Im|` -/
theorem imDist_spec (im : Mpf) (hc : CanonFin im) :
    ∃ D, (∀ re, nintDistC re im = nintDistCore re D) ∧ DistOf D |val im| := by
  rcases hc with rfl | ⟨_, hodd, hbc⟩
  · refine ⟨.ninf, fun re => by simp [nintDistC, fzero], ?_⟩
    have : val fzero = 0 := by simp [val, fzero]
    rw [this, abs_zero]; exact DistOf_ninf_zero
  · have hm : im.man ≠ 0 := by omega
    refine ⟨.fin (im.exp + im.bc), fun re => by simp [nintDistC, hm], ?_⟩
    have hb := abs_val_bounds im hm hbc
    refine ⟨⟨(fun h => by cases h), fun h => ?_⟩, fun e he => ?_⟩
    · have := lt_of_lt_of_le (zpow_pos (by norm_num : (0:ℚ) < 2) (im.exp + im.bc - 1)) hb.1
      linarith
    · injection he with he; subst he; exact hb

/-- full specification of `nint_distance` on an mpc with canonical finite parts -/
theorem nintDistC_spec (re im : Mpf) (hre : CanonFin re) (him : CanonFin im) :
    ∃ (n : ℤ) (D : Dist), nintDistC re im = .ok (n, D) ∧
      |val re - n| ≤ 1 / 2 ∧ (|val re - n| = 1 / 2 → |val re| < |(n : ℚ)|) ∧
      (D = .ninf ↔ (∃ k : ℤ, val re = k) ∧ val im = 0) ∧
      ∀ e, D = .fin e → (2:ℚ) ^ (e - 1) ≤ max |val re - n| |val im| ∧
                        max |val re - n| |val im| < (2:ℚ) ^ e := by
  obtain ⟨Di, hDi, hDiof⟩ := imDist_spec im him
  have core : ∃ (n : ℤ) (D : Dist), nintDistCore re Di = .ok (n, D) ∧
      |val re - n| ≤ 1 / 2 ∧ (|val re - n| = 1 / 2 → |val re| < |(n : ℚ)|) ∧
      DistOf D (max |val re - n| |val im|) := by
    rcases hre with rfl | ⟨hs, hodd, hbc⟩
    · refine ⟨0, Di, nintDistCore_zero Di, ?_⟩
      have : val fzero = 0 := by simp [val, fzero]
      simp only [this, Int.cast_zero, sub_zero, abs_zero]
      refine ⟨by norm_num, fun h => by norm_num at h, ?_⟩
      rw [max_eq_right (abs_nonneg _)]; exact hDiof
    · exact nintDistCore_spec re hs hodd hbc Di _ hDiof
  obtain ⟨n, D, h1, h2, h3, h4⟩ := core
  obtain ⟨h5, h6⟩ := DistOf_max_unpack (abs_nonneg _) (abs_nonneg _) h4
  refine ⟨n, D, by rw [hDi]; exact h1, h2, h3, ?_, h6⟩
  rw [h5]
  constructor
  · rintro ⟨ha, hb⟩
    exact ⟨⟨n, by linarith [abs_eq_zero.mp ha]⟩, abs_eq_zero.mp hb⟩
  · rintro ⟨⟨k, hk⟩, hb⟩
    refine ⟨?_, by rw [hb, abs_zero]⟩
    have : k = n := int_eq_of_abs_sub_le_half k n (by rw [← hk]; exact h2)
    rw [hk, this, sub_self, abs_zero]

theorem nintDistC_real (x : Mpf) : nintDistC x fzero = nintDistF x := by
  simp [nintDistC, nintDistF, fzero]

end Mp.H
