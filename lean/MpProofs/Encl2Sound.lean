/-
  MpProofs/Encl2Sound.lean — soundness of `MpModel/Encl2.lean`:
  exact root checker, two-argument functions, sinc, and "a point enclosure proves exactness".
-/
import MpModel.Encl2
import MpProofs.EnclSound
import Mathlib.Analysis.SpecialFunctions.Pow.Real
import Mathlib.Analysis.SpecialFunctions.Log.Base
import Mathlib.Analysis.SpecialFunctions.Trigonometric.Sinc

namespace Mp.Encl

theorem Dy.val_pow (x : Dy) (n : ℕ) (hx : 0 ≤ x.m) : (x.pow n).val = x.val ^ n := by
  unfold Dy.pow Dy.val
  have hm : ((x.m.toNat : ℕ) : ℝ) = (x.m : ℝ) := by
    have : ((x.m.toNat : ℕ) : ℤ) = x.m := Int.toNat_of_nonneg hx
    exact_mod_cast congrArg (fun z : ℤ => (z : ℝ)) this
  simp only
  push_cast
  rw [hm, mul_pow, ← zpow_natCast ((2 : ℝ) ^ x.e) n, ← zpow_mul]

/-- the real `n`-th root of a non-negative real -/
noncomputable def nthRoot (n : ℕ) (x : ℝ) : ℝ := x ^ ((n : ℝ)⁻¹)

theorem nthRoot_pow {n : ℕ} (hn : n ≠ 0) {x : ℝ} (hx : 0 ≤ x) : nthRoot n x ^ n = x :=
  Real.rpow_inv_natCast_pow hx hn

theorem nthRoot_nonneg (n : ℕ) {x : ℝ} (hx : 0 ≤ x) : 0 ≤ nthRoot n x := Real.rpow_nonneg hx _

/-- **soundness of the exact root checker** -/
theorem rootCheck_sound (n : ℕ) (x y : Dy) (p k : ℕ) :
    (rootCheck n x y p k = .ok →
      |y.val - nthRoot n x.val| ≤ (2 : ℝ) ^ ((k : ℤ) - (p : ℤ)) * nthRoot n x.val) ∧
    (rootCheck n x y p k = .violates →
      (2 : ℝ) ^ ((k : ℤ) - (p : ℤ)) * nthRoot n x.val < |y.val - nthRoot n x.val|) := by
  unfold rootCheck
  split
  · simp
  · rename_i hc
    simp only [not_or, not_le, not_lt] at hc
    obtain ⟨hn, hx, hy, hkp⟩ := hc
    have hxv : 0 ≤ x.val := (Dy.val_nonneg_iff x).2 hx
    have hyv : 0 ≤ y.val := (Dy.val_nonneg_iff y).2 hy
    set r := nthRoot n x.val with hr
    have hr0 : 0 ≤ r := nthRoot_nonneg n hxv
    have hrn : r ^ n = x.val := nthRoot_pow hn hxv
    set t : Dy := ⟨1, (k : ℤ) - (p : ℤ)⟩ with ht
    have htv : t.val = (2 : ℝ) ^ ((k : ℤ) - (p : ℤ)) := by simp [ht, Dy.val]
    have ht0 : 0 < t.val := by rw [htv]; positivity
    have ht1 : t.val ≤ 1 := by
      rw [htv]; apply zpow_le_one_of_nonpos₀ (by norm_num); omega
    have h1p : 0 ≤ (Dy.one.add t).m := by
      rw [← Dy.val_nonneg_iff, Dy.val_add, Dy.val_one]; linarith
    have h1m : 0 ≤ (Dy.one.sub t).m := by
      rw [← Dy.val_nonneg_iff, Dy.val_sub, Dy.val_one]; linarith
    have eup : (((Dy.one.add t).pow n).mul x).val = ((1 + t.val) * r) ^ n := by
      rw [Dy.val_mul, Dy.val_pow _ _ h1p, Dy.val_add, Dy.val_one, mul_pow, hrn]
    have edn : (((Dy.one.sub t).pow n).mul x).val = ((1 - t.val) * r) ^ n := by
      rw [Dy.val_mul, Dy.val_pow _ _ h1m, Dy.val_sub, Dy.val_one, mul_pow, hrn]
    have eyn : (y.pow n).val = y.val ^ n := Dy.val_pow y n hy
    have hup0 : 0 ≤ (1 + t.val) * r := by positivity
    have hdn0 : 0 ≤ (1 - t.val) * r := mul_nonneg (by linarith) hr0
    simp only
    rw [← htv]
    constructor
    · intro h
      split at h
      · rename_i hc
        rw [Bool.and_eq_true, Dy.le_iff, Dy.le_iff, eup, edn, eyn,
          pow_le_pow_iff_left₀ hdn0 hyv hn, pow_le_pow_iff_left₀ hyv hup0 hn] at hc
        rw [abs_le]; constructor <;> nlinarith [hc.1, hc.2]
      · split at h <;> simp at h
    · intro h
      split at h
      · simp at h
      · split at h
        · rename_i hc
          rw [Bool.or_eq_true, Dy.lt_iff, Dy.lt_iff, eup, edn, eyn,
            pow_lt_pow_iff_left₀ hyv hdn0 hn, pow_lt_pow_iff_left₀ hup0 hyv hn] at hc
          rcases hc with hc | hc
          · rw [abs_sub_comm, abs_of_nonneg (by nlinarith)]; nlinarith
          · rw [abs_of_nonneg (by nlinarith)]; nlinarith
        · simp at h

/-- **soundness of the exact perfect-power test**: `y ≥ 0`, `x ≥ 0` and `y^n = x` as real numbers -/
theorem rootExact_check_sound (n : ℕ) (x y : Dy) (h : rootExact n x y = true) :
    0 ≤ y.val ∧ 0 ≤ x.val ∧ y.val ^ n = x.val := by
  unfold rootExact at h
  simp only [Bool.and_eq_true, decide_eq_true_eq] at h
  obtain ⟨⟨hy, hx⟩, he⟩ := h
  rw [Dy.eqv_iff, Dy.val_pow y n hy] at he
  exact ⟨(Dy.val_nonneg_iff y).2 hy, (Dy.val_nonneg_iff x).2 hx, he⟩

/-- … hence `y` is the real `n`-th root of `x` -/
theorem rootExact_is_root (n : ℕ) (hn : n ≠ 0) (x y : Dy) (h : rootExact n x y = true) :
    y.val = nthRoot n x.val := by
  obtain ⟨hy, hx, he⟩ := rootExact_check_sound n x y h
  have h2 : y.val ^ n = nthRoot n x.val ^ n := by rw [he, nthRoot_pow hn hx]
  exact (pow_left_inj₀ hy (nthRoot_nonneg n hx) hn).1 h2

/-- the real function of a `Fun2` -/
noncomputable def Fun2.sem : Fun2 → ℝ → ℝ → ℝ
  | .pow, x, y => x ^ y
  | .powm1, x, y => x ^ y - 1
  | .hypot, x, y => Real.sqrt (x ^ 2 + y ^ 2)
  | .logb, x, b => Real.logb b x

def Fun2.dom : Fun2 → ℝ → ℝ → Prop
  | .pow, x, _ => 0 < x
  | .powm1, x, _ => 0 < x
  | .hypot, _, _ => True
  | .logb, x, b => 0 < x ∧ 0 < b ∧ b ≠ 1

theorem eval2_sound (f : Fun2) (wp : ℕ) (x y : Dy) (F : DI) (h : eval2 f wp x y = some F) :
    F.Mem (f.sem x.val y.val) ∧ f.dom x.val y.val := by
  have hX := DI.mem_point x
  have hY := DI.mem_point y
  cases f <;> simp only [eval2, Fun2.sem, Fun2.dom] at h ⊢
  case pow =>
    rw [Option.map_eq_some_iff] at h
    obtain ⟨L, hL, rfl⟩ := h
    obtain ⟨hl, hx0⟩ := logI_mem hL hX
    rw [Real.rpow_def_of_pos hx0]
    exact ⟨DI.mem_round (expI_mem _ (DI.mem_round (DI.mem_mul hl hY) _)) wp, hx0⟩
  case powm1 =>
    rw [Option.map_eq_some_iff] at h
    obtain ⟨L, hL, rfl⟩ := h
    obtain ⟨hl, hx0⟩ := logI_mem hL hX
    rw [Real.rpow_def_of_pos hx0]
    exact ⟨DI.mem_round (DI.mem_sub (expI_mem _ (DI.mem_round (DI.mem_mul hl hY) _)) DI.mem_one) wp, hx0⟩
  case hypot =>
    simp only [Option.some.injEq] at h; subst h
    rw [sq, sq]
    exact ⟨DI.mem_round (sqrtI_sound _ _ _ (DI.mem_add (DI.mem_mul hX hX) (DI.mem_mul hY hY))) wp, trivial⟩
  case logb =>
    split at h
    · rename_i a b ha hb
      rw [Option.map_eq_some_iff] at h
      obtain ⟨Q, hQ, rfl⟩ := h
      obtain ⟨hla, hx0⟩ := logI_mem ha hX
      obtain ⟨hlb, hb0⟩ := logI_mem hb hY
      obtain ⟨hq, hne⟩ := DI.mem_divI _ hla hlb hQ
      rw [← Real.log_div_log]
      refine ⟨DI.mem_round hq wp, hx0, hb0, ?_⟩
      intro h1; rw [h1, Real.log_one] at hne; exact hne rfl
    · simp at h

theorem sincPoint_sound (wp : ℕ) (x : Dy) (F : DI) (h : sincPoint wp x = some F) :
    F.Mem (Real.sinc x.val) := by
  unfold sincPoint at h
  split at h
  · rename_i h0
    simp only [Option.some.injEq] at h; subst h
    have : x.val = 0 := by simp [Dy.val, h0]
    rw [this, Real.sinc_zero]; exact DI.mem_one
  · rename_i h0
    rw [Option.map_eq_some_iff] at h
    obtain ⟨Q, hQ, rfl⟩ := h
    have hX := DI.mem_point x
    obtain ⟨hq, hne⟩ := DI.mem_divI _ (sinI_sound _ _ _ hX.1 hX.2) hX hQ
    rw [Real.sinc_of_ne_zero hne]
    exact DI.mem_round hq wp

theorem accLoopG_sound (ev : ℕ → Option DI) (v : ℝ) (hev : ∀ wp F, ev wp = some F → F.Mem v)
    (y t : Dy) (ht : 0 ≤ t.val) (ws : List ℕ) :
    (accLoopG ev y t ws = .ok → |y.val - v| ≤ t.val * |v|) ∧
    (accLoopG ev y t ws = .violates → t.val * |v| < |y.val - v|) := by
  induction ws with
  | nil => simp [accLoopG]
  | cons wp ws ih =>
    unfold accLoopG
    cases hF : ev wp with
    | none => simp
    | some F =>
      have hv := hev wp F hF
      simp only
      cases hd : decide1 F y t with
      | ok => simp only [true_implies, reduceCtorEq, false_implies, and_true]
              exact decide1_ok F y t _ ht hv hd
      | violates => simp only [true_implies, reduceCtorEq, false_implies, true_and]
                    exact decide1_violates F y t _ ht hv hd
      | undecided => exact ih

theorem accLoopG_dom (ev : ℕ → Option DI) (P : Prop) (hev : ∀ wp F, ev wp = some F → P)
    (y t : Dy) (ws : List ℕ) (h : accLoopG ev y t ws ≠ .undecided) : P := by
  induction ws with
  | nil => simp [accLoopG] at h
  | cons wp ws ih =>
    unfold accLoopG at h
    cases hF : ev wp with
    | none => rw [hF] at h; simp at h
    | some F => exact hev wp F hF

theorem accCheck2_sound (f : Fun2) (x y z : Dy) (p k : ℕ) :
    (accCheck2 f x y z p k = .ok →
      |z.val - f.sem x.val y.val| ≤ (2 : ℝ) ^ ((k : ℤ) - (p : ℤ)) * |f.sem x.val y.val|) ∧
    (accCheck2 f x y z p k = .violates →
      (2 : ℝ) ^ ((k : ℤ) - (p : ℤ)) * |f.sem x.val y.val| < |z.val - f.sem x.val y.val|) ∧
    (accCheck2 f x y z p k ≠ .undecided → f.dom x.val y.val) := by
  unfold accCheck2
  have h := accLoopG_sound (fun wp => eval2 f wp x y) (f.sem x.val y.val)
    (fun wp F hF => (eval2_sound f wp x y F hF).1) z ⟨1, (k : ℤ) - (p : ℤ)⟩
    (by rw [val_two_zpow]; positivity) (accWps p)
  rw [val_two_zpow] at h
  exact ⟨h.1, h.2, accLoopG_dom _ _ (fun wp F hF => (eval2_sound f wp x y F hF).2) _ _ _⟩

theorem accCheckSinc_sound (x y : Dy) (p k : ℕ) :
    (accCheckSinc x y p k = .ok →
      |y.val - Real.sinc x.val| ≤ (2 : ℝ) ^ ((k : ℤ) - (p : ℤ)) * |Real.sinc x.val|) ∧
    (accCheckSinc x y p k = .violates →
      (2 : ℝ) ^ ((k : ℤ) - (p : ℤ)) * |Real.sinc x.val| < |y.val - Real.sinc x.val|) := by
  unfold accCheckSinc
  have h := accLoopG_sound (fun wp => sincPoint wp x) (Real.sinc x.val)
    (fun wp F hF => sincPoint_sound wp x F hF) y ⟨1, (k : ℤ) - (p : ℤ)⟩
    (by rw [val_two_zpow]; positivity) (accWps p)
  rw [val_two_zpow] at h
  exact h

/-- **a point enclosure proves exactness**: if the evaluator returns `[v, v]` then `f(x) = v` -/
theorem exact_of_point_enclosure (f : FunId) (wp : ℕ) (x : Dy) (F : DI) (h : evalPoint f wp x = some F)
    (hp : F.lo.val = F.hi.val) : f.sem x.val = F.lo.val := by
  obtain ⟨h1, h2⟩ := evalPoint_sound f wp x F h
  rw [← hp] at h2
  exact le_antisymm h2 h1

end Mp.Encl
