/-
  MpProofs/CalcRef.lean — semantics of reference expressions and soundness of the closeness checker.
    Ref.sem               the real number denoted by a `Ref`
    Ref.eval_sound        every enclosure returned by `Ref.eval` contains `Ref.sem`
    checkCloseTo_sound_ok / _violates, checkClose_sound_ok / _violates
-/
import MpModel.CalcRef
import MpProofs.EnclSound
import Mathlib.Data.Rat.Cast.Order
import Mathlib.Data.Real.Basic

namespace Mp.Calc
open Mp.Encl

/-- the real number denoted by a reference expression -/
noncomputable def Ref.sem : Ref → ℝ
  | .rat q => (q : ℝ)
  | .pi => Real.pi
  | .add a b => a.sem + b.sem
  | .mul a b => a.sem * b.sem
  | .neg a => -a.sem
  | .inv a => (a.sem)⁻¹
  | .pow a n => a.sem ^ n
  | .sqrt a => Real.sqrt a.sem
  | .exp a => Real.exp a.sem
  | .log a => Real.log a.sem
  | .sin a => Real.sin a.sem
  | .cos a => Real.cos a.sem
  | .atan a => Real.arctan a.sem

@[simp] theorem Ref.sem_sub (a b : Ref) : (Ref.sub a b).sem = a.sem - b.sem := by
  simp [Ref.sub, Ref.sem, sub_eq_add_neg]
@[simp] theorem Ref.sem_div (a b : Ref) : (Ref.div a b).sem = a.sem / b.sem := by
  simp [Ref.div, Ref.sem, div_eq_mul_inv]
@[simp] theorem Ref.sem_sum (l : List Ref) : (Ref.sum l).sem = (l.map Ref.sem).sum := by
  induction l with
  | nil => simp [Ref.sum, Ref.sem]
  | cons r rs ih => simp [Ref.sum, Ref.sem, ih]
@[simp] theorem Ref.sem_prod (l : List Ref) : (Ref.prod l).sem = (l.map Ref.sem).prod := by
  induction l with
  | nil => simp [Ref.prod, Ref.sem]
  | cons r rs ih => simp [Ref.prod, Ref.sem, ih]

theorem ratI_mem (wp : ℕ) (q : ℚ) : (ratI wp q).Mem (q : ℝ) := by
  unfold ratI
  have hq : (q : ℝ) = (q.num : ℝ) / (q.den : ℝ) := by
    conv_lhs => rw [← Rat.num_div_den q]
    push_cast; rfl
  split
  · rename_i h
    rw [hq, h]; simpa using DI.mem_ofInt q.num
  · rw [hq]
    have h1 := DI.mem_ofInt q.num
    have h2 := DI.mem_ofInt (q.den : ℤ)
    have hpos : 0 < (DI.ofInt (q.den : ℤ)).lo.m := by
      simp only [DI.ofInt, DI.point, Dy.ofInt]
      exact_mod_cast q.den_pos
    have := DI.mem_divPos wp h1 h2 hpos
    simpa using this

theorem powI_mem (wp : ℕ) {X : DI} {x : ℝ} (hx : X.Mem x) (n : ℕ) : (powI wp X n).Mem (x ^ n) := by
  induction n with
  | zero => simpa [powI] using DI.mem_one
  | succ n ih =>
    simp only [powI, pow_succ]
    exact DI.mem_round (DI.mem_mul ih hx) wp

/-- every enclosure returned by the evaluator contains the exact real value -/
theorem Ref.eval_sound (wp : ℕ) (r : Ref) : ∀ F, r.eval wp = some F → F.Mem r.sem := by
  induction r with
  | rat q => intro F h; simp only [Ref.eval, Option.some.injEq] at h; subst h; exact ratI_mem wp q
  | pi => intro F h; simp only [Ref.eval, Option.some.injEq] at h; subst h; exact piI_mem wp
  | add a b iha ihb =>
    intro F h
    simp only [Ref.eval, Option.bind_eq_bind, Option.pure_def] at h
    cases ha : a.eval wp with
    | none => simp [ha] at h
    | some A =>
      cases hb : b.eval wp with
      | none => simp [ha, hb] at h
      | some B =>
        simp only [ha, hb, Option.bind_some, Option.some.injEq] at h; subst h
        exact DI.mem_round (DI.mem_add (iha A ha) (ihb B hb)) wp
  | mul a b iha ihb =>
    intro F h
    simp only [Ref.eval, Option.bind_eq_bind, Option.pure_def] at h
    cases ha : a.eval wp with
    | none => simp [ha] at h
    | some A =>
      cases hb : b.eval wp with
      | none => simp [ha, hb] at h
      | some B =>
        simp only [ha, hb, Option.bind_some, Option.some.injEq] at h; subst h
        exact DI.mem_round (DI.mem_mul (iha A ha) (ihb B hb)) wp
  | neg a iha =>
    intro F h
    simp only [Ref.eval, Option.bind_eq_bind, Option.pure_def] at h
    cases ha : a.eval wp with
    | none => simp [ha] at h
    | some A =>
      simp only [ha, Option.bind_some, Option.some.injEq] at h; subst h
      exact DI.mem_neg (iha A ha)
  | inv a iha =>
    intro F h
    simp only [Ref.eval, Option.bind_eq_bind] at h
    cases ha : a.eval wp with
    | none => simp [ha] at h
    | some A =>
      simp only [ha, Option.bind_some] at h
      have := (DI.mem_divI wp DI.mem_one (iha A ha) h).1
      simpa [Ref.sem, one_div] using this
  | pow a n iha =>
    intro F h
    simp only [Ref.eval, Option.bind_eq_bind, Option.pure_def] at h
    cases ha : a.eval wp with
    | none => simp [ha] at h
    | some A =>
      simp only [ha, Option.bind_some, Option.some.injEq] at h; subst h
      exact powI_mem wp (iha A ha) n
  | sqrt a iha =>
    intro F h
    simp only [Ref.eval, Option.bind_eq_bind, Option.pure_def] at h
    cases ha : a.eval wp with
    | none => simp [ha] at h
    | some A =>
      simp only [ha, Option.bind_some, Option.some.injEq] at h; subst h
      exact DI.mem_round (sqrtI_sound _ _ _ (iha A ha)) wp
  | exp a iha =>
    intro F h
    simp only [Ref.eval, Option.bind_eq_bind, Option.pure_def] at h
    cases ha : a.eval wp with
    | none => simp [ha] at h
    | some A =>
      simp only [ha, Option.bind_some, Option.some.injEq] at h; subst h
      exact expI_mem wp (iha A ha)
  | log a iha =>
    intro F h
    simp only [Ref.eval, Option.bind_eq_bind] at h
    cases ha : a.eval wp with
    | none => simp [ha] at h
    | some A =>
      simp only [ha, Option.bind_some] at h
      exact (logI_mem h (iha A ha)).1
  | sin a iha =>
    intro F h
    simp only [Ref.eval, Option.bind_eq_bind, Option.pure_def] at h
    cases ha : a.eval wp with
    | none => simp [ha] at h
    | some A =>
      simp only [ha, Option.bind_some, Option.some.injEq] at h; subst h
      exact sinI_sound wp _ _ (iha A ha).1 (iha A ha).2
  | cos a iha =>
    intro F h
    simp only [Ref.eval, Option.bind_eq_bind, Option.pure_def] at h
    cases ha : a.eval wp with
    | none => simp [ha] at h
    | some A =>
      simp only [ha, Option.bind_some, Option.some.injEq] at h; subst h
      exact cosI_sound wp _ _ (iha A ha).1 (iha A ha).2
  | atan a iha =>
    intro F h
    simp only [Ref.eval, Option.bind_eq_bind, Option.pure_def] at h
    cases ha : a.eval wp with
    | none => simp [ha] at h
    | some A =>
      simp only [ha, Option.bind_some, Option.some.injEq] at h; subst h
      exact atanI_mem wp (iha A ha)

private theorem mig_max_le {W S : DI} {w s : ℝ} (hw : W.Mem w) (hs : S.Mem s) :
    (W.mig.max S.lo).val ≤ max |w| s := by
  rw [Dy.val_max]
  exact max_le_max (DI.mig_le_abs hw) hs.1

private theorem le_mag_max {W S : DI} {w s : ℝ} (hw : W.Mem w) (hs : S.Mem s) :
    max |w| s ≤ (W.mag.max S.hi).val := by
  rw [Dy.val_max]
  exact max_le_max (DI.abs_le_mag hw) hs.2

private theorem memE {F : DI} {y : Dy} {v : ℝ} (hv : F.Mem v) :
    (DI.mk (y.sub F.hi) (y.sub F.lo)).Mem (y.val - v) := by
  constructor <;> simp only [Dy.val_sub] <;> linarith [hv.1, hv.2]

theorem decideClose_ok (F W S : DI) (y t : Dy) (strict : Bool) (v w s : ℝ) (ht : 0 ≤ t.val)
    (hv : F.Mem v) (hw : W.Mem w) (hs : S.Mem s) (h : decideClose F W S y t strict = .ok) :
    (strict = false → |y.val - v| ≤ t.val * max |w| s) ∧
    (strict = true → |y.val - v| < t.val * max |w| s) := by
  unfold decideClose at h
  simp only at h
  have hE := memE (y := y) hv
  have hlo := mul_le_mul_of_nonneg_left (mig_max_le hw hs) ht
  cases strict with
  | true =>
    simp only [if_true] at h
    refine ⟨by simp, fun _ => ?_⟩
    split at h
    · rename_i hc
      rw [Dy.lt_iff, Dy.val_mul] at hc
      exact lt_of_le_of_lt (DI.abs_le_mag hE) (lt_of_lt_of_le hc hlo)
    · split at h <;> simp at h
  | false =>
    simp only [Bool.false_eq_true, if_false] at h
    refine ⟨fun _ => ?_, by simp⟩
    split at h
    · rename_i hc
      rw [Dy.le_iff, Dy.val_mul] at hc
      exact le_trans (DI.abs_le_mag hE) (le_trans hc hlo)
    · split at h <;> simp at h

theorem decideClose_violates (F W S : DI) (y t : Dy) (strict : Bool) (v w s : ℝ) (ht : 0 ≤ t.val)
    (hv : F.Mem v) (hw : W.Mem w) (hs : S.Mem s) (h : decideClose F W S y t strict = .violates) :
    (strict = false → t.val * max |w| s < |y.val - v|) ∧
    (strict = true → t.val * max |w| s ≤ |y.val - v|) := by
  unfold decideClose at h
  simp only at h
  have hE := memE (y := y) hv
  have hhi := mul_le_mul_of_nonneg_left (le_mag_max hw hs) ht
  cases strict with
  | true =>
    simp only [if_true] at h
    refine ⟨by simp, fun _ => ?_⟩
    split at h
    · simp at h
    · split at h
      · rename_i hc
        rw [Dy.le_iff, Dy.val_mul] at hc
        exact le_trans hhi (le_trans hc (DI.mig_le_abs hE))
      · simp at h
  | false =>
    simp only [Bool.false_eq_true, if_false] at h
    refine ⟨fun _ => ?_, by simp⟩
    split at h
    · simp at h
    · split at h
      · rename_i hc
        rw [Dy.lt_iff, Dy.val_mul] at hc
        exact lt_of_le_of_lt hhi (lt_of_lt_of_le hc (DI.mig_le_abs hE))
      · simp at h

theorem closeLoopTo_sound (r sc : Ref) (fl : ℚ) (y t : Dy) (strict : Bool) (ht : 0 ≤ t.val) (ws : List ℕ) :
    (closeLoopTo r sc fl y t strict ws = .ok →
      (strict = false → |y.val - r.sem| ≤ t.val * max |sc.sem| (fl : ℝ)) ∧
      (strict = true → |y.val - r.sem| < t.val * max |sc.sem| (fl : ℝ))) ∧
    (closeLoopTo r sc fl y t strict ws = .violates →
      (strict = false → t.val * max |sc.sem| (fl : ℝ) < |y.val - r.sem|) ∧
      (strict = true → t.val * max |sc.sem| (fl : ℝ) ≤ |y.val - r.sem|)) := by
  induction ws with
  | nil => simp [closeLoopTo]
  | cons wp ws ih =>
    unfold closeLoopTo
    cases hF : r.eval wp with
    | none => simpa using ih
    | some F =>
      cases hW : sc.eval wp with
      | none => simpa using ih
      | some W =>
        have hv := Ref.eval_sound wp r F hF
        have hw := Ref.eval_sound wp sc W hW
        have hs := ratI_mem wp fl
        simp only
        cases hd : decideClose F W (ratI wp fl) y t strict with
        | ok =>
          simp only [true_implies, reduceCtorEq, false_implies, and_true]
          exact decideClose_ok F W _ y t strict _ _ _ ht hv hw hs hd
        | violates =>
          simp only [true_implies, reduceCtorEq, false_implies, true_and]
          exact decideClose_violates F W _ y t strict _ _ _ ht hv hw hs hd
        | undecided => exact ih

/-- tolerance `2^(k−p)` -/
noncomputable def tol (p k : ℕ) : ℝ := (2 : ℝ) ^ ((k : ℤ) - (p : ℤ))

theorem tol_pos (p k : ℕ) : 0 < tol p k := by unfold tol; positivity

theorem checkCloseTo_sound_ok (r sc : Ref) (y : Dy) (p k : ℕ) (fl : ℚ) (strict : Bool)
    (h : checkCloseTo r sc y p k fl strict = .ok) :
    (strict = false → |y.val - r.sem| ≤ tol p k * max |sc.sem| (fl : ℝ)) ∧
    (strict = true → |y.val - r.sem| < tol p k * max |sc.sem| (fl : ℝ)) := by
  unfold checkCloseTo at h
  have := (closeLoopTo_sound r sc fl y ⟨1, (k : ℤ) - (p : ℤ)⟩ strict
    (by rw [val_two_zpow]; positivity) _).1 h
  rwa [val_two_zpow] at this

theorem checkCloseTo_sound_violates (r sc : Ref) (y : Dy) (p k : ℕ) (fl : ℚ) (strict : Bool)
    (h : checkCloseTo r sc y p k fl strict = .violates) :
    (strict = false → tol p k * max |sc.sem| (fl : ℝ) < |y.val - r.sem|) ∧
    (strict = true → tol p k * max |sc.sem| (fl : ℝ) ≤ |y.val - r.sem|) := by
  unfold checkCloseTo at h
  have := (closeLoopTo_sound r sc fl y ⟨1, (k : ℤ) - (p : ℤ)⟩ strict
    (by rw [val_two_zpow]; positivity) _).2 h
  rwa [val_two_zpow] at this

/-- verdict `ok` of `checkClose` ⇒ `|y − v| ≤ 2^(k−p)·max(|v|, fl)` (strict: `<`) over ℝ -/
theorem checkClose_sound_ok (r : Ref) (y : Dy) (p k : ℕ) (fl : ℚ) (strict : Bool)
    (h : checkClose r y p k fl strict = .ok) :
    (strict = false → |y.val - r.sem| ≤ tol p k * max |r.sem| (fl : ℝ)) ∧
    (strict = true → |y.val - r.sem| < tol p k * max |r.sem| (fl : ℝ)) :=
  checkCloseTo_sound_ok r r y p k fl strict h

/-- verdict `violates` of `checkClose` ⇒ the negation of the inequality over ℝ -/
theorem checkClose_sound_violates (r : Ref) (y : Dy) (p k : ℕ) (fl : ℚ) (strict : Bool)
    (h : checkClose r y p k fl strict = .violates) :
    (strict = false → tol p k * max |r.sem| (fl : ℝ) < |y.val - r.sem|) ∧
    (strict = true → tol p k * max |r.sem| (fl : ℝ) ≤ |y.val - r.sem|) :=
  checkCloseTo_sound_violates r r y p k fl strict h

end Mp.Calc
