/-
  MpProofs/CalcLogicB.lean — theorems about `MpModel/CalcLogicB.lean`:
  the `odefun` segment store (`get_series`) and the `QuadratureRule.summation` accumulation loop.

  The quadrature theorems are about the import-free model `Mp.Calc.quadSum` itself, instantiated at an
  arbitrary Mathlib `AddCommGroup V` (whose `Add`/`Zero` are the core classes the model is generic over).
-/
import MpModel.CalcLogicB
import Mathlib.Order.Monotone.Basic
import Mathlib.Order.Nat
import Mathlib.Algebra.Group.Basic
import Mathlib.Algebra.Group.Int.Defs
import Mathlib.Algebra.Order.Ring.Int
import Mathlib.Tactic.Abel

namespace Mp
namespace Calc

/-! ## Python `bisect` -/

section Bisect
variable {X : Type} [LinearOrder X]

/-- Loop invariant of `bisect_right` on a sorted list: if everything left of `lo` is `≤ x` and everything
from `hi` on is `> x`, then the returned index `r` splits the whole list that way. -/
theorem bisectLoop_spec (a : List X)
    (hs : ∀ i j (_ : i ≤ j) (hj : j < a.length), a[i]'(by omega) ≤ a[j]) (x : X) :
    ∀ fuel lo hi, hi ≤ a.length → lo ≤ hi → hi - lo ≤ fuel →
      (∀ i (h : i < a.length), i < lo → a[i] ≤ x) →
      (∀ i (h : i < a.length), hi ≤ i → x < a[i]) →
      lo ≤ bisectLoop a x fuel lo hi ∧ bisectLoop a x fuel lo hi ≤ hi ∧
      (∀ i (h : i < a.length), i < bisectLoop a x fuel lo hi → a[i] ≤ x) ∧
      (∀ i (h : i < a.length), bisectLoop a x fuel lo hi ≤ i → x < a[i]) := by
  intro fuel
  induction fuel with
  | zero =>
    intro lo hi _ hlh hf hL hR
    have : lo = hi := by omega
    subst this
    simp only [bisectLoop]
    exact ⟨le_refl _, le_refl _, hL, hR⟩
  | succ fuel ih =>
    intro lo hi hhi hlh hf hL hR
    unfold bisectLoop
    by_cases hlt : lo < hi
    · have hmid1 : lo ≤ (lo + hi) / 2 := by omega
      have hmid2 : (lo + hi) / 2 < hi := by omega
      have hmidlen : (lo + hi) / 2 < a.length := by omega
      simp only [hlt, if_true, List.getElem?_eq_getElem hmidlen]
      by_cases hxv : x < a[(lo + hi) / 2]
      · simp only [hxv, if_true]
        have := ih lo ((lo + hi) / 2) (by omega) hmid1 (by omega) hL
          (fun i h hi' => lt_of_lt_of_le hxv (hs _ _ hi' h))
        exact ⟨this.1, by omega, this.2.2.1, this.2.2.2⟩
      · simp only [hxv, if_false]
        have := ih ((lo + hi) / 2 + 1) hi hhi (by omega) (by omega)
          (fun i h hi' => le_trans (hs i _ (by omega) hmidlen) (not_lt.mp hxv)) hR
        exact ⟨by omega, this.2.1, this.2.2.1, this.2.2.2⟩
    · have : lo = hi := by omega
      subst this
      simp only [hlt, if_false]
      exact ⟨le_refl _, le_refl _, hL, hR⟩

/-- `bisect(a, x)` on a sorted list is the split index `r`: `a[i] ≤ x` for `i < r`, `x < a[i]` for `i ≥ r`
(hence `r` = number of elements `≤ x`). -/
theorem bisectRight_spec (a : List X)
    (hs : ∀ i j (_ : i ≤ j) (hj : j < a.length), a[i]'(by omega) ≤ a[j]) (x : X) :
    bisectRight a x ≤ a.length ∧
    (∀ i (h : i < a.length), i < bisectRight a x → a[i] ≤ x) ∧
    (∀ i (h : i < a.length), bisectRight a x ≤ i → x < a[i]) := by
  have := bisectLoop_spec a hs x a.length 0 a.length (le_refl _) (Nat.zero_le _) (by omega)
    (fun i _ hi => absurd hi (Nat.not_lt_zero _)) (fun i h hi => absurd h (by omega))
  exact ⟨this.2.1, this.2.2.1, this.2.2.2⟩

end Bisect

/-! ## The canonical segment sequence -/

section Store
variable {S X Y : Type} (step : X → Y → S × X) (endval : S → X → X → Y) (x0 : X) (y0 : Y)

/-- The canonical infinite segment sequence determined by `(step, endval, x0, y0)` alone:
`seg 0 = (ser₀, x0, xb₀)` with `(ser₀, xb₀) = step x0 y0`, and `seg (k+1)` is the segment computed from
`seg k` by one pass of the `while` body (`xa_{k+1} = xb_k`, started at `endval ser_k xa_k xb_k`). -/
def seg : Nat → Seg S X
  | 0 => ((step x0 y0).1, x0, (step x0 y0).2)
  | k + 1 => nextSeg step endval (seg k)

/-- The canonical boundary sequence `x0, xb₀, xb₁, …`. -/
def bd : Nat → X
  | 0 => x0
  | k + 1 => (seg step endval x0 y0 k).2.2

/-- The store holding exactly the first `m` canonical segments:
`data = [seg 0, …, seg (m-1)]`, `boundaries = [x0, xb₀, …, xb_{m-1}]`. -/
def prefixStore (m : Nat) : Store S X :=
  { boundaries := (List.range (m + 1)).map (bd step endval x0 y0),
    data := (List.range m).map (seg step endval x0 y0) }

/-- Progress hypothesis: every canonical segment has `xa_k < xb_k`. -/
def Progress [LT X] : Prop := ∀ k, (seg step endval x0 y0 k).2.1 < (seg step endval x0 y0 k).2.2

theorem seg_xa (k : Nat) : (seg step endval x0 y0 k).2.1 = bd step endval x0 y0 k := by
  cases k <;> rfl

theorem seg_xb (k : Nat) : (seg step endval x0 y0 k).2.2 = bd step endval x0 y0 (k + 1) := rfl

theorem init_eq_prefixStore : init step x0 y0 = prefixStore step endval x0 y0 1 := by
  simp [init, prefixStore, List.range_succ, seg, bd]

theorem prefixStore_succ (m : Nat) :
    ({ boundaries := (prefixStore step endval x0 y0 m).boundaries ++ [bd step endval x0 y0 (m + 1)],
       data := (prefixStore step endval x0 y0 m).data ++ [seg step endval x0 y0 m] } : Store S X)
      = prefixStore step endval x0 y0 (m + 1) := by
  simp [prefixStore, List.range_succ]

theorem prefixStore_data_getLast (n : Nat) :
    (prefixStore step endval x0 y0 (n + 1)).data.getLast? = some (seg step endval x0 y0 n) := by
  simp [prefixStore, List.range_succ]

theorem prefixStore_boundaries_getLast (m : Nat) :
    (prefixStore step endval x0 y0 m).boundaries.getLast? = some (bd step endval x0 y0 m) := by
  simp [prefixStore, List.range_succ]

theorem prefixStore_injective {m m' : Nat}
    (h : prefixStore step endval x0 y0 m = prefixStore step endval x0 y0 m') : m = m' := by
  have := congrArg (fun s => s.data.length) h
  simpa [prefixStore] using this

variable [LinearOrder X]

/-- One unfolding of the `while` loop on a prefix store. -/
theorem extend_prefix_step (fuel n : Nat) (x : X) :
    extend step endval (fuel + 1) (prefixStore step endval x0 y0 (n + 1)) x =
      if x ≤ bd step endval x0 y0 (n + 2) then
        .ok (prefixStore step endval x0 y0 (n + 2), seg step endval x0 y0 (n + 1))
      else extend step endval fuel (prefixStore step endval x0 y0 (n + 2)) x := by
  rw [extend, prefixStore_data_getLast]
  have h1 : nextSeg step endval (seg step endval x0 y0 n) = seg step endval x0 y0 (n + 1) := rfl
  simp only [h1, seg_xb]
  rw [prefixStore_succ]

/-- If the `while` loop returns on the `m`-prefix, it stopped at the LEAST `m' > m` with `x ≤ xb_{m'-1}`,
the store is the `m'`-prefix and the answer is `seg (m'-1)`. -/
theorem extend_prefix_inv : ∀ (fuel m : Nat) (x : X) (r : Store S X × Seg S X), 1 ≤ m →
    extend step endval fuel (prefixStore step endval x0 y0 m) x = .ok r →
    ∃ m', m < m' ∧ m' ≤ m + fuel ∧
      r = (prefixStore step endval x0 y0 m', seg step endval x0 y0 (m' - 1)) ∧
      x ≤ bd step endval x0 y0 m' ∧ ∀ j, m < j → j < m' → bd step endval x0 y0 j < x := by
  intro fuel
  induction fuel with
  | zero => intro m x r _ h; simp [extend] at h
  | succ fuel ih =>
    intro m x r hm h
    obtain ⟨n, rfl⟩ : ∃ n, m = n + 1 := ⟨m - 1, by omega⟩
    rw [extend_prefix_step] at h
    by_cases hx : x ≤ bd step endval x0 y0 (n + 2)
    · rw [if_pos hx] at h
      refine ⟨n + 2, by omega, by omega, ?_, hx, fun j h1 h2 => by omega⟩
      injection h with h
      exact h.symm
    · rw [if_neg hx] at h
      obtain ⟨m', h1, h2, h3, h4, h5⟩ := ih (n + 2) x r (by omega) h
      refine ⟨m', by omega, by omega, h3, h4, fun j hj1 hj2 => ?_⟩
      by_cases hj : j = n + 2
      · subst hj; exact not_le.mp hx
      · exact h5 j (by omega) hj2

/-- The `while` loop on the `m`-prefix, given the least `m' > m` with `x ≤ xb_{m'-1}`: with at least
`m' - m` fuel it returns the `m'`-prefix and `seg (m'-1)`. -/
theorem extend_prefix_ok : ∀ (fuel m m' : Nat) (x : X), 1 ≤ m → m < m' → m' - m ≤ fuel →
    x ≤ bd step endval x0 y0 m' → (∀ j, m < j → j < m' → bd step endval x0 y0 j < x) →
    extend step endval fuel (prefixStore step endval x0 y0 m) x =
      .ok (prefixStore step endval x0 y0 m', seg step endval x0 y0 (m' - 1)) := by
  intro fuel
  induction fuel with
  | zero => intro m m' x _ h1 h2; omega
  | succ fuel ih =>
    intro m m' x hm h1 h2 hx hj
    obtain ⟨n, rfl⟩ : ∃ n, m = n + 1 := ⟨m - 1, by omega⟩
    rw [extend_prefix_step]
    by_cases hm' : m' = n + 2
    · subst hm'
      rw [if_pos hx]; rfl
    · rw [if_neg (not_le.mpr (hj (n + 2) (by omega) (by omega)))]
      exact ih (n + 2) m' x (by omega) (by omega) (by omega) hx (fun j a b => hj j (by omega) b)

/-- With less than `m' - m` fuel the model of the `while` loop reports `outOfFuel` (never a wrong answer). -/
theorem extend_prefix_outOfFuel : ∀ (fuel m m' : Nat) (x : X), 1 ≤ m → m < m' → fuel < m' - m →
    (∀ j, m < j → j < m' → bd step endval x0 y0 j < x) →
    extend step endval fuel (prefixStore step endval x0 y0 m) x = .error .outOfFuel := by
  intro fuel
  induction fuel with
  | zero => intro m m' x _ _ _ _; rfl
  | succ fuel ih =>
    intro m m' x hm h1 h2 hj
    obtain ⟨n, rfl⟩ : ∃ n, m = n + 1 := ⟨m - 1, by omega⟩
    rw [extend_prefix_step, if_neg (not_le.mpr (hj (n + 2) (by omega) (by omega)))]
    exact ih (n + 2) m' x (by omega) (by omega) (by omega) (fun j a b => hj j (by omega) b)

/-! ### consequences of the progress hypothesis -/

variable {step endval x0 y0}

theorem Progress.strictMono (hprog : Progress step endval x0 y0) : StrictMono (bd step endval x0 y0) :=
  strictMono_nat_of_lt_succ fun k => by
    have := hprog k
    rwa [seg_xa, seg_xb] at this

/-- Under progress, at most one canonical segment contains `x` in the left-closed sense. -/
theorem seg_index_unique (hprog : Progress step endval x0 y0) {x : X} {k k' : Nat}
    (h1 : bd step endval x0 y0 k ≤ x) (h2 : x < bd step endval x0 y0 (k + 1))
    (h1' : bd step endval x0 y0 k' ≤ x) (h2' : x < bd step endval x0 y0 (k' + 1)) : k = k' := by
  have hm := hprog.strictMono
  by_contra hne
  rcases Nat.lt_or_gt_of_ne hne with h | h
  · exact absurd (lt_of_lt_of_le h2 (le_trans (hm.monotone (by omega : k + 1 ≤ k')) h1')) (lt_irrefl _)
  · exact absurd (lt_of_lt_of_le h2' (le_trans (hm.monotone (by omega : k' + 1 ≤ k)) h1)) (lt_irrefl _)

/-- Every `x` with `x0 ≤ x < xb_{m-1}` lies in some canonical segment `k < m` (left-closed). -/
theorem seg_index_exists {x : X} : ∀ m : Nat, x0 ≤ x → x < bd step endval x0 y0 m →
    ∃ k, k < m ∧ bd step endval x0 y0 k ≤ x ∧ x < bd step endval x0 y0 (k + 1) := by
  intro m
  induction m with
  | zero => intro h1 h2; exact absurd (lt_of_le_of_lt h1 h2) (lt_irrefl _)
  | succ m ih =>
    intro h1 h2
    by_cases h : x < bd step endval x0 y0 m
    · obtain ⟨k, hk, h3⟩ := ih h1 h
      exact ⟨k, by omega, h3⟩
    · exact ⟨m, by omega, not_lt.mp h, h2⟩

theorem prefixStore_boundaries_sorted (hprog : Progress step endval x0 y0) (m : Nat) :
    ∀ i j (_ : i ≤ j) (hj : j < (prefixStore step endval x0 y0 m).boundaries.length),
      (prefixStore step endval x0 y0 m).boundaries[i]'(by omega) ≤
        (prefixStore step endval x0 y0 m).boundaries[j] := by
  intro i j hij hj
  simp only [prefixStore, List.getElem_map, List.getElem_range]
  exact hprog.strictMono.monotone hij

/-- `bisect` on the boundaries of the `m`-prefix for a query inside segment `k < m`. -/
theorem bisect_prefix_stored (hprog : Progress step endval x0 y0) {m k : Nat} {x : X} (hk : k < m)
    (h1 : bd step endval x0 y0 k ≤ x) (h2 : x < bd step endval x0 y0 (k + 1)) :
    bisectRight (prefixStore step endval x0 y0 m).boundaries x = k + 1 := by
  obtain ⟨hle, hL, hR⟩ := bisectRight_spec _ (prefixStore_boundaries_sorted hprog m) x
  have hlen : (prefixStore step endval x0 y0 m).boundaries.length = m + 1 := by simp [prefixStore]
  set r := bisectRight (prefixStore step endval x0 y0 m).boundaries x
  have hget : ∀ i (h : i < (prefixStore step endval x0 y0 m).boundaries.length),
      (prefixStore step endval x0 y0 m).boundaries[i] = bd step endval x0 y0 i := by
    intro i h; simp [prefixStore]
  by_contra hne
  rcases Nat.lt_or_gt_of_ne hne with h | h
  · -- r ≤ k : then x < bd k
    have := hR k (by omega) (by omega)
    rw [hget] at this
    exact absurd (lt_of_lt_of_le this h1) (lt_irrefl _)
  · -- r ≥ k+2 : then bd (k+1) ≤ x
    have := hL (k + 1) (by omega) h
    rw [hget] at this
    exact absurd (lt_of_lt_of_le h2 this) (lt_irrefl _)

/-- `bisect` on the boundaries of the `m`-prefix for a query at or beyond the last boundary. -/
theorem bisect_prefix_beyond (hprog : Progress step endval x0 y0) {m : Nat} {x : X}
    (h1 : bd step endval x0 y0 m ≤ x) :
    bisectRight (prefixStore step endval x0 y0 m).boundaries x = m + 1 := by
  obtain ⟨hle, hL, hR⟩ := bisectRight_spec _ (prefixStore_boundaries_sorted hprog m) x
  have hlen : (prefixStore step endval x0 y0 m).boundaries.length = m + 1 := by simp [prefixStore]
  set r := bisectRight (prefixStore step endval x0 y0 m).boundaries x
  by_contra hne
  have := hR m (by omega) (by omega)
  simp only [prefixStore, List.getElem_map, List.getElem_range] at this
  exact absurd (lt_of_lt_of_le this h1) (lt_irrefl _)

omit [LinearOrder X] in
theorem pyIndex_prefix_data {m k : Nat} (hk : k < m) :
    pyIndex (prefixStore step endval x0 y0 m).data (((k + 1 : Nat) : Int) - 1) =
      some (seg step endval x0 y0 k) := by
  have : ((k + 1 : Nat) : Int) - 1 = (k : Int) := by omega
  rw [this]
  simp [pyIndex, prefixStore, hk]

/-! ### `get_series` on a prefix store -/

/-- Query inside the stored range: answered without touching the store (any fuel, even 0), by the
segment `k` with `xa_k ≤ x < xb_k`. -/
theorem getSeries_stored (hprog : Progress step endval x0 y0) {m k : Nat} {x : X} (fuel : Nat) (hk : k < m)
    (h1 : bd step endval x0 y0 k ≤ x) (h2 : x < bd step endval x0 y0 (k + 1)) :
    getSeries step endval x0 fuel (prefixStore step endval x0 y0 m) x =
      .ok (prefixStore step endval x0 y0 m, seg step endval x0 y0 k) := by
  have hx0 : ¬ x < x0 := not_lt.mpr (le_trans (hprog.strictMono.monotone (Nat.zero_le k)) h1)
  have hlen : (prefixStore step endval x0 y0 m).boundaries.length = m + 1 := by simp [prefixStore]
  unfold getSeries
  simp only [if_neg hx0, bisect_prefix_stored hprog hk h1 h2, hlen]
  rw [if_pos (by omega), pyIndex_prefix_data hk]

/-- Query at or beyond the last stored boundary: the `while` loop runs. -/
theorem getSeries_beyond (hprog : Progress step endval x0 y0) {m : Nat} {x : X} (fuel : Nat)
    (h1 : bd step endval x0 y0 m ≤ x) :
    getSeries step endval x0 fuel (prefixStore step endval x0 y0 m) x =
      extend step endval fuel (prefixStore step endval x0 y0 m) x := by
  have hx0 : ¬ x < x0 := not_lt.mpr (le_trans (hprog.strictMono.monotone (Nat.zero_le m)) h1)
  have hlen : (prefixStore step endval x0 y0 m).boundaries.length = m + 1 := by simp [prefixStore]
  unfold getSeries
  simp only [if_neg hx0, bisect_prefix_beyond hprog h1, hlen]
  rw [if_neg (by omega)]

/-! ### reachable stores -/

variable (step endval x0)

/-- `Reach st st'`: `st'` is obtained from `st` by a finite sequence of successful `get_series` calls
(arbitrary query points, arbitrary fuel). -/
inductive Reach : Store S X → Store S X → Prop
  | refl (st : Store S X) : Reach st st
  | query {st st' st'' : Store S X} (fuel : Nat) (x : X) (sg : Seg S X) :
      Reach st st' → getSeries step endval x0 fuel st' x = .ok (st'', sg) → Reach st st''

variable (y0)

/-- Stores reachable from the initial store of `odefun(F, x0, y0)` by any query history. -/
def Reachable (st : Store S X) : Prop := Reach step endval x0 (init step x0 y0) st

variable {step endval x0 y0}

theorem Reach.trans {a b c : Store S X} (h1 : Reach step endval x0 a b) (h2 : Reach step endval x0 b c) :
    Reach step endval x0 a c := by
  induction h2 with
  | refl => exact h1
  | query fuel x sg _ hq ih => exact Reach.query fuel x sg ih hq

/-- A successful run of a list of queries is a `Reach` path. -/
theorem reach_of_runQueries : ∀ (qs : List (Nat × X)) (st st' : Store S X) (sgs : List (Seg S X)),
    runQueries step endval x0 st qs = .ok (st', sgs) → Reach step endval x0 st st' := by
  intro qs
  induction qs with
  | nil =>
    intro st st' sgs h
    simp only [runQueries] at h
    injection h with h
    injection h with h1 _
    subst h1
    exact Reach.refl _
  | cons q qs ih =>
    intro st st' sgs h
    obtain ⟨fuel, x⟩ := q
    simp only [runQueries] at h
    split at h
    · exact absurd h (by simp)
    · rename_i st1 sg hq
      split at h
      · exact absurd h (by simp)
      · rename_i st2 sgs2 hr
        injection h with h
        injection h with h1 _
        subst h1
        exact Reach.trans (Reach.query fuel x sg (Reach.refl _) hq) (ih _ _ _ hr)

/-- A successful `get_series` on the `m`-prefix leaves an `m'`-prefix with `m' ≥ m`
(no order hypotheses needed: this is pure list bookkeeping). -/
theorem getSeries_prefix_store {m fuel : Nat} {x : X} {st' : Store S X} {sg : Seg S X} (hm : 1 ≤ m)
    (h : getSeries step endval x0 fuel (prefixStore step endval x0 y0 m) x = .ok (st', sg)) :
    ∃ m', m ≤ m' ∧ st' = prefixStore step endval x0 y0 m' := by
  unfold getSeries at h
  split at h
  · exact absurd h (by simp)
  · dsimp only at h
    split at h
    · split at h
      · injection h with h
        injection h with h1 _
        exact ⟨m, le_refl _, h1.symm⟩
      · exact absurd h (by simp)
    · obtain ⟨m', h1, _, h3, _⟩ := extend_prefix_inv step endval x0 y0 fuel m x _ hm h
      injection h3 with h3 _
      exact ⟨m', by omega, h3⟩

theorem reach_prefix {m : Nat} {st : Store S X} (hm : 1 ≤ m)
    (h : Reach step endval x0 (prefixStore step endval x0 y0 m) st) :
    ∃ m', m ≤ m' ∧ st = prefixStore step endval x0 y0 m' := by
  induction h with
  | refl => exact ⟨m, le_refl _, rfl⟩
  | query fuel x sg _ hq ih =>
    obtain ⟨m1, h1, rfl⟩ := ih
    obtain ⟨m2, h2, h3⟩ := getSeries_prefix_store (by omega) hq
    exact ⟨m2, by omega, h3⟩

/-- **segments_prefix.**  After ANY finite sequence of successful `get_series` queries, the store is a
prefix of the one canonical sequence: `data = [seg 0, …, seg (m-1)]` and
`boundaries = [x0, xb₀, …, xb_{m-1}]` for some `m ≥ 1`.  The query history influences only `m`. -/
theorem segments_prefix {st : Store S X} (h : Reachable step endval x0 y0 st) :
    ∃ m, 1 ≤ m ∧ st.data = (List.range m).map (seg step endval x0 y0) ∧
      st.boundaries = (List.range (m + 1)).map (bd step endval x0 y0) := by
  unfold Reachable at h
  rw [init_eq_prefixStore step endval x0 y0] at h
  obtain ⟨m, hm, rfl⟩ := reach_prefix (le_refl 1) h
  exact ⟨m, hm, rfl, rfl⟩

/-- `segments_prefix` in terms of `prefixStore`. -/
theorem segments_prefix' {st : Store S X} (h : Reachable step endval x0 y0 st) :
    ∃ m, 1 ≤ m ∧ st = prefixStore step endval x0 y0 m := by
  obtain ⟨m, hm, h1, h2⟩ := segments_prefix h
  exact ⟨m, hm, by cases st; simp_all [prefixStore]⟩

/-- The initial store is the 1-prefix, and it is reachable (empty history). -/
theorem reachable_init : Reachable step endval x0 y0 (prefixStore step endval x0 y0 1) := by
  unfold Reachable
  rw [init_eq_prefixStore step endval x0 y0]
  exact Reach.refl _

/-- **getSeries_spec.**  Which segment answers a query `x ≥ x0` on the `m`-prefix store (`m ≥ 1`), under
progress `xa_k < xb_k`:

* (stored range, `x < xb_{m-1}`)  the store is unchanged and the answer is `seg k` for the UNIQUE `k` with
  `xa_k ≤ x < xb_k` — left-closed, so a stored interior boundary point is answered by the segment on its
  RIGHT; no fuel is used;
* (beyond, `xb_{m-1} ≤ x`)  for the least `m' > m` with `x ≤ xb_{m'-1}` the store becomes the `m'`-prefix and
  the answer is `seg (m'-1)` — right-closed, so a query that hits the NEW last boundary `xb_{m'-1}` exactly
  is answered by the segment on its LEFT (and so is `x = xb_{m-1}` itself: it is sent to the new segment
  `seg m` only because `m' = m+1` is forced).  Exactly `m' - m` units of fuel are needed. -/
theorem getSeries_spec (hprog : Progress step endval x0 y0) {m : Nat} (hm : 1 ≤ m) {x : X} (hx : x0 ≤ x) :
    (x < bd step endval x0 y0 m →
      ∃ k, k < m ∧ bd step endval x0 y0 k ≤ x ∧ x < bd step endval x0 y0 (k + 1) ∧
        (∀ k', bd step endval x0 y0 k' ≤ x → x < bd step endval x0 y0 (k' + 1) → k' = k) ∧
        ∀ fuel, getSeries step endval x0 fuel (prefixStore step endval x0 y0 m) x =
          .ok (prefixStore step endval x0 y0 m, seg step endval x0 y0 k)) ∧
    (bd step endval x0 y0 m ≤ x →
      ∀ m', m < m' → x ≤ bd step endval x0 y0 m' → (∀ j, m < j → j < m' → bd step endval x0 y0 j < x) →
        ∀ fuel,
          (m' - m ≤ fuel → getSeries step endval x0 fuel (prefixStore step endval x0 y0 m) x =
            .ok (prefixStore step endval x0 y0 m', seg step endval x0 y0 (m' - 1))) ∧
          (fuel < m' - m → getSeries step endval x0 fuel (prefixStore step endval x0 y0 m) x =
            .error .outOfFuel)) := by
  constructor
  · intro hlt
    obtain ⟨k, hk, h1, h2⟩ := seg_index_exists (y0 := y0) (step := step) (endval := endval) m hx hlt
    exact ⟨k, hk, h1, h2, fun k' a b => seg_index_unique hprog a b h1 h2,
      fun fuel => getSeries_stored hprog fuel hk h1 h2⟩
  · intro hge m' hmm' hxm' hj fuel
    rw [getSeries_beyond hprog fuel hge]
    exact ⟨fun hf => extend_prefix_ok step endval x0 y0 fuel m m' x hm hmm' hf hxm' hj,
      fun hf => extend_prefix_outOfFuel step endval x0 y0 fuel m m' x hm hmm' hf hj⟩

/-- Inversion form of `getSeries_spec`: whenever `get_series` succeeds on the `m`-prefix, the answer is
`seg k` for a `k` with `xa_k ≤ x ≤ xb_k`, and `x = xb_k` is only possible when segment `k` was appended by
this very call. -/
theorem getSeries_ok_inv (hprog : Progress step endval x0 y0) {m fuel : Nat} (hm : 1 ≤ m) {x : X}
    {st' : Store S X} {sg : Seg S X}
    (h : getSeries step endval x0 fuel (prefixStore step endval x0 y0 m) x = .ok (st', sg)) :
    x0 ≤ x ∧ ∃ k m', sg = seg step endval x0 y0 k ∧ st' = prefixStore step endval x0 y0 m' ∧ m ≤ m' ∧
      k < m' ∧ bd step endval x0 y0 k ≤ x ∧
      ((x < bd step endval x0 y0 (k + 1) ∧ m' = m) ∨
       (x ≤ bd step endval x0 y0 (k + 1) ∧ m < m' ∧ k + 1 = m')) := by
  have hx : x0 ≤ x := by
    by_contra hlt
    unfold getSeries at h
    rw [if_pos (not_le.mp hlt)] at h
    exact absurd h (by simp)
  refine ⟨hx, ?_⟩
  by_cases hlt : x < bd step endval x0 y0 m
  · obtain ⟨k, hk, h1, h2, _, h4⟩ := (getSeries_spec hprog hm hx).1 hlt
    rw [h4 fuel] at h
    injection h with h
    injection h with h5 h6
    exact ⟨k, m, h6.symm, h5.symm, le_refl _, hk, h1, Or.inl ⟨h2, rfl⟩⟩
  · have hge := not_lt.mp hlt
    rw [getSeries_beyond hprog fuel hge] at h
    obtain ⟨m', h1, _, h3, h4, h5⟩ := extend_prefix_inv step endval x0 y0 fuel m x _ hm h
    injection h3 with h6 h7
    refine ⟨m' - 1, m', h7, h6, by omega, by omega, ?_, Or.inr ⟨?_, h1, by omega⟩⟩
    · by_cases hmm : m' - 1 = m
      · rw [hmm]; exact hge
      · exact le_of_lt (h5 (m' - 1) (by omega) (by omega))
    · rw [show m' - 1 + 1 = m' by omega]; exact h4

/-- **order_independent_off_boundaries.**  If `x ≥ x0` is not one of the boundary points `xb_k`, the
segment returned for `x` by ANY reachable store (any query history, any fuel that suffices) is `seg k`
for the unique `k` with `xa_k ≤ x < xb_k` — a function of `x` alone. -/
theorem order_independent_off_boundaries (hprog : Progress step endval x0 y0) {st st' : Store S X}
    (hr : Reachable step endval x0 y0 st) {x : X} (hoff : ∀ k, x ≠ bd step endval x0 y0 (k + 1))
    {fuel : Nat} {sg : Seg S X} (h : getSeries step endval x0 fuel st x = .ok (st', sg)) :
    ∃ k, bd step endval x0 y0 k ≤ x ∧ x < bd step endval x0 y0 (k + 1) ∧ sg = seg step endval x0 y0 k ∧
      ∀ k', bd step endval x0 y0 k' ≤ x → x < bd step endval x0 y0 (k' + 1) → k' = k := by
  obtain ⟨m, hm, rfl⟩ := segments_prefix' hr
  obtain ⟨_, k, m', h1, _, _, _, h2, h3⟩ := getSeries_ok_inv hprog hm h
  have hlt : x < bd step endval x0 y0 (k + 1) := by
    rcases h3 with h3 | h3
    · exact h3.1
    · exact lt_of_le_of_ne h3.1 (hoff k)
  exact ⟨k, h2, hlt, h1, fun k' a b => seg_index_unique hprog a b h2 hlt⟩

/-- Two-store form of `order_independent_off_boundaries`: off the boundary points any two reachable stores
give the same segment. -/
theorem order_independent_off_boundaries' (hprog : Progress step endval x0 y0)
    {st₁ st₂ st₁' st₂' : Store S X} (hr₁ : Reachable step endval x0 y0 st₁)
    (hr₂ : Reachable step endval x0 y0 st₂) {x : X} (hoff : ∀ k, x ≠ bd step endval x0 y0 (k + 1))
    {f₁ f₂ : Nat} {sg₁ sg₂ : Seg S X} (h₁ : getSeries step endval x0 f₁ st₁ x = .ok (st₁', sg₁))
    (h₂ : getSeries step endval x0 f₂ st₂ x = .ok (st₂', sg₂)) : sg₁ = sg₂ := by
  obtain ⟨k₁, a₁, b₁, c₁, _⟩ := order_independent_off_boundaries hprog hr₁ hoff h₁
  obtain ⟨k₂, a₂, b₂, c₂, _⟩ := order_independent_off_boundaries hprog hr₂ hoff h₂
  rw [c₁, c₂, seg_index_unique hprog a₁ b₁ a₂ b₂]

/-- **order_independent_given_stored.**  If `x0 ≤ x < b` where `b` is the last boundary of a reachable
store `st`, then the answer for `x` is `seg k` for the unique `k` with `xa_k ≤ x < xb_k` (so it does not
depend on how `st` was reached), the store is not modified, no fuel is needed, and every store `st'`
reached from `st` by later queries gives the same answer. -/
theorem order_independent_given_stored (hprog : Progress step endval x0 y0) {st st' : Store S X}
    (hr : Reachable step endval x0 y0 st) {x b : X} (hx : x0 ≤ x)
    (hb : st.boundaries.getLast? = some b) (hxb : x < b) (hlater : Reach step endval x0 st st') :
    ∃ k, bd step endval x0 y0 k ≤ x ∧ x < bd step endval x0 y0 (k + 1) ∧
      (∀ k', bd step endval x0 y0 k' ≤ x → x < bd step endval x0 y0 (k' + 1) → k' = k) ∧
      (∀ fuel, getSeries step endval x0 fuel st x = .ok (st, seg step endval x0 y0 k)) ∧
      (∀ fuel, getSeries step endval x0 fuel st' x = .ok (st', seg step endval x0 y0 k)) := by
  obtain ⟨m, hm, rfl⟩ := segments_prefix' hr
  obtain ⟨m', hmm', rfl⟩ := reach_prefix hm hlater
  rw [prefixStore_boundaries_getLast] at hb
  injection hb with hb
  subst hb
  obtain ⟨k, hk, h1, h2, h3, h4⟩ := (getSeries_spec hprog hm hx).1 hxb
  exact ⟨k, h1, h2, h3, h4, fun fuel => getSeries_stored hprog fuel (by omega) h1 h2⟩

/-- **getSeries_terminates (quantitative).**  If `x0 ≤ x ≤ xb_k` then fuel `k + 1` suffices for the query `x`
in every reachable store. -/
theorem getSeries_fuel_suffices (hprog : Progress step endval x0 y0) {st : Store S X}
    (hr : Reachable step endval x0 y0 st) {x : X} (hx : x0 ≤ x) {k : Nat}
    (hk : x ≤ bd step endval x0 y0 (k + 1)) {fuel : Nat} (hf : k + 1 ≤ fuel) :
    ∃ r, getSeries step endval x0 fuel st x = .ok r := by
  classical
  obtain ⟨m, hm, rfl⟩ := segments_prefix' hr
  by_cases hlt : x < bd step endval x0 y0 m
  · obtain ⟨k', _, _, _, _, h⟩ := (getSeries_spec hprog hm hx).1 hlt
    exact ⟨_, h fuel⟩
  · have hge := not_lt.mp hlt
    have hex : ∃ j, m < j ∧ x ≤ bd step endval x0 y0 j := by
      by_cases hkm : m < k + 1
      · exact ⟨k + 1, hkm, hk⟩
      · exact ⟨m + 1, by omega, le_trans hk (hprog.strictMono.monotone (by omega))⟩
    have hbound : Nat.find hex ≤ max (k + 1) (m + 1) := by
      by_cases hkm : m < k + 1
      · exact le_trans (Nat.find_min' hex ⟨hkm, hk⟩) (le_max_left _ _)
      · exact le_trans (Nat.find_min' hex
          ⟨by omega, le_trans hk (hprog.strictMono.monotone (by omega))⟩) (le_max_right _ _)
    obtain ⟨h1, h2⟩ := Nat.find_spec hex
    have h3 : ∀ j, m < j → j < Nat.find hex → bd step endval x0 y0 j < x := fun j a b =>
      not_le.mp fun hle => Nat.find_min hex b ⟨a, hle⟩
    have hfuel : Nat.find hex - m ≤ fuel := by
      rcases le_max_iff.mp hbound with h | h <;> omega
    exact ⟨_, ((getSeries_spec hprog hm hx).2 hge _ h1 h2 h3 fuel).1 hfuel⟩

/-- **getSeries_terminates.**  Under progress and unboundedness of the boundaries, every query `x ≥ x0` on
every reachable store succeeds with enough fuel, i.e. the Python `while 1` loop terminates. -/
theorem getSeries_terminates (hprog : Progress step endval x0 y0)
    (hunb : ∀ x, ∃ k, x ≤ bd step endval x0 y0 (k + 1)) {st : Store S X}
    (hr : Reachable step endval x0 y0 st) {x : X} (hx : x0 ≤ x) :
    ∃ fuel r, getSeries step endval x0 fuel st x = .ok r := by
  obtain ⟨k, hk⟩ := hunb x
  exact ⟨k + 1, getSeries_fuel_suffices hprog hr hx hk (le_refl _)⟩

end Store

/-! ## A concrete instance: the counterexample to full history independence, and non-vacuity examples -/

namespace Example

/-- `ode_taylor` stand-in on `X = Int`: the series is just the left endpoint, every segment has length 2,
so the canonical segments are `[0,2], [2,4], [4,6], …`. -/
def cstep : Int → Unit → Int × Int := fun x _ => (x, x + 2)
/-- `mpolyval` stand-in (the state is trivial). -/
def cend : Int → Int → Int → Unit := fun _ _ _ => ()

theorem cseg (k : Nat) : seg cstep cend 0 () k = ((2 * k : Int), (2 * k : Int), (2 * k + 2 : Int)) := by
  induction k with
  | zero => rfl
  | succ k ih =>
    rw [seg, ih]
    simp only [nextSeg, cstep]
    refine Prod.ext ?_ (Prod.ext ?_ ?_) <;> simp <;> omega

theorem cbd (k : Nat) : bd cstep cend 0 () k = (2 * k : Int) := by
  cases k with
  | zero => rfl
  | succ k => rw [bd, cseg]; simp; omega

theorem cprog : Progress cstep cend 0 () := by
  intro k; rw [cseg]; simp

theorem cunb : ∀ x : Int, ∃ k, x ≤ bd cstep cend 0 () (k + 1) := by
  intro x; refine ⟨x.toNat, ?_⟩; rw [cbd]; omega

/-- **order_dependent_counterexample.**  Segments `[0,2],[2,4],[4,6],…`; the answer to the query `x = 4`
depends on the history:
* on the fresh store it is segment `[2,4]` (the loop stops at `x <= xb`, answer from the LEFT);
* asked a second time it is segment `[4,6]` (now `4` is a stored boundary, `bisect` sends it to the RIGHT,
  and because it is the last boundary a new segment is even computed for it);
* asked after the query `x = 5` it is segment `[4,6]` as well. -/
theorem order_dependent_counterexample :
    getSeries cstep cend 0 5 (init cstep 0 ()) 4
      = .ok (⟨[0, 2, 4], [(0, 0, 2), (2, 2, 4)]⟩, (2, 2, 4)) ∧
    getSeries cstep cend 0 5 ⟨[0, 2, 4], [(0, 0, 2), (2, 2, 4)]⟩ 4
      = .ok (⟨[0, 2, 4, 6], [(0, 0, 2), (2, 2, 4), (4, 4, 6)]⟩, (4, 4, 6)) ∧
    (runQueries cstep cend 0 (init cstep 0 ()) [(5, 4), (5, 4)]).map Prod.snd
      = .ok [(2, 2, 4), (4, 4, 6)] ∧
    (runQueries cstep cend 0 (init cstep 0 ()) [(5, 5), (5, 4)]).map Prod.snd
      = .ok [(4, 4, 6), (4, 4, 6)] ∧
    (runQueries cstep cend 0 (init cstep 0 ()) [(5, 4), (5, 5)]).map Prod.snd
      = .ok [(2, 2, 4), (4, 4, 6)] := by
  decide

/-- Full history independence of `get_series` is FALSE (even under progress): two reachable stores answer
the same query with different segments. -/
theorem history_independence_counterexample :
    ¬ ∀ (st₁ st₂ : Store Int Int), Reachable cstep cend 0 () st₁ → Reachable cstep cend 0 () st₂ →
        ∀ (x : Int) (f₁ f₂ : Nat) (r₁ r₂ : Store Int Int × Seg Int Int),
          getSeries cstep cend 0 f₁ st₁ x = .ok r₁ → getSeries cstep cend 0 f₂ st₂ x = .ok r₂ →
          r₁.2 = r₂.2 := by
  intro h
  have h1 := order_dependent_counterexample.1
  have h2 := order_dependent_counterexample.2.1
  have := h _ _ (Reach.refl _) (Reach.query 5 4 _ (Reach.refl _) h1) 4 5 5 _ _ h1 h2
  exact absurd this (by decide)

/-- a reachable store with a non-trivial history (queries 4, 1, 9 in this order) -/
theorem reachable_419 : Reachable cstep cend 0 ()
    ⟨[0, 2, 4, 6, 8, 10], [(0, 0, 2), (2, 2, 4), (4, 4, 6), (6, 6, 8), (8, 8, 10)]⟩ :=
  reach_of_runQueries (sgs := [(2, 2, 4), (0, 0, 2), (8, 8, 10)]) [(9, 4), (0, 1), (7, 9)] _ _ (by decide)

/-- `segments_prefix` on a reachable store with a non-trivial history. -/
example : ∃ m, 1 ≤ m ∧
    ([(0, 0, 2), (2, 2, 4), (4, 4, 6), (6, 6, 8), (8, 8, 10)] : List (Seg Int Int))
      = (List.range m).map (seg cstep cend 0 ()) ∧
    ([0, 2, 4, 6, 8, 10] : List Int) = (List.range (m + 1)).map (bd cstep cend 0 ()) :=
  segments_prefix reachable_419

/-- `getSeries_spec`, stored branch, on the 3-prefix `[0,2],[2,4],[4,6]`: the stored boundary `x = 2` is
answered by the segment on its right, `seg 1 = [2,4]`. -/
example : ∀ fuel, getSeries cstep cend 0 fuel (prefixStore cstep cend 0 () 3) 2 =
    .ok (prefixStore cstep cend 0 () 3, seg cstep cend 0 () 1) := by
  obtain ⟨k, _, h1, h2, h3, h4⟩ := (getSeries_spec cprog (m := 3) (by omega) (x := 2) (by omega)).1
    (by rw [cbd]; omega)
  have : (1 : Nat) = k := h3 1 (by rw [cbd]; omega) (by rw [cbd]; omega)
  subst this
  exact h4

/-- `getSeries_spec`, extension branch, on the 1-prefix `[0,2]`: the query `x = 6` extends the store to the
3-prefix and is answered by the segment on its left, `seg 2 = [4,6]`; 2 units of fuel are needed. -/
example : getSeries cstep cend 0 2 (prefixStore cstep cend 0 () 1) 6 =
      .ok (prefixStore cstep cend 0 () 3, seg cstep cend 0 () 2) ∧
    getSeries cstep cend 0 1 (prefixStore cstep cend 0 () 1) 6 = .error .outOfFuel := by
  have h := (getSeries_spec cprog (m := 1) (by omega) (x := 6) (by omega)).2 (by rw [cbd]; omega) 3
    (by omega) (by rw [cbd]; omega) (fun j h1 h2 => by rw [cbd]; omega)
  exact ⟨(h 2).1 (by omega), (h 1).2 (by omega)⟩

/-- `order_independent_off_boundaries`: `x = 7` is not a boundary; whatever reachable store answers it,
the answer is `seg 3 = [6,8]`. -/
example {st st' : Store Int Int} (hr : Reachable cstep cend 0 () st) {fuel : Nat} {sg : Seg Int Int}
    (h : getSeries cstep cend 0 fuel st 7 = .ok (st', sg)) : sg = (6, 6, 8) := by
  obtain ⟨k, h1, h2, h3, _⟩ := order_independent_off_boundaries cprog hr
    (fun k => by rw [cbd]; omega) h
  rw [cbd] at h1 h2
  have : k = 3 := by omega
  subst this
  rw [h3, cseg]; rfl

/-- `order_independent_given_stored`: in the store reached by the queries 4, 1, 9 the point `x = 4 < 10` is
answered by `seg 2 = [4,6]`, now and after any later queries. -/
example {st' : Store Int Int}
    (hlater : Reach cstep cend 0
      ⟨[0, 2, 4, 6, 8, 10], [(0, 0, 2), (2, 2, 4), (4, 4, 6), (6, 6, 8), (8, 8, 10)]⟩ st') :
    ∀ fuel, getSeries cstep cend 0 fuel st' 4 = .ok (st', (4, 4, 6)) := by
  obtain ⟨k, h1, h2, _, _, h5⟩ := order_independent_given_stored cprog reachable_419 (x := 4) (b := 10)
    (by omega) (by decide) (by omega) hlater
  rw [cbd] at h1 h2
  have : k = 2 := by omega
  subst this
  intro fuel; rw [h5 fuel, cseg]; rfl

/-- `getSeries_terminates` / `getSeries_fuel_suffices` are not vacuous: the instance has progress and
unbounded boundaries, and e.g. `x = 9 ≤ xb_4 = 10` needs at most 5 units of fuel from any reachable store. -/
example {st : Store Int Int} (hr : Reachable cstep cend 0 () st) :
    (∃ fuel r, getSeries cstep cend 0 fuel st 9 = .ok r) ∧ ∃ r, getSeries cstep cend 0 5 st 9 = .ok r :=
  ⟨getSeries_terminates cprog cunb hr (by omega),
   getSeries_fuel_suffices cprog hr (by omega) (k := 4) (by rw [cbd]; omega) (le_refl _)⟩

end Example

/-! ## `QuadratureRule.summation`: the accumulation loop over an additive rule

These theorems are about the import-free model `quadSum` itself, instantiated at a Mathlib `AddCommGroup V`.
Additivity `rule a b + rule b c = rule a c` is what an EXACT integral satisfies; the floating-point rule
satisfies it only up to the error estimate, so the theorems describe the loop logic, not the numerics. -/

section Quad
variable {X V : Type} [DecidableEq X] [AddCommGroup V] (rule : X → X → V)

/-- `rule a b + rule b c = rule a c` for all `a b c`. -/
def AdditiveRule : Prop := ∀ a b c, rule a b + rule b c = rule a c

variable {rule}

omit [DecidableEq X] in
/-- An additive rule vanishes on degenerate intervals (so the `if a == b: continue` is harmless). -/
theorem AdditiveRule.self (h : AdditiveRule rule) (a : X) : rule a a = 0 := by
  simpa using h a a a

omit [DecidableEq X] in
/-- An additive rule is antisymmetric. -/
theorem AdditiveRule.antisymm (h : AdditiveRule rule) (a b : X) : rule b a = - rule a b :=
  eq_neg_of_add_eq_zero_left (by rw [h b a b, h.self])

theorem quadSumAux_additive (h : AdditiveRule rule) : ∀ (l : List X) (a : X) (acc : V),
    quadSumAux rule acc (a :: l) = acc + rule a ((a :: l).getLast (List.cons_ne_nil _ _)) := by
  intro l
  induction l with
  | nil => intro a acc; simp [quadSumAux, h.self]
  | cons b l ih =>
    intro a acc
    rw [quadSumAux, ih, List.getLast_cons (List.cons_ne_nil _ _)]
    by_cases hab : a = b
    · subst hab; rw [if_pos rfl]
    · rw [if_neg hab, add_assoc, h]

/-- **split_additive.**  For an additive rule the driver returns `rule a z` where `a` is the first and `z`
the last point: interior split points (and repeated points) do not change the result. -/
theorem split_additive (h : AdditiveRule rule) (a : X) (l : List X) :
    quadSum rule (a :: l) = rule a ((a :: l).getLast (List.cons_ne_nil _ _)) := by
  rw [quadSum, quadSumAux_additive h, zero_add]

/-- `split_additive` for an arbitrary non-empty list of points. -/
theorem quadSum_eq_head_last (h : AdditiveRule rule) (points : List X) (hne : points ≠ []) :
    quadSum rule points = rule (points.head hne) (points.getLast hne) := by
  cases points with
  | nil => exact absurd rfl hne
  | cons a l => exact split_additive h a l

/-- Inserting any interior points `mid` between `a` and `b` gives the same result as `[a, b]`. -/
theorem split_invariant (h : AdditiveRule rule) (a b : X) (mid : List X) :
    quadSum rule (a :: mid ++ [b]) = quadSum rule [a, b] := by
  rw [List.cons_append, split_additive h, split_additive h]
  simp [List.getLast_cons]

/-- **reverse_limits_neg.**  Reversing the list of points negates the result. -/
theorem reverse_limits_neg (h : AdditiveRule rule) (points : List X) :
    quadSum rule points.reverse = - quadSum rule points := by
  by_cases hne : points = []
  · subst hne; simp [quadSum, quadSumAux]
  · have hr : points.reverse ≠ [] := by simpa using hne
    rw [quadSum_eq_head_last h _ hr, quadSum_eq_head_last h _ hne, List.head_reverse,
      List.getLast_reverse, h.antisymm]

/-- `∫_a^b 2x dx = b² - a²` as an additive rule on `Int`. -/
example : AdditiveRule (fun a b : Int => b * b - a * a) := fun a b c => by
  show (b * b - a * a) + (c * c - b * b) = c * c - a * a
  abel

/-- `split_additive` / `reverse_limits_neg` on the points `[0, 3, 3, 7, 2]` (one repeated point, one
backward step): `I = 2² - 0² = 4`, reversed `-4`. -/
example : quadSum (fun a b : Int => b * b - a * a) [0, 3, 3, 7, 2] = 4 ∧
    quadSum (fun a b : Int => b * b - a * a) [2, 7, 3, 3, 0] = -4 ∧
    quadSum (fun a b : Int => b * b - a * a) [0, 2] = 4 := by decide

/-- Without additivity the split points matter (so the hypothesis is not redundant):
midpoint-free "rule" `a*b`. -/
example : quadSum (fun a b : Int => a * b) [1, 2, 3] ≠ quadSum (fun a b : Int => a * b) [1, 3] := by decide

end Quad

end Calc
end Mp

/-! ## axiom audit -/
section Audit
open Mp.Calc
#print axioms bisectRight_spec
#print axioms segments_prefix
#print axioms getSeries_spec
#print axioms getSeries_ok_inv
#print axioms Example.order_dependent_counterexample
#print axioms Example.history_independence_counterexample
#print axioms order_independent_off_boundaries
#print axioms order_independent_off_boundaries'
#print axioms order_independent_given_stored
#print axioms getSeries_fuel_suffices
#print axioms getSeries_terminates
#print axioms reach_of_runQueries
#print axioms AdditiveRule.self
#print axioms AdditiveRule.antisymm
#print axioms split_additive
#print axioms split_invariant
#print axioms reverse_limits_neg
end Audit

/-! ## The interpolant VALUE is history independent (added after the first delivery)

Although the SEGMENT answering a boundary query depends on the history
(`Example.order_dependent_counterexample`), the VALUE does not, provided the two `mpolyval` calls of the
code are the same function (`endval ser xa xb = evalSeg ser xa xb`: both are `mpolyval(ser, xb - xa)` at the
same working precision) and a fresh segment evaluated at its own left end returns its initial value
(`hstart`; in `ode_taylor` the coefficient `ser[d][0]` is `y0[d]` exactly). -/

namespace Mp
namespace Calc

section Values
variable {S X Y : Type} [LinearOrder X] {step : X → Y → S × X} {endval : S → X → X → Y}
  {evalSeg : S → X → X → Y} {x0 : X} {y0 : Y}

omit [LinearOrder X] in
/-- At the boundary `xb_k` the segment on the right (`seg (k+1)`, evaluated at its left end) and the
segment on the left (`seg k`, evaluated at its right end) give the same value. -/
theorem seg_boundary_value (hend : ∀ ser xa xb, endval ser xa xb = evalSeg ser xa xb)
    (hstart : ∀ x y, evalSeg (step x y).1 x x = y) (k : Nat) :
    evalSeg (seg step endval x0 y0 (k + 1)).1 (bd step endval x0 y0 (k + 1)) (bd step endval x0 y0 (k + 1))
      = evalSeg (seg step endval x0 y0 k).1 (bd step endval x0 y0 k) (bd step endval x0 y0 (k + 1)) := by
  rw [← seg_xa step endval x0 y0 k, ← seg_xb step endval x0 y0 k]
  show evalSeg (nextSeg step endval (seg step endval x0 y0 k)).1 _ _ = _
  simp only [nextSeg]
  rw [hstart, hend]

/-- Segment-level form: whatever segment `get_series` returns from a reachable store, evaluating it at `x`
gives the canonical value `evalSeg ser_k xa_k x` for the unique `k` with `xa_k ≤ x < xb_k`. -/
theorem getSeries_value (hprog : Progress step endval x0 y0)
    (hend : ∀ ser xa xb, endval ser xa xb = evalSeg ser xa xb)
    (hstart : ∀ x y, evalSeg (step x y).1 x x = y) {st st' : Store S X}
    (hr : Reachable step endval x0 y0 st) {x : X} {fuel : Nat} {sg : Seg S X}
    (h : getSeries step endval x0 fuel st x = .ok (st', sg)) :
    ∃ k, bd step endval x0 y0 k ≤ x ∧ x < bd step endval x0 y0 (k + 1) ∧
      (∀ k', bd step endval x0 y0 k' ≤ x → x < bd step endval x0 y0 (k' + 1) → k' = k) ∧
      evalSeg sg.1 sg.2.1 x = evalSeg (seg step endval x0 y0 k).1 (bd step endval x0 y0 k) x := by
  obtain ⟨m, hm, rfl⟩ := segments_prefix' hr
  obtain ⟨_, k, m', h1, _, _, _, h2, h3⟩ := getSeries_ok_inv hprog hm h
  subst h1
  by_cases hlt : x < bd step endval x0 y0 (k + 1)
  · exact ⟨k, h2, hlt, fun k' a b => seg_index_unique hprog a b h2 hlt, by rw [seg_xa]⟩
  · have hle : x ≤ bd step endval x0 y0 (k + 1) := by
      rcases h3 with h3 | h3
      · exact absurd h3.1 hlt
      · exact h3.1
    have hxe : x = bd step endval x0 y0 (k + 1) := le_antisymm hle (not_lt.mp hlt)
    have hlt' : x < bd step endval x0 y0 (k + 1 + 1) := by
      rw [hxe]; exact hprog.strictMono (Nat.lt_succ_self _)
    refine ⟨k + 1, le_of_eq hxe.symm, hlt',
      fun k' a b => seg_index_unique hprog a b (le_of_eq hxe.symm) hlt', ?_⟩
    rw [seg_xa, hxe]
    exact (seg_boundary_value hend hstart k).symm

/-- **values_order_independent.**  For every query `x` and every reachable store (any history, any fuel for
which the call succeeds — success already forces `x0 ≤ x`), the VALUE computed by `interpolant(x)` is
`evalSeg ser_k xa_k x` for the unique `k` with `xa_k ≤ x < xb_k`: a function of `x` alone, INCLUDING when `x` is
a boundary point (where the answering segment is history dependent). -/
theorem values_order_independent (hprog : Progress step endval x0 y0)
    (hend : ∀ ser xa xb, endval ser xa xb = evalSeg ser xa xb)
    (hstart : ∀ x y, evalSeg (step x y).1 x x = y) {st : Store S X}
    (hr : Reachable step endval x0 y0 st) {x : X} {fuel : Nat} {v : Y}
    (h : interpValue step endval evalSeg x0 fuel st x = .ok v) :
    ∃ k, bd step endval x0 y0 k ≤ x ∧ x < bd step endval x0 y0 (k + 1) ∧
      (∀ k', bd step endval x0 y0 k' ≤ x → x < bd step endval x0 y0 (k' + 1) → k' = k) ∧
      v = evalSeg (seg step endval x0 y0 k).1 (bd step endval x0 y0 k) x := by
  unfold interpValue at h
  split at h
  · exact absurd h (by simp)
  · rename_i st' sg hq
    injection h with h
    obtain ⟨k, h1, h2, h3, h4⟩ := getSeries_value hprog hend hstart hr hq
    exact ⟨k, h1, h2, h3, by rw [← h, h4]⟩

/-- Two-store form: any two reachable stores (any histories, any sufficient fuels) give the same
interpolant value at the same `x`. -/
theorem values_order_independent' (hprog : Progress step endval x0 y0)
    (hend : ∀ ser xa xb, endval ser xa xb = evalSeg ser xa xb)
    (hstart : ∀ x y, evalSeg (step x y).1 x x = y) {st₁ st₂ : Store S X}
    (hr₁ : Reachable step endval x0 y0 st₁) (hr₂ : Reachable step endval x0 y0 st₂)
    {x : X} {f₁ f₂ : Nat} {v₁ v₂ : Y}
    (h₁ : interpValue step endval evalSeg x0 f₁ st₁ x = .ok v₁)
    (h₂ : interpValue step endval evalSeg x0 f₂ st₂ x = .ok v₂) : v₁ = v₂ := by
  obtain ⟨k₁, a₁, b₁, _, c₁⟩ := values_order_independent hprog hend hstart hr₁ h₁
  obtain ⟨k₂, a₂, b₂, _, c₂⟩ := values_order_independent hprog hend hstart hr₂ h₂
  rw [c₁, c₂, seg_index_unique hprog a₁ b₁ a₂ b₂]

/-- `interpValue` is the second component of the model's `interpolant`. -/
theorem interpValue_eq_interpolant (fuel : Nat) (st : Store S X) (x : X) :
    interpValue step endval evalSeg x0 fuel st x =
      (interpolant step endval evalSeg x0 fuel st x).map Prod.snd := by
  unfold interpValue interpolant
  cases getSeries step endval x0 fuel st x <;> rfl

end Values

/-! ### toy instance with a non-trivial state: segment differs, value equal -/

namespace Example2

/-- Series = `(left endpoint, initial value)`; every segment has length 2. -/
def dstep : Int → Int → (Int × Int) × Int := fun x y => ((x, y), x + 2)
/-- `mpolyval(ser, x - xa)` stand-in: `y + (x - xa)²`; `deval (step x y).1 x x = y`. -/
def deval : Int × Int → Int → Int → Int := fun ser xa x => ser.2 + (x - xa) * (x - xa)

theorem dseg_x (k : Nat) : (seg dstep deval 0 1 k).2.1 = (2 * k : Int) ∧
    (seg dstep deval 0 1 k).2.2 = (2 * k + 2 : Int) := by
  induction k with
  | zero => exact ⟨rfl, rfl⟩
  | succ k ih =>
    rw [seg]
    simp only [nextSeg, dstep, ih.2]
    constructor <;> push_cast <;> omega

theorem dbd (k : Nat) : bd dstep deval 0 1 k = (2 * k : Int) := by
  rw [← seg_xa]; exact (dseg_x k).1

theorem dprog : Progress dstep deval 0 1 := by
  intro k; rw [(dseg_x k).1, (dseg_x k).2]; omega

theorem dstart : ∀ x y, deval (dstep x y).1 x x = y := by
  intro x y; simp [deval, dstep]

/-- The old counterexample on this instance, with values: the query `x = 4` is answered by segment `[2,4]`
on the fresh store and by segment `[4,6]` when repeated (or after the query `5`) — but the VALUE is `9`
every time. -/
theorem segment_differs_value_equal :
    (getSeries dstep deval 0 5 (init dstep 0 1) 4).map Prod.snd = .ok ((2, 5), 2, 4) ∧
    (runQueries dstep deval 0 (init dstep 0 1) [(5, 4), (5, 4)]).map Prod.snd
      = .ok [((2, 5), 2, 4), ((4, 9), 4, 6)] ∧
    (runQueries dstep deval 0 (init dstep 0 1) [(5, 5), (5, 4)]).map Prod.snd
      = .ok [((4, 9), 4, 6), ((4, 9), 4, 6)] ∧
    interpValue dstep deval deval 0 5 (init dstep 0 1) 4 = .ok 9 ∧
    interpValue dstep deval deval 0 5
      ⟨[0, 2, 4], [((0, 1), 0, 2), ((2, 5), 2, 4)]⟩ 4 = .ok 9 ∧
    interpValue dstep deval deval 0 5
      ⟨[0, 2, 4, 6], [((0, 1), 0, 2), ((2, 5), 2, 4), ((4, 9), 4, 6)]⟩ 4 = .ok 9 := by
  decide

/-- `values_order_independent` on the toy instance at the boundary point `x = 4`: EVERY reachable store
that answers gives the value `9`. -/
example {st : Store (Int × Int) Int} (hr : Reachable dstep deval 0 1 st) {fuel : Nat} {v : Int}
    (h : interpValue dstep deval deval 0 fuel st 4 = .ok v) : v = 9 := by
  obtain ⟨k, h1, h2, _, h4⟩ := values_order_independent dprog (fun _ _ _ => rfl) dstart hr h
  rw [dbd] at h1 h2
  have : k = 2 := by omega
  subst this
  rw [h4]; decide

end Example2

end Calc
end Mp

section Audit2
open Mp.Calc
#print axioms seg_boundary_value
#print axioms getSeries_value
#print axioms values_order_independent
#print axioms values_order_independent'
#print axioms Example2.segment_differs_value_equal
end Audit2
