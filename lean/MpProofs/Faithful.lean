/-
  MpProofs/Faithful.lean — faithful rounding ("within one unit in the last place"):
  rounding to nearest a value `Y` that is within a relative distance `2^(-p-3)` of `Z`
  gives one of the two `p`-bit neighbours of `Z`.
-/
import MpProofs.Format
import Mathlib.Data.Int.Log
import Mathlib.Data.Rat.Floor

namespace Mp

/-- `y` is a faithful `p`-bit rounding of `x`: the greatest representable number below `x` or the least
one above it (so `y = x` when `x` is representable, and `|y - x|` is less than one unit in the last place). -/
def Faithful (p : ℕ) (x y : ℚ) : Prop := IsRoundF p x y ∨ IsRoundC p x y

theorem Faithful.neg {p : ℕ} {x y : ℚ} (h : Faithful p x y) : Faithful p (-x) (-y) := by
  rcases h with h | h
  · exact Or.inr (isRoundC_neg.2 h)
  · exact Or.inl (isRoundF_neg.2 h)

theorem Faithful.repb {p : ℕ} {x y : ℚ} (h : Faithful p x y) : Repb p y := by
  rcases h with h | h <;> exact h.1

/-- a faithful rounding of a representable number is the number itself -/
theorem Faithful.eq_of_repb {p : ℕ} {x y : ℚ} (h : Faithful p x y) (hx : Repb p x) : y = x := by
  rcases h with h | h
  · exact isRoundF_unique h (isRoundF_self hx)
  · exact isRoundC_unique h (isRoundC_self hx)

/-- every positive rational lies in a half-open `p`-bit cell -/
theorem exists_cell {p : ℕ} (hp : 0 < p) {Z : ℚ} (hZ : 0 < Z) :
    ∃ (q : ℕ) (E : ℤ), 2 ^ (p - 1) ≤ q ∧ q < 2 ^ p ∧ (q : ℚ) * 2 ^ E ≤ Z ∧ Z < ((q : ℚ) + 1) * 2 ^ E := by
  have h1 : (2 : ℚ) ^ (Int.log 2 Z) ≤ Z := by
    simpa using Int.zpow_log_le_self (b := 2) (by norm_num) hZ
  have h2 : Z < (2 : ℚ) ^ (Int.log 2 Z + 1) := by
    simpa using Int.lt_zpow_succ_log_self (b := 2) (by norm_num) Z
  generalize Int.log 2 Z = L at h1 h2
  obtain ⟨k, rfl⟩ : ∃ k, p = k + 1 := ⟨p - 1, by omega⟩
  simp only [Nat.add_sub_cancel]
  have hE : (0 : ℚ) < 2 ^ (L - k) := by positivity
  have e1 : (2 : ℚ) ^ L = 2 ^ k * 2 ^ (L - k) := by
    rw [← zpow_natCast, ← zpow_add₀ (by norm_num)]; congr 1; omega
  have e2 : (2 : ℚ) ^ (L + 1) = 2 ^ (k + 1) * 2 ^ (L - k) := by
    rw [← zpow_natCast, ← zpow_add₀ (by norm_num)]; congr 1; push_cast; omega
  have hy0 : 0 ≤ Z / 2 ^ (L - k) := by positivity
  have hy1 : (2 : ℚ) ^ k ≤ Z / 2 ^ (L - k) := by rw [le_div_iff₀ hE]; linarith
  have hy2 : Z / 2 ^ (L - k) < 2 ^ (k + 1) := by rw [div_lt_iff₀ hE]; linarith
  refine ⟨⌊Z / 2 ^ (L - k)⌋₊, L - k, ?_, ?_, ?_, ?_⟩
  · apply Nat.le_floor; push_cast; exact hy1
  · rw [Nat.floor_lt hy0]; push_cast; exact hy2
  · have := Nat.floor_le hy0
    rwa [le_div_iff₀ hE] at this
  · have := Nat.lt_floor_add_one (Z / 2 ^ (L - k))
    rwa [div_lt_iff₀ hE] at this

section near
variable {p : ℕ} (hp : 0 < p)
include hp

/-- positive case of `faithful_of_near` -/
theorem faithful_of_near_pos {Y Z r : ℚ} (hZ : 0 < Z) (hN : IsRoundN p Y r)
    (hnear : |Y - Z| ≤ Z * 2 ^ (-(p : ℤ) - 3)) : Faithful p Z r := by
  obtain ⟨q, E, hq1, hq2, hZ1, hZ2⟩ := exists_cell hp hZ
  have hu : (0 : ℚ) < 2 ^ E := by positivity
  -- the distance is below an eighth of the cell width
  have hd : |Y - Z| < 2 ^ E / 8 := by
    have hq2' : (q : ℚ) + 1 ≤ 2 ^ p := by exact_mod_cast hq2
    have e : (2 : ℚ) ^ p * 2 ^ E * 2 ^ (-(p : ℤ) - 3) = 2 ^ E / 8 := by
      rw [← zpow_natCast, ← zpow_add₀ (by norm_num), ← zpow_add₀ (by norm_num)]
      have : ((p : ℤ) + E + (-(p : ℤ) - 3)) = E - 3 := by ring
      rw [this, zpow_sub₀ (by norm_num)]; norm_num
    have hpos : (0 : ℚ) < 2 ^ (-(p : ℤ) - 3) := by positivity
    have : Z < 2 ^ p * 2 ^ E := by nlinarith
    have : Z * 2 ^ (-(p : ℤ) - 3) < 2 ^ p * 2 ^ E * 2 ^ (-(p : ℤ) - 3) := mul_lt_mul_of_pos_right this hpos
    linarith
  rw [abs_lt] at hd
  obtain ⟨hd1, hd2⟩ := hd
  have hFZ : IsRoundF p Z ((q : ℚ) * 2 ^ E) := isRoundF_of_cell hp hq1 hq2 hZ1 hZ2
  have hCZ : (q : ℚ) * 2 ^ E < Z → IsRoundC p Z (((q : ℚ) + 1) * 2 ^ E) :=
    fun h => isRoundC_of_cell hp hq1 hq2 h hZ2.le
  generalize hu' : (2 : ℚ) ^ E = u at *
  rcases lt_or_ge Y ((q : ℚ) * u) with hB | hA
  · -- (B) Y just below the lower end of the cell of Z: r = q·u
    have hr : r = (q : ℚ) * u := by
      rcases Nat.lt_or_eq_of_le hq1 with hgt | heq
      · have hpw := Nat.two_pow_pos (p - 1)
        obtain ⟨q', rfl⟩ : ∃ q', q = q' + 1 := ⟨q - 1, by omega⟩
        push_cast at hZ1 hZ2 hB
        have hq1' : 2 ^ (p - 1) ≤ q' := by omega
        have hq2' : q' < 2 ^ p := by omega
        have := isRoundN_of_cell_hi (K := ℚ) hp hq1' hq2' (E := E) (X := Y)
          (by rw [hu']; linarith) (by rw [hu']; linarith)
          (by rw [hu']; linarith)
        rw [hu'] at this
        have := isRoundN_unique hN this
        rw [this]; push_cast; ring
      · obtain ⟨t, ht⟩ : ∃ t, 2 ^ p = t + 1 := ⟨2 ^ p - 1, by have := Nat.two_pow_pos p; omega⟩
        have hpp : 2 ^ p = 2 * 2 ^ (p - 1) := by
          obtain ⟨k, rfl⟩ : ∃ k, p = k + 1 := ⟨p - 1, by omega⟩
          simp [pow_succ]; ring
        have hq1' : 2 ^ (p - 1) ≤ t := by have := Nat.two_pow_pos (p - 1); omega
        have hq2' : t < 2 ^ p := by omega
        have hu2 : (2 : ℚ) ^ (E - 1) = u / 2 := by rw [zpow_sub_one₀ (by norm_num), hu']; ring
        have htq : (t : ℚ) + 1 = 2 * q := by
          have : t + 1 = 2 * q := by omega
          exact_mod_cast this
        have := isRoundN_of_cell_hi (K := ℚ) hp hq1' hq2' (E := E - 1) (X := Y)
          (by rw [hu2]; nlinarith) (by rw [hu2]; nlinarith) (by rw [hu2]; nlinarith)
        rw [hu2] at this
        have := isRoundN_unique hN this
        rw [this, htq]; ring
    rw [hr]
    exact Or.inl hFZ
  · rcases le_or_gt Y (((q : ℚ) + 1) * u) with hA2 | hC
    · -- (A) Y in the closed cell of Z
      rcases lt_trichotomy (Y - (q : ℚ) * u) (((q : ℚ) + 1) * u - Y) with hlo | htie | hhi
      · have := isRoundN_of_cell_lo (K := ℚ) hp hq1 hq2 (E := E) (X := Y)
          (by rw [hu']; exact hA) (by rw [hu']; exact hA2) (by rw [hu']; exact hlo)
        rw [hu'] at this
        rw [isRoundN_unique hN this]
        exact Or.inl hFZ
      · have hF : IsRoundF p Z ((q : ℚ) * u) := hFZ
        have hC : IsRoundC p Z (((q : ℚ) + 1) * u) := hCZ (by linarith)
        rcases Nat.mod_two_eq_zero_or_one q with he | ho
        · have := isRoundN_of_cell_tie_even (K := ℚ) hp hq1 hq2 (E := E) (X := Y) (by rw [hu']; exact htie) he
          rw [hu'] at this
          rw [isRoundN_unique hN this]; exact Or.inl hF
        · have := isRoundN_of_cell_tie_odd (K := ℚ) hp hq1 hq2 (E := E) (X := Y) (by rw [hu']; exact htie) ho
          rw [hu'] at this
          rw [isRoundN_unique hN this]; exact Or.inr hC
      · have := isRoundN_of_cell_hi (K := ℚ) hp hq1 hq2 (E := E) (X := Y)
          (by rw [hu']; exact hA) (by rw [hu']; exact hA2) (by rw [hu']; exact hhi)
        rw [hu'] at this
        rw [isRoundN_unique hN this]
        exact Or.inr (hCZ (by linarith))
    · -- (C) Y just above the upper end of the cell of Z: r = (q+1)·u
      have hr : r = ((q : ℚ) + 1) * u := by
        rcases Nat.lt_or_ge (q + 1) (2 ^ p) with hlt | hge
        · have hq1' : 2 ^ (p - 1) ≤ q + 1 := by omega
          have := isRoundN_of_cell_lo (K := ℚ) hp hq1' hlt (E := E) (X := Y)
            (by rw [hu']; push_cast; linarith) (by rw [hu']; push_cast; linarith)
            (by rw [hu']; push_cast; linarith)
          rw [hu'] at this
          have := isRoundN_unique hN this
          rw [this]; push_cast; ring
        · have hpp : 2 ^ p = 2 * 2 ^ (p - 1) := by
            obtain ⟨k, rfl⟩ : ∃ k, p = k + 1 := ⟨p - 1, by omega⟩
            simp [pow_succ]; ring
          have hq1' : 2 ^ (p - 1) ≤ 2 ^ (p - 1) := le_refl _
          have hq2' : 2 ^ (p - 1) < 2 ^ p := by have := Nat.two_pow_pos (p - 1); omega
          have hu2 : (2 : ℚ) ^ (E + 1) = u * 2 := by rw [zpow_add_one₀ (by norm_num), hu']
          have htq : 2 * ((2 ^ (p - 1) : ℕ) : ℚ) = (q : ℚ) + 1 := by
            have : 2 * 2 ^ (p - 1) = q + 1 := by omega
            exact_mod_cast this
          have := isRoundN_of_cell_lo (K := ℚ) hp hq1' hq2' (E := E + 1) (X := Y)
            (by rw [hu2]; nlinarith) (by rw [hu2]; nlinarith) (by rw [hu2]; nlinarith)
          rw [hu2] at this
          have := isRoundN_unique hN this
          rw [this, ← htq]; ring
      rw [hr]
      exact Or.inr (hCZ (by linarith))

/-- **rounding to nearest a good approximation is faithful**: if `r` is `Y` rounded to nearest at `p` bits
and `Y` is within the relative distance `2^(-p-3)` of `Z`, then `r` is one of the two `p`-bit neighbours
of `Z` (or `Z` itself). -/
theorem faithful_of_near {Y Z r : ℚ} (hN : IsRoundN p Y r)
    (hnear : |Y - Z| ≤ |Z| * 2 ^ (-(p : ℤ) - 3)) : Faithful p Z r := by
  rcases lt_trichotomy Z 0 with hneg | h0 | hpos
  · have h1 : IsRoundN p (-Y) (-r) := isRoundN_neg.2 hN
    have h2 : |(-Y) - (-Z)| ≤ (-Z) * 2 ^ (-(p : ℤ) - 3) := by
      rw [abs_of_neg hneg] at hnear
      have : -Y - -Z = -(Y - Z) := by ring
      rw [this, abs_neg]; exact hnear
    have := (faithful_of_near_pos hp (by linarith) h1 h2).neg
    simpa using this
  · subst h0
    simp only [abs_zero, zero_mul, sub_zero] at hnear
    have hY : Y = 0 := abs_eq_zero.1 (le_antisymm hnear (abs_nonneg _))
    subst hY
    have := isRoundN_unique hN (isRoundN_self (repb_zero p))
    rw [this]; exact Or.inl (isRoundF_self (repb_zero p))
  · rw [abs_of_pos hpos] at hnear
    exact faithful_of_near_pos hp hpos hN hnear

/-- a faithful rounding has relative error below `2^(1-p)` -/
theorem Faithful.relerr {Z r : ℚ} (h : Faithful p Z r) : |r - Z| ≤ |Z| * 2 ^ (1 - (p : ℤ)) := by
  -- reduce to Z > 0
  wlog hpos : 0 < Z generalizing Z r
  · rcases eq_or_lt_of_le (not_lt.1 hpos) with h0 | hneg
    · subst h0
      have := h.eq_of_repb (repb_zero p)
      subst this; simp
    · have := this h.neg (by linarith)
      have e : -r - -Z = -(r - Z) := by ring
      rwa [e, abs_neg, abs_neg] at this
  obtain ⟨q, E, hq1, hq2, hZ1, hZ2⟩ := exists_cell hp hpos
  have hu : (0 : ℚ) < 2 ^ E := by positivity
  have hF := isRoundF_of_cell (K := ℚ) hp hq1 hq2 hZ1 hZ2
  -- the cell width is at most 2^(1-p)·Z
  have hw : (2 : ℚ) ^ E ≤ Z * 2 ^ (1 - (p : ℤ)) := by
    have hq1' : ((2 ^ (p - 1) : ℕ) : ℚ) ≤ q := by exact_mod_cast hq1
    have e : ((2 ^ (p - 1) : ℕ) : ℚ) * 2 ^ (1 - (p : ℤ)) = 1 := by
      push_cast
      rw [← zpow_natCast, ← zpow_add₀ (by norm_num)]
      have : (((p - 1 : ℕ) : ℤ) + (1 - (p : ℤ))) = 0 := by omega
      rw [this, zpow_zero]
    have hpos2 : (0 : ℚ) < 2 ^ (1 - (p : ℤ)) := by positivity
    have : (2 : ℚ) ^ E = (((2 ^ (p - 1) : ℕ) : ℚ) * 2 ^ E) * 2 ^ (1 - (p : ℤ)) := by
      rw [mul_right_comm, e, one_mul]
    rw [this]
    apply mul_le_mul_of_nonneg_right _ hpos2.le
    calc ((2 ^ (p - 1) : ℕ) : ℚ) * 2 ^ E ≤ (q : ℚ) * 2 ^ E := mul_le_mul_of_nonneg_right hq1' hu.le
      _ ≤ Z := hZ1
  rw [abs_of_pos hpos]
  rcases h with h | h
  · rw [isRoundF_unique h hF, abs_of_nonpos (by linarith)]
    linarith
  · rcases eq_or_lt_of_le hZ1 with heq | hlt
    · have hrep : Repb p Z := by rw [← heq]; exact repb_nat hq2 E
      rw [isRoundC_unique h (isRoundC_self hrep)]; simp; positivity
    · have hC := isRoundC_of_cell (K := ℚ) hp hq1 hq2 hlt hZ2.le
      rw [isRoundC_unique h hC, abs_of_nonneg (by linarith)]
      linarith

theorem isRoundF_pos {x y : ℚ} (hx : 0 < x) (h : IsRoundF p x y) : 0 < y := by
  obtain ⟨q, E, hq1, hq2, h1, h2⟩ := exists_cell hp hx
  rw [isRoundF_unique h (isRoundF_of_cell hp hq1 hq2 h1 h2)]
  have : 0 < q := lt_of_lt_of_le (Nat.two_pow_pos _) hq1
  have : (0 : ℚ) < q := by exact_mod_cast this
  positivity

theorem isRoundN_pos {x y : ℚ} (hx : 0 < x) (h : IsRoundN p x y) : 0 < y := by
  obtain ⟨q, E, hq1, hq2, h1, h2⟩ := exists_cell hp hx
  have hq0 : 0 < q := lt_of_lt_of_le (Nat.two_pow_pos _) hq1
  have hq0' : (0 : ℚ) < q := by exact_mod_cast hq0
  have hf : (0 : ℚ) < (q : ℚ) * 2 ^ E := by positivity
  by_contra hy
  push_neg at hy
  have key : |x - y| ≤ |x - (q : ℚ) * 2 ^ E| := by
    rcases h.2 _ (repb_nat (K := ℚ) hq2 E) with h' | h'
    · exact h'.le
    · exact h'.1.le
  rw [abs_of_nonneg (by linarith), abs_of_nonneg (by linarith)] at key
  linarith

/-- a correctly rounded value has the sign of the rounded number (the exponent range is unbounded) -/
theorem isRound_pos {rnd : Rnd} {x y : ℚ} (hx : 0 < x) (h : IsRound p rnd x y) : 0 < y := by
  cases rnd <;> simp only [IsRound, hx.le, if_true] at h
  · exact isRoundN_pos hp hx h
  · exact isRoundF_pos hp hx h
  · exact lt_of_lt_of_le hx h.2.1
  · exact lt_of_lt_of_le hx h.2.1
  · exact isRoundF_pos hp hx h

theorem isRound_neg' {rnd : Rnd} {x y : ℚ} (hx : x < 0) (h : IsRound p rnd x y) : y < 0 := by
  have hn : ¬ (0 ≤ x) := by linarith
  have hx' : 0 < -x := by linarith
  cases rnd <;> simp only [IsRound, hn, if_false] at h
  · have := isRoundN_pos hp hx' (isRoundN_neg.2 h); linarith
  · exact lt_of_le_of_lt h.2.1 hx
  · have h' : IsRoundF p (-x) (-y) := isRoundF_neg.2 h
    have := isRoundF_pos hp hx' h'; linarith
  · exact lt_of_le_of_lt h.2.1 hx
  · have h' : IsRoundF p (-x) (-y) := isRoundF_neg.2 h
    have := isRoundF_pos hp hx' h'; linarith

end near

end Mp
