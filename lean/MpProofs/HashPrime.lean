/-
  MpProofs/HashPrime.lean — P = 2^61 - 1 is prime (Lucas–Lehmer), hence `mpq.__hash__`'s test
  `not pow(b, P-2, P)` is the documentation's test `b % P == 0`.
  Kept apart from MpProofs/Hash.lean because of the heavier Mathlib import.
-/
import MpProofs.Hash
import Mathlib.NumberTheory.LucasLehmer

namespace Mp

theorem pyP_prime : Nat.Prime pyP := by
  have h : Nat.Prime (mersenne 61) := lucas_lehmer_sufficiency 61 (by norm_num) (by norm_num)
  have : mersenne 61 = pyP := by decide
  rwa [this] at h

theorem powMod_inv_eq_zero_iff (b : Nat) : powMod b (pyP - 2) pyP = 0 ↔ b % pyP = 0 := by
  rw [powMod_eq]
  constructor
  · intro h
    have hd : pyP ∣ b ^ (pyP - 2) := Nat.dvd_of_mod_eq_zero h
    exact Nat.mod_eq_zero_of_dvd (pyP_prime.dvd_of_dvd_pow hd)
  · intro h
    have hd : pyP ∣ b := Nat.dvd_of_mod_eq_zero h
    have : pyP ∣ b ^ (pyP - 2) := dvd_pow hd (by decide)
    exact Nat.mod_eq_zero_of_dvd this

end Mp
