/-
  MpProofs/LoopSkel.lean — termination lemmas for the loop classes of MpModel/LoopSkel.lean (property C24).
-/
import MpModel.Core
import MpModel.LoopSkel
import MpProofs.Bits
import Mathlib.Tactic.Ring
import Mathlib.Tactic.Linarith
import Mathlib.Tactic.Push
import Mathlib.Tactic.SplitIfs
import Mathlib.Algebra.Order.Ring.Int

namespace Mp
namespace LoopSkel

variable {σ : Type}

/-! ### generic facts -/

theorem Loop.ExitsWithin.mono {L : Loop σ} {s : σ} {N M : Nat} (h : L.ExitsWithin s N) (hNM : N ≤ M) :
    L.ExitsWithin s M := by
  obtain ⟨k, hk, hc⟩ := h
  exact ⟨k, Nat.le_trans hk hNM, hc⟩

theorem Loop.not_exits_of_diverges {L : Loop σ} {s : σ} (h : L.Diverges s) (N : Nat) : ¬ L.ExitsWithin s N := by
  rintro ⟨k, _, hc⟩
  rw [h k] at hc
  exact Bool.noConfusion hc

/-- the executable semantics agrees with `ExitsWithin`: with fuel `f`, starting from iteration `k`,
    the run returns as soon as the test fails within the next `f` iterations. -/
theorem Loop.run_isSome_aux (L : Loop σ) (s : σ) :
    ∀ (f k : Nat), (∃ j, j ≤ f ∧ L.cond (L.state s (k + j)) = false) → (L.run f k (L.state s k)).isSome := by
  intro f
  induction f with
  | zero =>
    rintro k ⟨j, hj, hc⟩
    have : j = 0 := by omega
    subst this
    simp only [Nat.add_zero] at hc
    simp [Loop.run, hc]
  | succ f ih =>
    rintro k ⟨j, hj, hc⟩
    unfold Loop.run
    by_cases hck : L.cond (L.state s k) = true
    · rw [if_pos hck]
      have hj0 : j ≠ 0 := by
        rintro rfl
        simp only [Nat.add_zero] at hc
        rw [hck] at hc; exact Bool.noConfusion hc
      have := ih (k+1) ⟨j - 1, by omega, by rw [show k + 1 + (j - 1) = k + j by omega]; exact hc⟩
      simpa [Loop.state] using this
    · rw [if_neg hck]; rfl

theorem Loop.run_isSome_of_exitsWithin {L : Loop σ} {s : σ} {N : Nat} (h : L.ExitsWithin s N) :
    (L.run N 0 s).isSome := by
  obtain ⟨k, hk, hc⟩ := h
  exact L.run_isSome_aux s N 0 ⟨k, hk, by simpa using hc⟩

theorem Loop.measure_aux (L : Loop σ) (inv : σ → Prop) (μ : σ → Nat)
    (hinv : ∀ k s, inv s → L.cond s = true → inv (L.body k s))
    (hdec : ∀ k s, inv s → L.cond s = true → μ (L.body k s) < μ s)
    (s : σ) (hs : inv s) :
    ∀ k, (∀ j, j < k → L.cond (L.state s j) = true) → inv (L.state s k) ∧ μ (L.state s k) + k ≤ μ s := by
  intro k
  induction k with
  | zero => intro _; exact ⟨hs, by simp [Loop.state]⟩
  | succ k ih =>
    intro h
    have ⟨hi, hm⟩ := ih (fun j hj => h j (by omega))
    have hc := h k (by omega)
    refine ⟨hinv k _ hi hc, ?_⟩
    have := hdec k _ hi hc
    simp only [Loop.state]
    omega

/-- a natural-number measure that strictly decreases on every executed body bounds the iteration count -/
theorem Loop.exitsWithin_of_measure (L : Loop σ) (inv : σ → Prop) (μ : σ → Nat)
    (hinv : ∀ k s, inv s → L.cond s = true → inv (L.body k s))
    (hdec : ∀ k s, inv s → L.cond s = true → μ (L.body k s) < μ s)
    (s : σ) (hs : inv s) : L.ExitsWithin s (μ s) := by
  by_contra hne
  have hall : ∀ j, j < μ s + 1 → L.cond (L.state s j) = true := by
    intro j hj
    by_contra hc
    exact hne ⟨j, by omega, by simpa using hc⟩
  have := (L.measure_aux inv μ hinv hdec s hs (μ s + 1) hall).2
  omega

/-- an invariant that implies the loop test makes the loop diverge -/
theorem Loop.diverges_of_invariant (L : Loop σ) (inv : σ → Prop)
    (hinv : ∀ k s, inv s → inv (L.body k s)) (hc : ∀ s, inv s → L.cond s = true)
    (s : σ) (hs : inv s) : L.Diverges s := by
  have : ∀ k, inv (L.state s k) := by
    intro k; induction k with
    | zero => exact hs
    | succ k ih => exact hinv k _ ih
  exact fun k => hc _ (this k)

/-! ### counters -/

theorem ceil_div_mul_ge (a s : Nat) (hs : 1 ≤ s) : a ≤ (a + s - 1) / s * s := by
  have h1 := Nat.div_add_mod (a + s - 1) s
  have h2 := Nat.mod_lt (a + s - 1) (show 0 < s by omega)
  have h3 : s * ((a + s - 1) / s) = (a + s - 1) / s * s := Nat.mul_comm _ _
  omega

theorem counterLoop_state_ge (n : Int) (inc : Nat → Nat) (step : Nat) (h : ∀ k, step ≤ inc k) (i : Int) :
    ∀ k, i + (k * step : Nat) ≤ (counterLoop n inc).state i k := by
  intro k
  induction k with
  | zero => simp [Loop.state]
  | succ k ih =>
    simp only [Loop.state, counterLoop] at ih ⊢
    have := h k
    have e : ((k + 1) * step : Nat) = k * step + step := by ring
    rw [e]; push_cast at ih ⊢
    have : (step : Int) ≤ (inc k : Int) := by exact_mod_cast this
    linarith

/-- `while i < n: i += c` with every increment ≥ step ≥ 1 runs at most ⌈(n-i)/step⌉ bodies -/
theorem counter_terminates (step : Nat) (hstep : 1 ≤ step) (n i : Int) (inc : Nat → Nat)
    (hinc : ∀ k, step ≤ inc k) :
    (counterLoop n inc).ExitsWithin i (((n - i).toNat + step - 1) / step) := by
  refine ⟨((n - i).toNat + step - 1) / step, Nat.le_refl _, ?_⟩
  have h1 := counterLoop_state_ge n inc step hinc i (((n - i).toNat + step - 1) / step)
  have h2 := ceil_div_mul_ge (n - i).toNat step hstep
  have h3 : ((n - i).toNat : Int) ≤ ((((n - i).toNat + step - 1) / step * step : Nat) : Int) := by
    exact_mod_cast h2
  have h4 : n - i ≤ ((n - i).toNat : Int) := Int.self_le_toNat _
  simp only [counterLoop, decide_eq_false_iff_not, not_lt] at h1 ⊢
  linarith

/-- `while n: n -= 1` from `n ≥ 0` runs exactly `n` bodies -/
theorem countdown_terminates (n : Int) (hn : 0 ≤ n) : countdownLoop.ExitsWithin n n.toNat := by
  have := countdownLoop.exitsWithin_of_measure (fun v => 0 ≤ v) Int.toNat
    (by
      intro k s hs hc
      simp only [countdownLoop, bne_iff_ne, ne_eq] at hc ⊢
      omega)
    (by
      intro k s hs hc
      simp only [countdownLoop, bne_iff_ne, ne_eq] at hc ⊢
      omega)
    n hn
  exact this

/-- … and never exits from a negative start -/
theorem countdown_negative_diverges (n : Int) (hn : n < 0) : countdownLoop.Diverges n := by
  apply countdownLoop.diverges_of_invariant (fun v => v < 0)
  · intro k s hs; simp only [countdownLoop]; omega
  · intro s hs; simp only [countdownLoop, bne_iff_ne, ne_eq]; omega
  · exact hn

/-! ### halving -/

theorem bitcount_div_lt {m d : Nat} (hm : m ≠ 0) (hd : 2 ≤ d) : bitcount (m / d) < bitcount m := by
  have h1 : m / d ≤ m / 2 := Nat.div_le_div_left hd (by omega)
  have h2 := bitcount_mono h1
  have hp := bitcount_pos hm
  by_cases hb : 1 < bitcount m
  · have h3 : bitcount (m / 2) = bitcount m - 1 := by
      simpa using bitcount_div (n := m) (k := 1) hb
    omega
  · have h1' : bitcount m = 1 := by omega
    have h4 := bitcount_lt m
    rw [h1'] at h4
    have h5 : m / d = 0 := Nat.div_eq_of_lt (by omega)
    rw [h5, h1']; simp

/-- `while n: n //= d` (d ≥ 2, n ≥ 0) runs at most `bitcount n` bodies -/
theorem halving_terminates (d : Nat) (hd : 2 ≤ d) (n : Int) (hn : 0 ≤ n) :
    (divLoop d).ExitsWithin n (bitcount n.toNat) := by
  apply (divLoop d).exitsWithin_of_measure (fun v => 0 ≤ v) (fun v => bitcount v.toNat)
  · intro k s hs hc
    simp only [divLoop]
    exact Int.ediv_nonneg hs (by omega)
  · intro k s hs hc
    simp only [divLoop, bne_iff_ne, ne_eq] at hc ⊢
    obtain ⟨m, rfl⟩ := Int.eq_ofNat_of_zero_le hs
    have hm : m ≠ 0 := by intro h; apply hc; simp [h]
    have : ((m : Int) / (d : Int)) = ((m / d : Nat) : Int) := by norm_cast
    rw [this, Int.toNat_natCast, Int.toNat_natCast]
    simpa using bitcount_div_lt hm hd
  · exact hn

/-- from a negative start `n //= d` sticks at −1: the loop `while n:` never exits -/
theorem halving_negative_diverges (d : Nat) (hd : 1 ≤ d) (n : Int) (hn : n < 0) : (divLoop d).Diverges n := by
  apply (divLoop d).diverges_of_invariant (fun v => v < 0)
  · intro k s hs
    simp only [divLoop]
    exact Int.ediv_neg_of_neg_of_pos hs (by omega)
  · intro s hs; simp only [divLoop, bne_iff_ne, ne_eq]; omega
  · exact hn

/-- `while not n % p: n //= p` (p ≥ 2, n ≠ 0) runs at most `bitcount n` bodies -/
theorem strip_terminates (p : Nat) (hp : 2 ≤ p) (n : Nat) (hn : n ≠ 0) :
    (stripLoop p).ExitsWithin n (bitcount n) := by
  apply (stripLoop p).exitsWithin_of_measure (fun v => v ≠ 0) bitcount
  · intro k s hs hc
    simp only [stripLoop, beq_iff_eq] at hc ⊢
    have := Nat.div_add_mod s p
    intro h0
    rw [h0, hc] at this
    simp at this
    exact hs this.symm
  · intro k s hs hc
    exact bitcount_div_lt hs hp
  · exact hn

theorem strip_zero_diverges (p : Nat) : (stripLoop p).Diverges 0 := by
  apply (stripLoop p).diverges_of_invariant (fun v => v = 0)
  · intro k s hs; subst hs; simp [stripLoop]
  · intro s hs; subst hs; simp [stripLoop]
  · rfl

/-! ### Euclid -/

theorem natAbs_fmod_lt (a b : Int) (hb : b ≠ 0) : (Int.fmod a b).natAbs < b.natAbs := by
  rw [Int.fmod_eq_emod]
  have h1 := Int.emod_nonneg a hb
  have h2 := Int.emod_lt a hb
  split
  · omega
  · rename_i h
    push Not at h
    have h3 : a % b ≠ 0 := fun h0 => h.2 (Int.dvd_of_emod_eq_zero h0)
    omega

/-- `while b: a, b = b, a % b` runs at most `|b|` bodies (any signs) -/
theorem euclid_terminates (a b : Int) : euclidLoop.ExitsWithin (a, b) b.natAbs := by
  apply euclidLoop.exitsWithin_of_measure (fun _ => True) (fun s => s.2.natAbs)
  · intros; trivial
  · intro k s _ hc
    simp only [euclidLoop, bne_iff_ne, ne_eq] at hc ⊢
    exact natAbs_fmod_lt _ _ hc
  · trivial

/-! ### fixed-point decay -/

theorem two_pow_pos_int (n : Nat) : (0 : Int) < ((2 ^ n : Nat) : Int) := by
  have := Nat.two_pow_pos n
  exact_mod_cast this

/-- `0 ≤ v`, `0 ≤ r ≤ 2^b`, `b < p`: `0 ≤ (v*r) >> p ≤ v / 2^(p-b)` -/
theorem mulShift_nonneg_bounds {p b : Nat} (hb : b < p) {v r : Int} (hv : 0 ≤ v) (hr0 : 0 ≤ r)
    (hr : r ≤ 2 ^ b) : 0 ≤ (v * r) >>> p ∧ (v * r) >>> p ≤ v / ((2 ^ (p - b) : Nat) : Int) := by
  rw [Int.shiftRight_eq_div_pow]
  have hp := two_pow_pos_int p
  have hq := two_pow_pos_int (p - b)
  have hB := two_pow_pos_int b
  refine ⟨Int.ediv_nonneg (Int.mul_nonneg hv hr0) (le_of_lt hp), ?_⟩
  apply Int.le_ediv_of_mul_le hq
  -- X * q ≤ v  ⇐  X * q * 2^b ≤ v * 2^b
  have h1 : (v * r) / ((2 ^ p : Nat) : Int) * ((2 ^ p : Nat) : Int) ≤ v * r :=
    Int.ediv_mul_le _ (ne_of_gt hp)
  have h2 : v * r ≤ v * 2 ^ b := Int.mul_le_mul_of_nonneg_left hr hv
  have h3 : ((2 ^ p : Nat) : Int) = ((2 ^ (p - b) : Nat) : Int) * ((2 ^ b : Nat) : Int) := by
    rw [← Nat.cast_mul, ← Nat.pow_add]; congr 2; omega
  have h4 : ((2 ^ b : Nat) : Int) = 2 ^ b := by push_cast; rfl
  rw [← h4] at h2
  have h1' : (v * r) / ((2 ^ p : Nat) : Int) * ((2 ^ (p - b) : Nat) : Int) * ((2 ^ b : Nat) : Int) ≤ v * r := by
    rw [mul_assoc, ← h3]; exact h1
  exact le_of_mul_le_mul_right (le_trans h1' h2) hB

/-- `v ≤ 0`, `0 ≤ r ≤ 2^b`, `b ≤ p`: `v ≤ (v*r) >> p ≤ 0` (floor: a negative `v` never gets past −1 if r > 0) -/
theorem mulShift_nonpos_bounds {p b : Nat} (hb : b ≤ p) {v r : Int} (hv : v ≤ 0) (hr0 : 0 ≤ r)
    (hr : r ≤ 2 ^ b) : v ≤ (v * r) >>> p ∧ (v * r) >>> p ≤ 0 := by
  rw [Int.shiftRight_eq_div_pow]
  have hp := two_pow_pos_int p
  constructor
  · apply Int.le_ediv_of_mul_le hp
    have h2 : v * 2 ^ b ≤ v * r := Int.mul_le_mul_of_nonpos_left hv hr
    have h3 : (2 : Int) ^ b ≤ ((2 ^ p : Nat) : Int) := by
      push_cast
      exact pow_le_pow_right₀ (by norm_num) hb
    have h4 : v * ((2 ^ p : Nat) : Int) ≤ v * 2 ^ b := Int.mul_le_mul_of_nonpos_left hv h3
    exact le_trans h4 h2
  · have hneg : v * r ≤ 0 := Int.mul_nonpos_of_nonpos_of_nonneg hv hr0
    have : v * r / ((2 ^ p : Nat) : Int) < 1 := Int.ediv_lt_of_lt_mul hp (by linarith)
    omega

theorem floorDiv_nonneg_bounds {v d : Int} (hv : 0 ≤ v) (hd : 1 ≤ d) : 0 ≤ v / d ∧ v / d ≤ v :=
  ⟨Int.ediv_nonneg hv (by omega), Int.ediv_le_self d hv⟩

theorem floorDiv_two_bound {v d : Int} (hv : 0 ≤ v) (hd : 2 ≤ d) : v / d ≤ v / 2 := by
  apply Int.le_ediv_of_mul_le (by norm_num)
  have h1 : v / d * d ≤ v := Int.ediv_mul_le _ (by omega)
  have h0 : 0 ≤ v / d := Int.ediv_nonneg hv (by omega)
  nlinarith

theorem floorDiv_nonpos_bounds {v d : Int} (hv : v ≤ 0) (hd : 1 ≤ d) : v ≤ v / d ∧ v / d ≤ 0 := by
  constructor
  · apply Int.le_ediv_of_mul_le (by omega)
    nlinarith
  · have : v / d < 1 := Int.ediv_lt_of_lt_mul (by omega) (by linarith)
    omega

/-- pure ops (no negation) on `v ≥ 0`: the result stays in `[0, v]`, and in `[0, v / 2^(p-b)]` as soon as one of
    the ops is a `mulShift`. -/
theorem applyOps_pure_bounds {p b : Nat} (hb : b < p) (env : Nat → Int × Int)
    (henv : ∀ j, 0 ≤ (env j).1 ∧ (env j).1 ≤ 2 ^ b ∧ 1 ≤ (env j).2) :
    ∀ (ops : List DecayOp) (j : Nat) (v : Int), ops.all DecayOp.isPure = true → 0 ≤ v →
      0 ≤ applyOps p env ops j v ∧ applyOps p env ops j v ≤ v ∧
      (ops.contains DecayOp.mulShift = true → applyOps p env ops j v ≤ v / ((2 ^ (p - b) : Nat) : Int)) := by
  intro ops
  induction ops with
  | nil => intro j v _ hv; simp [applyOps, hv]
  | cons op ops ih =>
    intro j v hpure hv
    simp only [List.all_cons, Bool.and_eq_true] at hpure
    obtain ⟨hop, hrest⟩ := hpure
    obtain ⟨hr0, hr1, hd⟩ := henv j
    have hq := two_pow_pos_int (p - b)
    simp only [applyOps]
    cases op with
    | mulShift =>
      simp only [DecayOp.apply]
      obtain ⟨m0, m1⟩ := mulShift_nonneg_bounds hb hv hr0 hr1
      obtain ⟨i0, i1, _⟩ := ih (j+1) _ hrest m0
      have hle : v / ((2 ^ (p - b) : Nat) : Int) ≤ v := Int.ediv_le_self _ hv
      exact ⟨i0, by linarith, fun _ => by linarith⟩
    | floorDiv =>
      simp only [DecayOp.apply]
      obtain ⟨m0, m1⟩ := floorDiv_nonneg_bounds hv hd
      obtain ⟨i0, i1, i2⟩ := ih (j+1) _ hrest m0
      refine ⟨i0, by linarith, fun hc => ?_⟩
      have hc' : ops.contains DecayOp.mulShift = true := by
        simpa [List.contains_cons] using hc
      have := i2 hc'
      have hmono : (v / (env j).2) / ((2 ^ (p - b) : Nat) : Int) ≤ v / ((2 ^ (p - b) : Nat) : Int) :=
        Int.ediv_le_ediv hq m1
      linarith
    | negMulShift => simp [DecayOp.isPure] at hop
    | neg => simp [DecayOp.isPure] at hop

theorem decay_state_bound {p b : Nat} (hb : b < p) (ops : List DecayOp) (m : Nat) (env : Nat → Nat → Int × Int)
    (henv : EnvOK p b 1 env) (hpure : ops.all DecayOp.isPure = true) (hmul : ops.contains .mulShift = true)
    (v : Int) (hv : 0 ≤ v) :
    ∀ k, 0 ≤ (decayLoop p ops m env).state v k ∧
      (decayLoop p ops m env).state v k * ((2 ^ (p - b) : Nat) : Int) ^ k ≤ v := by
  intro k
  induction k with
  | zero => simp [Loop.state, hv]
  | succ k ih =>
    obtain ⟨h0, h1⟩ := ih
    have hq := two_pow_pos_int (p - b)
    obtain ⟨a0, _, a2⟩ := applyOps_pure_bounds hb (env k) (henv k) ops 0 _ hpure h0
    have a3 := a2 hmul
    simp only [Loop.state, decayLoop] at h0 h1 a0 a3 ⊢
    refine ⟨a0, ?_⟩
    set s := (decayLoop p ops m env).state v k with hs
    simp only [decayLoop] at hs
    rw [← hs] at a0 a3 h0 h1 ⊢
    have h4 : s / ((2 ^ (p - b) : Nat) : Int) * ((2 ^ (p - b) : Nat) : Int) ≤ s :=
      Int.ediv_mul_le _ (ne_of_gt hq)
    have h5 : applyOps p (env k) ops 0 s * ((2 ^ (p - b) : Nat) : Int) ≤ s :=
      le_trans (Int.mul_le_mul_of_nonneg_right a3 (le_of_lt hq)) h4
    have hqk : (0 : Int) ≤ ((2 ^ (p - b) : Nat) : Int) ^ k := pow_nonneg (le_of_lt hq) k
    calc applyOps p (env k) ops 0 s * ((2 ^ (p - b) : Nat) : Int) ^ (k + 1)
        = (applyOps p (env k) ops 0 s * ((2 ^ (p - b) : Nat) : Int)) * ((2 ^ (p - b) : Nat) : Int) ^ k := by ring
      _ ≤ s * ((2 ^ (p - b) : Nat) : Int) ^ k := Int.mul_le_mul_of_nonneg_right h5 hqk
      _ ≤ v := h1

/-- **fixdecay**: `while abs(v) > m: v = (v*r) >> p …` from `v ≥ 0` with multipliers `0 ≤ r ≤ 2^b`, `b < p`, and
    divisors ≥ 1 exits within `K` bodies for every `K` with `bitcount v ≤ (p-b)·K`. -/
theorem fixdecay_terminates_rate {p b : Nat} (hb : b < p) (ops : List DecayOp) (m : Nat)
    (env : Nat → Nat → Int × Int) (henv : EnvOK p b 1 env)
    (hpure : ops.all DecayOp.isPure = true) (hmul : ops.contains .mulShift = true)
    (v : Int) (hv : 0 ≤ v) (K : Nat) (hK : bitcount v.toNat ≤ (p - b) * K) :
    (decayLoop p ops m env).ExitsWithin v K := by
  refine ⟨K, Nat.le_refl _, ?_⟩
  obtain ⟨h0, h1⟩ := decay_state_bound hb ops m env henv hpure hmul v hv K
  have hlt : v.toNat < 2 ^ ((p - b) * K) :=
    lt_of_lt_of_le (bitcount_lt v.toNat) (Nat.pow_le_pow_right (by norm_num) hK)
  have hlt' : v < ((2 ^ (p - b) : Nat) : Int) ^ K := by
    have : (v.toNat : Int) < ((2 ^ ((p - b) * K) : Nat) : Int) := by exact_mod_cast hlt
    rw [Int.toNat_of_nonneg hv] at this
    rw [← Nat.cast_pow, ← Nat.pow_mul]; exact this
  have hz : (decayLoop p ops m env).state v K = 0 := by
    by_contra hne
    have h1' : 1 ≤ (decayLoop p ops m env).state v K := by omega
    have hqK : (0 : Int) ≤ ((2 ^ (p - b) : Nat) : Int) ^ K := pow_nonneg (le_of_lt (two_pow_pos_int _)) K
    nlinarith
  simp only [decayLoop] at hz
  simp [decayLoop, hz]

/-- crude corollary without a rate: at most `bitcount v` bodies -/
theorem fixdecay_terminates {p b : Nat} (hb : b < p) (ops : List DecayOp) (m : Nat)
    (env : Nat → Nat → Int × Int) (henv : EnvOK p b 1 env)
    (hpure : ops.all DecayOp.isPure = true) (hmul : ops.contains .mulShift = true)
    (v : Int) (hv : 0 ≤ v) : (decayLoop p ops m env).ExitsWithin v (bitcount v.toNat) := by
  apply fixdecay_terminates_rate hb ops m env henv hpure hmul v hv
  have : 1 ≤ p - b := by omega
  calc bitcount v.toNat = 1 * bitcount v.toNat := by ring
    _ ≤ (p - b) * bitcount v.toNat := Nat.mul_le_mul_right _ this

/-- pure ops map a negative `v` to a negative value when every multiplier is ≥ 1: `(v*r) >> p` is a FLOOR. -/
theorem applyOps_pure_neg {p : Nat} (env : Nat → Int × Int)
    (henv : ∀ j, 1 ≤ (env j).1 ∧ 1 ≤ (env j).2) :
    ∀ (ops : List DecayOp) (j : Nat) (v : Int), ops.all DecayOp.isPure = true → v < 0 →
      applyOps p env ops j v < 0 := by
  intro ops
  induction ops with
  | nil => intro j v _ hv; simpa [applyOps] using hv
  | cons op ops ih =>
    intro j v hpure hv
    simp only [List.all_cons, Bool.and_eq_true] at hpure
    obtain ⟨hop, hrest⟩ := hpure
    obtain ⟨hr, hd⟩ := henv j
    simp only [applyOps]
    cases op with
    | mulShift =>
      apply ih (j+1) _ hrest
      simp only [DecayOp.apply, Int.shiftRight_eq_div_pow]
      exact Int.ediv_neg_of_neg_of_pos (by nlinarith) (two_pow_pos_int p)
    | floorDiv =>
      apply ih (j+1) _ hrest
      simp only [DecayOp.apply]
      exact Int.ediv_neg_of_neg_of_pos hv (by omega)
    | negMulShift => simp [DecayOp.isPure] at hop
    | neg => simp [DecayOp.isPure] at hop

/-- **the signed trap**: a `while v:` decay loop without sign flips entered with `v < 0` and nonzero multipliers
    never exits (it sticks at −1). -/
theorem fixdecay_negative_sticks (p : Nat) (ops : List DecayOp) (env : Nat → Nat → Int × Int)
    (henv : ∀ k j, 1 ≤ (env k j).1 ∧ 1 ≤ (env k j).2) (hpure : ops.all DecayOp.isPure = true)
    (v : Int) (hv : v < 0) : (decayLoop p ops 0 env).Diverges v := by
  apply (decayLoop p ops 0 env).diverges_of_invariant (fun v => v < 0)
  · intro k s hs
    exact applyOps_pure_neg (env k) (henv k) ops 0 s hpure hs
  · intro s hs
    simp only [decayLoop, decide_eq_true_eq]; omega
  · exact hv

theorem cosSin_body (p : Nat) (env : Nat → Int × Int) (v : Int) :
    applyOps p env cosSinOps 0 v =
      -((((v / (env 0).2 * (env 1).1) >>> p) / (env 2).2 * (env 3).1) >>> p) := by
  simp [applyOps, cosSinOps, DecayOp.apply]

/-- one pass of the `cos_sin_basecase` body: a positive value becomes a non-positive one of at most half the size,
    a negative value a non-negative one of at most the same size. -/
theorem cosSin_step {p b : Nat} (hb : b < p) (env : Nat → Int × Int)
    (henv : ∀ j, 0 ≤ (env j).1 ∧ (env j).1 ≤ 2 ^ b ∧ 2 ≤ (env j).2) (v : Int) :
    (0 < v → -(v / 2) ≤ applyOps p env cosSinOps 0 v ∧ applyOps p env cosSinOps 0 v ≤ 0) ∧
    (v < 0 → 0 ≤ applyOps p env cosSinOps 0 v ∧ applyOps p env cosSinOps 0 v ≤ -v) := by
  rw [cosSin_body]
  obtain ⟨_, _, d0⟩ := henv 0
  obtain ⟨r1a, r1b, _⟩ := henv 1
  obtain ⟨_, _, d2⟩ := henv 2
  obtain ⟨r3a, r3b, _⟩ := henv 3
  have hq := two_pow_pos_int (p - b)
  constructor
  · intro hv
    have a1 := floorDiv_nonneg_bounds (le_of_lt hv) (show 1 ≤ (env 0).2 by omega)
    have a1' := floorDiv_two_bound (le_of_lt hv) d0
    have a2 := mulShift_nonneg_bounds hb a1.1 r1a r1b
    have a2' : (v / (env 0).2 * (env 1).1) >>> p ≤ v / (env 0).2 :=
      le_trans a2.2 (Int.ediv_le_self _ a1.1)
    have a3 := floorDiv_nonneg_bounds a2.1 (show 1 ≤ (env 2).2 by omega)
    have a4 := mulShift_nonneg_bounds hb a3.1 r3a r3b
    have a4' := le_trans a4.2 (Int.ediv_le_self _ a3.1)
    omega
  · intro hv
    have a1 := floorDiv_nonpos_bounds (le_of_lt hv) (show 1 ≤ (env 0).2 by omega)
    have a2 := mulShift_nonpos_bounds (le_of_lt hb) a1.2 r1a r1b
    have a3 := floorDiv_nonpos_bounds a2.2 (show 1 ≤ (env 2).2 by omega)
    have a4 := mulShift_nonpos_bounds (le_of_lt hb) a3.2 r3a r3b
    omega

def altMeasure (v : Int) : Nat := 2 * v.natAbs + (if v < 0 then 1 else 0)

theorem altMeasure_lt (s w : Int) (hs : s ≠ 0) (hpos : 0 < s → -(s / 2) ≤ w ∧ w ≤ 0)
    (hneg : s < 0 → 0 ≤ w ∧ w ≤ -s) : altMeasure w < altMeasure s := by
  unfold altMeasure
  rcases lt_trichotomy s 0 with h | h | h
  · have := hneg h; split_ifs <;> omega
  · exact absurd h hs
  · have := hpos h; split_ifs <;> omega

/-- **fixdecay, alternating body of `cos_sin_basecase`** (`a //= k; a = (a*x)>>prec; a //= k; a = -((a*x)>>prec)`):
    from ANY start (either sign) the loop exits within `2|v|+1` bodies when `0 ≤ x ≤ 2^b`, `b < prec`, `k ≥ 2`. -/
theorem fixdecay_alt_terminates {p b : Nat} (hb : b < p) (m : Nat) (env : Nat → Nat → Int × Int)
    (henv : EnvOK p b 2 env) (v : Int) :
    (decayLoop p cosSinOps m env).ExitsWithin v (2 * v.natAbs + 1) := by
  have := (decayLoop p cosSinOps m env).exitsWithin_of_measure (fun _ => True)
    altMeasure (by intros; trivial)
    (by
      intro k s _ hc
      simp only [decayLoop, decide_eq_true_eq] at hc ⊢
      obtain ⟨hpos, hneg⟩ := cosSin_step hb (env k) (henv k) s
      exact altMeasure_lt s _ (by intro h; subst h; simp at hc) hpos hneg)
    v trivial
  exact this.mono (by unfold altMeasure; split_ifs <;> omega)

/-! ### Newton precision schedules -/

theorem giant_step_lt {start n x : Nat} (hn : 2 ≤ n) (hs : 1 ≤ start) (h3 : 3 ≤ start * n)
    (hx : start * n < x) : x / n + 2 < x := by
  rcases Nat.lt_or_ge n 3 with h | h
  · have : n = 2 := by omega
    subst this
    have : 2 ≤ start := by omega
    omega
  · have h1 : x / n ≤ x / 3 := Nat.div_le_div_left h (by omega)
    have : 4 ≤ x := by nlinarith
    omega

/-- the loop of `giant_steps(start, target, n)` runs at most `target` bodies when `n ≥ 2`, `start ≥ 1`, `start·n ≥ 3` -/
theorem giant_steps_finite (start n : Nat) (hn : 2 ≤ n) (hs : 1 ≤ start) (h3 : 3 ≤ start * n) (target : Nat) :
    (giantLoop start n).ExitsWithin target target := by
  apply (giantLoop start n).exitsWithin_of_measure (fun _ => True) id (by intros; trivial)
  · intro k s _ hc
    simp only [giantLoop, decide_eq_true_eq] at hc ⊢
    exact giant_step_lt hn hs h3 hc
  · trivial

/-- … and the list-building function itself returns with fuel `target` -/
theorem giantSteps_isSome (start n : Nat) (hn : 2 ≤ n) (hs : 1 ≤ start) (h3 : 3 ≤ start * n) :
    ∀ (f x : Nat) (L : List Nat), x ≤ f → (giantSteps start n f (x :: L)).isSome := by
  intro f
  induction f with
  | zero =>
    intro x L hx
    have : x = 0 := by omega
    subst this
    simp [giantSteps]
  | succ f ih =>
    intro x L hx
    unfold giantSteps
    split
    · rename_i hc
      have := giant_step_lt hn hs h3 hc
      exact ih _ _ (by omega)
    · rfl

/-- `giant_steps(1, target)` with the default `n = 2` never returns for `target ≥ 3` (3 ↦ 3//2+2 = 3, 4 ↦ 4). -/
theorem giant_steps_start1_diverges (target : Nat) (ht : 3 ≤ target) : (giantLoop 1 2).Diverges target := by
  apply (giantLoop 1 2).diverges_of_invariant (fun x => 3 ≤ x)
  · intro k s hs; simp only [giantLoop]; omega
  · intro s hs; simp only [giantLoop, decide_eq_true_eq]; omega
  · exact ht

/-! ### series loops -/

theorem tolLoop_state (a : Nat → Nat) (eps k0 s k : Nat) : (tolLoop a eps k0).state s k = s + k := by
  induction k with
  | zero => rfl
  | succ k ih => simp only [Loop.state, ih]; simp [tolLoop]; omega

theorem tolOrDivLoop_state (a : Nat → Nat) (eps : Option Nat) (k0 : Nat) (st : Bool) (s k : Nat) :
    (tolOrDivLoop a eps k0 st).state s k = s + k := by
  induction k with
  | zero => rfl
  | succ k ih => simp only [Loop.state, ih]; simp [tolOrDivLoop]; omega

theorem boundedLoop_state (done : Nat → Bool) (maxit s k : Nat) : (boundedLoop done maxit).state s k = s + k := by
  induction k with
  | zero => rfl
  | succ k ih => simp only [Loop.state, ih]; simp [boundedLoop]; omega

def EventuallyLE (a : Nat → Nat) (e : Nat) : Prop := ∃ K, ∀ k, K ≤ k → a k ≤ e
def EventuallyNondecreasing (a : Nat → Nat) : Prop := ∃ K, ∀ k, K ≤ k → a k ≤ a (k+1)
def EventuallyIncreasing (a : Nat → Nat) : Prop := ∃ K, ∀ k, K ≤ k → a k < a (k+1)

/-- **tolOrDiverge**: if the term magnitudes are eventually ≤ eps, or eventually non-decreasing (strict guard
    `term > prev`: eventually increasing) — the shape of a convergent resp. an asymptotic series — the loop exits. -/
theorem tolOrDiverge_terminates (a : Nat → Nat) (eps k0 : Nat) (strict : Bool)
    (h : EventuallyLE a eps ∨ (if strict then EventuallyIncreasing a else EventuallyNondecreasing a)) :
    ∃ N, (tolOrDivLoop a (some eps) k0 strict).ExitsWithin 0 N := by
  rcases h with ⟨K, hK⟩ | h
  · refine ⟨max K k0 + 1, max K k0 + 1, Nat.le_refl _, ?_⟩
    rw [tolOrDivLoop_state]
    have := hK (max K k0 + 1) (by omega)
    simp only [tolOrDivLoop, Nat.zero_add]
    have h1 : k0 < max K k0 + 1 := by omega
    simp [h1, this]
  · cases strict with
    | true =>
      obtain ⟨K, hK⟩ := h
      refine ⟨max K k0 + 1, max K k0 + 1, Nat.le_refl _, ?_⟩
      rw [tolOrDivLoop_state]
      have := hK (max K k0) (by omega)
      have h1 : k0 < max K k0 + 1 := by omega
      simp [tolOrDivLoop, h1, this]
    | false =>
      obtain ⟨K, hK⟩ := h
      refine ⟨max K k0 + 1, max K k0 + 1, Nat.le_refl _, ?_⟩
      rw [tolOrDivLoop_state]
      have := hK (max K k0) (by omega)
      have h1 : k0 < max K k0 + 1 := by omega
      simp [tolOrDivLoop, h1, this]

/-- **divergence guard on integer terms** (`mpf_psi0`: exit on `term >= prev` only): natural numbers cannot
    decrease forever, so the loop exits within `k0 + a k0 + 1` bodies on EVERY sequence. -/
theorem divGuard_terminates (a : Nat → Nat) (k0 : Nat) :
    (tolOrDivLoop a none k0 false).ExitsWithin 0 (k0 + a k0 + 1) := by
  by_contra hne
  have hall : ∀ j, 1 ≤ j → j ≤ a k0 + 1 → a (k0 + j) < a (k0 + j - 1) := by
    intro j hj1 hj2
    by_contra hc
    apply hne
    refine ⟨k0 + j, by omega, ?_⟩
    rw [tolOrDivLoop_state]
    have h1 : k0 < k0 + j := by omega
    have h2 : a (k0 + j - 1) ≤ a (k0 + j) := by omega
    simp [tolOrDivLoop, h1, h2]
  have hdec : ∀ j, j ≤ a k0 + 1 → a (k0 + j) + j ≤ a k0 := by
    intro j
    induction j with
    | zero => intro _; simp
    | succ j ih =>
      intro hj
      have := ih (by omega)
      have h := hall (j+1) (by omega) hj
      have e : k0 + (j + 1) - 1 = k0 + j := by omega
      rw [e] at h
      have e2 : k0 + (j + 1) = k0 + j + 1 := by omega
      rw [e2] at h ⊢
      omega
  have := hdec (a k0 + 1) (Nat.le_refl _)
  omega

/-- the unimodal witness: terms decrease down to `eps+1` at index 10 and grow afterwards -/
def unimodal (eps : Nat) (k : Nat) : Nat := eps + 1 + (if k < 10 then 10 - k else k - 10)

/-- **tol**: a loop that exits only on `|term| ≤ eps` never exits on a unimodal term sequence whose minimum
    exceeds eps (an asymptotic series used beyond its range) — so `tol`-class loops are open obligations. -/
theorem tol_may_diverge (eps k0 : Nat) : (tolLoop (unimodal eps) eps k0).Diverges 0 := by
  intro k
  rw [tolLoop_state, Nat.zero_add]
  have : ¬ (unimodal eps k ≤ eps) := by unfold unimodal; split_ifs <;> omega
  simp only [tolLoop, decide_eq_false this, Bool.and_false, Bool.not_false]

/-- **bounded**: with an iteration cap the loop runs at most `maxit + 1 - k` more bodies, whatever the tolerance
    test answers -/
theorem bounded_terminates (done : Nat → Bool) (maxit k : Nat) :
    (boundedLoop done maxit).ExitsWithin k (maxit + 1 - k) := by
  refine ⟨maxit + 1 - k, Nat.le_refl _, ?_⟩
  rw [boundedLoop_state]
  have : ¬ (k + (maxit + 1 - k) ≤ maxit) := by omega
  simp [boundedLoop, this]

/-! ### precision retry loops -/

theorem retryLoop_state (enough : Nat → Bool) (grow : Nat → Nat) (maxprec e : Nat) :
    ∀ k, (retryLoop enough grow maxprec).state (0, e) k = (k, grow^[k] e) := by
  intro k
  induction k with
  | zero => rfl
  | succ k ih =>
    show (retryLoop enough grow maxprec).body k ((retryLoop enough grow maxprec).state (0, e) k) = _
    rw [ih, Function.iterate_succ_apply']
    rfl

theorem iterate_double_ge (grow : Nat → Nat) (hg : ∀ x, 2 * x ≤ grow x) (e : Nat) :
    ∀ k, 2 ^ k * e ≤ grow^[k] e := by
  intro k
  induction k with
  | zero => simp
  | succ k ih =>
    rw [Function.iterate_succ_apply']
    have := hg (grow^[k] e)
    calc 2 ^ (k+1) * e = 2 * (2 ^ k * e) := by ring
      _ ≤ 2 * grow^[k] e := Nat.mul_le_mul_left 2 ih
      _ ≤ _ := this

theorem iterate_incr_ge (grow : Nat → Nat) (hg : ∀ x, x < grow x) (e : Nat) :
    ∀ k, e + k ≤ grow^[k] e := by
  intro k
  induction k with
  | zero => simp
  | succ k ih =>
    rw [Function.iterate_succ_apply']
    have := hg (grow^[k] e)
    omega

/-- **hypsum / hypercomb retry loop** with (at least) doubling of the extra precision: whatever the summation
    reports (`enough`), the loop breaks or raises within `log2 maxprec + 1` retries. -/
theorem retry_doubling_terminates (enough : Nat → Bool) (grow : Nat → Nat) (maxprec e : Nat)
    (he : 1 ≤ e) (hg : ∀ x, 2 * x ≤ grow x) :
    (retryLoop enough grow maxprec).ExitsWithin (0, e) (Nat.log2 maxprec + 1) := by
  refine ⟨Nat.log2 maxprec + 1, Nat.le_refl _, ?_⟩
  rw [retryLoop_state]
  have h1 := iterate_double_ge grow hg e (Nat.log2 maxprec + 1)
  have h2 : maxprec < 2 ^ (Nat.log2 maxprec + 1) := Nat.lt_log2_self
  have h3 : 2 ^ (Nat.log2 maxprec + 1) * 1 ≤ 2 ^ (Nat.log2 maxprec + 1) * e := Nat.mul_le_mul_left _ he
  have : ¬ (grow^[Nat.log2 maxprec + 1] e ≤ maxprec) := by omega
  simp only [retryLoop, decide_eq_false this, Bool.false_and]

/-- additive growth (`ctx.prec += 10` in `hypercomb`): at most `maxprec + 1 - e` retries -/
theorem retry_incr_terminates (enough : Nat → Bool) (grow : Nat → Nat) (maxprec e : Nat)
    (hg : ∀ x, x < grow x) :
    (retryLoop enough grow maxprec).ExitsWithin (0, e) (maxprec + 1 - e) := by
  refine ⟨maxprec + 1 - e, Nat.le_refl _, ?_⟩
  rw [retryLoop_state]
  have h1 := iterate_incr_ge grow hg e (maxprec + 1 - e)
  have : ¬ (grow^[maxprec + 1 - e] e ≤ maxprec) := by omega
  simp only [retryLoop, decide_eq_false this, Bool.false_and]

theorem hypsumGrow_double (x : Nat) : 2 * x ≤ hypsumGrow x := by unfold hypsumGrow; omega

/-! ### the class table -/

/-- what "the loop terminates" means for each class: the semantic statement quantified over every start state and
    every environment, with the class's numeric preconditions as hypotheses. -/
def Cls.Terminates : Cls → Prop
  | .counter step => ∀ (n i : Int) (inc : Nat → Nat), (∀ k, step ≤ inc k) →
      (counterLoop n inc).ExitsWithin i (((n - i).toNat + step - 1) / step)
  | .countdown => ∀ n : Int, 0 ≤ n → countdownLoop.ExitsWithin n n.toNat
  | .halving d =>
      if d = 0 then ∀ d : Nat, 2 ≤ d → ∀ n : Int, 0 ≤ n → (divLoop d).ExitsWithin n (bitcount n.toNat)
      else ∀ n : Int, 0 ≤ n → (divLoop d).ExitsWithin n (bitcount n.toNat)
  | .strip p =>
      if p = 0 then ∀ p : Nat, 2 ≤ p → ∀ n : Nat, n ≠ 0 → (stripLoop p).ExitsWithin n (bitcount n)
      else ∀ n : Nat, n ≠ 0 → (stripLoop p).ExitsWithin n (bitcount n)
  | .euclid => ∀ a b : Int, euclidLoop.ExitsWithin (a, b) b.natAbs
  | .fixdecay ops => ∀ (p b m : Nat) (env : Nat → Nat → Int × Int) (v : Int), b < p → EnvOK p b 1 env → 0 ≤ v →
      ∀ K, bitcount v.toNat ≤ (p - b) * K → (decayLoop p ops m env).ExitsWithin v K
  | .fixdecayAlt => ∀ (p b m : Nat) (env : Nat → Nat → Int × Int) (v : Int), b < p → EnvOK p b 2 env →
      (decayLoop p cosSinOps m env).ExitsWithin v (2 * v.natAbs + 1)
  | .newton start n =>
      if start = 0 ∧ n = 0 then
        ∀ start n target : Nat, 2 ≤ n → 1 ≤ start → 3 ≤ start * n → (giantLoop start n).ExitsWithin target target
      else ∀ target : Nat, (giantLoop start n).ExitsWithin target target
  | .tolOrDiverge strict => ∀ (a : Nat → Nat) (eps k0 : Nat),
      (EventuallyLE a eps ∨ (if strict then EventuallyIncreasing a else EventuallyNondecreasing a)) →
      ∃ N, (tolOrDivLoop a (some eps) k0 strict).ExitsWithin 0 N
  | .divGuard => ∀ (a : Nat → Nat) (k0 : Nat), (tolOrDivLoop a none k0 false).ExitsWithin 0 (k0 + a k0 + 1)
  | .bounded => ∀ (done : Nat → Bool) (maxit k : Nat), (boundedLoop done maxit).ExitsWithin k (maxit + 1 - k)
  | .retry doubling => ∀ (enough : Nat → Bool) (grow : Nat → Nat) (maxprec e : Nat),
      if doubling then 1 ≤ e → (∀ x, 2 * x ≤ grow x) →
        (retryLoop enough grow maxprec).ExitsWithin (0, e) (Nat.log2 maxprec + 1)
      else (∀ x, x < grow x) → (retryLoop enough grow maxprec).ExitsWithin (0, e) (maxprec + 1 - e)
  | .producer => True
  | .tol => ∀ (a : Nat → Nat) (eps k0 : Nat), ∃ N, (tolLoop a eps k0).ExitsWithin 0 N
  | .unknown => False

/-- the theorem the generated obligations apply: parameters pass the syntactic check ⇒ the class statement holds -/
theorem Cls.terminates_of_check (c : Cls) (h : c.check = true) : c.Terminates := by
  cases c with
  | counter step =>
    simp only [Cls.check, decide_eq_true_eq] at h
    intro n i inc hinc; exact counter_terminates step h n i inc hinc
  | countdown => intro n hn; exact countdown_terminates n hn
  | halving d =>
    simp only [Cls.Terminates]
    split
    · intro d hd n hn; exact halving_terminates d hd n hn
    · rename_i hne
      simp only [Cls.check, Bool.or_eq_true, beq_iff_eq, decide_eq_true_eq] at h
      rcases h with h | h
      · exact absurd h hne
      · intro n hn; exact halving_terminates d h n hn
  | strip p =>
    simp only [Cls.Terminates]
    split
    · intro p hp n hn; exact strip_terminates p hp n hn
    · rename_i hne
      simp only [Cls.check, Bool.or_eq_true, beq_iff_eq, decide_eq_true_eq] at h
      rcases h with h | h
      · exact absurd h hne
      · intro n hn; exact strip_terminates p h n hn
  | euclid => intro a b; exact euclid_terminates a b
  | fixdecay ops =>
    simp only [Cls.check, Bool.and_eq_true] at h
    intro p b m env v hb henv hv K hK
    exact fixdecay_terminates_rate hb ops m env henv h.1 h.2 v hv K hK
  | fixdecayAlt =>
    intro p b m env v hb henv; exact fixdecay_alt_terminates hb m env henv v
  | newton start n =>
    simp only [Cls.Terminates]
    split
    · intro s n t hn hs h3; exact giant_steps_finite s n hn hs h3 t
    · rename_i hne
      simp only [Cls.check, Bool.or_eq_true, Bool.and_eq_true, beq_iff_eq, decide_eq_true_eq] at h
      rcases h with h | h
      · exact absurd h hne
      · intro t; exact giant_steps_finite start n h.1.1 h.1.2 h.2 t
  | tolOrDiverge strict => intro a eps k0 hh; exact tolOrDiverge_terminates a eps k0 strict hh
  | divGuard => intro a k0; exact divGuard_terminates a k0
  | bounded => intro done maxit k; exact bounded_terminates done maxit k
  | retry doubling =>
    intro enough grow maxprec e
    split
    · intro he hg; exact retry_doubling_terminates enough grow maxprec e he hg
    · intro hg; exact retry_incr_terminates enough grow maxprec e hg
  | producer => trivial
  | tol => simp [Cls.check] at h
  | unknown => simp [Cls.check] at h

/-- a `tol`-class skeleton does NOT satisfy its termination statement -/
theorem Cls.tol_not_terminates : ¬ Cls.tol.Terminates := by
  intro h
  obtain ⟨N, hN⟩ := h (unimodal 0) 0 0
  exact Loop.not_exits_of_diverges (tol_may_diverge 0 0) N hN

end LoopSkel
end Mp
