/-
  MpProofs/Arith.lean — the arithmetic operations of libmpf meet `RoundOK`.
-/
import MpProofs.Normalize

namespace Mp

/-! ### canonical finite values -/

theorem CanonFin.cases {s : Mpf} (h : CanonFin s) :
    s = fzero ∨ (s.man ≠ 0 ∧ s.sign ≤ 1 ∧ s.man % 2 = 1 ∧ s.bc = (bitcount s.man : Int)) := by
  rcases h with h | ⟨h1, h2, h3⟩
  · exact Or.inl h
  · exact Or.inr ⟨by omega, h1, h2, h3⟩

theorem val_def (s : Mpf) : val s = (-1 : ℚ) ^ s.sign * ((s.man : ℚ) * 2 ^ s.exp) := by
  simp [val, mul_assoc]

theorem CanonFin.finite {s : Mpf} (h : CanonFin s) : isSpecial s = false := by
  rcases h.cases with rfl | ⟨h0, _⟩
  · rfl
  · simp [isSpecial, h0]

theorem canonFin_mk {s m : Nat} {e : Int} (hs : s ≤ 1) (hm : m % 2 = 1) :
    CanonFin ⟨s, m, e, bitcount m⟩ := Or.inr ⟨hs, hm, rfl⟩

/-- the signed integer mantissa of a finite value -/
def manZ (s : Mpf) : ℤ := if s.sign = 0 then (s.man : ℤ) else -(s.man : ℤ)

theorem val_eq_manZ {s : Mpf} (hs : s.sign ≤ 1) : val s = (manZ s : ℚ) * 2 ^ s.exp := by
  rw [val_def, manZ]
  have : s.sign = 0 ∨ s.sign = 1 := by omega
  rcases this with h | h <;> simp [h]

theorem neg_one_pow_mul_natAbs (Z : ℤ) :
    (-1 : ℚ) ^ (if Z ≥ 0 then 0 else 1 : ℕ) * ((Z.natAbs : ℚ)) = (Z : ℚ) := by
  split
  · rename_i h
    have : ((Z.natAbs : ℤ) : ℚ) = (Z : ℚ) := by rw [Int.natAbs_of_nonneg h]
    simpa using this
  · rename_i h
    have h' : (Z.natAbs : ℤ) = -Z := by omega
    have : ((Z.natAbs : ℤ) : ℚ) = -(Z : ℚ) := by rw [h']; push_cast; ring
    simp only [pow_one, neg_one_mul]
    have h2 : ((Z.natAbs : ℕ) : ℚ) = ((Z.natAbs : ℤ) : ℚ) := (Int.cast_natCast _).symm
    rw [h2, this]; ring

/-- RoundOK at `prec = 0` (exact mode) -/
theorem roundOK_zero {rnd : Rnd} {x : ℚ} {r : Mpf} (hc : CanonFin r) (hv : val r = x) : RoundOK 0 rnd x r :=
  ⟨hc, fun _ => hv, fun h => by omega⟩

theorem roundOK_fzero {prec : ℤ} (hp : 0 ≤ prec) (rnd : Rnd) : RoundOK prec rnd 0 fzero :=
  ⟨canonFin_fzero, fun _ => val_fzero, fun _ => by
    rw [val_fzero]; exact ⟨isRound_zero _ _, by simp [fzero]; omega⟩⟩

@[simp] theorem normalize_zero_man (s : ℕ) (e b p : ℤ) (r : Rnd) : normalize s 0 e b p r = fzero := by
  simp [normalize]

@[simp] theorem normalize1_zero_man (s : ℕ) (e b p : ℤ) (r : Rnd) : normalize1 s 0 e b p r = fzero := by
  simp [normalize1]

/-! ### normalize on a signed integer mantissa: the common tail of most operations -/

/-- `normalize` with the effective precision `prec or bc` used by `mpf_add` & co. -/
theorem normalize_int (Z e : ℤ) {prec : ℤ} (hp : 0 ≤ prec) (rnd : Rnd) :
    RoundOK prec rnd ((Z : ℚ) * 2 ^ e)
      (normalize (if Z ≥ 0 then 0 else 1) Z.natAbs e (bitcount Z.natAbs)
        (if prec ≠ 0 then prec else (bitcount Z.natAbs : ℤ)) rnd) := by
  have hsign : (if Z ≥ 0 then 0 else 1 : ℕ) ≤ 1 := by split <;> omega
  have hval : (-1 : ℚ) ^ (if Z ≥ 0 then 0 else 1 : ℕ) * ((Z.natAbs : ℚ) * 2 ^ e) = (Z : ℚ) * 2 ^ e := by
    rw [← mul_assoc, neg_one_pow_mul_natAbs]
  by_cases h0 : prec = 0
  · subst h0
    simp only [ne_eq, not_true_eq_false, if_false]
    by_cases hz : Z.natAbs = 0
    · have : Z = 0 := by omega
      subst this
      simp only [normalize, Int.natAbs_zero, if_true]
      exact roundOK_zero canonFin_fzero (by simp [val_fzero])
    · have hb := bitcount_pos hz
      have h1 := normalize_spec hsign Z.natAbs e (prec := (bitcount Z.natAbs : ℤ)) (by omega) rnd
      refine roundOK_zero h1.1 ?_
      rw [normalize_val_of_fits _ _ (le_refl _), hval]
  · have hpos : 0 < prec := by omega
    simp only [ne_eq, h0, not_false_eq_true, if_true]
    have h1 := normalize_spec hsign Z.natAbs e hpos rnd
    rwa [hval] at h1

/-- the same for `normalize1` when the mantissa is odd -/
theorem normalize1_int {Z : ℤ} (hodd : Z.natAbs % 2 = 1) (e : ℤ) {prec : ℤ} (hp : 0 ≤ prec) (rnd : Rnd) :
    RoundOK prec rnd ((Z : ℚ) * 2 ^ e)
      (normalize1 (if Z ≥ 0 then 0 else 1) Z.natAbs e (bitcount Z.natAbs)
        (if prec ≠ 0 then prec else (bitcount Z.natAbs : ℤ)) rnd) := by
  rw [normalize1_eq_normalize _ hodd]; exact normalize_int Z e hp rnd

/-- unsigned form: sign bit and natural mantissa given separately -/
theorem normalize_nat {sign : ℕ} (hs : sign ≤ 1) (m : ℕ) (e : ℤ) {prec : ℤ} (hp : 0 ≤ prec) (rnd : Rnd) :
    RoundOK prec rnd ((-1 : ℚ) ^ sign * ((m : ℚ) * 2 ^ e))
      (normalize sign m e (bitcount m) (if prec ≠ 0 then prec else (bitcount m : ℤ)) rnd) := by
  by_cases h0 : prec = 0
  · subst h0
    simp only [ne_eq, not_true_eq_false, if_false]
    by_cases hz : m = 0
    · subst hz
      simp only [normalize, if_true]
      exact roundOK_zero canonFin_fzero (by simp [val_fzero])
    · have hb := bitcount_pos hz
      have h1 := normalize_spec hs m e (prec := (bitcount m : ℤ)) (by omega) rnd
      exact roundOK_zero h1.1 (normalize_val_of_fits _ _ (le_refl _) _)
  · simp only [ne_eq, h0, not_false_eq_true, if_true]
    exact normalize_spec hs m e (by omega) rnd

theorem normalize1_nat {sign : ℕ} (hs : sign ≤ 1) {m : ℕ} (hodd : m % 2 = 1 ∨ m = 0) (e : ℤ) {prec : ℤ}
    (hp : 0 ≤ prec) (rnd : Rnd) :
    RoundOK prec rnd ((-1 : ℚ) ^ sign * ((m : ℚ) * 2 ^ e))
      (normalize1 sign m e (bitcount m) (if prec ≠ 0 then prec else (bitcount m : ℤ)) rnd) := by
  rcases hodd with hodd | h0
  · rw [normalize1_eq_normalize _ hodd]; exact normalize_nat hs m e hp rnd
  · subst h0
    have : normalize1 sign 0 e (bitcount 0) (if prec ≠ 0 then prec else (bitcount 0 : ℤ)) rnd
        = normalize sign 0 e (bitcount 0) (if prec ≠ 0 then prec else (bitcount 0 : ℤ)) rnd := by
      simp [normalize1, normalize]
    rw [this]; exact normalize_nat hs 0 e hp rnd

/-! ### from_man_exp, from_int -/

theorem from_man_exp_spec (Z e : ℤ) {prec : ℤ} (hp : 0 ≤ prec) (rnd : Rnd) :
    RoundOK prec rnd ((Z : ℚ) * 2 ^ e) (from_man_exp Z e prec rnd) := by
  unfold from_man_exp
  have hsg : (if Z < 0 then 1 else 0 : ℕ) = (if Z ≥ 0 then 0 else 1 : ℕ) := by
    split <;> split <;> omega
  by_cases h0 : prec = 0
  · subst h0
    simp only [if_true]
    have hsign : (if Z < 0 then 1 else 0 : ℕ) ≤ 1 := by split <;> omega
    have hval : (-1 : ℚ) ^ (if Z < 0 then 1 else 0 : ℕ) * ((Z.natAbs : ℚ) * 2 ^ e) = (Z : ℚ) * 2 ^ e := by
      rw [hsg, ← mul_assoc, neg_one_pow_mul_natAbs]
    split
    · rename_i hz
      have : Z = 0 := by omega
      subst this
      exact roundOK_zero canonFin_fzero (by simp [val_fzero])
    · rename_i hz
      split
      · rename_i heven
        split
        · rename_i h2
          -- man = 2k with k odd
          refine roundOK_zero (Or.inr ⟨hsign, ?_, ?_⟩) ?_
          · simpa [Nat.shiftRight_eq_div_pow] using h2
          · have hb := bitcount_div (n := Z.natAbs) (k := 1) (by
              have := bitcount_pos hz
              have h2' : Z.natAbs / 2 ≠ 0 := by omega
              have := lt_bitcount_of_le (n := Z.natAbs) (k := 1) (by omega)
              omega)
            simp only [Nat.shiftRight_eq_div_pow, pow_one] at hb ⊢
            have := bitcount_pos hz
            omega
          · rw [← hval, val_mk]
            congr 1
            have : Z.natAbs = (Z.natAbs >>> 1) * 2 := by
              simp only [Nat.shiftRight_eq_div_pow, pow_one]; omega
            have hq : (Z.natAbs : ℚ) = ((Z.natAbs >>> 1 : ℕ) : ℚ) * 2 := by exact_mod_cast this
            rw [hq, zpow_add₀ (by norm_num), zpow_one]; ring
        · -- general stripping
          have hodd := trailing_odd hz
          have hbc := bitcount_shiftRight_trailing hz
          have htl := trailing_lt_bitcount hz
          refine roundOK_zero (Or.inr ⟨hsign, ?_, ?_⟩) ?_
          · simpa [Nat.shiftRight_eq_div_pow] using hodd
          · show (bitcount Z.natAbs : ℤ) - trailing Z.natAbs = bitcount (Z.natAbs >>> trailing Z.natAbs)
            rw [hbc]; omega
          · rw [← hval]
            have := stripTrailing_val (if Z < 0 then 1 else 0) Z.natAbs e 0
            simp only [stripTrailing, val_mk] at this
            rw [val_mk]; exact this
      · rename_i hodd
        have hodd' : Z.natAbs % 2 = 1 := by omega
        exact roundOK_zero (canonFin_mk hsign hodd') (by rw [val_mk, hval])
  · simp only [h0, if_false]
    have h1 := normalize_int Z e hp rnd
    simp only [ne_eq, h0, not_false_eq_true, if_true] at h1
    rw [hsg]; exact h1

theorem from_int_spec (n : ℤ) {prec : ℤ} (hp : 0 ≤ prec) (rnd : Rnd) :
    RoundOK prec rnd (n : ℚ) (from_int n prec rnd) := by
  have := from_man_exp_spec n 0 hp rnd
  simpa [from_int] using this

/-! ### pos / neg / abs -/

theorem mpf_pos_spec {s : Mpf} (hs : CanonFin s) {prec : ℤ} (hp : 0 ≤ prec) (rnd : Rnd) :
    RoundOK prec rnd (val s) (mpf_pos s prec rnd) := by
  unfold mpf_pos
  by_cases h0 : prec = 0
  · subst h0; simp only [ne_eq, not_true_eq_false, if_false]; exact roundOK_zero hs rfl
  · simp only [ne_eq, h0, not_false_eq_true, if_true, hs.finite]
    rcases hs.cases with rfl | ⟨hm, hsg, hodd, hbc⟩
    · have : normalize1 fzero.sign fzero.man fzero.exp fzero.bc prec rnd = fzero := by simp [fzero]
      simp only [Bool.false_eq_true, if_false, this, val_fzero]
      exact roundOK_fzero hp rnd
    · simp only [Bool.false_eq_true, if_false]
      rw [hbc, val_def]
      exact normalize1_spec hsg (Or.inl hodd) s.exp (by omega) rnd

theorem val_neg_canon {s : Mpf} (hsg : s.sign ≤ 1) :
    (-1 : ℚ) ^ (1 - s.sign) * ((s.man : ℚ) * 2 ^ s.exp) = -val s := by
  rw [val_def]
  have : s.sign = 0 ∨ s.sign = 1 := by omega
  rcases this with h | h <;> simp [h]

theorem mpf_neg_spec {s : Mpf} (hs : CanonFin s) {prec : ℤ} (hp : 0 ≤ prec) (rnd : Rnd) :
    RoundOK prec rnd (-val s) (mpf_neg s prec rnd) := by
  rcases hs.cases with rfl | ⟨hm, hsg, hodd, hbc⟩
  · have : mpf_neg fzero prec rnd = fzero := by simp [mpf_neg, fzero]
    rw [this, val_fzero, neg_zero]; exact roundOK_fzero hp rnd
  · unfold mpf_neg
    simp only [hm, if_false]
    by_cases h0 : prec = 0
    · subst h0
      simp only [if_true]
      refine roundOK_zero (Or.inr ⟨by show 1 - s.sign ≤ 1; omega, hodd, hbc⟩) ?_
      rw [val_mk, val_neg_canon hsg]
    · simp only [h0, if_false]
      rw [hbc, ← val_neg_canon hsg]
      exact normalize1_spec (by omega) (Or.inl hodd) s.exp (by omega) rnd

theorem mpf_abs_spec {s : Mpf} (hs : CanonFin s) {prec : ℤ} (hp : 0 ≤ prec) (rnd : Rnd) :
    RoundOK prec rnd |val s| (mpf_abs s prec rnd) := by
  rcases hs.cases with rfl | ⟨hm, hsg, hodd, hbc⟩
  · have : mpf_abs fzero prec rnd = fzero := by
      by_cases h0 : prec = 0 <;> simp [mpf_abs, fzero, isSpecial, h0]
    rw [this, val_fzero, abs_zero]; exact roundOK_fzero hp rnd
  · unfold mpf_abs
    simp only [hs.finite, Bool.false_eq_true, if_false]
    have habs : |val s| = (-1 : ℚ) ^ 0 * ((s.man : ℚ) * 2 ^ s.exp) := by
      rw [val_def, abs_mul, abs_pow, abs_neg, abs_one, one_pow, one_mul, pow_zero, one_mul]
      exact abs_of_nonneg (by positivity)
    by_cases h0 : prec = 0
    · subst h0
      simp only [if_true]
      split
      · refine roundOK_zero (Or.inr ⟨by show 0 ≤ 1; omega, hodd, hbc⟩) ?_
        rw [val_mk, habs]
      · rename_i hsz
        have hsz : s.sign = 0 := by omega
        refine roundOK_zero hs ?_
        rw [habs, val_def, hsz]
    · simp only [h0, if_false]
      rw [hbc, habs]
      exact normalize1_spec (by omega) (Or.inl hodd) s.exp (by omega) rnd

/-! ### multiplication -/

/-- the fast bit-count update of `python_mpf_mul` is exact -/
theorem mul_bc_fast {a b : ℕ} (ha : a ≠ 0) (hb : b ≠ 0) :
    (bitcount a : ℤ) + bitcount b - 1 + (((a * b) >>> ((bitcount a : ℤ) + bitcount b - 1).toNat : ℕ) : ℤ)
      = bitcount (a * b) := by
  obtain ⟨h1, h2⟩ := bitcount_mul_bounds ha hb
  have pa := bitcount_pos ha; have pb := bitcount_pos hb
  have hk : ((bitcount a : ℤ) + bitcount b - 1).toNat = bitcount a + bitcount b - 1 := by omega
  rw [hk, Nat.shiftRight_eq_div_pow]
  have hab : a * b ≠ 0 := Nat.mul_ne_zero ha hb
  rcases Nat.lt_or_ge (a * b) (2 ^ (bitcount a + bitcount b - 1)) with hlt | hge
  · have : a * b / 2 ^ (bitcount a + bitcount b - 1) = 0 := Nat.div_eq_of_lt hlt
    have := bitcount_le_of_lt hlt
    omega
  · have hlt := bitcount_lt (a * b)
    have : a * b / 2 ^ (bitcount a + bitcount b - 1) = 1 := by
      apply Nat.div_eq_of_lt_le
      · simpa using hge
      · have : 2 ^ bitcount (a * b) ≤ 2 ^ (bitcount a + bitcount b) := Nat.pow_le_pow_right (by norm_num) h2
        have e : 2 ^ (bitcount a + bitcount b) = (1 + 1) * 2 ^ (bitcount a + bitcount b - 1) := by
          have : bitcount a + bitcount b = (bitcount a + bitcount b - 1) + 1 := by omega
          conv_lhs => rw [this, pow_succ]
          ring
        omega
    have := lt_bitcount_of_le hge
    omega

theorem xor_le_one {a b : ℕ} (ha : a ≤ 1) (hb : b ≤ 1) : a ^^^ b ≤ 1 := by
  have : a = 0 ∨ a = 1 := by omega
  have : b = 0 ∨ b = 1 := by omega
  rcases ‹a = 0 ∨ a = 1› with rfl | rfl <;> rcases ‹b = 0 ∨ b = 1› with rfl | rfl <;> decide

theorem neg_one_pow_xor {a b : ℕ} (ha : a ≤ 1) (hb : b ≤ 1) :
    (-1 : ℚ) ^ (a ^^^ b) = (-1) ^ a * (-1) ^ b := by
  have : a = 0 ∨ a = 1 := by omega
  have : b = 0 ∨ b = 1 := by omega
  rcases ‹a = 0 ∨ a = 1› with rfl | rfl <;> rcases ‹b = 0 ∨ b = 1› with rfl | rfl <;> norm_num

theorem val_mul_canon (s t : Mpf) (hs : s.sign ≤ 1) (ht : t.sign ≤ 1) :
    (-1 : ℚ) ^ (s.sign ^^^ t.sign) * (((s.man * t.man : ℕ) : ℚ) * 2 ^ (s.exp + t.exp)) = val s * val t := by
  rw [val_def, val_def, neg_one_pow_xor hs ht, zpow_add₀ (by norm_num)]
  push_cast; ring

theorem mulSpecial_finite {s t : Mpf} (hs : isSpecial s = false) (ht : isSpecial t = false) :
    mulSpecial s t = fzero := by
  simp [mulSpecial, hs, ht]

theorem mpf_mul_spec {s t : Mpf} (hs : CanonFin s) (ht : CanonFin t) {prec : ℤ} (hp : 0 ≤ prec) (rnd : Rnd) :
    RoundOK prec rnd (val s * val t) (mpf_mul s t prec rnd) := by
  unfold mpf_mul
  rcases hs.cases with rfl | ⟨hsm, hss, hso, hsb⟩
  · have : fzero.man * t.man = 0 := by simp [fzero]
    have h2 : mulSpecial fzero t = fzero := mulSpecial_finite (by rfl) ht.finite
    simp only [this, ne_eq, not_true_eq_false, if_false, h2, val_fzero, zero_mul]
    exact roundOK_fzero hp rnd
  rcases ht.cases with rfl | ⟨htm, hts, hto, htb⟩
  · have : s.man * fzero.man = 0 := by simp [fzero]
    have h2 : mulSpecial s fzero = fzero := mulSpecial_finite hs.finite (by rfl)
    simp only [this, ne_eq, not_true_eq_false, if_false, h2, val_fzero, mul_zero]
    exact roundOK_fzero hp rnd
  have hman : s.man * t.man ≠ 0 := Nat.mul_ne_zero hsm htm
  have hodd : (s.man * t.man) % 2 = 1 := by rw [Nat.mul_mod, hso, hto]
  have hbc := mul_bc_fast hsm htm
  have hsign := xor_le_one hss hts
  simp only [ne_eq, hman, not_false_eq_true, if_true, hsb, htb, hbc]
  rw [← val_mul_canon s t hss hts]
  by_cases h0 : prec = 0
  · subst h0
    simp only [not_true_eq_false, if_false]
    exact roundOK_zero (canonFin_mk hsign hodd) (by rw [val_mk])
  · simp only [h0, not_false_eq_true, if_true]
    exact normalize1_spec hsign (Or.inl hodd) _ (by omega) rnd

/-- both multiplication variants are the same function on canonical finite operands -/
theorem gmpy_mpf_mul_eq {s t : Mpf} (hs : CanonFin s) (ht : CanonFin t) (prec : ℤ) (rnd : Rnd) :
    gmpy_mpf_mul s t prec rnd = mpf_mul s t prec rnd := by
  unfold gmpy_mpf_mul mpf_mul
  rcases hs.cases with rfl | ⟨hsm, hss, hso, hsb⟩
  · simp [fzero]
  rcases ht.cases with rfl | ⟨htm, hts, hto, htb⟩
  · simp [fzero]
  have hbc := mul_bc_fast hsm htm
  simp only [hsb, htb, hbc]

end Mp
