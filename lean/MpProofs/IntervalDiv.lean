/-
  MpProofs/IntervalDiv.lean — containment for mpi_div when the denominator interval does not contain zero.
-/
import MpProofs.IntervalMore
import MpProofs.Div

namespace Mp

theorem mpf_sign_cases {s : Mpf} (hs : CanonFin s) :
    (val s < 0 ∧ mpf_sign s = -1) ∨ (val s = 0 ∧ mpf_sign s = 0) ∨ (0 < val s ∧ mpf_sign s = 1) := by
  rw [mpf_sign_canon hs]; unfold cmpQ
  rcases lt_trichotomy (val s) 0 with h | h | h
  · left; simp [h]
  · right; left; simp [h]
  · right; right
    have h1 : ¬ (val s < 0) := by linarith
    have h2 : ¬ (val s = 0) := by linarith
    simp [h1, h2, h]

theorem ne_fzero_of_val_pos {s : Mpf} (h : 0 < val s) : s ≠ fzero := by
  intro h0; rw [h0, val_fzero] at h; exact lt_irrefl _ h

/-- division by a strictly positive interval -/
theorem mpi_div_pos_sound {s t : Mpi} (hs : FinIv s) (ht : FinIv t) (htpos : 0 < val t.1) {prec : ℤ}
    (hp : 0 < prec) {x y : ℚ} (hx : MemIv x s) (hy : MemIv y t) :
    ∃ r, mpi_div s t prec = .ok r ∧ FinIv r ∧ MemIv (x / y) r := by
  obtain ⟨hsa, hsb, hsab⟩ := hs
  obtain ⟨hta, htb, htab⟩ := ht
  obtain ⟨hx1, hx2⟩ := hx
  obtain ⟨hy1, hy2⟩ := hy
  have htbpos : 0 < val t.2 := by linarith
  have hypos : 0 < y := by linarith
  have hta1 : mpf_sign t.1 = 1 := by
    rcases mpf_sign_cases hta with h | h | h
    · linarith [h.1]
    · linarith [h.1]
    · exact h.2
  have htb1 : mpf_sign t.2 = 1 := by
    rcases mpf_sign_cases htb with h | h | h
    · linarith [h.1]
    · linarith [h.1]
    · exact h.2
  have hta0 := ne_fzero_of_val_pos htpos
  have htb0 := ne_fzero_of_val_pos htbpos
  -- the four quotients
  obtain ⟨q1, hq1, r1⟩ := mpf_div_spec hsa htb htb0 hp .f       -- sa / tb  (floor)
  obtain ⟨q2, hq2, r2⟩ := mpf_div_spec hsb hta hta0 hp .c       -- sb / ta  (ceil)
  obtain ⟨q3, hq3, r3⟩ := mpf_div_spec hsa hta hta0 hp .f       -- sa / ta  (floor)
  obtain ⟨q4, hq4, r4⟩ := mpf_div_spec hsb htb htb0 hp .c       -- sb / tb  (ceil)
  have l1 := roundOK_f_le hp.le r1
  have l2 := roundOK_c_ge hp.le r2
  have l3 := roundOK_f_le hp.le r3
  have l4 := roundOK_c_ge hp.le r4
  have n1 := roundOK_ne_nan r1
  have n2 := roundOK_ne_nan r2
  have n3 := roundOK_ne_nan r3
  have n4 := roundOK_ne_nan r4
  have hyinv : 0 < 1 / y := by positivity
  have key : ∀ (a b : Mpf), mpi_div s t prec = .ok (a, b) → val a ≤ val b → CanonFin a → CanonFin b →
      val a ≤ x / y → x / y ≤ val b → ∃ r, mpi_div s t prec = .ok r ∧ FinIv r ∧ MemIv (x / y) r :=
    fun a b h hab ha hb h1 h2 => ⟨(a, b), h, ⟨ha, hb, hab⟩, h1, h2⟩
  have e34 : val s.1 ≤ 0 → val s.1 / val t.1 ≤ x / y := by
    intro h'
    rcases le_total 0 x with h | h
    · have h1 : val s.1 / val t.1 ≤ 0 := div_nonpos_of_nonpos_of_nonneg h' htpos.le
      have h2 : 0 ≤ x / y := div_nonneg h hypos.le
      linarith
    · rw [div_le_div_iff₀ htpos hypos]; nlinarith
  have e12 : 0 ≤ val s.2 → x / y ≤ val s.2 / val t.1 := by
    intro h'
    rcases le_total 0 x with h | h
    · rw [div_le_div_iff₀ hypos htpos]; nlinarith
    · have h1 : 0 ≤ val s.2 / val t.1 := div_nonneg h' htpos.le
      have h2 : x / y ≤ 0 := div_nonpos_of_nonpos_of_nonneg h hypos.le
      linarith
  rcases mpf_sign_cases hsa with ⟨hva, hsas⟩ | ⟨hva, hsas⟩ | ⟨hva, hsas⟩ <;>
    rcases mpf_sign_cases hsb with ⟨hvb, hsbs⟩ | ⟨hvb, hsbs⟩ | ⟨hvb, hsbs⟩
  -- sa < 0, sb < 0 : [sa/ta, sb/tb]
  · apply key q3 q4
    · unfold mpi_div
      simp [hta1, htb1, hsas, hsbs, hq3, hq4, n3, n4, bind, Except.bind, pure, Except.pure]
    · have : val s.1 / val t.1 ≤ val s.2 / val t.2 := by rw [div_le_div_iff₀ htpos htbpos]; nlinarith
      linarith
    · exact r3.1
    · exact r4.1
    · first | linarith | (have h1 := e34 (by linarith); linarith) | (have h2 := e12 (by linarith); linarith)
    · have : x / y ≤ val s.2 / val t.2 := by rw [div_le_div_iff₀ hypos htbpos]; nlinarith
      linarith
  -- sa < 0, sb = 0
  · apply key q3 q4
    · unfold mpi_div
      simp [hta1, htb1, hsas, hsbs, hq3, hq4, n3, n4, bind, Except.bind, pure, Except.pure]
    · have : val s.1 / val t.1 ≤ val s.2 / val t.2 := by rw [div_le_div_iff₀ htpos htbpos]; nlinarith
      linarith
    · exact r3.1
    · exact r4.1
    · first | linarith | (have h1 := e34 (by linarith); linarith) | (have h2 := e12 (by linarith); linarith)
    · have : x / y ≤ val s.2 / val t.2 := by rw [div_le_div_iff₀ hypos htbpos]; nlinarith
      linarith
  -- sa < 0 < sb : [sa/ta, sb/ta]
  · apply key q3 q2
    · unfold mpi_div
      simp [hta1, htb1, hsas, hsbs, hq3, hq2, n3, n2, bind, Except.bind, pure, Except.pure]
    · have : val s.1 / val t.1 ≤ val s.2 / val t.1 := by rw [div_le_div_iff₀ htpos htpos]; nlinarith
      linarith
    · exact r3.1
    · exact r2.1
    · first | linarith | (have h1 := e34 (by linarith); linarith) | (have h2 := e12 (by linarith); linarith)
    · first | linarith | (have h1 := e34 (by linarith); linarith) | (have h2 := e12 (by linarith); linarith)
  -- sa = 0, sb < 0 : impossible
  · exfalso; linarith
  -- sa = 0 = sb
  · apply key fzero fzero
    · unfold mpi_div
      simp [hta1, htb1, hsas, hsbs]
    · exact le_refl _
    · exact canonFin_fzero
    · exact canonFin_fzero
    · have : x = 0 := by linarith
      rw [val_fzero, this]; simp
    · have : x = 0 := by linarith
      rw [val_fzero, this]; simp
  -- sa = 0 < sb : [sa/tb, sb/ta]
  · apply key q1 q2
    · unfold mpi_div
      simp [hta1, htb1, hsas, hsbs, hq1, hq2, n1, n2, bind, Except.bind, pure, Except.pure]
    · have : val s.1 / val t.2 ≤ val s.2 / val t.1 := by rw [div_le_div_iff₀ htbpos htpos]; nlinarith
      linarith
    · exact r1.1
    · exact r2.1
    · have : val s.1 / val t.2 ≤ x / y := by rw [div_le_div_iff₀ htbpos hypos]; nlinarith
      linarith
    · first | linarith | (have h1 := e34 (by linarith); linarith) | (have h2 := e12 (by linarith); linarith)
  -- sa > 0, sb < 0 : impossible
  · exfalso; linarith
  -- sa > 0, sb = 0 : impossible
  · exfalso; linarith
  -- 0 < sa ≤ sb
  · apply key q1 q2
    · unfold mpi_div
      simp [hta1, htb1, hsas, hsbs, hq1, hq2, n1, n2, bind, Except.bind, pure, Except.pure]
    · have : val s.1 / val t.2 ≤ val s.2 / val t.1 := by rw [div_le_div_iff₀ htbpos htpos]; nlinarith
      linarith
    · exact r1.1
    · exact r2.1
    · have : val s.1 / val t.2 ≤ x / y := by rw [div_le_div_iff₀ htbpos hypos]; nlinarith
      linarith
    · first | linarith | (have h1 := e34 (by linarith); linarith) | (have h2 := e12 (by linarith); linarith)

/-- division by a strictly negative interval: both operands are negated exactly, then the positive case applies -/
theorem mpi_div_neg_sound {s t : Mpi} (hs : FinIv s) (ht : FinIv t) (htneg : val t.2 < 0) {prec : ℤ}
    (hp : 0 < prec) {x y : ℚ} (hx : MemIv x s) (hy : MemIv y t) :
    ∃ r, mpi_div s t prec = .ok r ∧ FinIv r ∧ MemIv (x / y) r := by
  obtain ⟨hs', hxs⟩ := mpi_neg_sound hs (le_refl 0) hx
  obtain ⟨ht', hyt⟩ := mpi_neg_sound ht (le_refl 0) hy
  have hval : val (mpi_neg t 0).1 = -val t.2 := (mpf_neg_spec ht.2.1 (le_refl 0) .f).2.1 rfl
  have hpos : 0 < val (mpi_neg t 0).1 := by rw [hval]; linarith
  obtain ⟨r, hr, hfin, hmem⟩ := mpi_div_pos_sound hs' ht' hpos hp hxs hyt
  have hxy : -x / -y = x / y := neg_div_neg_eq x y
  rw [hxy] at hmem
  refine ⟨r, ?_, hfin, hmem⟩
  have hta : mpf_sign t.1 = -1 := by
    rcases mpf_sign_cases ht.1 with h | h | h
    · exact h.2
    · have := ht.2.2; linarith [h.1]
    · have := ht.2.2; linarith [h.1]
  have htb : mpf_sign t.2 = -1 := by
    rcases mpf_sign_cases ht.2.1 with h | h | h
    · exact h.2
    · linarith [h.1]
    · linarith [h.1]
  by_cases hz : mpf_sign s.1 = mpf_sign s.2 ∧ mpf_sign s.2 = 0
  · -- s = [0, 0]: both sides are [0, 0]
    have hs1 : val s.1 = 0 := by
      rcases mpf_sign_cases hs.1 with h | h | h
      · rw [h.2] at hz; omega
      · exact h.1
      · rw [h.2] at hz; omega
    have hs2 : val s.2 = 0 := by
      rcases mpf_sign_cases hs.2.1 with h | h | h
      · rw [h.2] at hz; omega
      · exact h.1
      · rw [h.2] at hz; omega
    -- the recursive call also sees [0,0] / positive
    have hn1 : val (mpi_neg s 0).1 = 0 := by
      have := (mpf_neg_spec hs.2.1 (le_refl 0) .f).2.1 rfl
      show val (mpf_neg s.2 0 .f) = 0
      rw [this, hs2]; simp
    have hn2 : val (mpi_neg s 0).2 = 0 := by
      have := (mpf_neg_spec hs.1 (le_refl 0) .c).2.1 rfl
      show val (mpf_neg s.1 0 .c) = 0
      rw [this, hs1]; simp
    have sg0 : ∀ {u : Mpf}, CanonFin u → val u = 0 → mpf_sign u = 0 := by
      intro u hu h0
      rcases mpf_sign_cases hu with h | h | h
      · linarith [h.1]
      · exact h.2
      · linarith [h.1]
    have sgp : ∀ {u : Mpf}, CanonFin u → 0 < val u → mpf_sign u = 1 := by
      intro u hu h0
      rcases mpf_sign_cases hu with h | h | h
      · linarith [h.1]
      · linarith [h.1]
      · exact h.2
    have e1 : mpi_div s t prec = .ok (fzero, fzero) := by
      unfold mpi_div
      simp [hz.1, hz.2, hta, htb]
    have e2 : mpi_div (mpi_neg s) (mpi_neg t) prec = .ok (fzero, fzero) := by
      unfold mpi_div
      have a1 := sg0 hs'.1 hn1
      have a2 := sg0 hs'.2.1 hn2
      have b1 := sgp ht'.1 hpos
      have b2 := sgp ht'.2.1 (lt_of_lt_of_le hpos ht'.2.2)
      simp [a1, a2, b1, b2]
    rw [e1]; rw [e2] at hr; exact hr
  · rw [mpi_div]
    simp only [hz, hta, htb, if_false]
    norm_num
    exact hr

end Mp
