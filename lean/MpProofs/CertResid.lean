/-
  MpProofs/CertResid.lean — helper lemmas for the residual-type checkers of MpModel/Cert.lean
  (factorisation identities of C30, all of C31 and C32): evaluation of the scale factors under the
  square root, and the exact structure predicates (`isLower`, `isUpperBand`, `isPerm`, …).
-/
import MpProofs.Cert

namespace Mp.Cert

open Matrix

/-! ## square roots of the scale factors -/

theorem sqrt_max (a b : ℝ) : Real.sqrt (max a b) = max (Real.sqrt a) (Real.sqrt b) := by
  rcases le_total a b with h | h
  · rw [max_eq_right h, max_eq_right (Real.sqrt_le_sqrt h)]
  · rw [max_eq_left h, max_eq_left (Real.sqrt_le_sqrt h)]

theorem sqrt_max_one (b : ℝ) : Real.sqrt (max 1 b) = max 1 (Real.sqrt b) := by
  rw [sqrt_max, Real.sqrt_one]

@[simp] theorem toReal_max1 (a : Dy) : (max1 a).toReal = max 1 a.toReal := by
  simp [max1]

theorem sqrt_pow_eq (x : ℝ) (hx : 0 ≤ x) (k : ℕ) : Real.sqrt (x ^ k) = Real.sqrt x ^ k := by
  have h : x ^ k = (Real.sqrt x ^ k) ^ 2 := by
    rw [← pow_mul, mul_comm, pow_mul, Real.sq_sqrt hx]
  rw [h, Real.sqrt_sq (pow_nonneg (Real.sqrt_nonneg x) k)]

/-- √(‖A‖²·‖B‖²) = ‖A‖·‖B‖ -/
theorem sqrt_frob2_mul (r c r' c' : ℕ) (A B : Mat) :
    Real.sqrt ((frob2 r c A * frob2 r' c' B).toReal) = frob (toMat r c A) * frob (toMat r' c' B) := by
  rw [Dy.toReal_mul, Real.sqrt_mul (frob2_nonneg r c A), sqrt_frob2, sqrt_frob2]

/-- √(‖A‖²·max(1,‖B‖²)) = ‖A‖·max(1,‖B‖) -/
theorem sqrt_frob2_mul_max1 (r c r' c' : ℕ) (A B : Mat) :
    Real.sqrt ((frob2 r c A * max1 (frob2 r' c' B)).toReal)
      = frob (toMat r c A) * max 1 (frob (toMat r' c' B)) := by
  rw [Dy.toReal_mul, Real.sqrt_mul (frob2_nonneg r c A), sqrt_frob2, toReal_max1, sqrt_max_one,
    sqrt_frob2]

theorem sqrt_ofNat (c : ℕ) : Real.sqrt ((Dy.ofNat c).toReal) = Real.sqrt c := by
  rw [Dy.toReal_ofNat]

/-- √(‖A‖²ᵏ·max(1,‖A‖²)) = ‖A‖ᵏ·max(1,‖A‖) -/
theorem sqrt_frob2_pow_mul_max1 (n k : ℕ) (A : Mat) :
    Real.sqrt ((Dy.pow (frob2 n n A) k * max1 (frob2 n n A)).toReal)
      = frob (toMat n n A) ^ k * max 1 (frob (toMat n n A)) := by
  rw [Dy.toReal_mul, Dy.toReal_pow, Real.sqrt_mul (pow_nonneg (frob2_nonneg n n A) k),
    sqrt_pow_eq _ (frob2_nonneg n n A), sqrt_frob2, toReal_max1, sqrt_max_one, sqrt_frob2]

theorem toReal_frob2_eq_sq (r c : ℕ) (M : Mat) : (frob2 r c M).toReal = frob (toMat r c M) ^ 2 := by
  rw [frob_sq, toReal_frob2]

/-- the scale of the cos/sin identity -/
theorem sqrt_cosSin_scale (n : ℕ) (A C S : Mat) :
    Real.sqrt ((max1 (frob2 n n A) *
        Dy.max (Dy.ofNat n) ((frob2 n n C + frob2 n n S) * (frob2 n n C + frob2 n n S))).toReal)
      = max 1 (frob (toMat n n A)) *
        max (Real.sqrt n) (frob (toMat n n C) ^ 2 + frob (toMat n n S) ^ 2) := by
  have hcs : 0 ≤ (frob2 n n C).toReal + (frob2 n n S).toReal :=
    add_nonneg (frob2_nonneg n n C) (frob2_nonneg n n S)
  rw [Dy.toReal_mul, toReal_max1, Dy.toReal_max, Dy.toReal_mul, Dy.toReal_add, Dy.toReal_ofNat,
    Real.sqrt_mul (le_trans zero_le_one (le_max_left _ _)), sqrt_max_one, sqrt_frob2, sqrt_max,
    Real.sqrt_mul_self hcs, toReal_frob2_eq_sq, toReal_frob2_eq_sq]

/-! ## exact structure predicates -/

/-- P is a permutation matrix: entries 0 or 1, every row and column sums to 1 -/
def IsPermMatrix {n : ℕ} (P : Matrix (Fin n) (Fin n) ℂ) : Prop :=
  (∀ i j, P i j = 0 ∨ P i j = 1) ∧ (∀ i, ∑ j, P i j = 1) ∧ (∀ j, ∑ i, P i j = 1)

/-- entries strictly above the diagonal vanish -/
def IsLowerTri {r c : ℕ} (L : Matrix (Fin r) (Fin c) ℂ) : Prop :=
  ∀ (i : Fin r) (j : Fin c), (i : ℕ) < (j : ℕ) → L i j = 0

/-- entries more than `band` below the diagonal vanish (band 0: upper triangular, band 1: upper Hessenberg) -/
def IsUpperBand (band : ℕ) {r c : ℕ} (U : Matrix (Fin r) (Fin c) ℂ) : Prop :=
  ∀ (i : Fin r) (j : Fin c), (j : ℕ) + band < (i : ℕ) → U i j = 0

theorem isLower_sound {r c : ℕ} {L : Mat} (h : isLower r c L = true) : IsLowerTri (toMat r c L) := by
  intro i j hij
  rw [isLower, allTo_iff] at h
  have h1 := h i i.2
  rw [allTo_iff] at h1
  have h2 := h1 j j.2
  rw [Bool.or_eq_true, decide_eq_true_eq] at h2
  rcases h2 with h2 | h2
  · omega
  · exact (G.isZero_iff _).1 h2

theorem isUpperBand_sound {band r c : ℕ} {U : Mat} (h : isUpperBand band r c U = true) :
    IsUpperBand band (toMat r c U) := by
  intro i j hij
  rw [isUpperBand, allTo_iff] at h
  have h1 := h i i.2
  rw [allTo_iff] at h1
  have h2 := h1 j j.2
  rw [Bool.or_eq_true, decide_eq_true_eq] at h2
  rcases h2 with h2 | h2
  · omega
  · exact (G.isZero_iff _).1 h2

theorem unitDiag_sound {n : ℕ} {L : Mat} (h : unitDiag n L = true) : ∀ i, toMat n n L i i = 1 := by
  intro i
  rw [unitDiag, allTo_iff] at h
  have := (G.eqv_iff _ _).1 (h i i.2)
  simpa using this

theorem posRealDiag_sound {n : ℕ} {L : Mat} (h : posRealDiag n L = true) :
    ∀ i, (toMat n n L i i).im = 0 ∧ 0 < (toMat n n L i i).re := by
  intro i
  rw [posRealDiag, allTo_iff] at h
  have h1 := h i i.2
  rw [Bool.and_eq_true] at h1
  refine ⟨?_, ?_⟩
  · have := (Dy.isZero_iff _).1 h1.1
    simpa [toMat_apply] using this
  · have := (Dy.lt_iff _ _).1 h1.2
    simpa [toMat_apply] using this

theorem sum_range_eq_sum_fin {n : ℕ} (f : ℕ → ℂ) : ∑ l ∈ Finset.range n, f l = ∑ l : Fin n, f l :=
  Finset.sum_range f

theorem isPerm_sound {n : ℕ} {P : Mat} (h : isPerm n P = true) : IsPermMatrix (toMat n n P) := by
  rw [isPerm, Bool.and_eq_true, Bool.and_eq_true] at h
  obtain ⟨⟨h1, h2⟩, h3⟩ := h
  refine ⟨?_, ?_, ?_⟩
  · intro i j
    rw [allTo_iff] at h1
    have h1' := h1 i i.2
    rw [allTo_iff] at h1'
    have := h1' j j.2
    rw [Bool.or_eq_true] at this
    rcases this with h | h
    · left; simpa using (G.eqv_iff _ _).1 h
    · right; simpa using (G.eqv_iff _ _).1 h
  · intro i
    rw [allTo_iff] at h2
    have := (G.eqv_iff _ _).1 (h2 i i.2)
    rw [toC_sumG, G.toC_one, sum_range_eq_sum_fin] at this
    simpa [toMat_apply] using this
  · intro j
    rw [allTo_iff] at h3
    have := (G.eqv_iff _ _).1 (h3 j j.2)
    rw [toC_sumG, G.toC_one, sum_range_eq_sum_fin] at this
    simpa [toMat_apply] using this

/-! ## eigenvalue lists (n×1 columns) -/

/-- the i-th entry of an n×1 column as a complex number -/
noncomputable def colVec (n : ℕ) (E : Mat) : Fin n → ℂ := fun i => (get E i 0).toC

theorem toMat_diagM' (n : ℕ) (E : Mat) : toMat n n (diagM n E) = Matrix.diagonal (colVec n E) :=
  toMat_diagM n E

theorem allReal_sound {n : ℕ} {E : Mat} (h : allReal n E = true) : ∀ i, (colVec n E i).im = 0 := by
  intro i
  rw [allReal, allTo_iff] at h
  exact (G.isReal_iff _).1 (h i i.2)

theorem nonneg_sound {n : ℕ} {E : Mat} (h : nonneg n E = true) : ∀ i, 0 ≤ (colVec n E i).re := by
  intro i
  rw [nonneg, allTo_iff] at h
  have := (Dy.le_iff _ _).1 (h i i.2)
  simpa [colVec] using this

theorem ascending_sound {n : ℕ} {E : Mat} (h : ascending n E = true) :
    ∀ i j : Fin n, (i : ℕ) + 1 = (j : ℕ) → (colVec n E i).re ≤ (colVec n E j).re := by
  intro i j hij
  rw [ascending, allTo_iff] at h
  have hi : (i : ℕ) < n - 1 := by have := j.2; omega
  have := (Dy.le_iff _ _).1 (h i hi)
  rw [hij] at this
  simpa [colVec] using this

theorem descending_sound {n : ℕ} {E : Mat} (h : descending n E = true) :
    ∀ i j : Fin n, (i : ℕ) + 1 = (j : ℕ) → (colVec n E j).re ≤ (colVec n E i).re := by
  intro i j hij
  rw [descending, allTo_iff] at h
  have hi : (i : ℕ) < n - 1 := by have := j.2; omega
  have := (Dy.le_iff _ _).1 (h i hi)
  rw [hij] at this
  simpa [colVec] using this

/-! ## orthonormality residual -/

theorem orthCheck_sound {r c : ℕ} {p : ℤ} {Q : Mat} (h : orthCheck r c p Q = true) :
    frob ((toMat r c Q)ᴴ * toMat r c Q - 1) ≤ (2:ℝ) ^ (10 - p) * Real.sqrt c := by
  have := frobLe_sound h
  rwa [orthResid, toMat_msub, toMat_mmul, toMat_conjT, toMat_ident, sqrt_ofNat] at this

end Mp.Cert

namespace Mp.Cert

/-- the exact squared-norm comparison decides the norm inequality -/
theorem frobLe_iff {r c : ℕ} {p : ℤ} {M : Mat} {S : Dy} (hS : 0 ≤ S.toReal) :
    frobLe r c p M S = true ↔ frob (toMat r c M) ≤ (2:ℝ) ^ (10 - p) * Real.sqrt S.toReal := by
  constructor
  · exact frobLe_sound
  · intro h
    by_contra hc
    rw [Bool.not_eq_true] at hc
    exact frobLe_complete hS hc h

theorem toReal_mul_nonneg {a b : Dy} (ha : 0 ≤ a.toReal) (hb : 0 ≤ b.toReal) : 0 ≤ (a * b).toReal := by
  rw [Dy.toReal_mul]; exact mul_nonneg ha hb

theorem max1_nonneg (a : Dy) : 0 ≤ (max1 a).toReal := by
  rw [toReal_max1]; exact le_trans zero_le_one (le_max_left _ _)

end Mp.Cert
