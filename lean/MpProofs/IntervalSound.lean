/-
  MpProofs/IntervalSound.lean — containment theorems for real interval arithmetic (finite endpoints)
  and soundness/completeness of the three-valued interval comparisons, on top of the proved core.
-/
import MpProofs.Cmp
import MpProofs.Div
import MpModel.Interval
import MpProofs.Interval

namespace Mp

/-- an interval with finite canonical endpoints in the right order -/
def FinIv (I : Mpi) : Prop := CanonFin I.1 ∧ CanonFin I.2 ∧ val I.1 ≤ val I.2

/-- membership of a rational in a finite interval -/
def MemIv (x : ℚ) (I : Mpi) : Prop := val I.1 ≤ x ∧ x ≤ val I.2

/-! ### directed rounding gives bounds -/

theorem roundOK_f_le {prec : ℤ} (hp : 0 ≤ prec) {x : ℚ} {r : Mpf} (h : RoundOK prec .f x r) : val r ≤ x := by
  rcases eq_or_lt_of_le hp with h0 | hpos
  · rw [h.2.1 h0.symm]
  · exact ((h.2.2 hpos).1).2.1

theorem roundOK_c_ge {prec : ℤ} (hp : 0 ≤ prec) {x : ℚ} {r : Mpf} (h : RoundOK prec .c x r) : x ≤ val r := by
  rcases eq_or_lt_of_le hp with h0 | hpos
  · rw [h.2.1 h0.symm]
  · exact ((h.2.2 hpos).1).2.1

theorem roundOK_ne_nan {prec : ℤ} {rnd : Rnd} {x : ℚ} {r : Mpf} (h : RoundOK prec rnd x r) : r ≠ fnan :=
  not_fnan_of_canonFin h.1

/-- monotonicity of correct rounding in the two directed modes used by interval arithmetic -/
theorem roundOK_f_c_le {prec : ℤ} (hp : 0 ≤ prec) {x y : ℚ} {r s : Mpf} (hxy : x ≤ y)
    (h1 : RoundOK prec .f x r) (h2 : RoundOK prec .c y s) : val r ≤ val s :=
  le_trans (roundOK_f_le hp h1) (le_trans hxy (roundOK_c_ge hp h2))

/-! ### addition, subtraction, negation, unary plus -/

theorem mpi_add_sound {s t : Mpi} (hs : FinIv s) (ht : FinIv t) {prec : ℤ} (hp : 0 ≤ prec) {x y : ℚ}
    (hx : MemIv x s) (hy : MemIv y t) : FinIv (mpi_add s t prec) ∧ MemIv (x + y) (mpi_add s t prec) := by
  have ha := mpf_add_spec hs.1 ht.1 hp .f false
  have hb := mpf_add_spec hs.2.1 ht.2.1 hp .c false
  simp only [Bool.false_eq_true, if_false] at ha hb
  unfold mpi_add
  simp only [roundOK_ne_nan ha, roundOK_ne_nan hb, if_false]
  have la := roundOK_f_le hp ha
  have lb := roundOK_c_ge hp hb
  refine ⟨⟨ha.1, hb.1, ?_⟩, ?_, ?_⟩
  · show val (mpf_add s.1 t.1 prec .f) ≤ val (mpf_add s.2 t.2 prec .c)
    have := hs.2.2; have := ht.2.2; linarith
  · show val (mpf_add s.1 t.1 prec .f) ≤ x + y
    have := hx.1; have := hy.1; linarith
  · show x + y ≤ val (mpf_add s.2 t.2 prec .c)
    have := hx.2; have := hy.2; linarith

theorem mpi_sub_sound {s t : Mpi} (hs : FinIv s) (ht : FinIv t) {prec : ℤ} (hp : 0 ≤ prec) {x y : ℚ}
    (hx : MemIv x s) (hy : MemIv y t) : FinIv (mpi_sub s t prec) ∧ MemIv (x - y) (mpi_sub s t prec) := by
  have ha := mpf_sub_spec hs.1 ht.2.1 hp .f
  have hb := mpf_sub_spec hs.2.1 ht.1 hp .c
  unfold mpi_sub
  simp only [roundOK_ne_nan ha, roundOK_ne_nan hb, if_false]
  have la := roundOK_f_le hp ha
  have lb := roundOK_c_ge hp hb
  refine ⟨⟨ha.1, hb.1, ?_⟩, ?_, ?_⟩
  · show val (mpf_sub s.1 t.2 prec .f) ≤ val (mpf_sub s.2 t.1 prec .c)
    have := hs.2.2; have := ht.2.2; linarith
  · show val (mpf_sub s.1 t.2 prec .f) ≤ x - y
    have := hx.1; have := hy.2; linarith
  · show x - y ≤ val (mpf_sub s.2 t.1 prec .c)
    have := hx.2; have := hy.1; linarith

theorem mpi_neg_sound {s : Mpi} (hs : FinIv s) {prec : ℤ} (hp : 0 ≤ prec) {x : ℚ} (hx : MemIv x s) :
    FinIv (mpi_neg s prec) ∧ MemIv (-x) (mpi_neg s prec) := by
  have ha := mpf_neg_spec hs.2.1 hp .f
  have hb := mpf_neg_spec hs.1 hp .c
  have la := roundOK_f_le hp ha
  have lb := roundOK_c_ge hp hb
  refine ⟨⟨ha.1, hb.1, ?_⟩, ?_, ?_⟩
  · show val (mpf_neg s.2 prec .f) ≤ val (mpf_neg s.1 prec .c)
    have := hs.2.2; linarith
  · show val (mpf_neg s.2 prec .f) ≤ -x
    have := hx.2; linarith
  · show -x ≤ val (mpf_neg s.1 prec .c)
    have := hx.1; linarith

theorem mpi_pos_sound {s : Mpi} (hs : FinIv s) {prec : ℤ} (hp : 0 ≤ prec) {x : ℚ} (hx : MemIv x s) :
    FinIv (mpi_pos s prec) ∧ MemIv x (mpi_pos s prec) := by
  have ha := mpf_pos_spec hs.1 hp .f
  have hb := mpf_pos_spec hs.2.1 hp .c
  have la := roundOK_f_le hp ha
  have lb := roundOK_c_ge hp hb
  refine ⟨⟨ha.1, hb.1, ?_⟩, ?_, ?_⟩
  · show val (mpf_pos s.1 prec .f) ≤ val (mpf_pos s.2 prec .c)
    have := hs.2.2; linarith
  · show val (mpf_pos s.1 prec .f) ≤ x
    have := hx.1; linarith
  · show x ≤ val (mpf_pos s.2 prec .c)
    have := hx.2; linarith

/-! ### signs of canonical finite endpoints -/

theorem sign_nonneg_iff {s : Mpf} (hs : CanonFin s) : mpf_sign s ≥ 0 ↔ 0 ≤ val s := by
  rw [mpf_sign_canon hs]; unfold cmpQ
  rcases lt_trichotomy (val s) 0 with h | h | h
  · rw [if_pos h]; constructor <;> intro h' <;> [exact absurd h' (by decide); linarith]
  · rw [h]; simp
  · rw [if_neg (by linarith), if_neg (by linarith)]; constructor <;> intro _ <;> [linarith; decide]

theorem sign_nonpos_iff {s : Mpf} (hs : CanonFin s) : mpf_sign s ≤ 0 ↔ val s ≤ 0 := by
  rw [mpf_sign_canon hs]; unfold cmpQ
  rcases lt_trichotomy (val s) 0 with h | h | h
  · rw [if_pos h]; constructor <;> intro _ <;> [linarith; decide]
  · rw [h]; simp
  · rw [if_neg (by linarith), if_neg (by linarith)]; constructor <;> intro h' <;> [exact absurd h' (by decide); linarith]

theorem sign_zero_iff {s : Mpf} (hs : CanonFin s) : mpf_sign s = 0 ↔ val s = 0 := by
  rw [mpf_sign_canon hs]; unfold cmpQ
  rcases lt_trichotomy (val s) 0 with h | h | h
  · rw [if_pos h]; constructor <;> intro h' <;> [exact absurd h' (by decide); linarith]
  · rw [h]; simp
  · rw [if_neg (by linarith), if_neg (by linarith)]; constructor <;> intro h' <;> [exact absurd h' (by decide); linarith]

theorem canonFin_ne_specials {s : Mpf} (hs : CanonFin s) : s ≠ fninf ∧ s ≠ finf ∧ s ≠ fnan := by
  rcases hs.cases with rfl | ⟨hm, _⟩
  · decide
  · refine ⟨?_, ?_, ?_⟩ <;> intro h <;> rw [h] at hm <;> exact hm rfl

/-! ### multiplication -/

/-- one directed product pair bounds `x*y` when the four comparisons below hold -/
theorem mul_pair_sound {p q u v : Mpf} (hp' : CanonFin p) (hq : CanonFin q) (hu : CanonFin u) (hv : CanonFin v)
    {prec : ℤ} (hp : 0 ≤ prec) {z : ℚ} (hlo : val p * val q ≤ z) (hhi : z ≤ val u * val v) :
    CanonFin (mpf_mul p q prec .f) ∧ CanonFin (mpf_mul u v prec .c) ∧
    val (mpf_mul p q prec .f) ≤ z ∧ z ≤ val (mpf_mul u v prec .c) ∧
    mpf_mul p q prec .f ≠ fnan ∧ mpf_mul u v prec .c ≠ fnan := by
  have ha := mpf_mul_spec hp' hq hp .f
  have hb := mpf_mul_spec hu hv hp .c
  exact ⟨ha.1, hb.1, le_trans (roundOK_f_le hp ha) hlo, le_trans hhi (roundOK_c_ge hp hb),
    roundOK_ne_nan ha, roundOK_ne_nan hb⟩

/-- extremes of a bilinear form on a box are attained at the corners -/
theorem mul_box_bounds {a b c d x y : ℚ} (hx1 : a ≤ x) (hx2 : x ≤ b) (hy1 : c ≤ y) (hy2 : y ≤ d) :
    min (min (a*c) (a*d)) (min (b*c) (b*d)) ≤ x*y ∧ x*y ≤ max (max (a*c) (a*d)) (max (b*c) (b*d)) := by
  constructor
  · rcases le_total 0 y with hy | hy
    · -- x*y ≥ a*y
      have h1 : a * y ≤ x * y := mul_le_mul_of_nonneg_right hx1 hy
      rcases le_total 0 a with ha | ha
      · have : a * c ≤ a * y := mul_le_mul_of_nonneg_left hy1 ha
        exact le_trans (le_trans (min_le_left _ _) (min_le_left _ _)) (le_trans this h1)
      · have : a * d ≤ a * y := mul_le_mul_of_nonpos_left hy2 ha
        exact le_trans (le_trans (min_le_left _ _) (min_le_right _ _)) (le_trans this h1)
    · have h1 : b * y ≤ x * y := mul_le_mul_of_nonpos_right hx2 hy
      rcases le_total 0 b with hb | hb
      · have : b * c ≤ b * y := mul_le_mul_of_nonneg_left hy1 hb
        exact le_trans (le_trans (min_le_right _ _) (min_le_left _ _)) (le_trans this h1)
      · have : b * d ≤ b * y := mul_le_mul_of_nonpos_left hy2 hb
        exact le_trans (le_trans (min_le_right _ _) (min_le_right _ _)) (le_trans this h1)
  · rcases le_total 0 y with hy | hy
    · have h1 : x * y ≤ b * y := mul_le_mul_of_nonneg_right hx2 hy
      rcases le_total 0 b with hb | hb
      · have : b * y ≤ b * d := mul_le_mul_of_nonneg_left hy2 hb
        exact le_trans (le_trans h1 this) (le_trans (le_max_right _ _) (le_max_right _ _))
      · have : b * y ≤ b * c := mul_le_mul_of_nonpos_left hy1 hb
        exact le_trans (le_trans h1 this) (le_trans (le_max_left _ _) (le_max_right _ _))
    · have h1 : x * y ≤ a * y := mul_le_mul_of_nonpos_right hx1 hy
      rcases le_total 0 a with ha | ha
      · have : a * y ≤ a * d := mul_le_mul_of_nonneg_left hy2 ha
        exact le_trans (le_trans h1 this) (le_trans (le_max_right _ _) (le_max_left _ _))
      · have : a * y ≤ a * c := mul_le_mul_of_nonpos_left hy1 ha
        exact le_trans (le_trans h1 this) (le_trans (le_max_left _ _) (le_max_left _ _))

/-- `mpf_min_max` of canonical finite values returns members attaining the exact min and max -/
theorem mpf_min_max_spec (x : Mpf) (xs : List Mpf) (hx : CanonFin x) (hxs : ∀ y ∈ xs, CanonFin y) :
    CanonFin (mpf_min_max x xs).1 ∧ CanonFin (mpf_min_max x xs).2 ∧
    (∀ y ∈ x :: xs, val (mpf_min_max x xs).1 ≤ val y ∧ val y ≤ val (mpf_min_max x xs).2) ∧
    (mpf_min_max x xs).1 ∈ x :: xs ∧ (mpf_min_max x xs).2 ∈ x :: xs := by
  unfold mpf_min_max
  -- generalise the accumulator
  suffices H : ∀ (l : List Mpf) (acc : Mpf × Mpf) (seen : List Mpf),
      (∀ y ∈ l, CanonFin y) → CanonFin acc.1 → CanonFin acc.2 →
      (∀ y ∈ seen, val acc.1 ≤ val y ∧ val y ≤ val acc.2) → acc.1 ∈ seen → acc.2 ∈ seen →
      let r := l.foldl (fun (acc : Mpf × Mpf) y =>
        (if mpf_lt y acc.1 then y else acc.1, if mpf_gt y acc.2 then y else acc.2)) acc
      CanonFin r.1 ∧ CanonFin r.2 ∧ (∀ y ∈ seen ++ l, val r.1 ≤ val y ∧ val y ≤ val r.2) ∧
        r.1 ∈ seen ++ l ∧ r.2 ∈ seen ++ l by
    have := H xs (x, x) [x] hxs hx hx (by intro y hy; simp at hy; subst hy; exact ⟨le_refl _, le_refl _⟩)
      (by simp) (by simp)
    simpa using this
  intro l
  induction l with
  | nil =>
    intro acc seen _ h1 h2 h3 h4 h5
    simpa using ⟨h1, h2, h3, h4, h5⟩
  | cons z l ih =>
    intro acc seen hl h1 h2 h3 h4 h5
    have hz : CanonFin z := hl z (by simp)
    simp only [List.foldl_cons]
    have hlt := mpf_lt_spec hz h1
    have hgt := mpf_gt_spec hz h2
    set acc' : Mpf × Mpf := (if mpf_lt z acc.1 then z else acc.1, if mpf_gt z acc.2 then z else acc.2) with hacc
    have c1 : CanonFin acc'.1 := by rw [hacc]; dsimp only; split <;> assumption
    have c2 : CanonFin acc'.2 := by rw [hacc]; dsimp only; split <;> assumption
    have b1 : val acc'.1 ≤ val acc.1 ∧ val acc'.1 ≤ val z := by
      rw [hacc]; dsimp only
      by_cases h : val z < val acc.1
      · rw [hlt, decide_eq_true h, if_pos rfl]; exact ⟨h.le, le_refl _⟩
      · rw [hlt, decide_eq_false h]; simp only [Bool.false_eq_true, if_false]; exact ⟨le_refl _, not_lt.1 h⟩
    have b2 : val acc.2 ≤ val acc'.2 ∧ val z ≤ val acc'.2 := by
      rw [hacc]; dsimp only
      by_cases h : val z > val acc.2
      · rw [hgt, decide_eq_true h, if_pos rfl]; exact ⟨h.le, le_refl _⟩
      · rw [hgt, decide_eq_false h]; simp only [Bool.false_eq_true, if_false]; exact ⟨le_refl _, not_lt.1 h⟩
    have m1 : acc'.1 ∈ seen ++ [z] := by
      rw [hacc]; dsimp only; split
      · simp
      · simp [h4]
    have m2 : acc'.2 ∈ seen ++ [z] := by
      rw [hacc]; dsimp only; split
      · simp
      · simp [h5]
    have key := ih acc' (seen ++ [z]) (fun y hy => hl y (by simp [hy])) c1 c2
      (by
        intro y hy
        rcases List.mem_append.1 hy with hy | hy
        · have := h3 y hy; exact ⟨le_trans b1.1 this.1, le_trans this.2 b2.1⟩
        · simp at hy; subst hy; exact ⟨b1.2, b2.2⟩) m1 m2
    simpa [List.append_assoc] using key

theorem mul_exact {p q : Mpf} (hp : CanonFin p) (hq : CanonFin q) :
    CanonFin (mpf_mul p q) ∧ val (mpf_mul p q) = val p * val q ∧ mpf_mul p q ≠ fnan := by
  have h := mpf_mul_spec hp hq (le_refl 0) .d
  exact ⟨h.1, h.2.1 rfl, roundOK_ne_nan h⟩

/-- **interval multiplication contains every product** (finite endpoints; all sign cases and the
four-product general case). -/
theorem mpi_mul_sound {s t : Mpi} (hs : FinIv s) (ht : FinIv t) {prec : ℤ} (hp : 0 ≤ prec) {x y : ℚ}
    (hx : MemIv x s) (hy : MemIv y t) : FinIv (mpi_mul s t prec) ∧ MemIv (x * y) (mpi_mul s t prec) := by
  obtain ⟨hsa, hsb, hsab⟩ := hs
  obtain ⟨hta, htb, htab⟩ := ht
  obtain ⟨hx1, hx2⟩ := hx
  obtain ⟨hy1, hy2⟩ := hy
  have nsa := canonFin_ne_specials hsa
  have nsb := canonFin_ne_specials hsb
  have nta := canonFin_ne_specials hta
  have ntb := canonFin_ne_specials htb
  have zero_iv : FinIv (fzero, fzero) ∧ ∀ z : ℚ, z = 0 → MemIv z (fzero, fzero) := by
    refine ⟨⟨canonFin_fzero, canonFin_fzero, le_refl _⟩, fun z hz => ?_⟩
    subst hz; exact ⟨by simp [val_fzero], by simp [val_fzero]⟩
  -- a helper closing a sign case from the two corner inequalities
  have close : ∀ {p q u v : Mpf}, CanonFin p → CanonFin q → CanonFin u → CanonFin v →
      val p * val q ≤ x * y → x * y ≤ val u * val v →
      ∀ (d1 d2 : Mpf),
      FinIv ((if mpf_mul p q prec .f = fnan then d1 else mpf_mul p q prec .f),
             (if mpf_mul u v prec .c = fnan then d2 else mpf_mul u v prec .c)) ∧
      MemIv (x * y) ((if mpf_mul p q prec .f = fnan then d1 else mpf_mul p q prec .f),
             (if mpf_mul u v prec .c = fnan then d2 else mpf_mul u v prec .c)) := by
    intro p q u v hp' hq hu hv hlo hhi d1 d2
    obtain ⟨c1, c2, l1, l2, n1, n2⟩ := mul_pair_sound hp' hq hu hv hp hlo hhi
    rw [if_neg n1, if_neg n2]
    exact ⟨⟨c1, c2, le_trans l1 l2⟩, l1, l2⟩
  unfold mpi_mul
  dsimp only
  split
  · rename_i h
    have hsa0 := (sign_zero_iff hsa).1 (h.1.trans h.2)
    have hsb0 := (sign_zero_iff hsb).1 h.2
    rw [if_neg (by simp [nta.1, ntb.2.1])]
    have hx0 : x = 0 := by linarith
    exact ⟨zero_iv.1, zero_iv.2 _ (by rw [hx0]; ring)⟩
  split
  · rename_i _ h
    have hta0 := (sign_zero_iff hta).1 (h.1.trans h.2)
    have htb0 := (sign_zero_iff htb).1 h.2
    rw [if_neg (by simp [nsa.1, nsb.2.1])]
    have hy0 : y = 0 := by linarith
    exact ⟨zero_iv.1, zero_iv.2 _ (by rw [hy0]; ring)⟩
  split
  · rename_i _ _ hsas
    have ha0 := (sign_nonneg_iff hsa).1 hsas
    split
    · rename_i htas
      have hc0 := (sign_nonneg_iff hta).1 htas
      exact close hsa hta hsb htb (by nlinarith) (by nlinarith) _ _
    · split
      · rename_i _ htbs
        have hd0 := (sign_nonpos_iff htb).1 htbs
        exact close hsb hta hsa htb (by nlinarith) (by nlinarith) _ _
      · rename_i htas htbs
        have hc0 : val t.1 < 0 := by
          by_contra hcon; exact htas ((sign_nonneg_iff hta).2 (not_lt.1 hcon))
        have hd0 : 0 < val t.2 := by
          by_contra hcon; exact htbs ((sign_nonpos_iff htb).2 (not_lt.1 hcon))
        refine close hsb hta hsb htb ?_ ?_ _ _
        · rcases le_total 0 y with h | h <;> nlinarith
        · rcases le_total 0 y with h | h <;> nlinarith
  · rename_i _ _ hsas
    have ha0 : val s.1 < 0 := by
      by_contra hcon; exact hsas ((sign_nonneg_iff hsa).2 (not_lt.1 hcon))
    split
    · rename_i hsbs
      have hb0 := (sign_nonpos_iff hsb).1 hsbs
      split
      · rename_i htas
        have hc0 := (sign_nonneg_iff hta).1 htas
        exact close hsa htb hsb hta (by nlinarith) (by nlinarith) _ _
      · split
        · rename_i _ htbs
          have hd0 := (sign_nonpos_iff htb).1 htbs
          exact close hsb htb hsa hta (by nlinarith) (by nlinarith) _ _
        · rename_i htas htbs
          have hc0 : val t.1 < 0 := by
            by_contra hcon; exact htas ((sign_nonneg_iff hta).2 (not_lt.1 hcon))
          have hd0 : 0 < val t.2 := by
            by_contra hcon; exact htbs ((sign_nonpos_iff htb).2 (not_lt.1 hcon))
          refine close hsa htb hsa hta ?_ ?_ _ _
          · rcases le_total 0 y with h | h <;> nlinarith
          · rcases le_total 0 y with h | h <;> nlinarith
    · -- general case
      obtain ⟨k1, v1, n1⟩ := mul_exact hsa hta
      obtain ⟨k2, v2, n2⟩ := mul_exact hsa htb
      obtain ⟨k3, v3, n3⟩ := mul_exact hsb hta
      obtain ⟨k4, v4, n4⟩ := mul_exact hsb htb
      rw [if_neg (by simp [n1, n2, n3, n4])]
      obtain ⟨m1, m2, mall, _, _⟩ := mpf_min_max_spec (mpf_mul s.1 t.1) [mpf_mul s.1 t.2, mpf_mul s.2 t.1, mpf_mul s.2 t.2]
        k1 (by intro z hz; simp at hz; rcases hz with rfl | rfl | rfl <;> assumption)
      have hbox := mul_box_bounds hx1 hx2 hy1 hy2
      have q1 := mall _ (by simp : mpf_mul s.1 t.1 ∈ _)
      have q2 := mall _ (by simp : mpf_mul s.1 t.2 ∈ _)
      have q3 := mall _ (by simp : mpf_mul s.2 t.1 ∈ _)
      have q4 := mall _ (by simp : mpf_mul s.2 t.2 ∈ _)
      rw [v1] at q1; rw [v2] at q2; rw [v3] at q3; rw [v4] at q4
      have lo : val (mpf_min_max (mpf_mul s.1 t.1) [mpf_mul s.1 t.2, mpf_mul s.2 t.1, mpf_mul s.2 t.2]).1 ≤ x * y :=
        le_trans (le_min (le_min q1.1 q2.1) (le_min q3.1 q4.1)) hbox.1
      have hi : x * y ≤ val (mpf_min_max (mpf_mul s.1 t.1) [mpf_mul s.1 t.2, mpf_mul s.2 t.1, mpf_mul s.2 t.2]).2 :=
        le_trans hbox.2 (max_le (max_le q1.2 q2.2) (max_le q3.2 q4.2))
      have ra := mpf_pos_spec m1 hp .f
      have rb := mpf_pos_spec m2 hp .c
      have la := roundOK_f_le hp ra
      have lb := roundOK_c_ge hp rb
      exact ⟨⟨ra.1, rb.1, by linarith⟩, by linarith, by linarith⟩

/-! ### comparisons (C16) -/

/-- `mpi_lt` answers `True` exactly when every member of `s` is below every member of `t`,
`False` exactly when no member of `s` is below any member of `t`, and `None` otherwise. -/
theorem mpi_lt_spec {s t : Mpi} (hs : FinIv s) (ht : FinIv t) :
    (mpi_lt s t = some true ↔ ∀ x y, MemIv x s → MemIv y t → x < y) ∧
    (mpi_lt s t = some false ↔ ∀ x y, MemIv x s → MemIv y t → ¬ x < y) := by
  have e1 := mpf_lt_spec hs.2.1 ht.1
  have e2 := mpf_ge_spec hs.1 ht.2.1
  unfold mpi_lt
  constructor
  · constructor
    · intro h x y hx hy
      by_cases c : val s.2 < val t.1
      · exact lt_of_le_of_lt hx.2 (lt_of_lt_of_le c hy.1)
      · rw [e1, decide_eq_false c] at h
        simp only [Bool.false_eq_true, if_false] at h
        split at h <;> simp at h
    · intro h
      have c : val s.2 < val t.1 := h _ _ ⟨hs.2.2, le_refl _⟩ ⟨le_refl _, ht.2.2⟩
      rw [e1, decide_eq_true c]; simp
  · constructor
    · intro h x y hx hy
      by_cases c : val s.2 < val t.1
      · rw [e1, decide_eq_true c] at h; simp at h
      · rw [e1, decide_eq_false c] at h
        simp only [Bool.false_eq_true, if_false] at h
        by_cases c2 : val s.1 ≥ val t.2
        · have := hx.1; have := hy.2; intro hlt; linarith
        · rw [e2, decide_eq_false c2] at h; simp at h
    · intro h
      have c2 : val s.1 ≥ val t.2 := not_lt.1 (h _ _ ⟨le_refl _, hs.2.2⟩ ⟨ht.2.2, le_refl _⟩)
      have c : ¬ val s.2 < val t.1 := by have := hs.2.2; have := ht.2.2; intro hc; linarith
      rw [e1, decide_eq_false c, e2, decide_eq_true c2]; simp

theorem mpi_le_spec {s t : Mpi} (hs : FinIv s) (ht : FinIv t) :
    (mpi_le s t = some true ↔ ∀ x y, MemIv x s → MemIv y t → x ≤ y) ∧
    (mpi_le s t = some false ↔ ∀ x y, MemIv x s → MemIv y t → ¬ x ≤ y) := by
  have e1 := mpf_le_spec hs.2.1 ht.1
  have e2 := mpf_gt_spec hs.1 ht.2.1
  unfold mpi_le
  constructor
  · constructor
    · intro h x y hx hy
      by_cases c : val s.2 ≤ val t.1
      · exact le_trans hx.2 (le_trans c hy.1)
      · rw [e1, decide_eq_false c] at h
        simp only [Bool.false_eq_true, if_false] at h
        split at h <;> simp at h
    · intro h
      have c : val s.2 ≤ val t.1 := h _ _ ⟨hs.2.2, le_refl _⟩ ⟨le_refl _, ht.2.2⟩
      rw [e1, decide_eq_true c]; simp
  · constructor
    · intro h x y hx hy
      by_cases c : val s.2 ≤ val t.1
      · rw [e1, decide_eq_true c] at h; simp at h
      · rw [e1, decide_eq_false c] at h
        simp only [Bool.false_eq_true, if_false] at h
        by_cases c2 : val s.1 > val t.2
        · have := hx.1; have := hy.2; intro hle; linarith
        · rw [e2, decide_eq_false c2] at h; simp at h
    · intro h
      have c2 : val s.1 > val t.2 := not_le.1 (h _ _ ⟨le_refl _, hs.2.2⟩ ⟨ht.2.2, le_refl _⟩)
      have c : ¬ val s.2 ≤ val t.1 := by have := hs.2.2; have := ht.2.2; intro hc; linarith
      rw [e1, decide_eq_false c, e2, decide_eq_true c2]; simp

/-- interval equality is equality of both endpoints' values -/
theorem mpi_eq_spec {s t : Mpi} (hs : FinIv s) (ht : FinIv t) :
    mpi_eq s t = true ↔ val s.1 = val t.1 ∧ val s.2 = val t.2 := by
  rw [mpi_eq_iff]
  constructor
  · rintro ⟨h1, h2⟩; rw [h1, h2]; exact ⟨rfl, rfl⟩
  · rintro ⟨h1, h2⟩
    exact ⟨canonFin_val_inj hs.1 ht.1 h1, canonFin_val_inj hs.2.1 ht.2.1 h2⟩

end Mp
