/-
  MpProofs/CalcSerX.lean — meaning of the extra `sumem` reference values of `MpModel/CalcSerX.lean`:
  `polySumQ` is the finite sum of the real polynomial function over the integer range, `polyDerivDiffQ` is a difference of
  values of the derivative term list, and `linTailRef` is the limit of the partial sums of the tail of a linear combination
  of series with closed forms.
-/
import MpModel.CalcSerX
import MpProofs.CalcSer

namespace Mp.Calc
open Filter Topology Finset

theorem polyQ_cast (ts : List (ℚ × ℕ)) (x : ℚ) : ((polyQ ts x : ℚ) : ℝ) = polyFn ts (x : ℝ) := by
  unfold polyQ polyFn
  induction ts with
  | nil => simp
  | cons t ts ih =>
    simp only [List.map_cons, List.sum_cons]
    rw [Rat.cast_add, ih]
    simp only [Rat.cast_mul, Rat.cast_pow]

/-- the exact rational `polySumQ ts a n` is `Σ_{i=0}^{n} p(a+i)` for the real polynomial function `p = polyFn ts` -/
theorem polySumQ_eq (ts : List (ℚ × ℕ)) (a : ℤ) (n : ℕ) :
    ((polySumQ ts a n : ℚ) : ℝ) = ∑ i ∈ range (n + 1), polyFn ts ((a : ℝ) + (i : ℝ)) := by
  unfold polySumQ
  generalize (n + 1) = m
  induction m with
  | zero => simp
  | succ m ih =>
    rw [List.range_succ, List.foldl_append, sum_range_succ]
    simp only [List.foldl_cons, List.foldl_nil]
    rw [Rat.cast_add, ih, polyQ_cast]
    push_cast
    rfl

/-- the real term of a linear combination -/
noncomputable def linTerm (l : List (ℚ × Ser)) (k : ℕ) : ℝ := ((linTermQ l k : ℚ) : ℝ)

theorem linTerm_nil (k : ℕ) : linTerm [] k = 0 := by simp [linTerm, linTermQ]

theorem linTerm_cons (t : ℚ × Ser) (l : List (ℚ × Ser)) (k : ℕ) :
    linTerm (t :: l) k = (t.1 : ℝ) * t.2.term k + linTerm l k := by
  simp only [linTerm, linTermQ, List.map_cons, List.sum_cons, Ser.term]
  push_cast
  rfl

/-- tail of one series: `Σ_{k ≥ a}` = closed form − exact head, for `a > start` -/
theorem Ser.tendsto_tail (s : Ser) (r : Ref) (h : s.sumRef = some r) (a : ℕ) (ha : s.start < a) :
    Tendsto (fun n => ∑ k ∈ range n, s.term (a + k)) atTop
      (𝓝 (r.sem - ((s.partial s.start (a - 1) : ℚ) : ℝ))) := by
  have h0 := Ser.tendsto_partial s r h
  set m := a - s.start with hm
  have hpart : ((s.partial s.start (a - 1) : ℚ) : ℝ) = ∑ i ∈ range m, s.term (s.start + i) := by
    rw [Ser.partial_eq]
    have : a - 1 + 1 - s.start = m := by omega
    rw [this]
  have h1 : Tendsto (fun n => ∑ k ∈ range (n + m), s.term (s.start + k)) atTop (𝓝 r.sem) :=
    (tendsto_add_atTop_iff_nat m).2 h0
  have h2 := h1.sub_const (∑ i ∈ range m, s.term (s.start + i))
  rw [hpart]
  refine h2.congr fun n => ?_
  rw [add_comm n m, sum_range_add]
  have : ∀ x, s.start + (m + x) = a + x := by intro x; omega
  simp only [this]
  ring

theorem linStartOK_cons (t : ℚ × Ser) (l : List (ℚ × Ser)) (s0 : ℕ) :
    linStartOK (t :: l) s0 = true ↔ t.2.start = s0 ∧ linStartOK l s0 = true := by
  simp [linStartOK]

/-- tail of a linear combination: partial sums of `Σ_{k ≥ a} Σ_j c_j·term_j k` tend to
`Σ_j c_j·S_j − (exact head)` -/
theorem lin_tendsto_tail (l : List (ℚ × Ser)) (s0 a : ℕ) (hs : linStartOK l s0 = true) (ha : s0 < a)
    (r : Ref) (h : linSumRef l = some r) :
    Tendsto (fun n => ∑ k ∈ range n, linTerm l (a + k)) atTop
      (𝓝 (r.sem - ((linPartial l s0 (a - 1) : ℚ) : ℝ))) := by
  induction l generalizing r with
  | nil =>
    simp only [linSumRef, Option.some.injEq] at h
    subst h
    simp [linTerm_nil, linPartial, Ref.sem]
  | cons t l ih =>
    rw [linStartOK_cons] at hs
    obtain ⟨hst, hsl⟩ := hs
    simp only [linSumRef, Option.bind_eq_bind, Option.pure_def] at h
    cases h1 : t.2.sumRef with
    | none => simp [h1] at h
    | some r1 =>
      cases h2 : linSumRef l with
      | none => simp [h1, h2] at h
      | some r2 =>
        simp only [h1, h2, Option.bind_some, Option.some.injEq] at h
        subst h
        have t1 := (Ser.tendsto_tail t.2 r1 h1 a (by omega)).const_mul (t.1 : ℝ)
        have t2 := ih hsl r2 h2
        have t3 := t1.add t2
        have hval : (Ref.add (Ref.mul (Ref.rat t.1) r1) r2).sem - ((linPartial (t :: l) s0 (a - 1) : ℚ) : ℝ) =
            (t.1 : ℝ) * (r1.sem - ((t.2.partial t.2.start (a - 1) : ℚ) : ℝ)) +
              (r2.sem - ((linPartial l s0 (a - 1) : ℚ) : ℝ)) := by
          simp only [Ref.sem, linPartial, List.map_cons, List.sum_cons, hst]
          push_cast
          ring
        rw [hval]
        refine t3.congr fun n => ?_
        simp only [linTerm_cons, sum_add_distrib, mul_sum]

/-- `linTailRef` denotes the limit of the partial sums of the tail -/
theorem linTailRef_tendsto (l : List (ℚ × Ser)) (s0 a : ℕ) (r : Ref) (h : linTailRef l s0 a = some r) :
    Tendsto (fun n => ∑ k ∈ range n, linTerm l (a + k)) atTop (𝓝 r.sem) := by
  unfold linTailRef at h
  split at h
  · rename_i hc
    simp only [Bool.and_eq_true, decide_eq_true_eq] at hc
    cases h1 : linSumRef l with
    | none => simp [h1] at h
    | some r1 =>
      simp only [h1, Option.bind_eq_bind, Option.bind_some, Option.pure_def, Option.some.injEq] at h
      subst h
      have := lin_tendsto_tail l s0 a hc.1 hc.2 r1 h1
      simpa [Ref.sem_sub, Ref.sem] using this
  · simp at h

end Mp.Calc
